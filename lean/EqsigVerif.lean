import EqsigVerif.Prelude.Np
import EqsigVerif.Prelude.Wire
import EqsigVerif.Model.Displacements
import EqsigVerif.Handlers.All
import EqsigVerif.Model.Peaks
