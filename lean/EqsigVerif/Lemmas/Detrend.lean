import EqsigVerif.Model.Single
import EqsigVerif.Lemmas.Single
import Mathlib.Analysis.InnerProductSpace.Projection.Basic
import Mathlib.Analysis.InnerProductSpace.PiL2
/-!
# Detrending as the residual of an orthogonal projection (C17.d)

`remove_poly` subtracts `Σ_co cofs[co]·x^(k−co)` on the grid `x = linspace(0, 1, n)`; records are embedded in `ℝⁿ`
(`toVec`), `polySpace n k = span{1, x, …, x^k}`.  `np.polyfit` is external: its defining property (least squares:
residual ⟂ `{1, x, …, x^k}`) is the named hypothesis `PolyfitIsLSQ`.
-/
set_option linter.unusedSectionVars false
set_option linter.unusedVariables false
set_option linter.unusedSimpArgs false
namespace EqsigVerif.Model.Single
open EqsigVerif Submodule

/-! ### the model's correction as a finite sum -/

theorem foldl_add_eq_sum (f : ℕ → ℚ) (a : ℚ) (m : ℕ) :
    (List.range m).foldl (fun acc co => acc + f co) a = a + ∑ co ∈ Finset.range m, f co := by
  induction m with
  | zero => simp
  | succ m ih => rw [List.range_succ, List.foldl_append, ih, Finset.sum_range_succ]; simp [add_assoc]

theorem polyCorrection_eq_sum (cofs : List ℚ) (x : ℚ) :
    polyCorrection cofs x
      = ∑ co ∈ Finset.range cofs.length, cofs.getD co 0 * x ^ (cofs.length - 1 - co) := by
  unfold polyCorrection
  rw [foldl_add_eq_sum]; simp

@[simp] theorem length_linspace01 (n : ℕ) : (linspace01 n).length = n := by simp [linspace01]

@[simp] theorem length_removePolyWith (cofs v : List ℚ) : (removePolyWith cofs v).length = v.length := by
  simp [removePolyWith]

theorem removePolyWith_getD (cofs v : List ℚ) (i : ℕ) (hi : i < v.length) :
    (removePolyWith cofs v).getD i 0
      = v.getD i 0 - polyCorrection cofs ((linspace01 v.length).getD i 0) := by
  have h2 : i < (linspace01 v.length).length := by simpa using hi
  simp [removePolyWith, List.getD_eq_getElem?_getD, List.getElem?_zipWith,
    List.getElem?_eq_getElem hi, List.getElem?_eq_getElem h2]

/-! ### records as vectors of `ℝⁿ` -/

abbrev E (n : ℕ) := EuclideanSpace ℝ (Fin n)

/-- a record (list of rationals = doubles) as a vector of `ℝⁿ` -/
noncomputable def toVec (n : ℕ) (l : List ℚ) : E n :=
  WithLp.toLp 2 (fun i : Fin n => ((l.getD i 0 : ℚ) : ℝ))

/-- the monomial `x^j` sampled on `x = linspace(0, 1, n)` -/
noncomputable def powVec (n j : ℕ) : E n :=
  WithLp.toLp 2 (fun i : Fin n => (((linspace01 n).getD i 0 : ℚ) : ℝ) ^ j)

/-- `V = span{1, x, …, x^k} ⊂ ℝⁿ` -/
noncomputable def polySpace (n k : ℕ) : Submodule ℝ (E n) :=
  span ℝ (Set.range (fun j : Fin (k + 1) => powVec n j))

/-- residual of the orthogonal projection onto `V` -/
noncomputable def resid {n : ℕ} (V : Submodule ℝ (E n)) (y : E n) : E n := y - V.starProjection y

/-- hypothesis **X** on `np.polyfit`: the coefficients are least-squares ones, i.e. the residual of the fit is
orthogonal to `1, x, …, x^k` (normal equations). -/
def PolyfitIsLSQ (n k : ℕ) (cofs v : List ℚ) : Prop :=
  ∀ j, j ≤ k → inner ℝ (toVec n (removePolyWith cofs v)) (powVec n j) = 0

theorem toVec_addL (n : ℕ) (a b : List ℚ) (ha : a.length = n) (hb : b.length = n) :
    toVec n (Np.addL a b) = toVec n a + toVec n b := by
  ext i
  have h1 : (i : ℕ) < a.length := by rw [ha]; exact i.2
  have h2 : (i : ℕ) < b.length := by rw [hb]; exact i.2
  simp [toVec, Np.addL, List.getD_eq_getElem?_getD, List.getElem?_zipWith,
    List.getElem?_eq_getElem h1, List.getElem?_eq_getElem h2]

theorem toVec_injective (n : ℕ) (a b : List ℚ) (ha : a.length = n) (hb : b.length = n)
    (h : toVec n a = toVec n b) : a = b := by
  apply List.ext_getElem (by rw [ha, hb])
  intro i h1 h2
  have hi : i < n := by omega
  have := congrArg (fun v : E n => v ⟨i, hi⟩) h
  simp only [toVec] at this
  have h3 : ((a.getD i 0 : ℚ) : ℝ) = ((b.getD i 0 : ℚ) : ℝ) := this
  have h4 := Rat.cast_injective h3
  simpa [List.getD_eq_getElem?_getD, List.getElem?_eq_getElem h1, List.getElem?_eq_getElem h2] using h4

/-- what `remove_poly` subtracts, as a vector -/
theorem correction_eq (k : ℕ) (v cofs : List ℚ) (hc : cofs.length = k + 1) :
    toVec v.length v - toVec v.length (removePolyWith cofs v)
      = ∑ co ∈ Finset.range (k + 1), ((cofs.getD co 0 : ℚ) : ℝ) • powVec v.length (k - co) := by
  ext i
  have hi : (i : ℕ) < v.length := i.2
  simp only [toVec, powVec, PiLp.sub_apply, removePolyWith_getD cofs v i hi, polyCorrection_eq_sum, hc,
    WithLp.ofLp_sum, WithLp.ofLp_smul, Finset.sum_apply, Pi.smul_apply, smul_eq_mul]
  push_cast
  simp

/-- C17.d(i): whatever the coefficients, `remove_poly` subtracts an element of `V` -/
theorem correction_mem (k : ℕ) (v cofs : List ℚ) (hc : cofs.length = k + 1) :
    toVec v.length v - toVec v.length (removePolyWith cofs v) ∈ polySpace v.length k := by
  rw [correction_eq k v cofs hc]
  apply Submodule.sum_mem
  intro co hco
  apply Submodule.smul_mem
  apply Submodule.subset_span
  exact ⟨⟨k - co, by omega⟩, rfl⟩

theorem inner_eq_zero_of_span {n k : ℕ} (r : E n)
    (h : ∀ j, j ≤ k → inner ℝ r (powVec n j) = 0) : ∀ w ∈ polySpace n k, inner ℝ r w = 0 := by
  intro w hw
  unfold polySpace at hw
  induction hw using Submodule.span_induction with
  | mem x hx => obtain ⟨j, rfl⟩ := hx; exact h j (by omega)
  | zero => simp
  | add x y _ _ hx hy => rw [inner_add_right, hx, hy, add_zero]
  | smul c x _ hx => rw [inner_smul_right, hx, mul_zero]

/-- C17.d(ii): with least-squares coefficients, `remove_poly y = y − P y` -/
theorem removePoly_eq_resid (k : ℕ) (v cofs : List ℚ) (hc : cofs.length = k + 1)
    (hlsq : PolyfitIsLSQ v.length k cofs v) :
    toVec v.length (removePolyWith cofs v) = resid (polySpace v.length k) (toVec v.length v) := by
  unfold resid
  have hmem := correction_mem k v cofs hc
  have hproj : (polySpace v.length k).starProjection (toVec v.length v)
      = toVec v.length v - toVec v.length (removePolyWith cofs v) := by
    apply eq_starProjection_of_mem_of_inner_eq_zero hmem
    intro w hw
    rw [sub_sub_cancel]
    exact inner_eq_zero_of_span _ hlsq w hw
  rw [hproj, sub_sub_cancel]

/-! ### consequences (as in `design-evidence/c17_projection_residual.lean.txt`) -/

theorem resid_sub_mem {n : ℕ} (V : Submodule ℝ (E n)) (y : E n) : y - resid V y ∈ V := by
  simp [resid]

theorem proj_resid {n : ℕ} (V : Submodule ℝ (E n)) (y : E n) : V.starProjection (resid V y) = 0 := by
  have h : V.starProjection (V.starProjection y) = V.starProjection y :=
    (starProjection_eq_self_iff).mpr (starProjection_apply_mem V y)
  simp [resid, map_sub, h]

theorem resid_idem {n : ℕ} (V : Submodule ℝ (E n)) (y : E n) : resid V (resid V y) = resid V y := by
  unfold resid
  rw [show V.starProjection (y - V.starProjection y) = 0 from proj_resid V y]
  simp

theorem resid_add_mem {n : ℕ} (V : Submodule ℝ (E n)) (y q : E n) (hq : q ∈ V) :
    resid V (y + q) = resid V y := by
  unfold resid
  rw [map_add, (starProjection_eq_self_iff).mpr hq]
  abel

end EqsigVerif.Model.Single
