import EqsigVerif.Prelude.NpW
import EqsigVerif.Model.Single3
import Mathlib.Tactic.Ring
import Mathlib.Tactic.Linarith
import Mathlib.Tactic.Push
/-!
# helper lemmas for the bridges of `tools/py2lean_x_rest2.py` (Python subscripts, `min`/`max` against "all entries", loops)
-/
set_option linter.unusedSectionVars false
set_option linter.unusedVariables false
namespace EqsigVerif.Lemmas.Rest2
open EqsigVerif EqsigVerif.Wire EqsigVerif.Np

/-! ### Python subscripts -/

theorem pyGetE_nat {γ : Type} (l : List γ) (k : Nat) (h : k < l.length) : NpR.pyGetE l (k : Int) = .ok l[k] := by
  unfold NpR.pyGetE
  have h0 : ¬ ((k : Int) < 0) := by omega
  simp [h0, h]

theorem pyGetE_nat_getD {γ : Type} (l : List γ) (k : Nat) (d : γ) (h : k < l.length) : NpR.pyGetE l (k : Int) = .ok (l.getD k d) := by
  rw [pyGetE_nat l k h]; simp [List.getD, h]

/-- `(l + [x])[-1] = x` -/
theorem pyGetE_concat_last {γ : Type} (l : List γ) (x : γ) : NpR.pyGetE (l ++ [x]) (-1 : Int) = .ok x := by
  unfold NpR.pyGetE
  have e : ((-1 : Int) + ((l ++ [x]).length : Nat)) = (l.length : Int) := by simp
  simp only [show ((-1 : Int) < 0) from by omega, if_true, e]
  have h0 : ¬ ((l.length : Int) < 0) := by omega
  simp [h0]

/-- `(l + [q] + [x])[-2] = q` -/
theorem pyGetE_concat_prev {γ : Type} (l : List γ) (q x : γ) : NpR.pyGetE (l ++ [q] ++ [x]) (-2 : Int) = .ok q := by
  unfold NpR.pyGetE
  have e : ((-2 : Int) + ((l ++ [q] ++ [x]).length : Nat)) = (l.length : Int) := by simp
  simp only [show ((-2 : Int) < 0) from by omega, if_true, e]
  have h0 : ¬ ((l.length : Int) < 0) := by omega
  simp [h0]

theorem pyIdx_nat (n k : Nat) : NpR.pyIdx n ((k : Nat) : Int) = min k n := by
  simp only [NpR.pyIdx]; split_ifs <;> omega

/-- `l[a:b]` for non-negative in-range bounds is `Np.slice` -/
theorem pySlice_nat {γ : Type} (l : List γ) (a b : Nat) (hb : b ≤ l.length) (hab : a ≤ b) :
    NpR.pySlice l (a : Int) (b : Int) = Np.slice l a b := by
  simp only [NpR.pySlice, Np.slice, pyIdx_nat]
  rw [Nat.min_eq_left hb, Nat.min_eq_left (by omega)]

/-! ### `min(x) > 0`, `max(x) < 0` of a non-empty integer array = "all entries" -/

theorem minFrom_pos (m : Int) (l : List Int) : 0 < Np.minFrom m l ↔ 0 < m ∧ ∀ x ∈ l, 0 < x := by
  induction l generalizing m with
  | nil => simp [Np.minFrom]
  | cons x xs ih =>
    simp only [Np.minFrom, ih, List.mem_cons, forall_eq_or_imp]
    unfold Np.min2
    split_ifs with hx
    · constructor
      · rintro ⟨h1, h2⟩; exact ⟨by omega, h1, h2⟩
      · rintro ⟨h1, h2, h3⟩; exact ⟨h2, h3⟩
    · constructor
      · rintro ⟨h1, h2⟩; exact ⟨h1, by omega, h2⟩
      · rintro ⟨h1, h2, h3⟩; exact ⟨h1, h3⟩

theorem maxFrom_neg (m : Int) (l : List Int) : Np.maxFrom m l < 0 ↔ m < 0 ∧ ∀ x ∈ l, x < 0 := by
  induction l generalizing m with
  | nil => simp [Np.maxFrom]
  | cons x xs ih =>
    simp only [Np.maxFrom, ih, List.mem_cons, forall_eq_or_imp]
    unfold Np.max2
    split_ifs with hx
    · constructor
      · rintro ⟨h1, h2⟩; exact ⟨by omega, h1, h2⟩
      · rintro ⟨h1, h2, h3⟩; exact ⟨h2, h3⟩
    · constructor
      · rintro ⟨h1, h2⟩; exact ⟨h1, by omega, h2⟩
      · rintro ⟨h1, h2, h3⟩; exact ⟨h1, h3⟩

/-- `assert min(l) > 0` on a non-empty array -/
theorem minE_assert_pos (l : List Int) (hl : l ≠ []) :
    (NpR.minE l >>= fun e => NpE.assertE (decide ((0 : Int) < e))) = NpE.assertE (l.all (fun d => decide (0 < d))) := by
  cases l with
  | nil => exact absurd rfl hl
  | cons x xs =>
    simp only [NpR.minE, Np.minL?, bind, Except.bind]
    congr 1
    rw [Bool.eq_iff_iff]
    simp [minFrom_pos]

/-- `assert max(l) < 0` on a non-empty array -/
theorem maxE_assert_neg (l : List Int) (hl : l ≠ []) :
    (NpE.maxE l >>= fun e => NpE.assertE (decide (e < (0 : Int)))) = NpE.assertE (l.all (fun d => decide (d < 0))) := by
  cases l with
  | nil => exact absurd rfl hl
  | cons x xs =>
    simp only [NpE.maxE, Np.maxL?, bind, Except.bind]
    congr 1
    rw [Bool.eq_iff_iff]
    simp [maxFrom_neg]

theorem length_diffFrom {α : Type} [Sub α] (p : α) (l : List α) : (Np.diffFrom p l).length = l.length := by
  induction l generalizing p with
  | nil => rfl
  | cons a as ih => simp [Np.diffFrom, ih]

theorem length_diff {α : Type} [Sub α] (l : List α) : (Np.diff l).length = l.length - 1 := by
  cases l with
  | nil => rfl
  | cons a as => simp [Np.diff, length_diffFrom]

/-! ### a NumPy division of an array by a scalar -/

theorem finiteE_fdiv (l : List ℚ) (dx : ℚ) (hl : l ≠ []) :
    NpS.finiteE (l.map (fun t => NpS.fdiv (some t) (some dx))) =
      if dx = 0 then .error .ZeroDivisionError else .ok (l.map (· / dx)) := by
  unfold NpS.finiteE
  by_cases h : dx = 0
  · subst h
    cases l with
    | nil => exact absurd rfl hl
    | cons a as => simp [NpS.fdiv, List.mapM_cons, bind, Except.bind]
  · simp only [h, if_false]
    clear hl
    induction l with
    | nil => rfl
    | cons a as ih =>
      simp only [List.map_cons, List.mapM_cons, bind, Except.bind, NpS.fdiv, h, if_false] at ih ⊢
      rw [ih]; rfl

end EqsigVerif.Lemmas.Rest2
