import EqsigVerif.Lemmas.Peaks.Cleaned
import EqsigVerif.Lemmas.Peaks.Runs
import EqsigVerif.Lemmas.Peaks.Kappa
import EqsigVerif.Lemmas.Peaks.Segments
import EqsigVerif.Lemmas.Peaks.Orig
import EqsigVerif.Lemmas.Peaks.Shape
import EqsigVerif.Lemmas.Peaks.PType
import EqsigVerif.Lemmas.Peaks.Put
import EqsigVerif.Lemmas.Peaks.Series
import EqsigVerif.Lemmas.Peaks.Delta
import EqsigVerif.Lemmas.Peaks.Pseudo
import EqsigVerif.Lemmas.Peaks.NCyc
/-! umbrella for the helper lemmas on `Model/Peaks.lean` (C11, C13) -/
