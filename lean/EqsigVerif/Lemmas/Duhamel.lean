import EqsigVerif.Model.SpectraFns2
import EqsigVerif.Lemmas.SpectraFns2
/-!
# The loop invariant of `single_elastic_response` (`Model.SpectraFns2.duhamel`), for `Props/C03Duhamel.lean`

After `j` passes `disp[i:] += d_new_i` entry `k` holds the first `min (k + 1) j` terms of its defining sum, added left to right
from `0`. Only `+`, `*`, `0` of the carrier are used (no algebraic law).
-/
set_option linter.unusedSectionVars false
set_option linter.unusedVariables false
set_option linter.unusedSimpArgs false
namespace EqsigVerif.Lemmas.Duhamel
open EqsigVerif EqsigVerif.Model.SpectraFns2

variable {α : Type} [Add α] [Mul α] [OfNat α 0]

/-- the state of entry `k` after `j` passes of the loop: the first `min (k + 1) j` terms of the defining sum -/
def duhamelPartialAt (E S pAt : Nat → α) (j k : Nat) : α :=
  Np.sum ((List.range (min (k + 1) j)).map (fun i => pAt i * E (k - i) * S (k - i)))

/-- before the first pass: `np.zeros(n)` -/
theorem duhamelPartial_zero (E S pAt : Nat → α) (n : Nat) :
    (List.range n).map (duhamelPartialAt E S pAt 0) = List.replicate n 0 := by
  apply List.ext_getElem
  · simp
  · intro k h1 h2
    simp [duhamelPartialAt, Np.sum]

/-- one pass of the loop: `disp[j:] += d_new_j` appends term `j` to the sums of the entries `k ≥ j` and leaves the others -/
theorem duhamelPartial_step (E S pAt : Nat → α) (n j : Nat) (hj : j < n) :
    NpT.addFrom j ((List.range n).map (duhamelPartialAt E S pAt j)) (duhamelDNew E S pAt n j) =
      (List.range n).map (duhamelPartialAt E S pAt (j + 1)) := by
  apply List.ext_getElem
  · rw [Lemmas.SpectraFns2.length_addFrom] <;> simp [duhamelDNew] ; omega
  · intro k h1 h2
    simp only [List.length_map, List.length_range] at h2
    simp only [NpT.addFrom, List.getElem_map, List.getElem_range]
    by_cases hk : k < j
    · rw [List.getElem_append_left (by simp; omega)]
      simp only [List.getElem_take, List.getElem_map, List.getElem_range, duhamelPartialAt]
      have e1 : min (k + 1) j = k + 1 := by omega
      have e2 : min (k + 1) (j + 1) = k + 1 := by omega
      rw [e1, e2]
    · have hk' : j ≤ k := Nat.le_of_not_lt hk
      rw [List.getElem_append_right (by simp; omega)]
      simp only [List.getElem_zipWith, List.getElem_drop, List.getElem_map, List.getElem_range, List.length_take,
        List.length_map, List.length_range, duhamelDNew, duhamelPartialAt]
      have e0 : min j n = j := by omega
      have e1 : min (j + (k - min j n) + 1) j = j := by omega
      have e2 : min (k + 1) (j + 1) = j + 1 := by omega
      have e3 : j + (k - min j n) = k := by omega
      rw [e1, e2, e3, e0, List.range_succ, List.map_append, Np.sum, Np.sum, List.foldl_append]
      rfl

/-- after `j ≤ n` passes -/
theorem duhamel_passes (E S pAt : Nat → α) (n j : Nat) (hj : j ≤ n) :
    (List.range j).foldl (fun disp i => NpT.addFrom i disp (duhamelDNew E S pAt n i)) (List.replicate n 0) =
      (List.range n).map (duhamelPartialAt E S pAt j) := by
  induction j with
  | zero => simp only [List.range_zero, List.foldl_nil, duhamelPartial_zero]
  | succ j ih =>
    rw [List.range_succ, List.foldl_append, ih (by omega)]
    simp only [List.foldl_cons, List.foldl_nil]
    exact duhamelPartial_step E S pAt n j (by omega)

end EqsigVerif.Lemmas.Duhamel
