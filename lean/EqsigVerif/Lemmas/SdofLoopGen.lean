import EqsigVerif.Model.Sdof
import EqsigVerif.Model.SdofLoopGen
import EqsigVerif.Lemmas.Sdof
/-!
# The code-shaped loop of `Model/SdofLoopGen.lean` computes the recurrence series of `Model/Sdof.lean`

`loop_eq_run`: for any step function `f`, the loop
`for i in range(n - 1): (u[i+1], v[i+1]) = f (u[i], v[i]) acc[i] acc[i+1]` on two zero rows of length `n = len(acc)`
yields the two component series of `runWith f acc`; with `f = step m` that is `Model.Sdof.run m acc`.
-/
set_option linter.unusedSectionVars false
set_option linter.unusedVariables false
namespace EqsigVerif.Model.SdofLoopGen
open EqsigVerif.Model.Sdof

variable {α : Type}

/-- the first `k+1` entries of `L`, the rest zero: the content of a row after `k` iterations -/
def takeZ [OfNat α 0] (k : Nat) (L : List α) : List α := L.take (k + 1) ++ List.replicate (L.length - (k + 1)) 0

section
variable [OfNat α 0]

theorem length_takeZ (k : Nat) (L : List α) : (takeZ k L).length = L.length := by
  simp [takeZ]; omega

theorem takeZ_getD (k : Nat) (L : List α) (h : k < L.length) : (takeZ k L).getD k 0 = L[k] := by
  simp [takeZ, List.getD_eq_getElem?_getD, List.getElem?_append, h]

theorem takeZ_set (k : Nat) (L : List α) (h : k + 1 < L.length) :
    (takeZ k L).set (k + 1) L[k + 1] = takeZ (k + 1) L := by
  apply List.ext_getElem?
  intro j
  simp only [takeZ, List.getElem?_set, List.getElem?_append, List.getElem?_take, List.length_append, List.length_take,
    List.length_replicate, List.getElem?_replicate]
  grind

theorem takeZ_last (L : List α) : takeZ (L.length - 1) L = L := by
  cases L with
  | nil => simp [takeZ]
  | cons a l => simp [takeZ]

theorem takeZ_zero (L : List α) (h : 0 < L.length) (h0 : L[0] = 0) : takeZ 0 L = List.replicate L.length 0 := by
  cases L with
  | nil => simp at h
  | cons a l =>
    simp only [List.getElem_cons_zero] at h0
    subst h0
    simp [takeZ, List.replicate_succ]

end

section Ring
variable [CommRing α]

/-- the loop of `nigam_and_jennings_response` on one row, for any step function that agrees with the model's -/
theorem loop_eq_run (m : AB α) (f : α × α → α → α → α × α) (hf : ∀ x a b, f x a b = step m x a b) (acc : List α) :
    forRange (acc.length - 1) (fun i (st : List α × List α) =>
        let x := f (st.1.getD i 0, st.2.getD i 0) (acc.getD i 0) (acc.getD (i + 1) 0)
        (st.1.set (i + 1) x.1, st.2.set (i + 1) x.2))
      (List.replicate acc.length 0, List.replicate acc.length 0)
    = ((run m acc).map (·.1), (run m acc).map (·.2)) := by
  have hfe : f = step m := by funext x a b; exact hf x a b
  subst hfe
  cases hacc : acc with
  | nil => simp [forRange, run]
  | cons a0 rest =>
    rw [← hacc]
    have hn : 0 < acc.length := by rw [hacc]; simp
    set Lu := (run m acc).map (·.1) with hLu
    set Lv := (run m acc).map (·.2) with hLv
    have lu : Lu.length = acc.length := by simp [hLu]
    have lv : Lv.length = acc.length := by simp [hLv]
    have key : ∀ k, k ≤ acc.length - 1 →
        forRange k (fun i (st : List α × List α) =>
          let x := step m (st.1.getD i 0, st.2.getD i 0) (acc.getD i 0) (acc.getD (i + 1) 0)
          (st.1.set (i + 1) x.1, st.2.set (i + 1) x.2))
          (List.replicate acc.length 0, List.replicate acc.length 0) = (takeZ k Lu, takeZ k Lv) := by
      intro k
      induction k with
      | zero =>
        intro _
        have h0 := run_getElem_zero m acc hn
        rw [takeZ_zero Lu (by omega) (by simp [hLu, h0]), takeZ_zero Lv (by omega) (by simp [hLv, h0]), lu, lv]
        rfl
      | succ k ih =>
        intro hk
        have hk1 : k + 1 < acc.length := by omega
        unfold forRange at ih ⊢
        rw [List.range_succ, List.foldl_append, ih (by omega)]
        simp only [List.foldl_cons, List.foldl_nil]
        rw [takeZ_getD k Lu (by omega), takeZ_getD k Lv (by omega)]
        have hs := run_getElem_succ m acc k hk1
        have e1 : acc.getD k 0 = acc[k] := by simp [List.getD_eq_getElem?_getD, show k < acc.length by omega]
        have e2 : acc.getD (k + 1) 0 = acc[k + 1] := by simp [List.getD_eq_getElem?_getD, hk1]
        have e3 : (Lu[k]'(by omega), Lv[k]'(by omega)) = (run m acc)[k]'(by simp; omega) := by simp [hLu, hLv]
        rw [e1, e2, e3, ← hs]
        have e4 : ((run m acc)[k + 1]'(by simp; omega)).1 = Lu[k + 1]'(by omega) := by simp [hLu]
        have e5 : ((run m acc)[k + 1]'(by simp; omega)).2 = Lv[k + 1]'(by omega) := by simp [hLv]
        rw [e4, e5, takeZ_set k Lu (by omega), takeZ_set k Lv (by omega)]
    rw [key (acc.length - 1) (le_refl _)]
    have := takeZ_last Lu
    have := takeZ_last Lv
    rw [lu] at *
    rw [lv] at *
    simp_all

end Ring

end EqsigVerif.Model.SdofLoopGen
