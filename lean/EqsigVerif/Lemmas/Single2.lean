import EqsigVerif.Model.Single2
import EqsigVerif.Model.Im
import EqsigVerif.Lemmas.Np
import EqsigVerif.Lemmas.Im.Velo
import EqsigVerif.Lemmas.Im.Series
import Mathlib.Algebra.Order.Ring.Rat
import Mathlib.Algebra.BigOperators.Group.List.Basic
import Mathlib.Tactic.Ring
import Mathlib.Tactic.FieldSimp
import Mathlib.Tactic.Linarith
import Mathlib.Tactic.NormNum
/-!
# Lemmas for `Model/Single2.lean`: closed form of the final velocity (`trapz`), window updates, finite-float arithmetic
-/
set_option linter.unusedSectionVars false
set_option linter.unusedVariables false
set_option linter.unusedSimpArgs false
namespace EqsigVerif.Lemmas.Single2
open EqsigVerif EqsigVerif.Wire EqsigVerif.Np EqsigVerif.NpS EqsigVerif.Model.Im EqsigVerif.Model.Displacements
open EqsigVerif.Model.Single2

/-! ### finite floats -/

@[simp] theorem fadd_some (a b : ℚ) : fadd (some a) (some b) = some (a + b) := rfl
@[simp] theorem fsub_some (a b : ℚ) : fsub (some a) (some b) = some (a - b) := rfl
@[simp] theorem fmul_some (a b : ℚ) : fmul (some a) (some b) = some (a * b) := rfl
theorem fdiv_some (a b : ℚ) (hb : b ≠ 0) : fdiv (some a) (some b) = some (a / b) := by simp [fdiv, hb]
@[simp] theorem fdiv_zero (a : ℚ) : fdiv (some a) (some 0) = none := by simp [fdiv]

theorem finiteE_some (l : List ℚ) : finiteE (l.map some) = .ok l := by
  induction l with
  | nil => rfl
  | cons x xs ih =>
    simp only [finiteE, List.map_cons, List.mapM_cons, bind, Except.bind, pure, Except.pure] at ih ⊢
    rw [ih]

/-! ### `x[-1]` -/

theorem lastE_eq (l : List ℚ) (v : ℚ) (h : l.getLast? = some v) : NpS.lastE l = .ok v := by
  simp [NpS.lastE, NpE.lastE, h]

theorem veloDispE_cons (x : ℚ) (xs : List ℚ) (dt : ℚ) :
    veloDispE (x :: xs) dt = .ok (veloDispTrap (x :: xs) dt) := rfl

theorem veloDispE_ne (a : List ℚ) (dt : ℚ) (h : a ≠ []) : veloDispE a dt = .ok (veloDispTrap a dt) := by
  cases a with
  | nil => exact absurd rfl h
  | cons x xs => rfl

/-! ### closed form of `trapz` -/

/-- `trapz dx l = dx * (Σ l − (first + last) / 2)` -/
theorem trapz_cons (dx x : ℚ) (xs : List ℚ) :
    trapz dx (x :: xs) = dx * ((x :: xs).sum - (x + ((x :: xs).getLast?.getD 0)) / 2) := by
  induction xs generalizing x with
  | nil => simp [trapz]
  | cons y r ih =>
    rw [trapz, ih y, List.getLast?_cons_cons]
    simp only [List.sum_cons]
    ring

theorem trapz_closed (dx : ℚ) (l : List ℚ) (h : l ≠ []) :
    trapz dx l = dx * (l.sum - (l.head?.getD 0 + l.getLast?.getD 0) / 2) := by
  cases l with
  | nil => exact absurd rfl h
  | cons x xs => rw [trapz_cons]; simp

/-- the final velocity of a non-empty record is `trapz` -/
theorem velocity_getLast (dt : ℚ) (a : List ℚ) (h : a ≠ []) : (velocity dt a).getLast? = some (trapz dt a) := by
  simp only [velocity, veloDispTrap]
  exact Lemmas.Im.cumtrapz_getLast dt a h

/-! ### window updates -/

theorem sum_map_sub_const (B : List ℚ) (v : ℚ) : (B.map (· - v)).sum = B.sum - (B.length : ℚ) * v := by
  induction B with
  | nil => simp
  | cons b bs ih => simp only [List.map_cons, List.sum_cons, ih, List.length_cons]; push_cast; ring

/-- `trapz` after decreasing the window `B` of `A ++ B ++ C` by `v`: every sample of the window counts once, except a window sample
that is the first or the last sample of the record, which counts half -/
theorem trapz_window (dx v : ℚ) (A B C : List ℚ) (hB : B ≠ []) :
    trapz dx (A ++ B.map (· - v) ++ C) =
      trapz dx (A ++ B ++ C) - dx * v * ((B.length : ℚ) - (if A = [] then 1/2 else 0) - (if C = [] then 1/2 else 0)) := by
  have h1 : A ++ B.map (· - v) ++ C ≠ [] := by simp [hB]
  have h2 : A ++ B ++ C ≠ [] := by simp [hB]
  rw [trapz_closed dx _ h1, trapz_closed dx _ h2]
  simp only [List.sum_append, sum_map_sub_const, List.head?_append, List.getLast?_append, List.head?_map, List.getLast?_map]
  obtain ⟨b0, hb0⟩ : ∃ b0, B.head? = some b0 := by
    cases B with
    | nil => exact absurd rfl hB
    | cons b bs => exact ⟨b, rfl⟩
  obtain ⟨b1, hb1⟩ : ∃ b1, B.getLast? = some b1 := by
    cases hh : B.getLast? with
    | none => exact absurd (List.getLast?_eq_none_iff.mp hh) hB
    | some b1 => exact ⟨b1, rfl⟩
  cases A with
  | nil =>
    cases hC : C.getLast? with
    | none =>
      have : C = [] := List.getLast?_eq_none_iff.mp hC
      subst this
      simp [hb0, hb1]; ring
    | some c1 =>
      have : C ≠ [] := by intro h; simp [h] at hC
      simp [hb0, hb1, hC, this]; ring
  | cons a0 as =>
    cases hC : C.getLast? with
    | none =>
      have : C = [] := List.getLast?_eq_none_iff.mp hC
      subst this
      simp [hb0, hb1]; ring
    | some c1 =>
      have : C ≠ [] := by intro h; simp [h] at hC
      simp [hb0, hb1, hC, this]; ring

/-- the three parts of a record around the window `[l, h)` -/
theorem split3 (a : List ℚ) (l h : ℕ) (hlh : l ≤ h) : a.take l ++ (a.take h).drop l ++ a.drop h = a := by
  have : a.take l = (a.take h).take l := by rw [List.take_take, Nat.min_eq_left hlh]
  rw [this, List.take_append_drop, List.take_append_drop]

/-- `a[lo:hi] -= v` for a finite `v` and a non-empty slice -/
theorem isubScalarE_some (a : List ℚ) (lo hi : Option ℤ) (v : ℚ) (h : loIdx a.length lo < hiIdx a.length hi) :
    isubScalarE a lo hi (some v) =
      .ok (a.take (loIdx a.length lo) ++ ((a.take (hiIdx a.length hi)).drop (loIdx a.length lo)).map (· - v)
            ++ a.drop (hiIdx a.length hi)) := by
  simp [isubScalarE, Nat.not_le.mpr h]

/-- `a[:] -= v` for a finite `v` -/
theorem isubScalarE_all (a : List ℚ) (v : ℚ) : isubScalarE a none none (some v) = .ok (a.map (· - v)) := by
  cases a with
  | nil => rfl
  | cons x xs => simp [isubScalarE, loIdx, hiIdx]

theorem hiIdx_le (n : ℕ) (hi : Option ℤ) : hiIdx n hi ≤ n := by
  cases hi with
  | none => simp [hiIdx]
  | some i => simp only [hiIdx, NpR.pyIdx]; split <;> omega

/-! ### linearity in the form needed here, closed forms for constant and linear corrections -/

theorem zipWith_sub_eq_add_neg (a c : List ℚ) :
    List.zipWith (· - ·) a c = List.zipWith (· + ·) a (c.map ((-1 : ℚ) * ·)) := by
  induction a generalizing c with
  | nil => simp
  | cons x xs ih =>
    cases c with
    | nil => simp
    | cons y ys => simp only [List.zipWith_cons_cons, List.map_cons, ih]; congr 1; ring

theorem veloDispTrap_sub (a c : List ℚ) (dt : ℚ) (h : a.length = c.length) :
    veloDispTrap (List.zipWith (· - ·) a c) dt =
      (List.zipWith (· - ·) (veloDispTrap a dt).1 (veloDispTrap c dt).1,
       List.zipWith (· - ·) (veloDispTrap a dt).2 (veloDispTrap c dt).2) := by
  rw [zipWith_sub_eq_add_neg, Lemmas.Im.veloDispTrap_add a _ dt (by simp [h]), Lemmas.Im.veloDispTrap_smul,
    ← zipWith_sub_eq_add_neg, ← zipWith_sub_eq_add_neg]

theorem map_sub_const_eq_zipWith (a : List ℚ) (v : ℚ) :
    a.map (· - v) = List.zipWith (· - ·) a (List.replicate a.length v) := by
  induction a with
  | nil => simp
  | cons x xs ih => simp [List.replicate_succ, ih]

theorem getLast?_zipWith_sub (x y : List ℚ) (h : x.length = y.length) (p q : ℚ)
    (hx : x.getLast? = some p) (hy : y.getLast? = some q) :
    (List.zipWith (· - ·) x y).getLast? = some (p - q) := by
  rw [List.getLast?_eq_getElem?] at hx hy ⊢
  simp only [List.length_zipWith, ← h, Nat.min_self, List.getElem?_zipWith]
  rw [← h] at hy
  rw [hx, hy]

/-- sampled closed form at the last index -/
theorem sampled_getLast (n : ℕ) (hn : 1 ≤ n) (dt : ℚ) (F : ℚ → ℚ) :
    (Lemmas.Im.sampled n dt F).getLast? = some (F (((n - 1 : ℕ) : ℚ) * dt)) := by
  rw [List.getLast?_eq_getElem?]
  simp only [Lemmas.Im.length_sampled]
  have : n - 1 < n := by omega
  simp [Lemmas.Im.sampled, Lemmas.Im.times, this]

/-- constant acceleration `c`: `v(t) = c t`, `d(t) = c t² / 2` on the grid, exactly -/
theorem veloDispTrap_const (n : ℕ) (c dt : ℚ) :
    veloDispTrap (List.replicate n c) dt =
      (Lemmas.Im.sampled n dt (fun t => c * t), Lemmas.Im.sampled n dt (fun t => c * t ^ 2 / 2)) := by
  have ha : List.replicate n c = Lemmas.Im.sampled n dt (fun _ => c) := by
    simp [Lemmas.Im.sampled, Lemmas.Im.times, Function.comp_def, List.map_const']
  have hv : cumtrapz dt (Lemmas.Im.sampled n dt (fun _ => c)) = Lemmas.Im.sampled n dt (fun t => c * t) :=
    Lemmas.Im.cumtrapz_sampled n dt _ _ (by ring) (fun i => by ring)
  have hd : cumtrapz dt (Lemmas.Im.sampled n dt (fun t => c * t)) = Lemmas.Im.sampled n dt (fun t => c * t ^ 2 / 2) :=
    Lemmas.Im.cumtrapz_sampled n dt _ _ (by ring) (fun i => by ring)
  simp only [veloDispTrap]
  rw [ha, hv, hd]

/-- linear acceleration `c0 + c1 t`: `v(t) = c0 t + c1 t²/2` exactly, `d(t) = c0 t²/2 + c1 t³/6 + c1 dt² t/12` -/
theorem veloDispTrap_linear (n : ℕ) (c0 c1 dt : ℚ) :
    veloDispTrap (Lemmas.Im.sampled n dt (fun t => c0 + c1 * t)) dt =
      (Lemmas.Im.sampled n dt (fun t => c0 * t + c1 * t ^ 2 / 2),
       Lemmas.Im.sampled n dt (fun t => c0 * t ^ 2 / 2 + c1 * t ^ 3 / 6 + c1 * dt ^ 2 * t / 12)) := by
  have hv : cumtrapz dt (Lemmas.Im.sampled n dt (fun t => c0 + c1 * t)) = Lemmas.Im.sampled n dt (fun t => c0 * t + c1 * t ^ 2 / 2) :=
    Lemmas.Im.cumtrapz_sampled n dt _ _ (by ring) (fun i => by ring)
  have hd : cumtrapz dt (Lemmas.Im.sampled n dt (fun t => c0 * t + c1 * t ^ 2 / 2)) =
      Lemmas.Im.sampled n dt (fun t => c0 * t ^ 2 / 2 + c1 * t ^ 3 / 6 + c1 * dt ^ 2 * t / 12) :=
    Lemmas.Im.cumtrapz_sampled n dt _ _ (by ring) (fun i => by field_simp; ring)
  simp only [veloDispTrap]
  rw [hv, hd]

theorem timeArr_eq_times (n : ℕ) (dt : ℚ) : timeArr n dt = Lemmas.Im.times n dt := rfl

theorem timeArr_getLast (n : ℕ) (hn : 1 ≤ n) (dt : ℚ) : (timeArr n dt).getLast? = some (((n - 1 : ℕ) : ℚ) * dt) := by
  have := sampled_getLast n hn dt (fun t => t)
  simpa [Lemmas.Im.sampled, timeArr_eq_times] using this

theorem displacement_getLast_isSome (dt : ℚ) (a : List ℚ) (h : a ≠ []) : ∃ D, (displacement dt a).getLast? = some D := by
  have hl : (displacement dt a).length = a.length := by simp [displacement, veloDispTrap]
  cases hh : (displacement dt a).getLast? with
  | none =>
    have := List.getLast?_eq_none_iff.mp hh
    rw [this] at hl
    exact absurd (List.eq_nil_of_length_eq_zero hl.symm) h
  | some D => exact ⟨D, rfl⟩

/-! ### final values after a constant / linear correction of the whole record -/

/-- final velocity and displacement after `values -= c` (whole record): `T = (n - 1) dt` -/
theorem final_after_const (values : List ℚ) (dt c V D : ℚ) (hne : values ≠ [])
    (hV : (velocity dt values).getLast? = some V) (hD : (displacement dt values).getLast? = some D) :
    (velocity dt (values.map (· - c))).getLast? = some (V - c * (((values.length - 1 : ℕ) : ℚ) * dt)) ∧
    (displacement dt (values.map (· - c))).getLast? = some (D - c * (((values.length - 1 : ℕ) : ℚ) * dt) ^ 2 / 2) := by
  have hn : 1 ≤ values.length := List.length_pos_iff.mpr hne
  rw [map_sub_const_eq_zipWith]
  simp only [velocity, displacement] at hV hD ⊢
  rw [veloDispTrap_sub values _ dt (by simp), veloDispTrap_const]
  exact ⟨getLast?_zipWith_sub _ _ (by simp [veloDispTrap, Lemmas.Im.length_sampled]) _ _ hV (sampled_getLast _ hn dt _),
    getLast?_zipWith_sub _ _ (by simp [veloDispTrap, Lemmas.Im.length_sampled]) _ _ hD (sampled_getLast _ hn dt _)⟩

/-- final velocity and displacement after `values -= c0 + c1 * time` (whole record) -/
theorem final_after_linear (values : List ℚ) (dt c0 c1 V D : ℚ) (hne : values ≠ [])
    (hV : (velocity dt values).getLast? = some V) (hD : (displacement dt values).getLast? = some D) :
    (velocity dt (List.zipWith (· - ·) values ((timeArr values.length dt).map (fun t => c0 + c1 * t)))).getLast?
      = some (V - (c0 * (((values.length - 1 : ℕ) : ℚ) * dt) + c1 * (((values.length - 1 : ℕ) : ℚ) * dt) ^ 2 / 2)) ∧
    (displacement dt (List.zipWith (· - ·) values ((timeArr values.length dt).map (fun t => c0 + c1 * t)))).getLast?
      = some (D - (c0 * (((values.length - 1 : ℕ) : ℚ) * dt) ^ 2 / 2 + c1 * (((values.length - 1 : ℕ) : ℚ) * dt) ^ 3 / 6
                    + c1 * dt ^ 2 * (((values.length - 1 : ℕ) : ℚ) * dt) / 12)) := by
  have hn : 1 ≤ values.length := List.length_pos_iff.mpr hne
  have hs : (timeArr values.length dt).map (fun t => c0 + c1 * t) = Lemmas.Im.sampled values.length dt (fun t => c0 + c1 * t) := rfl
  rw [hs]
  simp only [velocity, displacement] at hV hD ⊢
  rw [veloDispTrap_sub values _ dt (by simp [Lemmas.Im.length_sampled]), veloDispTrap_linear]
  exact ⟨getLast?_zipWith_sub _ _ (by simp [veloDispTrap, Lemmas.Im.length_sampled]) _ _ hV (sampled_getLast _ hn dt _),
    getLast?_zipWith_sub _ _ (by simp [veloDispTrap, Lemmas.Im.length_sampled]) _ _ hD (sampled_getLast _ hn dt _)⟩

/-- `a[:] -= d` for an array `d` of finite floats of the same length -/
theorem isubArrayE_all (a d : List ℚ) (h : d.length = a.length) :
    isubArrayE a none none (d.map some) = .ok (List.zipWith (· - ·) a d) := by
  simp [isubArrayE, loIdx, hiIdx, h, finiteE_some]

theorem finiteE_cons_none (ys : List Fl) : finiteE (none :: ys) = .error .ZeroDivisionError := by
  simp only [finiteE, List.mapM_cons, bind, Except.bind]

theorem finiteE_cons_some (v : ℚ) (ys : List Fl) :
    finiteE (some v :: ys) = (match finiteE ys with | .error e => .error e | .ok w => .ok (v :: w)) := by
  simp only [finiteE, List.mapM_cons, bind, Except.bind, pure, Except.pure]
  cases List.mapM (m := Except ErrKind) (fun x : Fl => match x with | some v => Except.ok v | none => Except.error ErrKind.ZeroDivisionError) ys <;> rfl

theorem finiteE_length (l : List Fl) (r : List ℚ) (h : finiteE l = .ok r) : r.length = l.length := by
  induction l generalizing r with
  | nil =>
    simp only [finiteE, List.mapM_nil, pure, Except.pure] at h
    injection h with h; subst h; rfl
  | cons y ys ih =>
    cases y with
    | none => rw [finiteE_cons_none] at h; cases h
    | some v =>
      rw [finiteE_cons_some] at h
      cases hw : finiteE ys with
      | error e => rw [hw] at h; cases h
      | ok w =>
        rw [hw] at h
        injection h with h; subst h
        simp [ih w hw]

end EqsigVerif.Lemmas.Single2
