import EqsigVerif.Model.Surface
import EqsigVerif.Lemmas.Np
import EqsigVerif.Lemmas.Interp
import EqsigVerif.Lemmas.TimeStep
import EqsigVerif.Lemmas.TimeShift
import Mathlib.Tactic.Ring
import Mathlib.Tactic.Linarith
import Mathlib.Tactic.Positivity
/-!
# Lemmas about `Model/Surface.lean`
-/
namespace EqsigVerif.Model.Surface
open EqsigVerif.Wire (ErrKind)
open EqsigVerif.Np EqsigVerif.Interp
open EqsigVerif.Model.TimeShift
open EqsigVerif.Model.TimeStep (truncZ ceil_eq floor_eq)

/-! ### the delay operator `D_s` -/

@[simp] theorem length_delayed (values : List ℚ) (s : ℚ) (w : ℕ) : (delayed values s w).length = w := by
  simp [delayed]

theorem delayed_getElem (values : List ℚ) (s : ℚ) (w k : ℕ) (hk : k < (delayed values s w).length) :
    (delayed values s w)[k] = interpUnit values 0 0 ((k : ℚ) - s) := by
  simp [delayed]

theorem interpUnit_nil (l r x : ℚ) : interpUnit [] l r x = 0 := by simp [interpUnit]

/-- integer delay: `D_s a = 0ˢ ++ a ++ 0…` on the padded width `n + ms` (`s ≤ ms`) -/
theorem delayed_nat (values : List ℚ) (s ms : ℕ) (h : s ≤ ms) :
    delayed values (s : ℚ) (values.length + ms) = shiftedRow values 0 ms (s : ℤ) := by
  have hlen : (shiftedRow values 0 ms (s : ℤ)).length = values.length + 0 + ms :=
    length_shiftedRow values 0 ms s (by omega) (by omega)
  apply List.ext_getElem
  · rw [length_delayed, hlen]; omega
  intro k hk1 hk2
  rw [delayed_getElem, ← getD_of_lt _ _ hk2, shiftedRow_getD values 0 ms s (by omega) k]
  rw [length_delayed] at hk1
  by_cases hne : values = []
  · subst hne; simp [interpUnit_nil]
  by_cases hks : k < s
  · have : (k : ℚ) - (s : ℚ) < 0 := by
      have : (k : ℚ) < (s : ℚ) := by exact_mod_cast hks
      linarith
    rw [interpUnit_left _ _ _ _ hne this, if_neg (by omega)]
  · have hsk : s ≤ k := not_lt.mp hks
    have hcast : (k : ℚ) - (s : ℚ) = ((k - s : ℕ) : ℚ) := by
      rw [Nat.cast_sub hsk]
    by_cases hkn : k - s < values.length
    · rw [hcast, interpUnit_node _ _ _ _ hkn, if_pos (by omega)]
      congr 1; omega
    · rw [if_neg (by omega)]
      have hn : 0 < values.length := List.length_pos_iff.mpr hne
      have : ((values.length - 1 : ℕ) : ℚ) < (k : ℚ) - (s : ℚ) := by
        rw [hcast]; exact_mod_cast (by omega : values.length - 1 < k - s)
      rw [interpUnit_right _ _ _ _ hne this]

theorem shiftedRow_zero_nat (values : List ℚ) (s ms : ℕ) :
    shiftedRow values 0 ms (s : ℤ) = List.replicate s 0 ++ values ++ List.replicate (ms - s) 0 := by
  unfold shiftedRow
  congr 2
  · congr 1; omega
  · omega


/-! ### `acc_series` for scalar reductions -/

/-- spec of one acceleration row: `up_red·a⁰[k] ∓ down_red·(D_s a)[k]` on the padded width `n + ms`
(`−` nodal, `+` anti-nodal) -/
def accRow (values : List ℚ) (ms : ℕ) (s : ℚ) (nodal : Bool) (u d : ℚ) : List ℚ :=
  List.zipWith (fun D a0 => u * a0 + (if nodal then -1 else 1) * (d * D))
    (delayed values s (values.length + ms)) (values ++ List.replicate ms 0)

@[simp] theorem length_accRow (values : List ℚ) (ms : ℕ) (s : ℚ) (nodal : Bool) (u d : ℚ) :
    (accRow values ms s nodal u d).length = values.length + ms := by
  simp [accRow]

/-- spec of one energy row: `½·v·|v|`, `v = cumtrapz(acc row)` -/
def energyRow (values : List ℚ) (dt : ℚ) (ms : ℕ) (s : ℚ) (nodal : Bool) (u d : ℚ) : List ℚ :=
  (cumtrapz dt (accRow values ms s nodal u d)).map halfVAbsV

@[simp] theorem length_energyRow (values : List ℚ) (dt : ℚ) (ms : ℕ) (s : ℚ) (nodal : Bool) (u d : ℚ) :
    (energyRow values dt ms s nodal u d).length = values.length + ms := by
  simp [energyRow]

theorem accSeries_scalar (values : List ℚ) (dt : ℚ) (tts : List ℚ) (nodal : Bool) (u d : ℚ) (ms : ℕ)
    (hdt : dt ≠ 0) (hv : values ≠ []) (hms : maxShift tts dt = .ok ms) :
    accSeries values dt tts nodal (.scalar u d) =
      .ok (tts.map (fun t => accRow values ms (2 * t / dt) nodal u d)) := by
  have hn : values.length ≠ 0 := by simpa using hv
  unfold accSeries
  simp only [hdt, if_false, hms, bind, Except.bind, hn, false_and, pure, Except.pure, List.map_map]
  congr 1
  apply List.map_congr_left
  intro t _
  simp only [Function.comp, accRow, padRight]
  congr 1
  funext x y
  ring

theorem calcSurfaceEnergy_scalar (values : List ℚ) (dt : ℚ) (tts : List ℚ) (nodal : Bool) (u d : ℚ) (ms : ℕ)
    (stt : ℚ) (trim start : Bool)
    (hdt : dt ≠ 0) (hv : values ≠ []) (hms : maxShift tts dt = .ok ms) :
    calcSurfaceEnergy values dt tts nodal (.scalar u d) stt trim start =
      (trimToLength (tts.map (fun t => energyRow values dt ms (2 * t / dt) nodal u d))
          values.length tts dt trim start stt) >>= squeeze tts.length := by
  have hn : values.length ≠ 0 := by simpa using hv
  unfold calcSurfaceEnergy
  rw [accSeries_scalar values dt tts nodal u d ms hdt hv hms]
  simp only [bind, Except.bind, hn, if_false, energyRows, List.map_map]
  rfl

theorem trimToLength_none (rows : List (List ℚ)) (n : ℕ) (tts : List ℚ) (dt stt : ℚ) (hdt : dt ≠ 0) :
    trimToLength rows n tts dt false false stt = .ok rows := by
  simp [trimToLength, hdt]

/-! ### cumulative absolute change -/

theorem cumAbsRow_pairwise (row : List ℚ) : (cumAbsRow row).Pairwise (· ≤ ·) := by
  unfold cumAbsRow cumsum
  apply cumsumFrom_pairwise
  intro x hx
  simp only [absL, List.mem_map] at hx
  obtain ⟨y, _, rfl⟩ := hx
  exact absv_nonneg y

@[simp] theorem length_diffFrom (p : ℚ) (l : List ℚ) : (diffFrom p l).length = l.length := by
  induction l generalizing p with
  | nil => rfl
  | cons x xs ih => simp [diffFrom, ih]

@[simp] theorem length_cumAbsRow (row : List ℚ) : (cumAbsRow row).length = row.length := by
  simp [cumAbsRow, absL]


/-! ### `mapM` inversion, rows of an output -/

theorem mapM_ok_inv {α β : Type} (f : α → Except ErrKind β) (l : List α) (out : List β)
    (h : l.mapM f = .ok out) : List.Forall₂ (fun a b => f a = .ok b) l out := by
  induction l generalizing out with
  | nil =>
    have : out = [] := by
      have h' : (Except.ok [] : Except ErrKind (List β)) = .ok out := h
      injection h' with h''; exact h''.symm
    subst this; exact List.Forall₂.nil
  | cons a as ih =>
    rw [List.mapM_cons] at h
    cases hfa : f a with
    | error e => rw [hfa] at h; cases h
    | ok b =>
      rw [hfa] at h
      cases hrest : as.mapM f with
      | error e => rw [hrest] at h; cases h
      | ok bs =>
        rw [hrest] at h
        have : out = b :: bs := by
          have h' : (Except.ok (b :: bs) : Except ErrKind (List β)) = .ok out := h
          injection h' with h''; exact h''.symm
        subst this
        exact List.Forall₂.cons hfa (ih bs hrest)

theorem forall₂_exists_left {α β : Type} {R : α → β → Prop} {l : List α} {out : List β}
    (h : List.Forall₂ R l out) {b : β} (hb : b ∈ out) : ∃ a ∈ l, R a b := by
  induction h with
  | nil => simp at hb
  | cons hab _ ih =>
    rcases List.mem_cons.mp hb with rfl | hb'
    · exact ⟨_, by simp, hab⟩
    · obtain ⟨a, ha, hr⟩ := ih hb'
      exact ⟨a, by simp [ha], hr⟩

/-- the rows of a result (`1-D` result = one row) -/
def Out.rowsList : Out → List (List ℚ)
  | .row r => [r]
  | .rows rs => rs

theorem squeeze_rows (m : ℕ) (rows : List (List ℚ)) (out : Out) (h : squeeze m rows = .ok out) :
    ∀ r ∈ out.rowsList, r ∈ rows := by
  unfold squeeze at h
  split at h
  · cases rows with
    | nil => cases h
    | cons r rs =>
      have : out = .row r := by
        have h' : (Except.ok (Out.row r) : Except ErrKind Out) = .ok out := h
        injection h' with h''; exact h''.symm
      subst this
      intro r' hr'
      simp only [Out.rowsList, List.mem_singleton] at hr'
      subst hr'; simp
  · have : out = .rows rows := by
      have h' : (Except.ok (Out.rows rows) : Except ErrKind Out) = .ok out := h
      injection h' with h''; exact h''.symm
    subst this
    intro r' hr'; exact hr'

/-! ### `trim_to_length`: lengths, zero preservation -/

theorem assignBroadcast_inv (t : ℕ) (src s : List ℚ) (h : assignBroadcast t src = .ok s) :
    s.length = t ∧ ∀ v ∈ s, v ∈ src := by
  unfold assignBroadcast at h
  split at h
  · rename_i hl
    have : s = src := by injection h with h'; exact h'.symm
    subst this; exact ⟨hl, fun v hv => hv⟩
  · split at h
    · rename_i hl1
      have : s = List.replicate t (src.getD 0 0) := by injection h with h'; exact h'.symm
      subst this
      refine ⟨by simp, ?_⟩
      intro v hv
      rw [List.mem_replicate] at hv
      rw [hv.2]; exact getD_mem src 0 (by omega)
    · cases h

theorem mem_pySlice {α : Type} (l : List α) (a b : Option ℤ) (v : α) (h : v ∈ pySlice l a b) : v ∈ l := by
  unfold pySlice at h
  exact List.mem_of_mem_take (List.mem_of_mem_drop h)

theorem trimRow_inv (row : List ℚ) (npts : ℕ) (sis : ℤ) (r : List ℚ) (h : trimRow row npts sis = .ok r) :
    r.length = npts ∧ ∀ v ∈ r, v = 0 ∨ v ∈ row := by
  unfold trimRow at h
  split at h
  · obtain ⟨h1, h2⟩ := assignBroadcast_inv _ _ _ h
    exact ⟨h1, fun v hv => Or.inr (mem_pySlice _ _ _ _ (h2 v hv))⟩
  · simp only [bind, Except.bind] at h
    split at h
    · cases h
    · rename_i s hs
      obtain ⟨h1, h2⟩ := assignBroadcast_inv _ _ _ hs
      have : r = List.replicate (min sis.toNat npts) 0 ++ s := by
        have h' : (Except.ok (List.replicate (min sis.toNat npts) 0 ++ s) : Except ErrKind (List ℚ)) = .ok r := h
        injection h' with h''; exact h''.symm
      subst this
      constructor
      · simp only [List.length_append, List.length_replicate, h1]; omega
      · intro v hv
        rw [List.mem_append] at hv
        rcases hv with hv | hv
        · left; exact (List.mem_replicate.mp hv).2
        · right; exact mem_pySlice _ _ _ _ (h2 v hv)

theorem trimToLength_inv (values : List (List ℚ)) (npts : ℕ) (tts : List ℚ) (dt : ℚ) (trim start : Bool)
    (stt : ℚ) (out : List (List ℚ)) (hts : trim = true ∨ start = true)
    (h : trimToLength values npts tts dt trim start stt = .ok out) :
    ∃ w, trimWidth npts tts dt trim start stt = .ok w ∧ out.length = tts.length ∧
      ∀ r ∈ out, r.length = w ∧ ∀ v ∈ r, v = 0 ∨ ∃ row ∈ values, v ∈ row := by
  unfold trimToLength at h
  have hnn : (!start && !trim) = false := by
    rcases hts with h | h <;> simp [h]
  split at h
  · cases h
  simp only [hnn, Bool.false_eq_true, if_false] at h
  cases hw : trimWidth npts tts dt trim start stt with
  | error e => simp only [hw] at h; cases h
  | ok w =>
    simp only [hw] at h
    have hF := mapM_ok_inv _ _ _ h
    refine ⟨w, rfl, ?_, ?_⟩
    · have := hF.length_eq
      simpa using this.symm
    · intro r hr
      obtain ⟨i, -, hfi⟩ := forall₂_exists_left hF hr
      cases hv : values[i]? with
      | none => simp only [hv] at hfi; cases hfi
      | some row =>
        simp only [hv] at hfi
        obtain ⟨h1, h2⟩ := trimRow_inv _ _ _ _ hfi
        refine ⟨h1, fun v hv' => ?_⟩
        rcases h2 v hv' with h0 | hm
        · exact Or.inl h0
        · exact Or.inr ⟨row, List.mem_of_getElem? hv, hm⟩


/-! ### `max_shift` -/

theorem maxShift_spec (tts : List ℚ) (dt : ℚ) (ms : ℕ) (h : maxShift tts dt = .ok ms) :
    ∃ t ∈ tts, (∀ t' ∈ tts, 2 * t' / dt ≤ 2 * t / dt) ∧ 0 ≤ truncZ (2 * t / dt) ∧
      ms = (truncZ (2 * t / dt)).toNat := by
  unfold maxShift at h
  cases tts with
  | nil => simp [maxL?] at h
  | cons t0 ts =>
    simp only [List.map_cons, maxL?] at h
    set M := maxFrom (2 * t0 / dt) (ts.map (fun t => 2 * t / dt)) with hM
    split at h
    · cases h
    · rename_i hneg
      have hms : ms = (truncZ M).toNat := by injection h with h'; exact h'.symm
      obtain ⟨hle0, hle⟩ := le_maxFrom (2 * t0 / dt) (ts.map (fun t => 2 * t / dt))
      have hmem := maxFrom_mem (2 * t0 / dt) (ts.map (fun t => 2 * t / dt))
      rw [← hM] at hle0 hle hmem
      have hall : ∀ t' ∈ t0 :: ts, 2 * t' / dt ≤ M := by
        intro t' ht'
        rcases List.mem_cons.mp ht' with rfl | ht'
        · exact hle0
        · exact hle _ (List.mem_map.mpr ⟨t', ht', rfl⟩)
      rcases hmem with hmem | hmem
      · exact ⟨t0, by simp, by rw [← hmem]; exact hall, by rw [← hmem]; omega, by rw [← hmem]; exact hms⟩
      · obtain ⟨t, ht, hte⟩ := List.mem_map.mp hmem
        exact ⟨t, by simp [ht], by rw [hte]; exact hall, by rw [hte]; omega, by rw [hte]; exact hms⟩

theorem truncZ_mono (a b : ℚ) (h : a ≤ b) : truncZ a ≤ truncZ b := by
  unfold truncZ
  by_cases ha : a < 0
  · by_cases hb : b < 0
    · rw [if_pos ha, if_pos hb, ceil_eq, ceil_eq]; exact Int.ceil_le_ceil h
    · rw [if_pos ha, if_neg hb, ceil_eq]
      have h1 : ⌈a⌉ ≤ 0 := by
        rw [Int.ceil_le]; exact_mod_cast ha.le
      have h2 : 0 ≤ ⌊b⌋ := Int.floor_nonneg.mpr (not_lt.mp hb)
      exact le_trans h1 h2
  · have hb : ¬ b < 0 := by
      rw [not_lt] at ha ⊢; exact le_trans ha h
    rw [if_neg ha, if_neg hb]; exact Int.floor_le_floor h

/-- the single-travel-time `max_shift` never exceeds the batch one -/
theorem maxShift_single_le (tts : List ℚ) (dt : ℚ) (ms msi : ℕ) (t : ℚ) (ht : t ∈ tts)
    (h : maxShift tts dt = .ok ms) (hi : maxShift [t] dt = .ok msi) : msi ≤ ms := by
  obtain ⟨tm, htm, hmax, h0, rfl⟩ := maxShift_spec tts dt ms h
  obtain ⟨t1, ht1, -, h01, rfl⟩ := maxShift_spec [t] dt msi hi
  have : t1 = t := by simpa using ht1
  subst this
  have := truncZ_mono _ _ (hmax t1 ht)
  omega

/-! ### prefixes -/

theorem cumtrapzFrom_take (dx acc prev : ℚ) (l : List ℚ) (k : ℕ) :
    cumtrapzFrom dx acc prev (l.take k) = (cumtrapzFrom dx acc prev l).take k := by
  induction l generalizing acc prev k with
  | nil => simp [cumtrapzFrom]
  | cons y ys ih =>
    cases k with
    | zero => simp [cumtrapzFrom]
    | succ k => simp [cumtrapzFrom, ih]

theorem cumtrapz_take (dx : ℚ) (l : List ℚ) (k : ℕ) :
    cumtrapz dx (l.take k) = (cumtrapz dx l).take k := by
  cases l with
  | nil => simp [cumtrapz]
  | cons y ys =>
    cases k with
    | zero => simp [cumtrapz]
    | succ k => simp [cumtrapz, cumtrapzFrom_take]

theorem delayed_take (values : List ℚ) (s : ℚ) (w w' : ℕ) (h : w' ≤ w) :
    (delayed values s w).take w' = delayed values s w' := by
  unfold delayed
  rw [← List.map_take, List.take_range, min_eq_left h]

theorem accRow_take (values : List ℚ) (ms msi : ℕ) (h : msi ≤ ms) (s : ℚ) (nodal : Bool) (u d : ℚ) :
    (accRow values ms s nodal u d).take (values.length + msi) = accRow values msi s nodal u d := by
  unfold accRow
  rw [List.take_zipWith, delayed_take _ _ _ _ (by omega)]
  congr 1
  rw [List.take_append, List.take_of_length_le (by omega)]
  simp only [Nat.add_sub_cancel_left, List.take_replicate, min_eq_left h]

theorem energyRow_take (values : List ℚ) (dt : ℚ) (ms msi : ℕ) (h : msi ≤ ms) (s : ℚ) (nodal : Bool) (u d : ℚ) :
    (energyRow values dt ms s nodal u d).take (values.length + msi) = energyRow values dt msi s nodal u d := by
  unfold energyRow
  rw [← List.map_take, ← cumtrapz_take, accRow_take _ _ _ h]

/-! ### `trim=True, start=False`: every row is cut to its first `npts` samples -/

theorem trimRow_zero (row : List ℚ) (n : ℕ) (h : n ≤ row.length) : trimRow row n 0 = .ok (row.take n) := by
  unfold trimRow
  have hs : pySlice row none (some ((n : ℤ) - 0)) = row.take n := by
    unfold pySlice pyIdx
    have : ¬ ((n : ℤ) - 0 < 0) := by omega
    simp only [this, if_false, List.drop_zero]
    congr 1; omega
  simp only [lt_irrefl, if_false, Int.toNat_zero, Nat.zero_min, Nat.sub_zero, hs, bind, Except.bind]
  have hl : (row.take n).length = n := by simp [h]
  have : assignBroadcast n (row.take n) = .ok (row.take n) := by
    unfold assignBroadcast; rw [if_pos hl]
  rw [this]; simp [pure, Except.pure]

theorem trimToLength_trim (rows : List (List ℚ)) (n : ℕ) (tts : List ℚ) (dt stt : ℚ) (hdt : dt ≠ 0)
    (hlen : rows.length = tts.length) (hw : ∀ r ∈ rows, n ≤ r.length) :
    trimToLength rows n tts dt true false stt = .ok (rows.map (List.take n)) := by
  unfold trimToLength
  simp only [hdt, if_false, Bool.not_false, Bool.not_true, Bool.and_false, Bool.false_eq_true, trimWidth]
  have hsis : ∀ i, (trimSis tts dt false stt).getD i 0 = 0 := by
    intro i
    simp only [trimSis, Bool.false_eq_true, if_false, List.getD_eq_getElem?_getD, List.getElem?_map]
    cases (s2dShifts tts dt)[i]? <;> simp
  have : (List.range tts.length).mapM (fun i =>
        match rows[i]? with
        | none => (.error .IndexError : Except ErrKind (List ℚ))
        | some row => trimRow row n ((trimSis tts dt false stt).getD i 0))
      = .ok ((List.range tts.length).map (fun i => (rows.getD i []).take n)) := by
    apply mapM_ok
    intro i hi
    have hi' : i < rows.length := by rw [hlen]; simpa using hi
    rw [List.getElem?_eq_getElem hi', hsis i]
    simp only [List.getD_eq_getElem?_getD, List.getElem?_eq_getElem hi', Option.getD_some]
    exact trimRow_zero _ _ (hw _ (List.getElem_mem hi'))
  refine this.trans ?_
  congr 1
  apply List.ext_getElem
  · simp [hlen]
  · intro i h1 h2
    simp only [List.getElem_map, List.getElem_range]
    have hi' : i < rows.length := by simpa using h2
    simp [List.getD_eq_getElem?_getD, List.getElem?_eq_getElem hi']


/-! ### all-zero rows (C19.c: zero travel time, nodal, equal reductions) -/

theorem eq_replicate_of_allZero (l : List ℚ) (h : ∀ v ∈ l, v = 0) : l = List.replicate l.length 0 :=
  List.eq_replicate_iff.mpr ⟨rfl, h⟩

theorem cumtrapzFrom_zero (dx : ℚ) (n : ℕ) :
    cumtrapzFrom dx 0 0 (List.replicate n 0) = List.replicate n 0 := by
  induction n with
  | zero => rfl
  | succ n ih =>
    simp only [List.replicate_succ, cumtrapzFrom]
    have : (0 : ℚ) + dx * (0 + 0) / 2 = 0 := by ring
    rw [this, ih]

theorem cumtrapz_zero (dx : ℚ) (n : ℕ) : cumtrapz dx (List.replicate n 0) = List.replicate n 0 := by
  cases n with
  | zero => rfl
  | succ n => simp only [List.replicate_succ, cumtrapz, cumtrapzFrom_zero]

theorem halfVAbsV_zero : halfVAbsV 0 = 0 := by simp [halfVAbsV]

theorem diffFrom_zero (n : ℕ) : diffFrom (0 : ℚ) (List.replicate n 0) = List.replicate n 0 := by
  induction n with
  | zero => rfl
  | succ n ih => simp only [List.replicate_succ, diffFrom, ih, sub_zero]

theorem cumsumFrom_zero (n : ℕ) : cumsumFrom (0 : ℚ) (List.replicate n 0) = List.replicate n 0 := by
  induction n with
  | zero => rfl
  | succ n ih => simp only [List.replicate_succ, cumsumFrom, add_zero, ih]

theorem cumAbsRow_zero (n : ℕ) : cumAbsRow (List.replicate n 0) = List.replicate n 0 := by
  unfold cumAbsRow cumsum absL
  rw [diffFrom_zero, List.map_replicate]
  have : absv (0 : ℚ) = 0 := by simp [absv]
  rw [this, cumsumFrom_zero]

theorem cumAbsRow_allZero (r : List ℚ) (h : ∀ v ∈ r, v = 0) : ∀ v ∈ cumAbsRow r, v = 0 := by
  rw [eq_replicate_of_allZero r h, cumAbsRow_zero]
  intro v hv; exact (List.mem_replicate.mp hv).2

theorem maxShift_zero (tts : List ℚ) (dt : ℚ) (hne : tts ≠ []) (h0 : ∀ t ∈ tts, t = 0) :
    maxShift tts dt = .ok 0 := by
  cases tts with
  | nil => exact absurd rfl hne
  | cons t0 ts =>
    unfold maxShift
    simp only [List.map_cons, maxL?]
    have hM : maxFrom (2 * t0 / dt) (ts.map (fun t => 2 * t / dt)) = 0 := by
      rcases maxFrom_mem (2 * t0 / dt) (ts.map (fun t => 2 * t / dt)) with h | h
      · rw [h, h0 t0 (by simp)]; simp
      · obtain ⟨t, ht, hte⟩ := List.mem_map.mp h
        rw [← hte, h0 t (by simp [ht])]; simp
    rw [hM]
    have : truncZ 0 = 0 := by decide +kernel
    simp [this]

theorem delayed_zero (values : List ℚ) : delayed values 0 (values.length + 0) = values := by
  have := delayed_nat values 0 0 (le_refl 0)
  rw [shiftedRow_zero_nat] at this
  simpa using this

theorem energyRow_zero (values : List ℚ) (dt u : ℚ) :
    ∀ v ∈ energyRow values dt 0 0 true u u, v = 0 := by
  have hacc : accRow values 0 0 true u u = List.replicate values.length 0 := by
    unfold accRow
    rw [delayed_zero]
    simp only [List.replicate_zero, List.append_nil, if_true]
    apply List.eq_replicate_iff.mpr
    refine ⟨by simp, ?_⟩
    intro v hv
    rw [List.zipWith_self] at hv
    obtain ⟨a, _, rfl⟩ := List.mem_map.mp hv
    ring
  unfold energyRow
  rw [hacc, cumtrapz_zero, List.map_replicate, halfVAbsV_zero]
  intro v hv; exact (List.mem_replicate.mp hv).2


/-! ### homogeneity (C19.c: `E(α•a) = α·|α|·E(a)`, cumulative absolute change scales with `α²`) -/

/-- apply a function to every sample of a result -/
def Out.map (g : ℚ → ℚ) : Out → Out
  | .row r => .row (r.map g)
  | .rows rs => .rows (rs.map (List.map g))

theorem mapM_map_comm {α β : Type} (f f' : α → Except ErrKind β) (h : β → β) (l : List α)
    (hf : ∀ a, f' a = (f a).map h) : l.mapM f' = (l.mapM f).map (List.map h) := by
  induction l with
  | nil => rfl
  | cons a as ih =>
    rw [List.mapM_cons, List.mapM_cons, hf a, ih]
    cases f a with
    | error e => rfl
    | ok b =>
      cases as.mapM f with
      | error e => rfl
      | ok bs => rfl

theorem delayed_smul (c : ℚ) (values : List ℚ) (s : ℚ) (w : ℕ) :
    delayed (values.map (c * ·)) s w = (delayed values s w).map (c * ·) := by
  unfold delayed
  rw [List.map_map]
  apply List.map_congr_left
  intro k _
  have := interpUnit_smul c values 0 0 ((k : ℚ) - s)
  simpa using this

theorem zipWith_map_both (f : ℚ → ℚ → ℚ) (g : ℚ → ℚ) (l l' : List ℚ)
    (h : ∀ a b, f (g a) (g b) = g (f a b)) :
    List.zipWith f (l.map g) (l'.map g) = (List.zipWith f l l').map g := by
  induction l generalizing l' with
  | nil => simp
  | cons a as ih =>
    cases l' with
    | nil => simp
    | cons b bs => simp [h, ih]

theorem accRow_smul (c : ℚ) (values : List ℚ) (ms : ℕ) (s : ℚ) (nodal : Bool) (u d : ℚ) :
    accRow (values.map (c * ·)) ms s nodal u d = (accRow values ms s nodal u d).map (c * ·) := by
  unfold accRow
  rw [List.length_map, delayed_smul]
  have : values.map (c * ·) ++ List.replicate ms 0 = (values ++ List.replicate ms 0).map (c * ·) := by
    simp
  rw [this]
  apply zipWith_map_both
  intro a b; ring

theorem halfVAbsV_smul (c v : ℚ) : halfVAbsV (c * v) = (c * |c|) * halfVAbsV v := by
  simp only [halfVAbsV, absv_eq_abs, abs_mul]; ring

theorem energyRow_smul (c : ℚ) (values : List ℚ) (dt : ℚ) (ms : ℕ) (s : ℚ) (nodal : Bool) (u d : ℚ) :
    energyRow (values.map (c * ·)) dt ms s nodal u d
      = (energyRow values dt ms s nodal u d).map ((c * |c|) * ·) := by
  unfold energyRow
  rw [accRow_smul, cumtrapz_smul, List.map_map, List.map_map]
  apply List.map_congr_left
  intro v _
  simp only [Function.comp, halfVAbsV_smul]

theorem pySlice_map {α β : Type} (g : α → β) (l : List α) (a b : Option ℤ) :
    pySlice (l.map g) a b = (pySlice l a b).map g := by
  unfold pySlice
  simp only [List.length_map, List.map_drop, List.map_take]

theorem assignBroadcast_map (β : ℚ) (t : ℕ) (src : List ℚ) :
    assignBroadcast t (src.map (β * ·)) = (assignBroadcast t src).map (List.map (β * ·)) := by
  unfold assignBroadcast
  simp only [List.length_map]
  split
  · rfl
  · split
    · rename_i h1
      have : (src.map (β * ·)).getD 0 0 = β * src.getD 0 0 := by
        rw [getD_of_lt _ _ (by simp; omega), getD_of_lt _ _ (by omega)]; simp
      rw [this]; simp [Except.map]
    · rfl

theorem trimRow_map (β : ℚ) (row : List ℚ) (n : ℕ) (sis : ℤ) :
    trimRow (row.map (β * ·)) n sis = (trimRow row n sis).map (List.map (β * ·)) := by
  unfold trimRow
  split
  · rw [pySlice_map, assignBroadcast_map]
  · simp only [bind, Except.bind, pySlice_map, assignBroadcast_map]
    cases assignBroadcast (n - min sis.toNat n) (pySlice row none (some ((n : ℤ) - sis))) with
    | error e => rfl
    | ok s => simp [Except.map, pure, Except.pure]

theorem trimToLength_map (β : ℚ) (rows : List (List ℚ)) (n : ℕ) (tts : List ℚ) (dt : ℚ) (trim start : Bool)
    (stt : ℚ) :
    trimToLength (rows.map (List.map (β * ·))) n tts dt trim start stt
      = (trimToLength rows n tts dt trim start stt).map (List.map (List.map (β * ·))) := by
  unfold trimToLength
  split
  · rfl
  split
  · rfl
  cases trimWidth n tts dt trim start stt with
  | error e => rfl
  | ok w =>
    simp only
    apply mapM_map_comm
    intro i
    simp only [List.getElem?_map]
    cases rows[i]? with
    | none => rfl
    | some row => simp only [Option.map_some]; exact trimRow_map β row w _

theorem squeeze_map (g : ℚ → ℚ) (m : ℕ) (rows : List (List ℚ)) :
    squeeze m (rows.map (List.map g)) = (squeeze m rows).map (Out.map g) := by
  unfold squeeze
  split
  · cases rows with
    | nil => rfl
    | cons r rs => rfl
  · rfl

theorem calcSurfaceEnergy_smul (c : ℚ) (values : List ℚ) (dt : ℚ) (tts : List ℚ) (nodal : Bool) (u d : ℚ)
    (ms : ℕ) (stt : ℚ) (trim start : Bool)
    (hdt : dt ≠ 0) (hv : values ≠ []) (hms : maxShift tts dt = .ok ms) :
    calcSurfaceEnergy (values.map (c * ·)) dt tts nodal (.scalar u d) stt trim start
      = (calcSurfaceEnergy values dt tts nodal (.scalar u d) stt trim start).map (Out.map ((c * |c|) * ·)) := by
  have hv' : values.map (c * ·) ≠ [] := by simpa using hv
  rw [calcSurfaceEnergy_scalar _ dt tts nodal u d ms stt trim start hdt hv' hms,
    calcSurfaceEnergy_scalar _ dt tts nodal u d ms stt trim start hdt hv hms]
  have : tts.map (fun t => energyRow (values.map (c * ·)) dt ms (2 * t / dt) nodal u d)
      = (tts.map (fun t => energyRow values dt ms (2 * t / dt) nodal u d)).map (List.map ((c * |c|) * ·)) := by
    rw [List.map_map]
    apply List.map_congr_left
    intro t _
    simp only [Function.comp, energyRow_smul]
  rw [this, List.length_map, trimToLength_map]
  cases trimToLength (tts.map (fun t => energyRow values dt ms (2 * t / dt) nodal u d))
      values.length tts dt trim start stt with
  | error e => rfl
  | ok rows =>
    show squeeze tts.length (rows.map (List.map ((c * |c|) * ·))) = _
    rw [squeeze_map]; rfl

theorem diffFrom_smul (β p : ℚ) (r : List ℚ) :
    diffFrom (β * p) (r.map (β * ·)) = (diffFrom p r).map (β * ·) := by
  induction r generalizing p with
  | nil => rfl
  | cons x xs ih =>
    simp only [List.map_cons, diffFrom, ih]
    congr 1; ring

theorem cumAbsRow_smul (β : ℚ) (r : List ℚ) :
    cumAbsRow (r.map (β * ·)) = (cumAbsRow r).map (|β| * ·) := by
  unfold cumAbsRow cumsum absL
  have h1 := diffFrom_smul β 0 r
  rw [mul_zero] at h1
  rw [h1, List.map_map]
  have h2 : (diffFrom 0 r).map (absv ∘ (β * ·)) = ((diffFrom 0 r).map absv).map (|β| * ·) := by
    rw [List.map_map]
    apply List.map_congr_left
    intro x _
    simp only [Function.comp, absv_eq_abs, abs_mul]
  rw [h2]
  have h3 := cumsumFrom_smul |β| 0 ((diffFrom 0 r).map absv)
  rw [mul_zero] at h3
  exact h3

theorem calcCumAbs_smul (c : ℚ) (values : List ℚ) (dt : ℚ) (tts : List ℚ) (nodal : Bool) (u d : ℚ)
    (ms : ℕ) (stt : ℚ) (trim start : Bool)
    (hdt : dt ≠ 0) (hv : values ≠ []) (hms : maxShift tts dt = .ok ms) :
    calcCumAbsSurfaceEnergy (values.map (c * ·)) dt tts nodal (.scalar u d) stt trim start
      = (calcCumAbsSurfaceEnergy values dt tts nodal (.scalar u d) stt trim start).map (Out.map ((c ^ 2) * ·)) := by
  unfold calcCumAbsSurfaceEnergy
  rw [calcSurfaceEnergy_smul c values dt tts nodal u d ms stt trim start hdt hv hms]
  have habs : abs (c * |c|) = c ^ 2 := by
    rw [abs_mul, abs_abs, ← _root_.sq, sq_abs]
  cases calcSurfaceEnergy values dt tts nodal (.scalar u d) stt trim start with
  | error e => rfl
  | ok e =>
    cases e with
    | row r =>
      show (pure (Out.row (cumAbsRow (r.map ((c * |c|) * ·)))) : Except ErrKind Out) = _
      rw [cumAbsRow_smul, habs]; rfl
    | rows rs =>
      show (pure (Out.rows ((rs.map (List.map ((c * |c|) * ·))).map cumAbsRow)) : Except ErrKind Out) = _
      have : (rs.map (List.map ((c * |c|) * ·))).map cumAbsRow = (rs.map cumAbsRow).map (List.map ((c ^ 2) * ·)) := by
        rw [List.map_map, List.map_map]
        apply List.map_congr_left
        intro r _
        simp only [Function.comp, cumAbsRow_smul, habs]
      rw [this]; rfl


/-! ### general reductions (scalars or one entry per travel time) -/

/-- upward reduction factor of row `i` -/
def upOf : Red → ℕ → ℚ
  | .scalar u _, _ => u
  | .rows us _, i => us.getD i 0

/-- downward reduction factor of row `i` -/
def downOf : Red → ℕ → ℚ
  | .scalar _ d, _ => d
  | .rows _ ds, i => ds.getD i 0

/-- guard on the reductions: Python scalars, or arrays with one entry per travel time (the documented use;
NumPy's other broadcastable shapes are modelled and validated, but not covered by the theorems) -/
def RedOK : Red → ℕ → Prop
  | .scalar _ _, _ => True
  | .rows us ds, m => us.length = m ∧ ds.length = m

/-- spec: the acceleration rows, one per travel time -/
def specAccRows (values : List ℚ) (dt : ℚ) (tts : List ℚ) (nodal : Bool) (red : Red) (ms : ℕ) : List (List ℚ) :=
  (List.range tts.length).map (fun i =>
    accRow values ms (2 * tts.getD i 0 / dt) nodal (upOf red i) (downOf red i))

/-- spec: the energy rows `½·v·|v|`, one per travel time -/
def specRows (values : List ℚ) (dt : ℚ) (tts : List ℚ) (nodal : Bool) (red : Red) (ms : ℕ) : List (List ℚ) :=
  (List.range tts.length).map (fun i =>
    energyRow values dt ms (2 * tts.getD i 0 / dt) nodal (upOf red i) (downOf red i))

theorem map_eq_range_map {β : Type} (l : List ℚ) (f : ℚ → β) :
    l.map f = (List.range l.length).map (fun i => f (l.getD i 0)) := by
  apply List.ext_getElem
  · simp
  · intro i h1 h2
    have hi : i < l.length := by simpa using h1
    simp [List.getElem?_eq_getElem hi]

theorem specRows_scalar (values : List ℚ) (dt : ℚ) (tts : List ℚ) (nodal : Bool) (u d : ℚ) (ms : ℕ) :
    specRows values dt tts nodal (.scalar u d) ms
      = tts.map (fun t => energyRow values dt ms (2 * t / dt) nodal u d) := by
  rw [map_eq_range_map tts]; rfl

theorem specAccRows_scalar (values : List ℚ) (dt : ℚ) (tts : List ℚ) (nodal : Bool) (u d : ℚ) (ms : ℕ) :
    specAccRows values dt tts nodal (.scalar u d) ms
      = tts.map (fun t => accRow values ms (2 * t / dt) nodal u d) := by
  rw [map_eq_range_map tts]; rfl

theorem specRows_eq_map (values : List ℚ) (dt : ℚ) (tts : List ℚ) (nodal : Bool) (red : Red) (ms : ℕ) :
    specRows values dt tts nodal red ms
      = (specAccRows values dt tts nodal red ms).map (fun row => (cumtrapz dt row).map halfVAbsV) := by
  simp only [specRows, specAccRows, List.map_map]
  rfl

theorem tts_ne_nil_of_maxShift (tts : List ℚ) (dt : ℚ) (ms : ℕ) (h : maxShift tts dt = .ok ms) : tts ≠ [] := by
  obtain ⟨t, ht, -⟩ := maxShift_spec tts dt ms h
  intro hnil; rw [hnil] at ht; simp at ht

theorem accSeries_general (values : List ℚ) (dt : ℚ) (tts : List ℚ) (nodal : Bool) (red : Red) (ms : ℕ)
    (hdt : dt ≠ 0) (hv : values ≠ []) (hms : maxShift tts dt = .ok ms) (hred : RedOK red tts.length) :
    accSeries values dt tts nodal red = .ok (specAccRows values dt tts nodal red ms) := by
  cases red with
  | scalar u d =>
    rw [accSeries_scalar values dt tts nodal u d ms hdt hv hms, specAccRows_scalar]
  | rows us ds =>
    obtain ⟨hu, hd⟩ := hred
    have hn : values.length ≠ 0 := by simpa using hv
    have hm : tts.length ≠ 0 := by
      have := tts_ne_nil_of_maxShift tts dt ms hms
      simpa using this
    unfold accSeries
    simp only [hdt, if_false, hms, bind, Except.bind, hn, false_and, pure, Except.pure, hd, hu,
      ne_eq, not_true_eq_false, hm]
    congr 1
    unfold specAccRows
    apply List.map_congr_left
    intro i hi
    have hi' : i < tts.length := by simpa using hi
    simp only [upOf, downOf, if_true]
    have hdi : (if tts.length = 1 then ds.getD 0 0 else ds.getD i 0) = ds.getD i 0 := by
      split
      · have : i = 0 := by omega
        rw [this]
      · rfl
    rw [hdi]
    have hdown : (tts.map (fun t => delayed values (2 * t / dt) (values.length + ms))).getD i []
        = delayed values (2 * tts.getD i 0 / dt) (values.length + ms) := by
      simp only [List.getD_eq_getElem?_getD, List.getElem?_map, List.getElem?_eq_getElem hi', Option.map_some,
        Option.getD_some]
    rw [hdown]
    simp only [accRow, padRight]
    congr 1
    funext x y
    ring

theorem calcSurfaceEnergy_general (values : List ℚ) (dt : ℚ) (tts : List ℚ) (nodal : Bool) (red : Red) (ms : ℕ)
    (stt : ℚ) (trim start : Bool)
    (hdt : dt ≠ 0) (hv : values ≠ []) (hms : maxShift tts dt = .ok ms) (hred : RedOK red tts.length) :
    calcSurfaceEnergy values dt tts nodal red stt trim start =
      (trimToLength (specRows values dt tts nodal red ms) values.length tts dt trim start stt)
        >>= squeeze tts.length := by
  have hn : values.length ≠ 0 := by simpa using hv
  unfold calcSurfaceEnergy
  rw [accSeries_general values dt tts nodal red ms hdt hv hms hred, specRows_eq_map]
  simp only [bind, Except.bind, hn, if_false, energyRows]

theorem getTimeShiftMotions_general (values : List ℚ) (dt : ℚ) (tts : List ℚ) (nodal : Bool) (red : Red) (ms : ℕ)
    (stt : ℚ) (trim start : Bool)
    (hdt : dt ≠ 0) (hv : values ≠ []) (hms : maxShift tts dt = .ok ms) (hred : RedOK red tts.length) :
    getTimeShiftMotions values dt tts nodal red stt trim start =
      (trimToLength (specAccRows values dt tts nodal red ms) values.length tts dt trim start stt)
        >>= squeeze tts.length := by
  unfold getTimeShiftMotions
  rw [accSeries_general values dt tts nodal red ms hdt hv hms hred]
  rfl

@[simp] theorem length_specRows (values : List ℚ) (dt : ℚ) (tts : List ℚ) (nodal : Bool) (red : Red) (ms : ℕ) :
    (specRows values dt tts nodal red ms).length = tts.length := by simp [specRows]

theorem specRows_row_length (values : List ℚ) (dt : ℚ) (tts : List ℚ) (nodal : Bool) (red : Red) (ms : ℕ) :
    ∀ r ∈ specRows values dt tts nodal red ms, r.length = values.length + ms := by
  intro r hr
  obtain ⟨i, _, rfl⟩ := List.mem_map.mp hr
  simp

theorem specRows_smul (c : ℚ) (values : List ℚ) (dt : ℚ) (tts : List ℚ) (nodal : Bool) (red : Red) (ms : ℕ) :
    specRows (values.map (c * ·)) dt tts nodal red ms
      = (specRows values dt tts nodal red ms).map (List.map ((c * |c|) * ·)) := by
  simp only [specRows, List.map_map]
  apply List.map_congr_left
  intro i _
  simp only [Function.comp, energyRow_smul]

theorem calcSurfaceEnergy_smul_general (c : ℚ) (values : List ℚ) (dt : ℚ) (tts : List ℚ) (nodal : Bool) (red : Red)
    (ms : ℕ) (stt : ℚ) (trim start : Bool)
    (hdt : dt ≠ 0) (hv : values ≠ []) (hms : maxShift tts dt = .ok ms) (hred : RedOK red tts.length) :
    calcSurfaceEnergy (values.map (c * ·)) dt tts nodal red stt trim start
      = (calcSurfaceEnergy values dt tts nodal red stt trim start).map (Out.map ((c * |c|) * ·)) := by
  have hv' : values.map (c * ·) ≠ [] := by simpa using hv
  rw [calcSurfaceEnergy_general _ dt tts nodal red ms stt trim start hdt hv' hms hred,
    calcSurfaceEnergy_general _ dt tts nodal red ms stt trim start hdt hv hms hred]
  rw [specRows_smul, List.length_map, trimToLength_map]
  cases trimToLength (specRows values dt tts nodal red ms) values.length tts dt trim start stt with
  | error e => rfl
  | ok rows =>
    show squeeze tts.length (rows.map (List.map ((c * |c|) * ·))) = _
    rw [squeeze_map]; rfl

theorem calcCumAbs_smul_general (c : ℚ) (values : List ℚ) (dt : ℚ) (tts : List ℚ) (nodal : Bool) (red : Red)
    (ms : ℕ) (stt : ℚ) (trim start : Bool)
    (hdt : dt ≠ 0) (hv : values ≠ []) (hms : maxShift tts dt = .ok ms) (hred : RedOK red tts.length) :
    calcCumAbsSurfaceEnergy (values.map (c * ·)) dt tts nodal red stt trim start
      = (calcCumAbsSurfaceEnergy values dt tts nodal red stt trim start).map (Out.map ((c ^ 2) * ·)) := by
  unfold calcCumAbsSurfaceEnergy
  rw [calcSurfaceEnergy_smul_general c values dt tts nodal red ms stt trim start hdt hv hms hred]
  have habs : abs (c * |c|) = c ^ 2 := by
    rw [abs_mul, abs_abs, ← _root_.sq, sq_abs]
  cases calcSurfaceEnergy values dt tts nodal red stt trim start with
  | error e => rfl
  | ok e =>
    cases e with
    | row r =>
      show (pure (Out.row (cumAbsRow (r.map ((c * |c|) * ·)))) : Except ErrKind Out) = _
      rw [cumAbsRow_smul, habs]; rfl
    | rows rs =>
      show (pure (Out.rows ((rs.map (List.map ((c * |c|) * ·))).map cumAbsRow)) : Except ErrKind Out) = _
      have : (rs.map (List.map ((c * |c|) * ·))).map cumAbsRow = (rs.map cumAbsRow).map (List.map ((c ^ 2) * ·)) := by
        rw [List.map_map, List.map_map]
        apply List.map_congr_left
        intro r _
        simp only [Function.comp, cumAbsRow_smul, habs]
      rw [this]; rfl


/-! ### `trim=True, start=True`: a trimmed row only reads the common prefix (C19.d) -/

theorem pyIdx_natCast (len k : ℕ) : pyIdx len (k : ℤ) = min k len := by
  unfold pyIdx
  rw [if_neg (by omega)]; simp

theorem pySlice_take_some {α : Type} (l : List α) (L a b : ℕ) (hb : b ≤ L) (hL : L ≤ l.length) :
    pySlice (l.take L) (some (a : ℤ)) (some (b : ℤ)) = pySlice l (some (a : ℤ)) (some (b : ℤ)) := by
  unfold pySlice
  simp only [pyIdx_natCast, List.length_take, List.take_take]
  have e1 : min b (min L l.length) = b := by omega
  have e2 : min b l.length = b := by omega
  have e3 : min a (min L l.length) = min a L := by omega
  rw [e1, e2, e3]
  have e4 : min b L = b := by omega
  rw [e4]
  -- drop (min a L) vs drop (min a len) of a list of length b ≤ L ≤ len
  apply List.ext_getElem?
  intro i
  simp only [List.getElem?_drop, List.getElem?_take]
  by_cases h1 : a ≤ L
  · have : min a L = a := by omega
    have : min a l.length = a := by omega
    simp [*]
  · have h1' : min a L = L := by omega
    rw [h1']
    have c1 : ¬ (L + i < b) := by omega
    have c2 : ¬ (min a l.length + i < b) := by omega
    simp [c1, c2]

theorem pySlice_take_none {α : Type} (l : List α) (L b : ℕ) (hb : b ≤ L) (hL : L ≤ l.length) :
    pySlice (l.take L) none (some (b : ℤ)) = pySlice l none (some (b : ℤ)) := by
  unfold pySlice
  simp only [pyIdx_natCast, List.length_take, List.take_take, List.drop_zero]
  have e1 : min b (min L l.length) = b := by omega
  have e2 : min b l.length = b := by omega
  rw [e1, e2]
  have e4 : min b L = b := by omega
  rw [e4]

theorem trimRow_take (row : List ℚ) (n msi : ℕ) (sis : ℤ) (hw : n + msi ≤ row.length)
    (h1 : sis ≤ (n : ℤ)) (h2 : -sis ≤ (msi : ℤ)) :
    trimRow (row.take (n + msi)) n sis = trimRow row n sis := by
  unfold trimRow
  split
  · rename_i hneg
    obtain ⟨a, ha⟩ : ∃ a : ℕ, (a : ℤ) = -sis := ⟨(-sis).toNat, by omega⟩
    obtain ⟨b, hb⟩ : ∃ b : ℕ, (b : ℤ) = (n : ℤ) - sis := ⟨((n : ℤ) - sis).toNat, by omega⟩
    rw [← ha, ← hb, pySlice_take_some row (n + msi) a b (by omega) hw]
  · rename_i hpos
    obtain ⟨b, hb⟩ : ∃ b : ℕ, (b : ℤ) = (n : ℤ) - sis := ⟨((n : ℤ) - sis).toNat, by omega⟩
    rw [← hb, pySlice_take_none row (n + msi) b (by omega) hw]

theorem forall₂_range_get {β : Type} {R : ℕ → β → Prop} (m : ℕ) (out : List β)
    (h : List.Forall₂ R (List.range m) out) :
    ∃ hl : out.length = m, ∀ i (hi : i < m), R i (out[i]'(by omega)) := by
  have hl : out.length = m := by simpa using h.length_eq.symm
  refine ⟨hl, fun i hi => ?_⟩
  have := (List.forall₂_iff_get.mp h).2 i (by simpa using hi) (by omega)
  simpa using this

theorem squeeze_rowsList (m : ℕ) (rows : List (List ℚ)) (out : Out) (hl : rows.length = m) (hm : 0 < m)
    (h : squeeze m rows = .ok out) : out.rowsList = rows := by
  unfold squeeze at h
  split at h
  · rename_i h1
    match rows, hl with
    | [r], _ =>
      have : out = .row r := by
        have h' : (Except.ok (Out.row r) : Except ErrKind Out) = .ok out := h
        injection h' with h''; exact h''.symm
      subst this; rfl
    | [], hl => simp at hl; omega
    | _ :: _ :: _, hl => simp at hl; omega
  · have : out = .rows rows := by
      have h' : (Except.ok (Out.rows rows) : Except ErrKind Out) = .ok out := h
      injection h' with h''; exact h''.symm
    subst this; rfl

/-- rows of a successful `trim_to_length` with `trim=True, start=True` -/
theorem trimToLength_start_trim_rows (rows : List (List ℚ)) (n : ℕ) (tts : List ℚ) (dt stt : ℚ)
    (out : List (List ℚ)) (h : trimToLength rows n tts dt true true stt = .ok out) :
    ∃ hl : out.length = tts.length, ∀ i (hi : i < tts.length),
      ∃ row, rows[i]? = some row ∧
        trimRow row n (truncZ (stt / dt) - truncZ (tts.getD i 0 / dt)) = .ok (out[i]'(by omega)) := by
  unfold trimToLength at h
  split at h
  · cases h
  simp only [Bool.not_true, Bool.and_self, Bool.false_eq_true, if_false, trimWidth, Bool.and_false] at h
  have hF := mapM_ok_inv _ _ _ h
  obtain ⟨hl, hget⟩ := forall₂_range_get _ _ hF
  refine ⟨hl, fun i hi => ?_⟩
  have := hget i hi
  have hsis : (trimSis tts dt true stt).getD i 0 = truncZ (stt / dt) - truncZ (tts.getD i 0 / dt) := by
    simp only [trimSis, if_true, s2dShifts, List.map_map, List.getD_eq_getElem?_getD, List.getElem?_map,
      List.getElem?_eq_getElem hi, Option.map_some, Option.getD_some, Function.comp]
  cases hv : rows[i]? with
  | none => simp only [hv] at this; cases this
  | some row =>
    simp only [hv, hsis] at this
    exact ⟨row, rfl, this⟩


theorem trimToLength_single (r : List ℚ) (n : ℕ) (t dt stt : ℚ) (hdt : dt ≠ 0) :
    trimToLength [r] n [t] dt true true stt
      = (trimRow r n (truncZ (stt / dt) - truncZ (t / dt))).map (fun x => [x]) := by
  unfold trimToLength
  simp only [hdt, if_false, Bool.not_true, Bool.and_self, Bool.false_eq_true, trimWidth, Bool.and_false,
    List.length_singleton]
  have hr : List.range 1 = [0] := rfl
  rw [hr, List.mapM_cons]
  have hsis : (trimSis [t] dt true stt).getD 0 0 = truncZ (stt / dt) - truncZ (t / dt) := by
    simp [trimSis, s2dShifts]
  simp only [List.getElem?_cons_zero, hsis]
  cases trimRow r n (truncZ (stt / dt) - truncZ (t / dt)) with
  | error e => rfl
  | ok x => rfl

end EqsigVerif.Model.Surface
