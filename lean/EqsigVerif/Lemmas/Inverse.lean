import EqsigVerif.Model.Frequency
import EqsigVerif.Model.Stockwell
import EqsigVerif.Lemmas.CplxC
import EqsigVerif.Lemmas.Frequency
import EqsigVerif.Lemmas.Stockwell
/-!
# The inverse helpers over `ℂ`: `fas2values ∘ fas` (C06.g) and `itransform ∘ transform` (C15.e)
-/
set_option linter.unusedSectionVars false
set_option linter.unusedVariables false
noncomputable section
namespace EqsigVerif.Model.Frequency
open EqsigVerif EqsigVerif.Cplx EqsigVerif.Wire Finset Complex

theorem fasOf_getD (x : List ℂ) (dt : ℝ) (N k : ℕ) (hk : k < N / 2) :
    (fasOf twC x dt N).getD k 0 = (dft twC x N).getD k 0 * dt := by
  rw [← getElem_eq_getD _ _ (by simpa using hk), fasOf_getElem twC x dt N k hk, dft_getD,
    if_pos (by omega)]
  rfl

/-- the re-assembled, rescaled spectrum of `fas2values(fas(x))` is `X` with bins `0` and `P` zeroed -/
theorem hermitian_fas_getD (x : List ℂ) (dt : ℝ) (P : ℕ) (hP : 1 ≤ P) (hdt : dt ≠ 0)
    (hx : ∀ j, starRingEnd ℂ (x.getD j 0) = x.getD j 0) (k : ℕ) (hk : k < 2 * P) :
    ((hermitian (fasOf twC x dt (2 * P))).map (fun z => z / (CxLike.ofReal dt : ℂ))).getD k 0
      = if k = 0 ∨ k = P then 0 else (dft twC x (2 * P)).getD k 0 := by
  have hdc : (dt : ℂ) ≠ 0 := by exact_mod_cast hdt
  have hlen : (fasOf twC x dt (2 * P)).length = P := by simp
  rw [getD_map_div, cxlike_ofReal, hermitian,
    assemble_getD _ _ P k hP (by simp)]
  by_cases h0 : k = 0
  · simp [h0]
  · by_cases h1 : k < P
    · rw [if_neg h0, if_pos h1, if_neg (by omega), tail_getD, Nat.sub_add_cancel (by omega),
        fasOf_getD x dt (2 * P) k (by omega)]
      field_simp
    · by_cases h2 : k = P
      · simp [h2]
      · rw [if_neg h0, if_neg h1, if_neg h2, if_neg (by omega),
          reverse_conj_tail_getD _ P _ hlen (by omega),
          show P - 1 - (k - P - 1) = 2 * P - k by omega,
          fasOf_getD x dt (2 * P) (2 * P - k) (by omega), map_mul, Complex.conj_ofReal,
          dftC_conj_of_real x (2 * P) (2 * P - k) (by omega) (by omega) hx,
          show 2 * P - (2 * P - k) = k by omega]
        field_simp

theorem fas2values_fas_eq (x : List ℂ) (dt : ℝ) (P : ℕ) (hP : 1 ≤ P) :
    fas2values twC (fasOf twC x dt (2 * P)) dt =
      .ok (idft twC ((hermitian (fasOf twC x dt (2 * P))).map
        (fun z => z / (CxLike.ofReal dt : ℂ))) (2 * P)) := by
  have hlen : (fasOf twC x dt (2 * P)).length = P := by simp
  have h0 : P ≠ 0 := by omega
  unfold fas2values
  simp only [hlen, h0, if_false]
  rw [List.take_of_length_le (by simp)]

end EqsigVerif.Model.Frequency

namespace EqsigVerif.Model.Stockwell
open EqsigVerif EqsigVerif.Cplx EqsigVerif.Wire Finset Complex

theorem sumL_eq_sum_range_getD (l : List ℂ) : sumL l = ∑ j ∈ range l.length, l.getD j 0 := by
  induction l with
  | nil => simp [sumL]
  | cons a rest ih =>
    rw [sumL, List.length_cons, Finset.sum_range_succ', ih]
    simp [add_comm]

/-- the row sums of the transform of `x` are the conjugate Fourier coefficients, Nyquist first -/
theorem rowSums_getD (x : List ℂ) (h : 2 ≤ x.length) (r : ℕ) (hr : r < x.length / 2) :
    (((List.range (x.length / 2)).map (fun r =>
        idft twC (prodRow Real.exp Real.pi (dft twC x (2 * (x.length / 2))) (x.length / 2)
          (x.length / 2 - r)) (2 * (x.length / 2)))).map sumL).getD r 0
      = starRingEnd ℂ ((dft twC x (2 * (x.length / 2))).getD (x.length / 2 - r) 0) := by
  rw [← getElem_eq_getD _ _ (by simpa using hr)]
  simp only [List.getElem_map, List.getElem_range]
  rw [sumL_eq_sum_range_getD, length_idft]
  exact row_marginal x h r hr

/-- the re-assembled spectrum of `itransform(transform(x))` is `X` with bins `0` and `P` zeroed -/
theorem assembled_rowSums_getD (x ss : List ℂ) (P : ℕ) (hP : 1 ≤ P) (hss : ss.length = P)
    (hent : ∀ r, r < P → ss.getD r 0 = starRingEnd ℂ ((dft twC x (2 * P)).getD (P - r) 0))
    (hx : ∀ j, starRingEnd ℂ (x.getD j 0) = x.getD j 0) (k : ℕ) (hk : k < 2 * P) :
    ([0] ++ (ss.tail.map (CxLike.conj : ℂ → ℂ)).reverse ++ [0] ++ ss.tail).getD k 0
      = if k = 0 ∨ k = P then 0 else (dft twC x (2 * P)).getD k 0 := by
  rw [assemble_getD _ _ P k hP (by simp [hss])]
  by_cases h0 : k = 0
  · simp [h0]
  · by_cases h1 : k < P
    · rw [if_neg h0, if_pos h1, if_neg (by omega), reverse_conj_tail_getD _ P _ hss (by omega),
        show P - 1 - (k - 1) = P - k by omega, hent (P - k) (by omega), Complex.conj_conj,
        show P - (P - k) = k by omega]
    · by_cases h2 : k = P
      · simp [h2]
      · rw [if_neg h0, if_neg h1, if_neg h2, if_neg (by omega), tail_getD,
          show k - P - 1 + 1 = k - P by omega, hent (k - P) (by omega),
          show P - (k - P) = 2 * P - k by omega,
          dftC_conj_of_real x (2 * P) (2 * P - k) (by omega) (by omega) hx,
          show 2 * P - (2 * P - k) = k by omega]

end EqsigVerif.Model.Stockwell
