import EqsigVerif.Model.Stockwell
import EqsigVerif.Lemmas.Cplx
import EqsigVerif.Lemmas.CplxC
import Mathlib.Algebra.BigOperators.Field
/-!
# Lemmas for `Model/Stockwell.lean` over `ℝ`/`ℂ` (C15): the list pipeline of `transform` as entry formulas
-/
set_option linter.unusedSectionVars false
set_option linter.unusedVariables false
noncomputable section
namespace EqsigVerif.Model.Stockwell
open EqsigVerif EqsigVerif.Cplx EqsigVerif.Wire Finset

/-! ### list helpers -/

theorem drop_one_map_range {γ : Type} (f : ℕ → γ) (n : ℕ) :
    ((List.range (n + 1)).map f).drop 1 = (List.range n).map (fun i => f (i + 1)) := by
  rw [List.range_succ_eq_map]
  simp [List.map_map, Function.comp_def]

theorem zipWith_map_range {γ δ ε : Type} (F : γ → δ → ε) (a : ℕ → γ) (b : ℕ → δ) (n : ℕ) :
    List.zipWith F ((List.range n).map a) ((List.range n).map b)
      = (List.range n).map (fun i => F (a i) (b i)) := by
  apply List.ext_getElem (by simp)
  intro i h1 h2
  simp

theorem reverse_map_range {γ : Type} (f : ℕ → γ) (n : ℕ) :
    ((List.range n).map f).reverse = (List.range n).map (fun r => f (n - 1 - r)) := by
  apply List.ext_getElem (by simp)
  intro i h1 h2
  simp [List.getElem_reverse]

theorem getD_map_range {γ : Type} (f : ℕ → List γ) (n r : ℕ) (hr : r < n) :
    ((List.range n).map f).getD r [] = f r := by
  rw [List.getD_eq_getElem?_getD, List.getElem?_map, List.getElem?_eq_getElem (by simpa using hr)]
  simp

/-! ### the Gaussian window -/

/-- the signed frequency `m̃/N` (`N = 2·nd2`) as the model computes it -/
def fSignedEntry (nd2 m : ℕ) : ℝ :=
  if m ≤ nd2 then ((m : ℕ) : ℝ) / ((2 * nd2 : ℕ) : ℝ)
  else -(((2 * nd2 - m : ℕ) : ℝ) / ((2 * nd2 : ℕ) : ℝ))

/-- entry `(k−1, m)` of `generate_gaussian(nd2)` as the model computes it -/
def gaussEntry (exp : ℝ → ℝ) (pi : ℝ) (nd2 k m : ℕ) : ℝ :=
  exp (-((2 * pi) * (fSignedEntry nd2 m * (1 / (((k : ℕ) : ℝ) / ((2 * nd2 : ℕ) : ℝ)))) *
        ((2 * pi) * (fSignedEntry nd2 m * (1 / (((k : ℕ) : ℝ) / ((2 * nd2 : ℕ) : ℝ)))))) / 2)

theorem fSigned_eq (nd2 : ℕ) (h : 1 ≤ nd2) :
    (fSigned nd2 : List ℝ) = (List.range (2 * nd2)).map (fSignedEntry nd2) := by
  apply List.ext_getElem
  · simp [fSigned, fHalf, Np.slice]; omega
  · intro m h1 h2
    have hm : m < 2 * nd2 := by simpa using h2
    simp only [fSigned, Np.slice, List.getElem_map, List.getElem_range]
    by_cases hle : m ≤ nd2
    · rw [List.getElem_append_left (by simp [fHalf]; omega)]
      simp [fHalf, fSignedEntry, hle]
    · rw [List.getElem_append_right (by simp [fHalf]; omega)]
      simp only [fSignedEntry, hle, if_false, List.getElem_reverse, List.getElem_map,
        List.getElem_drop, List.getElem_take, fHalf, List.getElem_range, List.length_map,
        List.length_range, List.length_drop, List.length_take]
      congr 3
      omega

theorem generateGaussian_eq (exp : ℝ → ℝ) (pi : ℝ) (nd2 : ℕ) (h : 1 ≤ nd2) :
    generateGaussian exp pi nd2 =
      (List.range nd2).map (fun i => (List.range (2 * nd2)).map (fun m => gaussEntry exp pi nd2 (i + 1) m)) := by
  unfold generateGaussian
  simp only [fSigned_eq nd2 h]
  rw [show (fHalf nd2 : List ℝ) = (List.range (nd2 + 1)).map
    (fun k => ((k : ℕ) : ℝ) / ((2 * nd2 : ℕ) : ℝ)) from rfl, drop_one_map_range, List.map_map]
  apply List.map_congr_left
  intro i _
  simp only [Function.comp, List.map_map]
  apply List.map_congr_left
  intro m _
  simp only [Function.comp, gaussEntry]

/-! ### the shifted spectrum (Toeplitz rows) -/

/-- entry `(k, m)` of `toeplitz(conj(fa[:nd2+1]), fa)`: `conj fa[k−m]` for `m ≤ k`, `fa[m−k]` above -/
def shiftEntry (fa : List ℂ) (k m : ℕ) : ℂ :=
  if m ≤ k then starRingEnd ℂ (fa.getD (k - m) 0) else fa.getD (m - k) 0

theorem toeplitz_slice_eq (fa : List ℂ) (nd2 : ℕ) (h : 1 ≤ nd2) (hfa : fa.length = 2 * nd2) :
    Np.slice (toeplitz ((fa.take (nd2 + 1)).map CxLike.conj) fa) 1 (nd2 + 1) =
      (List.range nd2).map (fun i => (List.range (2 * nd2)).map (fun m => shiftEntry fa (i + 1) m)) := by
  have hc : ((fa.take (nd2 + 1)).map (CxLike.conj : ℂ → ℂ)).length = nd2 + 1 := by
    simp [hfa]; omega
  unfold toeplitz Np.slice
  rw [hc, List.take_of_length_le (by simp), drop_one_map_range, hfa]
  apply List.map_congr_left
  intro i hi
  have hi' : i < nd2 := by simpa using hi
  apply List.map_congr_left
  intro m _
  unfold shiftEntry
  by_cases hm : m ≤ i + 1
  · simp only [hm, if_true]
    have h1 : i + 1 - m < (fa.take (nd2 + 1)).length := by simp [hfa]; omega
    rw [List.getD_eq_getElem?_getD, List.getElem?_map, List.getElem?_eq_getElem h1]
    simp only [Option.map_some, Option.getD_some, cxlike_conj, List.getElem_take]
    rw [getElem_eq_getD]
  · simp only [hm, if_false]

/-! ### the whole pipeline -/

/-- row `k` (harmonic `k`) of the product `diag_con * gaussian` -/
def prodRow (exp : ℝ → ℝ) (pi : ℝ) (fa : List ℂ) (nd2 k : ℕ) : List ℂ :=
  (List.range (2 * nd2)).map (fun m => shiftEntry fa k m * ((gaussEntry exp pi nd2 k m : ℝ) : ℂ))

/-- `transform(acc)` as a table: row `r` is the inverse DFT of the product row of harmonic `k = N/2 − r` -/
theorem transform_eq (tw : ℕ → ℕ → ℂ) (exp : ℝ → ℝ) (pi : ℝ) (acc : List ℂ) (h : 2 ≤ acc.length) :
    transform tw exp pi acc = .ok ((List.range (acc.length / 2)).map (fun r =>
      idft tw (prodRow exp pi (dft tw acc (2 * (acc.length / 2))) (acc.length / 2)
        (acc.length / 2 - r)) (2 * (acc.length / 2)))) := by
  have hnd : 1 ≤ acc.length / 2 := by omega
  have hN : 2 * (acc.length / 2) ≠ 0 := by omega
  unfold transform
  simp only [hN, if_false]
  congr 1
  rw [generateGaussian_eq exp pi _ hnd, toeplitz_slice_eq _ _ hnd (by simp), zipWith_map_range,
    List.map_map, reverse_map_range]
  apply List.map_congr_left
  intro r hr
  have hr' : r < acc.length / 2 := by simpa using hr
  simp only [Function.comp, zipWith_map_range, prodRow, cxlike_ofReal]
  rw [show acc.length / 2 - 1 - r + 1 = acc.length / 2 - r by omega]

/-! ### linearity of the stages -/

theorem idft_add (tw : ℕ → ℕ → ℂ) (a b : List ℂ) (N : ℕ) (h : a.length = b.length) :
    idft tw (List.zipWith (· + ·) a b) N = List.zipWith (· + ·) (idft tw a N) (idft tw b N) := by
  rw [idft_eq_map, idft_eq_map, idft_eq_map, dft_add _ a b N h]
  apply List.ext_getElem (by simp)
  intro i h1 h2
  simp [add_div]

theorem idft_smul (tw : ℕ → ℕ → ℂ) (c : ℂ) (a : List ℂ) (N : ℕ) :
    idft tw (a.map (c * ·)) N = (idft tw a N).map (c * ·) := by
  rw [idft_eq_map, idft_eq_map, dft_smul]
  simp [List.map_map, Function.comp_def, mul_div_assoc]

theorem shiftEntry_add (fa fb : List ℂ) (h : fa.length = fb.length) (k m : ℕ) :
    shiftEntry (List.zipWith (· + ·) fa fb) k m = shiftEntry fa k m + shiftEntry fb k m := by
  unfold shiftEntry
  split
  · rw [getD_zipWith_add fa fb h, map_add]
  · rw [getD_zipWith_add fa fb h]

theorem shiftEntry_smul (c : ℂ) (hc : starRingEnd ℂ c = c) (fa : List ℂ) (k m : ℕ) :
    shiftEntry (fa.map (c * ·)) k m = c * shiftEntry fa k m := by
  unfold shiftEntry
  split
  · rw [getD_map_mul, map_mul, hc]
  · rw [getD_map_mul]

theorem prodRow_add (exp : ℝ → ℝ) (pi : ℝ) (fa fb : List ℂ) (h : fa.length = fb.length) (nd2 k : ℕ) :
    prodRow exp pi (List.zipWith (· + ·) fa fb) nd2 k
      = List.zipWith (· + ·) (prodRow exp pi fa nd2 k) (prodRow exp pi fb nd2 k) := by
  unfold prodRow
  rw [zipWith_map_range]
  apply List.map_congr_left
  intro m _
  rw [shiftEntry_add fa fb h, add_mul]

theorem prodRow_smul (exp : ℝ → ℝ) (pi : ℝ) (c : ℂ) (hc : starRingEnd ℂ c = c) (fa : List ℂ)
    (nd2 k : ℕ) :
    prodRow exp pi (fa.map (c * ·)) nd2 k = (prodRow exp pi fa nd2 k).map (c * ·) := by
  unfold prodRow
  rw [List.map_map]
  apply List.map_congr_left
  intro m _
  simp only [Function.comp, shiftEntry_smul c hc, mul_assoc]

@[simp] theorem length_prodRow (exp : ℝ → ℝ) (pi : ℝ) (fa : List ℂ) (nd2 k : ℕ) :
    (prodRow exp pi fa nd2 k).length = 2 * nd2 := by simp [prodRow]

/-! ### entries -/

theorem prodRow_getD (exp : ℝ → ℝ) (pi : ℝ) (fa : List ℂ) (nd2 k m : ℕ) (hm : m < 2 * nd2) :
    (prodRow exp pi fa nd2 k).getD m 0 = shiftEntry fa k m * ((gaussEntry exp pi nd2 k m : ℝ) : ℂ) := by
  rw [← getElem_eq_getD _ _ (by simpa using hm)]
  simp [prodRow]

/-- the signed index `m̃` (`m` up to `N/2`, `m − N` above) -/
def signedIdx (nd2 m : ℕ) : ℝ := if m ≤ nd2 then (m : ℝ) else (m : ℝ) - ((2 * nd2 : ℕ) : ℝ)

/-- the model's Gaussian entry is `exp(−2π² m̃²/k²)` -/
theorem gaussEntry_real (nd2 k m : ℕ) (hnd : 1 ≤ nd2) (hk : 1 ≤ k) (hm : m < 2 * nd2) :
    gaussEntry Real.exp Real.pi nd2 k m
      = Real.exp (-(2 * Real.pi ^ 2 * signedIdx nd2 m ^ 2 / (k : ℝ) ^ 2)) := by
  unfold gaussEntry
  congr 1
  have hk' : (k : ℝ) ≠ 0 := by exact_mod_cast (by omega : k ≠ 0)
  have hn' : ((2 * nd2 : ℕ) : ℝ) ≠ 0 := by exact_mod_cast (by omega : 2 * nd2 ≠ 0)
  have hf : fSignedEntry nd2 m = signedIdx nd2 m / ((2 * nd2 : ℕ) : ℝ) := by
    unfold fSignedEntry signedIdx
    split
    · rfl
    · rw [Nat.cast_sub (by omega)]; ring
  rw [hf]
  field_simp

theorem gaussEntry_zero (nd2 k : ℕ) : gaussEntry Real.exp Real.pi nd2 k 0 = 1 := by
  simp [gaussEntry, fSignedEntry]

/-- for a real record the Toeplitz row is the cyclically shifted spectrum: `Y_k[m] = X[(m − k) mod N]` -/
theorem shiftEntry_of_real (x : List ℂ) (nd2 k m : ℕ) (hk0 : 1 ≤ k) (hk : k ≤ nd2) (hm : m < 2 * nd2)
    (hx : ∀ j, starRingEnd ℂ (x.getD j 0) = x.getD j 0) :
    shiftEntry (dft twC x (2 * nd2)) k m = (dft twC x (2 * nd2)).getD ((m + 2 * nd2 - k) % (2 * nd2)) 0 := by
  unfold shiftEntry
  rcases Nat.lt_trichotomy m k with h | h | h
  · rw [if_pos (le_of_lt h), dftC_conj_of_real x (2 * nd2) (k - m) (by omega) (by omega) hx,
      Nat.mod_eq_of_lt (by omega)]
    congr 1; omega
  · subst h
    rw [if_pos (le_refl _), Nat.sub_self, dftC_zero_real x (2 * nd2) (by omega) hx]
    congr 1
    rw [show m + 2 * nd2 - m = 2 * nd2 by omega, Nat.mod_self]
  · rw [if_neg (by omega)]
    congr 1
    rw [show m + 2 * nd2 - k = (m - k) + 2 * nd2 by omega, Nat.add_mod_right,
      Nat.mod_eq_of_lt (by omega)]

theorem conj_omega_pow (N n : ℕ) :
    starRingEnd ℂ (omega N ^ n) = Complex.exp (2 * Real.pi * Complex.I * n / N) := by
  rw [← twC_eq_pow, twC, ← Complex.exp_conj]
  congr 1
  simp only [map_neg, map_div₀, map_mul, Complex.conj_I, Complex.conj_ofReal, map_ofNat, map_natCast]
  ring

/-- `Σ_{j<N} conj(ω^{jm}) = N·[m = 0]` for `m < N` -/
theorem sum_conj_omega_pow (N m : ℕ) (hN : N ≠ 0) (hm : m < N) :
    ∑ j ∈ range N, starRingEnd ℂ (omega N ^ (j * m)) = if m = 0 then (N : ℂ) else 0 := by
  have hterm : ∀ j ∈ range N, starRingEnd ℂ (omega N ^ (j * m)) = ((omega N)⁻¹ ^ m) ^ j := by
    intro j _
    rw [map_pow, conj_omega, ← pow_mul, Nat.mul_comm]
  rw [Finset.sum_congr rfl hterm, sum_pow_primitive (omega_prim N hN).inv hN]
  by_cases h0 : m = 0
  · simp [h0]
  · have : ¬ N ∣ m := fun hd => by have := Nat.le_of_dvd (by omega) hd; omega
    simp [h0, this]

/-! ### the Fourier marginal of a row -/

/-- summing the row of harmonic `k = N/2 − r` over time gives `conj X[k]` -/
theorem row_marginal (x : List ℂ) (h : 2 ≤ x.length) (r : ℕ) (hr : r < x.length / 2) :
    ∑ j ∈ range (2 * (x.length / 2)),
        (idft twC (prodRow Real.exp Real.pi (dft twC x (2 * (x.length / 2))) (x.length / 2)
          (x.length / 2 - r)) (2 * (x.length / 2))).getD j 0
      = starRingEnd ℂ ((dft twC x (2 * (x.length / 2))).getD (x.length / 2 - r) 0) := by
  have hN : 2 * (x.length / 2) ≠ 0 := by omega
  have hNc : ((2 * (x.length / 2) : ℕ) : ℂ) ≠ 0 := by exact_mod_cast hN
  set P := prodRow Real.exp Real.pi (dft twC x (2 * (x.length / 2))) (x.length / 2) (x.length / 2 - r)
    with hP
  have h1 : ∀ j ∈ range (2 * (x.length / 2)), (idft twC P (2 * (x.length / 2))).getD j 0
      = (∑ m ∈ range (2 * (x.length / 2)), P.getD m 0 * starRingEnd ℂ (omega (2 * (x.length / 2)) ^ (j * m)))
        / (2 * (x.length / 2) : ℕ) := fun j hj => idftC_getD P _ j (Finset.mem_range.mp hj)
  rw [Finset.sum_congr rfl h1, ← Finset.sum_div, Finset.sum_comm]
  have h2 : ∀ m ∈ range (2 * (x.length / 2)),
      ∑ j ∈ range (2 * (x.length / 2)), P.getD m 0 * starRingEnd ℂ (omega (2 * (x.length / 2)) ^ (j * m))
        = if m = 0 then P.getD 0 0 * (2 * (x.length / 2) : ℕ) else 0 := by
    intro m hm
    rw [← Finset.mul_sum, sum_conj_omega_pow _ m hN (Finset.mem_range.mp hm)]
    split
    · subst ‹m = 0›; rfl
    · simp
  rw [Finset.sum_congr rfl h2, Finset.sum_ite_eq' (range (2 * (x.length / 2))) 0]
  simp only [Finset.mem_range, Nat.pos_of_ne_zero hN, if_true]
  rw [mul_div_assoc, div_self hNc, mul_one, hP, prodRow_getD _ _ _ _ _ _ (Nat.pos_of_ne_zero hN),
    gaussEntry_zero]
  simp [shiftEntry]


/-! ### re-indexing `m ↦ −m mod N` (textbook form of the S-transform) -/

/-- the residue `−m mod N` -/
def negMod (N m : ℕ) : ℕ := (N - m) % N

theorem negMod_lt (N m : ℕ) (hN : 0 < N) : negMod N m < N := Nat.mod_lt _ hN

theorem negMod_zero (N : ℕ) : negMod N 0 = 0 := by simp [negMod]

theorem negMod_pos (N m : ℕ) (h0 : 0 < m) (hm : m < N) : negMod N m = N - m := by
  unfold negMod; exact Nat.mod_eq_of_lt (by omega)

theorem negMod_negMod (N m : ℕ) (hm : m < N) : negMod N (negMod N m) = m := by
  rcases Nat.eq_zero_or_pos m with h0 | h0
  · subst h0; simp [negMod]
  · rw [negMod_pos N m h0 hm, negMod_pos N (N - m) (by omega) (by omega)]; omega

/-- re-indexing a sum over the residues by `m ↦ −m mod N` -/
theorem sum_range_negMod (N : ℕ) (f : ℕ → ℂ) :
    ∑ m ∈ range N, f m = ∑ m ∈ range N, f (negMod N m) := by
  apply Finset.sum_nbij' (fun m => negMod N m) (fun m => negMod N m)
  · intro m hm
    exact Finset.mem_range.mpr (negMod_lt N m (by have := Finset.mem_range.mp hm; omega))
  · intro m hm
    exact Finset.mem_range.mpr (negMod_lt N m (by have := Finset.mem_range.mp hm; omega))
  · intro m hm; exact negMod_negMod N m (Finset.mem_range.mp hm)
  · intro m hm; exact negMod_negMod N m (Finset.mem_range.mp hm)
  · intro m hm
    show f m = f (negMod N (negMod N m))
    rw [negMod_negMod N m (Finset.mem_range.mp hm)]

theorem mod_of_ge_lt (a N : ℕ) (h1 : N ≤ a) (h2 : a < 2 * N) : a % N = a - N := by
  rw [Nat.mod_eq_sub_mod h1, Nat.mod_eq_of_lt (by omega)]

/-- `−(m + k) ≡ (−m) − k (mod N)` in the indexing of the code -/
theorem negMod_add (N m k : ℕ) (hm : m < N) (hk0 : 0 < k) (hk : k < N) :
    negMod N ((m + k) % N) = (negMod N m + N - k) % N := by
  rcases Nat.eq_zero_or_pos m with h0 | h0
  · subst h0
    rw [negMod_zero, Nat.zero_add, Nat.zero_add, Nat.mod_eq_of_lt hk, negMod_pos N k hk0 hk,
      Nat.mod_eq_of_lt (by omega)]
  · rw [negMod_pos N m h0 hm]
    rcases Nat.lt_trichotomy (m + k) N with h | h | h
    · rw [Nat.mod_eq_of_lt h, negMod_pos N (m + k) (by omega) h,
        mod_of_ge_lt (N - m + N - k) N (by omega) (by omega)]
      omega
    · rw [h, Nat.mod_self, negMod_zero, show N - m + N - k = N by omega, Nat.mod_self]
    · rw [mod_of_ge_lt (m + k) N (by omega) (by omega), negMod_pos N (m + k - N) (by omega) (by omega),
        Nat.mod_eq_of_lt (by omega)]
      omega

/-- Hermitian symmetry in residue form -/
theorem dftC_conj_of_real_mod (x : List ℂ) (N n : ℕ) (hn : n < N)
    (hx : ∀ j, starRingEnd ℂ (x.getD j 0) = x.getD j 0) :
    starRingEnd ℂ ((dft twC x N).getD n 0) = (dft twC x N).getD (negMod N n) 0 := by
  rcases Nat.eq_zero_or_pos n with h0 | h0
  · subst h0; rw [negMod_zero, dftC_zero_real x N hn hx]
  · rw [negMod_pos N n h0 hn, dftC_conj_of_real x N n h0 hn hx]

theorem signedIdx_negMod_sq (P m : ℕ) (hP : 1 ≤ P) (hm : m < 2 * P) :
    signedIdx P (negMod (2 * P) m) ^ 2 = signedIdx P m ^ 2 := by
  rcases Nat.eq_zero_or_pos m with h0 | h0
  · subst h0; rw [negMod_zero]
  · rw [negMod_pos _ m h0 hm]
    unfold signedIdx
    rcases Nat.lt_trichotomy m P with h | h | h
    · rw [if_neg (by omega), if_pos (by omega), Nat.cast_sub (by omega)]; ring
    · subst h
      rw [if_pos (by omega), if_pos (by omega), Nat.cast_sub (by omega)]; push_cast; ring
    · rw [if_pos (by omega), if_neg (by omega), Nat.cast_sub (by omega)]; ring

theorem conj_omega_pow_negMod (N j m : ℕ) (hm : m < N) :
    starRingEnd ℂ (omega N ^ (j * negMod N m)) = omega N ^ (j * m) := by
  have hN : N ≠ 0 := by omega
  have h1 : omega N ^ (j * negMod N m) * omega N ^ (j * m) = 1 := by
    rw [← pow_add, ← Nat.mul_add]
    rcases Nat.eq_zero_or_pos m with h0 | h0
    · subst h0; simp [negMod_zero]
    · rw [negMod_pos N m h0 hm, Nat.sub_add_cancel (le_of_lt hm), Nat.mul_comm, pow_mul,
        omega_pow_self N hN, one_pow]
  rw [map_pow, conj_omega, inv_pow, eq_inv_of_mul_eq_one_left h1, inv_inv]

end EqsigVerif.Model.Stockwell
