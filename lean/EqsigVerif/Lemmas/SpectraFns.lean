import EqsigVerif.Model.SpectraFns
import EqsigVerif.Lemmas.Np
import Mathlib.Algebra.BigOperators.Intervals
import Mathlib.Algebra.BigOperators.Group.List.Basic
import Mathlib.Algebra.Order.Field.Basic
import Mathlib.Algebra.Order.AbsoluteValue.Basic
import Mathlib.Tactic.Ring
import Mathlib.Tactic.Linarith
import Mathlib.Tactic.FieldSimp
import Mathlib.Tactic.NormNum
/-!
# Lemmas for `Model/SpectraFns.lean` (C03 b–f), for an arbitrary linearly ordered field
-/
set_option linter.unusedSectionVars false
set_option linter.unusedVariables false
set_option linter.unusedSimpArgs false
namespace EqsigVerif.Model.SpectraFns
open EqsigVerif
open EqsigVerif.Wire (ErrKind)

variable {α : Type} [Field α] [LinearOrder α] [IsStrictOrderedRing α]

/-- spec vocabulary: `m = max_t |l(t)|` -/
def IsAbsMax (l : List α) (m : α) : Prop := (∀ x ∈ l, |x| ≤ m) ∧ ∃ x ∈ l, |x| = m

theorem IsAbsMax.nonneg {l : List α} {m : α} (h : IsAbsMax l m) : 0 ≤ m := by
  obtain ⟨x, _, hx⟩ := h.2
  rw [← hx]; exact abs_nonneg x

theorem IsAbsMax.eq_zero_of_zeros {l : List α} {m : α} (h : IsAbsMax l m) (hz : ∀ x ∈ l, x = 0) : m = 0 := by
  obtain ⟨x, hx, hm⟩ := h.2
  rw [← hm, hz x hx, abs_zero]

/-- `absmax` is the maximum absolute value (C03.a for the local copy) -/
theorem absmaxL_spec (l : List α) (m : α) (h : absmaxL l = some m) : IsAbsMax l m := by
  cases l with
  | nil => simp [absmaxL] at h
  | cons x xs =>
    simp only [absmaxL, Option.some.injEq] at h
    have hmax := Np.le_maxFrom x xs
    have hmin := Np.minFrom_le x xs
    have hmaxm := Np.maxFrom_mem x xs
    have hminm := Np.minFrom_mem x xs
    set amax := Np.maxFrom x xs
    set amin := Np.minFrom x xs
    have hle : ∀ y ∈ x :: xs, amin ≤ y ∧ y ≤ amax := by
      intro y hy
      rcases List.mem_cons.mp hy with rfl | hy
      · exact ⟨hmin.1, hmax.1⟩
      · exact ⟨hmin.2 y hy, hmax.2 y hy⟩
    have hmaxm' : amax ∈ x :: xs := by rcases hmaxm with h1 | h1 <;> simp [h1]
    have hminm' : amin ∈ x :: xs := by rcases hminm with h1 | h1 <;> simp [h1]
    rw [Np.absv_eq_abs] at h
    by_cases hc : amax < -amin
    · simp only [hc, if_true] at h
      subst h
      have hneg : amin < 0 := by have := (hle amin hminm').2; linarith
      refine ⟨fun y hy => ?_, amin, hminm', rfl⟩
      rw [abs_of_neg hneg, abs_le]
      have := hle y hy
      constructor <;> linarith
    · simp only [hc, if_false] at h
      subst h
      have hc' : -amin ≤ amax := not_lt.mp hc
      have hpos : 0 ≤ amax := by have := (hle amin hminm').2; linarith
      refine ⟨fun y hy => ?_, amax, hmaxm', rfl⟩
      rw [abs_of_nonneg hpos, abs_le]
      have := hle y hy
      constructor <;> linarith

theorem absmaxL_isSome (l : List α) (hl : l ≠ []) : ∃ m, absmaxL l = some m := by
  cases l with
  | nil => exact absurd rfl hl
  | cons x xs => exact ⟨_, rfl⟩

theorem rowsAbsmax_spec (rows : List (List α)) (ms : List α) (h : rowsAbsmax rows = .ok ms) :
    ms.length = rows.length ∧ ∀ j, j < rows.length → absmaxL (rows.getD j []) = some (ms.getD j 0) := by
  induction rows generalizing ms with
  | nil => simp only [rowsAbsmax, Except.ok.injEq] at h; subst h; simp
  | cons r rs ih =>
    simp only [rowsAbsmax] at h
    cases hr : absmaxL r with
    | none => simp [hr] at h
    | some m =>
      simp only [hr] at h
      cases hrs : rowsAbsmax rs with
      | error e => simp [hrs] at h
      | ok ms' =>
        simp only [hrs, Except.ok.injEq] at h
        subst h
        obtain ⟨hl, hk⟩ := ih ms' hrs
        refine ⟨by simp [hl], fun j hj => ?_⟩
        cases j with
        | zero => simpa using hr
        | succ j => simpa using hk j (by simpa using hj)

theorem getD_zipWith {β γ δ : Type} (f : β → γ → δ) (a : List β) (b : List γ) (j : ℕ)
    (ha : j < a.length) (hb : j < b.length) (d : δ) (da : β) (db : γ) :
    (List.zipWith f a b).getD j d = f (a.getD j da) (b.getD j db) := by
  simp [List.getD_eq_getElem?_getD, List.getElem?_zipWith, List.getElem?_eq_getElem ha,
    List.getElem?_eq_getElem hb]

theorem getD_mem {β : Type} (l : List β) (j : ℕ) (h : j < l.length) (d : β) : l.getD j d ∈ l := by
  simp [List.getD_eq_getElem?_getD, List.getElem?_eq_getElem h]

/-- the angular frequency used for period `j`: placeholder `1` for a leading zero period, else `2π/T` -/
def omegaAt (twoPi : α) (periods : List α) (j : ℕ) : α :=
  if j = 0 ∧ periods.getD 0 0 = 0 then 1 else twoPi / periods.getD j 0

theorem omegas_spec (twoPi : α) (periods w : List α) (h : omegas twoPi periods = .ok w) :
    w.length = periods.length ∧ ∀ j, j < periods.length → w.getD j 0 = omegaAt twoPi periods j := by
  cases periods with
  | nil => simp [omegas] at h
  | cons p0 rest =>
    simp only [omegas] at h
    by_cases hp : p0 = 0
    · simp only [hp, if_true, Except.ok.injEq] at h
      subst h
      refine ⟨by simp, fun j hj => ?_⟩
      cases j with
      | zero => simp [omegaAt, hp]
      | succ j =>
        have hj' : j < rest.length := by simpa using hj
        simp [omegaAt, List.getD_eq_getElem?_getD, List.getElem?_map, List.getElem?_eq_getElem hj']
    · simp only [hp, if_false, Except.ok.injEq] at h
      subst h
      refine ⟨by simp, fun j hj => ?_⟩
      have : ¬ (j = 0 ∧ (p0 :: rest).getD 0 0 = 0) := by simp [hp]
      simp only [omegaAt, this, if_false]
      clear this
      generalize (p0 :: rest) = l at hj ⊢
      simp [List.getD_eq_getElem?_getD, List.getElem?_map, List.getElem?_eq_getElem hj]

theorem pgaSubstitute_spec (periods : List α) (dt pga : α) (sas : List α) (hl : sas.length = periods.length) :
    (pgaSubstitute periods dt pga sas).length = periods.length ∧
    ∀ j, j < periods.length → (pgaSubstitute periods dt pga sas).getD j 0
      = if periods.getD j 0 < dt * 6 then pga else sas.getD j 0 := by
  refine ⟨by simp [pgaSubstitute, hl], fun j hj => ?_⟩
  unfold pgaSubstitute
  rw [getD_zipWith _ _ _ j hj (by omega) 0 0 0]

/-! ### sums -/

theorem npSum_eq_sum' {β : Type} [AddCommMonoid β] (l : List β) : Np.sum l = l.sum := by
  unfold Np.sum
  rw [List.sum_eq_foldl]

theorem list_sum_eq_range' {β : Type} [AddCommMonoid β] (l : List β) :
    l.sum = ∑ j ∈ Finset.range l.length, l.getD j 0 := by
  induction l with
  | nil => simp
  | cons x xs ih =>
    rw [List.length_cons, Finset.sum_range_succ', List.sum_cons, ih]
    simp [add_comm]

theorem length_diffFrom (p : α) (l : List α) : (Np.diffFrom p l).length = l.length := by
  induction l generalizing p with
  | nil => rfl
  | cons x xs ih => simp [Np.diffFrom, ih]

theorem getD_diffFrom (p : α) (l : List α) (i : ℕ) (hi : i < l.length) :
    (Np.diffFrom p l).getD i 0 = l.getD i 0 - (p :: l).getD i 0 := by
  induction l generalizing p i with
  | nil => simp at hi
  | cons x xs ih =>
    cases i with
    | zero => simp [Np.diffFrom]
    | succ i =>
      have := ih x i (by simpa using hi)
      simpa [Np.diffFrom] using this

theorem length_diff (l : List α) : (Np.diff l).length = l.length - 1 := by
  cases l with
  | nil => rfl
  | cons x xs => simp [Np.diff, length_diffFrom]

theorem getD_diff (l : List α) (i : ℕ) (hi : i + 1 < l.length) :
    (Np.diff l).getD i 0 = l.getD (i + 1) 0 - l.getD i 0 := by
  cases l with
  | nil => simp at hi
  | cons x xs =>
    simp only [Np.diff]
    rw [getD_diffFrom x xs i (by simpa using hi)]
    simp

theorem getD_cumsumFrom (acc : α) (l : List α) (i : ℕ) (hi : i < l.length) :
    (Np.cumsumFrom acc l).getD i 0 = acc + ∑ k ∈ Finset.range (i + 1), l.getD k 0 := by
  induction l generalizing acc i with
  | nil => simp at hi
  | cons x xs ih =>
    cases i with
    | zero => simp [Np.cumsumFrom]
    | succ i =>
      have := ih (acc + x) i (by simpa using hi)
      simp only [Np.cumsumFrom, List.getD_cons_succ, this]
      rw [Finset.sum_range_succ' _ (i + 1)]
      simp only [List.getD_cons_succ, List.getD_cons_zero]
      ring

end EqsigVerif.Model.SpectraFns
