import EqsigVerif.Model.Single2
import EqsigVerif.Lemmas.Single2
import Mathlib.Algebra.Order.Ring.Rat
import Mathlib.Algebra.BigOperators.Group.List.Basic
import Mathlib.Tactic.Ring
import Mathlib.Tactic.FieldSimp
import Mathlib.Tactic.Linarith
import Mathlib.Tactic.NormNum
/-!
# Lemmas for `AccSignal.correct_me` (`Model.Single2.correctMe`), for `Props/C08CorrectMe.lean`

`diffQ` is the exact-rational version of the float difference-quotient loop `NpS.diffQuot` (valid for `dt ≠ 0`); its entries, the
telescoping sum of its first `m` entries, and the transport of `fmean` / `fillTo` / `finiteE` through `List.map some`.
-/
set_option linter.unusedSectionVars false
set_option linter.unusedVariables false
set_option linter.unusedSimpArgs false
namespace EqsigVerif.Lemmas.CorrectMe
open EqsigVerif EqsigVerif.Wire EqsigVerif.NpS EqsigVerif.Lemmas.Single2

/-- `x[0] = 0`, `x[i + 1] = (y[i + 1] − y[i]) / d` over exact rationals (`d ≠ 0`) -/
def diffQ (y : List ℚ) (d : ℚ) : List ℚ :=
  match y with
  | [] => []
  | y0 :: ys => 0 :: List.zipWith (fun b a => (b - a) / d) ys (y0 :: ys)

theorem diffQuot_some (y : List ℚ) (d : ℚ) (hd : d ≠ 0) : diffQuot (y.map some) d = (diffQ y d).map some := by
  cases y with
  | nil => rfl
  | cons y0 ys =>
    simp only [diffQuot, diffQ, List.map_cons]
    rw [← List.map_cons (f := some), List.zipWith_map, List.map_zipWith]
    simp only [fsub_some, fdiv_some _ _ hd]

@[simp] theorem length_diffQ (y : List ℚ) (d : ℚ) : (diffQ y d).length = y.length := by
  cases y with
  | nil => rfl
  | cons y0 ys => simp [diffQ]

theorem diffQ_getElem (y : List ℚ) (d : ℚ) (i : ℕ) (h : i < (diffQ y d).length) :
    (diffQ y d)[i] = if i = 0 then 0 else (y.getD i 0 - y.getD (i - 1) 0) / d := by
  cases y with
  | nil => simp [diffQ] at h
  | cons y0 ys =>
    cases i with
    | zero => simp [diffQ]
    | succ j =>
      simp only [diffQ, List.length_cons, List.length_zipWith] at h
      have h1 : j < ys.length := by omega
      simp only [diffQ, List.getElem_cons_succ, List.getElem_zipWith, Nat.add_sub_cancel, Nat.succ_ne_zero, if_false]
      have e1 : (y0 :: ys).getD (j + 1) 0 = ys[j] := by simp [List.getD, h1]
      have h2 : j < (y0 :: ys).length := by simp only [List.length_cons]; omega
      have e2 : (y0 :: ys).getD j 0 = (y0 :: ys)[j] := by
        simp [List.getD, List.getElem?_eq_getElem h2]
      rw [e1, e2]

theorem diffQ_getD (y : List ℚ) (d : ℚ) (i : ℕ) (h : i < y.length) :
    (diffQ y d).getD i 0 = if i = 0 then 0 else (y.getD i 0 - y.getD (i - 1) 0) / d := by
  have h' : i < (diffQ y d).length := by simpa using h
  rw [← diffQ_getElem y d i h']
  simp [List.getD, List.getElem?_eq_getElem h']

/-- telescoping: the first `m` difference quotients sum to `(v[m−1] − v[0]) / d` -/
theorem sum_take_diffQ (v : List ℚ) (d : ℚ) (m : ℕ) (h1 : 1 ≤ m) (h2 : m ≤ v.length) :
    ((diffQ v d).take m).sum = (v.getD (m - 1) 0 - v.getD 0 0) / d := by
  induction m with
  | zero => omega
  | succ k ih =>
    have hk : k < (diffQ v d).length := by simp; omega
    rw [List.take_succ, List.getElem?_eq_getElem hk, List.sum_append, diffQ_getElem v d k hk]
    by_cases hk0 : k = 0
    · subst hk0; simp
    · rw [ih (by omega) (by omega)]
      simp only [hk0, if_false, Option.toList_some, List.sum_singleton, Nat.add_sub_cancel]
      ring

theorem foldl_fadd_some (acc : ℚ) (l : List ℚ) : (l.map some).foldl fadd (some acc) = some (acc + l.sum) := by
  induction l generalizing acc with
  | nil => simp
  | cons x xs ih => simp only [List.map_cons, List.foldl_cons, fadd_some, ih, List.sum_cons]; congr 1; ring

theorem foldl_fadd_none (l : List Fl) : l.foldl fadd none = none := by
  induction l with
  | nil => rfl
  | cons x xs ih => simpa [List.foldl_cons, fadd] using ih

theorem fmean_some (l : List ℚ) (h : l ≠ []) : fmean (l.map some) = some (l.sum / (l.length : ℚ)) := by
  have hl : (l.length : ℚ) ≠ 0 := by
    have := List.length_pos_iff.mpr h
    positivity
  simp only [fmean, foldl_fadd_some, List.length_map, zero_add, fdiv_some _ _ hl]

theorem fillTo_map_some (a : List ℚ) (k : ℕ) (v : ℚ) : fillTo (a.map some) k (some v) = (fillTo a k v).map some := by
  simp [fillTo, List.map_drop]

theorem fillTo_getElem (a : List ℚ) (k : ℕ) (v : ℚ) (i : ℕ) (h : i < (fillTo a k v).length) :
    (fillTo a k v)[i] = if i < k then v else a.getD i 0 := by
  simp only [fillTo, List.length_append, List.length_replicate, List.length_drop] at h
  have hi : i < a.length := by omega
  simp only [fillTo]
  by_cases hk : i < k
  · rw [List.getElem_append_left (by simp; omega)]
    simp [hk]
  · rw [List.getElem_append_right (by simp; omega)]
    simp only [List.length_replicate, List.getElem_drop, hk, if_false]
    have e : k + (i - min k a.length) = i := by omega
    simp [e, List.getD, List.getElem?_eq_getElem hi]

@[simp] theorem length_fillTo (a : List ℚ) (k : ℕ) (v : ℚ) : (fillTo a k v).length = a.length := by
  simp only [fillTo, List.length_append, List.length_replicate, List.length_drop]; omega

end EqsigVerif.Lemmas.CorrectMe
