import EqsigVerif.Lemmas.Im.Velo
import EqsigVerif.Lemmas.Im.Series
import EqsigVerif.Lemmas.Im.Dur
import EqsigVerif.Lemmas.Im.CavDp
import EqsigVerif.Lemmas.Im.AriasReal
/-! # Lemmas for `Model/Im.lean` (C08, C09, C10): umbrella module -/
