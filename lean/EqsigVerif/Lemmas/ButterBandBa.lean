import EqsigVerif.Lemmas.ButterPoly
import EqsigVerif.Lemmas.ButterBand
import EqsigVerif.Lemmas.ButterBa
/-!
# The `(b, a)` form of the band-pass Butterworth filter (C17): `np.poly` of the `2n` band-pass poles is real

`lp2bp_zpk` splits the prototype pole `p_j` into `h_j ± cs(h_j² − wo²)` (`h_j = p_j·bw/2`).  Conjugation maps `h_j` to `h_{n−1−j}`
and `conj (cs(h_j² − wo²))` is a square root of `h_{n−1−j}² − wo²`, hence `± cs(h_{n−1−j}² − wo²)` — for ANY function `cs` with
`cs(u)² = u`, no compatibility of `cs` with conjugation is needed: the unordered PAIR `{h + c, h − c}` does not depend on the sign
of `c`.  The bilinear map `r ↦ (4 + r)/(4 − r)` commutes with conjugation, so the `2n` digital poles are conjugation-closed as a
multiset and `Π (X − p)` has real coefficients.
-/
set_option linter.unusedSectionVars false
set_option linter.unusedVariables false
set_option linter.unusedSimpArgs false
noncomputable section
namespace EqsigVerif.Butter
open Complex Finset EqsigVerif.Cplx EqsigVerif.Model.Butter
open EqsigVerif.Model.Single (FilterType)

/-- the bilinear map of one root, as `bilinear_zpk` writes it -/
def bilin (r : ℂ) : ℂ := ((4 : ℝ) + r) / ((4 : ℝ) - r)

theorem conj_bilin (r : ℂ) : starRingEnd ℂ (bilin r) = bilin (starRingEnd ℂ r) := by
  simp [bilin, map_div₀, Complex.conj_ofNat]

theorem bilinear_p (s : Zpk ℝ ℂ) : (bilinear s).p = s.p.map bilin := by
  simp [bilinear, bilin]

theorem bilinear_z (s : Zpk ℝ ℂ) : (bilinear s).z = s.z.map bilin ++ List.replicate (s.p.length - s.z.length) (-1) := by
  simp [bilinear, bilin, relDeg]

open Polynomial in
/-- one conjugated pair: the pair `{h + c, h − c}` only depends on `c²` -/
theorem bp_pair_conj (h h' rt rt' : ℂ) (hh : starRingEnd ℂ h = h') (hr : (starRingEnd ℂ rt) ^ 2 = rt' ^ 2) :
    ((X : ℂ[X]) - C (starRingEnd ℂ (bilin (h + rt)))) * (X - C (starRingEnd ℂ (bilin (h - rt))))
      = (X - C (bilin (h' + rt'))) * (X - C (bilin (h' - rt'))) := by
  rw [conj_bilin, conj_bilin, map_add, map_sub, hh]
  rcases sq_eq_sq_iff_eq_or_eq_neg.mp hr with e | e
  · rw [e]
  · rw [e, sub_neg_eq_add, ← sub_eq_add_neg, mul_comm]

theorem conj_bpHalf (bw : ℝ) (r : ℂ) : starRingEnd ℂ (bpHalf bw r) = bpHalf bw (starRingEnd ℂ r) := by
  simp [bpHalf, map_div₀, Complex.conj_ofNat]

theorem conj_bpRt_sq (cs : ℂ → ℂ) (hcs : ∀ u, cs u * cs u = u) (W2 bw : ℝ) (r : ℂ) :
    (starRingEnd ℂ (bpRt cs W2 bw r)) ^ 2 = (bpRt cs W2 bw (starRingEnd ℂ r)) ^ 2 := by
  rw [← map_pow, sq, sq]
  unfold bpRt
  rw [hcs, hcs, map_sub, map_mul, conj_bpHalf, Complex.conj_ofReal]

open Polynomial in
/-- the `2n` digital band-pass poles: `Π (X − conj p) = Π (X − p)` -/
theorem bandpass_poles_conj (cs : ℂ → ℂ) (hcs : ∀ u, cs u * cs u = u) (n : ℕ) (wo bw : ℝ) :
    ((((bilinear (lp2bp (fnsC cs) (buttap (fnsC cs) n) wo bw)).p).map (starRingEnd ℂ)).map (fun r => (X : ℂ[X]) - C r)).prod
      = (((bilinear (lp2bp (fnsC cs) (buttap (fnsC cs) n) wo bw)).p).map (fun r => (X : ℂ[X]) - C r)).prod := by
  rw [bilinear_p, lp2bp_p]
  simp only [List.map_append, List.map_map, List.prod_append, list_range_prod, Function.comp_apply, ← Finset.prod_mul_distrib]
  rw [← Finset.prod_range_reflect]
  apply Finset.prod_congr rfl
  intro j hj
  have hj' : j < n := Finset.mem_range.mp hj
  have hj2 : n - 1 - j < n := by omega
  have hp : starRingEnd ℂ (pole n (n - 1 - j)) = pole n j := by
    rw [conj_pole n _ hj2]; congr 1; omega
  apply bp_pair_conj
  · rw [conj_bpHalf, hp]
  · rw [conj_bpRt_sq cs hcs, hp]

theorem accepts_band (wl wh : ℝ) (h0 : 0 < wl) (hlh : wl < wh) (h1 : wh < 1) : accepts .band [wl, wh] = true := by
  have : 0 < wh := by linarith
  have : wl < 1 := by linarith
  simp_all [accepts]

/-- band pass: `(b, a)` of `butter` (both of length `2n + 1`) has the transfer function of the zeros–poles–gain form — for every
complex square root `cs` -/
theorem bandpass_ba (cs : ℂ → ℂ) (hcs : ∀ u, cs u * cs u = u) (n : ℕ) (wl wh : ℝ) (h0 : 0 < wl) (hlh : wl < wh) (h1 : wh < 1)
    (ζ : ℂ) (hζ : ζ ≠ 0) :
    ∃ b a, butter (fnsC cs) n .band [wl, wh] = .ok (b, a) ∧ b.length = 2 * n + 1 ∧ a.length = 2 * n + 1 ∧
      (∀ c ∈ poly (digitalZpk (fnsC cs) n .band [wl, wh]).p, c.im = 0) ∧
      tfun b a ζ = evalZpk (digitalZpk (fnsC cs) n .band [wl, wh]) ζ := by
  have hz : (digitalZpk (fnsC cs) n .band [wl, wh]).z = List.replicate n 1 ++ List.replicate n (-1) := by
    simp only [digitalZpk, analogZpk]
    rw [bilinear_z, lp2bp_z, lp2bp_p]
    simp only [List.map_replicate, List.length_append, List.length_map, List.length_range, List.length_replicate]
    have : n + n - n = n := by omega
    rw [this]
    simp [bilin]
  have hpl : (digitalZpk (fnsC cs) n .band [wl, wh]).p.length = 2 * n := by
    simp only [digitalZpk, analogZpk]
    rw [bilinear_p, lp2bp_p]
    simp; omega
  have hpr : ∀ c ∈ poly (digitalZpk (fnsC cs) n .band [wl, wh]).p, c.im = 0 := by
    apply poly_real
    simp only [digitalZpk, analogZpk]
    exact bandpass_poles_conj cs hcs n _ _
  refine ⟨_, _, by simp [butter, accepts_band wl wh h0 hlh h1]; rfl, ?_, ?_, hpr, ?_⟩
  · simp only [zpk2tf, List.length_map, length_poly, hz, List.length_append, List.length_replicate]; omega
  · simp only [zpk2tf, List.length_map, length_poly, hpl]
  · apply tfun_zpk2tf _ _ _ hpr ζ hζ
    · rw [hz, hpl]; simp; omega
    · apply poly_real_of_real
      intro r hr
      rw [hz, List.mem_append, List.mem_replicate, List.mem_replicate] at hr
      rcases hr with ⟨_, rfl⟩ | ⟨_, rfl⟩ <;> simp

end EqsigVerif.Butter
