import EqsigVerif.Lemmas.ButterBand
/-!
# Facts about the analytic Butterworth gain `1/(1 + Ω^{2n})` (C17)
-/
set_option linter.unusedSectionVars false
set_option linter.unusedVariables false
noncomputable section
namespace EqsigVerif.Butter
open Complex Finset EqsigVerif.Cplx EqsigVerif.Model.Butter
open EqsigVerif.Model.Single (FilterType)

theorem gainSq_eq (cs : ℂ → ℂ) (n : ℕ) (ft : FilterType) (wn : List ℝ) (w : ℝ) :
    gainSq (fnsC cs) n ft wn w = 1 / (1 + gainRatio (fnsC cs) ft wn w ^ (2 * n)) := by
  simp [gainSq, powN_eq]

theorem gainRatio_low (cs : ℂ → ℂ) (wc w : ℝ) :
    gainRatio (fnsC cs) .low [wc] w = Real.tan (Real.pi * w / 2) / Real.tan (Real.pi * wc / 2) := by
  simp [gainRatio, fnsC]

theorem gainRatio_high (cs : ℂ → ℂ) (wc w : ℝ) :
    gainRatio (fnsC cs) .high [wc] w = Real.tan (Real.pi * wc / 2) / Real.tan (Real.pi * w / 2) := by
  simp [gainRatio, fnsC]

theorem gainRatio_band (cs : ℂ → ℂ) (wl wh w : ℝ) :
    gainRatio (fnsC cs) .band [wl, wh] w
      = (Real.tan (Real.pi * w / 2) ^ 2 - Real.tan (Real.pi * wl / 2) * Real.tan (Real.pi * wh / 2))
        / (Real.tan (Real.pi * w / 2) * (Real.tan (Real.pi * wh / 2) - Real.tan (Real.pi * wl / 2))) := by
  simp [gainRatio, fnsC, sq]

theorem even_pow_nonneg (x : ℝ) (n : ℕ) : 0 ≤ x ^ (2 * n) := by
  rw [pow_mul]; exact pow_nonneg (sq_nonneg x) n

/-- the gain lies in `(0, 1]`, for every filter type, order, cut-off and frequency -/
theorem gainSq_mem (cs : ℂ → ℂ) (n : ℕ) (ft : FilterType) (wn : List ℝ) (w : ℝ) :
    0 < gainSq (fnsC cs) n ft wn w ∧ gainSq (fnsC cs) n ft wn w ≤ 1 := by
  rw [gainSq_eq]
  have h := even_pow_nonneg (gainRatio (fnsC cs) ft wn w) n
  constructor
  · positivity
  · rw [div_le_one (by positivity)]; linarith

theorem gain_of_ratio_sq_one (x : ℝ) (n : ℕ) (hx : x ^ 2 = 1) : 1 / (1 + x ^ (2 * n)) = 1 / 2 := by
  rw [pow_mul, hx, one_pow]; norm_num

/-- the gain of the low pass strictly decreases with the frequency on `[0, 1)` -/
theorem gainSq_low_strictAnti (cs : ℂ → ℂ) (n : ℕ) (hn : 0 < n) (wc : ℝ) (hwc : 0 < wc) (hwc1 : wc < 1) :
    StrictAntiOn (fun w => gainSq (fnsC cs) n .low [wc] w) (Set.Ico 0 1) := by
  intro w1 h1 w2 h2 h12
  simp only [gainSq_eq, gainRatio_low]
  have hpi := Real.pi_pos
  have htc := tan_half_pos wc hwc hwc1
  have ht1 : 0 ≤ Real.tan (Real.pi * w1 / 2) :=
    Real.tan_nonneg_of_nonneg_of_le_pi_div_two (by have := h1.1; positivity) (by nlinarith [h1.2])
  have ht12 : Real.tan (Real.pi * w1 / 2) < Real.tan (Real.pi * w2 / 2) :=
    Real.tan_lt_tan_of_nonneg_of_lt_pi_div_two (by have := h1.1; positivity) (by nlinarith [h2.2]) (by nlinarith)
  have hr : Real.tan (Real.pi * w1 / 2) / Real.tan (Real.pi * wc / 2)
      < Real.tan (Real.pi * w2 / 2) / Real.tan (Real.pi * wc / 2) := div_lt_div_of_pos_right ht12 htc
  have hp := pow_lt_pow_left₀ hr (div_nonneg ht1 htc.le) (by omega : 2 * n ≠ 0)
  have h0 := even_pow_nonneg (Real.tan (Real.pi * w1 / 2) / Real.tan (Real.pi * wc / 2)) n
  apply one_div_lt_one_div_of_lt <;> linarith

/-- the gain of the high pass strictly increases with the frequency on `(0, 1)` -/
theorem gainSq_high_strictMono (cs : ℂ → ℂ) (n : ℕ) (hn : 0 < n) (wc : ℝ) (hwc : 0 < wc) (hwc1 : wc < 1) :
    StrictMonoOn (fun w => gainSq (fnsC cs) n .high [wc] w) (Set.Ioo 0 1) := by
  intro w1 h1 w2 h2 h12
  simp only [gainSq_eq, gainRatio_high]
  have hpi := Real.pi_pos
  have htc := tan_half_pos wc hwc hwc1
  have ht1 := tan_half_pos w1 h1.1 h1.2
  have ht2 := tan_half_pos w2 h2.1 h2.2
  have ht12 : Real.tan (Real.pi * w1 / 2) < Real.tan (Real.pi * w2 / 2) :=
    Real.tan_lt_tan_of_nonneg_of_lt_pi_div_two (by have := h1.1; positivity) (by nlinarith [h2.2]) (by nlinarith)
  have hr : Real.tan (Real.pi * wc / 2) / Real.tan (Real.pi * w2 / 2)
      < Real.tan (Real.pi * wc / 2) / Real.tan (Real.pi * w1 / 2) := div_lt_div_of_pos_left htc ht1 ht12
  have hp := pow_lt_pow_left₀ hr (div_nonneg htc.le ht2.le) (by omega : 2 * n ≠ 0)
  have h0 := even_pow_nonneg (Real.tan (Real.pi * wc / 2) / Real.tan (Real.pi * w2 / 2)) n
  apply one_div_lt_one_div_of_lt <;> linarith

end EqsigVerif.Butter
