import EqsigVerif.Model.Single
import EqsigVerif.Lemmas.Np
import Mathlib.Algebra.BigOperators.Intervals
import Mathlib.Algebra.BigOperators.Group.List.Basic
import Mathlib.Algebra.Order.Field.Basic
import Mathlib.Algebra.Order.Ring.Rat
import Mathlib.Data.Rat.Cast.Order
import Mathlib.Tactic.Ring
import Mathlib.Tactic.Linarith
import Mathlib.Tactic.FieldSimp
import Mathlib.Tactic.NormNum
/-!
# Lemmas for `Model/Single.lean` (C17)
-/
set_option linter.unusedSectionVars false
set_option linter.unusedVariables false
set_option linter.unusedSimpArgs false
namespace EqsigVerif.Model.Single
open EqsigVerif

/-! ### sums -/

theorem npSum_eq_sum {α : Type} [AddCommMonoid α] (l : List α) : Np.sum l = l.sum := by
  unfold Np.sum
  rw [List.sum_eq_foldl]

theorem list_sum_eq_range (l : List ℚ) : l.sum = ∑ j ∈ Finset.range l.length, l.getD j 0 := by
  induction l with
  | nil => simp
  | cons x xs ih =>
    rw [List.length_cons, Finset.sum_range_succ', List.sum_cons, ih]
    simp [add_comm]

theorem getD_drop_take (l : List ℚ) (a b j : ℕ) (hb : b ≤ l.length) (hj : j < b - a) :
    ((l.take b).drop a).getD j 0 = l.getD (a + j) 0 := by
  have h1 : a + j < b := by omega
  simp only [List.getD_eq_getElem?_getD, List.getElem?_drop, List.getElem?_take]
  simp [h1]

theorem sum_slice_eq_Ico (l : List ℚ) (a b : ℕ) (hb : b ≤ l.length) :
    ((l.take b).drop a).sum = ∑ j ∈ Finset.Ico a b, l.getD j 0 := by
  rw [list_sum_eq_range, Finset.sum_Ico_eq_sum_range]
  have hlen : ((l.take b).drop a).length = b - a := by simp; omega
  rw [hlen]
  apply Finset.sum_congr rfl
  intro j hj
  exact getD_drop_take l a b j hb (Finset.mem_range.mp hj)

/-! ### Python slices with the bounds that occur -/

theorem normIdx_nat (n b : ℕ) : normIdx n (b : ℤ) = min b n := by
  unfold normIdx
  have : ¬ ((b : ℤ) < 0) := by omega
  simp [this]

theorem normIdx_sub (n i h : ℕ) (hh : h ≤ i) : normIdx n ((i : ℤ) - (h : ℤ)) = min (i - h) n := by
  have : (i : ℤ) - (h : ℤ) = ((i - h : ℕ) : ℤ) := by omega
  rw [this, normIdx_nat]

/-! ### `running_average` -/

theorem lt_half_iff (i w : ℕ) : (i : ℚ) < (w : ℚ) / 2 ↔ 2 * i < w := by
  rw [lt_div_iff₀ (by norm_num : (0 : ℚ) < 2)]
  constructor
  · intro h; have : ((i * 2 : ℕ) : ℚ) < (w : ℚ) := by push_cast; exact h
    have := Nat.cast_lt.mp this; omega
  · intro h; have : ((i * 2 : ℕ) : ℚ) < (w : ℚ) := Nat.cast_lt.mpr (by omega)
    push_cast at this; exact this

theorem gt_len_sub_half_iff (i n w : ℕ) : (i : ℚ) > (n : ℚ) - (w : ℚ) / 2 ↔ 2 * n < 2 * i + w := by
  rw [gt_iff_lt, sub_lt_iff_lt_add, ← sub_lt_iff_lt_add', lt_div_iff₀ (by norm_num : (0 : ℚ) < 2)]
  constructor
  · intro h
    have : ((2 * n : ℕ) : ℚ) < ((2 * i + w : ℕ) : ℚ) := by push_cast; linarith
    exact Nat.cast_lt.mp this
  · intro h
    have : ((2 * n : ℕ) : ℚ) < ((2 * i + w : ℕ) : ℚ) := Nat.cast_lt.mpr h
    push_cast at this; linarith

/-- every branch of `running_average` averages the clipped window `mot[i-h : min(i+h+1, n)]` -/
theorem runningAverageAt_eq_slice (mot : List ℚ) (w i : ℕ) (hi : i < mot.length) :
    runningAverageAt mot w i
      = mean ((mot.take (min (i + w / 2 + 1) mot.length)).drop (i - w / 2)) := by
  unfold runningAverageAt
  simp only [lt_half_iff, gt_len_sub_half_iff]
  by_cases h1 : 2 * i < w
  · simp only [h1, if_true, pyTo, normIdx_nat]
    have : i - w / 2 = 0 := by omega
    rw [this, List.drop_zero]
  · simp only [h1, if_false]
    have hh : w / 2 ≤ i := by omega
    by_cases h2 : 2 * mot.length < 2 * i + w
    · simp only [h2, if_true, pyFrom, normIdx_sub _ _ _ hh]
      have e1 : min (i - w / 2) mot.length = i - w / 2 := by omega
      have e2 : min (i + w / 2 + 1) mot.length = mot.length := by omega
      rw [e1, e2, List.take_length]
    · simp only [h2, if_false, pySlice, normIdx_sub _ _ _ hh, normIdx_nat]
      have e1 : min (i - w / 2) mot.length = i - w / 2 := by omega
      rw [e1]

/-- the averaged slice is never empty (so `np.mean` never sees an empty slice) -/
theorem runningAverage_window_ne_nil (mot : List ℚ) (w i : ℕ) (hi : i < mot.length) :
    ((mot.take (min (i + w / 2 + 1) mot.length)).drop (i - w / 2)).length
      = min (i + w / 2 + 1) mot.length - (i - w / 2)
    ∧ 0 < min (i + w / 2 + 1) mot.length - (i - w / 2) := by
  constructor
  · simp
  · omega

@[simp] theorem length_runningAverage (v : List ℚ) (w : ℕ) : (runningAverage v w).length = v.length := by
  simp [runningAverage]

theorem runningAverage_getElem (v : List ℚ) (w i : ℕ) (hi : i < v.length) :
    (runningAverage v w)[i]'(by simpa using hi) = runningAverageAt v w i := by
  simp [runningAverage]

/-- spec vocabulary of C17.f: positions `j` of a length-`n` record with `|j − i| ≤ h` -/
def window (n i h : ℕ) : Finset ℕ := (Finset.range n).filter (fun j => |(j : ℤ) - (i : ℤ)| ≤ (h : ℤ))

theorem window_eq_Ico (n i h : ℕ) : window n i h = Finset.Ico (i - h) (min (i + h + 1) n) := by
  ext j
  simp only [window, Finset.mem_filter, Finset.mem_range, Finset.mem_Ico, abs_le]
  omega

theorem self_mem_window (n i h : ℕ) (hi : i < n) : i ∈ window n i h := by
  simp [window, hi]

theorem card_window (n i h : ℕ) : (window n i h).card = min (i + h + 1) n - (i - h) := by
  rw [window_eq_Ico, Nat.card_Ico]

/-- C17.f core: each output sample is the mean over the window -/
theorem runningAverageAt_eq_window (v : List ℚ) (w i : ℕ) (hi : i < v.length) :
    runningAverageAt v w i
      = (∑ j ∈ window v.length i (w / 2), v.getD j 0) / ((window v.length i (w / 2)).card : ℚ) := by
  rw [runningAverageAt_eq_slice v w i hi, mean, npSum_eq_sum,
    sum_slice_eq_Ico v _ _ (Nat.min_le_right _ _), card_window, window_eq_Ico]
  congr 2
  simp

/-! ### `butter_pass` bookkeeping -/

theorem le_two_pow_ceilLog2 (n : ℕ) : n ≤ 2 ^ ceilLog2 n := by
  unfold ceilLog2
  split
  · simpa using ‹n ≤ 1›
  · have := Nat.lt_log2_self (n := n - 1)
    omega

/-- `ceilLog2 n` is the *least* exponent: `int(ceil(log2 n))` -/
theorem ceilLog2_le_iff (n k : ℕ) (hn : 1 ≤ n) : ceilLog2 n ≤ k ↔ n ≤ 2 ^ k := by
  unfold ceilLog2
  split
  · have : n = 1 := by omega
    subst this
    simp [Nat.one_le_two_pow]
  · have h0 : n - 1 ≠ 0 := by omega
    have := Nat.log2_lt (n := n - 1) (k := k) h0
    constructor
    · intro h; have := this.mp (by omega); omega
    · intro h; have := this.mpr (by omega); omega

theorem bookkeeping_bounds (n : ℕ) (mode : GibbsMode) (ge : ℕ) :
    (butterBookkeeping n mode ge).2.2 = (butterBookkeeping n mode ge).2.1 + n ∧
    (butterBookkeeping n mode ge).2.2 ≤ (butterBookkeeping n mode ge).1 := by
  have h1 : n ≤ 2 ^ (ceilLog2 n + ge) := by
    calc n ≤ 2 ^ ceilLog2 n := le_two_pow_ceilLog2 n
      _ ≤ 2 ^ (ceilLog2 n + ge) := Nat.pow_le_pow_right (by norm_num) (by omega)
  have h1' : n ≤ (butterBookkeeping n .start ge).1 := h1
  simp only [butterBookkeeping] at h1'
  clear h1
  cases mode <;> simp only [butterBookkeeping] <;> constructor <;> first | trivial | omega

theorem butterPass_eq (F : List ℚ → List ℚ) (v : List ℚ) (mode : GibbsMode) (ge gr : ℕ) :
    butterPass F v mode ge gr = Np.slice (F (butterPad v mode ge gr))
      (butterBookkeeping v.length mode ge).2.1 (butterBookkeeping v.length mode ge).2.2 := rfl

theorem length_butterPad (v : List ℚ) (mode : GibbsMode) (ge gr : ℕ) :
    (butterPad v mode ge gr).length = (butterBookkeeping v.length mode ge).1 := by
  cases mode <;> simp [butterPad, butterBookkeeping]

/-- explicit form of the padded array: `s_len` start values, the record, then end values -/
theorem butterPad_eq_append (v : List ℚ) (mode : GibbsMode) (ge gr : ℕ) (hm : mode ≠ .none) :
    butterPad v mode ge gr =
      List.replicate (butterBookkeeping v.length mode ge).2.1 (mean (pyTo v (gr : ℤ))) ++ v ++
      List.replicate ((butterBookkeeping v.length mode ge).1 - (butterBookkeeping v.length mode ge).2.2)
        (mean (pyFrom v (-(gr : ℤ)))) := by
  obtain ⟨hf, hle⟩ := bookkeeping_bounds v.length mode ge
  have hlen := length_butterPad v mode ge gr
  generalize hN : (butterBookkeeping v.length mode ge).1 = N at *
  generalize hS : (butterBookkeeping v.length mode ge).2.1 = S at *
  generalize hF : (butterBookkeeping v.length mode ge).2.2 = F' at *
  have hpad : butterPad v mode ge gr = (List.range N).map fun i =>
      if S ≤ i ∧ i < F' then v.getD (i - S) 0
      else if F' ≤ i then mean (pyFrom v (-(gr : ℤ))) else mean (pyTo v (gr : ℤ)) := by
    cases mode
    · exact absurd rfl hm
    all_goals (simp only [butterPad]; rw [← hN, ← hS, ← hF])
  apply List.ext_getElem?
  intro i
  rw [hpad]
  simp only [List.getElem?_map, List.getElem?_append, List.getElem?_replicate,
    List.length_append, List.length_replicate]
  by_cases c1 : i < S
  · have a1 : ¬ (S ≤ i ∧ i < F') := by omega
    have a2 : ¬ F' ≤ i := by omega
    have a3 : i < N := by omega
    have a4 : i < S + v.length := by omega
    simp [c1, a1, a2, a3, a4]
  · by_cases c2 : i < F'
    · have a1 : S ≤ i ∧ i < F' := by omega
      have a3 : i < N := by omega
      have a4 : i < S + v.length := by omega
      have a5 : i - S < v.length := by omega
      simp [c1, a1, a3, a4, a5]
    · have a1 : ¬ (S ≤ i ∧ i < F') := by omega
      have a2 : F' ≤ i := by omega
      have a4 : ¬ i < S + v.length := by omega
      by_cases a3 : i < N
      · have a5 : i - (S + v.length) < N - F' := by omega
        simp [a1, a2, a3, a4, a5]
      · have a5 : ¬ i - (S + v.length) < N - F' := by omega
        simp [a3, a4, a5]

/-! ### linearity of the padding (C17.b) -/

theorem sum_addL (a b : List ℚ) (h : a.length = b.length) : (Np.addL a b).sum = a.sum + b.sum := by
  unfold Np.addL
  induction a generalizing b with
  | nil => cases b <;> simp_all
  | cons x xs ih =>
    cases b with
    | nil => simp at h
    | cons y ys =>
      simp only [List.zipWith_cons_cons, List.sum_cons, ih ys (by simpa using h)]; ring

theorem sum_scale (c : ℚ) (a : List ℚ) : (Np.scale c a).sum = c * a.sum := by
  unfold Np.scale
  induction a with
  | nil => simp
  | cons x xs ih => simp only [List.map_cons, List.sum_cons, ih]; ring

theorem mean_addL (a b : List ℚ) (h : a.length = b.length) : mean (Np.addL a b) = mean a + mean b := by
  unfold mean
  rw [npSum_eq_sum, npSum_eq_sum, npSum_eq_sum, sum_addL a b h]
  have : (Np.addL a b).length = a.length := by simp [Np.addL, h]
  rw [this, ← h, add_div]

theorem mean_scale (c : ℚ) (a : List ℚ) : mean (Np.scale c a) = c * mean a := by
  unfold mean
  rw [npSum_eq_sum, npSum_eq_sum, sum_scale]
  have : (Np.scale c a).length = a.length := by simp [Np.scale]
  rw [this, mul_div_assoc]

theorem length_addL (a b : List ℚ) (h : a.length = b.length) : (Np.addL a b).length = a.length := by
  simp [Np.addL, h]

@[simp] theorem length_scale (c : ℚ) (a : List ℚ) : (Np.scale c a).length = a.length := by
  simp [Np.scale]

theorem pyTo_addL (a b : List ℚ) (h : a.length = b.length) (g : ℤ) :
    pyTo (Np.addL a b) g = Np.addL (pyTo a g) (pyTo b g) := by
  unfold pyTo
  rw [length_addL a b h, ← h]
  simp only [Np.addL, List.take_zipWith]

theorem pyFrom_addL (a b : List ℚ) (h : a.length = b.length) (g : ℤ) :
    pyFrom (Np.addL a b) g = Np.addL (pyFrom a g) (pyFrom b g) := by
  unfold pyFrom
  rw [length_addL a b h, ← h]
  simp only [Np.addL, List.drop_zipWith]

theorem pyTo_scale (c : ℚ) (a : List ℚ) (g : ℤ) : pyTo (Np.scale c a) g = Np.scale c (pyTo a g) := by
  unfold pyTo
  rw [length_scale]
  simp only [Np.scale, List.map_take]

theorem pyFrom_scale (c : ℚ) (a : List ℚ) (g : ℤ) : pyFrom (Np.scale c a) g = Np.scale c (pyFrom a g) := by
  unfold pyFrom
  rw [length_scale]
  simp only [Np.scale, List.map_drop]

theorem length_pyTo_eq (a b : List ℚ) (h : a.length = b.length) (g : ℤ) :
    (pyTo a g).length = (pyTo b g).length := by simp [pyTo, h]

theorem length_pyFrom_eq (a b : List ℚ) (h : a.length = b.length) (g : ℤ) :
    (pyFrom a g).length = (pyFrom b g).length := by simp [pyFrom, h]

/-- the padded array is additive in the record -/
theorem butterPad_addL (v w : List ℚ) (mode : GibbsMode) (ge gr : ℕ) (h : v.length = w.length) :
    butterPad (Np.addL v w) mode ge gr = Np.addL (butterPad v mode ge gr) (butterPad w mode ge gr) := by
  by_cases hm : mode = .none
  · subst hm; simp [butterPad]
  · rw [butterPad_eq_append _ _ _ _ hm, butterPad_eq_append v _ _ _ hm, butterPad_eq_append w _ _ _ hm]
    rw [length_addL v w h, ← h]
    rw [pyTo_addL v w h, pyFrom_addL v w h, mean_addL _ _ (length_pyTo_eq v w h _),
      mean_addL _ _ (length_pyFrom_eq v w h _)]
    unfold Np.addL
    rw [List.zipWith_append (by simp [h]), List.zipWith_append (by simp)]
    simp [List.zipWith_replicate]

/-- the padded array is homogeneous in the record -/
theorem butterPad_scale (c : ℚ) (v : List ℚ) (mode : GibbsMode) (ge gr : ℕ) :
    butterPad (Np.scale c v) mode ge gr = Np.scale c (butterPad v mode ge gr) := by
  by_cases hm : mode = .none
  · subst hm; simp [butterPad]
  · rw [butterPad_eq_append _ _ _ _ hm, butterPad_eq_append v _ _ _ hm]
    rw [length_scale, pyTo_scale, pyFrom_scale, mean_scale, mean_scale]
    simp [Np.scale, List.map_append, List.map_replicate]

theorem slice_addL (a b : List ℚ) (s f : ℕ) :
    Np.slice (Np.addL a b) s f = Np.addL (Np.slice a s f) (Np.slice b s f) := by
  simp [Np.slice, Np.addL, List.take_zipWith, List.drop_zipWith]

theorem slice_scale (c : ℚ) (a : List ℚ) (s f : ℕ) :
    Np.slice (Np.scale c a) s f = Np.scale c (Np.slice a s f) := by
  simp [Np.slice, Np.scale, List.map_take, List.map_drop]

end EqsigVerif.Model.Single
