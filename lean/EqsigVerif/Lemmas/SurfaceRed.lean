import EqsigVerif.Lemmas.Surface
/-!
# Reduction shapes of `calc_surface_energy` (`up_red`, `down_red` given as NumPy arrays of any length)

NumPy semantics of stage 5/6 for array reductions (`m = len(travel_times)`, `lu = len(up_red)`, `ld = len(down_red)`):
* `up_wave[np.newaxis, :] * up_red[:, np.newaxis]` has `lu` rows (always legal);
* `down_waves *= down_red[:, np.newaxis]` is IN PLACE on an `(m, w)` array: legal iff `ld = m` or `ld = 1`;
* `∓down_waves + up_wave` broadcasts `(m, w)` with `(lu, w)`: legal iff `lu = m`, `lu = 1` or `m = 1`
  (for `m = 1 < lu` the result has `lu` rows, of which every later stage reads row 0 only; for `lu = 0`, `m = 1` it has
  no row and that read raises `IndexError`).
-/
namespace EqsigVerif.Model.Surface
open EqsigVerif.Wire (ErrKind)
open EqsigVerif.Np EqsigVerif.Interp
open EqsigVerif.Model.TimeShift

/-- the array shapes NumPy rejects ("operands could not be broadcast together" / "non-broadcastable output operand") -/
def RedMismatch : Red → ℕ → Prop
  | .scalar _ _, _ => False
  | .rows us ds, m => (ds.length ≠ m ∧ ds.length ≠ 1) ∨ (us.length ≠ m ∧ us.length ≠ 1 ∧ m ≠ 1)

/-- an empty `up_red` array -/
def RedEmptyUp : Red → Prop
  | .scalar _ _ => False
  | .rows us _ => us = []

/-- the shapes for which the reduction stage succeeds: Python scalars, or arrays with
`ld ∈ {m, 1}`, `lu ∈ {m, 1}` or (`m = 1` and `lu ≥ 1`) -/
def RedLegal (red : Red) (m : ℕ) : Prop := ¬ RedMismatch red m ∧ ¬ RedEmptyUp red

instance (red : Red) (m : ℕ) : Decidable (RedMismatch red m) := by
  cases red <;> unfold RedMismatch <;> infer_instance
instance (red : Red) : Decidable (RedEmptyUp red) := by
  cases red <;> unfold RedEmptyUp <;> infer_instance
instance (red : Red) (m : ℕ) : Decidable (RedLegal red m) := by unfold RedLegal; infer_instance

/-- the factor NumPy broadcasting gives row `i` (of `m`) for the upward wave -/
def bcastUp (us : List ℚ) (m i : ℕ) : ℚ := if us.length = m then us.getD i 0 else us.getD 0 0
/-- … and for the downward wave -/
def bcastDown (ds : List ℚ) (i : ℕ) : ℚ := if ds.length = 1 then ds.getD 0 0 else ds.getD i 0

/-- the reductions written out with one entry per travel time (what broadcasting means) -/
def bcastRed : Red → ℕ → Red
  | .scalar u d, _ => .scalar u d
  | .rows us ds, m => .rows ((List.range m).map (bcastUp us m)) ((List.range m).map (bcastDown ds))

theorem bcastRed_ok (red : Red) (m : ℕ) : RedOK (bcastRed red m) m := by
  cases red with
  | scalar u d => trivial
  | rows us ds => exact ⟨by simp, by simp⟩

theorem redOK_legal (red : Red) (m : ℕ) (hm : m ≠ 0) (h : RedOK red m) : RedLegal red m := by
  cases red with
  | scalar u d => exact ⟨id, id⟩
  | rows us ds =>
    obtain ⟨hu, hd⟩ := h
    refine ⟨?_, ?_⟩
    · rintro (⟨h1, -⟩ | ⟨h1, -⟩)
      · exact h1 hd
      · exact h1 hu
    · intro he
      have he' : us = [] := he
      rw [he'] at hu; exact hm hu.symm

/-- the rows the reduction stage builds -/
theorem accSeries_rows (values : List ℚ) (dt : ℚ) (tts : List ℚ) (nodal : Bool) (us ds : List ℚ) (ms : ℕ)
    (hdt : dt ≠ 0) (hv : values ≠ []) (hms : maxShift tts dt = .ok ms) :
    accSeries values dt tts nodal (.rows us ds) =
      if RedMismatch (.rows us ds) tts.length then .error .ValueError
      else if us = [] then .error .IndexError
      else .ok ((List.range tts.length).map (fun i =>
        accRow values ms (2 * tts.getD i 0 / dt) nodal (bcastUp us tts.length i) (bcastDown ds i))) := by
  have hn : values.length ≠ 0 := by simpa using hv
  unfold accSeries
  simp only [hdt, if_false, hms, bind, Except.bind, hn, false_and, pure, Except.pure]
  by_cases h1 : ds.length ≠ tts.length ∧ ds.length ≠ 1
  · have : RedMismatch (.rows us ds) tts.length := Or.inl h1
    rw [if_pos h1, if_pos this]
  · by_cases h2 : us.length ≠ tts.length ∧ us.length ≠ 1 ∧ tts.length ≠ 1
    · have : RedMismatch (.rows us ds) tts.length := Or.inr h2
      rw [if_neg h1, if_pos h2, if_pos this]
    · have : ¬ RedMismatch (.rows us ds) tts.length := by
        rintro (h | h)
        · exact h1 h
        · exact h2 h
      rw [if_neg h1, if_neg h2, if_neg this]
      by_cases h3 : us = []
      · have h3' : us.length = 0 := by rw [h3]; rfl
        rw [if_pos h3', if_pos h3]
      · have h3' : ¬ us.length = 0 := fun h => h3 (List.length_eq_zero_iff.mp h)
        rw [if_neg h3', if_neg h3]
        congr 1
        apply List.map_congr_left
        intro i hi
        have hi' : i < tts.length := by simpa using hi
        have hdown : (tts.map (fun t => delayed values (2 * t / dt) (values.length + ms))).getD i []
            = delayed values (2 * tts.getD i 0 / dt) (values.length + ms) := by
          simp only [List.getD_eq_getElem?_getD, List.getElem?_map, List.getElem?_eq_getElem hi', Option.map_some,
            Option.getD_some]
        rw [hdown]
        simp only [accRow, padRight, bcastUp, bcastDown]
        congr 1
        funext x y
        ring

/-- broadcasting: legal array reductions give the rows of the written-out per-row reductions -/
theorem accSeries_bcast (values : List ℚ) (dt : ℚ) (tts : List ℚ) (nodal : Bool) (red : Red)
    (hleg : RedLegal red tts.length) :
    accSeries values dt tts nodal red = accSeries values dt tts nodal (bcastRed red tts.length) := by
  cases red with
  | scalar u d => rfl
  | rows us ds =>
    by_cases hdt : dt = 0
    · unfold accSeries; simp only [hdt, if_true]
    · cases hms : maxShift tts dt with
      | error e => unfold accSeries; simp only [hdt, if_false, hms, bind, Except.bind]
      | ok ms =>
        by_cases hv : values = []
        · subst hv
          unfold accSeries
          simp only [hdt, if_false, hms, bind, Except.bind, List.length_nil, Nat.zero_add, true_and, pure,
            Except.pure]
          by_cases h0 : ms > 0
          · simp only [h0, if_true]
          · -- outside the guard: an empty record with `max_shift = 0`; both sides go through the same stages
            have hm : tts.length ≠ 0 := by
              have := tts_ne_nil_of_maxShift tts dt ms hms
              simpa using this
            obtain ⟨hmis, hemp⟩ := hleg
            have hmis' : ¬ ((ds.length ≠ tts.length ∧ ds.length ≠ 1)) := fun h => hmis (Or.inl h)
            have hmis'' : ¬ (us.length ≠ tts.length ∧ us.length ≠ 1 ∧ tts.length ≠ 1) := fun h => hmis (Or.inr h)
            have hus : us.length ≠ 0 := by
              intro h; exact hemp (List.length_eq_zero_iff.mp h)
            simp only [h0, if_false, bcastRed, List.length_map, List.length_range, hmis', hmis'', hus, hm,
              ne_eq, not_true_eq_false, false_and]
            congr 1
            apply List.map_congr_left
            intro i hi
            have hi' : i < tts.length := by simpa using hi
            have e1 : (if tts.length = 1 then ((List.range tts.length).map (bcastDown ds)).getD 0 0
                else ((List.range tts.length).map (bcastDown ds)).getD i 0) = bcastDown ds i := by
              split
              · have : i = 0 := by omega
                subst this
                simp [List.getD_eq_getElem?_getD, hi']
              · simp [List.getD_eq_getElem?_getD, hi']
            have e2 : ((List.range tts.length).map (bcastUp us tts.length)).getD i 0 = bcastUp us tts.length i := by
              simp [List.getD_eq_getElem?_getD, hi']
            simp only [if_true, e1, e2]
            rfl
        · rw [accSeries_rows values dt tts nodal us ds ms hdt hv hms,
            accSeries_general values dt tts nodal _ ms hdt hv hms (bcastRed_ok _ _)]
          obtain ⟨hmis, hemp⟩ := hleg
          have hemp' : ¬ us = [] := hemp
          simp only [hmis, hemp', if_false]
          congr 1
          unfold specAccRows
          apply List.map_congr_left
          intro i hi
          have hi' : i < tts.length := by simpa using hi
          simp [bcastRed, upOf, downOf, List.getD_eq_getElem?_getD, hi']

/-- the three public functions see the reductions only through `accSeries` -/
theorem fns_of_accSeries_eq (values : List ℚ) (dt : ℚ) (tts : List ℚ) (nodal : Bool) (red red' : Red)
    (stt : ℚ) (trim start : Bool)
    (h : accSeries values dt tts nodal red = accSeries values dt tts nodal red') :
    calcSurfaceEnergy values dt tts nodal red stt trim start
      = calcSurfaceEnergy values dt tts nodal red' stt trim start ∧
    calcCumAbsSurfaceEnergy values dt tts nodal red stt trim start
      = calcCumAbsSurfaceEnergy values dt tts nodal red' stt trim start ∧
    getTimeShiftMotions values dt tts nodal red stt trim start
      = getTimeShiftMotions values dt tts nodal red' stt trim start := by
  have h1 : calcSurfaceEnergy values dt tts nodal red stt trim start
      = calcSurfaceEnergy values dt tts nodal red' stt trim start := by
    unfold calcSurfaceEnergy; rw [h]
  refine ⟨h1, ?_, ?_⟩
  · unfold calcCumAbsSurfaceEnergy; rw [h1]
  · unfold getTimeShiftMotions; rw [h]

/-- an error of the reduction stage is the error of the three public functions -/
theorem fns_of_accSeries_error (values : List ℚ) (dt : ℚ) (tts : List ℚ) (nodal : Bool) (red : Red)
    (stt : ℚ) (trim start : Bool) (e : ErrKind)
    (h : accSeries values dt tts nodal red = .error e) :
    calcSurfaceEnergy values dt tts nodal red stt trim start = .error e ∧
    calcCumAbsSurfaceEnergy values dt tts nodal red stt trim start = .error e ∧
    getTimeShiftMotions values dt tts nodal red stt trim start = .error e := by
  have h1 : calcSurfaceEnergy values dt tts nodal red stt trim start = .error e := by
    unfold calcSurfaceEnergy; rw [h]; rfl
  refine ⟨h1, ?_, ?_⟩
  · unfold calcCumAbsSurfaceEnergy; rw [h1]; rfl
  · unfold getTimeShiftMotions; rw [h]; rfl

/-- outcome of the reduction stage under the guard (code reaches stage 5) -/
theorem accSeries_outcome (values : List ℚ) (dt : ℚ) (tts : List ℚ) (nodal : Bool) (red : Red) (ms : ℕ)
    (hdt : dt ≠ 0) (hv : values ≠ []) (hms : maxShift tts dt = .ok ms) :
    (RedMismatch red tts.length → accSeries values dt tts nodal red = .error .ValueError) ∧
    (¬ RedMismatch red tts.length → RedEmptyUp red → accSeries values dt tts nodal red = .error .IndexError) ∧
    (RedLegal red tts.length → accSeries values dt tts nodal red
        = .ok (specAccRows values dt tts nodal (bcastRed red tts.length) ms)) := by
  refine ⟨?_, ?_, ?_⟩
  · intro h
    cases red with
    | scalar u d => exact absurd h id
    | rows us ds => rw [accSeries_rows values dt tts nodal us ds ms hdt hv hms, if_pos h]
  · intro h he
    cases red with
    | scalar u d => exact absurd he id
    | rows us ds =>
      have he' : us = [] := he
      rw [accSeries_rows values dt tts nodal us ds ms hdt hv hms, if_neg h, if_pos he']
  · intro h
    rw [accSeries_bcast values dt tts nodal red h,
      accSeries_general values dt tts nodal _ ms hdt hv hms (bcastRed_ok _ _)]

/-- rows with the same per-row factors are the same rows -/
theorem specAccRows_congr (values : List ℚ) (dt : ℚ) (tts : List ℚ) (nodal : Bool) (red red' : Red) (ms : ℕ)
    (h : ∀ i, i < tts.length → upOf red i = upOf red' i ∧ downOf red i = downOf red' i) :
    specAccRows values dt tts nodal red ms = specAccRows values dt tts nodal red' ms := by
  unfold specAccRows
  apply List.map_congr_left
  intro i hi
  have hi' : i < tts.length := by simpa using hi
  rw [(h i hi').1, (h i hi').2]

theorem upOf_bcastRed_rows (us ds : List ℚ) (m i : ℕ) (hi : i < m) :
    upOf (bcastRed (.rows us ds) m) i = bcastUp us m i ∧ downOf (bcastRed (.rows us ds) m) i = bcastDown ds i := by
  simp [bcastRed, upOf, downOf, List.getD_eq_getElem?_getD, hi]

end EqsigVerif.Model.Surface
