import EqsigVerif.Lemmas.ButterTypes
/-!
# The band-pass Butterworth filter of `Model/Butter.lean` (C17)
-/
set_option linter.unusedSectionVars false
set_option linter.unusedVariables false
noncomputable section
namespace EqsigVerif.Butter
open Complex Finset EqsigVerif.Cplx EqsigVerif.Model.Butter
open EqsigVerif.Model.Single (FilterType)

/-- scaled pole `p·bw/2` of `lp2bp_zpk` -/
def bpHalf (bw : ℝ) (r : ℂ) : ℂ := r * (bw : ℂ) / 2
/-- `√((p·bw/2)² − wo²)` of `lp2bp_zpk` (`W2 = wo²`) -/
def bpRt (cs : ℂ → ℂ) (W2 bw : ℝ) (r : ℂ) : ℂ := cs (bpHalf bw r * bpHalf bw r - (W2 : ℂ))

/-- the pair of band-pass poles of one prototype pole: `(x − r₊)(x − r₋) = x² − p·bw·x + wo²` -/
theorem bp_pair (cs : ℂ → ℂ) (hcs : ∀ w, cs w * cs w = w) (W2 bw : ℝ) (r x : ℂ) :
    (x - (bpHalf bw r + bpRt cs W2 bw r)) * (x - (bpHalf bw r - bpRt cs W2 bw r))
      = x ^ 2 + (W2 : ℂ) - x * (bw : ℂ) * r := by
  have h := hcs (bpHalf bw r * bpHalf bw r - (W2 : ℂ))
  have : (x - (bpHalf bw r + bpRt cs W2 bw r)) * (x - (bpHalf bw r - bpRt cs W2 bw r))
      = (x - bpHalf bw r) ^ 2 - bpRt cs W2 bw r * bpRt cs W2 bw r := by ring
  rw [this]
  unfold bpRt
  rw [h]
  unfold bpHalf
  ring

theorem prod_bp (cs : ℂ → ℂ) (hcs : ∀ w, cs w * cs w = w) (n : ℕ) (W2 bw : ℝ) (hbw : bw ≠ 0) (x : ℂ) (hx : x ≠ 0) :
    (∏ j ∈ Finset.range n, (x - (bpHalf bw (pole n j) + bpRt cs W2 bw (pole n j)))) *
      (∏ j ∈ Finset.range n, (x - (bpHalf bw (pole n j) - bpRt cs W2 bw (pole n j))))
      = (x * (bw : ℂ)) ^ n * bpoly n ((x ^ 2 + (W2 : ℂ)) / (x * (bw : ℂ))) := by
  have hb : (bw : ℂ) ≠ 0 := Complex.ofReal_ne_zero.mpr hbw
  unfold bpoly
  rw [← Finset.prod_mul_distrib, ← Finset.card_range n, ← Finset.prod_const, Finset.card_range,
    ← Finset.prod_mul_distrib]
  apply Finset.prod_congr rfl
  intro j _
  rw [bp_pair cs hcs]
  field_simp

theorem lp2bp_p (cs : ℂ → ℂ) (n : ℕ) (wo bw : ℝ) :
    (lp2bp (fnsC cs) (buttap (fnsC cs) n) wo bw).p
      = ((List.range n).map (pole n)).map (fun r => bpHalf bw r + bpRt cs (wo * wo) bw r)
        ++ ((List.range n).map (pole n)).map (fun r => bpHalf bw r - bpRt cs (wo * wo) bw r) := by
  simp only [lp2bp, buttap_p]
  simp [bpHalf, bpRt, fnsC]

theorem lp2bp_z (cs : ℂ → ℂ) (n : ℕ) (wo bw : ℝ) :
    (lp2bp (fnsC cs) (buttap (fnsC cs) n) wo bw).z = List.replicate n 0 := by
  simp [lp2bp, buttap_p, buttap_z, relDeg]

theorem lp2bp_k (cs : ℂ → ℂ) (n : ℕ) (wo bw : ℝ) :
    (lp2bp (fnsC cs) (buttap (fnsC cs) n) wo bw).k = bw ^ n := by
  simp [lp2bp, buttap_p, buttap_z, buttap_k, relDeg, powN_eq]

/-- the analog band pass `lp2bp(buttap(n), wo, bw)` has the transfer function `1/B_n((s² + wo²)/(s·bw))` (`s ≠ 0`) -/
theorem evalZpk_lp2bp (cs : ℂ → ℂ) (hcs : ∀ w, cs w * cs w = w) (n : ℕ) (wo bw : ℝ) (hbw : bw ≠ 0) (s : ℂ) (hs : s ≠ 0) :
    evalZpk (lp2bp (fnsC cs) (buttap (fnsC cs) n) wo bw) s
      = 1 / bpoly n ((s ^ 2 + ((wo * wo : ℝ) : ℂ)) / (s * (bw : ℂ))) := by
  rw [evalZpk_eq, lp2bp_p, lp2bp_z, lp2bp_k]
  simp only [List.map_append, List.prod_append, List.map_replicate, List.prod_replicate, sub_zero, List.map_map,
    list_range_prod, Function.comp_apply]
  rw [prod_bp cs hcs n _ bw hbw s hs]
  have hb : (bw : ℂ) ≠ 0 := Complex.ofReal_ne_zero.mpr hbw
  have h1 : (s * (bw : ℂ)) ^ n ≠ 0 := pow_ne_zero _ (mul_ne_zero hs hb)
  push_cast
  by_cases hB : bpoly n ((s ^ 2 + (wo : ℂ) * (wo : ℂ)) / (s * (bw : ℂ))) = 0
  · simp [hB]
  · field_simp
    ring

/-- the digital band pass is the analog one at `s = 4(ζ − 1)/(ζ + 1)` (`ζ ≠ ±1`) -/
theorem bandpass_response (cs : ℂ → ℂ) (hcs : ∀ w, cs w * cs w = w) (n : ℕ) (wo bw : ℝ) (hbw : 0 < bw)
    (ζ : ℂ) (hζ : ζ + 1 ≠ 0) (hζ1 : ζ - 1 ≠ 0) :
    evalZpk (bilinear (lp2bp (fnsC cs) (buttap (fnsC cs) n) wo bw)) ζ
      = 1 / bpoly n (((4 * (ζ - 1) / (ζ + 1)) ^ 2 + ((wo * wo : ℝ) : ℂ)) / ((4 * (ζ - 1) / (ζ + 1)) * (bw : ℂ))) := by
  have hs : 4 * (ζ - 1) / (ζ + 1) ≠ 0 := div_ne_zero (mul_ne_zero (by norm_num) hζ1) hζ
  have hb : (bw : ℂ) ≠ 0 := Complex.ofReal_ne_zero.mpr hbw.ne'
  have hx0 : 0 ≤ (16 + wo * wo) / (4 * bw) :=
    div_nonneg (by nlinarith [mul_self_nonneg wo]) (by linarith)
  have hpair : ∀ j, j < n → ((4 : ℂ) - (bpHalf bw (pole n j) + bpRt cs (wo * wo) bw (pole n j))) *
      ((4 : ℂ) - (bpHalf bw (pole n j) - bpRt cs (wo * wo) bw (pole n j))) ≠ 0 := by
    intro j hj
    rw [bp_pair cs hcs]
    have h := sub_pole_ne_zero n j hj _ hx0
    have : (4 : ℂ) ^ 2 + ((wo * wo : ℝ) : ℂ) - 4 * (bw : ℂ) * pole n j
        = (4 * (bw : ℂ)) * ((((16 + wo * wo) / (4 * bw) : ℝ) : ℂ) - pole n j) := by
      push_cast; field_simp; ring
    rw [this]
    exact mul_ne_zero (mul_ne_zero (by norm_num) hb) h
  rw [evalZpk_bilinear _ ζ hζ, evalZpk_lp2bp cs hcs n wo bw hbw.ne' _ hs]
  · rw [lp2bp_z, lp2bp_p]; simp
  · intro r hr
    rw [lp2bp_z, List.mem_replicate] at hr
    rw [hr.2]; norm_num
  · intro r hr
    rw [lp2bp_p] at hr
    simp only [List.mem_append, List.mem_map, List.mem_range] at hr
    rcases hr with ⟨_, ⟨j, hj, rfl⟩, rfl⟩ | ⟨_, ⟨j, hj, rfl⟩, rfl⟩
    · exact left_ne_zero_of_mul (hpair j hj)
    · exact right_ne_zero_of_mul (hpair j hj)
  · rw [lp2bp_z, lp2bp_p]
    simp only [List.map_append, List.prod_append, List.map_replicate, List.prod_replicate, sub_zero, List.map_map,
      list_range_prod, Function.comp_apply]
    rw [prod_bp cs hcs n _ bw hbw.ne' 4 (by norm_num)]
    have : ((4 : ℂ) ^ 2 + ((wo * wo : ℝ) : ℂ)) / (4 * (bw : ℂ)) = (((16 + wo * wo) / (4 * bw) : ℝ) : ℂ) := by
      push_cast; norm_num
    rw [this, bpoly_real n _]
    have : (4 : ℂ) ^ n / ((4 * (bw : ℂ)) ^ n * (((bpoly n (((16 + wo * wo) / (4 * bw) : ℝ) : ℂ)).re : ℝ) : ℂ))
        = (((4 : ℝ) ^ n / ((4 * bw) ^ n * (bpoly n (((16 + wo * wo) / (4 * bw) : ℝ) : ℂ)).re) : ℝ) : ℂ) := by
      push_cast; rfl
    rw [this]
    exact Complex.ofReal_im _

/-- **digital band-pass gain** `|H(e^{iπw})|² = 1/(1 + ((t² − t_l·t_h)/(t·(t_h − t_l)))^{2n})`, `t = tan(πw/2)` -/
theorem bandpass_gain (cs : ℂ → ℂ) (hcs : ∀ w, cs w * cs w = w) (n : ℕ) (hn : 0 < n) (wl wh w : ℝ)
    (hwl : 0 < wl) (hlh : wl < wh) (hwh : wh < 1) (hw : 0 < w) (hw1 : w < 1) :
    Complex.normSq (evalZpk (digitalZpk (fnsC cs) n .band [wl, wh]) (cexp ((Real.pi * w : ℝ) * I)))
      = 1 / (1 + ((Real.tan (Real.pi * w / 2) ^ 2 - Real.tan (Real.pi * wl / 2) * Real.tan (Real.pi * wh / 2))
          / (Real.tan (Real.pi * w / 2) * (Real.tan (Real.pi * wh / 2) - Real.tan (Real.pi * wl / 2)))) ^ (2 * n)) := by
  have hpi := Real.pi_pos
  have htl := tan_half_pos wl hwl (by linarith)
  have hth := tan_half_pos wh (by linarith) hwh
  have ht := tan_half_pos w hw hw1
  have hlt : Real.tan (Real.pi * wl / 2) < Real.tan (Real.pi * wh / 2) := by
    apply Real.tan_lt_tan_of_lt_of_lt_pi_div_two <;> nlinarith
  have hζ := exp_add_one_ne_zero (Real.pi * w) (cos_half_pos w (by linarith) hw1).ne'
  have hζ1 := exp_sub_one_ne_zero w hw hw1
  simp only [digitalZpk, analogZpk, List.getD_cons_zero, List.getD_cons_succ, prewarp_eq]
  have hbw : 0 < 4 * Real.tan (Real.pi * wh / 2) - 4 * Real.tan (Real.pi * wl / 2) := by linarith
  rw [bandpass_response cs hcs n _ _ hbw _ hζ hζ1, bilinear_unit_circle]
  have hsq : (fnsC cs).sqrt (4 * Real.tan (Real.pi * wl / 2) * (4 * Real.tan (Real.pi * wh / 2)))
      * (fnsC cs).sqrt (4 * Real.tan (Real.pi * wl / 2) * (4 * Real.tan (Real.pi * wh / 2)))
      = 4 * Real.tan (Real.pi * wl / 2) * (4 * Real.tan (Real.pi * wh / 2)) :=
    Real.mul_self_sqrt (by positivity)
  rw [hsq]
  set t := Real.tan (Real.pi * w / 2)
  set tl := Real.tan (Real.pi * wl / 2)
  set th := Real.tan (Real.pi * wh / 2)
  have : ((((4 * t : ℝ) : ℂ) * I) ^ 2 + ((4 * tl * (4 * th) : ℝ) : ℂ)) / ((((4 * t : ℝ) : ℂ) * I) * ((4 * th - 4 * tl : ℝ) : ℂ))
      = (((t ^ 2 - tl * th) / (t * (th - tl)) : ℝ) : ℂ) * I := by
    have hne : ((t : ℝ) : ℂ) ≠ 0 := Complex.ofReal_ne_zero.mpr ht.ne'
    have hne2 : (((th - tl : ℝ)) : ℂ) ≠ 0 := Complex.ofReal_ne_zero.mpr (by linarith)
    push_cast at hne2 ⊢
    rw [mul_pow, Complex.I_sq]
    field_simp
    ring_nf
    rw [Complex.I_sq]
    ring
  rw [this, map_div₀, map_one, normSq_bpoly n hn]

end EqsigVerif.Butter
