import EqsigVerif.Prelude.NpP
import EqsigVerif.Prelude.NpE
import EqsigVerif.Lemmas.Switched
import EqsigVerif.Lemmas.PeaksGen
/-!
# Lemmas tying the code-shaped stages emitted by `tools/py2lean_x_peaks.py` for the zero-crossing / switched-peak functions to
`Model/Switched.lean`: the prelude twins (`NpP.sortAsc`, `NpP.deleteE`), the adjacent-zero filter, the sign-switch products, and the
two loops (`NpP.forEnumE`, `NpP.forRangeE`) as folds.
-/
namespace EqsigVerif.Lemmas.CrossingsGen
open EqsigVerif EqsigVerif.Wire EqsigVerif.Model.Switched EqsigVerif.Lemmas.PeaksGen

/-! ### prelude twins -/

theorem insertAsc_eq (a : ℕ) (l : List ℕ) : NpP.insertAsc a l = insertAsc a l := by
  induction l with
  | nil => rfl
  | cons b bs ih => simp only [NpP.insertAsc, insertAsc, ih]

theorem sortAsc_eq (l : List ℕ) : NpP.sortAsc l = sortAsc l := by
  unfold NpP.sortAsc sortAsc
  induction l with
  | nil => rfl
  | cons a t ih => simp only [List.foldr_cons, ih, insertAsc_eq]

theorem deleteFrom_eq (rem : List ℕ) (i : ℕ) (l : List ℕ) : NpP.deleteFrom rem i l = npDeleteFrom rem i l := by
  induction l generalizing i with
  | nil => rfl
  | cons x xs ih => simp only [NpP.deleteFrom, npDeleteFrom, ih]

theorem deleteE_ok (l rem : List ℕ) (h : ∀ r ∈ rem, r < l.length) : NpP.deleteE l rem = .ok (npDelete l rem) := by
  unfold NpP.deleteE npDelete
  rw [if_pos (by simpa [List.all_eq_true] using h), deleteFrom_eq]

/-! ### the adjacent-zero filter -/

theorem length_ediff1d_map (z : List ℕ) (hz : z ≠ []) : (Np.ediff1d (10 : ℤ) (z.map Int.ofNat)).length = z.length := by
  obtain ⟨a, t, rfl⟩ := List.exists_cons_of_ne_nil hz
  have : ∀ (p : ℤ) (l : List ℤ), (Np.diffFrom p l).length = l.length := by
    intro p l
    induction l generalizing p with
    | nil => rfl
    | cons x xs ih => simp [Np.diffFrom, ih]
  simp [Np.ediff1d, Np.diff, this]

theorem takeE_pruneAdj (z : List ℕ) (hz : z ≠ []) :
    NpP.takeE z (Np.whereIdx (fun (x : ℤ) => decide (1 < x)) (Np.ediff1d 10 (z.map Int.ofNat))) = .ok (pruneAdj z) := by
  rw [takeE_ok]
  · rfl
  · intro i hi
    unfold Np.whereIdx at hi
    obtain ⟨k, x, hk, rfl, _⟩ := (mem_whereIdxFrom _ _ _ _).mp hi
    have := (List.getElem?_eq_some_iff.mp hk).1
    rw [length_ediff1d_map z hz] at this
    omega

/-! ### the sign-switch products -/

theorem zipWith_dropLast {β γ : Type} (f : β → β → γ) (l : List β) (x : β) :
    List.zipWith f l (x :: l).dropLast = List.zipWith f l (x :: l) := by
  induction l generalizing x with
  | nil => rfl
  | cons a t ih => rw [List.dropLast_cons_cons, List.zipWith_cons_cons, List.zipWith_cons_cons, ih]

theorem signSwitch_eq (x : ℚ) (xs : List ℚ) :
    x :: List.zipWith (fun a b => a * b) ((x :: xs).drop 1) (x :: xs).dropLast = signSwitch (x :: xs) := by
  rw [List.drop_one, List.tail_cons, zipWith_dropLast]
  rfl

/-! ### `for k, x in enumerate(l)` with a step that never raises is a fold -/

theorem forEnumFrom_ok {σ β : Type} (step : σ → ℕ → β → Except ErrKind σ) (f : σ → ℕ → σ) (k : ℕ) (l : List β)
    (h : ∀ s j (hj : j < l.length), step s (k + j) l[j] = .ok (f s (k + j))) (s : σ) :
    NpP.forEnumFrom step k l s = .ok ((List.range' k l.length).foldl f s) := by
  induction l generalizing k s with
  | nil => rfl
  | cons x xs ih =>
    have h0 := h s 0 (by simp)
    simp only [Nat.add_zero, List.getElem_cons_zero] at h0
    simp only [NpP.forEnumFrom, h0, List.length_cons, List.range'_succ, List.foldl_cons]
    apply ih
    intro s' j hj
    have := h s' (j + 1) (by simpa using hj)
    simpa [Nat.add_assoc, Nat.add_comm 1 j] using this

theorem forCountFrom_ok {σ : Type} (step : σ → ℕ → Except ErrKind σ) (f : σ → ℕ → σ) (a n : ℕ)
    (h : ∀ s j, j < n → step s (a + j) = .ok (f s (a + j))) (s : σ) :
    NpP.forCountFrom step a n s = .ok ((List.range' a n).foldl f s) := by
  induction n generalizing a s with
  | zero => rfl
  | succ n ih =>
    have h0 := h s 0 (by omega)
    simp only [Nat.add_zero] at h0
    simp only [NpP.forCountFrom, h0, List.range'_succ, List.foldl_cons]
    apply ih
    intro s' j hj
    have := h s' (j + 1) (by omega)
    simpa [Nat.add_assoc, Nat.add_comm 1 j] using this

/-! ### the `rem_i` bookkeeping stays in range -/

theorem tolRemStep_mem (v : List ℚ) (tol : ℚ) (zc rem : List ℕ) (k r : ℕ) (h : r ∈ tolRemStep v tol zc rem k) :
    r ∈ rem ∨ r = k ∨ r = k + 1 := by
  unfold tolRemStep at h
  split at h
  · exact Or.inl h
  · simp only at h
    split at h
    · split at h
      · simp only [List.mem_append, List.mem_cons, List.not_mem_nil, or_false] at h
        tauto
      · exact Or.inl h
    · exact Or.inl h

theorem foldl_tolRemStep_mem (v : List ℚ) (tol : ℚ) (zc : List ℕ) (l rem : List ℕ) (r : ℕ)
    (h : r ∈ l.foldl (tolRemStep v tol zc) rem) : r ∈ rem ∨ ∃ k ∈ l, r = k ∨ r = k + 1 := by
  induction l generalizing rem with
  | nil => exact Or.inl h
  | cons k ks ih =>
    rcases ih _ h with h1 | ⟨k', hk', h2⟩
    · rcases tolRemStep_mem _ _ _ _ _ _ h1 with h3 | h3
      · exact Or.inl h3
      · exact Or.inr ⟨k, by simp, h3⟩
    · exact Or.inr ⟨k', by simp [hk'], h2⟩

theorem tolRem_lt (v : List ℚ) (tol : ℚ) (zc : List ℕ) : ∀ r ∈ tolRem v tol zc, r < zc.length := by
  intro r hr
  unfold tolRem at hr
  rcases foldl_tolRemStep_mem _ _ _ _ _ _ hr with h | ⟨k, hk, h⟩
  · simp at h
  · have := List.mem_range.mp hk
    omega

/-! ### switched peaks: the running-set loop and `groupsAux` -/

theorem sign_eq_sgn (x : ℚ) : NpP.sign x = sgn x := by
  unfold NpP.sign sgn
  rcases lt_trichotomy x 0 with h | h | h
  · simp [h, not_lt.mpr h.le]
  · simp [h]
  · simp [h, not_lt.mpr h.le]

theorem argmaxE_ok (l : List ℚ) (hl : l ≠ []) : NpE.argmaxE l = .ok (Np.argmax l) := by
  unfold NpE.argmaxE
  rw [if_neg (by simpa using hl)]

theorem argmax_lt (l : List ℚ) (hl : l ≠ []) : Np.argmax l < l.length := by
  obtain ⟨k, hk, h, _⟩ := argmax_spec l hl
  omega

/-- the loop state `(last, peak_values_set, new_peak_indices, peak_indices_set)` (components in the order of their first use in the
loop body) for an open group `cur` -/
def stOf (last : ℚ) (npi : List ℕ) (cur : List (ℕ × ℚ)) : ℚ × List ℚ × List ℕ × List ℕ :=
  (last, cur.map (·.2), npi, cur.map (·.1))

/-- `peak_indices_set[np.argmax(np.abs(peak_values_set))]` is the model's `report` (no exception for a non-empty set) -/
theorem report_ok (cur : List (ℕ × ℚ)) (hc : cur ≠ []) :
    (NpE.argmaxE ((cur.map (·.2)).map (fun x => Np.absv x)) >>= fun e => NpE.getE (cur.map (·.1)) e) = .ok (report cur) := by
  have hne : (cur.map (·.2)).map (fun x => Np.absv x) ≠ [] := by simpa using hc
  rw [argmaxE_ok _ hne]
  show NpE.getE _ _ = _
  rw [getE_ok _ _ 0 (by have := argmax_lt _ hne; simpa using this)]
  rfl

end EqsigVerif.Lemmas.CrossingsGen
