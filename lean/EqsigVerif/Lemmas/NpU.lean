import EqsigVerif.Prelude.NpU
import Mathlib.Tactic.Linarith
import Mathlib.Data.List.Chain
/-!
# Lemmas about `NpU.unique` (`np.unique` on index arrays): the result is strictly ascending, has the same members, is a
sublist of an already sorted argument, and is the argument itself when that is strictly ascending.
-/
namespace EqsigVerif.Lemmas.NpU
open EqsigVerif EqsigVerif.NpU

/-! ### `NpP.sortAsc` -/

theorem mem_insertAsc (a x : ℕ) (l : List ℕ) : x ∈ NpP.insertAsc a l ↔ x = a ∨ x ∈ l := by
  induction l with
  | nil => simp [NpP.insertAsc]
  | cons b bs ih =>
    simp only [NpP.insertAsc]
    split
    · simp
    · simp only [List.mem_cons, ih]; tauto

theorem insertAsc_sorted (a : ℕ) (l : List ℕ) (hl : l.Pairwise (· ≤ ·)) : (NpP.insertAsc a l).Pairwise (· ≤ ·) := by
  induction l with
  | nil => simp [NpP.insertAsc]
  | cons b bs ih =>
    have hp := List.pairwise_cons.1 hl
    simp only [NpP.insertAsc]
    split
    · rename_i hab
      refine List.pairwise_cons.2 ⟨?_, hl⟩
      intro y hy
      rcases List.mem_cons.1 hy with rfl | hy
      · exact hab
      · exact le_trans hab (hp.1 y hy)
    · rename_i hab
      refine List.pairwise_cons.2 ⟨?_, ih hp.2⟩
      intro y hy
      rcases (mem_insertAsc a y bs).1 hy with rfl | hy
      · omega
      · exact hp.1 y hy

theorem mem_sortAsc (l : List ℕ) (x : ℕ) : x ∈ NpP.sortAsc l ↔ x ∈ l := by
  induction l with
  | nil => simp [NpP.sortAsc]
  | cons a t ih =>
    have : NpP.sortAsc (a :: t) = NpP.insertAsc a (NpP.sortAsc t) := rfl
    rw [this, mem_insertAsc, ih]; simp

/-- the sorted array is ascending -/
theorem sortAsc_sorted (l : List ℕ) : (NpP.sortAsc l).Pairwise (· ≤ ·) := by
  induction l with
  | nil => simp [NpP.sortAsc]
  | cons a t ih =>
    have : NpP.sortAsc (a :: t) = NpP.insertAsc a (NpP.sortAsc t) := rfl
    rw [this]; exact insertAsc_sorted a _ ih

/-- sorting an ascending array does nothing -/
theorem sortAsc_of_sorted (l : List ℕ) (hl : l.Pairwise (· ≤ ·)) : NpP.sortAsc l = l := by
  induction l with
  | nil => rfl
  | cons a t ih =>
    have hp := List.pairwise_cons.1 hl
    have : NpP.sortAsc (a :: t) = NpP.insertAsc a (NpP.sortAsc t) := rfl
    rw [this, ih hp.2]
    cases t with
    | nil => rfl
    | cons b bs => simp only [NpP.insertAsc, if_pos (hp.1 b (by simp))]

/-! ### `dedupAdj` -/

theorem dedupAdj_cons_cons (a b : ℕ) (rest : List ℕ) :
    dedupAdj (a :: b :: rest) = if a = b then dedupAdj (b :: rest) else a :: dedupAdj (b :: rest) := rfl

theorem dedupAdj_sublist (l : List ℕ) : (dedupAdj l).Sublist l := by
  induction l with
  | nil => exact List.Sublist.refl _
  | cons a t ih =>
    cases t with
    | nil => exact List.Sublist.refl _
    | cons b rest =>
      rw [dedupAdj_cons_cons]
      split
      · exact ih.trans (List.sublist_cons_self _ _)
      · exact ih.cons_cons a

theorem mem_dedupAdj (l : List ℕ) (x : ℕ) : x ∈ dedupAdj l ↔ x ∈ l := by
  induction l with
  | nil => simp [dedupAdj]
  | cons a t ih =>
    cases t with
    | nil => simp [dedupAdj]
    | cons b rest =>
      rw [dedupAdj_cons_cons]
      split
      · rename_i hab
        subst hab
        rw [ih]; simp
      · rw [List.mem_cons, ih, List.mem_cons (a := x) (b := a)]

theorem dedupAdj_head (a : ℕ) (t : List ℕ) : ∀ y ∈ dedupAdj (a :: t), y ∈ a :: t :=
  fun y hy => (mem_dedupAdj _ y).1 hy

/-- on an ascending array the run heads are strictly ascending -/
theorem dedupAdj_pairwise (l : List ℕ) (hl : l.Pairwise (· ≤ ·)) : (dedupAdj l).Pairwise (· < ·) := by
  induction l with
  | nil => simp [dedupAdj]
  | cons a t ih =>
    cases t with
    | nil => simp [dedupAdj]
    | cons b rest =>
      have hp := List.pairwise_cons.1 hl
      rw [dedupAdj_cons_cons]
      split
      · exact ih hp.2
      · rename_i hab
        refine List.pairwise_cons.2 ⟨?_, ih hp.2⟩
        intro y hy
        have hy' := (mem_dedupAdj _ y).1 hy
        have hb : a ≤ b := hp.1 b (by simp)
        have hby : b ≤ y := by
          rcases List.mem_cons.1 hy' with rfl | h
          · exact le_rfl
          · exact (List.pairwise_cons.1 hp.2).1 y h
        omega

/-- a strictly ascending array has no repeated neighbours -/
theorem dedupAdj_of_pairwise_lt (l : List ℕ) (hl : l.Pairwise (· < ·)) : dedupAdj l = l := by
  induction l with
  | nil => rfl
  | cons a t ih =>
    cases t with
    | nil => rfl
    | cons b rest =>
      have hp := List.pairwise_cons.1 hl
      have hab : a < b := hp.1 b (by simp)
      rw [dedupAdj_cons_cons, if_neg (by omega), ih hp.2]

/-! ### `unique` -/

/-- `np.unique` returns a strictly ascending array — for every argument -/
theorem unique_pairwise (l : List ℕ) : (unique l).Pairwise (· < ·) :=
  dedupAdj_pairwise _ (sortAsc_sorted l)

/-- `np.unique` returns the values that occur in its argument -/
theorem mem_unique (l : List ℕ) (x : ℕ) : x ∈ unique l ↔ x ∈ l := by
  unfold unique; rw [mem_dedupAdj, mem_sortAsc]

/-- `np.unique` is the identity on strictly ascending arrays -/
theorem unique_of_pairwise_lt (l : List ℕ) (hl : l.Pairwise (· < ·)) : unique l = l := by
  unfold unique
  rw [sortAsc_of_sorted l (hl.imp (fun h => Nat.le_of_lt h)), dedupAdj_of_pairwise_lt l hl]

/-- on an ascending array `np.unique` only removes entries -/
theorem unique_sublist_of_sorted (l : List ℕ) (hl : l.Pairwise (· ≤ ·)) : (unique l).Sublist l := by
  unfold unique
  rw [sortAsc_of_sorted l hl]; exact dedupAdj_sublist l

theorem unique_ne_nil (l : List ℕ) (hl : l ≠ []) : unique l ≠ [] := by
  obtain ⟨a, t, rfl⟩ := List.exists_cons_of_ne_nil hl
  intro h
  have : a ∈ unique (a :: t) := (mem_unique _ a).2 (by simp)
  rw [h] at this; simp at this

/-- a non-empty array all of whose entries are `a`: `np.unique` is `[a]` -/
theorem unique_const (l : List ℕ) (a : ℕ) (hl : l ≠ []) (h : ∀ x ∈ l, x = a) : unique l = [a] := by
  have hp := unique_pairwise l
  have hm : ∀ x ∈ unique l, x = a := fun x hx => h x ((mem_unique l x).1 hx)
  have hne := unique_ne_nil l hl
  cases hu : unique l with
  | nil => exact absurd hu hne
  | cons x rest =>
    rw [hu] at hp hm
    have hx : x = a := hm x (by simp)
    cases rest with
    | nil => rw [hx]
    | cons y r =>
      have hy : y = a := hm y (by simp)
      have := (List.pairwise_cons.1 hp).1 y (by simp)
      omega

/-- `np.unique` is idempotent -/
theorem unique_unique (l : List ℕ) : unique (unique l) = unique l :=
  unique_of_pairwise_lt _ (unique_pairwise l)

end EqsigVerif.Lemmas.NpU
