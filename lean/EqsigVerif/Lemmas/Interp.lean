import EqsigVerif.Prelude.Interp
import Mathlib.Algebra.Order.Floor.Ring
import Mathlib.Data.Rat.Floor
import Mathlib.Tactic.Ring
import Mathlib.Tactic.Linarith
import Mathlib.Tactic.Positivity
import Mathlib.Tactic.FieldSimp
import Mathlib.Tactic.NormNum
/-!
# Lemmas about `np.interp` on the unit grid (`Prelude/Interp.lean`)
-/
namespace EqsigVerif.Interp

theorem floor_natCast (k : ℕ) : (Rat.floor (k : ℚ)).toNat = k := by
  have : Rat.floor (k : ℚ) = ⌊(k : ℚ)⌋ := rfl
  rw [this]; simp

theorem floor_natCast_add (j : ℕ) (t : ℚ) (ht0 : 0 ≤ t) (ht1 : t < 1) :
    (Rat.floor ((j : ℚ) + t)).toNat = j := by
  have e : Rat.floor ((j : ℚ) + t) = ⌊(j : ℚ) + t⌋ := rfl
  rw [e]
  have : ⌊(j : ℚ) + t⌋ = (j : ℤ) := by
    rw [Int.floor_eq_iff]; push_cast; constructor <;> linarith
  rw [this]; simp

/-- for `x ≥ 0`: `j = ⌊x⌋.toNat` satisfies `j ≤ x < j+1` -/
theorem floor_toNat_spec (x : ℚ) (hx : 0 ≤ x) :
    (((Rat.floor x).toNat : ℕ) : ℚ) ≤ x ∧ x < (((Rat.floor x).toNat : ℕ) : ℚ) + 1 := by
  have e : Rat.floor x = ⌊x⌋ := rfl
  rw [e]
  have h0 : 0 ≤ ⌊x⌋ := Int.floor_nonneg.mpr hx
  have hc : (((⌊x⌋).toNat : ℕ) : ℚ) = ((⌊x⌋ : ℤ) : ℚ) := by
    have : ((⌊x⌋.toNat : ℕ) : ℤ) = ⌊x⌋ := Int.toNat_of_nonneg h0
    exact_mod_cast congrArg (fun z : ℤ => (z : ℚ)) this
  rw [hc]
  exact ⟨Int.floor_le x, Int.lt_floor_add_one x⟩

theorem getD_of_lt (fp : List ℚ) (i : ℕ) (h : i < fp.length) : fp.getD i 0 = fp[i] := by
  simp [List.getD_eq_getElem?_getD, h]

theorem getD_of_le (fp : List ℚ) (i : ℕ) (h : fp.length ≤ i) : fp.getD i 0 = 0 := by
  simp [List.getD_eq_getElem?_getD, h]

theorem getD_mem (fp : List ℚ) (i : ℕ) (h : i < fp.length) : fp.getD i 0 ∈ fp := by
  rw [getD_of_lt _ _ h]; exact List.getElem_mem h

/-- at a node the interpolant returns the node value, whatever left/right are (C14.b, C14.c, C19.b) -/
theorem interpUnit_node (fp : List ℚ) (l r : ℚ) (k : ℕ) (hk : k < fp.length) :
    interpUnit fp l r (k : ℚ) = fp.getD k 0 := by
  unfold interpUnit
  have h0 : fp.length ≠ 0 := by omega
  have h1 : ¬ ((k : ℚ) < 0) := by rw [not_lt]; exact_mod_cast Nat.zero_le k
  have h2 : ¬ (((fp.length - 1 : ℕ) : ℚ) < (k : ℚ)) := by
    rw [not_lt]; exact_mod_cast (by omega : k ≤ fp.length - 1)
  simp only [h0, h1, h2, if_false, floor_natCast]
  split
  · ring
  · have : k = fp.length - 1 := by omega
    rw [this]

/-- between nodes the value is a convex combination of the two neighbours (C14.b range clause, C19.a) -/
theorem interpUnit_between (fp : List ℚ) (l r : ℚ) (j : ℕ) (t : ℚ) (hj : j + 1 < fp.length)
    (ht0 : 0 ≤ t) (ht1 : t < 1) :
    interpUnit fp l r ((j : ℚ) + t) = (1 - t) * fp.getD j 0 + t * fp.getD (j+1) 0 := by
  unfold interpUnit
  have h0 : fp.length ≠ 0 := by omega
  have h1 : ¬ ((j : ℚ) + t < 0) := by
    rw [not_lt]; have : (0:ℚ) ≤ j := by exact_mod_cast Nat.zero_le j
    linarith
  have h2 : ¬ (((fp.length - 1 : ℕ) : ℚ) < (j : ℚ) + t) := by
    rw [not_lt]
    have : ((j + 1 : ℕ) : ℚ) ≤ ((fp.length - 1 : ℕ) : ℚ) := by exact_mod_cast (by omega : j + 1 ≤ fp.length - 1)
    push_cast at this; linarith
  have hfl := floor_natCast_add j t ht0 ht1
  simp only [h0, h1, h2, if_false, hfl, hj, if_true]
  ring

/-- left of the grid: the `left` value -/
theorem interpUnit_left (fp : List ℚ) (l r x : ℚ) (hne : fp ≠ []) (hx : x < 0) :
    interpUnit fp l r x = l := by
  unfold interpUnit
  have h0 : fp.length ≠ 0 := by simpa using hne
  simp [h0, hx]

/-- right of the grid: the `right` value -/
theorem interpUnit_right (fp : List ℚ) (l r x : ℚ) (hne : fp ≠ []) (hx : ((fp.length - 1 : ℕ) : ℚ) < x) :
    interpUnit fp l r x = r := by
  unfold interpUnit
  have h0 : fp.length ≠ 0 := by simpa using hne
  have h1 : ¬ x < 0 := by
    rw [not_lt]; have : (0:ℚ) ≤ ((fp.length - 1 : ℕ) : ℚ) := by exact_mod_cast Nat.zero_le _
    linarith
  simp [h0, h1, hx]

/-- every value of the interpolant is a convex combination of two of `left`, `right`, and the samples -/
theorem interpUnit_convex (fp : List ℚ) (l r x : ℚ) (hne : fp ≠ []) :
    ∃ a b t : ℚ, a ∈ l :: r :: fp ∧ b ∈ l :: r :: fp ∧ 0 ≤ t ∧ t ≤ 1 ∧
      interpUnit fp l r x = (1 - t) * a + t * b := by
  have h0 : fp.length ≠ 0 := by simpa using hne
  by_cases hx : x < 0
  · exact ⟨l, l, 0, by simp, by simp, le_refl _, by norm_num, by rw [interpUnit_left fp l r x hne hx]; ring⟩
  by_cases hr : ((fp.length - 1 : ℕ) : ℚ) < x
  · exact ⟨r, r, 0, by simp, by simp, le_refl _, by norm_num, by rw [interpUnit_right fp l r x hne hr]; ring⟩
  have hx0 : 0 ≤ x := not_lt.mp hx
  obtain ⟨hj0, hj1⟩ := floor_toNat_spec x hx0
  unfold interpUnit
  simp only [h0, hx, hr, if_false]
  split
  · rename_i hj
    refine ⟨fp.getD (Rat.floor x).toNat 0, fp.getD ((Rat.floor x).toNat + 1) 0, x - ((Rat.floor x).toNat : ℚ),
      ?_, ?_, by linarith, by linarith, by ring⟩
    · exact List.mem_cons_of_mem _ (List.mem_cons_of_mem _ (getD_mem fp _ (by omega)))
    · exact List.mem_cons_of_mem _ (List.mem_cons_of_mem _ (getD_mem fp _ hj))
  · refine ⟨fp.getD (fp.length - 1) 0, fp.getD (fp.length - 1) 0, 0, ?_, ?_, le_refl _, by norm_num, by ring⟩ <;>
    exact List.mem_cons_of_mem _ (List.mem_cons_of_mem _ (getD_mem fp _ (by omega)))

/-- range preservation: if the samples and `left`, `right` lie in `[lo, hi]`, so does every interpolated value -/
theorem interpUnit_mem_range (fp : List ℚ) (l r x lo hi : ℚ) (hne : fp ≠ [])
    (hfp : ∀ v ∈ fp, lo ≤ v ∧ v ≤ hi) (hl : lo ≤ l ∧ l ≤ hi) (hr : lo ≤ r ∧ r ≤ hi) :
    lo ≤ interpUnit fp l r x ∧ interpUnit fp l r x ≤ hi := by
  obtain ⟨a, b, t, ha, hb, ht0, ht1, he⟩ := interpUnit_convex fp l r x hne
  have hall : ∀ v ∈ l :: r :: fp, lo ≤ v ∧ v ≤ hi := by
    intro v hv
    simp only [List.mem_cons] at hv
    rcases hv with rfl | rfl | hv
    · exact hl
    · exact hr
    · exact hfp v hv
  obtain ⟨ha1, ha2⟩ := hall a ha
  obtain ⟨hb1, hb2⟩ := hall b hb
  rw [he]
  have h1t : 0 ≤ 1 - t := by linarith
  constructor
  · nlinarith [mul_le_mul_of_nonneg_left ha1 h1t, mul_le_mul_of_nonneg_left hb1 ht0]
  · nlinarith [mul_le_mul_of_nonneg_left ha2 h1t, mul_le_mul_of_nonneg_left hb2 ht0]

/-- `interpUnit` is homogeneous in `(fp, left, right)` -/
theorem interpUnit_smul (c : ℚ) (fp : List ℚ) (l r x : ℚ) :
    interpUnit (fp.map (c * ·)) (c * l) (c * r) x = c * interpUnit fp l r x := by
  unfold interpUnit
  simp only [List.length_map]
  have hg : ∀ i, (fp.map (c * ·)).getD i 0 = c * fp.getD i 0 := by
    intro i
    by_cases hi : i < fp.length
    · rw [getD_of_lt _ _ (by simpa using hi), getD_of_lt _ _ hi]; simp
    · rw [getD_of_le _ _ (by simpa using not_lt.mp hi), getD_of_le _ _ (not_lt.mp hi)]; ring
  simp only [hg]
  split
  · ring
  split
  · rfl
  split
  · rfl
  split
  · ring
  · rfl

end EqsigVerif.Interp
