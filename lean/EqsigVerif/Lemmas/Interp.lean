import EqsigVerif.Prelude.Interp
import Mathlib.Algebra.Order.Floor.Ring
import Mathlib.Data.Rat.Floor
import Mathlib.Tactic.Ring
import Mathlib.Tactic.Linarith
import Mathlib.Tactic.Positivity
import Mathlib.Tactic.FieldSimp
import Mathlib.Tactic.NormNum
/-!
# Lemmas about `np.interp` on the unit grid (`Prelude/Interp.lean`)
-/
namespace EqsigVerif.Interp

theorem floor_natCast (k : ℕ) : (Rat.floor (k : ℚ)).toNat = k := by
  have : Rat.floor (k : ℚ) = ⌊(k : ℚ)⌋ := rfl
  rw [this]; simp

theorem floor_natCast_add (j : ℕ) (t : ℚ) (ht0 : 0 ≤ t) (ht1 : t < 1) :
    (Rat.floor ((j : ℚ) + t)).toNat = j := by
  have e : Rat.floor ((j : ℚ) + t) = ⌊(j : ℚ) + t⌋ := rfl
  rw [e]
  have : ⌊(j : ℚ) + t⌋ = (j : ℤ) := by
    rw [Int.floor_eq_iff]; push_cast; constructor <;> linarith
  rw [this]; simp

/-- for `x ≥ 0`: `j = ⌊x⌋.toNat` satisfies `j ≤ x < j+1` -/
theorem floor_toNat_spec (x : ℚ) (hx : 0 ≤ x) :
    (((Rat.floor x).toNat : ℕ) : ℚ) ≤ x ∧ x < (((Rat.floor x).toNat : ℕ) : ℚ) + 1 := by
  have e : Rat.floor x = ⌊x⌋ := rfl
  rw [e]
  have h0 : 0 ≤ ⌊x⌋ := Int.floor_nonneg.mpr hx
  have hc : (((⌊x⌋).toNat : ℕ) : ℚ) = ((⌊x⌋ : ℤ) : ℚ) := by
    have : ((⌊x⌋.toNat : ℕ) : ℤ) = ⌊x⌋ := Int.toNat_of_nonneg h0
    exact_mod_cast congrArg (fun z : ℤ => (z : ℚ)) this
  rw [hc]
  exact ⟨Int.floor_le x, Int.lt_floor_add_one x⟩

theorem getD_of_lt (fp : List ℚ) (i : ℕ) (h : i < fp.length) : fp.getD i 0 = fp[i] := by
  simp [List.getD_eq_getElem?_getD, h]

theorem getD_of_le (fp : List ℚ) (i : ℕ) (h : fp.length ≤ i) : fp.getD i 0 = 0 := by
  simp [List.getD_eq_getElem?_getD, h]

theorem getD_mem (fp : List ℚ) (i : ℕ) (h : i < fp.length) : fp.getD i 0 ∈ fp := by
  rw [getD_of_lt _ _ h]; exact List.getElem_mem h

/-- at a node the interpolant returns the node value, whatever left/right are (C14.b, C14.c, C19.b) -/
theorem interpUnit_node (fp : List ℚ) (l r : ℚ) (k : ℕ) (hk : k < fp.length) :
    interpUnit fp l r (k : ℚ) = fp.getD k 0 := by
  unfold interpUnit
  have h0 : fp.length ≠ 0 := by omega
  have h1 : ¬ ((k : ℚ) < 0) := by rw [not_lt]; exact_mod_cast Nat.zero_le k
  have h2 : ¬ (((fp.length - 1 : ℕ) : ℚ) < (k : ℚ)) := by
    rw [not_lt]; exact_mod_cast (by omega : k ≤ fp.length - 1)
  simp only [h0, h1, h2, if_false, floor_natCast]
  split
  · ring
  · have : k = fp.length - 1 := by omega
    rw [this]

/-- between nodes the value is a convex combination of the two neighbours (C14.b range clause, C19.a) -/
theorem interpUnit_between (fp : List ℚ) (l r : ℚ) (j : ℕ) (t : ℚ) (hj : j + 1 < fp.length)
    (ht0 : 0 ≤ t) (ht1 : t < 1) :
    interpUnit fp l r ((j : ℚ) + t) = (1 - t) * fp.getD j 0 + t * fp.getD (j+1) 0 := by
  unfold interpUnit
  have h0 : fp.length ≠ 0 := by omega
  have h1 : ¬ ((j : ℚ) + t < 0) := by
    rw [not_lt]; have : (0:ℚ) ≤ j := by exact_mod_cast Nat.zero_le j
    linarith
  have h2 : ¬ (((fp.length - 1 : ℕ) : ℚ) < (j : ℚ) + t) := by
    rw [not_lt]
    have : ((j + 1 : ℕ) : ℚ) ≤ ((fp.length - 1 : ℕ) : ℚ) := by exact_mod_cast (by omega : j + 1 ≤ fp.length - 1)
    push_cast at this; linarith
  have hfl := floor_natCast_add j t ht0 ht1
  simp only [h0, h1, h2, if_false, hfl, hj, if_true]
  ring

/-- left of the grid: the `left` value -/
theorem interpUnit_left (fp : List ℚ) (l r x : ℚ) (hne : fp ≠ []) (hx : x < 0) :
    interpUnit fp l r x = l := by
  unfold interpUnit
  have h0 : fp.length ≠ 0 := by simpa using hne
  simp [h0, hx]

/-- right of the grid: the `right` value -/
theorem interpUnit_right (fp : List ℚ) (l r x : ℚ) (hne : fp ≠ []) (hx : ((fp.length - 1 : ℕ) : ℚ) < x) :
    interpUnit fp l r x = r := by
  unfold interpUnit
  have h0 : fp.length ≠ 0 := by simpa using hne
  have h1 : ¬ x < 0 := by
    rw [not_lt]; have : (0:ℚ) ≤ ((fp.length - 1 : ℕ) : ℚ) := by exact_mod_cast Nat.zero_le _
    linarith
  simp [h0, h1, hx]

/-- every value of the interpolant is a convex combination of two of `left`, `right`, and the samples -/
theorem interpUnit_convex (fp : List ℚ) (l r x : ℚ) (hne : fp ≠ []) :
    ∃ a b t : ℚ, a ∈ l :: r :: fp ∧ b ∈ l :: r :: fp ∧ 0 ≤ t ∧ t ≤ 1 ∧
      interpUnit fp l r x = (1 - t) * a + t * b := by
  have h0 : fp.length ≠ 0 := by simpa using hne
  by_cases hx : x < 0
  · exact ⟨l, l, 0, by simp, by simp, le_refl _, by norm_num, by rw [interpUnit_left fp l r x hne hx]; ring⟩
  by_cases hr : ((fp.length - 1 : ℕ) : ℚ) < x
  · exact ⟨r, r, 0, by simp, by simp, le_refl _, by norm_num, by rw [interpUnit_right fp l r x hne hr]; ring⟩
  have hx0 : 0 ≤ x := not_lt.mp hx
  obtain ⟨hj0, hj1⟩ := floor_toNat_spec x hx0
  unfold interpUnit
  simp only [h0, hx, hr, if_false]
  split
  · rename_i hj
    refine ⟨fp.getD (Rat.floor x).toNat 0, fp.getD ((Rat.floor x).toNat + 1) 0, x - ((Rat.floor x).toNat : ℚ),
      ?_, ?_, by linarith, by linarith, by ring⟩
    · exact List.mem_cons_of_mem _ (List.mem_cons_of_mem _ (getD_mem fp _ (by omega)))
    · exact List.mem_cons_of_mem _ (List.mem_cons_of_mem _ (getD_mem fp _ hj))
  · refine ⟨fp.getD (fp.length - 1) 0, fp.getD (fp.length - 1) 0, 0, ?_, ?_, le_refl _, by norm_num, by ring⟩ <;>
    exact List.mem_cons_of_mem _ (List.mem_cons_of_mem _ (getD_mem fp _ (by omega)))

/-- range preservation: if the samples and `left`, `right` lie in `[lo, hi]`, so does every interpolated value -/
theorem interpUnit_mem_range (fp : List ℚ) (l r x lo hi : ℚ) (hne : fp ≠ [])
    (hfp : ∀ v ∈ fp, lo ≤ v ∧ v ≤ hi) (hl : lo ≤ l ∧ l ≤ hi) (hr : lo ≤ r ∧ r ≤ hi) :
    lo ≤ interpUnit fp l r x ∧ interpUnit fp l r x ≤ hi := by
  obtain ⟨a, b, t, ha, hb, ht0, ht1, he⟩ := interpUnit_convex fp l r x hne
  have hall : ∀ v ∈ l :: r :: fp, lo ≤ v ∧ v ≤ hi := by
    intro v hv
    simp only [List.mem_cons] at hv
    rcases hv with rfl | rfl | hv
    · exact hl
    · exact hr
    · exact hfp v hv
  obtain ⟨ha1, ha2⟩ := hall a ha
  obtain ⟨hb1, hb2⟩ := hall b hb
  rw [he]
  have h1t : 0 ≤ 1 - t := by linarith
  constructor
  · nlinarith [mul_le_mul_of_nonneg_left ha1 h1t, mul_le_mul_of_nonneg_left hb1 ht0]
  · nlinarith [mul_le_mul_of_nonneg_left ha2 h1t, mul_le_mul_of_nonneg_left hb2 ht0]

/-- `interpUnit` is homogeneous in `(fp, left, right)` -/
theorem interpUnit_smul (c : ℚ) (fp : List ℚ) (l r x : ℚ) :
    interpUnit (fp.map (c * ·)) (c * l) (c * r) x = c * interpUnit fp l r x := by
  unfold interpUnit
  simp only [List.length_map]
  have hg : ∀ i, (fp.map (c * ·)).getD i 0 = c * fp.getD i 0 := by
    intro i
    by_cases hi : i < fp.length
    · rw [getD_of_lt _ _ (by simpa using hi), getD_of_lt _ _ hi]; simp
    · rw [getD_of_le _ _ (by simpa using not_lt.mp hi), getD_of_le _ _ (not_lt.mp hi)]; ring
  simp only [hg]
  split
  · ring
  split
  · rfl
  split
  · rfl
  split
  · ring
  · rfl


/-! ### general `np.interp` (strictly increasing `xp`) -/

/-- inside a bracket `xp[i] ≤ x < xp[i+1]` the scan returns NumPy's `slope*(x - xp[i]) + fp[i]` -/
theorem interpScan_between (xp fp : List ℚ) (hlen : xp.length = fp.length) (hs : xp.Pairwise (· < ·))
    (i : ℕ) (hi : i + 1 < xp.length) (x : ℚ) (h1 : xp[i] ≤ x) (h2 : x < xp[i + 1]) :
    interpScan xp fp x =
      (fp[i + 1]'(by omega) - fp[i]'(by omega)) / (xp[i + 1] - xp[i]) * (x - xp[i]) + fp[i]'(by omega) := by
  induction i generalizing xp fp with
  | zero =>
    match xp, fp, hlen, hi with
    | x0 :: x1 :: xs, f0 :: f1 :: fs, _, _ =>
      simp only [List.getElem_cons_zero, List.getElem_cons_succ] at h1 h2 ⊢
      simp only [interpScan, if_pos h2]
  | succ i ih =>
    match xp, fp, hlen, hi with
    | x0 :: x1 :: xs, f0 :: f1 :: fs, hlen, hi =>
      simp only [List.getElem_cons_succ] at h1 h2 ⊢
      have hs' : (x1 :: xs).Pairwise (· < ·) := (List.pairwise_cons.mp hs).2
      have hx1 : x1 ≤ x := by
        rcases Nat.eq_zero_or_pos i with h0 | h0
        · subst h0; simpa using h1
        · have hmem : (x1 :: xs)[i]'(by simp at hi ⊢; omega) ∈ xs := by
            cases i with
            | zero => omega
            | succ j => simp only [List.getElem_cons_succ]; exact List.getElem_mem _
          have := (List.pairwise_cons.mp hs').1 _ hmem
          linarith
      simp only [interpScan, if_neg (not_lt.mpr hx1)]
      exact ih (x1 :: xs) (f1 :: fs) (by simpa using hlen) hs' (by simp at hi ⊢; omega) h1 h2

/-- at the last node the scan returns `fp[-1]` -/
theorem interpScan_last (xp fp : List ℚ) (hlen : xp.length = fp.length) (hs : xp.Pairwise (· < ·))
    (hne : xp ≠ []) :
    interpScan xp fp (xp.getLast hne) = fp.getLast (by intro h; rw [h] at hlen; simp at hlen; exact hne hlen) := by
  induction xp generalizing fp with
  | nil => exact absurd rfl hne
  | cons x0 xs ih =>
    match xs, fp, hlen with
    | [], [f0], _ => simp [interpScan]
    | x1 :: xs', f0 :: f1 :: fs, hlen =>
      have hs' : (x1 :: xs').Pairwise (· < ·) := (List.pairwise_cons.mp hs).2
      have hlast : (x0 :: x1 :: xs').getLast hne = (x1 :: xs').getLast (by simp) := by simp
      have hge : x1 ≤ (x1 :: xs').getLast (by simp) := by
        rcases List.mem_cons.mp (List.getLast_mem (l := x1 :: xs') (by simp)) with h | h
        · rw [h]
        · exact le_of_lt ((List.pairwise_cons.mp hs').1 _ h)
      rw [hlast]
      simp only [interpScan, if_neg (not_lt.mpr hge)]
      rw [ih (f1 :: fs) (by simpa using hlen) hs' (by simp)]
      simp

/-- range preservation of the scan: for `xp[0] ≤ x`, the result lies between bounds of `fp` -/
theorem interpScan_mem_range (xp fp : List ℚ) (hlen : xp.length = fp.length) (hs : xp.Pairwise (· < ·))
    (hne : xp ≠ []) (x lo hi : ℚ) (hx : xp.head hne ≤ x) (hfp : ∀ v ∈ fp, lo ≤ v ∧ v ≤ hi) :
    lo ≤ interpScan xp fp x ∧ interpScan xp fp x ≤ hi := by
  induction xp generalizing fp with
  | nil => exact absurd rfl hne
  | cons x0 xs ih =>
    match xs, fp, hlen with
    | [], [f0], _ => simpa [interpScan] using hfp f0 (by simp)
    | x1 :: xs', f0 :: f1 :: fs, hlen =>
      have hs' : (x1 :: xs').Pairwise (· < ·) := (List.pairwise_cons.mp hs).2
      have h01 : x0 < x1 := (List.pairwise_cons.mp hs).1 x1 (by simp)
      simp only [List.head_cons] at hx
      by_cases hlt : x < x1
      · simp only [interpScan, if_pos hlt]
        obtain ⟨a1, a2⟩ := hfp f0 (by simp)
        obtain ⟨b1, b2⟩ := hfp f1 (by simp)
        have hd : 0 < x1 - x0 := by linarith
        set t := (x - x0) / (x1 - x0) with ht
        have ht0 : 0 ≤ t := div_nonneg (by linarith) hd.le
        have ht1 : t ≤ 1 := by rw [ht, div_le_one hd]; linarith
        have he : (f1 - f0) / (x1 - x0) * (x - x0) + f0 = (1 - t) * f0 + t * f1 := by
          rw [ht]; field_simp; ring
        rw [he]
        have h1t : 0 ≤ 1 - t := by linarith
        constructor
        · nlinarith [mul_le_mul_of_nonneg_left a1 h1t, mul_le_mul_of_nonneg_left b1 ht0]
        · nlinarith [mul_le_mul_of_nonneg_left a2 h1t, mul_le_mul_of_nonneg_left b2 ht0]
      · simp only [interpScan, if_neg hlt]
        exact ih (f1 :: fs) (by simpa using hlen) hs' (by simp) (by simpa using not_lt.mp hlt)
          (fun v hv => hfp v (by simp only [List.mem_cons] at hv ⊢; exact Or.inr hv))

/-- `np.interp` at a node returns the node value (`interp_at_node`) -/
theorem interp_node (xp fp : List ℚ) (l r : ℚ) (hlen : xp.length = fp.length) (hs : xp.Pairwise (· < ·))
    (i : ℕ) (hi : i < xp.length) : interp xp fp l r xp[i] = fp[i]'(by omega) := by
  have hne : xp ≠ [] := by intro h; rw [h] at hi; simp at hi
  have hhead : ∀ j (hj : j < xp.length), xp.head hne ≤ xp[j] := by
    intro j hj
    match xp, hne, hs, hj with
    | x0 :: xs, _, hs, hj =>
      cases j with
      | zero => simp
      | succ j =>
        simp only [List.head_cons, List.getElem_cons_succ]
        exact le_of_lt ((List.pairwise_cons.mp hs).1 _ (List.getElem_mem _))
  have hlastge : ∀ j (hj : j < xp.length), xp[j] ≤ xp.getLast hne := by
    intro j hj
    rw [List.getLast_eq_getElem]
    rcases Nat.lt_or_ge j (xp.length - 1) with h | h
    · exact le_of_lt (List.pairwise_iff_getElem.mp hs j (xp.length - 1) hj (by omega) h)
    · have : j = xp.length - 1 := by omega
      subst this; exact le_refl _
  unfold interp
  match xp, hne, hhead, hlastge, hs, hlen, hi with
  | x0 :: xs, hne, hhead, hlastge, hs, hlen, hi =>
    have h1 : ¬ ((x0 :: xs)[i] < x0) := not_lt.mpr (by simpa using hhead i hi)
    have h2 : ¬ ((x0 :: xs).getD ((x0 :: xs).length - 1) 0 < (x0 :: xs)[i]) := by
      rw [getD_of_lt _ _ (by simp), ← List.getLast_eq_getElem hne]
      exact not_lt.mpr (hlastge i hi)
    simp only [h1, h2, if_false]
    rcases Nat.lt_or_ge (i + 1) (x0 :: xs).length with h | h
    · rw [interpScan_between _ _ hlen hs i h _ (le_refl _)
        (List.pairwise_iff_getElem.mp hs i (i + 1) hi h (by omega))]
      ring
    · have hil : i = (x0 :: xs).length - 1 := by omega
      have hx : (x0 :: xs)[i] = (x0 :: xs).getLast hne := by
        rw [List.getLast_eq_getElem]; congr 1
      rw [hx, interpScan_last _ _ hlen hs hne, List.getLast_eq_getElem]
      congr 1; omega

/-- `np.interp` never leaves the range of `fp`, `left`, `right` (`interp_mem_range`) -/
theorem interp_mem_range (xp fp : List ℚ) (l r x lo hi : ℚ) (hlen : xp.length = fp.length)
    (hs : xp.Pairwise (· < ·)) (hne : xp ≠ [])
    (hfp : ∀ v ∈ fp, lo ≤ v ∧ v ≤ hi) (hl : lo ≤ l ∧ l ≤ hi) (hr : lo ≤ r ∧ r ≤ hi) :
    lo ≤ interp xp fp l r x ∧ interp xp fp l r x ≤ hi := by
  unfold interp
  match xp, hne, hs, hlen with
  | x0 :: xs, hne, hs, hlen =>
    simp only
    split
    · exact hl
    · split
      · exact hr
      · rename_i h1 h2
        exact interpScan_mem_range _ _ hlen hs hne x lo hi (by simpa using not_lt.mp h1) hfp


/-- between two nodes `np.interp` is NumPy's `slope*(x - xp[i]) + fp[i]` (`interp_between`) -/
theorem interp_between (xp fp : List ℚ) (l r : ℚ) (hlen : xp.length = fp.length) (hs : xp.Pairwise (· < ·))
    (i : ℕ) (hi : i + 1 < xp.length) (x : ℚ) (h1 : xp[i] ≤ x) (h2 : x < xp[i + 1]) :
    interp xp fp l r x =
      (fp[i + 1]'(by omega) - fp[i]'(by omega)) / (xp[i + 1] - xp[i]) * (x - xp[i]) + fp[i]'(by omega) := by
  have hne : xp ≠ [] := by intro h; rw [h] at hi; simp at hi
  have hge0 : xp[0]'(by omega) ≤ xp[i] := by
    rcases Nat.eq_zero_or_pos i with h | h
    · subst h; exact le_refl _
    · exact le_of_lt (List.pairwise_iff_getElem.mp hs 0 i (by omega) (by omega) h)
  have hlel : xp[i + 1] ≤ xp[xp.length - 1]'(by omega) := by
    rcases Nat.lt_or_ge (i + 1) (xp.length - 1) with h | h
    · exact le_of_lt (List.pairwise_iff_getElem.mp hs (i + 1) (xp.length - 1) hi (by omega) h)
    · have : i + 1 = xp.length - 1 := by omega
      simp only [this, le_refl]
  unfold interp
  match xp, hne, hs, hlen, hi, h1, h2, hge0, hlel with
  | x0 :: xs, hne, hs, hlen, hi, h1, h2, hge0, hlel =>
    have c1 : ¬ (x < x0) := by
      simp only [List.getElem_cons_zero] at hge0
      exact not_lt.mpr (le_trans hge0 h1)
    have c2 : ¬ ((x0 :: xs).getD ((x0 :: xs).length - 1) 0 < x) := by
      rw [getD_of_lt _ _ (by simp)]
      exact not_lt.mpr (le_of_lt (lt_of_lt_of_le h2 hlel))
    simp only [c1, c2, if_false]
    exact interpScan_between _ _ hlen hs i hi x h1 h2

end EqsigVerif.Interp
