import EqsigVerif.Model.CavDpFloat
import EqsigVerif.Lemmas.CavDpFloat
/-!
# Kernel-evaluated tables for `Props/C09CavDpPanels.lean` (generated text, one closed Boolean check per sampling rate)

`lenOK_<pps>`: the floating `np.arange` of each of the first 600 one-second windows has exactly `pps` elements;
`winOK_<pps>`: in each of the first `fullWindows pps` windows all `pps` elements pass the mask (positions `0 … pps−1`).
-/
set_option maxRecDepth 100000
namespace EqsigVerif.Model.CavDpFloat

/-- the sampling rates (samples per second) covered: `dt = fl(1/pps)` -/
def stdRates : List Nat := [1, 2, 4, 5, 8, 10, 16, 20, 25, 40, 50, 64, 80, 100, 128, 200, 250, 256, 400, 500, 512, 1000]

/-- number of windows for which every abscissa and the mask are evaluated -/
def fullWindows (pps : Nat) : Nat := max 2 (min 10 (2000 / pps))

/-- number of windows for which the length of the `arange` is evaluated (ten minutes of record) -/
def lenWindows : Nat := 600

theorem lenOK_1 : (List.range lenWindows).all (windowLenExact 1) = true := by decide +kernel
theorem winOK_1 : (List.range (fullWindows 1)).all (windowExact 1) = true := by decide +kernel
theorem lenOK_2 : (List.range lenWindows).all (windowLenExact 2) = true := by decide +kernel
theorem winOK_2 : (List.range (fullWindows 2)).all (windowExact 2) = true := by decide +kernel
theorem lenOK_4 : (List.range lenWindows).all (windowLenExact 4) = true := by decide +kernel
theorem winOK_4 : (List.range (fullWindows 4)).all (windowExact 4) = true := by decide +kernel
theorem lenOK_5 : (List.range lenWindows).all (windowLenExact 5) = true := by decide +kernel
theorem winOK_5 : (List.range (fullWindows 5)).all (windowExact 5) = true := by decide +kernel
theorem lenOK_8 : (List.range lenWindows).all (windowLenExact 8) = true := by decide +kernel
theorem winOK_8 : (List.range (fullWindows 8)).all (windowExact 8) = true := by decide +kernel
theorem lenOK_10 : (List.range lenWindows).all (windowLenExact 10) = true := by decide +kernel
theorem winOK_10 : (List.range (fullWindows 10)).all (windowExact 10) = true := by decide +kernel
theorem lenOK_16 : (List.range lenWindows).all (windowLenExact 16) = true := by decide +kernel
theorem winOK_16 : (List.range (fullWindows 16)).all (windowExact 16) = true := by decide +kernel
theorem lenOK_20 : (List.range lenWindows).all (windowLenExact 20) = true := by decide +kernel
theorem winOK_20 : (List.range (fullWindows 20)).all (windowExact 20) = true := by decide +kernel
theorem lenOK_25 : (List.range lenWindows).all (windowLenExact 25) = true := by decide +kernel
theorem winOK_25 : (List.range (fullWindows 25)).all (windowExact 25) = true := by decide +kernel
theorem lenOK_40 : (List.range lenWindows).all (windowLenExact 40) = true := by decide +kernel
theorem winOK_40 : (List.range (fullWindows 40)).all (windowExact 40) = true := by decide +kernel
theorem lenOK_50 : (List.range lenWindows).all (windowLenExact 50) = true := by decide +kernel
theorem winOK_50 : (List.range (fullWindows 50)).all (windowExact 50) = true := by decide +kernel
theorem lenOK_64 : (List.range lenWindows).all (windowLenExact 64) = true := by decide +kernel
theorem winOK_64 : (List.range (fullWindows 64)).all (windowExact 64) = true := by decide +kernel
theorem lenOK_80 : (List.range lenWindows).all (windowLenExact 80) = true := by decide +kernel
theorem winOK_80 : (List.range (fullWindows 80)).all (windowExact 80) = true := by decide +kernel
theorem lenOK_100 : (List.range lenWindows).all (windowLenExact 100) = true := by decide +kernel
theorem winOK_100 : (List.range (fullWindows 100)).all (windowExact 100) = true := by decide +kernel
theorem lenOK_128 : (List.range lenWindows).all (windowLenExact 128) = true := by decide +kernel
theorem winOK_128 : (List.range (fullWindows 128)).all (windowExact 128) = true := by decide +kernel
theorem lenOK_200 : (List.range lenWindows).all (windowLenExact 200) = true := by decide +kernel
theorem winOK_200 : (List.range (fullWindows 200)).all (windowExact 200) = true := by decide +kernel
theorem lenOK_250 : (List.range lenWindows).all (windowLenExact 250) = true := by decide +kernel
theorem winOK_250 : (List.range (fullWindows 250)).all (windowExact 250) = true := by decide +kernel
theorem lenOK_256 : (List.range lenWindows).all (windowLenExact 256) = true := by decide +kernel
theorem winOK_256 : (List.range (fullWindows 256)).all (windowExact 256) = true := by decide +kernel
theorem lenOK_400 : (List.range lenWindows).all (windowLenExact 400) = true := by decide +kernel
theorem winOK_400 : (List.range (fullWindows 400)).all (windowExact 400) = true := by decide +kernel
theorem lenOK_500 : (List.range lenWindows).all (windowLenExact 500) = true := by decide +kernel
theorem winOK_500 : (List.range (fullWindows 500)).all (windowExact 500) = true := by decide +kernel
theorem lenOK_512 : (List.range lenWindows).all (windowLenExact 512) = true := by decide +kernel
theorem winOK_512 : (List.range (fullWindows 512)).all (windowExact 512) = true := by decide +kernel
theorem lenOK_1000 : (List.range lenWindows).all (windowLenExact 1000) = true := by decide +kernel
theorem winOK_1000 : (List.range (fullWindows 1000)).all (windowExact 1000) = true := by decide +kernel

theorem ppsTable : ∀ pps ∈ stdRates, ppsOf (dtOf pps) = pps := by decide +kernel

end EqsigVerif.Model.CavDpFloat
