import EqsigVerif.Prelude.Np
import EqsigVerif.Lemmas.Np
import EqsigVerif.Model.Im
import EqsigVerif.Lemmas.Im.Series
import EqsigVerif.Lemmas.Im.Dur
import Mathlib.Tactic.Ring
import Mathlib.Tactic.FieldSimp
import Mathlib.Tactic.Linarith
import Mathlib.Tactic.Positivity
import Mathlib.Algebra.Order.Field.Basic
import Mathlib.Algebra.Order.Ring.Rat
import Mathlib.Algebra.Order.Floor.Ring
import Mathlib.Data.Rat.Floor
/-!
# Lemmas for C09.e: closed form of the `calc_cav_dp` model on the domain `dt = 1/pps`
-/
set_option linter.unusedSectionVars false
set_option linter.unusedVariables false
namespace EqsigVerif.Lemmas.Im
open EqsigVerif.Np EqsigVerif.Wire EqsigVerif.Model.Im

/-! ### small list facts -/

theorem whereIdxFrom_all_true {α : Type} (p : α → Bool) (s : Nat) (l : List α) (h : ∀ x ∈ l, p x = true) :
    whereIdxFrom p s l = List.range' s l.length := by
  induction l generalizing s with
  | nil => rfl
  | cons x xs ih =>
    simp only [whereIdxFrom, h x (by simp), if_true, List.length_cons, List.range'_succ]
    rw [ih (s+1) (fun y hy => h y (by simp [hy]))]

theorem whereIdx_all_true {α : Type} (p : α → Bool) (l : List α) (h : ∀ x ∈ l, p x = true) :
    whereIdx p l = List.range l.length := by
  rw [List.range_eq_range']; exact whereIdxFrom_all_true p 0 l h

theorem takeIdx_range {α : Type} [Inhabited α] (l : List α) (k : Nat) (hk : k ≤ l.length) :
    takeIdx l (List.range k) = l.take k := by
  apply List.ext_getElem
  · simp [takeIdx, hk]
  · intro i h1 h2
    simp only [takeIdx, List.length_map, List.length_range] at h1
    simp [takeIdx, List.getD_eq_getElem?_getD, List.getElem?_eq_getElem (show i < l.length by omega)]

theorem absL_absL (l : List ℚ) : absL (absL l) = absL l := by
  simp only [absL, List.map_map]
  apply List.map_congr_left
  intro x _; simp [Function.comp, absv_eq_abs]

theorem absL_take (l : List ℚ) (k : Nat) : absL (l.take k) = (absL l).take k := by
  simp [absL, List.map_take]

/-! ### trapezoid with abscissae on a uniform grid -/

theorem trapezoidXY_uniform (dt : ℚ) (x y : List ℚ) (hlen : x.length = y.length)
    (hx : ∀ (i : Nat) (h : i + 1 < x.length), x[i+1] - x[i] = dt) :
    trapezoidXY x y = trapz dt y := by
  induction y generalizing x with
  | nil => cases x <;> simp [trapezoidXY, trapz]
  | cons y0 ys ih =>
    cases x with
    | nil => simp at hlen
    | cons x0 xs =>
      cases ys with
      | nil =>
        have : xs = [] := by simpa using hlen
        subst this; simp [trapezoidXY, trapz]
      | cons y1 yr =>
        cases xs with
        | nil => simp at hlen
        | cons x1 xr =>
          have h0 := hx 0 (by simp)
          simp only [List.getElem_cons_zero, List.getElem_cons_succ] at h0
          simp only [trapezoidXY, trapz]
          rw [h0, ih (x1 :: xr) (by simpa using hlen)
            (fun i h => by have := hx (i+1) (by simpa using h); simpa using this)]

/-! ### the window -/

/-- `|acc_in_g[start : start+pps+1]|` -/
def winAbsAt (g : List ℚ) (pps start : Nat) : List ℚ := absL (slice g start (start + pps + 1))

/-- value added by the window starting at sample `start` (closed form for `dt = 1/pps`): the trapezoid sum
of the first `pps` samples of the window (`pps − 1` panels: `np.arange` excludes the end point) if some
sample of the `pps + 1` window samples reaches the gate, else `0` -/
def winValAt (g : List ℚ) (pps start : Nat) : ℚ :=
  if ∀ x ∈ winAbsAt g pps start, x < gate then 0
  else trapz (1 / (pps : ℚ)) ((winAbsAt g pps start).take pps)

theorem length_winAbsAt (g : List ℚ) (pps start : Nat) (h : start + pps + 1 ≤ g.length) :
    (winAbsAt g pps start).length = pps + 1 := by
  simp [winAbsAt, absL, slice]; omega

theorem arangeLen_unit (pps : Nat) (hp : 0 < pps) (x0 : ℚ) :
    arangeLen x0 (x0 + 1) (1 / (pps : ℚ)) = pps := by
  unfold arangeLen
  have hp' : (pps : ℚ) ≠ 0 := by exact_mod_cast hp.ne'
  have e : (x0 + 1 - x0) / (1 / (pps : ℚ)) = ((pps : ℤ) : ℚ) := by
    field_simp; push_cast; ring
  rw [e, Rat.ceil_intCast]
  simp

theorem maxFrom_sub_gate (x : ℚ) (xs : List ℚ) (c : ℚ) :
    maxFrom x xs - c < 0 ↔ ∀ y ∈ x :: xs, y < c := by
  obtain ⟨h0, h1⟩ := le_maxFrom x xs
  constructor
  · intro h y hy
    have hm : maxFrom x xs < c := by linarith
    rcases List.mem_cons.mp hy with rfl | hy'
    · exact lt_of_le_of_lt h0 hm
    · exact lt_of_le_of_lt (h1 y hy') hm
  · intro h
    have : maxFrom x xs < c := by
      rcases maxFrom_mem x xs with hm | hm
      · rw [hm]; exact h x (by simp)
      · exact h _ (List.mem_cons_of_mem _ hm)
    linarith

/-- closed form of one pass of the loop body of `calc_cav_dp` for `dt = 1/pps` -/
theorem cavDpWindow_eq (g : List ℚ) (pps : Nat) (hp : 0 < pps) (start : Nat)
    (hlen : start + pps + 1 ≤ g.length) :
    cavDpWindow g pps (1 / (pps : ℚ)) start = .ok (winValAt g pps start) := by
  have hp' : (0 : ℚ) < (pps : ℚ) := by exact_mod_cast hp
  have hdt : (0 : ℚ) < 1 / (pps : ℚ) := by positivity
  have hwl := length_winAbsAt g pps start hlen
  -- the abscissae
  have hgrid : arangeQ ((start : ℚ) * (1 / (pps : ℚ))) ((start : ℚ) * (1 / (pps : ℚ)) + 1) (1 / (pps : ℚ)) =
      (List.range pps).map (fun (j : Nat) => (start : ℚ) * (1 / (pps : ℚ)) + (j : ℚ) * (1 / (pps : ℚ))) := by
    unfold arangeQ; rw [arangeLen_unit pps hp]
  -- the mask keeps every abscissa
  have hidx : whereIdx (fun t => decide ((start : ℚ) * (1 / (pps : ℚ)) ≤ t) &&
        decide (t ≤ ((start + pps : Nat) : ℚ) * (1 / (pps : ℚ))))
      ((List.range pps).map (fun (j : Nat) => (start : ℚ) * (1 / (pps : ℚ)) + (j : ℚ) * (1 / (pps : ℚ)))) =
      List.range pps := by
    rw [whereIdx_all_true]
    · simp
    · intro t ht
      obtain ⟨j, hj, rfl⟩ := List.mem_map.mp ht
      have hj' : j < pps := List.mem_range.mp hj
      have h1 : (0 : ℚ) ≤ (j : ℚ) * (1 / (pps : ℚ)) := by positivity
      have h2 : (j : ℚ) * (1 / (pps : ℚ)) ≤ (pps : ℚ) * (1 / (pps : ℚ)) :=
        mul_le_mul_of_nonneg_right (by exact_mod_cast hj'.le) hdt.le
      simp only [Bool.and_eq_true, decide_eq_true_eq]
      constructor
      · linarith
      · push_cast; linarith
  unfold cavDpWindow
  simp only [hgrid, hidx]
  have hall : (List.range pps).all (fun x => decide (x < (absL (slice g start (start + pps + 1))).length)) = true := by
    rw [List.all_eq_true]
    intro i hi
    have : i < pps := List.mem_range.mp hi
    have hl : (absL (slice g start (start + pps + 1))).length = pps + 1 := hwl
    simp [hl]; omega
  rw [if_pos hall]
  -- x_int, y_int
  have hx : takeIdx ((List.range pps).map (fun (j : Nat) => (start : ℚ) * (1 / (pps : ℚ)) + (j : ℚ) * (1 / (pps : ℚ))))
      (List.range pps) =
      (List.range pps).map (fun (j : Nat) => (start : ℚ) * (1 / (pps : ℚ)) + (j : ℚ) * (1 / (pps : ℚ))) := by
    rw [takeIdx_range _ pps (by simp)]; simp
  have hy : absL (takeIdx (absL (slice g start (start + pps + 1))) (List.range pps)) =
      (winAbsAt g pps start).take pps := by
    rw [takeIdx_range _ pps (by rw [show (absL (slice g start (start + pps + 1))).length = pps + 1 from hwl]; omega)]
    rw [absL_take, absL_absL]; rfl
  rw [hx, hy]
  have htr : trapezoidXY
      ((List.range pps).map (fun (j : Nat) => (start : ℚ) * (1 / (pps : ℚ)) + (j : ℚ) * (1 / (pps : ℚ))))
      ((winAbsAt g pps start).take pps) = trapz (1 / (pps : ℚ)) ((winAbsAt g pps start).take pps) := by
    refine trapezoidXY_uniform _ _ _ (by simp [hwl]) ?_
    intro i h
    simp only [List.getElem_map, List.getElem_range]
    push_cast; ring
  rw [htr]
  -- the gate
  have hne : absL (slice g start (start + pps + 1)) ≠ [] := by
    intro h0
    have : (absL (slice g start (start + pps + 1))).length = pps + 1 := hwl
    rw [h0] at this; simp at this
  cases hw : absL (slice g start (start + pps + 1)) with
  | nil => exact absurd hw hne
  | cons x xs =>
    simp only [maxL?]
    have hiff := maxFrom_sub_gate x xs gate
    unfold winValAt
    have hw' : winAbsAt g pps start = x :: xs := hw
    rw [hw']
    by_cases hg : ∀ y ∈ x :: xs, y < gate
    · rw [if_pos (hiff.mpr hg), if_pos hg]; simp
    · rw [if_neg (fun h => hg (hiff.mp h)), if_neg hg]; simp

/-! ### the loop -/

/-- the values added by windows `w0, …, w0+cnt-1` -/
def winVals (g : List ℚ) (pps w0 cnt : Nat) : List ℚ :=
  (List.range' w0 cnt).map (fun w => winValAt g pps (w * pps))

theorem cavDpLoop_eq (g : List ℚ) (pps : Nat) (hp : 0 < pps) (rem w0 : Nat) (acc : ℚ)
    (h : (w0 + rem) * pps + 1 ≤ g.length) :
    cavDpLoop g pps (1 / (pps : ℚ)) rem (w0 * pps) acc = .ok (cumsumFrom acc (winVals g pps w0 rem)) := by
  induction rem generalizing w0 acc with
  | zero => rfl
  | succ r ih =>
    have e1 : (w0 + (r + 1)) * pps = w0 * pps + r * pps + pps := by ring
    have hw : w0 * pps + pps + 1 ≤ g.length := by rw [e1] at h; omega
    have e2 : w0 * pps + pps = (w0 + 1) * pps := by ring
    have h' : (w0 + 1 + r) * pps + 1 ≤ g.length := by
      have : (w0 + 1 + r) * pps = w0 * pps + r * pps + pps := by ring
      rw [this]; rw [e1] at h; exact h
    unfold cavDpLoop
    rw [cavDpWindow_eq g pps hp (w0 * pps) hw]
    simp only [e2]
    rw [ih (w0 + 1) _ h']
    simp [winVals, List.range'_succ, cumsumFrom]

/-- `total_seconds = int(time[-1])` for `time[-1] = (n-1)·dt`, `dt = 1/pps` -/
def totalSeconds (n pps : Nat) : Nat := (Rat.floor (((n - 1 : Nat) : ℚ) * (1 / (pps : ℚ)))).toNat

theorem totalSeconds_le (n pps : Nat) (hp : 0 < pps) :
    ((totalSeconds n pps : Nat) : ℚ) ≤ ((n - 1 : Nat) : ℚ) * (1 / (pps : ℚ)) ∧
    totalSeconds n pps * pps ≤ n - 1 := by
  have hp' : (0 : ℚ) < (pps : ℚ) := by exact_mod_cast hp
  set x : ℚ := ((n - 1 : Nat) : ℚ) * (1 / (pps : ℚ)) with hx
  have hx0 : 0 ≤ x := by positivity
  have hfl : Rat.floor x = ⌊x⌋ := rfl
  have h0 : 0 ≤ ⌊x⌋ := Int.floor_nonneg.mpr hx0
  have hT : ((totalSeconds n pps : Nat) : ℤ) = ⌊x⌋ := by
    unfold totalSeconds; rw [← hx, hfl]; exact Int.toNat_of_nonneg h0
  have h1 : ((totalSeconds n pps : Nat) : ℚ) ≤ x := by
    have : (((totalSeconds n pps : Nat) : ℤ) : ℚ) = ((⌊x⌋ : ℤ) : ℚ) := by rw [hT]
    have h2 : ((⌊x⌋ : ℤ) : ℚ) ≤ x := Int.floor_le x
    push_cast at this
    linarith
  refine ⟨h1, ?_⟩
  have h3 : ((totalSeconds n pps : Nat) : ℚ) * (pps : ℚ) ≤ ((n - 1 : Nat) : ℚ) := by
    have := mul_le_mul_of_nonneg_right h1 hp'.le
    rw [hx] at this
    have e : ((n - 1 : Nat) : ℚ) * (1 / (pps : ℚ)) * (pps : ℚ) = ((n - 1 : Nat) : ℚ) := by
      field_simp
    rw [e] at this; exact this
  exact_mod_cast h3

/-- the table handed to `np.interp`: running sum of the window values -/
def cavDpSeries (a : List ℚ) (pps : Nat) : List ℚ :=
  cumsum (winVals (a.map (· / gAcc)) pps 0 (totalSeconds a.length pps))

theorem length_cavDpSeries (a : List ℚ) (pps : Nat) :
    (cavDpSeries a pps).length = totalSeconds a.length pps := by
  simp [cavDpSeries, winVals]

/-- closed form of `calc_cav_dp` on the domain `dt = 1/pps`, at least one full second -/
theorem cavDp_eq (a : List ℚ) (pps : Nat) (hp : 0 < pps) (hT : 0 < totalSeconds a.length pps) :
    cavDp a pps = .ok ((List.range a.length).map
      (fun (i : Nat) => interpUnit (cavDpSeries a pps) ((i : ℚ) * (1 / (pps : ℚ))))) := by
  unfold cavDp
  rw [if_neg (by omega)]
  cases a with
  | nil =>
    exfalso
    have h2 := (totalSeconds_le ([] : List ℚ).length pps hp).2
    simp only [List.length_nil, Nat.zero_sub, Nat.le_zero, Nat.mul_eq_zero] at h2
    simp only [List.length_nil] at hT
    omega
  | cons x xs =>
    simp only []
    have hle := (totalSeconds_le (x :: xs).length pps hp).2
    have hlen : (0 + totalSeconds (x :: xs).length pps) * pps + 1 ≤ ((x :: xs).map (· / gAcc)).length := by
      simp only [List.length_map, zero_add]
      have : 0 < (x :: xs).length := by simp
      omega
    have hloop := cavDpLoop_eq ((x :: xs).map (· / gAcc)) pps hp (totalSeconds (x :: xs).length pps) 0 0 hlen
    rw [Nat.zero_mul] at hloop
    have hts : (Rat.floor ((((x :: xs).length - 1 : Nat) : ℚ) * (1 / (pps : ℚ)))).toNat =
        totalSeconds (x :: xs).length pps := rfl
    rw [hts, hloop]
    have hne : (cumsumFrom 0 (winVals ((x :: xs).map (· / gAcc)) pps 0 (totalSeconds (x :: xs).length pps))).isEmpty = false := by
      rw [List.isEmpty_eq_false_iff]
      intro h0
      have hl : (cumsumFrom 0 (winVals ((x :: xs).map (· / gAcc)) pps 0 (totalSeconds (x :: xs).length pps))).length
          = totalSeconds (x :: xs).length pps := by simp [winVals]
      rw [h0] at hl
      simp only [List.length_nil] at hl
      omega
    simp only [hne, Bool.false_eq_true, if_false]
    rfl

/-- fewer than one full second: `np.interp` gets an empty table (`ValueError`) -/
theorem cavDp_short (a : List ℚ) (pps : Nat) (hp : 0 < pps) (hne : a ≠ [])
    (hT : totalSeconds a.length pps = 0) : cavDp a pps = .error .ValueError := by
  unfold cavDp
  rw [if_neg (by omega)]
  cases a with
  | nil => exact absurd rfl hne
  | cons x xs =>
    simp only []
    have hts : (Rat.floor ((((x :: xs).length - 1 : Nat) : ℚ) * (1 / (pps : ℚ)))).toNat =
        totalSeconds (x :: xs).length pps := rfl
    rw [hts, hT]
    rfl

/-! ### `trapz`: sign, splitting, prefixes, homogeneity -/

theorem trapz_nonneg (dx : ℚ) (hdx : 0 ≤ dx) (l : List ℚ) (hl : ∀ x ∈ l, 0 ≤ x) : 0 ≤ trapz dx l := by
  induction l with
  | nil => simp [trapz]
  | cons x xs ih =>
    cases xs with
    | nil => simp [trapz]
    | cons y r =>
      simp only [trapz]
      have hx := hl x (by simp)
      have hy := hl y (by simp)
      have := ih (fun z hz => hl z (by simp [hz]))
      have : 0 ≤ dx * (y + x) / 2 := by positivity
      linarith

theorem trapz_split (dx : ℚ) (l : List ℚ) (k : Nat) (hk : k < l.length) :
    trapz dx l = trapz dx (l.take (k+1)) + trapz dx (l.drop k) := by
  induction k generalizing l with
  | zero =>
    cases l with
    | nil => simp at hk
    | cons x xs => simp [trapz]
  | succ j ih =>
    cases l with
    | nil => simp at hk
    | cons x xs =>
      cases xs with
      | nil => simp at hk
      | cons y r =>
        have hj : j < (y :: r).length := by simpa using hk
        have := ih (y :: r) hj
        simp only [List.take_succ_cons, List.drop_succ_cons, trapz] at this ⊢
        rw [this]; ring

theorem trapz_take_le (dx : ℚ) (hdx : 0 ≤ dx) (l : List ℚ) (hl : ∀ x ∈ l, 0 ≤ x) (k : Nat) :
    trapz dx (l.take k) ≤ trapz dx l := by
  cases k with
  | zero => simpa [trapz] using trapz_nonneg dx hdx l hl
  | succ j =>
    by_cases hj : j < l.length
    · rw [trapz_split dx l j hj]
      have := trapz_nonneg dx hdx (l.drop j) (fun x hx => hl x (List.mem_of_mem_drop hx))
      linarith
    · rw [List.take_of_length_le (by omega)]

theorem trapz_smul (dx c : ℚ) (l : List ℚ) : trapz dx (l.map (c * ·)) = c * trapz dx l := by
  induction l with
  | nil => simp [trapz]
  | cons x xs ih =>
    cases xs with
    | nil => simp [trapz]
    | cons y r =>
      simp only [List.map_cons, trapz] at ih ⊢
      rw [ih]; ring

/-! ### window values: sign and bound -/

theorem mem_winAbsAt_nonneg (g : List ℚ) (pps start : Nat) : ∀ x ∈ winAbsAt g pps start, 0 ≤ x :=
  mem_absL_nonneg _

theorem winAbsAt_eq (g : List ℚ) (pps start : Nat) :
    winAbsAt g pps start = ((absL g).drop start).take (pps + 1) := by
  unfold winAbsAt slice
  rw [List.drop_take, absL, absL, List.map_take, List.map_drop]
  congr 1; omega

theorem winValAt_nonneg (g : List ℚ) (pps start : Nat) : 0 ≤ winValAt g pps start := by
  unfold winValAt
  split
  · exact le_refl _
  · apply trapz_nonneg _ (by positivity)
    intro x hx
    exact mem_winAbsAt_nonneg g pps start x (List.mem_of_mem_take hx)

theorem winValAt_le (g : List ℚ) (pps start : Nat) :
    winValAt g pps start ≤ trapz (1 / (pps : ℚ)) ((winAbsAt g pps start).take pps) := by
  unfold winValAt
  split
  · apply trapz_nonneg _ (by positivity)
    intro x hx
    exact mem_winAbsAt_nonneg g pps start x (List.mem_of_mem_take hx)
  · exact le_refl _

theorem foldl_add_acc (acc : ℚ) (l : List ℚ) : l.foldl (· + ·) acc = acc + l.foldl (· + ·) 0 := by
  induction l generalizing acc with
  | nil => simp
  | cons x xs ih =>
    simp only [List.foldl_cons]
    rw [ih (acc + x), ih (0 + x)]; ring

theorem sum_cons (x : ℚ) (xs : List ℚ) : Np.sum (x :: xs) = x + Np.sum xs := by
  unfold Np.sum
  simp only [List.foldl_cons]
  rw [foldl_add_acc]; ring

theorem sum_nonneg (l : List ℚ) (h : ∀ x ∈ l, 0 ≤ x) : 0 ≤ Np.sum l := by
  induction l with
  | nil => simp [Np.sum]
  | cons x xs ih =>
    rw [sum_cons]
    have := ih (fun y hy => h y (by simp [hy]))
    have := h x (by simp)
    linarith

/-- qualifying windows are disjoint sets of panels: their integrals sum to at most the whole trapezoid sum -/
theorem sum_winVals_le (g : List ℚ) (pps : Nat) (hp : 0 < pps) (cnt w0 : Nat)
    (h : (w0 + cnt) * pps + 1 ≤ g.length) :
    Np.sum (winVals g pps w0 cnt) ≤ trapz (1 / (pps : ℚ)) ((absL g).drop (w0 * pps)) := by
  have hdt : (0 : ℚ) ≤ 1 / (pps : ℚ) := by positivity
  induction cnt generalizing w0 with
  | zero =>
    simp only [winVals, List.range'_zero, List.map_nil]
    have : Np.sum ([] : List ℚ) = 0 := rfl
    rw [this]
    exact trapz_nonneg _ hdt _ (fun x hx => mem_absL_nonneg g x (List.mem_of_mem_drop hx))
  | succ c ih =>
    have e1 : (w0 + (c + 1)) * pps = w0 * pps + c * pps + pps := by ring
    have h' : (w0 + 1 + c) * pps + 1 ≤ g.length := by
      have : (w0 + 1 + c) * pps = w0 * pps + c * pps + pps := by ring
      rw [this]; rw [e1] at h; exact h
    have hrec := ih (w0 + 1) h'
    have hcons : winVals g pps w0 (c + 1) = winValAt g pps (w0 * pps) :: winVals g pps (w0 + 1) c := by
      simp [winVals, List.range'_succ]
    rw [hcons, sum_cons]
    set L := (absL g).drop (w0 * pps) with hL
    have hLlen : pps < L.length := by
      have hglen : (absL g).length = g.length := by simp [absL]
      rw [hL, List.length_drop, hglen]
      rw [e1] at h; omega
    have hLnn : ∀ x ∈ L, 0 ≤ x := fun x hx => mem_absL_nonneg g x (List.mem_of_mem_drop hx)
    have hsplit := trapz_split (1 / (pps : ℚ)) L pps hLlen
    have hdrop : L.drop pps = (absL g).drop ((w0 + 1) * pps) := by
      rw [hL, List.drop_drop]; congr 1; ring
    have hwin : (winAbsAt g pps (w0 * pps)).take pps = (L.take (pps + 1)).take pps := by
      rw [winAbsAt_eq]
    have hpre : trapz (1 / (pps : ℚ)) ((L.take (pps + 1)).take pps) ≤ trapz (1 / (pps : ℚ)) (L.take (pps + 1)) :=
      trapz_take_le _ hdt _ (fun x hx => hLnn x (List.mem_of_mem_take hx)) pps
    have hw := winValAt_le g pps (w0 * pps)
    rw [hwin] at hw
    rw [hsplit, hdrop]
    linarith

/-! ### `np.interp` on the unit grid -/

theorem interpUnit_cases (fp : List ℚ) (hne : fp ≠ []) (x : ℚ) :
    interpUnit fp x ∈ fp ∨
    ∃ (j : Nat) (h : j + 1 < fp.length) (t : ℚ), 0 ≤ t ∧ t < 1 ∧ x = (j : ℚ) + t ∧
      interpUnit fp x = (1 - t) * fp[j] + t * fp[j+1] := by
  unfold interpUnit
  have hh : fp.headD 0 ∈ fp := by
    cases fp with
    | nil => exact absurd rfl hne
    | cons a r => simp
  have hlast : fp.getLastD 0 ∈ fp := by
    have : fp.getLastD 0 = fp.getLast hne := by
      rw [List.getLastD_eq_getLast?, List.getLast?_eq_some_getLast hne]; rfl
    rw [this]; exact List.getLast_mem hne
  by_cases h1 : x < 0
  · rw [if_pos h1]; exact Or.inl hh
  · rw [if_neg h1]
    by_cases h2 : ((fp.length - 1 : Nat) : ℚ) < x
    · rw [if_pos h2]; exact Or.inl hlast
    · rw [if_neg h2]
      simp only []
      by_cases h3 : (Rat.floor x).toNat + 1 < fp.length
      · rw [if_pos h3]
        right
        have hx0 : 0 ≤ x := not_lt.mp h1
        have hfl : Rat.floor x = ⌊x⌋ := rfl
        have hf0 : 0 ≤ ⌊x⌋ := Int.floor_nonneg.mpr hx0
        have hcast : (((Rat.floor x).toNat : Nat) : ℚ) = ((⌊x⌋ : ℤ) : ℚ) := by
          rw [hfl]
          have : (((⌊x⌋).toNat : Nat) : ℤ) = ⌊x⌋ := Int.toNat_of_nonneg hf0
          exact_mod_cast this
        refine ⟨(Rat.floor x).toNat, h3, x - ((Rat.floor x).toNat : ℚ), ?_, ?_, by ring, ?_⟩
        · rw [hcast]; have := Int.floor_le x; linarith
        · rw [hcast]; have := Int.lt_floor_add_one x; linarith
        · have e0 : fp.getD (Rat.floor x).toNat 0 = fp[(Rat.floor x).toNat]'(by omega) := by
            simp [List.getD_eq_getElem?_getD, List.getElem?_eq_getElem (show (Rat.floor x).toNat < fp.length by omega)]
          have e1 : fp.getD ((Rat.floor x).toNat + 1) 0 = fp[(Rat.floor x).toNat + 1] := by
            simp [List.getD_eq_getElem?_getD, List.getElem?_eq_getElem h3]
          rw [e0, e1]; ring
      · rw [if_neg h3]; exact Or.inl hlast

theorem interpUnit_nonneg (fp : List ℚ) (hne : fp ≠ []) (hfp : ∀ y ∈ fp, 0 ≤ y) (x : ℚ) :
    0 ≤ interpUnit fp x := by
  rcases interpUnit_cases fp hne x with h | ⟨j, hj, t, ht0, ht1, _, he⟩
  · exact hfp _ h
  · rw [he]
    have h0 := hfp fp[j] (List.getElem_mem _)
    have h1 := hfp fp[j+1] (List.getElem_mem _)
    have : 0 ≤ 1 - t := by linarith
    positivity

theorem interpUnit_const (fp : List ℚ) (hne : fp ≠ []) (c : ℚ) (hfp : ∀ y ∈ fp, y = c) (x : ℚ) :
    interpUnit fp x = c := by
  rcases interpUnit_cases fp hne x with h | ⟨j, hj, t, ht0, ht1, _, he⟩
  · exact hfp _ h
  · rw [he, hfp fp[j] (List.getElem_mem _), hfp fp[j+1] (List.getElem_mem _)]; ring

/-- beyond the last node the interpolant is clamped to the last table value -/
theorem interpUnit_right (fp : List ℚ) (x : ℚ) (hx0 : 0 ≤ x) (hx : ((fp.length - 1 : Nat) : ℚ) < x) :
    interpUnit fp x = fp.getLastD 0 := by
  unfold interpUnit
  rw [if_neg (not_lt.mpr hx0), if_pos hx]

theorem getLastD_eq_getLast (fp : List ℚ) (hne : fp ≠ []) : fp.getLastD 0 = fp.getLast hne := by
  rw [List.getLastD_eq_getLast?, List.getLast?_eq_some_getLast hne]; rfl

theorem floor_toNat_cast (x : ℚ) (hx0 : 0 ≤ x) : (((Rat.floor x).toNat : Nat) : ℚ) = ((⌊x⌋ : ℤ) : ℚ) := by
  have hfl : Rat.floor x = ⌊x⌋ := rfl
  have hf0 : 0 ≤ ⌊x⌋ := Int.floor_nonneg.mpr hx0
  rw [hfl]
  have : (((⌊x⌋).toNat : Nat) : ℤ) = ⌊x⌋ := Int.toNat_of_nonneg hf0
  exact_mod_cast this

/-- strictly inside the table the interpolant is the convex combination of the two neighbours -/
theorem interpUnit_interior (fp : List ℚ) (x : ℚ) (hx0 : 0 ≤ x) (hx : x < ((fp.length - 1 : Nat) : ℚ)) :
    ∃ (j : Nat) (h : j + 1 < fp.length) (t : ℚ), 0 ≤ t ∧ t < 1 ∧ x = (j : ℚ) + t ∧
      interpUnit fp x = (1 - t) * fp[j] + t * fp[j+1] := by
  have hcast := floor_toNat_cast x hx0
  have hle : (((Rat.floor x).toNat : Nat) : ℚ) ≤ x := by rw [hcast]; exact Int.floor_le x
  have hlt : x < (((Rat.floor x).toNat : Nat) : ℚ) + 1 := by rw [hcast]; exact Int.lt_floor_add_one x
  have h3 : (Rat.floor x).toNat + 1 < fp.length := by
    have : (((Rat.floor x).toNat : Nat) : ℚ) < ((fp.length - 1 : Nat) : ℚ) := lt_of_le_of_lt hle hx
    have : (Rat.floor x).toNat < fp.length - 1 := by exact_mod_cast this
    omega
  refine ⟨(Rat.floor x).toNat, h3, x - ((Rat.floor x).toNat : ℚ), by linarith, by linarith, by ring, ?_⟩
  unfold interpUnit
  rw [if_neg (not_lt.mpr hx0), if_neg (not_lt.mpr hx.le)]
  simp only []
  rw [if_pos h3]
  have e0 : fp.getD (Rat.floor x).toNat 0 = fp[(Rat.floor x).toNat]'(by omega) := by
    simp [List.getD_eq_getElem?_getD, List.getElem?_eq_getElem (show (Rat.floor x).toNat < fp.length by omega)]
  have e1 : fp.getD ((Rat.floor x).toNat + 1) 0 = fp[(Rat.floor x).toNat + 1] := by
    simp [List.getD_eq_getElem?_getD, List.getElem?_eq_getElem h3]
  rw [e0, e1]; ring

/-- at and beyond the last node the interpolant is the last table value -/
theorem interpUnit_ge_last (fp : List ℚ) (hne : fp ≠ []) (x : ℚ) (hx : ((fp.length - 1 : Nat) : ℚ) ≤ x) :
    interpUnit fp x = fp.getLast hne := by
  have hx0 : 0 ≤ x := le_trans (Nat.cast_nonneg _) hx
  rcases lt_or_eq_of_le hx with h | h
  · rw [interpUnit_right fp x hx0 h, getLastD_eq_getLast fp hne]
  · unfold interpUnit
    rw [if_neg (not_lt.mpr hx0), if_neg (not_lt.mpr (le_of_eq h.symm))]
    simp only []
    have hfl : (Rat.floor x).toNat = fp.length - 1 := by
      have : Rat.floor x = ⌊x⌋ := rfl
      rw [this, ← h, Int.floor_natCast]; simp
    rw [hfl, if_neg (by have := List.length_pos_iff.mpr hne; omega), getLastD_eq_getLast fp hne]

/-- `np.interp` of a non-decreasing table is non-decreasing (for arguments `≥ 0`) -/
theorem interpUnit_mono (fp : List ℚ) (hne : fp ≠ []) (hs : fp.Pairwise (· ≤ ·)) (x y : ℚ)
    (hx0 : 0 ≤ x) (hxy : x ≤ y) : interpUnit fp x ≤ interpUnit fp y := by
  have hsorted : ∀ (i j : Nat) (hi : i < fp.length) (hj : j < fp.length), i ≤ j → fp[i] ≤ fp[j] := by
    intro i j hi hj hij
    rcases Nat.lt_or_eq_of_le hij with h | h
    · exact (List.pairwise_iff_getElem.mp hs) i j hi hj h
    · subst h; exact le_refl _
  have hpos : 0 < fp.length := List.length_pos_iff.mpr hne
  have hlastidx : fp.getLast hne = fp[fp.length - 1]'(by omega) := by
    rw [List.getLast_eq_getElem]
  by_cases hy : ((fp.length - 1 : Nat) : ℚ) ≤ y
  · rw [interpUnit_ge_last fp hne y hy]
    by_cases hx : ((fp.length - 1 : Nat) : ℚ) ≤ x
    · rw [interpUnit_ge_last fp hne x hx]
    · obtain ⟨j, hj, t, ht0, ht1, _, he⟩ := interpUnit_interior fp x hx0 (not_le.mp hx)
      rw [he, hlastidx]
      have h1 := hsorted j (j+1) (by omega) hj (by omega)
      have h2 := hsorted (j+1) (fp.length - 1) hj (by omega) (by omega)
      nlinarith
  · have hy' := not_le.mp hy
    have hx' : x < ((fp.length - 1 : Nat) : ℚ) := lt_of_le_of_lt hxy hy'
    obtain ⟨j, hj, t, ht0, ht1, hxe, he⟩ := interpUnit_interior fp x hx0 hx'
    obtain ⟨k, hk, u, hu0, hu1, hye, he'⟩ := interpUnit_interior fp y (le_trans hx0 hxy) hy'
    rw [he, he']
    have hjk : j ≤ k := by
      have : (j : ℚ) < (k : ℚ) + 1 := by linarith
      have : j < k + 1 := by exact_mod_cast this
      omega
    rcases Nat.lt_or_eq_of_le hjk with hlt | heq
    · have h1 := hsorted j (j+1) (by omega) hj (by omega)
      have h2 := hsorted (j+1) k hj (by omega) (by omega)
      have h3 := hsorted k (k+1) (by omega) hk (by omega)
      nlinarith
    · subst heq
      have h1 := hsorted j (j+1) (by omega) hj (by omega)
      have htu : t ≤ u := by linarith
      nlinarith

/-! ### assembling the properties of `cavDp` -/

theorem totalSeconds_pos (n pps : Nat) (hp : 0 < pps) (h : pps + 1 ≤ n) : 0 < totalSeconds n pps := by
  have hp' : (0 : ℚ) < (pps : ℚ) := by exact_mod_cast hp
  unfold totalSeconds
  have hfl : Rat.floor (((n - 1 : Nat) : ℚ) * (1 / (pps : ℚ))) = ⌊((n - 1 : Nat) : ℚ) * (1 / (pps : ℚ))⌋ := rfl
  rw [hfl]
  have h1 : (1 : ℤ) ≤ ⌊((n - 1 : Nat) : ℚ) * (1 / (pps : ℚ))⌋ := by
    rw [Int.le_floor]
    have : (pps : ℚ) ≤ ((n - 1 : Nat) : ℚ) := by exact_mod_cast (show pps ≤ n - 1 by omega)
    rw [mul_one_div, le_div_iff₀ hp']
    push_cast; linarith
  omega

theorem winVals_nonneg (g : List ℚ) (pps w0 cnt : Nat) : ∀ x ∈ winVals g pps w0 cnt, 0 ≤ x := by
  intro x hx
  obtain ⟨w, _, rfl⟩ := List.mem_map.mp hx
  exact winValAt_nonneg g pps _

theorem cavDpSeries_nonneg (a : List ℚ) (pps : Nat) : ∀ x ∈ cavDpSeries a pps, 0 ≤ x :=
  cumsumFrom_ge 0 _ (winVals_nonneg _ _ _ _)

theorem cavDpSeries_pairwise (a : List ℚ) (pps : Nat) : (cavDpSeries a pps).Pairwise (· ≤ ·) :=
  cumsumFrom_pairwise 0 _ (winVals_nonneg _ _ _ _)

theorem cavDpSeries_ne_nil (a : List ℚ) (pps : Nat) (hT : 0 < totalSeconds a.length pps) :
    cavDpSeries a pps ≠ [] := by
  intro h
  have := length_cavDpSeries a pps
  rw [h] at this; simp at this; omega

theorem cavDpSeries_getLast (a : List ℚ) (pps : Nat) (hT : 0 < totalSeconds a.length pps) :
    (cavDpSeries a pps).getLast (cavDpSeries_ne_nil a pps hT) =
      Np.sum (winVals (a.map (· / gAcc)) pps 0 (totalSeconds a.length pps)) := by
  have hne : winVals (a.map (· / gAcc)) pps 0 (totalSeconds a.length pps) ≠ [] := by
    intro h
    have := congrArg List.length h
    simp [winVals] at this; omega
  have := cumsum_getLast _ hne
  unfold cavDpSeries
  rw [List.getLast?_eq_some_getLast (by simpa [cavDpSeries] using cavDpSeries_ne_nil a pps hT)] at this
  exact Option.some.inj this

/-- the output of `cavDp` on its domain -/
def cavDpOut (a : List ℚ) (pps : Nat) : List ℚ :=
  (List.range a.length).map (fun (i : Nat) => interpUnit (cavDpSeries a pps) ((i : ℚ) * (1 / (pps : ℚ))))

theorem cavDpOut_nonneg (a : List ℚ) (pps : Nat) (hT : 0 < totalSeconds a.length pps) :
    ∀ y ∈ cavDpOut a pps, 0 ≤ y := by
  intro y hy
  obtain ⟨i, _, rfl⟩ := List.mem_map.mp hy
  exact interpUnit_nonneg _ (cavDpSeries_ne_nil a pps hT) (cavDpSeries_nonneg a pps) _

theorem cavDpOut_pairwise (a : List ℚ) (pps : Nat) (hT : 0 < totalSeconds a.length pps) :
    (cavDpOut a pps).Pairwise (· ≤ ·) := by
  unfold cavDpOut
  rw [List.pairwise_map]
  have hr : (List.range a.length).Pairwise (· < ·) := List.pairwise_lt_range
  refine hr.imp ?_
  intro i j hij
  have hdt : (0 : ℚ) ≤ 1 / (pps : ℚ) := by positivity
  apply interpUnit_mono _ (cavDpSeries_ne_nil a pps hT) (cavDpSeries_pairwise a pps)
  · positivity
  · exact mul_le_mul_of_nonneg_right (by exact_mod_cast hij.le) hdt

theorem cavDpOut_getLast (a : List ℚ) (pps : Nat) (hp : 0 < pps) (hT : 0 < totalSeconds a.length pps) :
    (cavDpOut a pps).getLast? =
      some (Np.sum (winVals (a.map (· / gAcc)) pps 0 (totalSeconds a.length pps))) := by
  have hn : a.length ≠ 0 := by
    intro h0
    have h2 := (totalSeconds_le a.length pps hp).2
    rw [h0] at h2 hT
    simp only [Nat.zero_sub, Nat.le_zero, Nat.mul_eq_zero] at h2
    omega
  unfold cavDpOut
  rw [List.getLast?_map, List.getLast?_range, if_neg hn, Option.map_some]
  congr 1
  have hle := (totalSeconds_le a.length pps hp).1
  have hx : (((cavDpSeries a pps).length - 1 : Nat) : ℚ) ≤ ((a.length - 1 : Nat) : ℚ) * (1 / (pps : ℚ)) := by
    rw [length_cavDpSeries]
    have : ((totalSeconds a.length pps - 1 : Nat) : ℚ) ≤ ((totalSeconds a.length pps : Nat) : ℚ) := by
      exact_mod_cast Nat.sub_le _ _
    linarith
  rw [interpUnit_ge_last _ (cavDpSeries_ne_nil a pps hT) _ hx, cavDpSeries_getLast a pps hT]

theorem absL_div_gAcc (a : List ℚ) : absL (a.map (· / gAcc)) = (absL a).map ((1 / gAcc) * ·) := by
  have e : (fun x : ℚ => x / gAcc) = (fun x => (1 / gAcc) * x) := by funext x; ring
  rw [e, absL_smul]
  have : |1 / gAcc| = 1 / gAcc := abs_of_pos (by norm_num [gAcc])
  rw [this]

/-- final CAVdp `≤` final CAV `/ 9.81` -/
theorem sum_winVals_le_cav (a : List ℚ) (pps : Nat) (hp : 0 < pps) :
    Np.sum (winVals (a.map (· / gAcc)) pps 0 (totalSeconds a.length pps)) ≤
      trapz (1 / (pps : ℚ)) (absL a) / gAcc := by
  by_cases hn : a.length = 0
  · have : a = [] := List.eq_nil_of_length_eq_zero hn
    subst this
    have h2 := (totalSeconds_le ([] : List ℚ).length pps hp).2
    simp only [List.length_nil, Nat.zero_sub, Nat.le_zero, Nat.mul_eq_zero] at h2
    have hT : totalSeconds ([] : List ℚ).length pps = 0 := by
      simp only [List.length_nil]; omega
    rw [hT]
    simp [winVals, Np.sum, trapz, absL]
  · have h2 := (totalSeconds_le a.length pps hp).2
    have h := sum_winVals_le (a.map (· / gAcc)) pps hp (totalSeconds a.length pps) 0
      (by simp only [List.length_map, zero_add]; omega)
    rw [Nat.zero_mul, List.drop_zero, absL_div_gAcc, trapz_smul] at h
    calc _ ≤ 1 / gAcc * trapz (1 / (pps : ℚ)) (absL a) := h
      _ = trapz (1 / (pps : ℚ)) (absL a) / gAcc := by ring

/-- no window reaches the gate ⇒ every window value is `0` -/
theorem winVals_zero (g : List ℚ) (pps w0 cnt : Nat)
    (h : ∀ w, w0 ≤ w → w < w0 + cnt → ∀ x ∈ winAbsAt g pps (w * pps), x < gate) :
    ∀ v ∈ winVals g pps w0 cnt, v = 0 := by
  intro v hv
  obtain ⟨w, hw, rfl⟩ := List.mem_map.mp hv
  rw [List.mem_range'_1] at hw
  unfold winValAt
  rw [if_pos (h w hw.1 hw.2)]

theorem cumsumFrom_zero (acc : ℚ) (l : List ℚ) (h : ∀ v ∈ l, v = 0) : ∀ v ∈ cumsumFrom acc l, v = acc := by
  induction l generalizing acc with
  | nil => simp [cumsumFrom]
  | cons x xs ih =>
    intro v hv
    have hx : x = 0 := h x (by simp)
    subst hx
    simp only [cumsumFrom, add_zero, List.mem_cons] at hv
    rcases hv with rfl | hv
    · rfl
    · exact ih acc (fun z hz => h z (by simp [hz])) v hv

theorem cavDpOut_zero (a : List ℚ) (pps : Nat) (hT : 0 < totalSeconds a.length pps)
    (h : ∀ w, w < totalSeconds a.length pps →
      ∀ x ∈ winAbsAt (a.map (· / gAcc)) pps (w * pps), x < gate) :
    cavDpOut a pps = List.replicate a.length 0 := by
  have hz : ∀ v ∈ cavDpSeries a pps, v = 0 :=
    cumsumFrom_zero 0 _ (winVals_zero _ pps 0 _ (fun w _ hw => h w (by omega)))
  unfold cavDpOut
  rw [List.eq_replicate_iff]
  refine ⟨by simp, ?_⟩
  intro y hy
  obtain ⟨i, _, rfl⟩ := List.mem_map.mp hy
  exact interpUnit_const _ (cavDpSeries_ne_nil a pps hT) 0 hz _

theorem mem_winAbsAt (g : List ℚ) (pps start : Nat) (x : ℚ) (hx : x ∈ winAbsAt g pps start) :
    ∃ y ∈ g, x = |y| := by
  unfold winAbsAt absL slice at hx
  obtain ⟨y, hy, rfl⟩ := List.mem_map.mp hx
  exact ⟨y, List.mem_of_mem_take (List.mem_of_mem_drop hy), absv_eq_abs y⟩

end EqsigVerif.Lemmas.Im
