import EqsigVerif.Model.Im
import Mathlib.Analysis.SpecialFunctions.Trigonometric.Basic
/-! the real constant of `_raw_calc_arias_intensity` -/
namespace EqsigVerif.Lemmas.Im

/-- `np.pi / (2 * 9.81)` as a real number -/
noncomputable def kArias : ℝ := Real.pi / (2 * 9.81)

theorem kArias_pos : 0 < kArias := by unfold kArias; positivity

end EqsigVerif.Lemmas.Im
