import EqsigVerif.Lemmas.Im.Dur
/-!
# The Arias (trapezoid) series of a zero-prefixed record with `a[0] ≠ 0` (finding F10-1, exact relation)

`ariasCore dt (0ᵏ ++ a) = 0ᵏ ++ (ariasCore dt a + c)` for `k ≥ 1`, `c = dt·a[0]²/2`: the panel from the last prepended
zero to `a[0]` adds the constant `c` to every original cumulative value.
-/
set_option linter.unusedSectionVars false
set_option linter.unusedVariables false
namespace EqsigVerif.Lemmas.Im
open EqsigVerif.Np EqsigVerif.Wire EqsigVerif.Model.Im

theorem cumtrapzFrom_add_const (dx acc prev c : ℚ) (l : List ℚ) :
    cumtrapzFrom dx (acc + c) prev l = (cumtrapzFrom dx acc prev l).map (· + c) := by
  induction l generalizing acc prev with
  | nil => rfl
  | cons y ys ih =>
    simp only [cumtrapzFrom, List.map_cons]
    have e : acc + c + dx * (y + prev) / 2 = acc + dx * (y + prev) / 2 + c := by ring
    rw [e, ih]

/-- the extra panel: one prepended zero adds `c = dt·a₀²/2` to every cumulative value of the record -/
theorem ariasCore_zero_cons (dt a0 : ℚ) (rest : List ℚ) :
    ariasCore dt (0 :: a0 :: rest) = 0 :: (ariasCore dt (a0 :: rest)).map (· + dt * (a0 * a0) / 2) := by
  simp only [ariasCore, Np.sq, List.map_cons, cumtrapz, cumtrapzFrom]
  have e1 : (0 : ℚ) + dt * (a0 * a0 + 0 * 0) / 2 = 0 + dt * (a0 * a0) / 2 := by ring
  rw [e1, cumtrapzFrom_add_const]

/-- `k ≥ 1` prepended zeros: the zero prefix, then the original cumulative series raised by the extra panel -/
theorem ariasCore_zero_prefix_general (dt : ℚ) (k : Nat) (a0 : ℚ) (rest : List ℚ) :
    ariasCore dt (List.replicate (k + 1) 0 ++ a0 :: rest)
      = List.replicate (k + 1) 0 ++ (ariasCore dt (a0 :: rest)).map (· + dt * (a0 * a0) / 2) := by
  have e : List.replicate (k + 1) (0 : ℚ) ++ a0 :: rest = List.replicate k 0 ++ (0 :: a0 :: rest) := by
    rw [List.replicate_succ']; simp
  rw [e, ariasCore_zero_prefix dt k (0 :: a0 :: rest) rfl, ariasCore_zero_cons]
  rw [List.replicate_succ']; simp

/-- sample `j` of the cumulative series `I`, RAISED by `c`, lies strictly between the fractions of the raised total:
`s·(tot + c) < I[j] + c < e·(tot + c)` -/
def RaisedBetween (I : List ℚ) (s e tot c : ℚ) (j : Nat) : Prop :=
  ∃ h : j < I.length, s * (tot + c) < I[j] + c ∧ I[j] + c < e * (tot + c)

theorem between_map_add (I : List ℚ) (s e tot c : ℚ) (j : Nat) :
    Between (I.map (· + c)) s e (tot + c) j ↔ RaisedBetween I s e tot c j := by
  unfold Between RaisedBetween
  constructor
  · rintro ⟨h, h1, h2⟩
    have h' : j < I.length := by simpa using h
    simp only [List.getElem_map] at h1 h2
    exact ⟨h', h1, h2⟩
  · rintro ⟨h, h1, h2⟩
    refine ⟨by simpa using h, ?_, ?_⟩
    · simp only [List.getElem_map]; exact h1
    · simp only [List.getElem_map]; exact h2

end EqsigVerif.Lemmas.Im
