import EqsigVerif.Prelude.Np
import EqsigVerif.Lemmas.Np
import EqsigVerif.Model.Displacements
import EqsigVerif.Model.Im
import Mathlib.Tactic.Ring
import Mathlib.Tactic.FieldSimp
import Mathlib.Tactic.Linarith
import Mathlib.Algebra.Order.Field.Basic
/-!
# Lemmas for C08: increment characterisations of `cumtrapz` / `cumsum`, closed forms, `calc_peak`
-/
set_option linter.unusedSectionVars false
set_option linter.unusedVariables false
namespace EqsigVerif.Lemmas.Im
open EqsigVerif.Np EqsigVerif.Model.Displacements EqsigVerif.Model.Im

section Field
variable {α : Type} [Field α]

/-- `out` is a cumulative trapezoid integral of `y` with step `dt`: same length, zero start, and
`out[i+1] - out[i] = dt*(y[i+1]+y[i])/2` at every index. -/
def TrapIncr (dt : α) (y out : List α) : Prop :=
  ∃ hlen : out.length = y.length,
    (∀ h0 : 0 < y.length, out[0]'(by omega) = 0) ∧
    ∀ (i : Nat) (h : i + 1 < y.length),
      out[i+1]'(by omega) - out[i]'(by omega) = dt * (y[i+1] + y[i]) / 2

/-- `out` is the rectangle-rule running sum of `y` started at zero with a one-sample delay:
`out[0] = 0`, `out[i+1] - out[i] = dt*y[i]` (velocity of the `trap=False` branch). -/
def RectIncrDelayed (dt : α) (y out : List α) : Prop :=
  ∃ hlen : out.length = y.length,
    (∀ h0 : 0 < y.length, out[0]'(by omega) = 0) ∧
    ∀ (i : Nat) (h : i + 1 < y.length), out[i+1]'(by omega) - out[i]'(by omega) = dt * y[i]

/-- `out[0] = dt*y[0]`, `out[i+1] - out[i] = dt*y[i+1]` (displacement of the `trap=False` branch) -/
def RectIncr (dt : α) (y out : List α) : Prop :=
  ∃ hlen : out.length = y.length,
    (∀ h0 : 0 < y.length, out[0]'(by omega) = dt * y[0]) ∧
    ∀ (i : Nat) (h : i + 1 < y.length), out[i+1]'(by omega) - out[i]'(by omega) = dt * y[i+1]

/-- two lists of equal length with the same first element and the same successive differences are equal -/
theorem eq_of_head_of_incr (u w : List α) (hlen : u.length = w.length)
    (h0 : ∀ h : 0 < u.length, u[0] = w[0]'(by omega))
    (hs : ∀ (i : Nat) (h : i + 1 < u.length),
      u[i+1] - u[i] = w[i+1]'(by omega) - w[i]'(by omega)) : u = w := by
  apply List.ext_getElem hlen
  intro i h1 h2
  induction i with
  | zero => exact h0 h1
  | succ j ih =>
    have hj := ih (by omega) (by omega)
    have := hs j h1
    rw [hj] at this
    exact sub_left_inj.mp this

theorem trapIncr_cumtrapz (dt : α) (y : List α) : TrapIncr dt y (cumtrapz dt y) := by
  refine ⟨length_cumtrapz dt y, ?_, ?_⟩
  · intro h0; exact cumtrapz_getElem_zero dt y h0
  · intro i h
    rw [cumtrapz_succ dt y i h]; ring

/-- C08.b both directions: the increment law with zero start characterises `cumulative_trapezoid` -/
theorem trapIncr_iff (dt : α) (y out : List α) : TrapIncr dt y out ↔ out = cumtrapz dt y := by
  constructor
  · rintro ⟨hlen, h0, hs⟩
    obtain ⟨hlen', h0', hs'⟩ := trapIncr_cumtrapz dt y
    apply eq_of_head_of_incr _ _ (by rw [hlen, hlen'])
    · intro h; rw [h0 (by omega), h0' (by omega)]
    · intro i h; rw [hs i (by omega), hs' i (by omega)]
  · rintro rfl; exact trapIncr_cumtrapz dt y

/-! ### `cumsum` increments -/

theorem cumsum_getElem_zero (l : List α) (h : 0 < l.length) :
    (cumsum l)[0]'(by simpa using h) = l[0] := by
  cases l with
  | nil => simp at h
  | cons x xs => simp [cumsum, cumsumFrom]

theorem cumsum_succ (l : List α) (i : Nat) (h : i + 1 < l.length) :
    (cumsum l)[i+1]'(by simpa using h) = (cumsum l)[i]'(by simp; omega) + l[i+1] := by
  unfold cumsum
  rw [cumsumFrom_getElem 0 l (i+1) h]
  simp

/-! ### the `trap=False` branch -/

theorem length_rectVFull (a : List α) (dt : α) : (rectVFull a dt).length = a.length + 1 := by
  simp [rectVFull]

theorem rectVFull_getElem_zero (a : List α) (dt : α) :
    (rectVFull a dt)[0]'(by rw [length_rectVFull]; omega) = 0 := by
  simp [rectVFull, cumsum, cumsumFrom]

theorem rectVFull_succ (a : List α) (dt : α) (i : Nat) (h : i < a.length) :
    (rectVFull a dt)[i+1]'(by rw [length_rectVFull]; omega) =
      (rectVFull a dt)[i]'(by rw [length_rectVFull]; omega) + a[i] * dt := by
  unfold rectVFull
  rw [cumsum_succ _ i (by simp; omega)]
  simp

theorem rect_velocity (a : List α) (dt : α) : RectIncrDelayed dt a (veloDispRect a dt).1 := by
  have hl : (veloDispRect a dt).1.length = a.length := by simp [veloDispRect, length_rectVFull]
  refine ⟨hl, ?_, ?_⟩
  · intro h0
    simp only [veloDispRect, List.getElem_dropLast]
    exact rectVFull_getElem_zero a dt
  · intro i h
    simp only [veloDispRect, List.getElem_dropLast]
    rw [rectVFull_succ a dt i (by omega)]; ring

theorem rect_displacement (a : List α) (dt : α) :
    RectIncr dt (veloDispRect a dt).1 (veloDispRect a dt).2 := by
  have hl1 : (veloDispRect a dt).1.length = a.length := by simp [veloDispRect, length_rectVFull]
  have hl2 : (veloDispRect a dt).2.length = a.length := by simp [veloDispRect, length_rectVFull]
  refine ⟨by rw [hl1, hl2], ?_, ?_⟩
  · intro h0
    simp only [veloDispRect, List.getElem_dropLast]
    rw [cumsum_getElem_zero _ (by simp [length_rectVFull])]
    simp [mul_comm]
  · intro i h
    simp only [veloDispRect, List.getElem_dropLast]
    rw [cumsum_succ _ i (by simp [length_rectVFull]; omega)]
    simp [mul_comm]

theorem rectIncrDelayed_unique (dt : α) (y u w : List α)
    (hu : RectIncrDelayed dt y u) (hw : RectIncrDelayed dt y w) : u = w := by
  obtain ⟨hlen, h0, hs⟩ := hu
  obtain ⟨hlen', h0', hs'⟩ := hw
  apply eq_of_head_of_incr _ _ (by rw [hlen, hlen'])
  · intro h; rw [h0 (by omega), h0' (by omega)]
  · intro i h; rw [hs i (by omega), hs' i (by omega)]

theorem rectIncr_unique (dt : α) (y u w : List α)
    (hu : RectIncr dt y u) (hw : RectIncr dt y w) : u = w := by
  obtain ⟨hlen, h0, hs⟩ := hu
  obtain ⟨hlen', h0', hs'⟩ := hw
  apply eq_of_head_of_incr _ _ (by rw [hlen, hlen'])
  · intro h; rw [h0 (by omega), h0' (by omega)]
  · intro i h; rw [hs i (by omega), hs' i (by omega)]

/-! ### linearity of the increment laws (used for the `trap=False` branch) -/

theorem rectIncrDelayed_add (dt : α) (y y' u u' : List α) (hy : y.length = y'.length)
    (hu : RectIncrDelayed dt y u) (hu' : RectIncrDelayed dt y' u') :
    RectIncrDelayed dt (List.zipWith (· + ·) y y') (List.zipWith (· + ·) u u') := by
  obtain ⟨hlen, h0, hs⟩ := hu
  obtain ⟨hlen', h0', hs'⟩ := hu'
  refine ⟨by simp [hlen, hlen'], ?_, ?_⟩
  · intro h
    have h1 : 0 < y.length := by simp at h; omega
    simp only [List.getElem_zipWith]
    rw [h0 h1, h0' (by omega)]; ring
  · intro i h
    have h1 : i + 1 < y.length := by simp at h; omega
    simp only [List.getElem_zipWith]
    have e1 := hs i h1
    have e2 := hs' i (by omega)
    rw [show u[i+1] + u'[i+1] - (u[i] + u'[i]) = (u[i+1] - u[i]) + (u'[i+1] - u'[i]) by ring, e1, e2]
    ring

theorem rectIncr_add (dt : α) (y y' u u' : List α) (hy : y.length = y'.length)
    (hu : RectIncr dt y u) (hu' : RectIncr dt y' u') :
    RectIncr dt (List.zipWith (· + ·) y y') (List.zipWith (· + ·) u u') := by
  obtain ⟨hlen, h0, hs⟩ := hu
  obtain ⟨hlen', h0', hs'⟩ := hu'
  refine ⟨by simp [hlen, hlen'], ?_, ?_⟩
  · intro h
    have h1 : 0 < y.length := by simp at h; omega
    simp only [List.getElem_zipWith]
    rw [h0 h1, h0' (by omega)]; ring
  · intro i h
    have h1 : i + 1 < y.length := by simp at h; omega
    simp only [List.getElem_zipWith]
    have e1 := hs i h1
    have e2 := hs' i (by omega)
    rw [show u[i+1] + u'[i+1] - (u[i] + u'[i]) = (u[i+1] - u[i]) + (u'[i+1] - u'[i]) by ring, e1, e2]
    ring

theorem rectIncrDelayed_smul (dt c : α) (y u : List α) (hu : RectIncrDelayed dt y u) :
    RectIncrDelayed dt (y.map (c * ·)) (u.map (c * ·)) := by
  obtain ⟨hlen, h0, hs⟩ := hu
  refine ⟨by simp [hlen], ?_, ?_⟩
  · intro h
    have h1 : 0 < y.length := by simpa using h
    simp only [List.getElem_map]
    rw [h0 h1]; ring
  · intro i h
    have h1 : i + 1 < y.length := by simpa using h
    simp only [List.getElem_map]
    rw [← mul_sub, hs i h1]; ring

theorem rectIncr_smul (dt c : α) (y u : List α) (hu : RectIncr dt y u) :
    RectIncr dt (y.map (c * ·)) (u.map (c * ·)) := by
  obtain ⟨hlen, h0, hs⟩ := hu
  refine ⟨by simp [hlen], ?_, ?_⟩
  · intro h
    have h1 : 0 < y.length := by simpa using h
    simp only [List.getElem_map]
    rw [h0 h1]; ring
  · intro i h
    have h1 : i + 1 < y.length := by simpa using h
    simp only [List.getElem_map]
    rw [← mul_sub, hs i h1]; ring

theorem veloDispRect_add (a b : List α) (dt : α) (h : a.length = b.length) :
    veloDispRect (List.zipWith (· + ·) a b) dt =
      (List.zipWith (· + ·) (veloDispRect a dt).1 (veloDispRect b dt).1,
       List.zipWith (· + ·) (veloDispRect a dt).2 (veloDispRect b dt).2) := by
  have hv : (veloDispRect (List.zipWith (· + ·) a b) dt).1 =
      List.zipWith (· + ·) (veloDispRect a dt).1 (veloDispRect b dt).1 :=
    rectIncrDelayed_unique dt _ _ _ (rect_velocity _ dt)
      (rectIncrDelayed_add dt a b _ _ h (rect_velocity a dt) (rect_velocity b dt))
  have hl : (veloDispRect a dt).1.length = (veloDispRect b dt).1.length := by
    obtain ⟨h1, _⟩ := rect_velocity a dt
    obtain ⟨h2, _⟩ := rect_velocity b dt
    omega
  have hd : (veloDispRect (List.zipWith (· + ·) a b) dt).2 =
      List.zipWith (· + ·) (veloDispRect a dt).2 (veloDispRect b dt).2 := by
    apply rectIncr_unique dt _ _ _ (rect_displacement _ dt)
    rw [hv]
    exact rectIncr_add dt _ _ _ _ hl (rect_displacement a dt) (rect_displacement b dt)
  exact Prod.ext hv hd

theorem veloDispRect_smul (a : List α) (dt c : α) :
    veloDispRect (a.map (c * ·)) dt =
      ((veloDispRect a dt).1.map (c * ·), (veloDispRect a dt).2.map (c * ·)) := by
  have hv : (veloDispRect (a.map (c * ·)) dt).1 = (veloDispRect a dt).1.map (c * ·) :=
    rectIncrDelayed_unique dt _ _ _ (rect_velocity _ dt)
      (rectIncrDelayed_smul dt c a _ (rect_velocity a dt))
  have hd : (veloDispRect (a.map (c * ·)) dt).2 = (veloDispRect a dt).2.map (c * ·) := by
    apply rectIncr_unique dt _ _ _ (rect_displacement _ dt)
    rw [hv]
    exact rectIncr_smul dt c _ _ (rect_displacement a dt)
  exact Prod.ext hv hd

theorem veloDispTrap_add (a b : List α) (dt : α) (h : a.length = b.length) :
    veloDispTrap (List.zipWith (· + ·) a b) dt =
      (List.zipWith (· + ·) (veloDispTrap a dt).1 (veloDispTrap b dt).1,
       List.zipWith (· + ·) (veloDispTrap a dt).2 (veloDispTrap b dt).2) := by
  simp only [veloDispTrap]
  rw [cumtrapz_add dt a b h, cumtrapz_add dt _ _ (by simp [h])]

theorem veloDispTrap_smul (a : List α) (dt c : α) :
    veloDispTrap (a.map (c * ·)) dt =
      ((veloDispTrap a dt).1.map (c * ·), (veloDispTrap a dt).2.map (c * ·)) := by
  simp only [veloDispTrap]
  rw [cumtrapz_smul, cumtrapz_smul]

end Field

/-! ### closed forms (exactness) -/
section Ordered
variable {α : Type} [Field α] [LinearOrder α] [IsStrictOrderedRing α]

/-- sample times `t_i = i*dt` -/
def times (n : Nat) (dt : α) : List α := (List.range n).map (fun (i : Nat) => (i : α) * dt)

/-- the list `f(t_0), …, f(t_{n-1})` -/
def sampled (n : Nat) (dt : α) (f : α → α) : List α := (times n dt).map f

theorem length_sampled (n : Nat) (dt : α) (f : α → α) : (sampled n dt f).length = n := by
  simp [sampled, times]

theorem sampled_getElem (n : Nat) (dt : α) (f : α → α) (i : Nat) (h : i < (sampled n dt f).length) :
    (sampled n dt f)[i] = f ((i : α) * dt) := by
  simp [sampled, times]

/-- a sampled function `F` is the cumulative trapezoid of a sampled `f` as soon as `F 0 = 0` and
`F (t+dt) - F t = dt*(f (t+dt) + f t)/2` on the grid -/
theorem cumtrapz_sampled (n : Nat) (dt : α) (f F : α → α) (h0 : F 0 = 0)
    (hs : ∀ i : Nat, F (((i : α) + 1) * dt) - F ((i : α) * dt)
        = dt * (f (((i : α) + 1) * dt) + f ((i : α) * dt)) / 2) :
    cumtrapz dt (sampled n dt f) = sampled n dt F := by
  symm
  rw [← trapIncr_iff]
  refine ⟨by simp [length_sampled], ?_, ?_⟩
  · intro h; rw [sampled_getElem]; simpa using h0
  · intro i h
    simp only [sampled_getElem]
    have := hs i
    push_cast
    exact this

/-! ### `calc_peak` -/

/-- `p` is the largest absolute value of the series `x` -/
def IsMaxAbs (x : List α) (p : α) : Prop := (∀ y ∈ x, |y| ≤ p) ∧ ∃ y ∈ x, |y| = p

theorem isMaxAbs_unique (x : List α) (p q : α) (hp : IsMaxAbs x p) (hq : IsMaxAbs x q) : p = q := by
  obtain ⟨hp1, y, hy, rfl⟩ := hp
  obtain ⟨hq1, z, hz, rfl⟩ := hq
  exact le_antisymm (hq1 y hy) (hp1 z hz)

theorem calcPeak_nil : calcPeak? ([] : List α) = none := rfl

theorem calcPeak_cons (x : List α) (xs : List α) (x0 : α) :
    calcPeak? (x0 :: xs) = some (max |minFrom x0 xs| (maxFrom x0 xs)) := by
  simp [calcPeak?, minL?, maxL?, max2_eq_max, absv_eq_abs]

theorem calcPeak_isMaxAbs (x : List α) (h : x ≠ []) : ∃ p, calcPeak? x = some p ∧ IsMaxAbs x p := by
  cases x with
  | nil => exact absurd rfl h
  | cons x0 xs =>
    refine ⟨_, calcPeak_cons xs xs x0, ?_, ?_⟩
    · intro y hy
      obtain ⟨hmn0, hmn⟩ := minFrom_le x0 xs
      obtain ⟨hmx0, hmx⟩ := le_maxFrom x0 xs
      have hlo : minFrom x0 xs ≤ y := by
        rcases List.mem_cons.mp hy with rfl | hy'
        · exact hmn0
        · exact hmn y hy'
      have hhi : y ≤ maxFrom x0 xs := by
        rcases List.mem_cons.mp hy with rfl | hy'
        · exact hmx0
        · exact hmx y hy'
      rw [abs_le]
      constructor
      · have : -|minFrom x0 xs| ≤ minFrom x0 xs := neg_abs_le _
        have h2 : |minFrom x0 xs| ≤ max |minFrom x0 xs| (maxFrom x0 xs) := le_max_left _ _
        linarith
      · exact le_trans hhi (le_max_right _ _)
    · rcases max_choice |minFrom x0 xs| (maxFrom x0 xs) with hc | hc
      · refine ⟨minFrom x0 xs, ?_, hc.symm⟩
        rcases minFrom_mem x0 xs with h' | h'
        · rw [h']; simp
        · exact List.mem_cons_of_mem _ h'
      · refine ⟨maxFrom x0 xs, ?_, ?_⟩
        · rcases maxFrom_mem x0 xs with h' | h'
          · rw [h']; simp
          · exact List.mem_cons_of_mem _ h'
        · rw [hc]
          have h1 : |minFrom x0 xs| ≤ maxFrom x0 xs := by
            have := le_max_left |minFrom x0 xs| (maxFrom x0 xs); rw [hc] at this; exact this
          exact abs_of_nonneg (le_trans (abs_nonneg _) h1)

theorem calcPeak_eq_some_iff (x : List α) (p : α) :
    calcPeak? x = some p ↔ x ≠ [] ∧ IsMaxAbs x p := by
  constructor
  · intro h
    have hne : x ≠ [] := by
      rintro rfl; rw [calcPeak_nil] at h; cases h
    obtain ⟨q, hq, hs⟩ := calcPeak_isMaxAbs x hne
    rw [hq] at h; cases h
    exact ⟨hne, hs⟩
  · rintro ⟨hne, hs⟩
    obtain ⟨q, hq, hs'⟩ := calcPeak_isMaxAbs x hne
    rw [hq, isMaxAbs_unique x q p hs' hs]

theorem isMaxAbs_smul (x : List α) (p c : α) (h : IsMaxAbs x p) :
    IsMaxAbs (x.map (c * ·)) (|c| * p) := by
  obtain ⟨h1, z, hz, rfl⟩ := h
  constructor
  · intro y hy
    obtain ⟨w, hw, rfl⟩ := List.mem_map.mp hy
    rw [abs_mul]
    exact mul_le_mul_of_nonneg_left (h1 w hw) (abs_nonneg c)
  · exact ⟨c * z, List.mem_map.mpr ⟨z, hz, rfl⟩, abs_mul c z⟩

theorem calcPeak_smul (x : List α) (c : α) :
    calcPeak? (x.map (c * ·)) = (calcPeak? x).map (|c| * ·) := by
  by_cases hne : x = []
  · subst hne; rfl
  · obtain ⟨p, hp, hs⟩ := calcPeak_isMaxAbs x hne
    rw [hp, Option.map_some, calcPeak_eq_some_iff]
    exact ⟨by simpa using hne, isMaxAbs_smul x p c hs⟩

theorem calcPeak_neg (x : List α) : calcPeak? (x.map (fun y => -y)) = calcPeak? x := by
  have h := calcPeak_smul x (-1)
  have e : (fun y : α => -1 * y) = (fun y => -y) := by funext y; ring
  simp only [e] at h
  rw [h]
  cases calcPeak? x <;> simp

end Ordered
end EqsigVerif.Lemmas.Im
