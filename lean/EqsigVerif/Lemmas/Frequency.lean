import EqsigVerif.Model.Frequency
import EqsigVerif.Lemmas.Cplx
import Mathlib.Algebra.Order.Field.Basic
import Mathlib.Algebra.Order.Ring.Rat
import Mathlib.Tactic.Ring
import Mathlib.Tactic.Linarith
/-!
# Lemmas for `Model/Frequency.lean`, C06 part (transform length, spectrum, grid, dominant period)
-/
set_option linter.unusedSectionVars false
set_option linter.unusedVariables false
namespace EqsigVerif.Model.Frequency
open EqsigVerif EqsigVerif.Cplx EqsigVerif.Wire Finset

/-- the real subfield as a (degenerate) instance of `CxLike`, for concrete examples over `ℚ` -/
@[reducible] def ratCxLike : CxLike ℚ ℚ :=
  { ofReal := id, conj := id, re := id, im := fun _ => 0, normSq := fun x => x * x }

/-! ### transform length -/

theorem le_two_pow_clog2 (n : ℕ) (hn : 1 ≤ n) : n ≤ 2 ^ clog2 n := by
  unfold clog2
  split
  · omega
  · have := @Nat.lt_log2_self (n - 1)
    omega

theorem clog2_le_of_le_two_pow (n e : ℕ) (hn : 1 ≤ n) (h : n ≤ 2 ^ e) : clog2 n ≤ e := by
  unfold clog2
  split
  · omega
  · have h1 : n - 1 ≠ 0 := by omega
    have : (n - 1).log2 < e := (Nat.log2_lt h1).mpr (by omega)
    omega

theorem two_pow_clog2_lt (n : ℕ) (hn : 1 ≤ n) : 2 ^ clog2 n < 2 * n := by
  unfold clog2
  split
  · simp; omega
  · have h1 : n - 1 ≠ 0 := by omega
    have := Nat.log2_self_le h1
    rw [pow_succ]
    omega

/-! ### argmax (first maximum) -/
section Argmax
variable {α : Type} [LinearOrder α]

theorem argmaxFrom_spec (bi : ℕ) (bv : α) (i : ℕ) (l : List α) :
    (Np.argmaxFrom bi bv i l = bi ∧ ∀ x ∈ l, x ≤ bv) ∨
    (∃ j v, l[j]? = some v ∧ Np.argmaxFrom bi bv i l = i + j ∧ bv < v ∧
      (∀ j' < j, ∀ w, l[j']? = some w → w < v) ∧ ∀ x ∈ l, x ≤ v) := by
  induction l generalizing bi bv i with
  | nil => left; simp [Np.argmaxFrom]
  | cons x xs ih =>
    by_cases hx : bv < x
    · simp only [Np.argmaxFrom, hx, if_true]
      right
      rcases ih i x (i + 1) with ⟨h1, h2⟩ | ⟨j, v, hj, hr, hv, hpre, hall⟩
      · refine ⟨0, x, by simp, by simpa using h1, hx, by omega, ?_⟩
        intro y hy
        rcases List.mem_cons.mp hy with rfl | hy
        · exact le_refl _
        · exact h2 y hy
      · refine ⟨j + 1, v, by simpa using hj, by rw [hr]; omega, lt_trans hx hv, ?_, ?_⟩
        · intro j' hj' w hw
          cases j' with
          | zero => simp at hw; rw [← hw]; exact hv
          | succ k => exact hpre k (by omega) w (by simpa using hw)
        · intro y hy
          rcases List.mem_cons.mp hy with rfl | hy
          · exact le_of_lt hv
          · exact hall y hy
    · simp only [Np.argmaxFrom, hx, if_false]
      rcases ih bi bv (i + 1) with ⟨h1, h2⟩ | ⟨j, v, hj, hr, hv, hpre, hall⟩
      · left
        refine ⟨h1, ?_⟩
        intro y hy
        rcases List.mem_cons.mp hy with rfl | hy
        · exact not_lt.mp hx
        · exact h2 y hy
      · right
        refine ⟨j + 1, v, by simpa using hj, by rw [hr]; omega, hv, ?_, ?_⟩
        · intro j' hj' w hw
          cases j' with
          | zero => simp at hw; rw [← hw]; exact lt_of_le_of_lt (not_lt.mp hx) hv
          | succ k => exact hpre k (by omega) w (by simpa using hw)
        · intro y hy
          rcases List.mem_cons.mp hy with rfl | hy
          · exact le_trans (not_lt.mp hx) (le_of_lt hv)
          · exact hall y hy

/-- `np.argmax`: the index of the FIRST maximum -/
theorem argmax_spec (l : List α) (hl : l ≠ []) :
    ∃ v, l[Np.argmax l]? = some v ∧ (∀ x ∈ l, x ≤ v) ∧
      ∀ j < Np.argmax l, ∀ w, l[j]? = some w → w < v := by
  cases l with
  | nil => exact absurd rfl hl
  | cons x xs =>
    simp only [Np.argmax]
    rcases argmaxFrom_spec 0 x 1 xs with ⟨h1, h2⟩ | ⟨j, v, hj, hr, hv, hpre, hall⟩
    · refine ⟨x, by simp [h1], ?_, by omega⟩
      intro y hy
      rcases List.mem_cons.mp hy with rfl | hy
      · exact le_refl _
      · exact h2 y hy
    · refine ⟨v, by rw [hr, Nat.add_comm]; simpa using hj, ?_, ?_⟩
      · intro y hy
        rcases List.mem_cons.mp hy with rfl | hy
        · exact le_of_lt hv
        · exact hall y hy
      · intro j' hj' w hw
        rw [hr] at hj'
        cases j' with
        | zero => simp at hw; rw [← hw]; exact hv
        | succ k => exact hpre k (by omega) w (by simpa using hw)

end Argmax

/-! ### spectrum and grid -/
section Core
variable {α β : Type} [Field α] [CommRing β] [CxLike α β]

@[simp] theorem length_fasOf (tw : ℕ → ℕ → β) (x : List β) (dt : α) (N : ℕ) :
    (fasOf tw x dt N).length = N / 2 := by
  simp [fasOf, points]; omega

@[simp] theorem length_freqsOf (dt : α) (N : ℕ) : (freqsOf dt N).length = N / 2 := by
  simp [freqsOf, points]

theorem fasOf_getElem (tw : ℕ → ℕ → β) (x : List β) (dt : α) (N k : ℕ) (hk : k < N / 2) :
    (fasOf tw x dt N)[k]'(by simpa using hk) =
      (∑ j ∈ range N, x.getD j 0 * tw N (j * k % N)) * CxLike.ofReal dt := by
  have hkN : k < N := by omega
  simp only [fasOf, List.getElem_map, List.getElem_take]
  rw [dft_getElem tw x N k hkN]

theorem freqsOf_getElem (dt : α) (N k : ℕ) (hk : k < N / 2) :
    (freqsOf dt N)[k]'(by simpa using hk) = (k : α) / ((N : α) * dt) := by
  simp [freqsOf]

theorem fasOf_add (tw : ℕ → ℕ → β) (x y : List β) (dt : α) (N : ℕ) (h : x.length = y.length) :
    fasOf tw (List.zipWith (· + ·) x y) dt N
      = List.zipWith (· + ·) (fasOf tw x dt N) (fasOf tw y dt N) := by
  apply List.ext_getElem (by simp)
  intro k h1 h2
  have hk : k < N / 2 := by simpa using h1
  rw [List.getElem_zipWith, fasOf_getElem _ _ _ _ _ hk, fasOf_getElem _ _ _ _ _ hk,
    fasOf_getElem _ _ _ _ _ hk, ← add_mul, ← Finset.sum_add_distrib]
  congr 1
  apply Finset.sum_congr rfl
  intro j _
  rw [getD_zipWith_add x y h, add_mul]

theorem fasOf_smul (tw : ℕ → ℕ → β) (c : β) (x : List β) (dt : α) (N : ℕ) :
    fasOf tw (x.map (c * ·)) dt N = (fasOf tw x dt N).map (c * ·) := by
  apply List.ext_getElem (by simp)
  intro k h1 h2
  have hk : k < N / 2 := by simpa using h1
  rw [List.getElem_map, fasOf_getElem _ _ _ _ _ hk, fasOf_getElem _ _ _ _ _ hk, ← mul_assoc,
    Finset.mul_sum]
  congr 1
  apply Finset.sum_congr rfl
  intro j _
  rw [getD_map_mul]; ring

theorem fasOf_append_zeros (tw : ℕ → ℕ → β) (x : List β) (dt : α) (N m : ℕ)
    (h : x.length + m ≤ N) : fasOf tw (x ++ List.replicate m 0) dt N = fasOf tw x dt N := by
  simp only [fasOf, dft_append_zeros tw x N m h]

end Core

end EqsigVerif.Model.Frequency
