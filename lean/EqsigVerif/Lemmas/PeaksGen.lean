import EqsigVerif.Prelude.NpP
import EqsigVerif.Prelude.NpE
import EqsigVerif.Lemmas.Peaks
import Mathlib.Tactic.NormNum
import Mathlib.Tactic.Ring
/-!
# Lemmas tying the code-shaped stages emitted by `tools/py2lean_x_peaks.py` to the list-recursive hand model `Model/Peaks.lean`

* the partial combinators of `Prelude/NpP.lean` return `.ok` of the total `Np` combinator on in-range arguments;
* `np.where(np.ediff1d(v, to_begin=v[0]) != 0)` is the index column of `runs` (`whereIdx_diffFrom`);
* `np.where(diff[1:] * diff[:-1] < 0)` is `turnIdx` (`whereIdx_zip_turnIdx`);
* `l[::2]`, `l[1::2]` are `evens`, `odds`.
-/
namespace EqsigVerif.Lemmas.PeaksGen
open EqsigVerif EqsigVerif.Wire EqsigVerif.Model.Peaks EqsigVerif.Lemmas.Peaks

/-! ### the partial combinators on in-range arguments -/

theorem takeE_ok {β : Type} [Inhabited β] (l : List β) (idx : List ℕ) (h : ∀ i ∈ idx, i < l.length) :
    NpP.takeE l idx = .ok (idx.map (fun i => l.getD i default)) := by
  unfold NpP.takeE
  rw [if_pos (by simpa [List.all_eq_true] using h)]
  rfl

theorem takeE_error {β : Type} [Inhabited β] (l : List β) (idx : List ℕ) (h : ∃ i ∈ idx, l.length ≤ i) :
    NpP.takeE l idx = .error .IndexError := by
  unfold NpP.takeE
  rw [if_neg]
  simp only [List.all_eq_true, decide_eq_true_eq, not_forall, not_lt]
  obtain ⟨i, hi, h⟩ := h
  exact ⟨i, hi, h⟩

theorem wrapIdx_ofNat (n i : ℕ) (h : i < n) : NpP.wrapIdx n (Int.ofNat i) = some i := by
  unfold NpP.wrapIdx
  simp [h]

theorem takeIE_ofNat {β : Type} (l : List β) (idx : List ℕ) (d : β) (h : ∀ i ∈ idx, i < l.length) :
    NpP.takeIE l (idx.map Int.ofNat) = .ok (idx.map (fun i => l.getD i d)) := by
  unfold NpP.takeIE
  induction idx with
  | nil => rfl
  | cons i is ih =>
    have hi : i < l.length := h i (by simp)
    have ih' := ih (fun j hj => h j (by simp [hj]))
    rw [List.map_cons, List.mapM_cons, wrapIdx_ofNat _ _ hi, ih']
    simp [hi, bind, Except.bind, pure, Except.pure]

theorem putCyc_eq_putIdx {β : Type} (all : List β) (base : List β) (idx : List ℕ) (vals : List β)
    (h : idx.length ≤ vals.length) : NpP.putCyc all base idx vals = Np.putIdx base idx vals := by
  induction idx generalizing base vals with
  | nil => cases vals <;> simp [NpP.putCyc, Np.putIdx]
  | cons i is ih =>
    cases vals with
    | nil => simp at h
    | cons v vs =>
      simp only [NpP.putCyc, Np.putIdx]
      exact ih _ _ (by simpa using h)

theorem putE_ok {β : Type} (base : List β) (idx : List ℕ) (vals : List β) (hl : idx.length ≤ vals.length)
    (h : ∀ i ∈ idx, i < base.length) : NpP.putE base idx vals = .ok (Np.putIdx base idx vals) := by
  unfold NpP.putE
  cases vals with
  | nil =>
    have : idx = [] := by simpa using hl
    subst this; rfl
  | cons v vs =>
    rw [if_neg (by simp), if_pos (by simpa [List.all_eq_true] using h), putCyc_eq_putIdx _ _ _ _ hl]

theorem mapM_wrapIdx_ofNat (n : ℕ) (idx : List ℕ) (h : ∀ i ∈ idx, i < n) :
    (idx.map Int.ofNat).mapM (fun i => NpP.wrapIdx n i) = some idx := by
  induction idx with
  | nil => rfl
  | cons i is ih =>
    rw [List.map_cons, List.mapM_cons, wrapIdx_ofNat _ _ (h i (by simp)), ih (fun j hj => h j (by simp [hj]))]
    rfl

theorem putIE_ofNat {β : Type} (base : List β) (idx : List ℕ) (vals : List β) (hl : idx.length ≤ vals.length)
    (h : ∀ i ∈ idx, i < base.length) : NpP.putIE base (idx.map Int.ofNat) vals = .ok (Np.putIdx base idx vals) := by
  unfold NpP.putIE
  cases vals with
  | nil =>
    have : idx = [] := by simpa using hl
    subst this; rfl
  | cons v vs =>
    rw [if_neg (by simp), mapM_wrapIdx_ofNat _ _ h]
    simp only
    rw [putCyc_eq_putIdx _ _ _ _ hl]

theorem getE_ok {β : Type} (l : List β) (i : ℕ) (d : β) (h : i < l.length) : NpE.getE l i = .ok (l.getD i d) := by
  unfold NpE.getE
  simp [h]

theorem getE_error {β : Type} (l : List β) (i : ℕ) (h : l.length ≤ i) : NpE.getE l i = .error .IndexError := by
  unfold NpE.getE
  simp [h]

/-! ### `l[::2]`, `l[1::2]` -/

theorem strideAux_two {β : Type} (l : List β) : NpP.strideAux 2 0 l = evens l ∧ NpP.strideAux 2 1 l = odds l := by
  induction l with
  | nil => exact ⟨rfl, rfl⟩
  | cons a t ih =>
    refine ⟨?_, ?_⟩
    · show a :: NpP.strideAux 2 1 t = evens (a :: t)
      rw [ih.2]
      cases t <;> rfl
    · show NpP.strideAux 2 0 t = odds (a :: t)
      rw [ih.1]; rfl

theorem sliceStep_evens {β : Type} (l : List β) : NpP.sliceStep l 0 2 = evens l := (strideAux_two l).1

theorem sliceStep_odds {β : Type} (l : List β) : NpP.sliceStep l 1 2 = odds l := by
  cases l with
  | nil => rfl
  | cons a t => exact (strideAux_two t).1

/-! ### stage 1: `np.where(np.ediff1d(values, to_begin=values[0]) != 0)[0]` and `runs` -/

theorem whereIdx_diffFrom (prev : ℚ) (i : ℕ) (xs : List ℚ) :
    Np.whereIdxFrom (fun x => decide (x ≠ 0)) i (Np.diffFrom prev xs) = (runsAux prev i xs).map (·.1) := by
  induction xs generalizing prev i with
  | nil => rfl
  | cons y ys ih =>
    show (if decide (y - prev ≠ 0) = true then i :: Np.whereIdxFrom _ (i+1) (Np.diffFrom y ys)
        else Np.whereIdxFrom _ (i+1) (Np.diffFrom y ys)) =
      (if y = prev then runsAux prev (i+1) ys else (i, y) :: runsAux y (i+1) ys).map (·.1)
    rw [ih]
    by_cases h : y = prev
    · subst h; simp
    · have := sub_ne_zero.mpr h
      simp [h, this]

/-- the run values are the samples at the run starts -/
theorem vals_eq_map (v : List ℚ) : vals v = (idxs v).map (fun i => v.getD i 0) := by
  unfold vals idxs
  rw [List.map_map]
  apply List.map_congr_left
  intro r hr
  have := (runs_mem v r.1 r.2).mp hr
  exact this.2.1

/-- `non_zero_indices` of the code: the run starts, with index `0` listed twice when `values[0] ≠ 0` -/
def codeIdx (v : List ℚ) : List ℕ := if v.getD 0 0 ≠ 0 then 0 :: idxs v else idxs v

/-- `cleaned_values` of the code: the run values, with `values[0]` listed twice when it is not `0` -/
def codeVals (v : List ℚ) : List ℚ := if v.getD 0 0 ≠ 0 then v.getD 0 0 :: vals v else vals v

theorem nonzero_idx_eq (x : ℚ) (xs : List ℚ) :
    0 :: Np.whereIdx (fun y => decide (y ≠ 0)) (Np.ediff1d x (x :: xs)) = codeIdx (x :: xs) := by
  unfold codeIdx Np.whereIdx Np.ediff1d
  have : idxs (x :: xs) = 0 :: (runsAux x 1 xs).map (·.1) := rfl
  rw [this]
  simp only [Np.diff, Np.whereIdxFrom, whereIdx_diffFrom, List.getD_cons_zero]
  by_cases h : x = 0 <;> simp [h]

theorem codeIdx_lt (v : List ℚ) (hv : v ≠ []) : ∀ i ∈ codeIdx v, i < v.length := by
  intro i hi
  have h0 : 0 < v.length := List.length_pos_of_ne_nil hv
  unfold codeIdx at hi
  split at hi
  · rcases List.mem_cons.mp hi with h | h
    · omega
    · exact ((mem_idxs v i).mp h).1
  · exact ((mem_idxs v i).mp hi).1

theorem codeVals_eq (v : List ℚ) : (codeIdx v).map (fun i => v.getD i 0) = codeVals v := by
  unfold codeIdx codeVals
  split <;> simp [vals_eq_map]

/-! ### stage 2: `np.where(diff[1:] * diff[:-1] < 0)[0]` and `turnIdx` -/

theorem zip_dropLast {β : Type} (l : List β) (x : β) : List.zip l (x :: l).dropLast = List.zip l (x :: l) := by
  induction l generalizing x with
  | nil => rfl
  | cons a t ih =>
    rw [List.dropLast_cons_cons, List.zip_cons_cons, List.zip_cons_cons, ih]

theorem whereIdx_zip_turnIdx (a b : ℚ) (i : ℕ) (l : List ℚ) :
    Np.whereIdxFrom (fun p : ℚ × ℚ => decide (p.1 * p.2 < 0)) i
        (List.zip (Np.diffFrom b l) ((b - a) :: Np.diffFrom b l)) = turnIdx i (a :: b :: l) := by
  induction l generalizing a b i with
  | nil => simp [Np.diffFrom, Np.whereIdxFrom, turnIdx]
  | cons c l ih =>
    simp only [Np.diffFrom, List.zip_cons_cons, Np.whereIdxFrom, turnIdx]
    rw [ih b c (i+1)]
    rw [mul_comm (c - b) (b - a)]
    by_cases h : (b - a) * (c - b) < 0 <;> simp [h]

theorem turnIdx_succ (o : ℕ) (l : List ℚ) : turnIdx (o+1) l = (turnIdx o l).map (· + 1) := by
  induction l generalizing o with
  | nil => simp [turnIdx]
  | cons a t ih =>
    cases t with
    | nil => simp [turnIdx]
    | cons b t2 =>
      cases t2 with
      | nil => simp [turnIdx]
      | cons c rest =>
        simp only [turnIdx, List.map_append]
        rw [ih (o+1)]
        split <;> simp

/-- `peak_indices` of `determine_indices_of_peaks_for_cleaned_array` before the two `np.insert`s -/
theorem whereIdx_turnIdx (c : List ℚ) :
    Np.whereIdx (fun p : ℚ × ℚ => decide (p.1 * p.2 < 0))
      (List.zip ((Np.ediff1d 0 c).drop 1) (Np.ediff1d 0 c).dropLast) = turnIdx 1 c := by
  unfold Np.ediff1d Np.whereIdx
  rw [List.drop_one, List.tail_cons, zip_dropLast]
  cases c with
  | nil => simp [Np.diff, Np.whereIdxFrom, turnIdx]
  | cons a t =>
    cases t with
    | nil => simp [Np.diff, Np.diffFrom, Np.whereIdxFrom, turnIdx]
    | cons b l =>
      simp only [Np.diff, Np.diffFrom, List.zip_cons_cons, Np.whereIdxFrom]
      rw [whereIdx_zip_turnIdx]
      simp


theorem whereIdxFrom_map {β γ : Type} (p : γ → Bool) (f : β → γ) (i : ℕ) (l : List β) :
    Np.whereIdxFrom p i (l.map f) = Np.whereIdxFrom (fun x => p (f x)) i l := by
  induction l generalizing i with
  | nil => rfl
  | cons a t ih => simp only [List.map_cons, Np.whereIdxFrom, ih]

/-- the same stage with the operands of the product commuted in the source (`diff[:-1] * diff[1:]`) -/
theorem whereIdx_turnIdx_comm (c : List ℚ) :
    Np.whereIdx (fun p : ℚ × ℚ => decide (p.1 * p.2 < 0))
      (List.zip (Np.ediff1d 0 c).dropLast ((Np.ediff1d 0 c).drop 1)) = turnIdx 1 c := by
  rw [← whereIdx_turnIdx c]
  have : List.zip (Np.ediff1d 0 c).dropLast ((Np.ediff1d 0 c).drop 1) =
      (List.zip ((Np.ediff1d 0 c).drop 1) (Np.ediff1d 0 c).dropLast).map Prod.swap := by
    rw [List.zip_swap]
  unfold Np.whereIdx
  rw [this, whereIdxFrom_map]
  congr 1
  funext p
  simp only [Prod.fst_swap, Prod.snd_swap, mul_comm]

/-! ### the duplicated first sample of `clean_out_non_changing` is not observable in the peak indices -/

theorem peaksCleaned_dup (x : ℚ) (r : List ℚ) :
    peaksCleaned (x :: x :: r) = 0 :: ((turnIdx 1 (x :: r)).map (· + 1) ++ [r.length + 1]) := by
  unfold peaksCleaned
  cases r with
  | nil => simp [turnIdx]
  | cons c r' => simp [turnIdx, turnIdx_succ]

theorem take_code (v : List ℚ) (hv : v ≠ []) :
    (peaksCleaned (codeVals v)).map (fun i => (codeIdx v).getD i 0) = peaks v := by
  obtain ⟨x, xs, rfl⟩ := List.exists_cons_of_ne_nil hv
  unfold codeVals codeIdx
  by_cases h : x = 0
  · simp [h, peaks_eq]
  · have hv : vals (x :: xs) = x :: (runsAux x 1 xs).map (·.2) := rfl
    have hi : idxs (x :: xs) = 0 :: (runsAux x 1 xs).map (·.1) := rfl
    simp only [List.getD_cons_zero, ne_eq, h, not_false_eq_true, if_true]
    rw [peaks_eq, hv, peaksCleaned_dup, peaksCleaned_eq, hi]
    simp

theorem codeVals_length (v : List ℚ) : (codeVals v).length = (codeIdx v).length := by
  unfold codeVals codeIdx vals idxs
  split <;> simp

theorem codeVals_ne_nil (v : List ℚ) (hv : v ≠ []) : codeVals v ≠ [] := by
  obtain ⟨x, xs, rfl⟩ := List.exists_cons_of_ne_nil hv
  unfold codeVals vals runs
  split <;> simp

theorem takeIE_code (v : List ℚ) (hv : v ≠ []) :
    NpP.takeIE (codeIdx v) ((peaksCleaned (codeVals v)).map Int.ofNat) = .ok (peaks v) := by
  rw [takeIE_ofNat _ _ 0, take_code v hv]
  intro i hi
  rw [← codeVals_length]
  exact peaksCleaned_lt _ (List.length_pos_of_ne_nil (codeVals_ne_nil v hv)) i hi

/-! ### `get_n_cyc_array` -/

/-- the ordinates `n_cycs = 0.5 * np.arange(n); n_cycs[1:] += svalue` are the model's knots -/
theorem knots_eq (n : ℕ) (so : Bool) :
    NpP.iaddFrom ((Np.arange n).map (fun (x : ℕ) => (0.5 : ℚ) * (x : ℚ))) 1 (if so then (-0.25 : ℚ) else 0) = nCycKnots n so := by
  unfold nCycKnots Np.arange NpP.iaddFrom
  cases n with
  | zero => rfl
  | succ m =>
    rw [List.range_succ_eq_map]
    simp only [List.map_cons, List.map_map, List.take_succ_cons, List.take_zero, List.drop_succ_cons, List.drop_zero,
      List.cons_append, List.nil_append]
    congr 1
    · norm_num
    · apply List.map_congr_left
      intro k _
      simp only [Function.comp]
      cases so <;> simp <;> ring

/-- the same with the product commuted in the source (`np.arange(n) * 0.5`) -/
theorem knots_eq_comm (n : ℕ) (so : Bool) :
    NpP.iaddFrom ((Np.arange n).map (fun (x : ℕ) => (x : ℚ) * (0.5 : ℚ))) 1 (if so then (-0.25 : ℚ) else 0) = nCycKnots n so := by
  rw [← knots_eq]
  congr 2
  funext x
  rw [mul_comm]

end EqsigVerif.Lemmas.PeaksGen
