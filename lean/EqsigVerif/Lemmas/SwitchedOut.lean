import EqsigVerif.Model.SwitchedOut
import EqsigVerif.Lemmas.NpU
import EqsigVerif.Lemmas.Peaks
import EqsigVerif.Lemmas.Switched
import EqsigVerif.Lemmas.SwitchedExcursions
/-!
# Lemmas for the repaired `get_switched_peak_array_indices` (`Model/SwitchedOut.lean`, finding F12-3): facts about **every**
non-empty series (constant or not) that `Props/C12Repair.lean` needs — constant / non-constant dichotomy, the peak list is
ascending, the loop's result is never empty.
-/
namespace EqsigVerif.Lemmas.SwitchedOut
open EqsigVerif EqsigVerif.Model.Switched EqsigVerif.Model.Peaks EqsigVerif.Lemmas.Peaks

/-- a non-empty series is either non-constant or `c` repeated `n+1` times -/
theorem const_or_nonConstant (v : List ℚ) (hv : v ≠ []) : NonConstant v ∨ ∃ c n, v = List.replicate (n+1) c := by
  by_cases h : NonConstant v
  · exact Or.inl h
  · right
    obtain ⟨a, t, rfl⟩ := List.exists_cons_of_ne_nil hv
    refine ⟨a, t.length, List.eq_replicate_iff.2 ⟨by simp, fun b hb => ?_⟩⟩
    by_contra hne
    exact h ⟨a, by simp, b, hb, fun e => hne e.symm⟩

/-- the peak list of every non-empty series is ascending (strictly for a non-constant series, `[0, 0]` for a constant one) -/
theorem peaks_sorted (v : List ℚ) (hv : v ≠ []) : (peaks v).Pairwise (· ≤ ·) := by
  rcases const_or_nonConstant v hv with h | ⟨c, n, rfl⟩
  · exact (peaks_pairwise v h).imp (fun h => Nat.le_of_lt h)
  · rw [peaks_replicate]; simp

/-- the loop always reports at least one index (the final flush) -/
theorem switchedPeaks_ne_nil (v : List ℚ) (tol : ℚ) : switchedPeaks v tol ≠ [] := by
  rw [switchedPeaks_eq]
  have : switchedGroups v tol ≠ [] := by
    intro h
    have hf := switchedGroups_flatten v tol
    rw [h] at hf
    have hp := peaks_ne_nil v
    simp [peakItems] at hf
    exact hp hf
  simpa using this

theorem switchedPeaksOut_ne_nil (v : List ℚ) (tol : ℚ) : switchedPeaksOut v tol ≠ [] :=
  NpU.unique_ne_nil _ (switchedPeaks_ne_nil v tol)

end EqsigVerif.Lemmas.SwitchedOut
