import EqsigVerif.Model.Frequency
import EqsigVerif.Lemmas.Np
import EqsigVerif.Lemmas.Cplx
import EqsigVerif.Lemmas.Frequency
import Mathlib.Algebra.Order.Field.Basic
import Mathlib.Algebra.Order.AbsoluteValue.Basic
import Mathlib.Tactic.Ring
import Mathlib.Tactic.Linarith
import Mathlib.Tactic.Positivity
/-!
# Lemmas for the smoothing kernel and the bandwidth limits of `Model/Frequency.lean` (C07),
for an arbitrary linearly ordered field (used at `ℚ` — what the driver executes — and `ℝ`).
-/
set_option linter.unusedSectionVars false
set_option linter.unusedVariables false
namespace EqsigVerif.Model.Frequency
open EqsigVerif EqsigVerif.Cplx EqsigVerif.Wire

section Smooth
variable {α : Type} [Field α] [LinearOrder α] [IsStrictOrderedRing α]

/-! ### column normalisation -/

theorem sumL_map_div (col : List α) (s : α) : sumL (col.map (fun w => w / s)) = sumL col / s := by
  induction col with
  | nil => simp [sumL]
  | cons x xs ih => simp only [List.map_cons, sumL, ih, add_div]

theorem sumL_nonneg (col : List α) (h : ∀ w ∈ col, 0 ≤ w) : 0 ≤ sumL col := by
  induction col with
  | nil => simp [sumL]
  | cons x xs ih =>
    simp only [sumL]
    have := ih (fun w hw => h w (List.mem_cons_of_mem _ hw))
    have := h x (by simp)
    linarith

theorem le_sumL_of_mem (col : List α) (h : ∀ w ∈ col, 0 ≤ w) (x : α) (hx : x ∈ col) : x ≤ sumL col := by
  induction col with
  | nil => simp at hx
  | cons y ys ih =>
    simp only [sumL]
    have hy := h y (by simp)
    have hys := sumL_nonneg ys (fun w hw => h w (List.mem_cons_of_mem _ hw))
    rcases List.mem_cons.mp hx with rfl | hx
    · linarith
    · have := ih (fun w hw => h w (List.mem_cons_of_mem _ hw)) hx
      linarith

@[simp] theorem length_normCol (col : List α) : (normCol col).length = col.length := by simp [normCol]

theorem normCol_nonneg (col : List α) (h0 : ∀ w ∈ col, 0 ≤ w) (hs : 0 < sumL col) :
    ∀ w ∈ normCol col, 0 ≤ w := by
  intro w hw
  simp only [normCol, List.mem_map] at hw
  obtain ⟨x, hx, rfl⟩ := hw
  exact div_nonneg (h0 x hx) (le_of_lt hs)

theorem sumL_normCol (col : List α) (hs : sumL col ≠ 0) : sumL (normCol col) = 1 := by
  rw [normCol, sumL_map_div, div_self hs]

/-! ### weighted sums of `|A|` -/

theorem dotAbs_nil_left (col : List α) : dotAbs ([] : List α) col = 0 := by simp [dotAbs, sumL]

theorem dotAbs_cons (a : α) (A : List α) (w : α) (col : List α) :
    dotAbs (a :: A) (w :: col) = |a| * w + dotAbs A col := by
  simp [dotAbs, sumL, Np.absv_eq_abs]

/-- `lo·Σw ≤ Σ|a|·w` for non-negative weights when `lo ≤ |a|` for every amplitude -/
theorem dotAbs_ge (A col : List α) (hl : col.length = A.length) (hw : ∀ w ∈ col, 0 ≤ w) (lo : α)
    (hlo : ∀ a ∈ A, lo ≤ |a|) : lo * sumL col ≤ dotAbs A col := by
  induction A generalizing col with
  | nil =>
    have : col = [] := List.length_eq_zero_iff.mp hl
    simp [this, dotAbs, sumL]
  | cons a as ih =>
    cases col with
    | nil => simp at hl
    | cons w ws =>
      rw [dotAbs_cons]
      simp only [sumL]
      have h1 := ih ws (by simpa using hl) (fun x hx => hw x (List.mem_cons_of_mem _ hx))
        (fun x hx => hlo x (List.mem_cons_of_mem _ hx))
      have h2 : lo * w ≤ |a| * w := mul_le_mul_of_nonneg_right (hlo a (by simp)) (hw w (by simp))
      linarith

/-- `Σ|a|·w ≤ hi·Σw` for non-negative weights when `|a| ≤ hi` for every amplitude -/
theorem dotAbs_le (A col : List α) (hl : col.length = A.length) (hw : ∀ w ∈ col, 0 ≤ w) (hi : α)
    (hhi : ∀ a ∈ A, |a| ≤ hi) : dotAbs A col ≤ hi * sumL col := by
  induction A generalizing col with
  | nil =>
    have : col = [] := List.length_eq_zero_iff.mp hl
    simp [this, dotAbs, sumL]
  | cons a as ih =>
    cases col with
    | nil => simp at hl
    | cons w ws =>
      rw [dotAbs_cons]
      simp only [sumL]
      have h1 := ih ws (by simpa using hl) (fun x hx => hw x (List.mem_cons_of_mem _ hx))
        (fun x hx => hhi x (List.mem_cons_of_mem _ hx))
      have h2 : |a| * w ≤ hi * w := mul_le_mul_of_nonneg_right (hhi a (by simp)) (hw w (by simp))
      linarith

/-- a constant amplitude comes out of the weighted sum -/
theorem dotAbs_const (A col : List α) (hl : col.length = A.length) (c : α)
    (hc : ∀ a ∈ A, |a| = c) : dotAbs A col = c * sumL col := by
  induction A generalizing col with
  | nil =>
    have : col = [] := List.length_eq_zero_iff.mp hl
    simp [this, dotAbs, sumL]
  | cons a as ih =>
    cases col with
    | nil => simp at hl
    | cons w ws =>
      rw [dotAbs_cons, ih ws (by simpa using hl) (fun x hx => hc x (List.mem_cons_of_mem _ hx)),
        hc a (by simp)]
      simp only [sumL]; ring

/-- `Σ|k·a|·w = |k|·Σ|a|·w` -/
theorem dotAbs_smul (k : α) (A col : List α) :
    dotAbs (A.map (k * ·)) col = |k| * dotAbs A col := by
  induction A generalizing col with
  | nil => simp [dotAbs, sumL]
  | cons a as ih =>
    cases col with
    | nil => simp [dotAbs, sumL]
    | cons w ws =>
      rw [List.map_cons, dotAbs_cons, dotAbs_cons, ih ws, abs_mul]; ring

/-! ### the matrix and the core -/

theorem smoothMatrix_eq_map (amp raw : List (List α)) :
    smoothMatrix amp raw = (List.zipWith whereCol amp raw).map normCol := by
  simp [smoothMatrix, List.map_zipWith]

theorem smoothCore_eq (faFreqs A : List α) (amp raw : List (List α)) :
    smoothCore faFreqs A amp raw =
      match dropZeroBin faFreqs A with
      | .error e => .error e
      | .ok (fs, A') =>
        if A'.length = fs.length then .ok ((smoothMatrix amp raw).map (dotAbs A')) else .error .ValueError := by
  unfold smoothCore
  cases h : dropZeroBin faFreqs A with
  | error e => rfl
  | ok p =>
    obtain ⟨fs, A'⟩ := p
    by_cases hl : A'.length = fs.length
    · simp [bind, Except.bind, pure, Except.pure, hl]
    · simp [bind, Except.bind, hl, throw, throwThe, MonadExceptOf.throw]

theorem dropZeroBin_map (f : α → α) (faFreqs A : List α) :
    dropZeroBin faFreqs (A.map f) =
      match dropZeroBin faFreqs A with
      | .error e => .error e
      | .ok (fs, A') => .ok (fs, A'.map f) := by
  cases faFreqs with
  | nil => rfl
  | cons f0 rest =>
    by_cases hf : f0 = 0
    · simp [dropZeroBin, hf]
    · simp [dropZeroBin, hf]

theorem smoothCore_ok (faFreqs A fs A' : List α) (amp raw : List (List α))
    (h1 : dropZeroBin faFreqs A = .ok (fs, A')) (h2 : A'.length = fs.length) :
    smoothCore faFreqs A amp raw = .ok ((smoothMatrix amp raw).map (dotAbs A')) := by
  simp [smoothCore, h1, h2, bind, Except.bind, pure, Except.pure]

/-- the `where` replacement puts exactly 1 where the window argument is 0 and keeps the raw value elsewhere -/
theorem whereCol_getElem? (amp raw : List α) (i : ℕ) :
    (whereCol amp raw)[i]? =
      match amp[i]?, raw[i]? with
      | some a, some w => some (if a = 0 then 1 else w)
      | _, _ => none := by
  simp only [whereCol, List.getElem?_zipWith]
  cases amp[i]? <;> cases raw[i]? <;> simp

end Smooth

/-! ### `np.where(cond)[0]`, first and last index above a limit -/
section Where
variable {γ : Type}

theorem mem_whereIdxFrom (p : γ → Bool) (i : ℕ) (l : List γ) (k : ℕ) :
    k ∈ Np.whereIdxFrom p i l ↔ ∃ j x, k = i + j ∧ l[j]? = some x ∧ p x = true := by
  induction l generalizing i with
  | nil => simp [Np.whereIdxFrom]
  | cons y ys ih =>
    simp only [Np.whereIdxFrom]
    constructor
    · intro h
      by_cases hy : p y = true
      · simp only [hy, if_true, List.mem_cons] at h
        rcases h with rfl | h
        · exact ⟨0, y, by simp, by simp, hy⟩
        · obtain ⟨j, x, rfl, hj, hx⟩ := (ih (i + 1)).mp h
          exact ⟨j + 1, x, by omega, by simpa using hj, hx⟩
      · simp only [hy] at h
        obtain ⟨j, x, rfl, hj, hx⟩ := (ih (i + 1)).mp h
        exact ⟨j + 1, x, by omega, by simpa using hj, hx⟩
    · rintro ⟨j, x, rfl, hj, hx⟩
      cases j with
      | zero =>
        simp at hj; subst hj
        simp [hx]
      | succ j' =>
        have : i + (j' + 1) ∈ Np.whereIdxFrom p (i + 1) ys :=
          (ih (i + 1)).mpr ⟨j', x, by omega, by simpa using hj, hx⟩
        by_cases hy : p y = true
        · simp only [hy, if_true, List.mem_cons]; exact Or.inr this
        · simp only [hy]; exact this

theorem whereIdxFrom_ge (p : γ → Bool) (i : ℕ) (l : List γ) : ∀ k ∈ Np.whereIdxFrom p i l, i ≤ k := by
  intro k hk
  obtain ⟨j, _, rfl, _, _⟩ := (mem_whereIdxFrom p i l k).mp hk
  omega

theorem whereIdxFrom_pairwise (p : γ → Bool) (i : ℕ) (l : List γ) :
    (Np.whereIdxFrom p i l).Pairwise (· < ·) := by
  induction l generalizing i with
  | nil => simp [Np.whereIdxFrom]
  | cons y ys ih =>
    simp only [Np.whereIdxFrom]
    split
    · rw [List.pairwise_cons]
      refine ⟨?_, ih (i + 1)⟩
      intro k hk
      have := whereIdxFrom_ge p (i + 1) ys k hk
      omega
    · exact ih (i + 1)

theorem head?_le_of_pairwise (l : List ℕ) (h : l.Pairwise (· < ·)) (a : ℕ) (ha : l.head? = some a) :
    ∀ k ∈ l, a ≤ k := by
  cases l with
  | nil => simp at ha
  | cons x xs =>
    simp at ha; subst ha
    intro k hk
    rcases List.mem_cons.mp hk with rfl | hk
    · exact le_refl _
    · exact le_of_lt ((List.pairwise_cons.mp h).1 k hk)

theorem le_getLast?_of_pairwise (l : List ℕ) (h : l.Pairwise (· < ·)) (b : ℕ)
    (hb : l.getLast? = some b) : ∀ k ∈ l, k ≤ b := by
  induction l with
  | nil => simp at hb
  | cons x xs ih =>
    intro k hk
    cases xs with
    | nil =>
      simp at hb; subst hb
      have : k = x := by simpa using hk
      omega
    | cons y ys =>
      have hb' : (y :: ys).getLast? = some b := by simpa [List.getLast?_cons_cons] using hb
      have hp := List.pairwise_cons.mp h
      have hbm : b ∈ y :: ys := List.mem_of_getLast? hb'
      rcases List.mem_cons.mp hk with rfl | hk
      · exact le_of_lt (hp.1 b hbm)
      · exact ih hp.2 hb' k hk

end Where

section Bandwidth
variable {α : Type} [Field α] [LinearOrder α] [IsStrictOrderedRing α]

/-- `firstLastAbove` raises `IndexError` iff no entry exceeds the limit; otherwise it returns the first
and the last index whose entry exceeds the limit. -/
theorem firstLastAbove_spec (smooth : List α) (lim : α) :
    (firstLastAbove smooth lim = .error .IndexError ↔ ∀ s ∈ smooth, ¬ lim < s) ∧
    (∀ a b, firstLastAbove smooth lim = .ok (a, b) →
      (∃ sa sb, smooth[a]? = some sa ∧ smooth[b]? = some sb ∧ lim < sa ∧ lim < sb) ∧
      ∀ k s, smooth[k]? = some s → lim < s → a ≤ k ∧ k ≤ b) ∧
    ((∃ s ∈ smooth, lim < s) → ∃ a b, firstLastAbove smooth lim = .ok (a, b)) := by
  set idx := Np.whereIdx (fun s => decide (lim < s)) smooth with hidx
  have hmem : ∀ k, k ∈ idx ↔ ∃ s, smooth[k]? = some s ∧ lim < s := by
    intro k
    rw [hidx, Np.whereIdx, mem_whereIdxFrom]
    constructor
    · rintro ⟨j, x, rfl, hj, hx⟩
      exact ⟨x, by simpa using hj, by simpa using hx⟩
    · rintro ⟨s, hs, hlt⟩
      exact ⟨k, s, by omega, hs, by simpa using hlt⟩
  have hpw : idx.Pairwise (· < ·) := whereIdxFrom_pairwise _ 0 smooth
  have hunf : firstLastAbove smooth lim =
      match idx.head?, idx.getLast? with
      | some a, some b => .ok (a, b)
      | _, _ => .error .IndexError := rfl
  cases hl : idx with
  | nil =>
    have hnone : ∀ s ∈ smooth, ¬ lim < s := by
      intro s hs hlt
      obtain ⟨k, hk, rfl⟩ := List.getElem_of_mem hs
      have : k ∈ idx := (hmem k).mpr ⟨smooth[k], by simp [hk], hlt⟩
      rw [hl] at this; simp at this
    rw [hunf, hl]
    refine ⟨⟨fun _ => hnone, fun _ => by simp⟩, by intro a b h; simp at h, ?_⟩
    rintro ⟨s, hs, hlt⟩
    exact absurd hlt (hnone s hs)
  | cons x xs =>
    have hhead : idx.head? = some x := by rw [hl]; rfl
    obtain ⟨b, hb⟩ : ∃ b, idx.getLast? = some b := by
      rw [hl]; exact ⟨(x :: xs).getLast (by simp), List.getLast?_eq_some_getLast (by simp)⟩
    have hres : firstLastAbove smooth lim = .ok (x, b) := by rw [hunf, hhead, hb]
    refine ⟨?_, ?_, fun _ => ⟨x, b, hres⟩⟩
    · rw [hres]
      constructor
      · intro h; simp at h
      · intro h
        exfalso
        have hx : x ∈ idx := by rw [hl]; simp
        obtain ⟨s, hs, hlt⟩ := (hmem x).mp hx
        exact h s (List.mem_of_getElem? hs) hlt
    · intro a' b' h
      rw [hres] at h
      have ha : a' = x := by injection h with h; exact (Prod.mk.inj h).1.symm
      have hb' : b' = b := by injection h with h; exact (Prod.mk.inj h).2.symm
      subst ha; subst hb'
      have hx : a' ∈ idx := by rw [hl]; simp
      have hbm : b' ∈ idx := List.mem_of_getLast? hb
      obtain ⟨sa, hsa, hlta⟩ := (hmem a').mp hx
      obtain ⟨sb, hsb, hltb⟩ := (hmem b').mp hbm
      refine ⟨⟨sa, sb, hsa, hsb, hlta, hltb⟩, ?_⟩
      intro k s hk hlt
      have hkm : k ∈ idx := (hmem k).mpr ⟨s, hk, hlt⟩
      exact ⟨head?_le_of_pairwise idx hpw a' hhead k hkm, le_getLast?_of_pairwise idx hpw b' hb k hkm⟩

/-- `max(l)` is the value at `np.argmax(l)` -/
theorem maxL?_eq_getElem_argmax (l : List α) (m : α) (h : Np.maxL? l = some m) :
    l[Np.argmax l]? = some m ∧ ∀ x ∈ l, x ≤ m := by
  cases l with
  | nil => simp [Np.maxL?] at h
  | cons x xs =>
    simp only [Np.maxL?, Option.some.injEq] at h
    obtain ⟨v, hv, hall, -⟩ := argmax_spec (x :: xs) (by simp)
    have hle := Np.le_maxFrom x xs
    have hm : m ∈ x :: xs := by
      rcases Np.maxFrom_mem x xs with h' | h'
      · rw [← h, h']; simp
      · rw [← h]; exact List.mem_cons_of_mem _ h'
    have hall' : ∀ y ∈ x :: xs, y ≤ m := by
      intro y hy
      rw [← h]
      rcases List.mem_cons.mp hy with rfl | hy
      · exact hle.1
      · exact hle.2 y hy
    have hvm : v = m := le_antisymm (hall' v (List.mem_of_getElem? hv)) (hall m hm)
    exact ⟨by rw [hv, hvm], hall'⟩

end Bandwidth

end EqsigVerif.Model.Frequency
