import EqsigVerif.Model.Resample
import EqsigVerif.Lemmas.Cplx
import EqsigVerif.Lemmas.CplxC
import Mathlib.Algebra.Order.Group.Int
import Mathlib.Order.Interval.Finset.Basic
import Mathlib.Algebra.Order.Interval.Finset.Basic
import Mathlib.Tactic.Ring
import Mathlib.Tactic.FieldSimp
import Mathlib.Tactic.Linarith
/-!
# Lemmas for `Model/Resample.lean` (C14.f): the spectral copy step entry by entry, the spectrum of a
trigonometric polynomial, and the inverse transform of the copied spectrum
-/
set_option linter.unusedSectionVars false
set_option linter.unusedVariables false
noncomputable section
namespace EqsigVerif.Model.Resample
open EqsigVerif EqsigVerif.Cplx Complex Finset

/-! ## lists built with `(List.range n).map` -/

theorem getD_map_range (f : ℕ → ℂ) (n b : ℕ) :
    ((List.range n).map f).getD b 0 = if b < n then f b else 0 := by
  by_cases hb : b < n
  · rw [if_pos hb, ← getElem_eq_getD _ _ (by simpa using hb)]
    simp
  · rw [if_neg hb, getD_of_not_lt _ _ (by simpa using hb)]

/-! ## the copy step, entry by entry -/

@[simp] theorem length_copyPos (X : List ℂ) (N num : ℕ) : (copyPos X N num).length = num := by
  simp [copyPos]

@[simp] theorem length_copyNeg (Y X : List ℂ) (N num : ℕ) (hY : Y.length = num) :
    (copyNeg Y X N num).length = num := by
  unfold copyNeg; split <;> simp [hY]

@[simp] theorem length_fixNyquist (Y X : List ℂ) (N num : ℕ) (hY : Y.length = num) :
    (fixNyquist (α := ℝ) Y X N num).length = num := by
  unfold fixNyquist
  simp only
  split
  · split
    · simp
    · split <;> simp [hY]
  · exact hY

@[simp] theorem length_copySpectrum (X : List ℂ) (N num : ℕ) :
    (copySpectrum (α := ℝ) X N num).length = num := by
  unfold copySpectrum
  exact length_fixNyquist _ _ _ _ (length_copyNeg _ _ _ _ (length_copyPos _ _ _))

theorem copyPos_getD (X : List ℂ) (N num b : ℕ) (hb : b < num) :
    (copyPos X N num).getD b 0 = if b < oneSided N num then X.getD b 0 else 0 := by
  rw [copyPos, getD_map_range, if_pos hb]

/-- stages 1+2: the bins `0 … m/2` and the last `m − m2` bins are copied, the rest is zero -/
theorem copyNeg_getD (X : List ℂ) (N num b : ℕ) (hb : b < num) :
    (copyNeg (copyPos X N num) X N num).getD b 0 =
      if num - negBins N num ≤ b then X.getD (N - negBins N num + (b - (num - negBins N num))) 0
      else if b < oneSided N num then X.getD b 0 else 0 := by
  unfold copyNeg
  by_cases h : oneSided N num < relBins N num
  · rw [if_pos h, getD_map_range, if_pos hb, copyPos_getD _ _ _ _ hb]
  · rw [if_neg h, copyPos_getD _ _ _ _ hb]
    have h0 : negBins N num = 0 := by unfold negBins; omega
    rw [h0, Nat.sub_zero, if_neg (show ¬ num ≤ b by omega)]

/-- stage 3 entry by entry -/
theorem fixNyquist_getD (Y X : List ℂ) (N num b : ℕ) (hb : b < num) (hY : Y.length = num) :
    (fixNyquist (α := ℝ) Y X N num).getD b 0 =
      if relBins N num % 2 = 0 then
        if num < N then
          (if b = num - relBins N num / 2 then Y.getD b 0 + X.getD (N - relBins N num / 2) 0
           else Y.getD b 0)
        else if N < num then
          (if b = num - relBins N num / 2 ∨ b = relBins N num / 2
           then Y.getD (relBins N num / 2) 0 / 2 else Y.getD b 0)
        else Y.getD b 0
      else Y.getD b 0 := by
  unfold fixNyquist
  simp only
  by_cases h1 : relBins N num % 2 = 0
  · rw [if_pos h1, if_pos h1]
    by_cases h2 : num < N
    · rw [if_pos h2, if_pos h2, getD_map_range, if_pos hb]
    · rw [if_neg h2, if_neg h2]
      by_cases h3 : N < num
      · rw [if_pos h3, if_pos h3, getD_map_range, if_pos hb]
        simp only [cxlike_ofReal]
        by_cases h4 : b = num - relBins N num / 2
        · simp [h4]
        · by_cases h5 : b = relBins N num / 2
          · simp [h5]
          · simp [h4, h5]
      · rw [if_neg h3, if_neg h3]
  · rw [if_neg h1, if_neg h1]

/-! ## characters `e^{2πi n/L}` with an integer frequency `n` -/

/-- `chr L n = e^{2πi n/L}` -/
def chr (L : ℕ) (n : ℤ) : ℂ := cexp (2 * Real.pi * I * n / L)

theorem chr_eq_zpow (L : ℕ) (n : ℤ) : chr L n = cexp (2 * Real.pi * I / L) ^ n := by
  rw [chr, ← Complex.exp_int_mul]
  congr 1; ring

theorem chr_add (L : ℕ) (a b : ℤ) : chr L (a + b) = chr L a * chr L b := by
  rw [chr, chr, chr, ← Complex.exp_add]
  congr 1; push_cast; ring

theorem chr_zero (L : ℕ) : chr L 0 = 1 := by simp [chr]

theorem chr_eq_one_iff (L : ℕ) (hL : L ≠ 0) (n : ℤ) : chr L n = 1 ↔ (L : ℤ) ∣ n := by
  rw [chr_eq_zpow]
  exact (Complex.isPrimitiveRoot_exp L hL).zpow_eq_one_iff_dvd n

theorem chr_mul_nat (L : ℕ) (n : ℤ) (j : ℕ) : chr L (n * j) = chr L n ^ j := by
  rw [chr_eq_zpow, chr_eq_zpow, zpow_mul, zpow_natCast]

/-- the character only depends on `n mod L` -/
theorem chr_congr (L : ℕ) (hL : L ≠ 0) (a b : ℤ) (h : (L : ℤ) ∣ a - b) : chr L a = chr L b := by
  have : a = (a - b) + b := by ring
  rw [this, chr_add, (chr_eq_one_iff L hL _).mpr h, one_mul]

/-- orthogonality: `Σ_{j<L} e^{2πi n j/L} = L·[L ∣ n]` -/
theorem sum_chr (L : ℕ) (hL : L ≠ 0) (n : ℤ) :
    ∑ j ∈ range L, chr L (n * j) = if (L : ℤ) ∣ n then (L : ℂ) else 0 := by
  simp only [chr_mul_nat]
  by_cases hn : (L : ℤ) ∣ n
  · rw [if_pos hn, (chr_eq_one_iff L hL n).mpr hn]; simp
  · rw [if_neg hn, geom_sum_eq (fun h => hn ((chr_eq_one_iff L hL n).mp h)), ← chr_mul_nat,
      (chr_eq_one_iff L hL _).mpr (Dvd.intro_left n rfl), sub_self, zero_div]

theorem omega_pow_eq_chr (L : ℕ) (m : ℕ) : omega L ^ m = chr L (-(m : ℤ)) := by
  rw [← twC_eq_pow, twC, chr]
  congr 1; push_cast; ring

theorem conj_omega_pow_eq_chr (L : ℕ) (m : ℕ) : starRingEnd ℂ (omega L ^ m) = chr L (m : ℤ) := by
  rw [map_pow, conj_omega, inv_pow, omega_pow_eq_chr, chr, chr, ← Complex.exp_neg]
  congr 1; push_cast; ring

/-! ## divisibility of small integers -/

/-- `w ≡ z (mod L)` with `|z| < L`: `L ∣ w ↔ z = 0` -/
theorem dvd_iff_eq (L : ℕ) (w z q : ℤ) (hw : w = z + q * L) (h1 : -(L : ℤ) < z) (h2 : z < L) :
    (L : ℤ) ∣ w ↔ z = 0 := by
  subst hw
  rw [dvd_add_left (Dvd.intro_left q rfl)]
  constructor
  · intro h
    exact Int.eq_zero_of_abs_lt_dvd h (abs_lt.mpr ⟨h1, h2⟩)
  · rintro rfl; exact dvd_zero _

/-! ## spectra that are sums of on-grid harmonics -/

/-- `Σ_{|k| ≤ K} c_k · A·[L ∣ k − b]`: the bin `b` of a length-`L` spectrum that carries `A·c_k` at the
bin `k mod L` -/
def bins (c : ℤ → ℂ) (K L : ℕ) (A : ℂ) (b : ℤ) : ℂ :=
  ∑ k ∈ Icc (-(K : ℤ)) K, c k * (if (L : ℤ) ∣ k - b then A else 0)

theorem bins_congr (c : ℤ → ℂ) (K L L' : ℕ) (A : ℂ) (b b' : ℤ)
    (h : ∀ k : ℤ, -(K : ℤ) ≤ k → k ≤ K → ((L : ℤ) ∣ k - b ↔ (L' : ℤ) ∣ k - b')) :
    bins c K L A b = bins c K L' A b' := by
  unfold bins
  apply Finset.sum_congr rfl
  intro k hk
  rw [Finset.mem_Icc] at hk
  simp only [h k hk.1 hk.2]

theorem bins_eq_zero (c : ℤ → ℂ) (K L : ℕ) (A : ℂ) (b : ℤ)
    (h : ∀ k : ℤ, -(K : ℤ) ≤ k → k ≤ K → ¬ (L : ℤ) ∣ k - b) : bins c K L A b = 0 := by
  unfold bins
  apply Finset.sum_eq_zero
  intro k hk
  rw [Finset.mem_Icc] at hk
  rw [if_neg (h k hk.1 hk.2), mul_zero]

/-- the trigonometric polynomial `Σ_{|k| ≤ K} c_k e^{2πi k j/L}` sampled at `j/L` -/
def trigPoly (c : ℤ → ℂ) (K L : ℕ) (j : ℕ) : ℂ := ∑ k ∈ Icc (-(K : ℤ)) K, c k * chr L (k * j)

/-- (a)+(b): the DFT of a trigonometric polynomial sampled on the `N`-grid carries `N·c_k` at bin `k mod N` -/
theorem dft_trigPoly (c : ℤ → ℂ) (K N : ℕ) (x : List ℂ)
    (hx : ∀ j, j < N → x.getD j 0 = trigPoly c K N j) (b : ℕ) (hb : b < N) :
    (dft twC x N).getD b 0 = bins c K N (N : ℂ) b := by
  have hN : N ≠ 0 := by omega
  rw [dftC_getD x N b hb]
  calc ∑ j ∈ range N, x.getD j 0 * omega N ^ (j * b)
      = ∑ j ∈ range N, ∑ k ∈ Icc (-(K : ℤ)) K, c k * chr N ((k - b) * j) := by
        apply Finset.sum_congr rfl
        intro j hj
        rw [hx j (Finset.mem_range.mp hj), trigPoly, Finset.sum_mul]
        apply Finset.sum_congr rfl
        intro k _
        rw [omega_pow_eq_chr, mul_assoc, ← chr_add]
        congr 2; push_cast; ring
    _ = ∑ k ∈ Icc (-(K : ℤ)) K, c k * ∑ j ∈ range N, chr N ((k - b) * j) := by
        rw [Finset.sum_comm]
        apply Finset.sum_congr rfl
        intro k _
        rw [Finset.mul_sum]
    _ = bins c K N (N : ℂ) b := by
        unfold bins
        apply Finset.sum_congr rfl
        intro k _
        rw [sum_chr N hN]

/-! ## (c) the copy step on a band-limited spectrum -/

/-- stages 1+2 map the spectrum carrying `A·c_k` at `k mod N` to the one carrying it at `k mod num`
(band limit *at or below* both Nyquist frequencies; at the limit `2K = min(num, N)` the two bins `K` and
`num − K` are the business of stage 3) -/
theorem copyNeg_bins_le (c : ℤ → ℂ) (K N num : ℕ) (A : ℂ) (X : List ℂ) (hN : 0 < N)
    (hKN : 2 * K ≤ N) (hKn : 2 * K ≤ num)
    (hX : ∀ b, b < N → X.getD b 0 = bins c K N A b) (b : ℕ) (hb : b < num)
    (hsp : 2 * K = min num N → b ≠ K ∧ b ≠ num - K) :
    (copyNeg (copyPos X N num) X N num).getD b 0 = bins c K num A b := by
  rw [copyNeg_getD _ _ _ _ hb]
  have hone : oneSided N num = min num N / 2 + 1 := rfl
  have hneg : negBins N num = min num N - (min num N / 2 + 1) := rfl
  rw [hone, hneg]
  generalize hmm : min num N = m at hsp ⊢
  have hm : m ≤ num ∧ m ≤ N ∧ 2 * K ≤ m ∧ 0 < m := by omega
  split_ifs with h1 h2
  · -- negative-frequency part: `X[N − num + b]`
    rw [hX _ (by omega)]
    apply bins_congr
    intro k hk1 hk2
    rw [dvd_iff_eq N _ (k - b + num) (-1) (by omega) (by omega) (by omega),
      dvd_iff_eq num _ (k - b + num) (-1) (by ring) (by omega) (by omega)]
  · -- positive-frequency part: `X[b]`
    rw [hX _ (by omega)]
    apply bins_congr
    intro k hk1 hk2
    rw [dvd_iff_eq N _ (k - b) 0 (by ring) (by omega) (by omega),
      dvd_iff_eq num _ (k - b) 0 (by ring) (by omega) (by omega)]
  · -- the bins in between stay zero
    symm
    apply bins_eq_zero
    intro k hk1 hk2
    rw [dvd_iff_eq num _ (k - b) 0 (by ring) (by omega) (by omega)]
    omega

/-- stages 1+2 strictly below both Nyquist frequencies -/
theorem copyNeg_bins (c : ℤ → ℂ) (K N num : ℕ) (A : ℂ) (X : List ℂ)
    (hKN : 2 * K < N) (hKn : 2 * K < num)
    (hX : ∀ b, b < N → X.getD b 0 = bins c K N A b) (b : ℕ) (hb : b < num) :
    (copyNeg (copyPos X N num) X N num).getD b 0 = bins c K num A b :=
  copyNeg_bins_le c K N num A X (by omega) (by omega) (by omega) hX b hb (by omega)

/-- stage 3 changes nothing below both Nyquist frequencies: the united/split bin carries zero -/
theorem copySpectrum_bins (c : ℤ → ℂ) (K N num : ℕ) (A : ℂ) (X : List ℂ)
    (hKN : 2 * K < N) (hKn : 2 * K < num)
    (hX : ∀ b, b < N → X.getD b 0 = bins c K N A b) (b : ℕ) (hb : b < num) :
    (copySpectrum (α := ℝ) X N num).getD b 0 = bins c K num A b := by
  unfold copySpectrum
  rw [fixNyquist_getD _ _ _ _ _ hb (length_copyNeg _ _ _ _ (length_copyPos _ _ _))]
  have hbase := copyNeg_bins c K N num A X hKN hKn hX
  have hrel : relBins N num = min num N := rfl
  rw [hrel]
  generalize hmm : min num N = m
  have hm : m ≤ num ∧ m ≤ N ∧ 2 * K < m := by omega
  split_ifs with h1 h2 h3 h4 h5
  · -- down-sampling, `b = num − m/2`: the added bin `X[N − m/2]` is zero
    rw [hbase b hb, hX _ (by omega), bins_eq_zero c K N A _ ?_, add_zero]
    intro k hk1 hk2
    rw [dvd_iff_eq N _ (k - (N - m / 2 : ℕ) + N) (-1) (by ring) (by omega) (by omega)]
    omega
  · exact hbase b hb
  · -- up-sampling, `b ∈ {m/2, num − m/2}`: the split bin `X[N/2]` is zero
    rw [hbase _ (by omega), bins_eq_zero c K num A _ ?_, zero_div, bins_eq_zero c K num A b ?_]
    · intro k hk1 hk2
      rcases h5 with h5 | h5
      · rw [dvd_iff_eq num _ (k - b + num) (-1) (by ring) (by omega) (by omega)]
        omega
      · rw [dvd_iff_eq num _ (k - b) 0 (by ring) (by omega) (by omega)]
        omega
    · intro k hk1 hk2
      rw [dvd_iff_eq num _ (k - (m / 2 : ℕ)) 0 (by ring) (by omega) (by omega)]
      omega
  · exact hbase b hb
  · exact hbase b hb
  · exact hbase b hb

/-! ## (c') the copy step with a component exactly at the smaller Nyquist frequency -/

/-- a bin that is hit by exactly one harmonic -/
theorem bins_single (c : ℤ → ℂ) (K L : ℕ) (A : ℂ) (b k0 : ℤ) (h0 : -(K : ℤ) ≤ k0 ∧ k0 ≤ K)
    (h : ∀ k : ℤ, -(K : ℤ) ≤ k → k ≤ K → ((L : ℤ) ∣ k - b ↔ k = k0)) :
    bins c K L A b = c k0 * A := by
  unfold bins
  rw [Finset.sum_eq_single k0]
  · rw [if_pos ((h k0 h0.1 h0.2).mpr rfl)]
  · intro k hk hne
    rw [Finset.mem_Icc] at hk
    rw [if_neg (fun hd => hne ((h k hk.1 hk.2).mp hd)), mul_zero]
  · intro hn; exact absurd (Finset.mem_Icc.mpr h0) hn

/-- a bin that is hit by exactly two harmonics -/
theorem bins_pair (c : ℤ → ℂ) (K L : ℕ) (A : ℂ) (b k0 k1 : ℤ) (h0 : -(K : ℤ) ≤ k0 ∧ k0 ≤ K)
    (h1 : -(K : ℤ) ≤ k1 ∧ k1 ≤ K) (hne : k0 ≠ k1)
    (h : ∀ k : ℤ, -(K : ℤ) ≤ k → k ≤ K → ((L : ℤ) ∣ k - b ↔ k = k0 ∨ k = k1)) :
    bins c K L A b = (c k0 + c k1) * A := by
  unfold bins
  have hterm : ∀ k ∈ Icc (-(K : ℤ)) K, c k * (if (L : ℤ) ∣ k - b then A else 0)
      = (if k = k0 then c k0 * A else 0) + (if k = k1 then c k1 * A else 0) := by
    intro k hk
    rw [Finset.mem_Icc] at hk
    by_cases e0 : k = k0
    · subst e0
      rw [if_pos ((h k hk.1 hk.2).mpr (Or.inl rfl)), if_pos rfl, if_neg hne, add_zero]
    · by_cases e1 : k = k1
      · subst e1
        rw [if_pos ((h k hk.1 hk.2).mpr (Or.inr rfl)), if_neg e0, if_pos rfl, zero_add]
      · rw [if_neg (fun hd => by rcases (h k hk.1 hk.2).mp hd with e | e <;> contradiction),
          if_neg e0, if_neg e1, mul_zero, add_zero]
  rw [Finset.sum_congr rfl hterm, Finset.sum_add_distrib, Finset.sum_ite_eq' _ k0,
    Finset.sum_ite_eq' _ k1, if_pos (Finset.mem_Icc.mpr h0), if_pos (Finset.mem_Icc.mpr h1), add_mul]

/-- down-sampling to an even length `num = 2K`, highest harmonic exactly at the NEW Nyquist frequency:
stage 3 unites the bins `K` and `N − K` of `X` into the single bin `K = num/2` -/
theorem copySpectrum_bins_down (c : ℤ → ℂ) (K N num : ℕ) (A : ℂ) (X : List ℂ)
    (hK : 1 ≤ K) (hn : num = 2 * K) (hnN : num < N)
    (hX : ∀ b, b < N → X.getD b 0 = bins c K N A b) (b : ℕ) (hb : b < num) :
    (copySpectrum (α := ℝ) X N num).getD b 0 = bins c K num A b := by
  unfold copySpectrum
  rw [fixNyquist_getD _ _ _ _ _ hb (length_copyNeg _ _ _ _ (length_copyPos _ _ _))]
  have hrel : relBins N num = num := by simp [relBins]; omega
  have hh : num / 2 = K := by omega
  rw [hrel, hh, if_pos (by omega), if_pos hnN]
  by_cases hbK : b = num - K
  · rw [if_pos hbK]
    have hbK' : b = K := by omega
    -- the bin `K` of stages 1+2 is `X[K]`
    have hbase : (copyNeg (copyPos X N num) X N num).getD b 0 = X.getD K 0 := by
      rw [copyNeg_getD _ _ _ _ hb]
      have hone : oneSided N num = K + 1 := by simp [oneSided, hrel, hh]
      have hneg : negBins N num = K - 1 := by simp [negBins, oneSided, hrel, hh]; omega
      rw [hone, hneg, if_neg (by omega), if_pos (by omega), hbK']
    rw [hbase, hX K (by omega), hX (N - K) (by omega),
      bins_single c K N A K K (by omega) (fun k hk1 hk2 => by
        rw [dvd_iff_eq N _ (k - K) 0 (by ring) (by omega) (by omega)]; omega),
      bins_single c K N A ((N - K : ℕ) : ℤ) (-(K : ℤ)) (by omega) (fun k hk1 hk2 => by
        rw [dvd_iff_eq N _ (k + K) (-1) (by omega) (by omega) (by omega)]; omega),
      hbK', bins_pair c K num A K K (-(K : ℤ)) (by omega) (by omega) (by omega) (fun k hk1 hk2 => by
        constructor
        · intro hd
          by_cases hkK : k = -(K : ℤ)
          · exact Or.inr hkK
          · left
            have := (dvd_iff_eq num _ (k - K) 0 (by ring) (by omega) (by omega)).mp hd
            omega
        · rintro (e | e)
          · subst e; simp
          · subst e; exact ⟨-1, by omega⟩)]
    ring
  · rw [if_neg hbK]
    exact copyNeg_bins_le c K N num A X (by omega) (by omega) (by omega) hX b hb (fun _ => ⟨by omega, hbK⟩)

/-- up-sampling from an even length `N = 2K`, highest harmonic exactly at the OLD Nyquist frequency and a
cosine there (`c_{−K} = c_K`): stage 3 splits the bin `K = N/2` of `X` into the bins `K` and `num − K` -/
theorem copySpectrum_bins_up (c : ℤ → ℂ) (K N num : ℕ) (A : ℂ) (X : List ℂ)
    (hK : 1 ≤ K) (hN : N = 2 * K) (hnN : N < num) (hc : c (-(K : ℤ)) = c K)
    (hX : ∀ b, b < N → X.getD b 0 = bins c K N A b) (b : ℕ) (hb : b < num) :
    (copySpectrum (α := ℝ) X N num).getD b 0 = bins c K num A b := by
  unfold copySpectrum
  rw [fixNyquist_getD _ _ _ _ _ hb (length_copyNeg _ _ _ _ (length_copyPos _ _ _))]
  have hrel : relBins N num = N := by simp [relBins]; omega
  have hh : N / 2 = K := by omega
  rw [hrel, hh, if_pos (by omega), if_neg (by omega), if_pos hnN]
  by_cases hbK : b = num - K ∨ b = K
  · rw [if_pos hbK]
    have hbase : (copyNeg (copyPos X N num) X N num).getD K 0 = X.getD K 0 := by
      rw [copyNeg_getD _ _ _ _ (by omega)]
      have hone : oneSided N num = K + 1 := by simp [oneSided, hrel, hh]
      have hneg : negBins N num = K - 1 := by simp [negBins, oneSided, hrel, hh]; omega
      rw [hone, hneg, if_neg (by omega), if_pos (by omega)]
    rw [hbase, hX K (by omega),
      bins_pair c K N A K K (-(K : ℤ)) (by omega) (by omega) (by omega) (fun k hk1 hk2 => by
        constructor
        · intro hd
          by_cases hkK : k = -(K : ℤ)
          · exact Or.inr hkK
          · left
            have := (dvd_iff_eq N _ (k - K) 0 (by ring) (by omega) (by omega)).mp hd
            omega
        · rintro (e | e)
          · subst e; simp
          · subst e; exact ⟨-1, by omega⟩)]
    rcases hbK with e | e
    · rw [e, bins_single c K num A ((num - K : ℕ) : ℤ) (-(K : ℤ)) (by omega) (fun k hk1 hk2 => by
        rw [dvd_iff_eq num _ (k + K) (-1) (by omega) (by omega) (by omega)]; omega), hc]
      ring
    · rw [e, bins_single c K num A K K (by omega) (fun k hk1 hk2 => by
        rw [dvd_iff_eq num _ (k - K) 0 (by ring) (by omega) (by omega)]; omega), hc]
      ring
  · rw [if_neg hbK]
    exact copyNeg_bins_le c K N num A X (by omega) (by omega) (by omega) hX b hb
      (fun _ => ⟨fun h => hbK (Or.inr h), fun h => hbK (Or.inl h)⟩)

/-! ## (d) the inverse transform of such a spectrum -/

/-- exactly one bin `b < L` is congruent to `k` modulo `L` -/
theorem sum_bins_chr (L : ℕ) (hL : L ≠ 0) (A : ℂ) (k : ℤ) (m : ℕ) :
    ∑ b ∈ range L, (if (L : ℤ) ∣ k - b then A else 0) * chr L ((m : ℤ) * b) = A * chr L (k * m) := by
  have hLpos : (0 : ℤ) < L := by omega
  obtain ⟨b0, hb0⟩ : ∃ b0 : ℕ, (b0 : ℤ) = k % L :=
    ⟨(k % L).toNat, Int.toNat_of_nonneg (Int.emod_nonneg _ (by omega))⟩
  have hb0lt : b0 < L := by have := Int.emod_lt_of_pos k hLpos; omega
  have hd : (L : ℤ) ∣ k - b0 := Int.dvd_self_sub_of_emod_eq hb0.symm
  rw [Finset.sum_eq_single b0]
  · rw [if_pos hd]
    congr 1
    apply chr_congr L hL
    have : (m : ℤ) * b0 - k * m = -(m : ℤ) * (k - b0) := by ring
    rw [this]
    exact Dvd.dvd.mul_left hd _
  · intro b hb hne
    rw [if_neg, zero_mul]
    intro hd'
    apply hne
    have h1 : (L : ℤ) ∣ (b : ℤ) - b0 := by
      have : (b : ℤ) - b0 = (k - b0) - (k - b) := by ring
      rw [this]; exact dvd_sub hd hd'
    have hb' : b < L := Finset.mem_range.mp hb
    have := (dvd_iff_eq L _ ((b : ℤ) - b0) 0 (by ring) (by omega) (by omega)).mp h1
    omega
  · intro h; exact absurd (Finset.mem_range.mpr hb0lt) h

/-- the inverse DFT of the spectrum carrying `A·c_k` at bin `k mod num`, divided by `s` -/
theorem idft_bins (c : ℤ → ℂ) (K num : ℕ) (A s : ℂ) (Y : List ℂ)
    (hY : ∀ b, b < num → Y.getD b 0 = bins c K num A b) (m : ℕ) (hm : m < num) :
    (idft twC (Y.map (fun z => z / s)) num).getD m 0 = A / s / num * trigPoly c K num m := by
  have hL : num ≠ 0 := by omega
  rw [idftC_getD _ _ _ hm]
  have h1 : ∀ b ∈ range num,
      (Y.map (fun z => z / s)).getD b 0 * starRingEnd ℂ (omega num ^ (m * b))
        = ∑ k ∈ Icc (-(K : ℤ)) K,
            c k / s * ((if (num : ℤ) ∣ k - b then A else 0) * chr num ((m : ℤ) * b)) := by
    intro b hb
    rw [getD_map_div, hY b (Finset.mem_range.mp hb), conj_omega_pow_eq_chr, bins, div_eq_mul_inv,
      Finset.sum_mul, Finset.sum_mul]
    apply Finset.sum_congr rfl
    intro k _
    push_cast; ring
  rw [Finset.sum_congr rfl h1, Finset.sum_comm, trigPoly, Finset.mul_sum, div_eq_mul_inv,
    Finset.sum_mul]
  apply Finset.sum_congr rfl
  intro k _
  rw [← Finset.mul_sum, sum_bins_chr num hL]
  ring

/-! ## unchanged length: the copy is the identity -/

theorem copySpectrum_same (X : List ℂ) (N : ℕ) (hX : X.length = N) :
    copySpectrum (α := ℝ) X N N = X := by
  apply List.ext_getElem (by simp [hX])
  intro b h1 h2
  have hb : b < N := by simpa using h1
  rw [getElem_eq_getD _ _ h1, getElem_eq_getD _ _ h2]
  unfold copySpectrum
  rw [fixNyquist_getD _ _ _ _ _ hb (length_copyNeg _ _ _ _ (length_copyPos _ _ _))]
  simp only [lt_irrefl, if_false, ite_self]
  rw [copyNeg_getD _ _ _ _ hb]
  have hone : oneSided N N = N / 2 + 1 := by simp [oneSided, relBins]
  have hneg : negBins N N = N - (N / 2 + 1) := by simp [negBins, oneSided, relBins]
  rw [hone, hneg]
  split_ifs with h3 h4
  · congr 1; omega
  · rfl
  · omega

/-- `e^{2πi/4} = i` (for concrete examples on four samples) -/
theorem exp_quarter : cexp (2 * Real.pi * I / (4 : ℕ)) = I := by
  have : (2 * Real.pi * I / (4 : ℕ) : ℂ) = Real.pi / 2 * I := by push_cast; ring
  rw [this, Complex.exp_mul_I]
  simp

theorem exp_quarter_zpow (k : ℤ) (j : ℕ) : cexp (2 * Real.pi * I * k * j / (4 : ℕ)) = I ^ (k * j) := by
  have h : I ^ (k * j) = cexp (2 * Real.pi * I / (4 : ℕ)) ^ (k * j) := by rw [exp_quarter]
  rw [h, ← Complex.exp_int_mul]; congr 1; push_cast; ring

/-! ## the whole pipeline from a hypothesis on the spectrum -/

/-- the model's character `chr L (k·j)` in the notation of the statements -/
theorem chr_eq_exp (L : ℕ) (k : ℤ) (j : ℕ) :
    chr L (k * j) = cexp (2 * Real.pi * I * k * j / L) := by
  rw [chr]; congr 1; push_cast; ring

theorem trigPoly_eq (c : ℤ → ℂ) (K L j : ℕ) :
    trigPoly c K L j = ∑ k ∈ Icc (-(K : ℤ)) K, c k * cexp (2 * Real.pi * I * k * j / L) := by
  unfold trigPoly
  apply Finset.sum_congr rfl
  intro k _
  rw [chr_eq_exp]

/-- the copy step on the closed band `2K ≤ N`, `2K ≤ num` (a component at the old Nyquist frequency must be a
cosine when up-sampling) -/
theorem copySpectrum_bins_closed (c : ℤ → ℂ) (K N num : ℕ) (A : ℂ) (X : List ℂ) (hN : 1 ≤ N)
    (hKN : 2 * K ≤ N) (hKn : 2 * K ≤ num) (hc : 2 * K = N → N < num → c (-(K : ℤ)) = c K)
    (hX : ∀ b, b < N → X.getD b 0 = bins c K N A b) (hXl : X.length = N) (b : ℕ) (hb : b < num) :
    (copySpectrum (α := ℝ) X N num).getD b 0 = bins c K num A b := by
  by_cases hstrict : 2 * K < N ∧ 2 * K < num
  · exact copySpectrum_bins c K N num A X hstrict.1 hstrict.2 hX b hb
  · rcases Nat.lt_trichotomy N num with h | h | h
    · exact copySpectrum_bins_up c K N num A X (by omega) (by omega) h (hc (by omega) h) hX b hb
    · subst h
      rw [copySpectrum_same _ _ hXl, hX b hb]
    · exact copySpectrum_bins_down c K N num A X (by omega) (by omega) h hX b hb

/-- if the spectrum of the record carries `N·c_k` at bin `k mod N` (`|k| ≤ K`, closed band), the resampled record
is `Σ c_k e^{2πi k m/num}` -/
theorem resample_of_spectrum (c : ℤ → ℂ) (K N num : ℕ) (hN : 1 ≤ N) (hn : 1 ≤ num)
    (hKN : 2 * K ≤ N) (hKn : 2 * K ≤ num) (hc : 2 * K = N → N < num → c (-(K : ℤ)) = c K)
    (x : List ℂ) (hlen : x.length = N)
    (hX : ∀ b, b < N → (dft twC x N).getD b 0 = bins c K N (N : ℂ) b) (m : ℕ) (hm : m < num) :
    (resampleFourier (α := ℝ) twC x num).getD m 0 = trigPoly c K num m := by
  have hY := copySpectrum_bins_closed c K N num (N : ℂ) (dft twC x N) hN hKN hKn hc hX
    (length_dft _ _ _)
  unfold resampleFourier
  simp only [hlen]
  rw [idft_bins c K num (N : ℂ) _ _ hY m hm]
  have h1 : (N : ℂ) ≠ 0 := by exact_mod_cast (by omega : N ≠ 0)
  have h2 : (num : ℂ) ≠ 0 := by exact_mod_cast (by omega : num ≠ 0)
  have : (N : ℂ) / (CxLike.ofReal (((N : ℕ) : ℝ) / ((num : ℕ) : ℝ)) : ℂ) / (num : ℂ) = 1 := by
    simp only [cxlike_ofReal]
    push_cast
    field_simp
  rw [this, one_mul]

/-- unchanged length: the record comes back -/
theorem resampleFourier_same (x : List ℂ) (hx : 1 ≤ x.length) :
    resampleFourier (α := ℝ) twC x x.length = x := by
  have hNc : ((x.length : ℕ) : ℂ) ≠ 0 := by exact_mod_cast (by omega : x.length ≠ 0)
  unfold resampleFourier
  simp only
  rw [copySpectrum_same _ _ (length_dft _ _ _)]
  have h1 : (CxLike.ofReal (((x.length : ℕ) : ℝ) / ((x.length : ℕ) : ℝ)) : ℂ) = 1 := by
    simp only [cxlike_ofReal]; push_cast; exact div_self hNc
  rw [h1]
  simp only [div_one, List.map_id']
  rw [idft_dft, padTo_of_length _ _ rfl]

/-! ## every record is a balanced trigonometric polynomial of degree `⌊N/2⌋` -/

theorem emod_toNat (N : ℕ) (k : ℤ) (b : ℕ) (hb : b < N) (h : (N : ℤ) ∣ k - b) : (k % N).toNat = b := by
  have h1 : k % (N : ℤ) = (b : ℤ) % N :=
    Int.emod_eq_emod_iff_emod_sub_eq_zero.mpr (Int.emod_eq_zero_of_dvd h)
  rw [h1, Int.emod_eq_of_lt (by omega) (by omega), Int.toNat_natCast]

/-- the coefficients of the balanced trigonometric interpolant of the record: `X_{k mod N}/N`, halved at
`|k| = N/2` (even `N`) -/
def coef (x : List ℂ) (k : ℤ) : ℂ :=
  (if 2 * k.natAbs = x.length then 1 / 2 else 1)
    * (dft twC x x.length).getD (k % (x.length : ℤ)).toNat 0 / x.length

theorem coef_symm (x : List ℂ) (K : ℕ) (hK : 2 * K = x.length) (hK1 : 1 ≤ K) :
    coef x (-(K : ℤ)) = coef x K := by
  unfold coef
  have e1 : (-(K : ℤ) % (x.length : ℤ)).toNat = K :=
    emod_toNat _ _ K (by omega) ⟨-1, by omega⟩
  have e2 : ((K : ℤ) % (x.length : ℤ)).toNat = K := emod_toNat _ _ K (by omega) ⟨0, by omega⟩
  rw [e1, e2]
  simp

/-- the spectrum of ANY record carries `N·coef_k` at bin `k mod N`, `|k| ≤ ⌊N/2⌋` -/
theorem dft_bins_coef (x : List ℂ) (N : ℕ) (hlen : x.length = N) (b : ℕ) (hb : b < N) :
    (dft twC x N).getD b 0 = bins (coef x) (N / 2) N (N : ℂ) b := by
  have hNc : (N : ℂ) ≠ 0 := by exact_mod_cast (by omega : N ≠ 0)
  rcases Nat.lt_trichotomy (2 * b) N with h | h | h
  · -- below the Nyquist bin: the single harmonic `k = b`
    rw [bins_single (coef x) (N / 2) N (N : ℂ) b b (by omega) (fun k hk1 hk2 => by
      rw [dvd_iff_eq N _ (k - b) 0 (by ring) (by omega) (by omega)]; omega)]
    unfold coef
    rw [hlen, emod_toNat N b b hb ⟨0, by omega⟩, if_neg (by omega)]
    field_simp
  · -- the Nyquist bin of an even length: the pair `k = ±N/2`
    have hK : N / 2 = b := by omega
    rw [hK, bins_pair (coef x) b N (N : ℂ) b b (-(b : ℤ)) (by omega) (by omega) (by omega)
      (fun k hk1 hk2 => by
        constructor
        · intro hd
          by_cases hkK : k = -(b : ℤ)
          · exact Or.inr hkK
          · left
            have := (dvd_iff_eq N _ (k - b) 0 (by ring) (by omega) (by omega)).mp hd
            omega
        · rintro (e | e)
          · subst e; simp
          · subst e; exact ⟨-1, by omega⟩),
      coef_symm x b (by omega) (by omega)]
    unfold coef
    rw [hlen, emod_toNat N b b hb ⟨0, by omega⟩, if_pos (by omega)]
    field_simp
    ring
  · -- above: the single harmonic `k = b − N`
    rw [bins_single (coef x) (N / 2) N (N : ℂ) b ((b : ℤ) - N) (by omega) (fun k hk1 hk2 => by
      rw [dvd_iff_eq N _ (k - b + N) (-1) (by ring) (by omega) (by omega)]; omega)]
    unfold coef
    rw [hlen, emod_toNat N ((b : ℤ) - N) b hb ⟨-1, by ring⟩, if_neg (by omega)]
    field_simp

/-- every record is the sampling of its balanced trigonometric interpolant -/
theorem record_eq_trigPoly (x : List ℂ) (N : ℕ) (hN : 1 ≤ N) (hlen : x.length = N) (j : ℕ) (hj : j < N) :
    x.getD j 0 = trigPoly (coef x) (N / 2) N j := by
  have h := resample_of_spectrum (coef x) (N / 2) N N hN hN (by omega) (by omega) (fun _ h => by omega)
    x hlen (dft_bins_coef x N hlen) j hj
  rw [← h, ← hlen, resampleFourier_same x (by omega)]

/-- sampling the polynomial on an `r`-fold finer grid at the instants of the old grid -/
theorem trigPoly_refine (c : ℤ → ℂ) (K N r j : ℕ) (hN : 1 ≤ N) (hr : 1 ≤ r) :
    trigPoly c K (r * N) (r * j) = trigPoly c K N j := by
  unfold trigPoly
  apply Finset.sum_congr rfl
  intro k _
  rw [chr, chr]
  congr 2
  have h1 : (N : ℂ) ≠ 0 := by exact_mod_cast (by omega : N ≠ 0)
  have h2 : (r : ℂ) ≠ 0 := by exact_mod_cast (by omega : r ≠ 0)
  push_cast
  field_simp

/-! ## the copy step only reads the low bins -/

theorem copyNeg_congr (X X' : List ℂ) (N num : ℕ)
    (h : ∀ b, (b ≤ min num N / 2 ∨ N - min num N / 2 ≤ b) → X.getD b 0 = X'.getD b 0)
    (b : ℕ) (hb : b < num) :
    (copyNeg (copyPos X N num) X N num).getD b 0 = (copyNeg (copyPos X' N num) X' N num).getD b 0 := by
  rw [copyNeg_getD _ _ _ _ hb, copyNeg_getD _ _ _ _ hb]
  have hone : oneSided N num = min num N / 2 + 1 := rfl
  have hneg : negBins N num = min num N - (min num N / 2 + 1) := rfl
  rw [hone, hneg]
  split_ifs with h1 h2
  · exact h _ (by omega)
  · exact h _ (by omega)
  · rfl

/-- the copied spectrum only depends on the bins `b ≤ m/2` and `b ≥ N − m/2` of `X` -/
theorem copySpectrum_congr (X X' : List ℂ) (N num : ℕ)
    (h : ∀ b, (b ≤ min num N / 2 ∨ N - min num N / 2 ≤ b) → X.getD b 0 = X'.getD b 0)
    (b : ℕ) (hb : b < num) :
    (copySpectrum (α := ℝ) X N num).getD b 0 = (copySpectrum (α := ℝ) X' N num).getD b 0 := by
  unfold copySpectrum
  rw [fixNyquist_getD _ _ _ _ _ hb (length_copyNeg _ _ _ _ (length_copyPos _ _ _)),
    fixNyquist_getD _ _ _ _ _ hb (length_copyNeg _ _ _ _ (length_copyPos _ _ _)),
    copyNeg_congr X X' N num h b hb,
    copyNeg_congr X X' N num h (relBins N num / 2) (by unfold relBins; omega),
    h (N - relBins N num / 2) (Or.inr (le_refl _))]

/-- harmonics above `K'` do not reach the low bins: the sum may be truncated -/
theorem bins_truncate (c : ℤ → ℂ) (K K' N : ℕ) (A : ℂ) (b : ℕ) (hKK : K' ≤ K) (hK : 2 * K ≤ N)
    (hK' : 2 * K' < N) (hbN : b < N) (hb : b ≤ K' ∨ N - K' ≤ b) :
    bins c K N A b = bins c K' N A b := by
  unfold bins
  symm
  apply Finset.sum_subset
  · intro k hk
    rw [Finset.mem_Icc] at hk ⊢
    omega
  · intro k hk hnk
    rw [Finset.mem_Icc] at hk hnk
    rw [if_neg, mul_zero]
    rcases hb with hb | hb
    · rw [dvd_iff_eq N _ (k - b) 0 (by ring) (by omega) (by omega)]; omega
    · rw [dvd_iff_eq N _ (k - b + N) (-1) (by ring) (by omega) (by omega)]; omega

/-! ## down-sampling any record: ideal low-pass, then sampling -/

/-- the record low-passed to the harmonics `|k| ≤ K'` -/
def lowpass (x : List ℂ) (K' : ℕ) : List ℂ :=
  (List.range x.length).map (fun j => trigPoly (coef x) K' x.length j)

theorem resampleFourier_lowpass (x : List ℂ) (N num : ℕ) (hN : 1 ≤ N) (hn : 1 ≤ num) (hlen : x.length = N)
    (hdown : num < N) :
    resampleFourier (α := ℝ) twC x num = resampleFourier (α := ℝ) twC (lowpass x (num / 2)) num := by
  have hl : (lowpass x (num / 2)).length = N := by simp [lowpass, hlen]
  have hX' : ∀ b, b < N → (dft twC (lowpass x (num / 2)) N).getD b 0
      = bins (coef x) (num / 2) N (N : ℂ) b :=
    dft_trigPoly (coef x) (num / 2) N _ (fun j hj => by
      rw [lowpass, getD_map_range, hlen, if_pos hj])
  have hcopy : copySpectrum (α := ℝ) (dft twC x N) N num
      = copySpectrum (α := ℝ) (dft twC (lowpass x (num / 2)) N) N num := by
    apply List.ext_getElem (by simp)
    intro b h1 h2
    have hb : b < num := by simpa using h1
    rw [getElem_eq_getD _ _ h1, getElem_eq_getD _ _ h2]
    apply copySpectrum_congr _ _ _ _ _ b hb
    intro i hi
    have hmin : min num N = num := by omega
    rw [hmin] at hi
    by_cases hiN : i < N
    · rw [dft_bins_coef x N hlen i hiN, hX' i hiN]
      exact bins_truncate (coef x) (N / 2) (num / 2) N (N : ℂ) i (by omega) (by omega) (by omega) hiN hi
    · rw [getD_of_not_lt _ _ (by simpa using hiN), getD_of_not_lt _ _ (by simpa using hiN)]
  unfold resampleFourier
  simp only [hlen, hl, hcopy]

/-- ANY record, ANY new length: the output is the record's balanced trigonometric interpolant, truncated to the
harmonics `|k| ≤ min(num, N)/2`, sampled on the new grid -/
theorem resample_truncated (x : List ℂ) (N num : ℕ) (hN : 1 ≤ N) (hn : 1 ≤ num) (hlen : x.length = N)
    (m : ℕ) (hm : m < num) :
    (resampleFourier (α := ℝ) twC x num).getD m 0 = trigPoly (coef x) (min num N / 2) num m := by
  by_cases hdown : num < N
  · have hmin : min num N = num := by omega
    have hl : (lowpass x (num / 2)).length = N := by simp [lowpass, hlen]
    rw [hmin, resampleFourier_lowpass x N num hN hn hlen hdown]
    exact resample_of_spectrum (coef x) (num / 2) N num hN hn (by omega) (by omega) (fun h => by omega)
      _ hl (dft_trigPoly (coef x) (num / 2) N _ (fun j hj => by
        rw [lowpass, getD_map_range, hlen, if_pos hj])) m hm
  · have hmin : min num N = N := by omega
    rw [hmin]
    exact resample_of_spectrum (coef x) (N / 2) N num hN hn (by omega) (by omega)
      (fun h _ => coef_symm x (N / 2) (by omega) (by omega)) x hlen (dft_bins_coef x N hlen) m hm

/-! ## a real record gives a real output -/

theorem conj_chr (L : ℕ) (n : ℤ) : starRingEnd ℂ (chr L n) = chr L (-n) := by
  rw [chr, chr, ← Complex.exp_conj]
  congr 1
  simp only [map_div₀, map_mul, Complex.conj_I, Complex.conj_ofReal, map_ofNat, map_natCast,
    map_intCast]
  push_cast; ring

/-- Hermitian symmetry of the interpolant's coefficients for a real record -/
theorem conj_coef (x : List ℂ) (hN : 1 ≤ x.length)
    (hx : ∀ j, starRingEnd ℂ (x.getD j 0) = x.getD j 0) (k : ℤ) :
    starRingEnd ℂ (coef x k) = coef x (-k) := by
  unfold coef
  generalize hNdef : x.length = N at hN ⊢
  have hNpos : (0 : ℤ) < N := by omega
  obtain ⟨i, hi⟩ : ∃ i : ℕ, (i : ℤ) = k % N :=
    ⟨(k % N).toNat, Int.toNat_of_nonneg (Int.emod_nonneg _ (by omega))⟩
  have hilt : i < N := by have := Int.emod_lt_of_pos k hNpos; omega
  obtain ⟨q, hq⟩ : (N : ℤ) ∣ k - i := Int.dvd_self_sub_of_emod_eq hi.symm
  have e1 : (k % (N : ℤ)).toNat = i := by rw [← hi]; simp
  rw [Int.natAbs_neg, e1]
  have hw : starRingEnd ℂ (if 2 * k.natAbs = N then (1 / 2 : ℂ) else 1)
      = (if 2 * k.natAbs = N then (1 / 2 : ℂ) else 1) := by
    split_ifs <;> simp [map_ofNat]
  by_cases h0 : i = 0
  · have e2 : ((-k) % (N : ℤ)).toNat = 0 :=
      emod_toNat N (-k) 0 (by omega) ⟨-q, by subst h0; push_cast at hq ⊢; linear_combination (-1 : ℤ) * hq⟩
    rw [e2, h0, map_div₀, map_mul, hw, dftC_zero_real x N (by omega) hx, map_natCast]
  · have hc : ((N - i : ℕ) : ℤ) = (N : ℤ) - i := by omega
    have e2 : ((-k) % (N : ℤ)).toNat = N - i :=
      emod_toNat N (-k) (N - i) (by omega) ⟨-q - 1, by rw [hc]; linear_combination (-1 : ℤ) * hq⟩
    rw [e2, map_div₀, map_mul, hw, dftC_conj_of_real x N i (by omega) hilt hx, map_natCast]

/-- a real record is resampled to a real record (so the real parts, `resampleReal`, lose nothing) -/
theorem resample_real (x : List ℂ) (N num : ℕ) (hN : 1 ≤ N) (hn : 1 ≤ num) (hlen : x.length = N)
    (hx : ∀ j, starRingEnd ℂ (x.getD j 0) = x.getD j 0) (m : ℕ) (hm : m < num) :
    starRingEnd ℂ ((resampleFourier (α := ℝ) twC x num).getD m 0)
      = (resampleFourier (α := ℝ) twC x num).getD m 0 := by
  rw [resample_truncated x N num hN hn hlen m hm, trigPoly, map_sum]
  apply Finset.sum_nbij' (fun k => -k) (fun k => -k)
  · intro k hk; rw [Finset.mem_Icc] at hk ⊢; omega
  · intro k hk; rw [Finset.mem_Icc] at hk ⊢; omega
  · intro k _; simp
  · intro k _; simp
  · intro k _
    rw [map_mul, conj_coef x (by omega) hx, conj_chr]
    congr 2; ring

/-! ## a cosine exactly at the Nyquist frequency -/

/-- a sum over `|k| ≤ P` whose coefficients live on `k = ±P` -/
theorem sum_pm (P : ℕ) (hP : 1 ≤ P) (a : ℂ) (f : ℤ → ℂ) :
    ∑ k ∈ Icc (-(P : ℤ)) P, (if k = (P : ℤ) ∨ k = -(P : ℤ) then a else 0) * f k
      = a * f P + a * f (-(P : ℤ)) := by
  have hterm : ∀ k ∈ Icc (-(P : ℤ)) P, (if k = (P : ℤ) ∨ k = -(P : ℤ) then a else 0) * f k
      = (if k = (P : ℤ) then a * f P else 0) + (if k = -(P : ℤ) then a * f (-(P : ℤ)) else 0) := by
    intro k _
    by_cases e0 : k = (P : ℤ)
    · subst e0
      rw [if_pos (Or.inl rfl), if_pos rfl, if_neg (by omega), add_zero]
    · by_cases e1 : k = -(P : ℤ)
      · subst e1
        rw [if_pos (Or.inr rfl), if_neg e0, if_pos rfl, zero_add]
      · rw [if_neg (by rintro (e | e) <;> contradiction), if_neg e0, if_neg e1, zero_mul, add_zero]
  rw [Finset.sum_congr rfl hterm, Finset.sum_add_distrib, Finset.sum_ite_eq' _ (P : ℤ),
    Finset.sum_ite_eq' _ (-(P : ℤ)), if_pos (Finset.mem_Icc.mpr (by omega)),
    if_pos (Finset.mem_Icc.mpr (by omega))]

/-- `e^{2πi P j/(2P)} = (−1)^j` -/
theorem exp_nyquist (P j : ℕ) (hP : 1 ≤ P) :
    cexp (2 * Real.pi * I * ((P : ℕ) : ℤ) * j / ((2 * P : ℕ) : ℂ)) = (-1) ^ j := by
  have hPc : (P : ℂ) ≠ 0 := by exact_mod_cast (by omega : P ≠ 0)
  have : (2 * Real.pi * I * (((P : ℕ) : ℤ) : ℂ) * j / ((2 * P : ℕ) : ℂ)) = (j : ℂ) * (Real.pi * I) := by
    push_cast; field_simp
  rw [this, Complex.exp_nat_mul, Complex.exp_pi_mul_I]

/-- `e^{−2πi P j/(2P)} = (−1)^j` -/
theorem exp_nyquist_neg (P j : ℕ) (hP : 1 ≤ P) :
    cexp (2 * Real.pi * I * ((-((P : ℕ) : ℤ) : ℤ) : ℂ) * j / ((2 * P : ℕ) : ℂ)) = (-1) ^ j := by
  have : (2 * Real.pi * I * ((-((P : ℕ) : ℤ) : ℤ) : ℂ) * j / ((2 * P : ℕ) : ℂ))
      = -(2 * Real.pi * I * (((P : ℕ) : ℤ) : ℂ) * j / ((2 * P : ℕ) : ℂ)) := by
    push_cast; ring
  rw [this, Complex.exp_neg, exp_nyquist P j hP, ← inv_pow]
  norm_num

end EqsigVerif.Model.Resample
