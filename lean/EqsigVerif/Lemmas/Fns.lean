import EqsigVerif.Model.Fns
import EqsigVerif.Spec.Fns
import EqsigVerif.Lemmas.Np
import Mathlib.Algebra.BigOperators.Group.List.Basic
import Mathlib.Algebra.BigOperators.Ring.List
import Mathlib.Algebra.Order.BigOperators.Group.List
import Mathlib.Tactic.Ring
import Mathlib.Tactic.Linarith
import Mathlib.Tactic.FieldSimp
import Mathlib.Tactic.Positivity
/-!
# Lemmas for `Model/Fns.lean` (C20.a–e)
-/
set_option linter.unusedSectionVars false
set_option linter.unusedVariables false
namespace EqsigVerif.Lemmas.Fns
open EqsigVerif EqsigVerif.Np EqsigVerif.Wire EqsigVerif.Model.Fns EqsigVerif.Spec.Fns

/-! ## generic helpers -/

theorem mapM_ok {β γ : Type} (f : β → Except ErrKind γ) (g : β → γ) (l : List β)
    (h : ∀ a ∈ l, f a = .ok (g a)) : l.mapM f = .ok (l.map g) := by
  induction l with
  | nil => rfl
  | cons a as ih =>
    rw [List.mapM_cons, h a (by simp), ih (fun b hb => h b (by simp [hb]))]
    rfl

theorem mapM_error {β γ : Type} (f : β → Except ErrKind γ) (l : List β) (e : ErrKind)
    (r : List γ) (h : l.mapM f = .ok r) : ∀ a ∈ l, ∃ c, f a = .ok c := by
  induction l generalizing r with
  | nil => simp
  | cons a as ih =>
    rw [List.mapM_cons] at h
    cases hfa : f a with
    | error e' => rw [hfa] at h; cases h
    | ok c =>
      rw [hfa] at h
      cases has : as.mapM f with
      | error e' => rw [has] at h; cases h
      | ok cs =>
        intro b hb
        rcases List.mem_cons.mp hb with rfl | hb
        · exact ⟨c, hfa⟩
        · exact ih cs has b hb

theorem pyGet_nat {β : Type} (l : List β) (i : Nat) (h : i < l.length) :
    pyGet l (i : Int) = .ok l[i] := by
  unfold pyGet
  have h1 : ¬ ((i : Int) < 0) := by omega
  simp [h1, h]

/-! ## first minimum (`np.argmin`) -/
section Argmin
variable {α : Type} [LinearOrder α]

theorem argminFrom_spec (bi i : Nat) (bv : α) (l : List α) :
    (argminFrom bi bv i l = bi ∧ ∀ x ∈ l, bv ≤ x) ∨
    (∃ j, ∃ h : j < l.length, argminFrom bi bv i l = i + j ∧ l[j] < bv ∧
        (∀ j' (h' : j' < l.length), j' < j → l[j] < l[j']) ∧ ∀ j' (h' : j' < l.length), l[j] ≤ l[j']) := by
  induction l generalizing bi i bv with
  | nil => left; simp [argminFrom]
  | cons x xs ih =>
    unfold argminFrom
    by_cases hx : x < bv
    · rw [if_pos hx]
      right
      rcases ih i (i+1) x with ⟨h1, h2⟩ | ⟨j, hj, h1, h2, h3, h4⟩
      · refine ⟨0, by simp, by simpa using h1, by simpa using hx, ?_, ?_⟩
        · intro j' h' hlt; omega
        · intro j' h'
          cases j' with
          | zero => simp
          | succ k => simp only [List.getElem_cons_zero, List.getElem_cons_succ]; exact h2 _ (List.getElem_mem _)
      · refine ⟨j+1, by simpa using hj, by rw [h1]; omega, ?_, ?_, ?_⟩
        · simp only [List.getElem_cons_succ]; exact lt_trans h2 hx
        · intro j' h' hlt
          cases j' with
          | zero => simpa using h2
          | succ k =>
            simp only [List.getElem_cons_succ]
            exact h3 k (by simpa using h') (by omega)
        · intro j' h'
          cases j' with
          | zero => simpa using le_of_lt h2
          | succ k => simp only [List.getElem_cons_succ]; exact h4 k (by simpa using h')
    · rw [if_neg hx]
      have hx' : bv ≤ x := not_lt.mp hx
      rcases ih bi (i+1) bv with ⟨h1, h2⟩ | ⟨j, hj, h1, h2, h3, h4⟩
      · left
        refine ⟨h1, ?_⟩
        intro y hy
        rcases List.mem_cons.mp hy with rfl | hy
        · exact hx'
        · exact h2 y hy
      · right
        refine ⟨j+1, by simpa using hj, by rw [h1]; omega, ?_, ?_, ?_⟩
        · simpa using h2
        · intro j' h' hlt
          cases j' with
          | zero => simpa using lt_of_lt_of_le h2 hx'
          | succ k =>
            simp only [List.getElem_cons_succ]
            exact h3 k (by simpa using h') (by omega)
        · intro j' h'
          cases j' with
          | zero => simpa using le_of_lt (lt_of_lt_of_le h2 hx')
          | succ k => simp only [List.getElem_cons_succ]; exact h4 k (by simpa using h')

/-- `np.argmin` returns the index of the first minimum -/
theorem argmin_spec (l : List α) (hl : l ≠ []) :
    ∃ r, argmin l = r ∧ ∃ h : r < l.length, (∀ j (hj : j < l.length), l[r] ≤ l[j]) ∧
      ∀ j (hj : j < l.length), j < r → l[r] < l[j] := by
  cases l with
  | nil => exact absurd rfl hl
  | cons x xs =>
    have e0 : argmin (x :: xs) = argminFrom 0 x 1 xs := rfl
    rcases argminFrom_spec 0 1 x xs with ⟨h1, h2⟩ | ⟨j, hj, h1, h2, h3, h4⟩
    · refine ⟨0, by rw [e0, h1], by simp, ?_, ?_⟩
      · intro j hj
        cases j with
        | zero => simp
        | succ k => simp only [List.getElem_cons_zero, List.getElem_cons_succ]; exact h2 _ (List.getElem_mem _)
      · intro j hj hlt; omega
    · refine ⟨j + 1, by rw [e0, h1]; omega, by simpa using hj, ?_, ?_⟩
      · intro j' hj'
        cases j' with
        | zero => simpa using le_of_lt h2
        | succ k => simp only [List.getElem_cons_succ]; exact h4 k (by simpa using hj')
      · intro j' hj' hlt
        cases j' with
        | zero => simpa using h2
        | succ k => simp only [List.getElem_cons_succ]; exact h3 k (by simpa using hj') (by omega)

end Argmin


theorem mapM_forall₂ {β γ : Type} (f : β → Except ErrKind γ) (P : β → γ → Prop) (l : List β)
    (h : ∀ a ∈ l, ∃ c, f a = .ok c ∧ P a c) : ∃ r, l.mapM f = .ok r ∧ List.Forall₂ P l r := by
  induction l with
  | nil => exact ⟨[], rfl, List.Forall₂.nil⟩
  | cons a as ih =>
    obtain ⟨c, hc, hp⟩ := h a (by simp)
    obtain ⟨r, hr, hf⟩ := ih (fun b hb => h b (by simp [hb]))
    refine ⟨c :: r, ?_, List.Forall₂.cons hp hf⟩
    rw [List.mapM_cons, hc, hr]; rfl

/-! ## `interp_left` (C20.b) -/

theorem ssr_le (x : List ℚ) (q : ℚ) : searchsortedRight x q ≤ x.length := by
  induction x with
  | nil => simp [searchsortedRight]
  | cons a as ih => unfold searchsortedRight; split <;> simp; omega

theorem ssr_prefix (x : List ℚ) (q : ℚ) (i : Nat) (hi : i < x.length)
    (h : i < searchsortedRight x q) : x[i] ≤ q := by
  induction x generalizing i with
  | nil => simp at hi
  | cons a as ih =>
    unfold searchsortedRight at h
    split at h
    · cases i with
      | zero => simpa
      | succ k => simp only [List.getElem_cons_succ]; exact ih k (by simpa using hi) (by omega)
    · omega

theorem ssr_next (x : List ℚ) (q : ℚ) (h : searchsortedRight x q < x.length) :
    q < x[searchsortedRight x q] := by
  induction x with
  | nil => simp at h
  | cons a as ih =>
    by_cases ha : a ≤ q
    · have e : searchsortedRight (a :: as) q = searchsortedRight as q + 1 := by
        simp [searchsortedRight, ha]
      simp only [e, List.getElem_cons_succ]
      exact ih (by rw [e] at h; simpa using h)
    · have e : searchsortedRight (a :: as) q = 0 := by simp [searchsortedRight, ha]
      simp only [e, List.getElem_cons_zero]
      exact not_le.mp ha

theorem ssr_greatest (x : List ℚ) (q : ℚ) (hs : x.Pairwise (· ≤ ·)) (j : Nat) (hj : j < x.length)
    (h : x[j] ≤ q) : j < searchsortedRight x q := by
  by_contra hc
  have hc : searchsortedRight x q ≤ j := not_lt.mp hc
  have hlt : searchsortedRight x q < x.length := by omega
  have h1 := ssr_next x q hlt
  rcases Nat.lt_or_eq_of_le hc with h2 | h2
  · have := List.pairwise_iff_getElem.mp hs _ _ hlt hj h2
    linarith
  · simp only [h2] at h1; linarith

/-- the index `searchsorted(right) − 1` is the greatest node `≤ q` (for sorted `x`, `x[0] ≤ q`) -/
theorem ssr_isLeftNode (x : List ℚ) (q : ℚ) (hs : x.Pairwise (· ≤ ·)) (hx : x ≠ []) (h0 : x.head hx ≤ q) :
    1 ≤ searchsortedRight x q ∧ IsLeftNode x q (searchsortedRight x q - 1) := by
  have hpos : 0 < x.length := List.length_pos_iff.mpr hx
  have h1 : 0 < searchsortedRight x q :=
    ssr_greatest x q hs 0 hpos (by rw [← List.head_eq_getElem_zero hx] ; exact h0)
  have hle := ssr_le x q
  refine ⟨h1, by omega, ssr_prefix x q _ (by omega) (by omega), ?_⟩
  intro j' hj' hle'
  have := ssr_greatest x q hs j' hj' hle'
  omega

theorem minL?_spec (l : List ℚ) (hl : l ≠ []) :
    ∃ m, minL? l = some m ∧ m ∈ l ∧ ∀ x ∈ l, m ≤ x := by
  cases l with
  | nil => exact absurd rfl hl
  | cons a as =>
    refine ⟨minFrom a as, rfl, ?_, ?_⟩
    · rcases minFrom_mem a as with h | h
      · rw [h]; simp
      · exact List.mem_cons_of_mem _ h
    · intro x hx
      obtain ⟨h1, h2⟩ := minFrom_le a as
      rcases List.mem_cons.mp hx with rfl | hx
      · exact h1
      · exact h2 x hx

/-- the index stage of `interp_left` -/
theorem interpLeftInds_spec (x0s x : List ℚ) (hx0 : x0s ≠ []) (hx : x ≠ []) :
    ((∃ q ∈ x0s, q < x.head hx) → interpLeftInds x0s x = .error .AssertionError) ∧
    ((∀ q ∈ x0s, x.head hx ≤ q) →
      interpLeftInds x0s x = .ok (x0s.map (fun q => (searchsortedRight x q : Int) - 1))) := by
  obtain ⟨m, hm, hmem, hmin⟩ := minL?_spec x0s hx0
  cases x with
  | nil => exact absurd rfl hx
  | cons a as =>
    simp only [List.head_cons]
    constructor
    · rintro ⟨q, hq, hlt⟩
      have : m < a := lt_of_le_of_lt (hmin q hq) hlt
      simp [interpLeftInds, hm, this]
    · intro h
      have : ¬ m < a := not_lt.mpr (h m hmem)
      simp [interpLeftInds, hm, this]


theorem mapM_map_forall₂ {δ β γ : Type} (g : δ → β) (f : β → Except ErrKind γ) (P : δ → γ → Prop)
    (l : List δ) (h : ∀ a ∈ l, ∃ c, f (g a) = .ok c ∧ P a c) :
    ∃ r, (l.map g).mapM f = .ok r ∧ List.Forall₂ P l r := by
  induction l with
  | nil => exact ⟨[], rfl, List.Forall₂.nil⟩
  | cons a as ih =>
    obtain ⟨c, hc, hp⟩ := h a (by simp)
    obtain ⟨r, hr, hf⟩ := ih (fun b hb => h b (by simp [hb]))
    refine ⟨c :: r, ?_, List.Forall₂.cons hp hf⟩
    rw [List.map_cons, List.mapM_cons, hc, hr]; rfl

theorem interpLeft_ok (x0s x : List ℚ) (y : Option (List ℚ)) (hx0 : x0s ≠ []) (hx : x ≠ [])
    (hs : x.Pairwise (· ≤ ·)) (hy : ∀ yv, y = some yv → x.length ≤ yv.length)
    (h : ∀ q ∈ x0s, x.head hx ≤ q) :
    ∃ r, interpLeft x0s x y = .ok r ∧
      List.Forall₂ (fun q v => ∃ j, IsLeftNode x q j ∧ leftVal y j v) x0s r := by
  have hinds := (interpLeftInds_spec x0s x hx0 hx).2 h
  unfold interpLeft
  rw [hinds]
  have hlen : x.length ≤ (interpLeftY x y).length := by
    cases y with
    | none => simp [interpLeftY]
    | some y0 => exact hy y0 rfl
  have hval : ∀ j (hj : j < x.length), leftVal y j ((interpLeftY x y)[j]'(by omega)) := by
    intro j hj
    cases y with
    | none => simp [leftVal, interpLeftY]
    | some y0 => simp [leftVal, interpLeftY]
  refine mapM_map_forall₂ _ (pyGet (interpLeftY x y)) _ x0s ?_
  intro q hq
  obtain ⟨h1, hln⟩ := ssr_isLeftNode x q hs hx (h q hq)
  have hj := hln.1
  have e : (searchsortedRight x q : Int) - 1 = ((searchsortedRight x q - 1 : Nat) : Int) := by omega
  refine ⟨(interpLeftY x y)[searchsortedRight x q - 1]'(by omega), ?_, _, hln, hval _ hj⟩
  rw [e]; exact pyGet_nat _ _ (by omega)

theorem interpLeft_assert (x0s x : List ℚ) (y : Option (List ℚ)) (hx0 : x0s ≠ []) (hx : x ≠ [])
    (hs : x.Pairwise (· ≤ ·)) (hy : ∀ yv, y = some yv → x.length ≤ yv.length) :
    interpLeft x0s x y = .error .AssertionError ↔ ∃ q ∈ x0s, q < x.head hx := by
  constructor
  · intro herr
    by_contra hc
    have h : ∀ q ∈ x0s, x.head hx ≤ q := by
      intro q hq
      by_contra hlt
      exact hc ⟨q, hq, not_le.mp hlt⟩
    obtain ⟨r, hr, _⟩ := interpLeft_ok x0s x y hx0 hx hs hy h
    rw [hr] at herr; cases herr
  · intro h
    unfold interpLeft
    rw [(interpLeftInds_spec x0s x hx0 hx).1 h]; rfl

/-! ## `calc_roll_av_vals` (C20.c) -/

theorem cumsumFrom_getElem_take (acc : ℚ) (L : List ℚ) (k : Nat) (h : k < L.length) :
    (cumsumFrom acc L)[k]'(by simpa using h) = acc + (L.take (k+1)).sum := by
  induction L generalizing acc k with
  | nil => simp at h
  | cons a as ih =>
    cases k with
    | zero => simp [cumsumFrom]
    | succ j =>
      simp only [cumsumFrom, List.getElem_cons_succ, List.take_succ_cons, List.sum_cons]
      rw [ih (acc + a) j (by simpa using h)]; ring

/-- `csum = [0] ++ cumsum(L)`: `csum[k] = Σ L[:k]` -/
theorem csum_getElem (L : List ℚ) (k : Nat) (h : k < (0 :: cumsum L).length) :
    (0 :: cumsum L)[k] = (L.take k).sum := by
  cases k with
  | zero => simp
  | succ j =>
    simp only [List.getElem_cons_succ]
    unfold cumsum
    rw [cumsumFrom_getElem_take 0 L j (by simpa [cumsum] using h)]; ring

theorem take_sum_diff (L : List ℚ) (i s : Nat) (h : i + s ≤ L.length) :
    (L.take (i+s)).sum - (L.take i).sum = ((List.range s).map (fun j => L.getD (i+j) 0)).sum := by
  induction s with
  | zero => simp
  | succ t ih =>
    have hlt : i + t < L.length := by omega
    rw [List.sum_range_succ, ← ih (by omega), ← Nat.add_assoc, List.sum_take_succ L (i+t) hlt]
    rw [List.getD_eq_getElem?_getD, List.getElem?_eq_getElem hlt]; simp; ring

theorem ext_getD (values : List ℚ) (hne : values ≠ []) (a b k : Nat)
    (hk : k < a + values.length + b) :
    (List.replicate a (values.head hne) ++ values ++ List.replicate b (values.getLast hne)).getD k 0
      = edgeExt values ((k : Int) - a) := by
  have hn : 0 < values.length := List.length_pos_iff.mpr hne
  unfold edgeExt
  rw [List.getD_eq_getElem?_getD, List.getD_eq_getElem?_getD]
  by_cases h1 : k < a
  · have c1 : (k : Int) - a < 0 := by omega
    rw [if_pos c1, List.append_assoc, List.getElem?_append_left (by simpa using h1)]
    simp [h1, List.head_eq_getElem_zero, hn]
  · by_cases h2 : k < a + values.length
    · have c1 : ¬ ((k : Int) - a < 0) := by omega
      have c2 : ¬ ((k : Int) - a > (values.length : Int) - 1) := by omega
      rw [if_neg c1, if_neg c2, List.getElem?_append_left (by simp; omega),
        List.getElem?_append_right (by simp; omega)]
      simp only [List.length_replicate]
      congr 2; omega
    · have c1 : ¬ ((k : Int) - a < 0) := by omega
      have c2 : ((k : Int) - a > (values.length : Int) - 1) := by omega
      rw [if_neg c1, if_pos c2, List.getElem?_append_right (by simp; omega)]
      have : k - (a + values.length) < b := by omega
      simp [this, List.getLast_eq_getElem, hn]

theorem rollExt_eq (values : List ℚ) (hne : values ≠ []) (steps : Nat) (hs : 1 ≤ steps) (mode : Mode) :
    ∃ b, windowOffset steps mode + b + 1 = steps ∧
      rollExt values (values.head hne) (values.getLast hne) steps mode =
        List.replicate (windowOffset steps mode) (values.head hne) ++ values
          ++ List.replicate b (values.getLast hne) := by
  cases mode with
  | forward => exact ⟨steps - 1, by simp [windowOffset]; omega, by simp [rollExt, windowOffset]⟩
  | backward => exact ⟨0, by simp [windowOffset]; omega, by simp [rollExt, windowOffset]⟩
  | centre => exact ⟨steps - steps / 2 - 1, by simp [windowOffset]; omega, by simp [rollExt, windowOffset]⟩

theorem rollAv_spec (values : List ℚ) (hne : values ≠ []) (steps : Nat) (hs : 1 ≤ steps) (mode : Mode) :
    rollAv values steps mode = .ok ((List.range values.length).map
      (fun (i : Nat) => windowMean values steps ((i : Int) - (windowOffset steps mode : Int)))) := by
  obtain ⟨b, hb, hext⟩ := rollExt_eq values hne steps hs mode
  have h0 : values.head? = some (values.head hne) := List.head?_eq_some_head hne
  have hl : values.getLast? = some (values.getLast hne) := List.getLast?_eq_some_getLast hne
  unfold rollAv
  rw [h0, hl]
  simp only
  rw [if_neg (by omega), hext]
  set a := windowOffset steps mode with ha
  set L := List.replicate a (values.head hne) ++ values ++ List.replicate b (values.getLast hne) with hL
  have hLlen : L.length = values.length + steps - 1 := by simp [hL]; omega
  have hclen : (0 :: cumsum L).length = values.length + steps := by simp [hLlen]; omega
  congr 1
  apply List.ext_getElem
  · simp [hLlen]; omega
  · intro i h1 h2
    have hi : i < values.length := by simpa using h2
    rw [List.getElem_zipWith, List.getElem_drop, List.getElem_take, csum_getElem, csum_getElem]
    simp only [List.getElem_map, List.getElem_range]
    rw [Nat.add_comm steps i, take_sum_diff L i steps (by omega)]
    unfold windowMean
    congr 2
    apply List.map_congr_left
    intro j hj
    have hj : j < steps := by simpa using hj
    rw [hL, ext_getD values hne a b (i + j) (by omega)]
    congr 1; push_cast; ring

theorem edgeExt_of_nat (values : List ℚ) (i : Nat) (hi : i < values.length) :
    edgeExt values (i : Int) = values[i] := by
  unfold edgeExt
  have c1 : ¬ ((i : Int) < 0) := by omega
  have c2 : ¬ ((i : Int) > (values.length : Int) - 1) := by omega
  rw [if_neg c1, if_neg c2]
  simp [hi]

theorem edgeExt_replicate (n : Nat) (hn : 0 < n) (c : ℚ) (k : Int) :
    edgeExt (List.replicate n c) k = c := by
  unfold edgeExt
  rw [List.getD_eq_getElem?_getD, List.getElem?_replicate]
  simp only [List.length_replicate]
  split_ifs <;> first | rfl | omega

theorem windowMean_replicate (n : Nat) (hn : 0 < n) (c : ℚ) (steps : Nat) (hs : 1 ≤ steps) (a : Int) :
    windowMean (List.replicate n c) steps a = c := by
  unfold windowMean
  simp only [edgeExt_replicate n hn c]
  simp
  have : (steps : ℚ) ≠ 0 := by positivity
  field_simp

theorem windowMean_one (values : List ℚ) (a : Int) : windowMean values 1 a = edgeExt values a := by
  unfold windowMean
  simp

/-- constants are preserved -/
theorem rollAv_const (n : Nat) (hn : 0 < n) (c : ℚ) (steps : Nat) (hs : 1 ≤ steps) (mode : Mode) :
    rollAv (List.replicate n c) steps mode = .ok (List.replicate n c) := by
  rw [rollAv_spec _ (by intro h; have := congrArg List.length h; simp at this; omega) steps hs mode]
  congr 1
  apply List.ext_getElem
  · simp
  · intro i h1 h2
    simp [windowMean_replicate n hn c steps hs]

/-- `steps = 1` is the identity -/
theorem rollAv_one (values : List ℚ) (hne : values ≠ []) (mode : Mode) :
    rollAv values 1 mode = .ok values := by
  rw [rollAv_spec values hne 1 (le_refl 1) mode]
  congr 1
  apply List.ext_getElem
  · simp
  · intro i h1 h2
    have hi : i < values.length := by simpa using h1
    have : windowOffset 1 mode = 0 := by cases mode <;> simp [windowOffset]
    simp only [List.getElem_map, List.getElem_range, windowMean_one, this]
    simpa using edgeExt_of_nat values i hi

/-! ## `calc_step_fn_vals_error` (C20.d) -/

theorem sumAbsPow_eq (row : List ℚ) (m : ℚ) (p : Nat) : sumAbsPow row m p = sumAbsDev row m p := rfl

theorem sumAbsDev_append (a b : List ℚ) (m : ℚ) (p : Nat) :
    sumAbsDev (a ++ b) m p = sumAbsDev a m p + sumAbsDev b m p := by
  simp [sumAbsDev, List.sum_append]

theorem sumAbsDev_zeros (k : Nat) (m : ℚ) (p : Nat) :
    sumAbsDev (List.replicate k 0) m p = (k : ℚ) * absv m ^ p := by
  have : (if (0:ℚ) - m < 0 then -(0 - m) else 0 - m) = absv m := by
    rw [absv_eq_abs]
    have : (if (0:ℚ) - m < 0 then -(0 - m) else 0 - m) = absv (0 - m) := rfl
    rw [this, absv_eq_abs, zero_sub, abs_neg]
  simp only [sumAbsDev, List.map_replicate, List.sum_replicate, this, nsmul_eq_mul]

theorem sum_trilRow (v : List ℚ) (i : Nat) : rsum (trilRow v i) = (v.take (i+1)).sum := by
  simp [rsum, trilRow, List.sum_append, List.sum_replicate]

theorem sum_triuRow (v : List ℚ) (i : Nat) : rsum (triuRow v i) = (v.drop i).sum := by
  simp [rsum, triuRow, List.sum_append, List.sum_replicate]

theorem preMean_eq (v : List ℚ) (i : Nat) (hi : i < v.length) : preMean v i = mean (v.take (i+1)) := by
  unfold preMean mean
  rw [sum_trilRow, List.length_take, Nat.min_eq_left (by omega)]

theorem postMean_eq (v : List ℚ) (i : Nat) : postMean v i = mean (v.drop i) := by
  unfold postMean mean
  rw [sum_triuRow, List.length_drop]

theorem errPre_eq (v : List ℚ) (p i : Nat) (hi : i < v.length) :
    errPre v p i = sumAbsDev (v.take (i+1)) (mean (v.take (i+1))) p := by
  unfold errPre
  rw [sumAbsPow_eq, preMean_eq v i hi]
  unfold trilRow
  rw [sumAbsDev_append, sumAbsDev_zeros]; ring

theorem errPost_eq (v : List ℚ) (p i : Nat) (hi : i ≤ v.length) :
    errPost v p i = sumAbsDev (v.drop i) (mean (v.drop i)) p := by
  unfold errPost
  rw [sumAbsPow_eq, postMean_eq v i]
  unfold triuRow
  rw [sumAbsDev_append, sumAbsDev_zeros, Nat.min_eq_left hi]
  have : v.length - (v.length - i) = i := by omega
  rw [this]; ring

/-- every entry, the last one included, is the two-level fit error (the second level is empty at the end) -/
theorem stepErrRaw_eq (v : List ℚ) (hne : v ≠ []) (p : Nat) :
    stepErrRaw v p = (List.range v.length).map (stepFitErr v p) := by
  have hn : 0 < v.length := List.length_pos_iff.mpr hne
  unfold stepErrRaw
  have hsplit : List.range v.length = List.range (v.length - 1) ++ [v.length - 1] := by
    conv_lhs => rw [show v.length = (v.length - 1) + 1 by omega]
    rw [List.range_succ]
  simp only
  rw [hsplit, List.map_append]
  congr 1
  · apply List.map_congr_left
    intro k hk
    have hk : k < v.length - 1 := by simpa using hk
    rw [errPost_eq v p (k+1) (by omega), errPre_eq v p k (by omega)]
    unfold stepFitErr; ring
  · simp only [List.map_cons, List.map_nil]
    unfold stepFitErr
    have h1 : v.length - 1 + 1 = v.length := by omega
    rw [h1, List.take_length, List.drop_length, sumAbsPow_eq]
    simp [sumAbsDev, mean]

theorem stepErr_none (v : List ℚ) (hne : v ≠ []) (p : Nat) :
    stepErr v p .none = .ok ((List.range v.length).map (stepFitErr v p)) := by
  have hn : v.length ≠ 0 := by simpa using hne
  unfold stepErr
  simp only [hn, if_false, stepErrRaw_eq v hne p]


theorem maxL?_spec (l : List ℚ) (hl : l ≠ []) :
    ∃ M, maxL? l = some M ∧ M ∈ l ∧ ∀ x ∈ l, x ≤ M := by
  cases l with
  | nil => exact absurd rfl hl
  | cons a as =>
    refine ⟨maxFrom a as, rfl, ?_, ?_⟩
    · rcases maxFrom_mem a as with h | h
      · rw [h]; simp
      · exact List.mem_cons_of_mem _ h
    · intro x hx
      obtain ⟨h1, h2⟩ := le_maxFrom a as
      rcases List.mem_cons.mp hx with rfl | hx
      · exact h1
      · exact h2 x hx

theorem zipWith_range_map {β : Type} (n : Nat) (g : Nat → β) (f : Nat → β → β) :
    List.zipWith f (List.range n) ((List.range n).map g) = (List.range n).map (fun k => f k (g k)) := by
  apply List.ext_getElem
  · simp
  · intro i h1 h2
    simp

/-- the `dir` rule: entries whose left mean (samples `0..k`) is below (`'down'`) / above (`'up'`) their
right mean (samples `k..`, the split sample included on both sides, as the code does) are set to `10·max(err)` -/
theorem stepErr_dir (v : List ℚ) (hne : v ≠ []) (p : Nat) :
    ∃ M, M ∈ (List.range v.length).map (stepFitErr v p) ∧
      (∀ e ∈ (List.range v.length).map (stepFitErr v p), e ≤ M) ∧
      stepErr v p .down = .ok ((List.range v.length).map (fun k =>
        if mean (v.take (k+1)) < mean (v.drop k) then M * 10 else stepFitErr v p k)) ∧
      stepErr v p .up = .ok ((List.range v.length).map (fun k =>
        if mean (v.take (k+1)) > mean (v.drop k) then M * 10 else stepFitErr v p k)) := by
  have hn : v.length ≠ 0 := by simpa using hne
  have hne' : (List.range v.length).map (stepFitErr v p) ≠ [] := by simpa using hn
  obtain ⟨M, hM, hmem, hmax⟩ := maxL?_spec _ hne'
  refine ⟨M, hmem, hmax, ?_, ?_⟩
  · unfold stepErr
    simp only [hn, if_false, stepErrRaw_eq v hne p, hM]
    rw [zipWith_range_map]
    congr 1
    apply List.map_congr_left
    intro k hk
    have hk : k < v.length := by simpa using hk
    rw [preMean_eq v k hk, postMean_eq]
  · unfold stepErr
    simp only [hn, if_false, stepErrRaw_eq v hne p, hM]
    rw [zipWith_range_map]
    congr 1
    apply List.map_congr_left
    intro k hk
    have hk : k < v.length := by simpa using hk
    rw [preMean_eq v k hk, postMean_eq]

/-! ## `calc_step_fn_steps_vals` (C20.e) -/

theorem mean?_eq (l : List ℚ) : mean? l = if l = [] then none else some (mean l) := by
  unfold mean? mean
  by_cases h : l = []
  · simp [h]
  · have : l.length ≠ 0 := by simpa using h
    simp [h, this, rsum]

theorem pyBound_nat (n k : Nat) (h : k ≤ n) : pyBound n (k : Int) = k := by
  unfold pyBound
  have c1 : ¬ ((k : Int) < 0) := by omega
  have c2 : ¬ ((k : Int) > n) := by omega
  simp [c1, c2]

theorem stepLevels_some (v : List ℚ) (k : Nat) (hk : k < v.length) :
    stepLevels v (some (k : Int)) = .ok (mean? (v.take k), mean? (v.drop (k+1))) := by
  unfold stepLevels stepLevelsAt pySliceTo pySliceFrom
  have := pyBound_nat v.length (k+1) (by omega)
  push_cast at this
  simp only [pyBound_nat v.length k (by omega), this]

theorem stepLevels_none (v : List ℚ) (hne : v ≠ []) :
    ∃ k, k < v.length ∧ (∀ j, j < v.length → stepFitErr v 1 k ≤ stepFitErr v 1 j) ∧
      (∀ j, j < k → stepFitErr v 1 k < stepFitErr v 1 j) ∧
      stepLevels v none = .ok (mean? (v.take k), mean? (v.drop (k+1))) := by
  have hn : v.length ≠ 0 := by simpa using hne
  have hne' : (List.range v.length).map (stepFitErr v 1) ≠ [] := by simpa using hn
  obtain ⟨k, hk, hlt, hmin, hfirst⟩ := argmin_spec _ hne'
  have hk' : k < v.length := by simpa using hlt
  refine ⟨k, hk', ?_, ?_, ?_⟩
  · intro j hj
    have := hmin j (by simpa using hj)
    simpa using this
  · intro j hj
    have := hfirst j (by simp; omega) hj
    simpa using this
  · have := stepLevels_some v k hk'
    unfold stepLevels at this ⊢
    rw [stepErr_none v hne 1]
    simp only [hk]
    exact this


/-! ## `interp2d` (C20.a) -/

theorem tol_pos : (0 : ℚ) < tol := by unfold tol; norm_num

theorem gap_lt (xf : List ℚ) (hg : GapNodes xf) (i j : Nat) (hj : j < xf.length) (hij : i < j) :
    xf[i] < xf[j] := by
  induction j with
  | zero => omega
  | succ k ih =>
    have h1 := hg k hj
    rcases Nat.lt_or_eq_of_le (Nat.lt_succ_iff.mp hij) with h | h
    · have := ih (by omega) h
      linarith [tol_pos]
    · subst h; linarith [tol_pos]

theorem gap_le (xf : List ℚ) (hg : GapNodes xf) (i j : Nat) (hj : j < xf.length) (hij : i ≤ j) :
    xf[i] ≤ xf[j] := by
  rcases Nat.lt_or_eq_of_le hij with h | h
  · exact le_of_lt (gap_lt xf hg i j hj h)
  · subst h; exact le_refl _

/-- if `xf[i] ≤ xf[j]` then `i ≤ j` -/
theorem gap_idx_le (xf : List ℚ) (hg : GapNodes xf) (i j : Nat) (hi : i < xf.length) (hj : j < xf.length)
    (h : xf[i] ≤ xf[j]) : i ≤ j := by
  by_contra hc
  have := gap_lt xf hg j i hi (by omega)
  linarith

theorem nearest_spec (xf : List ℚ) (hne : xf ≠ []) (x : ℚ) :
    ∃ h : nearest xf x < xf.length, ∀ j (hj : j < xf.length), |x - xf[nearest xf x]| ≤ |x - xf[j]| := by
  have hne' : xf.map (fun a => absv (x - a)) ≠ [] := by simpa using hne
  obtain ⟨r, hr, hlt, hmin, _⟩ := argmin_spec _ hne'
  have hr' : nearest xf x = r := hr
  have hlt' : r < xf.length := by simpa using hlt
  rw [hr']
  refine ⟨hlt', ?_⟩
  intro j hj
  have := hmin j (by simpa using hj)
  simpa [absv_eq_abs] using this

theorem weight_gap (a0 a1 x : ℚ) (h : a0 + tol < a1) : weight a0 a1 x = (x - a0) / (a1 - a0) := by
  unfold weight
  have h1 : ¬ (a1 - a0 < tol) := by linarith
  have h2 : a1 - a0 > 0 := by linarith [tol_pos]
  simp only [h1, if_false, h2, if_true]

theorem weight_same (a x : ℚ) : weight a a x = 1 := by
  unfold weight
  simp

theorem rowComb_same (r : List ℚ) : rowComb (1 - 1) 1 r r = r := by
  unfold rowComb
  apply List.ext_getElem
  · simp
  · intro i h1 h2
    simp

theorem rowComb_lerp (s : ℚ) (r0 r1 : List ℚ) : rowComb (1 - s) s r0 r1 = lerpRow s r0 r1 := rfl

theorem lerpRow_zero (r0 r1 : List ℚ) (h : r0.length = r1.length) : lerpRow 0 r0 r1 = r0 := by
  unfold lerpRow
  apply List.ext_getElem
  · simp [h]
  · intro i h1 h2
    simp

theorem lerpRow_one (r0 r1 : List ℚ) (h : r0.length = r1.length) : lerpRow 1 r0 r1 = r1 := by
  unfold lerpRow
  apply List.ext_getElem
  · simp [h]
  · intro i h1 h2
    simp

/-- the row computed for one query, given the looked-up values -/
theorem interp2dRow_eq (xf : List ℚ) (f : List (List ℚ)) (x xi a0 a1 : ℚ) (f0 f1 : List ℚ)
    (h1 : pyGet xf (nearest xf x : Nat) = .ok xi)
    (h2 : pyGet f (lowIdx (nearest xf x) (decide (xi > x))) = .ok f0)
    (h3 : pyGet f (highIdx xf.length (nearest xf x) (decide (xi > x))) = .ok f1)
    (h4 : pyGet xf (lowIdx (nearest xf x) (decide (xi > x))) = .ok a0)
    (h5 : pyGet xf (highIdx xf.length (nearest xf x) (decide (xi > x))) = .ok a1) :
    interp2dRow xf f x = .ok (rowComb (1 - weight a0 a1 x) (weight a0 a1 x) f0 f1) := by
  unfold interp2dRow
  simp only [h1, h2, h3, h4, h5, bind, Except.bind, pure, Except.pure]


theorem interp2dRow_idx (xf : List ℚ) (f : List (List ℚ)) (x : ℚ) (hf : xf.length ≤ f.length)
    (hlt : nearest xf x < xf.length) (i0 i1 : Nat) (h0 : i0 < xf.length) (h1 : i1 < xf.length)
    (e0 : lowIdx (nearest xf x) (decide (xf[nearest xf x] > x)) = (i0 : Int))
    (e1 : highIdx xf.length (nearest xf x) (decide (xf[nearest xf x] > x)) = (i1 : Int)) :
    interp2dRow xf f x = .ok (rowComb (1 - weight xf[i0] xf[i1] x) (weight xf[i0] xf[i1] x)
      (f[i0]'(by omega)) (f[i1]'(by omega))) := by
  apply interp2dRow_eq xf f x (xf[nearest xf x]) xf[i0] xf[i1]
  · exact pyGet_nat xf _ hlt
  · rw [e0]; exact pyGet_nat f i0 (by omega)
  · rw [e1]; exact pyGet_nat f i1 (by omega)
  · rw [e0]; exact pyGet_nat xf i0 h0
  · rw [e1]; exact pyGet_nat xf i1 h1

theorem interp2dRow_clamped (xf : List ℚ) (f : List (List ℚ)) (hne : xf ≠ []) (hg : GapNodes xf)
    (hf : xf.length ≤ f.length) (x : ℚ) :
    ∃ R, interp2dRow xf f x = .ok R ∧ IsClampedLerp xf f hf x R := by
  obtain ⟨hlt, hmin⟩ := nearest_spec xf hne x
  have hn : 0 < xf.length := List.length_pos_iff.mpr hne
  generalize hind : nearest xf x = ind at hlt hmin
  by_cases hgt : xf[ind] > x
  · -- the nearest node is to the right of the query
    by_cases hz : ind = 0
    · subst hz
      have e0 : lowIdx (nearest xf x) (decide (xf[nearest xf x] > x)) = ((0 : Nat) : Int) := by
        simp only [hind, hgt, decide_true, lowIdx]; simp
      have e1 : highIdx xf.length (nearest xf x) (decide (xf[nearest xf x] > x)) = ((0 : Nat) : Int) := by
        simp only [hind, hgt, decide_true, highIdx]
        simp only [if_true]; split_ifs <;> omega
      refine ⟨_, interp2dRow_idx xf f x hf (by omega) 0 0 hn hn e0 e1, ?_⟩
      left
      refine ⟨hn, le_of_lt hgt, ?_⟩
      rw [weight_same, rowComb_same]
    · have hpos : 1 ≤ ind := by omega
      have e0 : lowIdx (nearest xf x) (decide (xf[nearest xf x] > x)) = ((ind - 1 : Nat) : Int) := by
        simp only [hind, hgt, decide_true, lowIdx]
        simp only [if_true]; split_ifs <;> omega
      have e1 : highIdx xf.length (nearest xf x) (decide (xf[nearest xf x] > x)) = ((ind : Nat) : Int) := by
        simp only [hind, hgt, decide_true, highIdx]
        simp only [if_true]; split_ifs <;> omega
      refine ⟨_, interp2dRow_idx xf f x hf (by omega) (ind - 1) ind (by omega) hlt e0 e1, ?_⟩
      right; right
      have hgap := hg (ind - 1) (by omega)
      have hidx : ind - 1 + 1 = ind := by omega
      simp only [hidx] at hgap
      -- xf[ind-1] ≤ x, else ind-1 would be nearer
      have hle : xf[ind - 1] ≤ x := by
        by_contra hc
        have hc : x < xf[ind - 1] := not_le.mp hc
        have h1 := hmin (ind - 1) (by omega)
        rw [abs_of_neg (by linarith), abs_of_neg (by linarith)] at h1
        linarith [tol_pos]
      refine ⟨ind - 1, by omega, hle, by simp only [hidx]; exact le_of_lt hgt, ?_⟩
      simp only [hidx]
      rw [weight_gap _ _ _ hgap, rowComb_lerp]
  · -- the nearest node is at or left of the query
    have hle : xf[ind] ≤ x := not_lt.mp hgt
    by_cases hlast : ind + 1 < xf.length
    · have e0 : lowIdx (nearest xf x) (decide (xf[nearest xf x] > x)) = ((ind : Nat) : Int) := by
        simp only [hind, hgt, decide_false, lowIdx]
        simp
      have e1 : highIdx xf.length (nearest xf x) (decide (xf[nearest xf x] > x)) = ((ind + 1 : Nat) : Int) := by
        simp only [hind, hgt, decide_false, highIdx]
        simp only [Bool.false_eq_true, if_false]; split_ifs <;> omega
      refine ⟨_, interp2dRow_idx xf f x hf (by omega) ind (ind + 1) hlt hlast e0 e1, ?_⟩
      right; right
      have hgap := hg ind hlast
      have hle2 : x ≤ xf[ind + 1] := by
        by_contra hc
        have hc : xf[ind + 1] < x := not_le.mp hc
        have h1 := hmin (ind + 1) hlast
        rw [abs_of_nonneg (by linarith), abs_of_nonneg (by linarith)] at h1
        linarith [tol_pos]
      refine ⟨ind, hlast, hle, hle2, ?_⟩
      rw [weight_gap _ _ _ hgap, rowComb_lerp]
    · have hind' : ind = xf.length - 1 := by omega
      have e0 : lowIdx (nearest xf x) (decide (xf[nearest xf x] > x)) = ((ind : Nat) : Int) := by
        simp only [hind, hgt, decide_false, lowIdx]
        simp
      have e1 : highIdx xf.length (nearest xf x) (decide (xf[nearest xf x] > x)) = ((ind : Nat) : Int) := by
        simp only [hind, hgt, decide_false, highIdx]
        simp only [Bool.false_eq_true, if_false]; split_ifs <;> omega
      refine ⟨_, interp2dRow_idx xf f x hf (by omega) ind ind hlt hlt e0 e1, ?_⟩
      right; left
      subst hind'
      refine ⟨hn, hle, ?_⟩
      rw [weight_same, rowComb_same]


/-- a clamped-lerp row at a lower-clamped query -/
theorem clamped_low (xf : List ℚ) (f : List (List ℚ)) (hg : GapNodes xf) (hf : xf.length ≤ f.length)
    (w : Nat) (hw : ∀ r ∈ f, r.length = w) (x : ℚ) (R : List ℚ) (hR : IsClampedLerp xf f hf x R)
    (h0 : 0 < xf.length) (hx : x ≤ xf[0]) : R = f[0]'(by omega) := by
  rcases hR with ⟨_, _, h⟩ | ⟨_, h1, h⟩ | ⟨i, hi, h1, h2, h⟩
  · exact h
  · have : xf.length - 1 ≤ 0 := gap_idx_le xf hg _ _ (by omega) h0 (le_trans h1 hx)
    have e : xf.length - 1 = 0 := by omega
    simp only [e] at h; exact h
  · have : i ≤ 0 := gap_idx_le xf hg _ _ (by omega) h0 (le_trans h1 hx)
    have e : i = 0 := by omega
    subst e
    have hxe : x = xf[0] := le_antisymm hx h1
    rw [h, hxe, sub_self, zero_div]
    exact lerpRow_zero _ _ (by rw [hw _ (List.getElem_mem _), hw _ (List.getElem_mem _)])

theorem clamped_high (xf : List ℚ) (f : List (List ℚ)) (hg : GapNodes xf) (hf : xf.length ≤ f.length)
    (w : Nat) (hw : ∀ r ∈ f, r.length = w) (x : ℚ) (R : List ℚ) (hR : IsClampedLerp xf f hf x R)
    (h0 : 0 < xf.length) (hx : xf[xf.length - 1] ≤ x) : R = f[xf.length - 1]'(by omega) := by
  rcases hR with ⟨_, h1, h⟩ | ⟨_, _, h⟩ | ⟨i, hi, h1, h2, h⟩
  · have : xf.length - 1 ≤ 0 := gap_idx_le xf hg _ _ (by omega) h0 (le_trans hx h1)
    have e : xf.length - 1 = 0 := by omega
    simp only [e]; exact h
  · exact h
  · have : xf.length - 1 ≤ i + 1 := gap_idx_le xf hg _ _ (by omega) hi (le_trans hx h2)
    have e : xf.length - 1 = i + 1 := by omega
    simp only [e] at hx ⊢
    have hxe : x = xf[i+1] := le_antisymm h2 hx
    have hgap := hg i hi
    have hne : xf[i+1] - xf[i] ≠ 0 := by linarith [tol_pos]
    rw [h, hxe, div_self hne]
    exact lerpRow_one _ _ (by rw [hw _ (List.getElem_mem _), hw _ (List.getElem_mem _)])

theorem clamped_mid (xf : List ℚ) (f : List (List ℚ)) (hg : GapNodes xf) (hf : xf.length ≤ f.length)
    (w : Nat) (hw : ∀ r ∈ f, r.length = w) (x : ℚ) (R : List ℚ) (hR : IsClampedLerp xf f hf x R)
    (j : Nat) (hj : j + 1 < xf.length) (hx1 : xf[j] ≤ x) (hx2 : x ≤ xf[j+1]) :
    R = lerpRow ((x - xf[j]) / (xf[j+1] - xf[j])) (f[j]'(by omega)) (f[j+1]'(by omega)) := by
  have hgapj := hg j hj
  have hnej : xf[j+1] - xf[j] ≠ 0 := by linarith [tol_pos]
  have hwid : ∀ a b (ha : a < f.length) (hb : b < f.length), f[a].length = f[b].length := by
    intro a b ha hb
    rw [hw _ (List.getElem_mem _), hw _ (List.getElem_mem _)]
  rcases hR with ⟨h0, h1, h⟩ | ⟨h0, h1, h⟩ | ⟨i, hi, h1, h2, h⟩
  · -- x ≤ xf[0] and xf[j] ≤ x: j = 0, x = xf[0]
    have : j ≤ 0 := gap_idx_le xf hg _ _ (by omega) h0 (le_trans hx1 h1)
    have e : j = 0 := by omega
    subst e
    have hxe : x = xf[0] := le_antisymm h1 hx1
    rw [h, hxe, sub_self, zero_div, lerpRow_zero _ _ (hwid _ _ _ _)]
  · have : xf.length - 1 ≤ j + 1 := gap_idx_le xf hg _ _ (by omega) hj (le_trans h1 hx2)
    have e : xf.length - 1 = j + 1 := by omega
    simp only [e] at h h1
    have hxe : x = xf[j+1] := le_antisymm hx2 h1
    rw [h, hxe, div_self hnej, lerpRow_one _ _ (hwid _ _ _ _)]
  · have hgapi := hg i hi
    have hnei : xf[i+1] - xf[i] ≠ 0 := by linarith [tol_pos]
    rcases Nat.lt_trichotomy i j with hlt | heq | hgt
    · -- i < j: x = xf[i+1] = xf[j]
      have h3 : j ≤ i + 1 := gap_idx_le xf hg _ _ (by omega) hi (le_trans hx1 h2)
      have e : j = i + 1 := by omega
      subst e
      have hxe : x = xf[i+1] := le_antisymm h2 hx1
      rw [h, hxe, div_self hnei, sub_self, zero_div, lerpRow_one _ _ (hwid _ _ _ _),
        lerpRow_zero _ _ (hwid _ _ _ _)]
    · subst heq; exact h
    · have h3 : i ≤ j + 1 := gap_idx_le xf hg _ _ (by omega) hj (le_trans h1 hx2)
      have e : i = j + 1 := by omega
      subst e
      have hxe : x = xf[j+1] := le_antisymm hx2 h1
      rw [h, hxe, div_self hnej, sub_self, zero_div, lerpRow_one _ _ (hwid _ _ _ _),
        lerpRow_zero _ _ (hwid _ _ _ _)]

/-- `interp2d` on strictly increasing nodes: every output row is the clamped column-wise linear interpolation -/
theorem interp2d_clamped (x xf : List ℚ) (f : List (List ℚ)) (hne : xf ≠ []) (hg : GapNodes xf)
    (hf : xf.length ≤ f.length) :
    ∃ rows, interp2d x xf f = .ok rows ∧ List.Forall₂ (fun q R => IsClampedLerp xf f hf q R) x rows := by
  have hn : xf.length ≠ 0 := by simpa using hne
  unfold interp2d
  rw [if_neg hn]
  exact mapM_forall₂ _ _ x (fun q _ => interp2dRow_clamped xf f hne hg hf q)


/-! ## which inputs raise -/

theorem rollAv_raises (values : List ℚ) (steps : Nat) (mode : Mode) :
    (rollAv values steps mode = .error .IndexError ↔ values = []) ∧
    (rollAv values steps mode = .error .ValueError ↔ values ≠ [] ∧ steps = 0) := by
  by_cases hne : values = []
  · subst hne
    simp [rollAv]
  · have h0 : values.head? = some (values.head hne) := List.head?_eq_some_head hne
    have hl : values.getLast? = some (values.getLast hne) := List.getLast?_eq_some_getLast hne
    by_cases hs : steps = 0
    · subst hs
      unfold rollAv
      rw [h0, hl]
      simp [hne]
    · rw [rollAv_spec values hne steps (by omega) mode]
      simp [hne, hs]

theorem stepErr_raises (values : List ℚ) (p : Nat) (d : Dir) :
    (stepErr values p d = .error .IndexError ↔ values = []) ∧
    (values ≠ [] → ∃ r, stepErr values p d = .ok r ∧ r.length = values.length) := by
  by_cases hne : values = []
  · subst hne
    simp [stepErr]
  · obtain ⟨M, _, _, hd, hu⟩ := stepErr_dir values hne p
    cases d with
    | none => rw [stepErr_none values hne p]; simp [hne]
    | down => rw [hd]; simp [hne]
    | up => rw [hu]; simp [hne]

theorem interp2d_raises_empty_nodes (x : List ℚ) (f : List (List ℚ)) :
    interp2d x [] f = .error .ValueError := by
  simp [interp2d]

theorem stepLevels_raises (values : List ℚ) :
    (stepLevels values none = .error .IndexError ↔ values = []) := by
  by_cases hne : values = []
  · subst hne
    simp [stepLevels, stepErr]
  · obtain ⟨k, _, _, _, h⟩ := stepLevels_none values hne
    rw [h]; simp [hne]


end EqsigVerif.Lemmas.Fns
