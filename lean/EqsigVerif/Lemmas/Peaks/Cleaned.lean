import EqsigVerif.Model.Peaks
import Mathlib.Tactic.Linarith
import Mathlib.Tactic.Positivity
import Mathlib.Algebra.Order.Ring.Rat
import Mathlib.Data.Rat.Defs
import Mathlib.Tactic.Ring
/-!
# Lemmas on the cleaned level (`turnIdx`, `peaksCleaned`) of `Model/Peaks.lean`
-/
namespace EqsigVerif.Lemmas.Peaks
open EqsigVerif.Model.Peaks

/-- value accessor, total -/
def at' (c : List ℚ) (k : ℕ) : ℚ := c.getD k 0

/-- forward difference -/
def dif (c : List ℚ) (k : ℕ) : ℚ := at' c (k+1) - at' c k

theorem mem_turnIdx (c : List ℚ) (o k : ℕ) :
    k ∈ turnIdx o c ↔ o ≤ k ∧ (k - o) + 2 < c.length ∧ dif c (k - o) * dif c (k - o + 1) < 0 := by
  induction c generalizing o with
  | nil => simp [turnIdx]
  | cons a t ih =>
    cases t with
    | nil => simp [turnIdx]
    | cons b t2 =>
      cases t2 with
      | nil => simp [turnIdx]
      | cons c3 rest =>
        simp only [turnIdx, List.mem_append]
        rw [ih (o+1)]
        constructor
        · rintro (h | ⟨h1, h2, h3⟩)
          · split at h
            · rename_i hlt
              simp at h; subst h
              simp [dif, at', hlt]
            · simp at h
          · refine ⟨by omega, by simp at h2 ⊢; omega, ?_⟩
            have e : k - o = (k - (o+1)) + 1 := by omega
            rw [e]
            simpa [dif, at'] using h3
        · rintro ⟨h1, h2, h3⟩
          by_cases hk : k = o
          · left; subst hk
            simp [dif, at'] at h3
            simp [h3]
          · right
            refine ⟨by omega, by simp at h2 ⊢; omega, ?_⟩
            have e : k - o = (k - (o+1)) + 1 := by omega
            rw [e] at h3
            simpa [dif, at'] using h3

/-- Sign constancy: nonzero differences with no sign change between p and q all share the sign of the first. -/
theorem sign_const (d : ℕ → ℚ) (p q : ℕ)
    (hnz : ∀ k, p ≤ k → k < q → d k ≠ 0)
    (hns : ∀ k, p ≤ k → k + 1 < q → ¬ (d k * d (k+1) < 0)) :
    ∀ k, p ≤ k → k < q → 0 < d p * d k := by
  intro k hpk hkq
  induction k, hpk using Nat.le_induction with
  | base => exact mul_self_pos.mpr (hnz p le_rfl hkq)
  | succ k hpk ih =>
    have ihk := ih (by omega)
    have h1 := hns k hpk hkq
    have hk1 := hnz (k+1) (by omega) hkq
    have hk := hnz k hpk (by omega)
    have h2 : 0 < d k * d (k+1) := lt_of_le_of_ne (not_lt.mp h1) (Ne.symm (mul_ne_zero hk hk1))
    have h3 : 0 < (d p * d k) * (d k * d (k+1)) := mul_pos ihk h2
    have h4 : (d p * d k) * (d k * d (k+1)) = (d k)^2 * (d p * d (k+1)) := by ring
    rw [h4] at h3
    have h5 : 0 < (d k)^2 := by positivity
    exact (pos_iff_pos_of_mul_pos h3).mp h5

/-- cleaned: adjacent entries differ -/
def Cleaned (c : List ℚ) : Prop := ∀ k, k + 1 < c.length → dif c k ≠ 0

theorem mem_turn1 (c : List ℚ) (k : ℕ) :
    k ∈ turnIdx 1 c ↔ 1 ≤ k ∧ k + 1 < c.length ∧ dif c (k - 1) * dif c k < 0 := by
  rw [mem_turnIdx]
  constructor
  · rintro ⟨h1, h2, h3⟩
    refine ⟨h1, by omega, ?_⟩
    have : k - 1 + 1 = k := by omega
    rwa [this] at h3
  · rintro ⟨h1, h2, h3⟩
    refine ⟨h1, by omega, ?_⟩
    have : k - 1 + 1 = k := by omega
    rwa [this]

/-- S1: between two positions with no reported turning point strictly inside, all differences share one sign -/
theorem seg_sign (c : List ℚ) (hc : Cleaned c) (p q : ℕ) (hq : q < c.length)
    (hno : ∀ k, p < k → k < q → k ∉ turnIdx 1 c) :
    ∀ k, p ≤ k → k < q → 0 < dif c p * dif c k := by
  apply sign_const (dif c) p q
  · intro k _ hk; exact hc k (by omega)
  · intro k hpk hk hlt
    apply hno (k+1) (by omega) hk
    rw [mem_turn1]
    exact ⟨by omega, by omega, by simpa using hlt⟩

/-- S2: at a reported interior turning point the direction flips -/
theorem turn_flips (c : List ℚ) (k : ℕ) (hk : k ∈ turnIdx 1 c) : dif c (k-1) * dif c k < 0 :=
  ((mem_turn1 c k).mp hk).2.2

/-- telescoping: positive differences on [p,q) give strict increase -/
theorem at_lt_of_dif_pos (c : List ℚ) (p q : ℕ) (hpq : p < q) (h : ∀ k, p ≤ k → k < q → 0 < dif c k) :
    at' c p < at' c q := by
  induction q, hpq using Nat.le_induction with
  | base => have := h p le_rfl (by omega); simp [dif] at this; linarith
  | succ q hpq ih =>
    have h1 := ih (fun k hk hkq => h k hk (by omega))
    have h2 := h q (by omega) (by omega)
    simp [dif] at h2; linarith

theorem at_gt_of_dif_neg (c : List ℚ) (p q : ℕ) (hpq : p < q) (h : ∀ k, p ≤ k → k < q → dif c k < 0) :
    at' c q < at' c p := by
  induction q, hpq using Nat.le_induction with
  | base => have := h p le_rfl (by omega); simp [dif] at this; linarith
  | succ q hpq ih =>
    have h1 := ih (fun k hk hkq => h k hk (by omega))
    have h2 := h q (by omega) (by omega)
    simp [dif] at h2; linarith

/-- S3: a segment with no interior turning point is strictly increasing if its first step is up -/
theorem seg_strict_mono (c : List ℚ) (hc : Cleaned c) (p q : ℕ) (hq : q < c.length)
    (hno : ∀ k, p < k → k < q → k ∉ turnIdx 1 c) (hup : 0 < dif c p) :
    ∀ i j, p ≤ i → i < j → j ≤ q → at' c i < at' c j := by
  intro i j hi hij hj
  apply at_lt_of_dif_pos c i j hij
  intro k hik hkj
  have := seg_sign c hc p q hq hno k (by omega) (by omega)
  exact (pos_iff_pos_of_mul_pos this).mp hup

/-- S3': … strictly decreasing if its first step is down -/
theorem seg_strict_anti (c : List ℚ) (hc : Cleaned c) (p q : ℕ) (hq : q < c.length)
    (hno : ∀ k, p < k → k < q → k ∉ turnIdx 1 c) (hdn : dif c p < 0) :
    ∀ i j, p ≤ i → i < j → j ≤ q → at' c j < at' c i := by
  intro i j hi hij hj
  apply at_gt_of_dif_neg c i j hij
  intro k hik hkj
  have := seg_sign c hc p q hq hno k (by omega) (by omega)
  by_contra hk
  have hk' : 0 ≤ dif c k := not_lt.mp hk
  have : dif c p * dif c k ≤ 0 := mul_nonpos_of_nonpos_of_nonneg hdn.le hk'
  linarith

/-! ### shape of `turnIdx` / `peaksCleaned` -/

theorem turnIdx_pairwise (c : List ℚ) (o : ℕ) : (turnIdx o c).Pairwise (· < ·) := by
  induction c generalizing o with
  | nil => simp [turnIdx]
  | cons a t ih =>
    cases t with
    | nil => simp [turnIdx]
    | cons b t2 =>
      cases t2 with
      | nil => simp [turnIdx]
      | cons c3 rest =>
        simp only [turnIdx]
        rw [List.pairwise_append]
        refine ⟨?_, ih (o+1), ?_⟩
        · split <;> simp
        · intro x hx y hy
          have := ((mem_turnIdx _ _ _).mp hy).1
          split at hx
          · simp at hx; omega
          · simp at hx

theorem peaksCleaned_eq (c : List ℚ) : peaksCleaned c = 0 :: (turnIdx 1 c ++ [c.length - 1]) := rfl

theorem peaksCleaned_pairwise (c : List ℚ) (hm : 2 ≤ c.length) : (peaksCleaned c).Pairwise (· < ·) := by
  rw [peaksCleaned_eq, List.pairwise_cons, List.pairwise_append]
  refine ⟨?_, turnIdx_pairwise c 1, by simp, ?_⟩
  · intro x hx
    rw [List.mem_append] at hx
    rcases hx with hx | hx
    · have := ((mem_turn1 c x).mp hx).1; omega
    · simp at hx; omega
  · intro x hx y hy
    have := ((mem_turn1 c x).mp hx).2.1
    simp at hy; omega

theorem mem_peaksCleaned (c : List ℚ) (k : ℕ) :
    k ∈ peaksCleaned c ↔ k = 0 ∨ k ∈ turnIdx 1 c ∨ k = c.length - 1 := by
  simp [peaksCleaned_eq]

theorem peaksCleaned_lt (c : List ℚ) (hm : 1 ≤ c.length) : ∀ k ∈ peaksCleaned c, k < c.length := by
  intro k hk
  rw [mem_peaksCleaned] at hk
  rcases hk with h | h | h
  · omega
  · have := ((mem_turn1 c k).mp h).2.1; omega
  · omega

theorem peaksCleaned_length_ge (c : List ℚ) : 2 ≤ (peaksCleaned c).length := by
  simp [peaksCleaned_eq]

theorem peaksCleaned_head (c : List ℚ) : (peaksCleaned c).head? = some 0 := rfl

theorem peaksCleaned_getLast (c : List ℚ) : (peaksCleaned c).getLast? = some (c.length - 1) := by
  have : peaksCleaned c = (0 :: turnIdx 1 c) ++ [c.length - 1] := rfl
  rw [this, List.getLast?_append]
  simp

end EqsigVerif.Lemmas.Peaks
