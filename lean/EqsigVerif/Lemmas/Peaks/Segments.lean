import EqsigVerif.Lemmas.Peaks.Kappa
/-!
# Monotone segments between consecutive reported peaks (cleaned level and original level)
-/
namespace EqsigVerif.Lemmas.Peaks
open EqsigVerif.Model.Peaks

/-! ### generic facts on strictly ascending lists of naturals -/

theorem sorted_get_lt (L : List ℕ) (h : L.Pairwise (· < ·)) (i j : ℕ) (hij : i < j) (hj : j < L.length) :
    L.getD i 0 < L.getD j 0 := by
  rw [getD_eq _ _ _ (by omega), getD_eq _ _ _ hj]
  exact (List.pairwise_iff_getElem.mp h) i j (by omega) hj hij

theorem sorted_get_le (L : List ℕ) (h : L.Pairwise (· < ·)) (i j : ℕ) (hij : i ≤ j) (hj : j < L.length) :
    L.getD i 0 ≤ L.getD j 0 := by
  rcases Nat.eq_or_lt_of_le hij with rfl | h'
  · exact le_rfl
  · exact (sorted_get_lt L h i j h' hj).le

/-- no member of an ascending list lies strictly between two consecutive entries -/
theorem sorted_no_between (L : List ℕ) (h : L.Pairwise (· < ·)) (j : ℕ) (hj : j + 1 < L.length)
    (x : ℕ) (hx : x ∈ L) : ¬ (L.getD j 0 < x ∧ x < L.getD (j+1) 0) := by
  obtain ⟨i, hi, rfl⟩ := List.mem_iff_getElem.mp hx
  rw [← getD_eq L i 0 hi]
  rintro ⟨h1, h2⟩
  by_cases hij : i ≤ j
  · have := sorted_get_le L h i j hij (by omega); omega
  · have := sorted_get_le L h (j+1) i (by omega) hi; omega

/-- every `k ≥ L[0]` is bracketed by consecutive entries of an ascending list -/
theorem sorted_bracket (L : List ℕ) (h : L.Pairwise (· < ·)) (hL : 0 < L.length) (k : ℕ)
    (h0 : L.getD 0 0 ≤ k) :
    ∃ j, j < L.length ∧ L.getD j 0 ≤ k ∧ (j + 1 < L.length → k < L.getD (j+1) 0) := by
  have hpos : 0 < L.countP (· ≤ k) := by
    rw [← sorted_countP L h k 0 hL, ← getD_eq L 0 0 hL]; exact h0
  have hle : L.countP (· ≤ k) ≤ L.length := List.countP_le_length
  refine ⟨L.countP (· ≤ k) - 1, by omega, ?_, ?_⟩
  · rw [getD_eq _ _ _ (by omega), sorted_countP L h k _ (by omega)]; omega
  · intro hj
    rw [getD_eq _ _ _ hj]
    by_contra hc
    have := (sorted_countP L h k _ hj).mp (not_lt.mp hc)
    omega

/-! ### cleaned level -/

/-- `j`-th reported cleaned position -/
def qd (c : List ℚ) (j : ℕ) : ℕ := (peaksCleaned c).getD j 0

theorem qd_zero (c : List ℚ) : qd c 0 = 0 := rfl

theorem qd_mem (c : List ℚ) (j : ℕ) (hj : j < (peaksCleaned c).length) : qd c j ∈ peaksCleaned c := by
  unfold qd; rw [getD_eq _ _ _ hj]; exact List.getElem_mem hj

theorem qd_lt (c : List ℚ) (hm : 1 ≤ c.length) (j : ℕ) (hj : j < (peaksCleaned c).length) :
    qd c j < c.length := peaksCleaned_lt c hm _ (qd_mem c j hj)

theorem qd_strict (c : List ℚ) (hm : 2 ≤ c.length) (i j : ℕ) (hij : i < j)
    (hj : j < (peaksCleaned c).length) : qd c i < qd c j :=
  sorted_get_lt _ (peaksCleaned_pairwise c hm) i j hij hj

theorem qd_last (c : List ℚ) : qd c ((peaksCleaned c).length - 1) = c.length - 1 := by
  have h := peaksCleaned_getLast c
  rw [List.getLast?_eq_getElem?] at h
  unfold qd
  rw [List.getD_eq_getElem?_getD, h]; rfl

theorem no_turn_between (c : List ℚ) (hm : 2 ≤ c.length) (j : ℕ) (hj : j + 1 < (peaksCleaned c).length) :
    ∀ k, qd c j < k → k < qd c (j+1) → k ∉ turnIdx 1 c := by
  intro k h1 h2 hk
  exact sorted_no_between _ (peaksCleaned_pairwise c hm) j hj k
    ((mem_peaksCleaned c k).mpr (Or.inr (Or.inl hk))) ⟨h1, h2⟩

/-- interior reported positions are turning positions -/
theorem qd_turn (c : List ℚ) (hm : 2 ≤ c.length) (j : ℕ) (hj : j + 2 < (peaksCleaned c).length) :
    qd c (j+1) ∈ turnIdx 1 c := by
  have hmem := qd_mem c (j+1) (by omega)
  rw [mem_peaksCleaned] at hmem
  have h1 := qd_strict c hm j (j+1) (by omega) (by omega)
  have h2 := qd_strict c hm (j+1) (j+2) (by omega) hj
  have h3 := qd_lt c (by omega) (j+2) hj
  rcases hmem with h | h | h
  · omega
  · exact h
  · omega

theorem dif_qd_ne (c : List ℚ) (hc : Cleaned c) (hm : 2 ≤ c.length) (j : ℕ)
    (hj : j + 1 < (peaksCleaned c).length) : dif c (qd c j) ≠ 0 := by
  apply hc
  have h1 := qd_strict c hm j (j+1) (by omega) hj
  have h3 := qd_lt c (by omega) (j+1) hj
  omega

/-- the segment between consecutive reported positions is strictly monotone, in the direction of its first step -/
theorem cleaned_segment (c : List ℚ) (hc : Cleaned c) (hm : 2 ≤ c.length) (j : ℕ)
    (hj : j + 1 < (peaksCleaned c).length) :
    (0 < dif c (qd c j) ∧ ∀ s t, qd c j ≤ s → s < t → t ≤ qd c (j+1) → at' c s < at' c t) ∨
    (dif c (qd c j) < 0 ∧ ∀ s t, qd c j ≤ s → s < t → t ≤ qd c (j+1) → at' c t < at' c s) := by
  have hq := qd_lt c (by omega) (j+1) hj
  have hno := no_turn_between c hm j hj
  rcases lt_trichotomy (dif c (qd c j)) 0 with h | h | h
  · exact Or.inr ⟨h, seg_strict_anti c hc _ _ hq hno h⟩
  · exact absurd h (dif_qd_ne c hc hm j hj)
  · exact Or.inl ⟨h, seg_strict_mono c hc _ _ hq hno h⟩

/-- consecutive segments have opposite first steps -/
theorem cleaned_alternate (c : List ℚ) (hc : Cleaned c) (hm : 2 ≤ c.length) (j : ℕ)
    (hj : j + 2 < (peaksCleaned c).length) : dif c (qd c j) * dif c (qd c (j+1)) < 0 := by
  have h1 := qd_strict c hm j (j+1) (by omega) (by omega)
  have hq := qd_lt c (by omega) (j+1) (by omega)
  have hs := seg_sign c hc (qd c j) (qd c (j+1)) hq (no_turn_between c hm j (by omega))
    (qd c (j+1) - 1) (by omega) (by omega)
  have hf := turn_flips c _ (qd_turn c hm j hj)
  set a := dif c (qd c j)
  set b := dif c (qd c (j+1) - 1)
  set e := dif c (qd c (j+1))
  have hb : b ≠ 0 := by rintro hb; rw [hb] at hs; simp at hs
  have hb2 : 0 < b^2 := by positivity
  by_contra hn
  have hn' : 0 ≤ a * e := not_lt.mp hn
  have : 0 ≤ (a * b) * (b * e) := by
    have : (a * b) * (b * e) = b^2 * (a * e) := by ring
    rw [this]; positivity
  have : (a * b) * (b * e) < 0 := mul_neg_of_pos_of_neg hs hf
  linarith

/-- direction of a segment in terms of its end values -/
theorem cleaned_segment_ends (c : List ℚ) (hc : Cleaned c) (hm : 2 ≤ c.length) (j : ℕ)
    (hj : j + 1 < (peaksCleaned c).length) :
    0 < dif c (qd c j) * (at' c (qd c (j+1)) - at' c (qd c j)) := by
  have h1 := qd_strict c hm j (j+1) (by omega) hj
  rcases cleaned_segment c hc hm j hj with ⟨hd, hmono⟩ | ⟨hd, hmono⟩
  · have := hmono (qd c j) (qd c (j+1)) le_rfl h1 le_rfl
    exact mul_pos hd (by linarith)
  · have := hmono (qd c j) (qd c (j+1)) le_rfl h1 le_rfl
    exact mul_pos_of_neg_of_neg hd (by linarith)

/-- cleaned-level domination: every cleaned value is dominated in magnitude by a reported one -/
theorem cleaned_dominate (c : List ℚ) (hc : Cleaned c) (k : ℕ) (hk : k < c.length) :
    ∃ q ∈ peaksCleaned c, |at' c k| ≤ |at' c q| := by
  by_cases hm : 2 ≤ c.length
  · have hsorted := peaksCleaned_pairwise c hm
    obtain ⟨j, hj, h1, h2⟩ := sorted_bracket (peaksCleaned c) hsorted
      (by have := peaksCleaned_length_ge c; omega) k (by show qd c 0 ≤ k; rw [qd_zero]; omega)
    by_cases hlast : j + 1 < (peaksCleaned c).length
    · have h2' := h2 hlast
      change qd c j ≤ k at h1
      change k < qd c (j+1) at h2'
      rcases Nat.eq_or_lt_of_le h1 with he | hlt
      · exact ⟨qd c j, qd_mem c j hj, by rw [he]⟩
      · rcases cleaned_segment c hc hm j hlast with ⟨_, hmono⟩ | ⟨_, hmono⟩
        · have a1 := hmono (qd c j) k le_rfl hlt h2'.le
          have a2 := hmono k (qd c (j+1)) h1 h2' le_rfl
          by_cases h0 : 0 ≤ at' c k
          · exact ⟨qd c (j+1), qd_mem c _ hlast, by rw [abs_of_nonneg h0, abs_of_nonneg (by linarith)]; linarith⟩
          · exact ⟨qd c j, qd_mem c _ hj, by
              rw [abs_of_neg (not_le.mp h0), abs_of_neg (by linarith [not_le.mp h0])]; linarith⟩
        · have a1 := hmono (qd c j) k le_rfl hlt h2'.le
          have a2 := hmono k (qd c (j+1)) h1 h2' le_rfl
          by_cases h0 : 0 ≤ at' c k
          · exact ⟨qd c j, qd_mem c _ hj, by rw [abs_of_nonneg h0, abs_of_nonneg (by linarith)]; linarith⟩
          · exact ⟨qd c (j+1), qd_mem c _ hlast, by
              rw [abs_of_neg (not_le.mp h0), abs_of_neg (by linarith [not_le.mp h0])]; linarith⟩
    · -- j is the last entry: qd c j = m - 1 ≤ k < m
      have hjl : j = (peaksCleaned c).length - 1 := by omega
      have := qd_last c
      rw [← hjl] at this
      change qd c j ≤ k at h1
      have hk' : k = qd c j := by omega
      exact ⟨qd c j, qd_mem c j hj, by rw [hk']⟩
  · have hk0 : k = 0 := by omega
    exact ⟨0, by simp [peaksCleaned_eq], by rw [hk0]⟩

end EqsigVerif.Lemmas.Peaks
