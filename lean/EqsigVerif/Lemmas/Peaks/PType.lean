import EqsigVerif.Lemmas.Peaks.Shape
/-!
# C11.d — the `ptype` selection
-/
namespace EqsigVerif.Lemmas.Peaks
open EqsigVerif.Model.Peaks

theorem evens_sublist {α : Type} (l : List α) : (evens l).Sublist l := by
  fun_induction evens l with
  | case1 => exact List.Sublist.refl _
  | case2 a => exact List.Sublist.refl _
  | case3 a b t ih => exact (ih.cons b).cons_cons a

theorem odds_sublist {α : Type} (l : List α) : (odds l).Sublist l := by
  cases l with
  | nil => exact List.Sublist.refl _
  | cons a t => exact (evens_sublist t).cons a

theorem mem_evens (l : List ℕ) (x : ℕ) :
    x ∈ evens l ↔ ∃ k, 2 * k < l.length ∧ l.getD (2 * k) 0 = x := by
  fun_induction evens l with
  | case1 => simp
  | case2 a =>
    constructor
    · intro h; simp at h; exact ⟨0, by simp, by simp [h]⟩
    · rintro ⟨k, hk, hx⟩
      have : k = 0 := by simp at hk; omega
      subst this; simp at hx; simp [hx]
  | case3 a b t ih =>
    rw [List.mem_cons, ih]
    constructor
    · rintro (h | ⟨k, hk, hx⟩)
      · exact ⟨0, by simp, by simp [h]⟩
      · refine ⟨k+1, by simp; omega, ?_⟩
        have : 2 * (k + 1) = 2 * k + 1 + 1 := by ring
        rw [this]; simpa using hx
    · rintro ⟨k, hk, hx⟩
      cases k with
      | zero => left; simp at hx; exact hx.symm
      | succ k =>
        right
        have : 2 * (k + 1) = 2 * k + 1 + 1 := by ring
        rw [this] at hx
        exact ⟨k, by simp at hk; omega, by simpa using hx⟩

theorem mem_odds (l : List ℕ) (x : ℕ) :
    x ∈ odds l ↔ ∃ k, 2 * k + 1 < l.length ∧ l.getD (2 * k + 1) 0 = x := by
  cases l with
  | nil => simp [odds]
  | cons a t =>
    simp only [odds, mem_evens, List.length_cons, List.getD_cons_succ]
    constructor
    · rintro ⟨k, hk, hx⟩; exact ⟨k, by omega, hx⟩
    · rintro ⟨k, hk, hx⟩; exact ⟨k, by omega, hx⟩

theorem sign_step_pos {a b c : ℚ} (h1 : 0 < a * b) (h2 : b * c < 0) : a * c < 0 := by
  by_contra hn
  have hn' : 0 ≤ a * c := not_lt.mp hn
  have hb : b ≠ 0 := by rintro rfl; simp at h1
  have : (a * b) * (b * c) = b^2 * (a * c) := by ring
  have h3 : (a * b) * (b * c) < 0 := mul_neg_of_pos_of_neg h1 h2
  have h4 : 0 ≤ b^2 * (a * c) := by positivity
  linarith

theorem sign_step_neg {a b c : ℚ} (h1 : a * b < 0) (h2 : b * c < 0) : 0 < a * c := by
  by_contra hn
  have hn' : a * c ≤ 0 := not_lt.mp hn
  have hb : b ≠ 0 := by rintro rfl; simp at h1
  have : (a * b) * (b * c) = b^2 * (a * c) := by ring
  have h3 : 0 < (a * b) * (b * c) := mul_pos_of_neg_of_neg h1 h2
  have h4 : b^2 * (a * c) ≤ 0 := mul_nonpos_of_nonneg_of_nonpos (by positivity) hn'
  linarith

/-- the direction of segment `j` is that of segment `0` for even `j`, the opposite for odd `j` -/
theorem dlt_parity (v : List ℚ) (h : NonConstant v) (j : ℕ) (hj : j + 1 < (peaks v).length) :
    (j % 2 = 0 → 0 < dlt v 0 * dlt v j) ∧ (j % 2 = 1 → dlt v 0 * dlt v j < 0) := by
  induction j with
  | zero =>
    refine ⟨fun _ => mul_self_pos.mpr (dlt_ne v h 0 hj), fun h => by omega⟩
  | succ j ih =>
    have ih' := ih (by omega)
    have alt := orig_alternate v h j hj
    constructor
    · intro hpar
      exact sign_step_neg (ih'.2 (by omega)) alt
    · intro hpar
      exact sign_step_pos (ih'.1 (by omega)) alt

theorem firstMove_eq (v : List ℚ) : firstMove v = dlt v 0 := rfl

/-- the `k`-th reported peak is a local maximum, judged by its adjacent segment(s) -/
def LocalMaxAt (v : List ℚ) (k : ℕ) : Prop :=
  (k + 1 < (peaks v).length ∧ v.getD ((peaks v).getD (k+1) 0) 0 < v.getD ((peaks v).getD k 0) 0) ∨
  (0 < k ∧ v.getD ((peaks v).getD (k-1) 0) 0 < v.getD ((peaks v).getD k 0) 0)

/-- the `k`-th reported peak is a local minimum, judged by its adjacent segment(s) -/
def LocalMinAt (v : List ℚ) (k : ℕ) : Prop :=
  (k + 1 < (peaks v).length ∧ v.getD ((peaks v).getD k 0) 0 < v.getD ((peaks v).getD (k+1) 0) 0) ∨
  (0 < k ∧ v.getD ((peaks v).getD k 0) 0 < v.getD ((peaks v).getD (k-1) 0) 0)

theorem localMaxAt_iff_dlt (v : List ℚ) (k : ℕ) :
    LocalMaxAt v k ↔ (k + 1 < (peaks v).length ∧ dlt v k < 0) ∨ (0 < k ∧ 0 < dlt v (k-1)) := by
  unfold LocalMaxAt dlt at' pd
  constructor
  · rintro (⟨h1, h2⟩ | ⟨h1, h2⟩)
    · left; exact ⟨h1, by linarith⟩
    · right; refine ⟨h1, ?_⟩
      have : k - 1 + 1 = k := by omega
      rw [this]; linarith
  · rintro (⟨h1, h2⟩ | ⟨h1, h2⟩)
    · left; exact ⟨h1, by linarith⟩
    · right; refine ⟨h1, ?_⟩
      have : k - 1 + 1 = k := by omega
      rw [this] at h2; linarith

theorem localMinAt_iff_dlt (v : List ℚ) (k : ℕ) :
    LocalMinAt v k ↔ (k + 1 < (peaks v).length ∧ 0 < dlt v k) ∨ (0 < k ∧ dlt v (k-1) < 0) := by
  unfold LocalMinAt dlt at' pd
  constructor
  · rintro (⟨h1, h2⟩ | ⟨h1, h2⟩)
    · left; exact ⟨h1, by linarith⟩
    · right; refine ⟨h1, ?_⟩
      have : k - 1 + 1 = k := by omega
      rw [this]; linarith
  · rintro (⟨h1, h2⟩ | ⟨h1, h2⟩)
    · left; exact ⟨h1, by linarith⟩
    · right; refine ⟨h1, ?_⟩
      have : k - 1 + 1 = k := by omega
      rw [this] at h2; linarith

/-- sign of `dlt v j` from the parity of `j` and the sign of the first move -/
theorem dlt_pos_iff (v : List ℚ) (h : NonConstant v) (j : ℕ) (hj : j + 1 < (peaks v).length) :
    (0 < dlt v j ↔ (j % 2 = 0 ↔ 0 < dlt v 0)) ∧ (dlt v j < 0 ↔ ¬ (j % 2 = 0 ↔ 0 < dlt v 0)) := by
  have hp := dlt_parity v h j hj
  have h0 := dlt_ne v h 0 (by omega)
  have hjn := dlt_ne v h j hj
  rcases Nat.mod_two_eq_zero_or_one j with hpar | hpar
  · have := hp.1 hpar
    rcases lt_or_gt_of_ne h0 with hneg | hpos
    · have hj' : dlt v j < 0 := by
        by_contra hc
        have : dlt v 0 * dlt v j ≤ 0 := mul_nonpos_of_nonpos_of_nonneg hneg.le (not_lt.mp hc)
        linarith
      constructor
      · constructor
        · intro hh; linarith
        · intro hh; have := hh.mp hpar; linarith
      · constructor
        · intro _ hh; have := hh.mp hpar; linarith
        · intro _; exact hj'
    · have hj' : 0 < dlt v j := (pos_iff_pos_of_mul_pos this).mp hpos
      constructor
      · exact ⟨fun _ => ⟨fun _ => hpos, fun _ => hpar⟩, fun _ => hj'⟩
      · constructor
        · intro hh; linarith
        · intro hh; exact absurd ⟨fun _ => hpos, fun _ => hpar⟩ hh
  · have := hp.2 hpar
    have hpar' : ¬ j % 2 = 0 := by omega
    rcases lt_or_gt_of_ne h0 with hneg | hpos
    · have hj' : 0 < dlt v j := by
        by_contra hc
        have : 0 ≤ dlt v 0 * dlt v j := mul_nonneg_of_nonpos_of_nonpos hneg.le (not_lt.mp hc)
        linarith
      constructor
      · refine ⟨fun _ => ⟨fun hh => absurd hh hpar', fun hh => by linarith⟩, fun _ => hj'⟩
      · constructor
        · intro hh; linarith
        · intro hh; exfalso; apply hh; exact ⟨fun hh => absurd hh hpar', fun hh => by linarith⟩
    · have hj' : dlt v j < 0 := by
        by_contra hc
        have : 0 ≤ dlt v 0 * dlt v j := mul_nonneg hpos.le (not_lt.mp hc)
        linarith
      constructor
      · constructor
        · intro hh; linarith
        · intro hh; exact absurd (hh.mpr hpos) hpar'
      · exact ⟨fun _ hh => hpar' (hh.mpr hpos), fun _ => hj'⟩

theorem peaks_length_ge (v : List ℚ) : 2 ≤ (peaks v).length := by
  rw [peaks_length]; exact peaksCleaned_length_ge _

/-- local maxima sit at odd positions iff the first move is up -/
theorem localMaxAt_iff_parity (v : List ℚ) (h : NonConstant v) (k : ℕ) (hk : k < (peaks v).length) :
    LocalMaxAt v k ↔ (k % 2 = 1 ↔ 0 < dlt v 0) := by
  rw [localMaxAt_iff_dlt]
  have hlen := peaks_length_ge v
  constructor
  · rintro (⟨h1, h2⟩ | ⟨h1, h2⟩)
    · have := ((dlt_pos_iff v h k h1).2).mp h2
      constructor
      · intro hodd; by_contra hup; apply this; exact ⟨fun he => by omega, fun hh => absurd hh hup⟩
      · intro hup; by_contra hodd; apply this; exact ⟨fun _ => hup, fun _ => by omega⟩
    · have := ((dlt_pos_iff v h (k-1) (by omega)).1).mp h2
      constructor
      · intro hodd; exact this.mp (by omega)
      · intro hup; have := this.mpr hup; omega
  · intro hiff
    by_cases hk0 : 0 < k
    · right
      refine ⟨hk0, ((dlt_pos_iff v h (k-1) (by omega)).1).mpr ?_⟩
      constructor
      · intro he; exact hiff.mp (by omega)
      · intro hup; have := hiff.mpr hup; omega
    · left
      have hk' : k = 0 := by omega
      subst hk'
      refine ⟨by omega, ((dlt_pos_iff v h 0 (by omega)).2).mpr ?_⟩
      intro hh
      have := hiff.mpr (hh.mp rfl)
      omega

theorem localMinAt_iff_parity (v : List ℚ) (h : NonConstant v) (k : ℕ) (hk : k < (peaks v).length) :
    LocalMinAt v k ↔ (k % 2 = 0 ↔ 0 < dlt v 0) := by
  rw [localMinAt_iff_dlt]
  have hlen := peaks_length_ge v
  constructor
  · rintro (⟨h1, h2⟩ | ⟨h1, h2⟩)
    · exact ((dlt_pos_iff v h k h1).1).mp h2
    · have := ((dlt_pos_iff v h (k-1) (by omega)).2).mp h2
      constructor
      · intro hev; by_contra hup; apply this; exact ⟨fun he => by omega, fun hh => absurd hh hup⟩
      · intro hup; by_contra hev; apply this; exact ⟨fun _ => hup, fun _ => by omega⟩
  · intro hiff
    by_cases hk1 : k + 1 < (peaks v).length
    · left; exact ⟨hk1, ((dlt_pos_iff v h k hk1).1).mpr hiff⟩
    · right
      refine ⟨by omega, ((dlt_pos_iff v h (k-1) (by omega)).2).mpr ?_⟩
      intro hh
      by_cases hup : 0 < dlt v 0
      · have a := hh.mpr hup; have b := hiff.mpr hup; omega
      · have a : ¬ (k - 1) % 2 = 0 := fun he => hup (hh.mp he)
        have b : ¬ k % 2 = 0 := fun he => hup (hiff.mp he)
        omega

theorem mem_peaksMax (v : List ℚ) (h : NonConstant v) (i : ℕ) :
    i ∈ peaksMax v ↔ ∃ k, k < (peaks v).length ∧ (peaks v).getD k 0 = i ∧ LocalMaxAt v k := by
  unfold peaksMax
  rw [firstMove_eq]
  split
  · rename_i hup
    rw [mem_odds]
    constructor
    · rintro ⟨k, hk, hx⟩
      exact ⟨2*k+1, hk, hx, (localMaxAt_iff_parity v h _ hk).mpr ⟨fun _ => hup, fun _ => by omega⟩⟩
    · rintro ⟨k, hk, hx, hmax⟩
      have := ((localMaxAt_iff_parity v h k hk).mp hmax).mpr hup
      refine ⟨k / 2, ?_, ?_⟩
      · omega
      · have e : 2 * (k / 2) + 1 = k := by omega
        rw [e]; exact hx
  · rename_i hup
    rw [mem_evens]
    constructor
    · rintro ⟨k, hk, hx⟩
      exact ⟨2*k, hk, hx, (localMaxAt_iff_parity v h _ hk).mpr ⟨fun hh => by omega, fun hh => absurd hh hup⟩⟩
    · rintro ⟨k, hk, hx, hmax⟩
      have := (localMaxAt_iff_parity v h k hk).mp hmax
      have hev : ¬ k % 2 = 1 := fun hh => hup (this.mp hh)
      refine ⟨k / 2, ?_, ?_⟩
      · omega
      · have e : 2 * (k / 2) = k := by omega
        rw [e]; exact hx

theorem mem_peaksMin (v : List ℚ) (h : NonConstant v) (i : ℕ) :
    i ∈ peaksMin v ↔ ∃ k, k < (peaks v).length ∧ (peaks v).getD k 0 = i ∧ LocalMinAt v k := by
  unfold peaksMin
  rw [firstMove_eq]
  split
  · rename_i hdn
    have hup : ¬ 0 < dlt v 0 := not_lt.mpr hdn
    rw [mem_odds]
    constructor
    · rintro ⟨k, hk, hx⟩
      exact ⟨2*k+1, hk, hx, (localMinAt_iff_parity v h _ hk).mpr ⟨fun hh => by omega, fun hh => absurd hh hup⟩⟩
    · rintro ⟨k, hk, hx, hmin⟩
      have := (localMinAt_iff_parity v h k hk).mp hmin
      have hodd : ¬ k % 2 = 0 := fun hh => hup (this.mp hh)
      refine ⟨k / 2, ?_, ?_⟩
      · omega
      · have e : 2 * (k / 2) + 1 = k := by omega
        rw [e]; exact hx
  · rename_i hdn
    have hup : 0 < dlt v 0 := not_le.mp hdn
    rw [mem_evens]
    constructor
    · rintro ⟨k, hk, hx⟩
      exact ⟨2*k, hk, hx, (localMinAt_iff_parity v h _ hk).mpr ⟨fun _ => hup, fun _ => by omega⟩⟩
    · rintro ⟨k, hk, hx, hmin⟩
      have := ((localMinAt_iff_parity v h k hk).mp hmin).mpr hup
      refine ⟨k / 2, ?_, ?_⟩
      · omega
      · have e : 2 * (k / 2) = k := by omega
        rw [e]; exact hx

theorem peaksMax_sublist (v : List ℚ) : (peaksMax v).Sublist (peaks v) := by
  unfold peaksMax; split
  · exact odds_sublist _
  · exact evens_sublist _

theorem peaksMin_sublist (v : List ℚ) : (peaksMin v).Sublist (peaks v) := by
  unfold peaksMin; split
  · exact odds_sublist _
  · exact evens_sublist _

theorem pd_last (v : List ℚ) : pd v ((peaks v).length - 1) = (idxs v).getD ((runs v).length - 1) 0 := by
  have h := peaks_getLast v
  rw [List.getLast?_eq_getElem?] at h
  unfold pd
  rw [List.getD_eq_getElem?_getD, h]; rfl

/-- every reported peak is a maximum or a minimum, never both -/
theorem localMax_iff_not_localMin (v : List ℚ) (h : NonConstant v) (k : ℕ) (hk : k < (peaks v).length) :
    LocalMaxAt v k ↔ ¬ LocalMinAt v k := by
  rw [localMaxAt_iff_parity v h k hk, localMinAt_iff_parity v h k hk]
  by_cases hup : 0 < dlt v 0
  · constructor
    · intro a b; have := a.mpr hup; have := b.mpr hup; omega
    · intro a; refine ⟨fun _ => hup, fun _ => ?_⟩
      by_contra hc; apply a; exact ⟨fun _ => hup, fun _ => by omega⟩
  · constructor
    · intro a b
      have h1 : ¬ k % 2 = 1 := fun e => hup (a.mp e)
      have h2 : ¬ k % 2 = 0 := fun e => hup (b.mp e)
      omega
    · intro a; refine ⟨fun e => ?_, fun e => absurd e hup⟩
      exfalso; apply a; exact ⟨fun e' => by omega, fun e' => absurd e' hup⟩

/-- a reported local maximum dominates both adjacent segments (the whole tail for the last reported index) -/
theorem localMax_dominates (v : List ℚ) (h : NonConstant v) (k : ℕ) (hk : k < (peaks v).length)
    (hmax : LocalMaxAt v k) (t : ℕ) (ht : t < v.length)
    (h1 : k = 0 ∨ pd v (k-1) ≤ t) (h2 : k + 1 = (peaks v).length ∨ t ≤ pd v (k+1)) :
    at' v t ≤ at' v (pd v k) := by
  have hne := nonConstant_ne_nil v h
  have hpar := (localMaxAt_iff_parity v h k hk).mp hmax
  by_cases htk : t ≤ pd v k
  · by_cases hk0 : k = 0
    · subst hk0
      have : pd v 0 = 0 := by
        have := peaks_head v hne
        unfold pd; rw [List.getD_eq_getElem?_getD, ← List.head?_eq_getElem?, this]; rfl
      have : t = pd v 0 := by omega
      rw [this]
    · have hprev : pd v (k-1) ≤ t := by rcases h1 with h1 | h1; exact absurd h1 hk0; exact h1
      have hk1 : k - 1 + 1 = k := by omega
      have hd : 0 < dlt v (k-1) := by
        apply ((dlt_pos_iff v h (k-1) (by omega)).1).mpr
        exact ⟨fun e => hpar.mp (by omega), fun e => by have := hpar.mpr e; omega⟩
      rcases orig_segment v h (k-1) (by omega) with ⟨_, hm⟩ | ⟨hlt, _⟩
      · have := hm t (pd v k) hprev htk (by rw [hk1])
        exact this
      · unfold dlt at hd; rw [hk1] at hd hlt; linarith
  · have htk' : pd v k < t := not_le.mp htk
    by_cases hlast : k + 1 = (peaks v).length
    · have e : k = (peaks v).length - 1 := by omega
      have hp := pd_last v
      rw [← e] at hp
      rw [hp]
      exact (const_after_last v hne t (by rw [← hp]; omega) ht).le
    · have hnext : t ≤ pd v (k+1) := by rcases h2 with h2 | h2; exact absurd h2 hlast; exact h2
      have hd : dlt v k < 0 := by
        apply ((dlt_pos_iff v h k (by omega)).2).mpr
        intro hh
        by_cases hup : 0 < dlt v 0
        · have := hh.mpr hup; have := hpar.mpr hup; omega
        · have a : ¬ k % 2 = 0 := fun e => hup (hh.mp e)
          have b : ¬ k % 2 = 1 := fun e => hup (hpar.mp e)
          omega
      rcases orig_segment v h k (by omega) with ⟨hlt, _⟩ | ⟨_, hm⟩
      · unfold dlt at hd; linarith
      · exact hm (pd v k) t le_rfl htk'.le hnext

/-- a reported local minimum is dominated by both adjacent segments (the whole tail for the last reported index) -/
theorem localMin_dominated (v : List ℚ) (h : NonConstant v) (k : ℕ) (hk : k < (peaks v).length)
    (hmin : LocalMinAt v k) (t : ℕ) (ht : t < v.length)
    (h1 : k = 0 ∨ pd v (k-1) ≤ t) (h2 : k + 1 = (peaks v).length ∨ t ≤ pd v (k+1)) :
    at' v (pd v k) ≤ at' v t := by
  have hne := nonConstant_ne_nil v h
  have hpar := (localMinAt_iff_parity v h k hk).mp hmin
  by_cases htk : t ≤ pd v k
  · by_cases hk0 : k = 0
    · subst hk0
      have : pd v 0 = 0 := by
        have := peaks_head v hne
        unfold pd; rw [List.getD_eq_getElem?_getD, ← List.head?_eq_getElem?, this]; rfl
      have : t = pd v 0 := by omega
      rw [this]
    · have hprev : pd v (k-1) ≤ t := by rcases h1 with h1 | h1; exact absurd h1 hk0; exact h1
      have hk1 : k - 1 + 1 = k := by omega
      have hd : dlt v (k-1) < 0 := by
        apply ((dlt_pos_iff v h (k-1) (by omega)).2).mpr
        intro hh
        by_cases hup : 0 < dlt v 0
        · have := hh.mpr hup; have := hpar.mpr hup; omega
        · have a : ¬ (k-1) % 2 = 0 := fun e => hup (hh.mp e)
          have b : ¬ k % 2 = 0 := fun e => hup (hpar.mp e)
          omega
      rcases orig_segment v h (k-1) (by omega) with ⟨hlt, _⟩ | ⟨_, hm⟩
      · unfold dlt at hd; rw [hk1] at hd hlt; linarith
      · have := hm t (pd v k) hprev htk (by rw [hk1])
        exact this
  · have htk' : pd v k < t := not_le.mp htk
    by_cases hlast : k + 1 = (peaks v).length
    · have e : k = (peaks v).length - 1 := by omega
      have hp := pd_last v
      rw [← e] at hp
      rw [hp]
      exact (const_after_last v hne t (by rw [← hp]; omega) ht).ge
    · have hnext : t ≤ pd v (k+1) := by rcases h2 with h2 | h2; exact absurd h2 hlast; exact h2
      have hd : 0 < dlt v k := ((dlt_pos_iff v h k (by omega)).1).mpr hpar
      rcases orig_segment v h k (by omega) with ⟨_, hm⟩ | ⟨hlt, _⟩
      · exact hm (pd v k) t le_rfl htk'.le hnext
      · unfold dlt at hd; linarith

end EqsigVerif.Lemmas.Peaks
