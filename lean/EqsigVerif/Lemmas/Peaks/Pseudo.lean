import EqsigVerif.Lemmas.Peaks.Delta
import Mathlib.Algebra.Ring.Parity
/-!
# C13.b — the pseudo-cyclic peak-only series
-/
namespace EqsigVerif.Lemmas.Peaks
open EqsigVerif.Model.Peaks EqsigVerif.Np

/-- alternating sum `-l[0] + l[1] - l[2] + …` -/
def altSum : List ℚ → ℚ
  | [] => 0
  | x :: t => -x - altSum t

/-- the parity-sign trick of `_determine_peak_only_series_4_cleaned_data` is `(-1)^(k+1) * x` -/
theorem pseudo_fn (k : ℕ) (x : ℚ) :
    (let s : ℚ := if k % 2 ≠ 0 then -1 else 1
     if -s * x < 0 then -absv x else absv x) = if k % 2 = 0 then -x else x := by
  simp only [absv]
  by_cases hk : k % 2 = 0
  · simp only [hk, ne_eq, not_true_eq_false, if_false, if_true]
    split_ifs <;> linarith
  · simp only [hk, ne_eq, not_false_eq_true, if_true, if_false]
    split_ifs <;> linarith

theorem pseudoVals_eq (pv : List ℚ) :
    pseudoVals pv = List.zipWith (fun (k : ℕ) (x : ℚ) => if k % 2 = 0 then -x else x) (List.range pv.length) pv := by
  unfold pseudoVals
  congr 1
  funext k x
  exact pseudo_fn k x

theorem sum_zipWith_alt (l : List ℚ) (o : ℕ) :
    (List.zipWith (fun (k : ℕ) (x : ℚ) => if k % 2 = 0 then -x else x) (List.range' o l.length) l).sum =
      if o % 2 = 0 then altSum l else -altSum l := by
  induction l generalizing o with
  | nil => simp [altSum]
  | cons x t ih =>
    simp only [List.length_cons, List.range'_succ, List.zipWith_cons_cons, List.sum_cons, ih (o+1), altSum]
    rcases Nat.mod_two_eq_zero_or_one o with h | h
    · have h' : ¬ (o + 1) % 2 = 0 := by omega
      simp only [h, h', if_true, if_false]; ring
    · have h' : (o + 1) % 2 = 0 := by omega
      have h'' : ¬ o % 2 = 0 := by omega
      simp only [h', h'', if_true, if_false]; ring

theorem sum_pseudoVals (pv : List ℚ) : (pseudoVals pv).sum = altSum pv := by
  rw [pseudoVals_eq, List.range_eq_range', sum_zipWith_alt]; simp

@[simp] theorem pseudoVals_length (pv : List ℚ) : (pseudoVals pv).length = pv.length := by
  simp [pseudoVals]

theorem pseudoVals_getD (pv : List ℚ) (k : ℕ) (hk : k < pv.length) :
    (pseudoVals pv).getD k 0 = if k % 2 = 0 then -pv.getD k 0 else pv.getD k 0 := by
  rw [pseudoVals_eq]
  simp only [List.getD_eq_getElem?_getD, List.getElem?_zipWith, List.getElem?_range hk,
    List.getElem?_eq_getElem hk]
  simp

/-- zig-zag: steps alternate up/down, the first step being up iff `o` is even -/
def Zig : ℕ → List ℚ → Prop
  | o, x :: y :: t => (if o % 2 = 0 then x < y else y < x) ∧ Zig (o+1) (y :: t)
  | _, _ => True

/-- last entry with the sign `(-1)^length` -/
def slast : List ℚ → ℚ
  | [] => 0
  | [x] => -x
  | _ :: y :: t => - slast (y :: t)

theorem zig_of_getD (l : List ℚ) (o : ℕ)
    (h : ∀ k, k + 1 < l.length →
      if (o + k) % 2 = 0 then l.getD k 0 < l.getD (k+1) 0 else l.getD (k+1) 0 < l.getD k 0) : Zig o l := by
  induction l generalizing o with
  | nil => simp [Zig]
  | cons x t ih =>
    cases t with
    | nil => simp [Zig]
    | cons y t =>
      refine ⟨by simpa using h 0 (by simp), ih (o+1) ?_⟩
      intro k hk
      have := h (k+1) (by simpa using hk)
      have e : o + (k + 1) = o + 1 + k := by ring
      rw [e] at this
      simpa using this

theorem zig_formula (l : List ℚ) (o : ℕ) (hz : Zig o l) (hl : l ≠ []) :
    2 * altSum l = (if o % 2 = 0 then 1 else -1) * tv l - l.head?.getD 0 + slast l := by
  induction l generalizing o with
  | nil => exact absurd rfl hl
  | cons x t ih =>
    cases t with
    | nil => simp [altSum, tv, slast]; ring
    | cons y t =>
      obtain ⟨h1, h2⟩ := hz
      have ih' := ih (o+1) h2 (by simp)
      simp only [altSum, tv, slast, List.head?_cons, Option.getD_some] at ih' ⊢
      rcases Nat.mod_two_eq_zero_or_one o with h | h
      · have h' : ¬ (o + 1) % 2 = 0 := by omega
        simp only [h, h', if_true, if_false] at h1 ih' ⊢
        rw [abs_of_pos (by linarith)]
        linarith
      · have h' : (o + 1) % 2 = 0 := by omega
        have h'' : ¬ o % 2 = 0 := by omega
        simp only [h', h'', if_true, if_false] at h1 ih' ⊢
        rw [abs_of_neg (by linarith)]
        linarith

theorem slast_eq (l : List ℚ) : slast l = (-1)^l.length * l.getLast?.getD 0 := by
  induction l with
  | nil => simp [slast]
  | cons x t ih =>
    cases t with
    | nil => simp [slast]
    | cons y t =>
      simp only [slast, ih, List.getLast?_cons_cons, List.length_cons]
      ring

/-! ### instantiation at the peak values -/

theorem sign_mul_pos {x y : ℚ} (h : 0 < x * y) : 0 < sign x * y := by
  unfold sign
  rcases lt_trichotomy x 0 with hx | hx | hx
  · simp only [hx, if_true]
    have : y < 0 := by
      by_contra hc
      have : x * y ≤ 0 := mul_nonpos_of_nonpos_of_nonneg hx.le (not_lt.mp hc)
      linarith
    linarith
  · rw [hx] at h; simp at h
  · have : ¬ x < 0 := by linarith
    simp only [this, hx, if_true, if_false]
    have := (pos_iff_pos_of_mul_pos h).mp hx
    linarith

theorem sign_mul_neg {x y : ℚ} (h : x * y < 0) : sign x * y < 0 := by
  have : 0 < x * (-y) := by linarith
  have := sign_mul_pos this
  linarith

theorem pvs_step (v : List ℚ) (h : NonConstant v) (k : ℕ) (hk : k + 1 < (peaks v).length) :
    (pvs v).getD (k+1) 0 - (pvs v).getD k 0 = sign (dlt v 0) * dlt v k := by
  rw [pvs_getD v h (k+1) hk, pvs_getD v h k (by omega), sgn1_eq v h, firstMove_eq]
  unfold dlt; ring

theorem pvs_zig (v : List ℚ) (h : NonConstant v) : Zig 0 (pvs v) := by
  apply zig_of_getD
  intro k hk
  rw [pvs_length] at hk
  have hs := pvs_step v h k hk
  have hp := dlt_parity v h k hk
  rw [Nat.zero_add]
  rcases Nat.mod_two_eq_zero_or_one k with hpar | hpar
  · simp only [hpar, if_true]
    have := sign_mul_pos (hp.1 hpar)
    linarith
  · have hpar' : ¬ k % 2 = 0 := by omega
    simp only [hpar', if_false]
    have := sign_mul_neg (hp.2 hpar)
    linarith

theorem sign_neg (x : ℚ) : sign (-x) = -sign x := by
  unfold sign
  rcases lt_trichotomy x 0 with hx | hx | hx
  · have h1 : ¬ -x < 0 := by linarith
    have h2 : 0 < -x := by linarith
    simp [hx, h1, h2]
  · simp [hx]
  · have h1 : -x < 0 := by linarith
    have h2 : ¬ x < 0 := by linarith
    simp [hx, h1, h2]

theorem sign_of_mul_pos {x y : ℚ} (h : 0 < x * y) : sign y = sign x := by
  unfold sign
  rcases lt_trichotomy x 0 with hx | hx | hx
  · have : y < 0 := by
      by_contra hc
      have : x * y ≤ 0 := mul_nonpos_of_nonpos_of_nonneg hx.le (not_lt.mp hc)
      linarith
    simp [hx, this]
  · rw [hx] at h; simp at h
  · have hy := (pos_iff_pos_of_mul_pos h).mp hx
    have h1 : ¬ x < 0 := by linarith
    have h2 : ¬ y < 0 := by linarith
    simp [hx, hy, h1, h2]

/-- direction of segment `j` relative to the first movement -/
theorem sign_dlt (v : List ℚ) (h : NonConstant v) (j : ℕ) (hj : j + 1 < (peaks v).length) :
    sign (dlt v j) = (-1)^j * sign (dlt v 0) := by
  have hp := dlt_parity v h j hj
  rcases Nat.mod_two_eq_zero_or_one j with hpar | hpar
  · have he : Even j := Nat.even_iff.mpr hpar
    rw [he.neg_one_pow, one_mul]
    exact sign_of_mul_pos (hp.1 hpar)
  · have ho : Odd j := Nat.odd_iff.mpr hpar
    rw [ho.neg_one_pow]
    have : 0 < dlt v 0 * (-dlt v j) := by have := hp.2 hpar; linarith
    have := sign_of_mul_pos this
    rw [sign_neg] at this
    linarith

theorem pseudoCleaned_cl' (v : List ℚ) (h : NonConstant v) :
    putIdx (List.replicate v.length 0) (idxs v) (pseudoCleaned (cl' v)) = series2 v (pseudoVals (pvs v)) := by
  unfold pseudoCleaned series2 pvs
  simp only [peaksCleaned_cl' v h, cl'_length]

theorem pseudoCyclicSeries_eq (v : List ℚ) (h : NonConstant v) :
    pseudoCyclicSeries v = .ok (series2 v (pseudoVals (pvs v))) := by
  unfold pseudoCyclicSeries
  rw [peakOnlySeries_eq _ v h, pseudoCleaned_cl' v h]

/-- the sum of the pseudo-cyclic series -/
theorem pseudo_sum (v : List ℚ) (h : NonConstant v) :
    (series2 v (pseudoVals (pvs v))).sum =
      tv v / 2 + (at' v (v.length - 1) - at' v 0) * sign (dlt v ((peaks v).length - 2)) / 2 := by
  have hl := peaks_length_ge v
  have hs := series2_sum_map id rfl v (pseudoVals (pvs v)) h (by simp)
  simp only [List.map_id] at hs
  rw [hs, sum_pseudoVals]
  have hz := zig_formula (pvs v) 0 (pvs_zig v h) (pvs_ne_nil v)
  rw [pvs_head v h, slast_eq, pvs_last v h, pvs_length] at hz
  simp only [Nat.zero_mod, if_true, one_mul, sub_zero] at hz
  have htv : tv (pvs v) = tv v := tv_pv v h
  rw [htv] at hz
  rw [sign_dlt v h _ (by omega), sgn1_eq v h, firstMove_eq] at *
  have hpow : (-1 : ℚ)^((peaks v).length) = (-1)^((peaks v).length - 2) := by
    have : (peaks v).length = (peaks v).length - 2 + 2 := by omega
    rw [this, pow_add]; simp
  rw [hpow] at hz
  linarith

end EqsigVerif.Lemmas.Peaks
