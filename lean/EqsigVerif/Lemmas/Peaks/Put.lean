import EqsigVerif.Lemmas.Peaks.PType
/-!
# `np.put` (`Np.putIdx`) and total variation — generic list lemmas for C13
-/
namespace EqsigVerif.Lemmas.Peaks
open EqsigVerif.Model.Peaks EqsigVerif.Np

/-! ### `putIdx` -/

@[simp] theorem putIdx_length (base : List ℚ) (ind : List ℕ) (vals : List ℚ) :
    (putIdx base ind vals).length = base.length := by
  induction ind generalizing base vals with
  | nil => simp [putIdx]
  | cons i is ih =>
    cases vals with
    | nil => simp [putIdx]
    | cons x xs => simp [putIdx, ih]

theorem putIdx_getD_not_mem (base : List ℚ) (ind : List ℕ) (vals : List ℚ) (t : ℕ) (ht : t ∉ ind) :
    (putIdx base ind vals).getD t 0 = base.getD t 0 := by
  induction ind generalizing base vals with
  | nil => simp [putIdx]
  | cons i is ih =>
    cases vals with
    | nil => simp [putIdx]
    | cons x xs =>
      simp only [putIdx]
      rw [ih _ _ (fun h => ht (List.mem_cons_of_mem _ h))]
      have hne : i ≠ t := fun h => ht (h ▸ List.mem_cons_self)
      simp [List.getD_eq_getElem?_getD, List.getElem?_set_ne hne]

theorem putIdx_getD_mem (base : List ℚ) (ind : List ℕ) (vals : List ℚ) (hnd : ind.Nodup)
    (k : ℕ) (hk : k < ind.length) (hk' : k < vals.length) (hb : ind.getD k 0 < base.length) :
    (putIdx base ind vals).getD (ind.getD k 0) 0 = vals.getD k 0 := by
  induction ind generalizing base vals k with
  | nil => simp at hk
  | cons i is ih =>
    cases vals with
    | nil => simp at hk'
    | cons x xs =>
      rw [List.nodup_cons] at hnd
      simp only [putIdx]
      cases k with
      | zero =>
        simp only [List.getD_cons_zero] at hb ⊢
        rw [putIdx_getD_not_mem _ _ _ _ hnd.1]
        simp [List.getD_eq_getElem?_getD, hb]
      | succ k =>
        simp only [List.getD_cons_succ] at hb ⊢
        exact ih _ _ hnd.2 k (by simpa using hk) (by simpa using hk') (by simpa using hb)

theorem sum_map_set (g : ℚ → ℚ) (l : List ℚ) (i : ℕ) (x : ℚ) (hi : i < l.length) :
    ((l.set i x).map g).sum = (l.map g).sum - g (l.getD i 0) + g x := by
  induction l generalizing i with
  | nil => simp at hi
  | cons a t ih =>
    cases i with
    | zero => simp; ring
    | succ i =>
      simp only [List.set_cons_succ, List.map_cons, List.sum_cons, List.getD_cons_succ]
      rw [ih i (by simpa using hi)]; ring

/-- writing values at distinct positions that hold `0` adds their `g`-sum (`g 0 = 0`) -/
theorem sum_map_putIdx (g : ℚ → ℚ) (hg : g 0 = 0) (base : List ℚ) (ind : List ℕ) (vals : List ℚ)
    (hnd : ind.Nodup) (hb : ∀ i ∈ ind, i < base.length ∧ base.getD i 0 = 0)
    (hlen : ind.length = vals.length) :
    ((putIdx base ind vals).map g).sum = (base.map g).sum + (vals.map g).sum := by
  induction ind generalizing base vals with
  | nil =>
    cases vals with
    | nil => simp [putIdx]
    | cons x xs => simp at hlen
  | cons i is ih =>
    cases vals with
    | nil => simp at hlen
    | cons x xs =>
      rw [List.nodup_cons] at hnd
      simp only [putIdx]
      rw [ih (base.set i x) xs hnd.2 ?_ (by simpa using hlen)]
      · have hi := hb i List.mem_cons_self
        rw [sum_map_set g base i x hi.1, hi.2, hg]
        simp only [List.map_cons, List.sum_cons]; ring
      · intro j hj
        have hjb := hb j (List.mem_cons_of_mem _ hj)
        have hne : i ≠ j := fun h => hnd.1 (h ▸ hj)
        refine ⟨by simpa using hjb.1, ?_⟩
        rw [List.getD_eq_getElem?_getD, List.getElem?_set_ne hne, ← List.getD_eq_getElem?_getD]
        exact hjb.2

theorem sum_map_replicate_zero (g : ℚ → ℚ) (hg : g 0 = 0) (n : ℕ) :
    ((List.replicate n (0:ℚ)).map g).sum = 0 := by
  induction n with
  | zero => simp
  | succ n ih => simp [List.replicate_succ, hg]

theorem replicate_getD (n t : ℕ) : (List.replicate n (0:ℚ)).getD t 0 = 0 := by
  simp [List.getD_eq_getElem?_getD, List.getElem?_replicate]
  split <;> rfl

/-! ### total variation -/

/-- total variation `Σ |l[i+1] - l[i]|` -/
def tv : List ℚ → ℚ
  | a :: b :: t => |b - a| + tv (b :: t)
  | _ => 0

theorem tv_eq_zipWith (l : List ℚ) : tv l = (List.zipWith (fun a b => |b - a|) l l.tail).sum := by
  fun_induction tv l with
  | case1 a b t ih => simp [ih]
  | case2 l h =>
    cases l with
    | nil => simp
    | cons a t =>
      cases t with
      | nil => simp
      | cons b t => exact absurd rfl (h a b t)

theorem tv_map (f : ℚ → ℚ) (hf : ∀ a b, |f b - f a| = |b - a|) (l : List ℚ) : tv (l.map f) = tv l := by
  fun_induction tv l with
  | case1 a b t ih => simp only [List.map_cons] at ih ⊢; simp only [tv, hf, ih]
  | case2 l h =>
    cases l with
    | nil => simp [tv]
    | cons a t =>
      cases t with
      | nil => simp [tv]
      | cons b t => exact absurd rfl (h a b t)

theorem tv_drop (c : List ℚ) (a : ℕ) (h : a + 1 < c.length) :
    tv (c.drop a) = |at' c (a+1) - at' c a| + tv (c.drop (a+1)) := by
  rw [List.drop_eq_getElem_cons (by omega : a < c.length), List.drop_eq_getElem_cons h]
  simp only [tv, at']
  rw [getD_eq _ _ _ h, getD_eq _ _ _ (by omega : a < c.length)]

/-- on a weakly monotone stretch the variation is the end-point difference -/
theorem tv_drop_mono (c : List ℚ) (a b : ℕ) (hab : a ≤ b) (hb : b < c.length)
    (hmono : (∀ t, a ≤ t → t < b → at' c t ≤ at' c (t+1)) ∨ (∀ t, a ≤ t → t < b → at' c (t+1) ≤ at' c t)) :
    tv (c.drop a) = |at' c b - at' c a| + tv (c.drop b) := by
  rcases hmono with hup | hdn
  · have key : ∀ b, a ≤ b → b < c.length → (∀ t, a ≤ t → t < b → at' c t ≤ at' c (t+1)) →
        at' c a ≤ at' c b ∧ tv (c.drop a) = (at' c b - at' c a) + tv (c.drop b) := by
      intro b hab
      induction b, hab using Nat.le_induction with
      | base => intro _ _; simp
      | succ b hab ih =>
        intro hb hup
        have ⟨h1, h2⟩ := ih (by omega) (fun t ht1 ht2 => hup t ht1 (by omega))
        have h3 := hup b hab (by omega)
        refine ⟨by linarith, ?_⟩
        rw [h2, tv_drop c b hb, abs_of_nonneg (by linarith)]; ring
    have ⟨h1, h2⟩ := key b hab hb hup
    rw [h2, abs_of_nonneg (by linarith)]
  · have key : ∀ b, a ≤ b → b < c.length → (∀ t, a ≤ t → t < b → at' c (t+1) ≤ at' c t) →
        at' c b ≤ at' c a ∧ tv (c.drop a) = (at' c a - at' c b) + tv (c.drop b) := by
      intro b hab
      induction b, hab using Nat.le_induction with
      | base => intro _ _; simp
      | succ b hab ih =>
        intro hb hdn
        have ⟨h1, h2⟩ := ih (by omega) (fun t ht1 ht2 => hdn t ht1 (by omega))
        have h3 := hdn b hab (by omega)
        refine ⟨by linarith, ?_⟩
        rw [h2, tv_drop c b hb, abs_of_nonpos (by linarith)]; ring
    have ⟨h1, h2⟩ := key b hab hb hdn
    rw [h2, abs_of_nonpos (by linarith)]; ring

/-- the variation of the series sampled at break points of monotone stretches is the variation of the series -/
theorem tv_chain (c : List ℚ) (a : ℕ) (Q : List ℕ)
    (hch : List.IsChain (fun a b => a ≤ b ∧ b < c.length ∧
      ((∀ t, a ≤ t → t < b → at' c t ≤ at' c (t+1)) ∨ (∀ t, a ≤ t → t < b → at' c (t+1) ≤ at' c t))) (a :: Q))
    (ha : a < c.length) (hlast : (a :: Q).getLast? = some (c.length - 1)) :
    tv ((a :: Q).map (at' c)) = tv (c.drop a) := by
  induction Q generalizing a with
  | nil =>
    simp at hlast
    have : c.drop a = [c[a]] := by
      rw [List.drop_eq_getElem_cons ha, List.drop_eq_nil_of_le (by omega)]
    simp [tv, this]
  | cons b Q ih =>
    rw [List.isChain_cons_cons] at hch
    obtain ⟨⟨hab, hb, hmono⟩, hch'⟩ := hch
    have hlast' : (b :: Q).getLast? = some (c.length - 1) := by
      rw [← hlast]; simp [List.getLast?_cons_cons]
    have := ih b hch' hb hlast'
    simp only [List.map_cons] at this ⊢
    simp only [tv]
    rw [this, tv_drop_mono c a b hab hb hmono]

/-- total variation is not changed by plateau compression -/
theorem tv_runsAux (prev : ℚ) (i : ℕ) (xs : List ℚ) :
    tv (prev :: (runsAux prev i xs).map (·.2)) = tv (prev :: xs) := by
  induction xs generalizing prev i with
  | nil => simp [runsAux]
  | cons x xs ih =>
    simp only [runsAux]
    split
    · rename_i hx
      subst hx
      rw [ih]; simp [tv]
    · simp only [List.map_cons, tv]
      rw [ih]

theorem tv_vals (v : List ℚ) : tv (vals v) = tv v := by
  cases v with
  | nil => simp [vals, runs]
  | cons a xs => simp only [vals, runs, List.map_cons]; exact tv_runsAux a 1 xs

end EqsigVerif.Lemmas.Peaks
