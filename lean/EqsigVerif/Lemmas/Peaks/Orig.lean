import EqsigVerif.Lemmas.Peaks.Segments
/-!
# Transfer of the cleaned-level facts to the original series; specification vocabulary for C11/C13
-/
namespace EqsigVerif.Lemmas.Peaks
open EqsigVerif.Model.Peaks

/-- the series takes at least two different values (decidable) -/
def NonConstant (v : List ℚ) : Prop := ∃ x ∈ v, ∃ y ∈ v, x ≠ y

instance (v : List ℚ) : Decidable (NonConstant v) := by unfold NonConstant; infer_instance

/-- `j`-th reported peak index -/
def pd (v : List ℚ) (j : ℕ) : ℕ := (peaks v).getD j 0

theorem peaks_length (v : List ℚ) : (peaks v).length = (peaksCleaned (vals v)).length := by
  simp [peaks_eq]

theorem pd_eq (v : List ℚ) (j : ℕ) (hj : j < (peaks v).length) :
    pd v j = (idxs v).getD (qd (vals v) j) 0 := by
  have hj' : j < (peaksCleaned (vals v)).length := by rwa [← peaks_length]
  unfold pd qd
  rw [getD_eq _ _ _ hj, getD_eq _ _ _ hj']
  simp [peaks_eq]

theorem qd_vals_lt (v : List ℚ) (hv : v ≠ []) (j : ℕ) (hj : j < (peaks v).length) :
    qd (vals v) j < (runs v).length := by
  have := qd_lt (vals v) (by simp; exact runs_length_pos v hv) j (by rwa [← peaks_length])
  simpa using this

theorem at'_pd (v : List ℚ) (hv : v ≠ []) (j : ℕ) (hj : j < (peaks v).length) :
    at' v (pd v j) = at' (vals v) (qd (vals v) j) := by
  rw [pd_eq v j hj, vals_eq v _ (qd_vals_lt v hv j hj)]

theorem pd_lt (v : List ℚ) (hv : v ≠ []) (j : ℕ) (hj : j < (peaks v).length) : pd v j < v.length := by
  rw [pd_eq v j hj]; exact idxs_lt v _ (qd_vals_lt v hv j hj)

theorem kappa_pd (v : List ℚ) (hv : v ≠ []) (j : ℕ) (hj : j < (peaks v).length) :
    kappa v (pd v j) = qd (vals v) j := by
  rw [pd_eq v j hj]; exact kappa_idxs v _ (qd_vals_lt v hv j hj)

theorem mem_peaks_iff (v : List ℚ) (p : ℕ) :
    p ∈ peaks v ↔ ∃ q ∈ peaksCleaned (vals v), p = (idxs v).getD q 0 := by
  rw [peaks_eq, List.mem_map]
  constructor
  · rintro ⟨q, hq, rfl⟩; exact ⟨q, hq, rfl⟩
  · rintro ⟨q, hq, rfl⟩; exact ⟨q, hq, rfl⟩

theorem peaks_lt_length (v : List ℚ) (hv : v ≠ []) : ∀ p ∈ peaks v, p < v.length := by
  intro p hp
  obtain ⟨q, hq, rfl⟩ := (mem_peaks_iff v p).mp hp
  apply idxs_lt
  have := peaksCleaned_lt (vals v) (by simp; exact runs_length_pos v hv) q hq
  simpa using this

/-- a non-constant series has at least two runs -/
theorem two_le_runs (v : List ℚ) (h : NonConstant v) : 2 ≤ (runs v).length := by
  obtain ⟨x, hx, y, hy, hxy⟩ := h
  have hv : v ≠ [] := by rintro rfl; simp at hx
  by_contra hlt
  have hm : (runs v).length = 1 := by have := runs_length_pos v hv; omega
  apply hxy
  obtain ⟨i, hi, rfl⟩ := List.mem_iff_getElem.mp hx
  obtain ⟨j, hj, rfl⟩ := List.mem_iff_getElem.mp hy
  have e1 := at_eq_vals_kappa v i hi
  have e2 := at_eq_vals_kappa v j hj
  have k1 := kappa_lt v hv i
  have k2 := kappa_lt v hv j
  have : kappa v i = kappa v j := by omega
  rw [this, ← e2] at e1
  unfold at' at e1
  rwa [getD_eq _ _ _ hi, getD_eq _ _ _ hj] at e1

theorem nonConstant_ne_nil (v : List ℚ) (h : NonConstant v) : v ≠ [] := by
  obtain ⟨x, hx, _⟩ := h
  rintro rfl; simp at hx

/-- every sample is dominated in magnitude by a reported peak (any series) -/
theorem peaks_dominate' (v : List ℚ) (i : ℕ) (hi : i < v.length) :
    ∃ p ∈ peaks v, |at' v i| ≤ |at' v p| := by
  have hv : v ≠ [] := by rintro rfl; simp at hi
  have hk := kappa_lt v hv i
  obtain ⟨q, hq, hle⟩ := cleaned_dominate (vals v) (vals_cleaned v) (kappa v i) (by simpa using hk)
  refine ⟨(idxs v).getD q 0, (mem_peaks_iff v _).mpr ⟨q, hq, rfl⟩, ?_⟩
  have hq' : q < (runs v).length := by
    have := peaksCleaned_lt (vals v) (by simp; exact runs_length_pos v hv) q hq
    simpa using this
  rw [at_eq_vals_kappa v i hi, ← vals_eq v q hq']
  exact hle

end EqsigVerif.Lemmas.Peaks
