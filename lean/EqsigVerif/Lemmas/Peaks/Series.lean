import EqsigVerif.Lemmas.Peaks.Put
/-!
# The two peak-only series (`deltaSeries`, `pseudoCyclicSeries`) — structure lemmas for C13
-/
namespace EqsigVerif.Lemmas.Peaks
open EqsigVerif.Model.Peaks EqsigVerif.Np

/-! ### invariance of the stages under rebasing and sign normalisation -/

theorem runsAux_map_sub (a prev : ℚ) (i : ℕ) (xs : List ℚ) :
    runsAux (prev - a) i (xs.map (· - a)) = (runsAux prev i xs).map (fun r => (r.1, r.2 - a)) := by
  induction xs generalizing prev i with
  | nil => simp [runsAux]
  | cons x xs ih =>
    simp only [List.map_cons, runsAux]
    by_cases hx : x = prev
    · have : x - a = prev - a := by rw [hx]
      simp only [hx, if_true]
      exact ih prev (i+1)
    · have : ¬ x - a = prev - a := fun h => hx (by linarith)
      simp only [hx, this, if_false, List.map_cons]
      rw [ih x (i+1)]

theorem runs_map_sub (a : ℚ) (v : List ℚ) :
    runs (v.map (· - a)) = (runs v).map (fun r => (r.1, r.2 - a)) := by
  cases v with
  | nil => simp [runs]
  | cons x xs => simp only [List.map_cons, runs]; rw [runsAux_map_sub]

theorem idxs_map_sub (a : ℚ) (v : List ℚ) : idxs (v.map (· - a)) = idxs v := by
  unfold idxs; rw [runs_map_sub, List.map_map]; rfl

theorem vals_map_sub (a : ℚ) (v : List ℚ) : vals (v.map (· - a)) = (vals v).map (· - a) := by
  unfold vals; rw [runs_map_sub, List.map_map, List.map_map]; rfl

theorem turnIdx_map (f : ℚ → ℚ)
    (hf : ∀ a b c, (f b - f a) * (f c - f b) < 0 ↔ (b - a) * (c - b) < 0) (o : ℕ) (c : List ℚ) :
    turnIdx o (c.map f) = turnIdx o c := by
  induction c generalizing o with
  | nil => simp [turnIdx]
  | cons a t ih =>
    cases t with
    | nil => simp [turnIdx]
    | cons b t2 =>
      cases t2 with
      | nil => simp [turnIdx]
      | cons c3 rest =>
        have := ih (o+1)
        simp only [List.map_cons] at this ⊢
        simp only [turnIdx, this, hf]

theorem peaksCleaned_map (f : ℚ → ℚ)
    (hf : ∀ a b c, (f b - f a) * (f c - f b) < 0 ↔ (b - a) * (c - b) < 0) (c : List ℚ) :
    peaksCleaned (c.map f) = peaksCleaned c := by
  unfold peaksCleaned; rw [turnIdx_map f hf]; simp

/-! ### unfolding the common stages -/

/-- sign of the first movement, as the code computes it: `sign(cleaned[1])` after rebasing -/
def sgn1 (v : List ℚ) : ℚ := sign (at' (vals v) 1 - at' v 0)

/-- the cleaned, rebased, sign-normalised values handed to the kernels -/
def cl' (v : List ℚ) : List ℚ := (vals v).map (fun x => (x - at' v 0) * sgn1 v)

theorem peakOnlySeries_eq (kernel : List ℚ → List ℚ) (v : List ℚ) (h : NonConstant v) :
    peakOnlySeries kernel v =
      .ok (putIdx (List.replicate v.length 0) (idxs v) (kernel (cl' v))) := by
  have hm := two_le_runs v h
  cases v with
  | nil => exact absurd rfl (nonConstant_ne_nil _ h)
  | cons v0 xs =>
    have e1 : (vals (v0 :: xs))[1]? = some (at' (vals (v0 :: xs)) 1) := by
      rw [List.getElem?_eq_getElem (by simp; omega)]
      unfold at'; rw [getD_eq _ _ _ (by simp; omega)]
    have e2 : (List.map (·.2) (runs ((v0 :: xs).map (· - v0))))[1]? =
        some (at' (vals (v0 :: xs)) 1 - v0) := by
      change (vals ((v0 :: xs).map (· - v0)))[1]? = _
      rw [vals_map_sub, List.getElem?_map, e1]; rfl
    have e3 : List.map (·.1) (runs ((v0 :: xs).map (· - v0))) = idxs (v0 :: xs) := idxs_map_sub v0 _
    have e4 : List.map (·.2) (runs ((v0 :: xs).map (· - v0))) = (vals (v0 :: xs)).map (· - v0) :=
      vals_map_sub v0 _
    have e2' : (List.map (fun x => x - v0) (vals (v0 :: xs)))[1]? =
        some (at' (vals (v0 :: xs)) 1 - v0) := by rw [← e4]; exact e2
    simp only [peakOnlySeries, e3, e4]
    simp only [List.length_map, List.map_map, e2']
    rfl

/-- C13.c: both series only depend on the series up to a constant shift -/
theorem peakOnlySeries_shift (kernel : List ℚ → List ℚ) (v : List ℚ) (c : ℚ) :
    peakOnlySeries kernel (v.map (· + c)) = peakOnlySeries kernel v := by
  cases v with
  | nil => rfl
  | cons v0 xs =>
    have hw : ((v0 :: xs).map (· + c)).map (· - (v0 + c)) = (v0 :: xs).map (· - v0) := by
      rw [List.map_map]; apply List.map_congr_left; intro x _; simp
    simp only [List.map_cons] at hw ⊢
    simp only [peakOnlySeries, List.map_cons, hw]

theorem sign_mul_self (x : ℚ) (hx : x ≠ 0) : sign x * sign x = 1 := by
  unfold sign
  split
  · norm_num
  · split
    · norm_num
    · rename_i h1 h2
      exact absurd (le_antisymm (not_lt.mp h2) (not_lt.mp h1)) hx

theorem vals_zero (v : List ℚ) (hv : v ≠ []) : at' (vals v) 0 = at' v 0 := by
  rw [vals_eq v 0 (runs_length_pos v hv), idxs_zero v hv]

theorem sgn1_sq (v : List ℚ) (h : NonConstant v) : sgn1 v * sgn1 v = 1 := by
  apply sign_mul_self
  have := vals_cleaned v 0 (by have := vals_two_le v h; omega)
  unfold dif at this
  rw [vals_zero v (nonConstant_ne_nil v h)] at this
  simpa using this

theorem abs_sgn1_mul (v : List ℚ) (h : NonConstant v) (x : ℚ) : |x * sgn1 v| = |x| := by
  have := sgn1_sq v h
  have h2 : |sgn1 v| = 1 := by
    have : |sgn1 v| * |sgn1 v| = 1 := by rw [← abs_mul, this]; simp
    nlinarith [abs_nonneg (sgn1 v)]
  rw [abs_mul, h2, mul_one]

theorem peaksCleaned_cl' (v : List ℚ) (h : NonConstant v) : peaksCleaned (cl' v) = peaksCleaned (vals v) := by
  unfold cl'
  apply peaksCleaned_map
  intro a b c
  have hs := sgn1_sq v h
  have : ((b - at' v 0) * sgn1 v - (a - at' v 0) * sgn1 v) * ((c - at' v 0) * sgn1 v - (b - at' v 0) * sgn1 v)
      = (sgn1 v * sgn1 v) * ((b - a) * (c - b)) := by ring
  rw [this, hs, one_mul]

@[simp] theorem cl'_length (v : List ℚ) : (cl' v).length = (runs v).length := by simp [cl']

theorem at'_cl' (v : List ℚ) (k : ℕ) (hk : k < (runs v).length) :
    at' (cl' v) k = (at' (vals v) k - at' v 0) * sgn1 v := by
  have hk' : k < (vals v).length := by simpa using hk
  unfold cl' at'
  simp only [List.getD_eq_getElem?_getD, List.getElem?_map, List.getElem?_eq_getElem hk']
  simp

/-- `sgn1` is the sign of the first reported movement `v[P[1]] - v[P[0]]` -/
theorem sgn1_eq (v : List ℚ) (h : NonConstant v) : sgn1 v = sign (firstMove v) := by
  have hne := nonConstant_ne_nil v h
  have hm := vals_two_le v h
  have hl := peaks_length_ge v
  have hends := cleaned_segment_ends (vals v) (vals_cleaned v) hm 0 (by rw [← peaks_length]; omega)
  rw [qd_zero] at hends
  rw [firstMove_eq, dlt_eq v h 0 (by omega), qd_zero]
  unfold sgn1
  rw [← vals_zero v hne]
  unfold dif at hends
  set a := at' (vals v) (0+1) - at' (vals v) 0
  set b := at' (vals v) (qd (vals v) (0 + 1)) - at' (vals v) 0
  show sign a = sign b
  unfold sign
  rcases lt_trichotomy a 0 with ha | ha | ha
  · have hb : b < 0 := by
      by_contra hc
      have : a * b ≤ 0 := mul_nonpos_of_nonpos_of_nonneg ha.le (not_lt.mp hc)
      linarith
    simp [ha, hb]
  · rw [ha] at hends; simp at hends
  · have hb : 0 < b := (pos_iff_pos_of_mul_pos hends).mp ha
    simp [ha, hb, not_lt.mpr ha.le, not_lt.mpr hb.le]

/-! ### nodup / range facts for the two `np.put` calls -/

theorem idxs_nodup (v : List ℚ) : (idxs v).Nodup :=
  (idxs_pairwise v).imp (fun h => Nat.ne_of_lt h)

theorem idxs_mem_lt (v : List ℚ) : ∀ i ∈ idxs v, i < v.length := fun i hi => ((mem_idxs v i).mp hi).1

theorem peaksCleaned_nodup (c : List ℚ) (hm : 2 ≤ c.length) : (peaksCleaned c).Nodup :=
  (peaksCleaned_pairwise c hm).imp (fun h => Nat.ne_of_lt h)

/-! ### `np.diff` sums -/

theorem length_diffFrom (prev : ℚ) (l : List ℚ) : (diffFrom prev l).length = l.length := by
  induction l generalizing prev with
  | nil => rfl
  | cons x xs ih => simp [diffFrom, ih]

theorem length_diffs0 (l : List ℚ) (hl : l ≠ []) : (diffs0 l).length = l.length := by
  cases l with
  | nil => exact absurd rfl hl
  | cons x xs => simp [diffs0, diff, length_diffFrom]

theorem sum_abs_diffFrom (prev : ℚ) (l : List ℚ) :
    ((diffFrom prev l).map (fun x => |x|)).sum = tv (prev :: l) := by
  induction l generalizing prev with
  | nil => simp [diffFrom, tv]
  | cons x xs ih => simp [diffFrom, tv, ih]

theorem sum_diffFrom (prev : ℚ) (l : List ℚ) :
    (diffFrom prev l).sum = (prev :: l).getLast?.getD 0 - prev := by
  induction l generalizing prev with
  | nil => simp [diffFrom]
  | cons x xs ih =>
    simp only [diffFrom, List.sum_cons, ih, List.getLast?_cons_cons]
    ring

theorem sum_abs_diffs0 (l : List ℚ) : ((diffs0 l).map (fun x => |x|)).sum = tv l := by
  cases l with
  | nil => simp [diffs0, diff, tv]
  | cons x xs => simp [diffs0, diff, sum_abs_diffFrom]

theorem sum_diffs0 (l : List ℚ) (hl : l ≠ []) : (diffs0 l).sum = l.getLast?.getD 0 - l.head?.getD 0 := by
  cases l with
  | nil => exact absurd rfl hl
  | cons x xs => simp [diffs0, diff, sum_diffFrom]

theorem diffs0_getD_succ (l : List ℚ) (k : ℕ) (hk : k + 1 < l.length) :
    (diffs0 l).getD (k+1) 0 = l.getD (k+1) 0 - l.getD k 0 := by
  cases l with
  | nil => simp at hk
  | cons x xs =>
    simp only [diffs0, diff, List.getD_cons_succ]
    induction xs generalizing x k with
    | nil => simp at hk
    | cons y ys ih =>
      cases k with
      | zero => simp [diffFrom]
      | succ k =>
        simp only [diffFrom, List.getD_cons_succ]
        exact ih k y (by simpa using hk)

/-! ### total variation over the reported cleaned positions -/

theorem tv_peaksCleaned (c : List ℚ) (hc : Cleaned c) (hm : 2 ≤ c.length) :
    tv ((peaksCleaned c).map (at' c)) = tv c := by
  have h := tv_chain c 0 (turnIdx 1 c ++ [c.length - 1]) ?_ (by omega) (peaksCleaned_getLast c)
  · rw [← peaksCleaned_eq] at h
    rw [h]; simp
  · rw [← peaksCleaned_eq, List.isChain_iff_getElem]
    intro j hj
    rw [← getD_eq _ j 0 (by omega), ← getD_eq _ (j+1) 0 hj]
    change qd c j ≤ qd c (j+1) ∧ qd c (j+1) < c.length ∧ _
    refine ⟨(qd_strict c hm j (j+1) (by omega) hj).le, qd_lt c (by omega) (j+1) hj, ?_⟩
    rcases cleaned_segment c hc hm j hj with ⟨_, hmono⟩ | ⟨_, hmono⟩
    · left; intro t h1 h2
      have h1' : qd c j ≤ t := h1
      have h2' : t < qd c (j+1) := h2
      exact (hmono t (t+1) h1' (by omega) (by omega)).le
    · right; intro t h1 h2
      have h1' : qd c j ≤ t := h1
      have h2' : t < qd c (j+1) := h2
      exact (hmono t (t+1) h1' (by omega) (by omega)).le

/-- the peak values handed to the kernels, in terms of the un-normalised cleaned values -/
theorem pv_cl' (v : List ℚ) (h : NonConstant v) :
    (peaksCleaned (vals v)).map (fun i => (cl' v).getD i 0) =
      ((peaksCleaned (vals v)).map (at' (vals v))).map (fun x => (x - at' v 0) * sgn1 v) := by
  rw [List.map_map]
  apply List.map_congr_left
  intro q hq
  have hq' := peaksCleaned_lt (vals v) (by have := vals_two_le v h; omega) q hq
  exact at'_cl' v q (by simpa using hq')

theorem tv_pv (v : List ℚ) (h : NonConstant v) :
    tv ((peaksCleaned (vals v)).map (fun i => (cl' v).getD i 0)) = tv v := by
  rw [pv_cl' v h, tv_map, tv_peaksCleaned _ (vals_cleaned v) (vals_two_le v h), tv_vals]
  intro a b
  have : (b - at' v 0) * sgn1 v - (a - at' v 0) * sgn1 v = (b - a) * sgn1 v := by ring
  rw [this, abs_sgn1_mul v h]

end EqsigVerif.Lemmas.Peaks
