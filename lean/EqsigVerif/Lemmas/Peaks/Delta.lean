import EqsigVerif.Lemmas.Peaks.Series
/-!
# C13.a — the peaks-only delta series
-/
namespace EqsigVerif.Lemmas.Peaks
open EqsigVerif.Model.Peaks EqsigVerif.Np

/-- the common shape of both peak-only series: values `xs` written at the reported cleaned positions,
then the cleaned array written at the run starts -/
def series2 (v : List ℚ) (xs : List ℚ) : List ℚ :=
  putIdx (List.replicate v.length 0) (idxs v)
    (putIdx (List.replicate (runs v).length 0) (peaksCleaned (vals v)) xs)

theorem series2_length (v xs : List ℚ) : (series2 v xs).length = v.length := by simp [series2]

theorem getD_map_lt {α β : Type} (f : α → β) (l : List α) (k : ℕ) (d : α) (d' : β) (hk : k < l.length) :
    (l.map f).getD k d' = f (l.getD k d) := by
  simp [List.getD_eq_getElem?_getD, List.getElem?_map, List.getElem?_eq_getElem hk]

theorem series2_getD_not_mem (v xs : List ℚ) (h : NonConstant v) (i : ℕ) (hi : i ∉ peaks v) :
    (series2 v xs).getD i 0 = 0 := by
  have hm := two_le_runs v h
  unfold series2
  by_cases hin : i ∈ idxs v
  · obtain ⟨k, hk, rfl⟩ := List.mem_iff_getElem.mp hin
    have hk' : k < (runs v).length := by simpa using hk
    rw [← getD_eq (idxs v) k 0 hk]
    rw [putIdx_getD_mem _ _ _ (idxs_nodup v) k hk (by simpa using hk') (by simpa using idxs_lt v k hk')]
    have hkQ : k ∉ peaksCleaned (vals v) := by
      intro hq; apply hi
      exact (mem_peaks_iff v _).mpr ⟨k, hq, (getD_eq (idxs v) k 0 hk).symm⟩
    rw [putIdx_getD_not_mem _ _ _ _ hkQ, replicate_getD]
  · rw [putIdx_getD_not_mem _ _ _ _ hin, replicate_getD]

theorem series2_getD_pd (v xs : List ℚ) (h : NonConstant v) (hxs : xs.length = (peaks v).length)
    (j : ℕ) (hj : j < (peaks v).length) : (series2 v xs).getD (pd v j) 0 = xs.getD j 0 := by
  have hne := nonConstant_ne_nil v h
  have hm := vals_two_le v h
  have hq := qd_vals_lt v hne j hj
  have hjQ : j < (peaksCleaned (vals v)).length := by rwa [← peaks_length]
  unfold series2
  rw [pd_eq v j hj]
  rw [putIdx_getD_mem _ _ _ (idxs_nodup v) _ (by simpa using hq) (by simpa using hq)
    (by simpa using idxs_lt v _ hq)]
  have hq' : (peaksCleaned (vals v)).getD j 0 < (List.replicate (runs v).length (0:ℚ)).length := by
    rw [List.length_replicate]; exact hq
  exact putIdx_getD_mem _ _ _ (peaksCleaned_nodup _ hm) j hjQ (by omega) hq' 

theorem series2_sum_map (g : ℚ → ℚ) (hg : g 0 = 0) (v xs : List ℚ) (h : NonConstant v)
    (hxs : xs.length = (peaks v).length) : ((series2 v xs).map g).sum = (xs.map g).sum := by
  have hne := nonConstant_ne_nil v h
  have hm := vals_two_le v h
  unfold series2
  rw [sum_map_putIdx g hg _ _ _ (idxs_nodup v)
    (fun i hi => ⟨by simpa using idxs_mem_lt v i hi, replicate_getD _ _⟩) (by simp)]
  rw [sum_map_putIdx g hg _ _ _ (peaksCleaned_nodup _ hm)
    (fun i hi => ⟨by simpa using peaksCleaned_lt (vals v) (by omega) i hi, replicate_getD _ _⟩)
    (by rw [hxs, peaks_length])]
  rw [sum_map_replicate_zero g hg, sum_map_replicate_zero g hg]; ring

/-- the peak values in the rebased, sign-normalised frame -/
def pvs (v : List ℚ) : List ℚ := (peaksCleaned (vals v)).map (fun i => (cl' v).getD i 0)

@[simp] theorem pvs_length (v : List ℚ) : (pvs v).length = (peaks v).length := by
  simp [pvs, peaks_length]

theorem pvs_getD (v : List ℚ) (h : NonConstant v) (j : ℕ) (hj : j < (peaks v).length) :
    (pvs v).getD j 0 = (at' v (pd v j) - at' v 0) * sgn1 v := by
  have hne := nonConstant_ne_nil v h
  have hjQ : j < (peaksCleaned (vals v)).length := by rwa [← peaks_length]
  unfold pvs
  rw [getD_map_lt _ _ j 0 0 hjQ]
  change at' (cl' v) (qd (vals v) j) = _
  rw [at'_cl' v _ (qd_vals_lt v hne j hj), at'_pd v hne j hj]

theorem pvs_ne_nil (v : List ℚ) : pvs v ≠ [] := by
  intro h
  have h1 := congrArg List.length h
  rw [pvs_length, List.length_nil] at h1
  have := peaks_length_ge v
  omega

theorem deltaCleaned_cl' (v : List ℚ) (h : NonConstant v) :
    putIdx (List.replicate v.length 0) (idxs v) (deltaCleaned (cl' v)) = series2 v (diffs0 (pvs v)) := by
  unfold deltaCleaned series2 pvs
  simp only [peaksCleaned_cl' v h, cl'_length]

theorem deltaSeries_eq (v : List ℚ) (h : NonConstant v) :
    deltaSeries v = .ok (series2 v (diffs0 (pvs v))) := by
  unfold deltaSeries
  rw [peakOnlySeries_eq _ v h, deltaCleaned_cl' v h]

theorem diffs0_pvs_length (v : List ℚ) : (diffs0 (pvs v)).length = (peaks v).length := by
  rw [length_diffs0 _ (pvs_ne_nil v), pvs_length]

theorem last_sample (v : List ℚ) (hne : v ≠ []) :
    at' v (v.length - 1) = at' (vals v) ((runs v).length - 1) := by
  have hn : 0 < v.length := List.length_pos_iff.mpr hne
  have hm := runs_length_pos v hne
  have hI := idxs_lt v ((runs v).length - 1) (by omega)
  rw [const_after_last v hne (v.length - 1) (by omega) (by omega), vals_eq v _ (by omega)]

theorem pvs_head (v : List ℚ) (h : NonConstant v) : (pvs v).head?.getD 0 = 0 := by
  have hne := nonConstant_ne_nil v h
  have hl := peaks_length_ge v
  have : (pvs v).head? = some ((pvs v).getD 0 0) := by
    rw [List.head?_eq_getElem?, List.getD_eq_getElem?_getD,
      List.getElem?_eq_getElem (by simp; omega)]; rfl
  rw [this, pvs_getD v h 0 (by omega)]
  have : pd v 0 = 0 := by
    have := peaks_head v hne
    unfold pd; rw [List.getD_eq_getElem?_getD, ← List.head?_eq_getElem?, this]; rfl
  rw [this]; simp

theorem pvs_last (v : List ℚ) (h : NonConstant v) :
    (pvs v).getLast?.getD 0 = (at' v (v.length - 1) - at' v 0) * sgn1 v := by
  have hne := nonConstant_ne_nil v h
  have hl := peaks_length_ge v
  have : (pvs v).getLast? = some ((pvs v).getD ((peaks v).length - 1) 0) := by
    rw [List.getLast?_eq_getElem?, List.getD_eq_getElem?_getD, pvs_length,
      List.getElem?_eq_getElem (by simp; omega)]; rfl
  rw [this, pvs_getD v h _ (by omega), pd_last, last_sample v hne, vals_eq v _ (by have := runs_length_pos v hne; omega)]
  rfl

end EqsigVerif.Lemmas.Peaks
