import EqsigVerif.Lemmas.Peaks.Orig
/-!
# C11.a–c on the original level
-/
namespace EqsigVerif.Lemmas.Peaks
open EqsigVerif.Model.Peaks

theorem vals_two_le (v : List ℚ) (h : NonConstant v) : 2 ≤ (vals v).length := by
  simpa using two_le_runs v h

theorem peaks_pairwise (v : List ℚ) (h : NonConstant v) : (peaks v).Pairwise (· < ·) := by
  have hv := nonConstant_ne_nil v h
  rw [peaks_eq, List.pairwise_map]
  apply List.Pairwise.imp_of_mem _ (peaksCleaned_pairwise (vals v) (vals_two_le v h))
  intro a b ha hb hab
  have hb' := peaksCleaned_lt (vals v) (by have := vals_two_le v h; omega) b hb
  exact idxs_strictMono v a b hab (by simpa using hb')

theorem peaks_head (v : List ℚ) (hv : v ≠ []) : (peaks v).head? = some 0 := by
  have h0 := idxs_zero v hv
  rw [List.getD_eq_getElem?_getD] at h0
  rw [peaks_eq, peaksCleaned_eq]
  simp [h0]

theorem peaks_getLast (v : List ℚ) :
    (peaks v).getLast? = some ((idxs v).getD ((runs v).length - 1) 0) := by
  rw [peaks_eq, List.getLast?_map, peaksCleaned_getLast]
  simp

/-- after the last run start the series is constant -/
theorem const_after_last (v : List ℚ) (hv : v ≠ []) (j : ℕ)
    (h1 : (idxs v).getD ((runs v).length - 1) 0 ≤ j) (h2 : j < v.length) :
    at' v j = at' v ((idxs v).getD ((runs v).length - 1) 0) := by
  have hm := runs_length_pos v hv
  have hk : kappa v j = (runs v).length - 1 := kappa_eq v j _ (by omega) h1 (fun h => by omega)
  rw [at_eq_vals_kappa v j h2, hk, vals_eq v _ (by omega)]

theorem pd_strict (v : List ℚ) (h : NonConstant v) (i j : ℕ) (hij : i < j) (hj : j < (peaks v).length) :
    pd v i < pd v j := sorted_get_lt _ (peaks_pairwise v h) i j hij hj

/-- weak monotonicity of the series on a segment between consecutive reported peaks -/
theorem orig_segment (v : List ℚ) (h : NonConstant v) (j : ℕ) (hj : j + 1 < (peaks v).length) :
    (at' v (pd v j) < at' v (pd v (j+1)) ∧
      ∀ s t, pd v j ≤ s → s ≤ t → t ≤ pd v (j+1) → at' v s ≤ at' v t) ∨
    (at' v (pd v (j+1)) < at' v (pd v j) ∧
      ∀ s t, pd v j ≤ s → s ≤ t → t ≤ pd v (j+1) → at' v t ≤ at' v s) := by
  have hv := nonConstant_ne_nil v h
  have hm := vals_two_le v h
  have hj' : j + 1 < (peaksCleaned (vals v)).length := by rwa [← peaks_length]
  have hq := qd_strict (vals v) hm j (j+1) (by omega) hj'
  have e1 := at'_pd v hv j (by omega)
  have e2 := at'_pd v hv (j+1) hj
  have key : ∀ s t, pd v j ≤ s → s ≤ t → t ≤ pd v (j+1) →
      qd (vals v) j ≤ kappa v s ∧ kappa v s ≤ kappa v t ∧ kappa v t ≤ qd (vals v) (j+1) ∧
      at' v s = at' (vals v) (kappa v s) ∧ at' v t = at' (vals v) (kappa v t) := by
    intro s t hs hst ht
    have hlt := pd_lt v hv (j+1) hj
    refine ⟨?_, kappa_mono v s t hst, ?_, at_eq_vals_kappa v s (by omega), at_eq_vals_kappa v t (by omega)⟩
    · rw [← kappa_pd v hv j (by omega)]; exact kappa_mono v _ _ hs
    · rw [← kappa_pd v hv (j+1) hj]; exact kappa_mono v _ _ ht
  rcases cleaned_segment (vals v) (vals_cleaned v) hm j hj' with ⟨_, hmono⟩ | ⟨_, hmono⟩
  · left
    refine ⟨by rw [e1, e2]; exact hmono _ _ le_rfl hq le_rfl, ?_⟩
    intro s t hs hst ht
    obtain ⟨k1, k2, k3, k4, k5⟩ := key s t hs hst ht
    rw [k4, k5]
    rcases Nat.eq_or_lt_of_le k2 with he | hlt
    · rw [he]
    · exact (hmono _ _ k1 hlt k3).le
  · right
    refine ⟨by rw [e1, e2]; exact hmono _ _ le_rfl hq le_rfl, ?_⟩
    intro s t hs hst ht
    obtain ⟨k1, k2, k3, k4, k5⟩ := key s t hs hst ht
    rw [k4, k5]
    rcases Nat.eq_or_lt_of_le k2 with he | hlt
    · rw [he]
    · exact (hmono _ _ k1 hlt k3).le

/-- rise/fall between consecutive reported peaks -/
def dlt (v : List ℚ) (j : ℕ) : ℚ := at' v (pd v (j+1)) - at' v (pd v j)

theorem dlt_eq (v : List ℚ) (h : NonConstant v) (j : ℕ) (hj : j + 1 < (peaks v).length) :
    dlt v j = at' (vals v) (qd (vals v) (j+1)) - at' (vals v) (qd (vals v) j) := by
  have hv := nonConstant_ne_nil v h
  unfold dlt
  rw [at'_pd v hv j (by omega), at'_pd v hv (j+1) hj]

/-- the direction strictly alternates from one segment to the next -/
theorem orig_alternate (v : List ℚ) (h : NonConstant v) (j : ℕ) (hj : j + 2 < (peaks v).length) :
    dlt v j * dlt v (j+1) < 0 := by
  have hm := vals_two_le v h
  have hj' : j + 2 < (peaksCleaned (vals v)).length := by rwa [← peaks_length]
  have a1 := cleaned_segment_ends (vals v) (vals_cleaned v) hm j (by omega)
  have a2 := cleaned_segment_ends (vals v) (vals_cleaned v) hm (j+1) hj'
  have a3 := cleaned_alternate (vals v) (vals_cleaned v) hm j hj'
  rw [dlt_eq v h j (by omega), dlt_eq v h (j+1) hj]
  set a := dif (vals v) (qd (vals v) j)
  set b := dif (vals v) (qd (vals v) (j+1))
  set A := at' (vals v) (qd (vals v) (j+1)) - at' (vals v) (qd (vals v) j)
  set B := at' (vals v) (qd (vals v) (j+1+1)) - at' (vals v) (qd (vals v) (j+1))
  by_contra hn
  have hn' : 0 ≤ A * B := not_lt.mp hn
  have h1 : 0 < (a * A) * (b * B) := mul_pos a1 a2
  have h2 : (a * A) * (b * B) = (a * b) * (A * B) := by ring
  have h3 : (a * b) * (A * B) ≤ 0 := mul_nonpos_of_nonpos_of_nonneg a3.le hn'
  linarith

theorem dlt_ne (v : List ℚ) (h : NonConstant v) (j : ℕ) (hj : j + 1 < (peaks v).length) :
    dlt v j ≠ 0 := by
  rcases orig_segment v h j hj with ⟨h1, _⟩ | ⟨h1, _⟩ <;> unfold dlt <;> intro h0 <;> linarith

/-! ### C11.c -/

/-- `i` is the first sample of a plateau `[i, j)` that is a strict local extremum: the sample before the plateau
and the sample after it lie strictly on the same side -/
def IsTurn (v : List ℚ) (i : ℕ) : Prop :=
  0 < i ∧ ∃ j, i < j ∧ j < v.length ∧ (∀ t, i ≤ t → t < j → v.getD t 0 = v.getD i 0) ∧
    (v.getD i 0 - v.getD (i-1) 0) * (v.getD j 0 - v.getD i 0) < 0

theorem at_pred_run (v : List ℚ) (q : ℕ) (hq1 : 1 ≤ q) (hq : q < (runs v).length) :
    at' v ((idxs v).getD q 0 - 1) = at' (vals v) (q-1) := by
  have hlt := idxs_strictMono v (q-1) q (by omega) hq
  have hn := idxs_lt v q hq
  have hk : kappa v ((idxs v).getD q 0 - 1) = q - 1 :=
    kappa_eq v _ (q-1) (by omega) (by omega) (fun _ => by
      have : q - 1 + 1 = q := by omega
      rw [this]; omega)
  rw [at_eq_vals_kappa v _ (by omega), hk]

theorem turn_of_mem (v : List ℚ) (_hv : v ≠ []) (q : ℕ) (hq : q ∈ turnIdx 1 (vals v)) :
    IsTurn v ((idxs v).getD q 0) := by
  obtain ⟨h1, h2, h3⟩ := (mem_turn1 _ _).mp hq
  simp only [vals_length] at h2
  have hlt0 := idxs_strictMono v 0 q (by omega) (by omega)
  have hlt1 := idxs_strictMono v q (q+1) (by omega) h2
  refine ⟨by omega, (idxs v).getD (q+1) 0, hlt1, idxs_lt v _ h2, ?_, ?_⟩
  · intro t ht1 ht2
    have hk : kappa v t = q := kappa_eq v t q (by omega) ht1 (fun _ => ht2)
    have := at_eq_vals_kappa v t (by have := idxs_lt v _ h2; omega)
    rw [hk, vals_eq v q (by omega)] at this
    exact this
  · have e0 := at_pred_run v q h1 (by omega)
    have e1 := vals_eq v q (by omega)
    have e2 := vals_eq v (q+1) h2
    unfold dif at h3
    have hq' : q - 1 + 1 = q := by omega
    rw [hq'] at h3
    change (at' v ((idxs v).getD q 0) - at' v ((idxs v).getD q 0 - 1)) *
      (at' v ((idxs v).getD (q+1) 0) - at' v ((idxs v).getD q 0)) < 0
    rw [e0, ← e1, ← e2]
    exact h3

theorem mem_of_turn (v : List ℚ) (hv : v ≠ []) (i : ℕ) (hi : IsTurn v i) : i ∈ peaks v := by
  obtain ⟨hpos, j, hij, hjn, hconst, hprod⟩ := hi
  have hne : at' v i ≠ at' v (i-1) := by
    intro h; unfold at' at h; rw [h] at hprod; simp at hprod
  have hne2 : at' v j ≠ at' v i := by
    intro h; unfold at' at h; rw [h] at hprod; simp at hprod
  have hin : i ∈ idxs v := (mem_idxs v i).mpr ⟨by omega, Or.inr hne⟩
  obtain ⟨q, hq, hqi⟩ := List.mem_iff_getElem.mp hin
  have hq' : q < (runs v).length := by simpa using hq
  have eI : (idxs v).getD q 0 = i := by rw [getD_eq _ _ _ hq]; exact hqi
  have hq1 : 1 ≤ q := by
    by_contra h0
    have : q = 0 := by omega
    subst this
    rw [idxs_zero v hv] at eI; omega
  have hkq : kappa v i = q := by rw [← eI]; exact kappa_idxs v q hq'
  have hvi : at' v i = at' (vals v) q := by rw [← eI]; exact (vals_eq v q hq').symm
  -- the run index of j is larger than q
  have hkj : q < kappa v j := by
    have hle : q ≤ kappa v j := by rw [← hkq]; exact kappa_mono v i j (by omega)
    rcases Nat.eq_or_lt_of_le hle with he | hlt
    · exfalso; apply hne2
      rw [at_eq_vals_kappa v j hjn, ← he, hvi]
    · exact hlt
  have hkjm := kappa_lt v hv j
  have hq2 : q + 1 < (runs v).length := by omega
  have hI1 : (idxs v).getD (q+1) 0 ≤ j := by
    have a := idxs_kappa_le v hv j
    have b := sorted_get_le (idxs v) (idxs_pairwise v) (q+1) (kappa v j) (by omega) (by simpa using hkjm)
    omega
  have hI2 := idxs_strictMono v q (q+1) (by omega) hq2
  have hIj : (idxs v).getD (q+1) 0 = j := by
    by_contra hnej
    have hlt : (idxs v).getD (q+1) 0 < j := by omega
    have := hconst _ (by omega) hlt
    have e2 := vals_eq v (q+1) hq2
    have hcl := vals_cleaned v q (by simpa using hq2)
    apply hcl
    unfold dif
    change at' v _ = at' v i at this
    rw [e2, this, hvi]; ring
  have e0 := at_pred_run v q hq1 hq'
  rw [eI] at e0
  have e2 := vals_eq v (q+1) hq2
  rw [hIj] at e2
  have hturn : q ∈ turnIdx 1 (vals v) := by
    rw [mem_turn1]
    refine ⟨hq1, by simpa using hq2, ?_⟩
    unfold dif
    have hq'' : q - 1 + 1 = q := by omega
    rw [hq'', ← e0, e2, ← hvi]
    exact hprod
  exact (mem_peaks_iff v i).mpr ⟨q, (mem_peaksCleaned _ _).mpr (Or.inr (Or.inl hturn)), eI.symm⟩

end EqsigVerif.Lemmas.Peaks
