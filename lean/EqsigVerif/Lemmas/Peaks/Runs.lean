import EqsigVerif.Lemmas.Peaks.Cleaned
/-!
# Lemmas on plateau compression (`runs`) of `Model/Peaks.lean`
-/
namespace EqsigVerif.Lemmas.Peaks
open EqsigVerif.Model.Peaks

/-- original positions of the run starts (`non_zero_indices`) -/
def idxs (v : List ℚ) : List ℕ := (runs v).map (·.1)
/-- cleaned values -/
def vals (v : List ℚ) : List ℚ := (runs v).map (·.2)

theorem getD_eq {α : Type} (l : List α) (k : ℕ) (d : α) (h : k < l.length) : l.getD k d = l[k] := by
  simp [h]

theorem getD_map_lt' {α β : Type} (f : α → β) (l : List α) (k : ℕ) (d : α) (d' : β) (hk : k < l.length) :
    (l.map f).getD k d' = f (l.getD k d) := by
  simp [List.getD_eq_getElem?_getD, List.getElem?_map, List.getElem?_eq_getElem hk]

theorem peaks_eq (v : List ℚ) :
    peaks v = (peaksCleaned (vals v)).map (fun k => (idxs v).getD k 0) := rfl

@[simp] theorem at'_cons_succ (a : ℚ) (l : List ℚ) (k : ℕ) : at' (a :: l) (k+1) = at' l k := by
  simp [at']
@[simp] theorem at'_cons_zero (a : ℚ) (l : List ℚ) : at' (a :: l) 0 = a := by
  simp [at']

theorem runsAux_idx_ge (prev : ℚ) (i : ℕ) (xs : List ℚ) : ∀ r ∈ runsAux prev i xs, i ≤ r.1 := by
  induction xs generalizing prev i with
  | nil => simp [runsAux]
  | cons x xs ih =>
    intro r hr
    simp only [runsAux] at hr
    split at hr
    · have := ih prev (i+1) r hr; omega
    · simp only [List.mem_cons] at hr
      rcases hr with rfl | hr
      · simp
      · have := ih x (i+1) r hr; omega

theorem runsAux_pairwise (prev : ℚ) (i : ℕ) (xs : List ℚ) :
    (runsAux prev i xs).Pairwise (fun a b => a.1 < b.1) := by
  induction xs generalizing prev i with
  | nil => simp [runsAux]
  | cons x xs ih =>
    simp only [runsAux]
    split
    · exact ih prev (i+1)
    · rw [List.pairwise_cons]
      refine ⟨?_, ih x (i+1)⟩
      intro r hr
      have := runsAux_idx_ge x (i+1) xs r hr
      simp only; omega

theorem runsAux_mem (prev : ℚ) (i : ℕ) (xs : List ℚ) (t : ℕ) (x : ℚ) :
    (t, x) ∈ runsAux prev i xs ↔
      ∃ j, j < xs.length ∧ t = i + j ∧ x = at' (prev :: xs) (j+1) ∧
        at' (prev :: xs) (j+1) ≠ at' (prev :: xs) j := by
  induction xs generalizing prev i with
  | nil => simp [runsAux]
  | cons y ys ih =>
    simp only [runsAux]
    split
    · rename_i hy
      subst hy
      rw [ih]
      constructor
      · rintro ⟨j, h1, h2, h3, h4⟩
        refine ⟨j+1, by simp; omega, by omega, ?_, ?_⟩
        · simpa using h3
        · cases j with
          | zero => simpa using h4
          | succ j => simpa using h4
      · rintro ⟨j, h1, h2, h3, h4⟩
        cases j with
        | zero => simp at h4
        | succ j =>
          refine ⟨j, by simpa using h1, by omega, by simpa using h3, ?_⟩
          cases j with
          | zero => simpa using h4
          | succ j => simpa using h4
    · rename_i hy
      rw [List.mem_cons, ih]
      constructor
      · rintro (h | ⟨j, h1, h2, h3, h4⟩)
        · simp only [Prod.mk.injEq] at h
          refine ⟨0, by simp, by omega, by simp [h.2], by simpa using hy⟩
        · exact ⟨j+1, by simp; omega, by omega, by simpa using h3, by simpa using h4⟩
      · rintro ⟨j, h1, h2, h3, h4⟩
        cases j with
        | zero => left; simp at h3; simp [h2, h3]
        | succ j =>
          right
          exact ⟨j, by simpa using h1, by omega, by simpa using h3, by simpa using h4⟩

/-- membership in `runs`: exactly the change points (and index 0), with their values -/
theorem runs_mem (v : List ℚ) (t : ℕ) (x : ℚ) :
    (t, x) ∈ runs v ↔ t < v.length ∧ x = at' v t ∧ (t = 0 ∨ at' v t ≠ at' v (t-1)) := by
  cases v with
  | nil => simp [runs]
  | cons a xs =>
    simp only [runs, List.mem_cons, runsAux_mem]
    constructor
    · rintro (h | ⟨j, h1, h2, h3, h4⟩)
      · simp only [Prod.mk.injEq] at h
        simp [h.1, h.2]
      · subst h2
        refine ⟨by simp; omega, ?_, Or.inr ?_⟩
        · rw [h3]; congr 1; omega
        · have e : 1 + j - 1 = j := by omega
          have e2 : 1 + j = j + 1 := by omega
          rw [e, e2]; exact h4
    · rintro ⟨h1, h2, h3⟩
      cases t with
      | zero => left; simp [h2]
      | succ t =>
        right
        rcases h3 with h3 | h3
        · omega
        · exact ⟨t, by simpa using h1, by omega, h2, by simpa using h3⟩

theorem runs_pairwise (v : List ℚ) : (runs v).Pairwise (fun a b => a.1 < b.1) := by
  cases v with
  | nil => simp [runs]
  | cons a xs =>
    simp only [runs]
    rw [List.pairwise_cons]
    refine ⟨?_, runsAux_pairwise a 1 xs⟩
    intro r hr
    have := runsAux_idx_ge a 1 xs r hr
    simp only; omega

theorem idxs_pairwise (v : List ℚ) : (idxs v).Pairwise (· < ·) := by
  unfold idxs
  rw [List.pairwise_map]
  exact runs_pairwise v

@[simp] theorem idxs_length (v : List ℚ) : (idxs v).length = (runs v).length := by simp [idxs]
@[simp] theorem vals_length (v : List ℚ) : (vals v).length = (runs v).length := by simp [vals]

theorem runs_length_pos (v : List ℚ) (hv : v ≠ []) : 0 < (runs v).length := by
  cases v with
  | nil => exact absurd rfl hv
  | cons a xs => simp [runs]

theorem idxs_zero (v : List ℚ) (hv : v ≠ []) : (idxs v).getD 0 0 = 0 := by
  cases v with
  | nil => exact absurd rfl hv
  | cons a xs => simp [idxs, runs]

/-- the `k`-th run as a member of `runs` -/
theorem runs_get_mem (v : List ℚ) (k : ℕ) (hk : k < (runs v).length) :
    ((idxs v).getD k 0, at' (vals v) k) ∈ runs v := by
  have : ((idxs v).getD k 0, at' (vals v) k) = (runs v)[k] := by
    simp [idxs, vals, at', hk]
  rw [this]; exact List.getElem_mem hk

theorem idxs_lt (v : List ℚ) (k : ℕ) (hk : k < (runs v).length) : (idxs v).getD k 0 < v.length :=
  ((runs_mem v _ _).mp (runs_get_mem v k hk)).1

/-- R2: the cleaned value is the sample at the run start -/
theorem vals_eq (v : List ℚ) (k : ℕ) (hk : k < (runs v).length) :
    at' (vals v) k = at' v ((idxs v).getD k 0) :=
  ((runs_mem v _ _).mp (runs_get_mem v k hk)).2.1

/-- R5: the run starts are exactly index 0 and the change points -/
theorem mem_idxs (v : List ℚ) (t : ℕ) :
    t ∈ idxs v ↔ t < v.length ∧ (t = 0 ∨ at' v t ≠ at' v (t-1)) := by
  unfold idxs
  rw [List.mem_map]
  constructor
  · rintro ⟨⟨t', x⟩, h, rfl⟩
    have := (runs_mem v t' x).mp h
    exact ⟨this.1, this.2.2⟩
  · rintro ⟨h1, h2⟩
    exact ⟨(t, at' v t), (runs_mem v t _).mpr ⟨h1, rfl, h2⟩, rfl⟩

theorem idxs_strictMono (v : List ℚ) (a b : ℕ) (hab : a < b) (hb : b < (runs v).length) :
    (idxs v).getD a 0 < (idxs v).getD b 0 := by
  have h := idxs_pairwise v
  rw [List.pairwise_iff_getElem] at h
  have := h a b (by simp; omega) (by simp; omega) hab
  rw [getD_eq _ _ _ (by simp; omega), getD_eq _ _ _ (by simp; omega)]
  exact this

end EqsigVerif.Lemmas.Peaks
