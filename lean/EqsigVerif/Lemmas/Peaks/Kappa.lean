import EqsigVerif.Lemmas.Peaks.Runs
/-!
# The run index `κ t` of an original position `t`, and `v[t] = cleaned[κ t]`
-/
namespace EqsigVerif.Lemmas.Peaks
open EqsigVerif.Model.Peaks

/-- number of entries `≤ t`, minus one: the position of the last entry `≤ t` of an ascending list -/
def kap (I : List ℕ) (t : ℕ) : ℕ := I.countP (· ≤ t) - 1

theorem sorted_countP (I : List ℕ) (h : I.Pairwise (· < ·)) (t k : ℕ) (hk : k < I.length) :
    I[k] ≤ t ↔ k < I.countP (· ≤ t) := by
  induction I generalizing k with
  | nil => simp at hk
  | cons a I' ih =>
    rw [List.pairwise_cons] at h
    rw [List.countP_cons]
    by_cases hat : a ≤ t
    · cases k with
      | zero => simp [hat]
      | succ k =>
        simp only [List.getElem_cons_succ, hat, decide_true, if_true]
        rw [ih h.2 k (by simpa using hk)]
        omega
    · have h0 : I'.countP (· ≤ t) = 0 := by
        rw [List.countP_eq_zero]
        intro b hb
        have := h.1 b hb
        simp only [decide_eq_true_eq]; omega
      cases k with
      | zero => simp [hat, h0]
      | succ k =>
        simp only [List.getElem_cons_succ, hat, decide_false, h0]
        have hk' : k < I'.length := by simpa using hk
        have := h.1 (I'[k]) (List.getElem_mem hk')
        simp only [Bool.false_eq_true, if_false]
        omega

theorem kap_eq (I : List ℕ) (h : I.Pairwise (· < ·)) (t k : ℕ) (hk : k < I.length)
    (h1 : I[k] ≤ t) (h2 : ∀ h' : k + 1 < I.length, t < I[k+1]) : kap I t = k := by
  have a := (sorted_countP I h t k hk).mp h1
  have hle : I.countP (· ≤ t) ≤ I.length := List.countP_le_length
  unfold kap
  by_cases hk1 : k + 1 < I.length
  · have b := sorted_countP I h t (k+1) hk1
    have := h2 hk1
    omega
  · omega

theorem kap_mono (I : List ℕ) (s t : ℕ) (hst : s ≤ t) : kap I s ≤ kap I t := by
  unfold kap
  have : I.countP (· ≤ s) ≤ I.countP (· ≤ t) := by
    apply List.countP_mono_left
    intro x _ hx
    simp only [decide_eq_true_eq] at hx ⊢; omega
  omega

/-- run index of original position `t` -/
def kappa (v : List ℚ) (t : ℕ) : ℕ := kap (idxs v) t

theorem idxs_get0 (v : List ℚ) (hv : v ≠ []) : (idxs v)[0]'(by simp; exact runs_length_pos v hv) = 0 := by
  have := idxs_zero v hv
  rwa [getD_eq _ _ _ (by simp; exact runs_length_pos v hv)] at this

theorem countP_pos (v : List ℚ) (hv : v ≠ []) (t : ℕ) : 0 < (idxs v).countP (· ≤ t) := by
  have hm := runs_length_pos v hv
  rw [← sorted_countP (idxs v) (idxs_pairwise v) t 0 (by simpa using hm), idxs_get0 v hv]
  omega

theorem kappa_lt (v : List ℚ) (hv : v ≠ []) (t : ℕ) : kappa v t < (runs v).length := by
  have := countP_pos v hv t
  have hle : (idxs v).countP (· ≤ t) ≤ (idxs v).length := List.countP_le_length
  simp only [idxs_length] at hle
  unfold kappa kap; omega

theorem kappa_mono (v : List ℚ) (s t : ℕ) (hst : s ≤ t) : kappa v s ≤ kappa v t := kap_mono _ _ _ hst

theorem kappa_eq (v : List ℚ) (t k : ℕ) (hk : k < (runs v).length)
    (h1 : (idxs v).getD k 0 ≤ t) (h2 : k + 1 < (runs v).length → t < (idxs v).getD (k+1) 0) :
    kappa v t = k := by
  apply kap_eq (idxs v) (idxs_pairwise v) t k (by simpa using hk)
  · rwa [getD_eq _ _ _ (by simpa using hk)] at h1
  · intro h'
    have := h2 (by simpa using h')
    rwa [getD_eq _ _ _ h'] at this

/-- K1 -/
theorem kappa_idxs (v : List ℚ) (k : ℕ) (hk : k < (runs v).length) : kappa v ((idxs v).getD k 0) = k :=
  kappa_eq v _ k hk le_rfl (fun h => idxs_strictMono v k (k+1) (by omega) h)

/-- K4a -/
theorem idxs_kappa_le (v : List ℚ) (hv : v ≠ []) (t : ℕ) : (idxs v).getD (kappa v t) 0 ≤ t := by
  have hk := kappa_lt v hv t
  rw [getD_eq _ _ _ (by simpa using hk)]
  rw [sorted_countP (idxs v) (idxs_pairwise v) t _ (by simpa using hk)]
  have := countP_pos v hv t
  unfold kappa kap; omega

/-- K4b -/
theorem lt_idxs_kappa_succ (v : List ℚ) (t : ℕ) (h : kappa v t + 1 < (runs v).length) :
    t < (idxs v).getD (kappa v t + 1) 0 := by
  rw [getD_eq _ _ _ (by simpa using h)]
  by_contra hc
  have := (sorted_countP (idxs v) (idxs_pairwise v) t _ (by simpa using h)).mp (not_lt.mp hc)
  unfold kappa kap at *; omega

theorem kappa_zero (v : List ℚ) (hv : v ≠ []) : kappa v 0 = 0 := by
  apply kappa_eq v 0 0 (runs_length_pos v hv)
  · rw [idxs_zero v hv]
  · intro h
    have := idxs_strictMono v 0 1 (by omega) h
    simp only [Nat.zero_add]; omega

/-- R4: every sample equals the cleaned value of its run -/
theorem at_eq_vals_kappa (v : List ℚ) (t : ℕ) (ht : t < v.length) :
    at' v t = at' (vals v) (kappa v t) := by
  have hv : v ≠ [] := by intro h; simp [h] at ht
  induction t with
  | zero =>
    rw [kappa_zero v hv, vals_eq v 0 (runs_length_pos v hv), idxs_zero v hv]
  | succ t ih =>
    by_cases he : at' v (t+1) = at' v t
    · have hnot : t + 1 ∉ idxs v := by
        rw [mem_idxs]; simp [he]
      have : kappa v (t+1) = kappa v t := by
        unfold kappa kap
        congr 1
        apply List.countP_congr
        intro x hx
        have : x ≠ t + 1 := fun h => hnot (h ▸ hx)
        simp only [decide_eq_true_eq]; omega
      rw [this, he]; exact ih (by omega)
    · have hin : t + 1 ∈ idxs v := by
        rw [mem_idxs]; exact ⟨ht, Or.inr (by simpa using he)⟩
      obtain ⟨k, hk, hkt⟩ := List.mem_iff_getElem.mp hin
      have hk' : k < (runs v).length := by simpa using hk
      have e : (idxs v).getD k 0 = t + 1 := by rw [getD_eq _ _ _ hk]; exact hkt
      have := kappa_idxs v k hk'
      rw [e] at this
      rw [this, vals_eq v k hk', e]

/-- R3: the cleaned values have no equal neighbours -/
theorem vals_cleaned (v : List ℚ) : Cleaned (vals v) := by
  intro k hk
  simp only [vals_length] at hk
  have hv : v ≠ [] := by intro h; simp [h, runs] at hk
  have hlt := idxs_strictMono v k (k+1) (by omega) hk
  have hmem : (idxs v).getD (k+1) 0 ∈ idxs v := by
    rw [getD_eq _ _ _ (by simpa using hk)]; exact List.getElem_mem _
  rw [mem_idxs] at hmem
  rcases hmem.2 with h0 | hne
  · omega
  · -- v[I[k+1]-1] is in run k
    have hkap : kappa v ((idxs v).getD (k+1) 0 - 1) = k :=
      kappa_eq v _ k (by omega) (by omega) (fun _ => by omega)
    have e1 := at_eq_vals_kappa v ((idxs v).getD (k+1) 0 - 1) (by omega)
    rw [hkap] at e1
    have e2 := vals_eq v (k+1) hk
    unfold dif
    rw [e2, ← e1]
    intro h
    exact hne (by linarith)

end EqsigVerif.Lemmas.Peaks
