import EqsigVerif.Model.TimeStep
import EqsigVerif.Lemmas.Interp
import Mathlib.Algebra.Order.Floor.Ring
import Mathlib.Data.Rat.Floor
import Mathlib.Tactic.Ring
import Mathlib.Tactic.Linarith
import Mathlib.Tactic.Positivity
import Mathlib.Tactic.FieldSimp
import Mathlib.Tactic.NormNum
/-!
# Lemmas about `Model/TimeStep.lean` (factor rule, output grid of `interp_array_to_approx_dt`)
-/
namespace EqsigVerif.Model.TimeStep
open EqsigVerif.Interp

/-! ### core `Rat.floor`/`Rat.ceil` are Mathlib's `⌊·⌋`/`⌈·⌉` -/

theorem floor_eq (q : ℚ) : Rat.floor q = ⌊q⌋ := rfl

theorem ceil_eq (q : ℚ) : Rat.ceil q = ⌈q⌉ := by
  rw [Rat.ceil_eq_neg_floor_neg]; rfl

theorem truncZ_of_nonneg (q : ℚ) (h : 0 ≤ q) : truncZ q = ⌊q⌋ := by
  unfold truncZ
  rw [if_neg (not_lt.mpr h)]; rfl

theorem truncZ_of_neg (q : ℚ) (h : q < 0) : truncZ q = ⌈q⌉ := by
  unfold truncZ
  rw [if_pos h, ceil_eq]

theorem arangeLen_intCast (z : ℤ) : arangeLen (z : ℚ) = z.toNat := by
  unfold arangeLen; rw [ceil_eq]; simp

theorem arangeLen_natCast (m : ℕ) : arangeLen (m : ℚ) = m := by
  have := arangeLen_intCast (m : ℤ)
  simpa using this

/-! ### the factor rule -/

theorem factorRule_one : factorRule 1 = 1 := by simp [factorRule]

theorem factorRule_of_gt_one (q : ℚ) (hq : 1 < q) : factorRule q = ((⌈q⌉ : ℤ) : ℚ) := by
  unfold factorRule
  rw [if_neg (ne_of_gt hq), if_pos hq, ceil_eq]

theorem factorRule_of_lt_one (q : ℚ) (hq : q < 1) : factorRule q = 1 / ((⌊1 / q⌋ : ℤ) : ℚ) := by
  unfold factorRule
  rw [if_neg (ne_of_lt hq), if_neg (not_lt.mpr hq.le)]; rfl

/-- `q ≥ 1 → factor = ⌈q⌉` (for `q = 1` the rule returns `q` itself, which is `⌈1⌉`) -/
theorem factorRule_of_ge_one (q : ℚ) (hq : 1 ≤ q) : factorRule q = ((⌈q⌉ : ℤ) : ℚ) := by
  rcases eq_or_lt_of_le hq with h | h
  · rw [← h, factorRule_one]; simp
  · exact factorRule_of_gt_one q h

theorem one_le_floor_inv (q : ℚ) (h0 : 0 < q) (h1 : q < 1) : 1 ≤ ⌊1 / q⌋ := by
  rw [Int.le_floor]
  rw [le_div_iff₀ h0]; push_cast; linarith

theorem two_le_ceil (q : ℚ) (hq : 1 < q) : 2 ≤ ⌈q⌉ := by
  have : (1 : ℤ) < ⌈q⌉ := by
    rw [Int.lt_ceil]; exact_mod_cast hq
  omega

theorem factorRule_pos (q : ℚ) (h0 : 0 < q) : 0 < factorRule q := by
  rcases lt_trichotomy q 1 with h | h | h
  · rw [factorRule_of_lt_one q h]
    have := one_le_floor_inv q h0 h
    have : (0 : ℚ) < ((⌊1 / q⌋ : ℤ) : ℚ) := by exact_mod_cast (by omega : 0 < ⌊1 / q⌋)
    positivity
  · rw [h, factorRule_one]; norm_num
  · rw [factorRule_of_gt_one q h]
    have := two_le_ceil q h
    exact_mod_cast (by omega : 0 < ⌈q⌉)

/-- the rule never returns a factor below the exact quotient: `q ≤ factor`, i.e. `dt/factor ≤ target` -/
theorem le_factorRule (q : ℚ) (h0 : 0 < q) : q ≤ factorRule q := by
  rcases lt_trichotomy q 1 with h | h | h
  · rw [factorRule_of_lt_one q h]
    have h1 := one_le_floor_inv q h0 h
    have hpos : (0 : ℚ) < ((⌊1 / q⌋ : ℤ) : ℚ) := by exact_mod_cast (by omega : 0 < ⌊1 / q⌋)
    have hfl : ((⌊1 / q⌋ : ℤ) : ℚ) ≤ 1 / q := Int.floor_le _
    rw [le_div_iff₀ hpos]
    have := mul_le_mul_of_nonneg_left hfl h0.le
    rwa [mul_one_div_cancel h0.ne'] at this
  · rw [h, factorRule_one]
  · rw [factorRule_of_gt_one q h]; exact Int.le_ceil q

/-! ### the output grid -/

@[simp] theorem length_tDb (n : ℕ) (f : ℚ) (even : Bool) : (tDb n f even).length = outLen n f even := by
  simp [tDb]

@[simp] theorem length_interpValues (x : List ℚ) (f : ℚ) (even : Bool) :
    (interpValues x f even).length = outLen x.length f even := by
  simp [interpValues]

theorem interpValues_getElem (x : List ℚ) (f : ℚ) (even : Bool) (j : ℕ)
    (hj : j < (interpValues x f even).length) :
    (interpValues x f even)[j] =
      interpUnit x (x.getD 0 0) (x.getD (x.length - 1) 0) ((j : ℚ) / f) := by
  simp [interpValues, tDb]

/-! ### refinement: `factor = k ∈ ℕ`, `k ≥ 1` -/

theorem newNpts_refine_odd (n k : ℕ) : newNpts n (k : ℚ) false = ((k * n : ℕ) : ℚ) := by
  simp [newNpts]

theorem newNpts_refine_even (n k : ℕ) : newNpts n (k : ℚ) true = ((2 * (k * n / 2) : ℕ) : ℚ) := by
  unfold newNpts
  simp only [if_true]
  have h0 : (0 : ℚ) ≤ (k : ℚ) * (n : ℚ) / 2 := by positivity
  rw [truncZ_of_nonneg _ h0]
  have : (k : ℚ) * (n : ℚ) / 2 = ((k * n : ℕ) : ℚ) / ((2 : ℕ) : ℚ) := by push_cast; ring
  rw [this, Rat.floor_natCast_div_natCast, ← Int.natCast_div]
  norm_cast

theorem outLen_refine_odd (n k : ℕ) : outLen n (k : ℚ) false = k * n := by
  unfold outLen; rw [newNpts_refine_odd, arangeLen_natCast]

theorem outLen_refine_even (n k : ℕ) : outLen n (k : ℚ) true = 2 * (k * n / 2) := by
  unfold outLen; rw [newNpts_refine_even, arangeLen_natCast]

theorem outLen_refine_le (n k : ℕ) (even : Bool) : outLen n (k : ℚ) even ≤ k * n := by
  cases even
  · rw [outLen_refine_odd]
  · rw [outLen_refine_even]; omega

/-! ### decimation: `factor = 1/m`, `m ∈ ℕ`, `m ≥ 1` -/

theorem ceil_natCast_div (n m : ℕ) (hm : 0 < m) : ⌈(n : ℚ) / (m : ℚ)⌉ = (((n + m - 1) / m : ℕ) : ℤ) := by
  rw [Int.ceil_eq_iff]
  have h1 := Nat.div_mul_le_self (n + m - 1) m
  have h2 := Nat.lt_div_mul_add (a := n + m - 1) hm
  set z := (n + m - 1) / m with hz
  have hmq : (0 : ℚ) < m := by exact_mod_cast hm
  have e1 : ((z * m : ℕ) : ℚ) ≤ ((n + m - 1 : ℕ) : ℚ) := by exact_mod_cast h1
  have e2 : ((n + m - 1 : ℕ) : ℚ) < ((z * m + m : ℕ) : ℚ) := by exact_mod_cast h2
  have e3 : ((n + m - 1 : ℕ) : ℚ) = (n : ℚ) + m - 1 := by
    have : 1 ≤ n + m := by omega
    push_cast [Nat.cast_sub this]; ring
  rw [e3] at e1 e2
  push_cast at e1 e2 ⊢
  constructor
  · rw [lt_div_iff₀ hmq]
    have : ((n : ℚ)) < z * m + 1 := by linarith
    -- integers: n < z*m + 1 → n ≤ z*m ; need (z-1)*m < n ⇐ z*m ≤ n+m-1
    nlinarith
  · rw [div_le_iff₀ hmq]
    have hnat : n ≤ z * m := by omega
    exact_mod_cast hnat

theorem newNpts_decim_odd (n m : ℕ) : newNpts n (1 / (m : ℚ)) false = (n : ℚ) / (m : ℚ) := by
  simp [newNpts]; ring

theorem outLen_decim_odd (n m : ℕ) (hm : 0 < m) : outLen n (1 / (m : ℚ)) false = (n + m - 1) / m := by
  unfold outLen
  rw [newNpts_decim_odd]
  unfold arangeLen
  rw [ceil_eq, ceil_natCast_div n m hm]; exact Int.toNat_natCast _

theorem newNpts_decim_even (n m : ℕ) :
    newNpts n (1 / (m : ℚ)) true = ((2 * (n / (2 * m)) : ℕ) : ℚ) := by
  unfold newNpts
  simp only [if_true]
  have h0 : (0 : ℚ) ≤ 1 / (m : ℚ) * (n : ℚ) / 2 := by positivity
  rw [truncZ_of_nonneg _ h0]
  have : 1 / (m : ℚ) * (n : ℚ) / 2 = ((n : ℕ) : ℚ) / ((2 * m : ℕ) : ℚ) := by
    push_cast
    by_cases hm : (m : ℚ) = 0
    · simp [hm]
    · field_simp
  rw [this, Rat.floor_natCast_div_natCast, ← Int.natCast_div]
  norm_cast

theorem outLen_decim_even (n m : ℕ) : outLen n (1 / (m : ℚ)) true = 2 * (n / (2 * m)) := by
  unfold outLen; rw [newNpts_decim_even, arangeLen_natCast]

/-- every index read by the decimated grid is inside the record -/
theorem decim_index_lt (n m : ℕ) (hm : 0 < m) (even : Bool) (j : ℕ)
    (hj : j < outLen n (1 / (m : ℚ)) even) : j * m < n := by
  cases even
  · rw [outLen_decim_odd n m hm] at hj
    have h1 := Nat.div_mul_le_self (n + m - 1) m
    have : (j + 1) * m ≤ (n + m - 1) / m * m := Nat.mul_le_mul_right m hj
    have : (j + 1) * m = j * m + m := by ring
    omega
  · rw [outLen_decim_even] at hj
    have h1 := Nat.div_mul_le_self n (2 * m)
    have h3 : (j + 1) * m ≤ 2 * (n / (2 * m)) * m := Nat.mul_le_mul_right m hj
    have h4 : 2 * (n / (2 * m)) * m = n / (2 * m) * (2 * m) := by ring
    have h5 : (j + 1) * m = j * m + m := by ring
    omega


/-! ### covered duration -/

theorem abs_scaled_lt (c dt A k : ℚ) (hdt : 0 < dt) (hk : 0 < k) (h1 : -(c * k) < A) (h2 : A < c * k) :
    |dt * A / k| < c * dt := by
  rw [abs_lt]
  have e1 := mul_lt_mul_of_pos_left h1 hdt
  have e2 := mul_lt_mul_of_pos_left h2 hdt
  constructor
  · rw [lt_div_iff₀ hk]; nlinarith
  · rw [div_lt_iff₀ hk]; nlinarith

/-- the output length is even whenever `even` is requested, for every factor -/
theorem even_outLen (n : ℕ) (f : ℚ) : 2 ∣ outLen n f true := by
  unfold outLen newNpts
  simp only [if_true]
  rw [arangeLen_intCast]
  set z := truncZ (f * (n : ℚ) / 2)
  rcases le_or_gt 0 z with h | h
  · exact ⟨z.toNat, by omega⟩
  · exact ⟨0, by omega⟩

/-- refinement: `|(L−1)·dt/k − (n−1)·dt| < 2·max(dt, dt/k)` (in fact `≤ dt`) -/
theorem duration_refine (n k : ℕ) (hk : 1 ≤ k) (dt : ℚ) (hdt : 0 < dt) (even : Bool) :
    |(((outLen n (k : ℚ) even : ℕ) : ℚ) - 1) * (dt / (k : ℚ)) - ((n : ℚ) - 1) * dt|
      < 2 * max dt (dt / (k : ℚ)) := by
  have hk0 : (0 : ℚ) < (k : ℚ) := by exact_mod_cast (by omega : 0 < k)
  have hk1 : (1 : ℚ) ≤ (k : ℚ) := by exact_mod_cast hk
  have hL : k * n - 1 ≤ outLen n (k : ℚ) even ∧ outLen n (k : ℚ) even ≤ k * n := by
    cases even
    · rw [outLen_refine_odd]; omega
    · rw [outLen_refine_even]; omega
  obtain ⟨hL1, hL2⟩ := hL
  set L := outLen n (k : ℚ) even
  have hL1q : (k : ℚ) * (n : ℚ) - 1 ≤ (L : ℚ) := by
    have : ((k * n : ℕ) : ℚ) ≤ ((L + 1 : ℕ) : ℚ) := by exact_mod_cast (by omega : k * n ≤ L + 1)
    push_cast at this; linarith
  have hL2q : (L : ℚ) ≤ (k : ℚ) * (n : ℚ) := by exact_mod_cast hL2
  have hx : ((L : ℚ) - 1) * (dt / (k : ℚ)) - ((n : ℚ) - 1) * dt
      = dt * ((L : ℚ) - 1 - (k : ℚ) * (n : ℚ) + (k : ℚ)) / (k : ℚ) := by
    field_simp
    ring
  rw [hx]
  have := abs_scaled_lt 2 dt ((L : ℚ) - 1 - (k : ℚ) * (n : ℚ) + (k : ℚ)) (k : ℚ) hdt hk0
    (by linarith) (by linarith)
  have hmax : dt ≤ max dt (dt / (k : ℚ)) := le_max_left _ _
  linarith

/-- decimation, `even = False`: `|(L−1)·m·dt − (n−1)·dt| < 2·max(dt, m·dt)` (in fact `< m·dt`) -/
theorem duration_decim_odd (n m : ℕ) (hm : 1 ≤ m) (dt : ℚ) (hdt : 0 < dt) :
    |(((outLen n (1 / (m : ℚ)) false : ℕ) : ℚ) - 1) * (dt / (1 / (m : ℚ))) - ((n : ℚ) - 1) * dt|
      < 2 * max dt (dt / (1 / (m : ℚ))) := by
  have hm0 : (0 : ℚ) < (m : ℚ) := by exact_mod_cast (by omega : 0 < m)
  rw [outLen_decim_odd n m hm]
  have h1 := Nat.div_mul_le_self (n + m - 1) m
  have h2 := Nat.lt_div_mul_add (a := n + m - 1) (by omega : 0 < m)
  set L := (n + m - 1) / m
  -- n ≤ m·L ≤ n + m − 1
  have hA : n ≤ L * m ∧ L * m ≤ n + m - 1 := by omega
  have hA1 : (n : ℚ) ≤ (L : ℚ) * (m : ℚ) := by exact_mod_cast hA.1
  have hA2 : (L : ℚ) * (m : ℚ) ≤ (n : ℚ) + (m : ℚ) - 1 := by
    have : ((L * m + 1 : ℕ) : ℚ) ≤ ((n + m : ℕ) : ℚ) := by exact_mod_cast (by omega : L * m + 1 ≤ n + m)
    push_cast at this; linarith
  have hx : ((L : ℚ) - 1) * (dt / (1 / (m : ℚ))) - ((n : ℚ) - 1) * dt
      = (dt * (m : ℚ)) * ((L : ℚ) * (m : ℚ) - (m : ℚ) - (n : ℚ) + 1) / (m : ℚ) := by
    field_simp
    ring
  have hnd : dt / (1 / (m : ℚ)) = dt * (m : ℚ) := by field_simp
  rw [hx, hnd]
  have := abs_scaled_lt 2 (dt * (m : ℚ)) ((L : ℚ) * (m : ℚ) - (m : ℚ) - (n : ℚ) + 1) (m : ℚ)
    (by positivity) hm0 (by linarith) (by linarith)
  have hmax : dt * (m : ℚ) ≤ max dt (dt * (m : ℚ)) := le_max_right _ _
  linarith

/-- decimation, `even = True`: only `< 3·new_dt` holds (`new_dt = m·dt`) -/
theorem duration_decim_even (n m : ℕ) (hm : 1 ≤ m) (dt : ℚ) (hdt : 0 < dt) :
    |(((outLen n (1 / (m : ℚ)) true : ℕ) : ℚ) - 1) * (dt / (1 / (m : ℚ))) - ((n : ℚ) - 1) * dt|
      < 3 * (dt / (1 / (m : ℚ))) := by
  have hm0 : (0 : ℚ) < (m : ℚ) := by exact_mod_cast (by omega : 0 < m)
  have hm1 : (1 : ℚ) ≤ (m : ℚ) := by exact_mod_cast hm
  rw [outLen_decim_even n m]
  have h1 := Nat.div_mul_le_self n (2 * m)
  have h2 := Nat.lt_div_mul_add (a := n) (by omega : 0 < 2 * m)
  set z := n / (2 * m)
  -- n − 2m < 2·z·m ≤ n
  have hB1 : ((2 * z : ℕ) : ℚ) * (m : ℚ) ≤ (n : ℚ) := by
    have : 2 * z * m ≤ n := by
      have : 2 * z * m = z * (2 * m) := by ring
      omega
    exact_mod_cast this
  have hB2 : (n : ℚ) < ((2 * z : ℕ) : ℚ) * (m : ℚ) + 2 * (m : ℚ) := by
    have : n < 2 * z * m + 2 * m := by
      have : 2 * z * m = z * (2 * m) := by ring
      omega
    exact_mod_cast this
  have hx : (((2 * z : ℕ) : ℚ) - 1) * (dt / (1 / (m : ℚ))) - ((n : ℚ) - 1) * dt
      = (dt * (m : ℚ)) * (((2 * z : ℕ) : ℚ) * (m : ℚ) - (m : ℚ) - (n : ℚ) + 1) / (m : ℚ) := by
    field_simp
    ring
  have hnd : dt / (1 / (m : ℚ)) = dt * (m : ℚ) := by field_simp
  rw [hx, hnd]
  exact abs_scaled_lt 3 (dt * (m : ℚ)) (((2 * z : ℕ) : ℚ) * (m : ℚ) - (m : ℚ) - (n : ℚ) + 1) (m : ℚ)
    (by positivity) hm0 (by linarith) (by linarith)

end EqsigVerif.Model.TimeStep
