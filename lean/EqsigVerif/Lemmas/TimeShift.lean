import EqsigVerif.Model.TimeShift
import EqsigVerif.Lemmas.TimeStep
import Mathlib.Tactic.Ring
import Mathlib.Tactic.Linarith
import Mathlib.Order.Lattice
import Mathlib.Algebra.Order.Ring.Int
/-!
# Lemmas about `Model/TimeShift.lean`: Python slicing, `put_array_in_2d_array`, `join_values_w_shifts`
-/
namespace EqsigVerif.Model.TimeShift
open EqsigVerif.Wire (ErrKind)

/-! ### `mapM` in `Except` -/

theorem mapM_ok {α β : Type} (f : α → Except ErrKind β) (g : α → β) (l : List α)
    (h : ∀ a ∈ l, f a = .ok (g a)) : l.mapM f = .ok (l.map g) := by
  induction l with
  | nil => rfl
  | cons a as ih =>
    rw [List.mapM_cons, h a (by simp), ih (fun b hb => h b (by simp [hb]))]
    rfl

theorem mapM_head_error {α β : Type} (f : α → Except ErrKind β) (a : α) (as : List α) (e : ErrKind)
    (h : f a = .error e) : (a :: as).mapM f = .error e := by
  rw [List.mapM_cons, h]; rfl

/-! ### integer max / min of a list -/

theorem foldl_max_spec (x : ℤ) (xs : List ℤ) :
    (∀ j ∈ x :: xs, j ≤ xs.foldl max x) ∧ xs.foldl max x ∈ x :: xs := by
  induction xs generalizing x with
  | nil => simp
  | cons y ys ih =>
    obtain ⟨h1, h2⟩ := ih (max x y)
    simp only [List.foldl_cons]
    constructor
    · intro j hj
      simp only [List.mem_cons] at hj
      rcases hj with h | h | hj
      · rw [h]; exact le_trans (le_max_left x y) (h1 (max x y) (by simp))
      · rw [h]; exact le_trans (le_max_right x y) (h1 (max x y) (by simp))
      · exact h1 j (by simp [hj])
    · simp only [List.mem_cons] at h2 ⊢
      rcases h2 with h2 | h2
      · rcases max_choice x y with h | h
        · left; rw [h2, h]
        · right; left; rw [h2, h]
      · right; right; exact h2

theorem foldl_min_spec (x : ℤ) (xs : List ℤ) :
    (∀ j ∈ x :: xs, xs.foldl min x ≤ j) ∧ xs.foldl min x ∈ x :: xs := by
  induction xs generalizing x with
  | nil => simp
  | cons y ys ih =>
    obtain ⟨h1, h2⟩ := ih (min x y)
    simp only [List.foldl_cons]
    constructor
    · intro j hj
      simp only [List.mem_cons] at hj
      rcases hj with h | h | hj
      · rw [h]; exact le_trans (h1 (min x y) (by simp)) (min_le_left x y)
      · rw [h]; exact le_trans (h1 (min x y) (by simp)) (min_le_right x y)
      · exact h1 j (by simp [hj])
    · simp only [List.mem_cons] at h2 ⊢
      rcases h2 with h2 | h2
      · rcases min_choice x y with h | h
        · left; rw [h2, h]
        · right; left; rw [h2, h]
      · right; right; exact h2

theorem maxInt?_spec (l : List ℤ) (hne : l ≠ []) :
    ∃ M, maxInt? l = .ok M ∧ (∀ j ∈ l, j ≤ M) ∧ M ∈ l := by
  cases l with
  | nil => exact absurd rfl hne
  | cons x xs => exact ⟨xs.foldl max x, rfl, (foldl_max_spec x xs).1, (foldl_max_spec x xs).2⟩

theorem minInt?_spec (l : List ℤ) (hne : l ≠ []) :
    ∃ M, minInt? l = .ok M ∧ (∀ j ∈ l, M ≤ j) ∧ M ∈ l := by
  cases l with
  | nil => exact absurd rfl hne
  | cons x xs => exact ⟨xs.foldl min x, rfl, (foldl_min_spec x xs).1, (foldl_min_spec x xs).2⟩

/-- `start_extras`, `end_extras` are the least naturals with `-se ≤ j ≤ ee` for every shift -/
theorem extras_spec (shifts : List ℤ) (hne : shifts ≠ []) :
    ∃ se ee : ℕ, extras shifts = .ok (se, ee) ∧ (∀ j ∈ shifts, -(se : ℤ) ≤ j ∧ j ≤ (ee : ℤ)) ∧
      (ee = 0 ∨ (ee : ℤ) ∈ shifts) ∧ (se = 0 ∨ -(se : ℤ) ∈ shifts) := by
  obtain ⟨M, hM, hM1, hM2⟩ := maxInt?_spec shifts hne
  obtain ⟨m, hm, hm1, hm2⟩ := minInt?_spec shifts hne
  refine ⟨(-(min m 0)).toNat, (max M 0).toNat, ?_, ?_, ?_, ?_⟩
  · simp [extras, hM, hm, bind, Except.bind, pure, Except.pure]
  · intro j hj
    have := hM1 j hj; have := hm1 j hj
    constructor <;> omega
  · rcases le_or_gt M 0 with h | h
    · left; omega
    · right
      have : (((max M 0).toNat : ℕ) : ℤ) = M := by omega
      rw [this]; exact hM2
  · rcases le_or_gt 0 m with h | h
    · left; omega
    · right
      have : -(((-(min m 0)).toNat : ℕ) : ℤ) = m := by omega
      rw [this]; exact hm2

/-! ### slice assignment into a zero row -/

/-- row of the un-clipped `put_array_in_2d_array` result: `se + j` zeros, the values, `ee - j` zeros -/
def shiftedRow (values : List ℚ) (se ee : ℕ) (j : ℤ) : List ℚ :=
  List.replicate ((se : ℤ) + j).toNat 0 ++ values ++ List.replicate ((ee : ℤ) - j).toNat 0

theorem length_shiftedRow (values : List ℚ) (se ee : ℕ) (j : ℤ) (h1 : -(se : ℤ) ≤ j) (h2 : j ≤ (ee : ℤ)) :
    (shiftedRow values se ee j).length = values.length + se + ee := by
  simp only [shiftedRow, List.length_append, List.length_replicate]; omega

theorem assignBroadcast_same (src : List ℚ) : assignBroadcast src.length src = .ok src := by
  simp [assignBroadcast]

theorem sliceAssign_zero (values : List ℚ) (se ee : ℕ) (j : ℤ) (h1 : -(se : ℤ) ≤ j) (h2 : j ≤ (ee : ℤ)) :
    sliceAssign (List.replicate (values.length + se + ee) 0) ((se : ℤ) + j)
        ((se : ℤ) + (values.length : ℤ) + j) values = .ok (shiftedRow values se ee j) := by
  obtain ⟨a, ha⟩ : ∃ a : ℕ, (a : ℤ) = (se : ℤ) + j := ⟨((se : ℤ) + j).toNat, by omega⟩
  obtain ⟨b, hb⟩ : ∃ b : ℕ, (b : ℤ) = (ee : ℤ) - j := ⟨((ee : ℤ) - j).toNat, by omega⟩
  have hlo : pyIdx (values.length + se + ee) ((se : ℤ) + j) = a := by
    unfold pyIdx; rw [if_neg (by omega)]; omega
  have hhi : pyIdx (values.length + se + ee) ((se : ℤ) + (values.length : ℤ) + j) = a + values.length := by
    unfold pyIdx; rw [if_neg (by omega)]; omega
  unfold sliceAssign
  simp only [List.length_replicate, hlo, hhi]
  have ht : a + values.length - a = values.length := by omega
  rw [ht, assignBroadcast_same]
  simp only [bind, Except.bind, pure, Except.pure, shiftedRow, List.take_replicate, List.drop_replicate]
  have e1 : min a (values.length + se + ee) = ((se : ℤ) + j).toNat := by omega
  have e2 : values.length + se + ee - (a + values.length) = ((ee : ℤ) - j).toNat := by omega
  rw [e1, e2]

/-- the un-clipped array: row `i` is `shiftedRow values se ee shifts[i]` -/
theorem put2dFull_spec (values : List ℚ) (shifts : List ℤ) (hne : shifts ≠ []) :
    ∃ se ee : ℕ, extras shifts = .ok (se, ee) ∧
      put2dFull values shifts = .ok (shifts.map (shiftedRow values se ee)) := by
  obtain ⟨se, ee, hex, hb, -, -⟩ := extras_spec shifts hne
  refine ⟨se, ee, hex, ?_⟩
  unfold put2dFull
  simp only [hex, bind, Except.bind]
  exact mapM_ok _ _ _ (fun j hj => sliceAssign_zero values se ee j (hb j hj).1 (hb j hj).2)

/-! ### clipping -/

theorem pySlice_none_neg {α : Type} (l : List α) (k : ℕ) :
    pySlice l none (some (-(k : ℤ))) = if k = 0 then [] else l.take (l.length - k) := by
  unfold pySlice pyIdx
  by_cases hk : k = 0
  · subst hk; simp
  · have : (-(k : ℤ)) < 0 := by omega
    simp only [this, if_true, hk, if_false, List.drop_zero]
    congr 1; omega

theorem pySlice_some_none {α : Type} (l : List α) (k : ℕ) :
    pySlice l (some (k : ℤ)) none = l.drop k := by
  unfold pySlice pyIdx
  have : ¬ ((k : ℤ) < 0) := by omega
  simp only [this, if_false, List.take_length, Int.toNat_natCast]
  rcases le_or_gt k l.length with h | h
  · rw [min_eq_left h]
  · rw [min_eq_right h.le, List.drop_eq_nil_of_le (le_refl _), List.drop_eq_nil_of_le h.le]

/-- how `clip` cuts one full row (`se`/`ee` = start/end extras, `npts` = number of values) -/
def clipRow (clip : Clip) (npts se : ℕ) (row : List ℚ) : List ℚ :=
  match clip with
  | .none => row
  | .end => row.take (npts + se)
  | .start => row.drop se
  | .both => (row.take (npts + se)).drop se


theorem take_of_length_le {α : Type} (l : List α) (n : ℕ) (h : l.length ≤ n) : l.take n = l :=
  List.take_of_length_le h

/-- `put_array_in_2d_array`: every row is the clipped `shiftedRow` -/
theorem put2d_spec (values : List ℚ) (shifts : List ℤ) (clip : Clip) (hne : shifts ≠ []) :
    ∃ se ee : ℕ, extras shifts = .ok (se, ee) ∧
      (∀ j ∈ shifts, -(se : ℤ) ≤ j ∧ j ≤ (ee : ℤ)) ∧
      (ee = 0 ∨ (ee : ℤ) ∈ shifts) ∧ (se = 0 ∨ -(se : ℤ) ∈ shifts) ∧
      put2d values shifts clip =
        .ok (shifts.map (fun j => clipRow clip values.length se (shiftedRow values se ee j))) := by
  obtain ⟨se, ee, hex, hb, hee, hse⟩ := extras_spec shifts hne
  obtain ⟨se', ee', hex', hfull⟩ := put2dFull_spec values shifts hne
  have : (se', ee') = (se, ee) := by
    have := hex'.symm.trans hex
    injection this
  obtain ⟨rfl, rfl⟩ := Prod.mk.inj this
  refine ⟨se', ee', hex, hb, hee, hse, ?_⟩
  have hlen : ∀ j ∈ shifts, (shiftedRow values se' ee' j).length = values.length + se' + ee' :=
    fun j hj => length_shiftedRow values se' ee' j (hb j hj).1 (hb j hj).2
  -- the `end` clip, as a function on full rows
  have hend : ∀ j ∈ shifts,
      (if ee' > 0 then pySlice (shiftedRow values se' ee' j) none (some (-(ee' : ℤ)))
        else shiftedRow values se' ee' j) = (shiftedRow values se' ee' j).take (values.length + se') := by
    intro j hj
    split
    · rename_i hpos
      rw [pySlice_none_neg, if_neg (by omega), hlen j hj]
      congr 1; omega
    · rename_i hpos
      rw [take_of_length_le _ _ (by rw [hlen j hj]; omega)]
  unfold put2d
  simp only [hex, hfull, bind, Except.bind, pure, Except.pure]
  cases clip
  · -- none
    simp [clipRow]
  · -- start
    simp only [clipRow, pySlice_some_none, List.map_map]
    simp
  · -- end
    simp only [clipRow]
    by_cases hpos : ee' > 0
    · simp only [hpos, and_true, true_or, if_true, List.map_map]
      have : (Clip.end = Clip.start ∨ Clip.end = Clip.both) = False := by simp
      simp only [this, if_false]
      congr 1
      apply List.map_congr_left
      intro j hj
      have := hend j hj
      simp only [hpos, if_true] at this
      simpa using this
    · have : (Clip.end = Clip.start ∨ Clip.end = Clip.both) = False := by simp
      simp only [hpos, and_false, if_false, this]
      congr 1
      apply List.map_congr_left
      intro j hj
      have := hend j hj
      simp only [hpos, if_false] at this
      exact this
  · -- both
    simp only [clipRow]
    by_cases hpos : ee' > 0
    · simp only [hpos, and_true, or_true, if_true, List.map_map]
      congr 1
      apply List.map_congr_left
      intro j hj
      have := hend j hj
      simp only [hpos, if_true] at this
      simp only [Function.comp, pySlice_some_none, this]
    · simp only [hpos, and_false, if_false, or_true, if_true, List.map_map]
      congr 1
      apply List.map_congr_left
      intro j hj
      have := hend j hj
      simp only [hpos, if_false] at this
      simp only [Function.comp, pySlice_some_none]
      rw [← this]

/-- entries of a full row, for every index `k` (outside the row `getD` gives `0` as well) -/
theorem shiftedRow_getD (values : List ℚ) (se ee : ℕ) (j : ℤ) (h1 : -(se : ℤ) ≤ j) (k : ℕ) :
    (shiftedRow values se ee j).getD k 0 =
      if (se : ℤ) + j ≤ (k : ℤ) ∧ (k : ℤ) < (se : ℤ) + j + (values.length : ℤ)
      then values.getD (k - ((se : ℤ) + j).toNat) 0 else 0 := by
  obtain ⟨a, ha⟩ : ∃ a : ℕ, (a : ℤ) = (se : ℤ) + j := ⟨((se : ℤ) + j).toNat, by omega⟩
  have hat : ((se : ℤ) + j).toNat = a := by omega
  unfold shiftedRow
  rw [hat, ← ha]
  simp only [List.getD_eq_getElem?_getD, List.append_assoc]
  by_cases hk1 : k < a
  · rw [List.getElem?_append_left (by simpa using hk1)]
    have : ¬ ((a : ℤ) ≤ (k : ℤ) ∧ (k : ℤ) < (a : ℤ) + (values.length : ℤ)) := by omega
    simp [hk1]
  · rw [List.getElem?_append_right (by simpa using not_lt.mp hk1)]
    simp only [List.length_replicate]
    by_cases hk2 : k - a < values.length
    · rw [List.getElem?_append_left hk2]
      have : ((a : ℤ) ≤ (k : ℤ) ∧ (k : ℤ) < (a : ℤ) + (values.length : ℤ)) := by omega
      simp [this]
    · rw [List.getElem?_append_right (not_lt.mp hk2)]
      have : ¬ ((a : ℤ) ≤ (k : ℤ) ∧ (k : ℤ) < (a : ℤ) + (values.length : ℤ)) := by omega
      simp only [this, if_false]
      by_cases hk3 : k - a - values.length < ((ee : ℤ) - j).toNat
      · simp [hk3]
      · simp [hk3]

/-! ### `join_values_w_shifts` -/

theorem bcastAddRow_same (row b : List ℚ) (h : row.length = b.length) :
    bcastAddRow row b = .ok (List.zipWith (· + ·) row b) := by
  simp [bcastAddRow, h]

theorem join_nonneg (values : List ℚ) (shifts : List ℤ) (jt : JType) (hne : shifts ≠ [])
    (hnn : ∀ j ∈ shifts, 0 ≤ j) :
    ∃ mx : ℕ, maxInt? shifts = .ok (mx : ℤ) ∧ (mx : ℤ) ∈ shifts ∧ (∀ j ∈ shifts, j ≤ (mx : ℤ)) ∧
      joinValuesWShifts values shifts jt = .ok (shifts.map (fun j =>
        List.zipWith (· + ·)
          (match jt with
            | .add => shiftedRow values 0 mx j
            | .sub => (shiftedRow values 0 mx j).map (- ·))
          (values ++ List.replicate mx 0))) := by
  obtain ⟨M, hM, hM1, hM2⟩ := maxInt?_spec shifts hne
  have hM0 : 0 ≤ M := hnn M hM2
  obtain ⟨mx, rfl⟩ : ∃ mx : ℕ, M = (mx : ℤ) := ⟨M.toNat, by omega⟩
  obtain ⟨se, ee, hex, hb, hee, hse, hput⟩ := put2d_spec values shifts .none hne
  have hse0 : se = 0 := by
    rcases hse with h | h
    · exact h
    · have := hnn _ h; omega
  have hee0 : ee = mx := by
    have h1 := (hb _ hM2).2
    rcases hee with h | h
    · have := hM1 _ hM2; omega
    · have := hM1 _ h; omega
  subst hse0; subst hee0
  refine ⟨ee, hM, hM2, hM1, ?_⟩
  unfold joinValuesWShifts
  simp only [hM, hput, bind, Except.bind, clipRow]
  rw [if_neg (by omega)]
  simp only [Int.toNat_natCast]
  rw [List.mapM_map]
  apply mapM_ok
  intro j hj
  have hl := length_shiftedRow values 0 ee j (hb j hj).1 (hb j hj).2
  cases jt
  · simp only [Function.comp]
    exact bcastAddRow_same _ _ (by rw [hl]; simp)
  · simp only [Function.comp]
    exact bcastAddRow_same _ _ (by rw [List.length_map, hl]; simp)

theorem join_negative_raises (values : List ℚ) (shifts : List ℤ) (jt : JType)
    (hneg : ∃ j ∈ shifts, j < 0) (hlen : 2 ≤ values.length) :
    joinValuesWShifts values shifts jt = .error .ValueError := by
  have hne : shifts ≠ [] := by
    obtain ⟨j, hj, _⟩ := hneg
    intro h; rw [h] at hj; simp at hj
  obtain ⟨M, hM, hM1, hM2⟩ := maxInt?_spec shifts hne
  obtain ⟨se, ee, hex, hb, hee, hse, hput⟩ := put2d_spec values shifts .none hne
  unfold joinValuesWShifts
  simp only [hM, bind, Except.bind]
  by_cases hM0 : M < 0
  · rw [if_pos hM0]
  rw [if_neg hM0]
  simp only [hput, clipRow]
  obtain ⟨j0, hj0, hj0neg⟩ := hneg
  have hse1 : 1 ≤ se := by have := (hb j0 hj0).1; omega
  have hee' : (ee : ℤ) = M := by
    have h1 := (hb _ hM2).2
    rcases hee with h | h
    · omega
    · have := hM1 _ h; omega
  cases shifts with
  | nil => exact absurd rfl hne
  | cons j js =>
    rw [List.map_cons]
    apply mapM_head_error
    have hl := length_shiftedRow values se ee j (hb j (by simp)).1 (hb j (by simp)).2
    have hMt : M.toNat = ee := by omega
    cases jt <;>
    · simp only [bcastAddRow, List.length_map, hl, List.length_append, List.length_replicate, hMt]
      rw [if_neg (by omega), if_neg (by omega), if_neg (by omega)]

end EqsigVerif.Model.TimeShift
