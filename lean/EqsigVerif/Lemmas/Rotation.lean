import EqsigVerif.Model.Multiple
import EqsigVerif.Lemmas.Multiple
import Mathlib.Analysis.SpecialFunctions.Trigonometric.Basic
/-!
# Rotation of two components (C18.a, C18.b): real cosine/sine of an angle in degrees, the angle grid
-/
set_option linter.unusedSectionVars false
set_option linter.unusedVariables false
set_option linter.unusedSimpArgs false
namespace EqsigVerif.Model.Multiple
open EqsigVerif

/-- `np.cos(np.radians(θ))` as a real function -/
noncomputable def cosDeg (θ : ℝ) : ℝ := Real.cos (θ * Real.pi / 180)
/-- `np.sin(np.radians(θ))` as a real function -/
noncomputable def sinDeg (θ : ℝ) : ℝ := Real.sin (θ * Real.pi / 180)

/-- spec vocabulary of C18.a: the combination at `θ` degrees, `ns·cos θ° + we·sin θ°` (model function `combo`) -/
noncomputable def comboAt (θ : ℝ) (ns we : List ℝ) : List ℝ := combo (cosDeg θ) (sinDeg θ) ns we

theorem cosDeg_zero : cosDeg 0 = 1 := by simp [cosDeg]
theorem sinDeg_zero : sinDeg 0 = 0 := by simp [sinDeg]
theorem cosDeg_90 : cosDeg 90 = 0 := by
  unfold cosDeg
  rw [show (90 : ℝ) * Real.pi / 180 = Real.pi / 2 by ring]; exact Real.cos_pi_div_two
theorem sinDeg_90 : sinDeg 90 = 1 := by
  unfold sinDeg
  rw [show (90 : ℝ) * Real.pi / 180 = Real.pi / 2 by ring]; exact Real.sin_pi_div_two
theorem cosDeg_add_180 (θ : ℝ) : cosDeg (θ + 180) = -cosDeg θ := by
  unfold cosDeg
  rw [show (θ + 180) * Real.pi / 180 = θ * Real.pi / 180 + Real.pi by ring]; exact Real.cos_add_pi _
theorem sinDeg_add_180 (θ : ℝ) : sinDeg (θ + 180) = -sinDeg θ := by
  unfold sinDeg
  rw [show (θ + 180) * Real.pi / 180 = θ * Real.pi / 180 + Real.pi by ring]; exact Real.sin_add_pi _
theorem cosDeg_sub_360 (θ : ℝ) (k : ℤ) : cosDeg (θ - 360 * k) = cosDeg θ := by
  unfold cosDeg
  rw [show (θ - 360 * (k : ℝ)) * Real.pi / 180 = θ * Real.pi / 180 - k * (2 * Real.pi) by ring]
  exact Real.cos_sub_int_mul_two_pi _ k
theorem sinDeg_sub_360 (θ : ℝ) (k : ℤ) : sinDeg (θ - 360 * k) = sinDeg θ := by
  unfold sinDeg
  rw [show (θ - 360 * (k : ℝ)) * Real.pi / 180 = θ * Real.pi / 180 - k * (2 * Real.pi) by ring]
  exact Real.sin_sub_int_mul_two_pi _ k

theorem combo_getElem {α : Type} [Add α] [Mul α] (c s : α) (ns we : List α) (i : ℕ)
    (h1 : i < ns.length) (h2 : i < we.length) :
    (combo c s ns we)[i]'(by simp [combo]; omega) = ns[i] * c + we[i] * s := by
  simp [combo]

@[simp] theorem length_combo {α : Type} [Add α] [Mul α] (c s : α) (ns we : List α) :
    (combo c s ns we).length = min ns.length we.length := by simp [combo]

/-! ### the angle grid -/

@[simp] theorem length_linspace (a b : ℚ) (n : ℕ) : (linspace a b n).length = n := by
  unfold linspace
  split
  · simp_all
  · simp

theorem linspace_getElem (a b : ℚ) (n i : ℕ) (hn : 2 ≤ n) (hi : i < n) :
    (linspace a b n)[i]'(by simpa using hi) = a + (i : ℚ) * ((b - a) / ((n : ℚ) - 1)) := by
  unfold linspace
  have h1 : ¬ n = 1 := by omega
  simp only [h1, if_false, List.getElem_map, List.getElem_range]
  have hcast : (((n - 1 : ℕ) : ℤ) : ℚ) = (n : ℚ) - 1 := by
    have : 1 ≤ n := by omega
    push_cast [this]; ring
  rw [hcast]
  have hne : (n : ℚ) - 1 ≠ 0 := by
    have : (2 : ℚ) ≤ n := by exact_mod_cast hn
    linarith
  split
  · have : (i : ℚ) = (n : ℚ) - 1 := by
      have : i + 1 = n := by assumption
      rw [← this]; push_cast; ring
    rw [this]; field_simp; ring
  · simp

theorem npMod_spec (x m : ℚ) (hm : 0 < m) :
    0 ≤ npMod x m ∧ npMod x m < m ∧ npMod x m = x - m * ((⌊x / m⌋ : ℤ) : ℚ) := by
  have hfl : Rat.floor (x / m) = ⌊x / m⌋ := rfl
  unfold npMod
  rw [hfl]
  have h1 := Int.floor_le (x / m)
  have h2 := Int.lt_floor_add_one (x / m)
  rw [le_div_iff₀ hm] at h1
  rw [div_lt_iff₀ hm] at h2
  refine ⟨by linarith, by linarith, rfl⟩

end EqsigVerif.Model.Multiple
