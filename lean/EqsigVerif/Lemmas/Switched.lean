import EqsigVerif.Model.Switched
import EqsigVerif.Lemmas.Np
import Mathlib.Tactic.Linarith
import Mathlib.Tactic.Positivity
import Mathlib.Algebra.Order.Ring.Rat
import Mathlib.Data.Rat.Defs
import Mathlib.Tactic.Ring
import Mathlib.Data.List.Forall2
import Mathlib.Data.List.Chain

/-! # Lemmas for C12 (zero crossings, switched peaks) -/
namespace EqsigVerif.Model.Switched
open EqsigVerif

/-! ## `np.where` -/

theorem mem_whereIdxFrom {α : Type} (p : α → Bool) (i : Nat) (l : List α) (j : Nat) :
    j ∈ Np.whereIdxFrom p i l ↔ ∃ k x, l[k]? = some x ∧ j = i + k ∧ p x = true := by
  induction l generalizing i with
  | nil => simp [Np.whereIdxFrom]
  | cons y ys ih =>
    have key : (∃ k x, (y :: ys)[k]? = some x ∧ j = i + k ∧ p x = true) ↔
        ((j = i ∧ p y = true) ∨ ∃ k x, ys[k]? = some x ∧ j = i + 1 + k ∧ p x = true) := by
      constructor
      · rintro ⟨k, x, hk, rfl, hp⟩
        cases k with
        | zero => left; simp at hk; subst hk; exact ⟨rfl, hp⟩
        | succ k => right; exact ⟨k, x, by simpa using hk, by omega, hp⟩
      · rintro (⟨rfl, hp⟩ | ⟨k, x, hk, rfl, hp⟩)
        · exact ⟨0, y, by simp, rfl, hp⟩
        · exact ⟨k+1, x, by simpa using hk, by omega, hp⟩
    rw [key]
    simp only [Np.whereIdxFrom]
    split
    · rename_i hy
      simp only [List.mem_cons, ih, hy, and_true]
    · rename_i hy
      simp [ih, hy]

theorem whereIdxFrom_ge {α : Type} (p : α → Bool) (i : Nat) (l : List α) :
    ∀ j ∈ Np.whereIdxFrom p i l, i ≤ j := by
  intro j hj
  obtain ⟨k, x, _, rfl, _⟩ := (mem_whereIdxFrom p i l j).1 hj
  omega

theorem whereIdxFrom_pairwise {α : Type} (p : α → Bool) (i : Nat) (l : List α) :
    (Np.whereIdxFrom p i l).Pairwise (· < ·) := by
  induction l generalizing i with
  | nil => simp [Np.whereIdxFrom]
  | cons y ys ih =>
    simp only [Np.whereIdxFrom]
    split
    · refine List.pairwise_cons.2 ⟨?_, ih (i+1)⟩
      intro j hj
      have := whereIdxFrom_ge p (i+1) ys j hj
      omega
    · exact ih (i+1)


theorem getD_eq_getElem' {α : Type} (l : List α) (d : α) (k : Nat) (h : k < l.length) : l.getD k d = l[k] := by
  simp [List.getD, h]

theorem getElem?_eq_some_getD {α : Type} (l : List α) (k : Nat) (x d : α) :
    l[k]? = some x ↔ k < l.length ∧ l.getD k d = x := by
  constructor
  · intro h
    obtain ⟨hk, rfl⟩ := List.getElem?_eq_some_iff.1 h
    exact ⟨hk, by simp [List.getD, h]⟩
  · rintro ⟨hk, rfl⟩
    simp [List.getD, hk]

/-! ## stage 1: the zero set -/

theorem mem_zeroIdx (v : List ℚ) (j : Nat) : j ∈ zeroIdx v ↔ j < v.length ∧ v.getD j 0 = 0 := by
  unfold zeroIdx Np.whereIdx
  rw [mem_whereIdxFrom]
  constructor
  · rintro ⟨k, x, hk, rfl, hp⟩
    obtain ⟨h1, h2⟩ := (getElem?_eq_some_getD v k x 0).1 hk
    simp only [decide_eq_true_eq] at hp
    exact ⟨by omega, by simpa [hp] using h2⟩
  · rintro ⟨h1, h2⟩
    exact ⟨j, 0, (getElem?_eq_some_getD v j 0 0).2 ⟨h1, h2⟩, by omega, by simp⟩

theorem zeroIdx_pairwise (v : List ℚ) : (zeroIdx v).Pairwise (· < ·) := whereIdxFrom_pairwise _ _ _

/-! ## stage 2: adjacency pruning -/

/-- recursive form of `take(z, where(ediff1d(z, to_begin=10) > 1))` after the first element -/
def pruneFrom (prev : Int) : List Nat → List Nat
  | [] => []
  | x :: xs => if 1 < (x : Int) - prev then x :: pruneFrom x xs else pruneFrom x xs

theorem pruneAdj_aux (pre l : List Nat) (prev : Int) :
    (Np.whereIdxFrom (fun d => decide (1 < d)) pre.length (Np.diffFrom prev (l.map Int.ofNat))).map
      (fun k => (pre ++ l).getD k 0) = pruneFrom prev l := by
  induction l generalizing pre prev with
  | nil => simp [Np.diffFrom, Np.whereIdxFrom, pruneFrom]
  | cons x xs ih =>
    have h := ih (pre ++ [x]) (x : Int)
    simp only [List.length_append, List.length_singleton, List.append_assoc, List.singleton_append] at h
    simp only [List.map_cons, Np.diffFrom, Np.whereIdxFrom, pruneFrom, decide_eq_true_eq, Int.ofNat_eq_natCast] at h ⊢
    split
    · simp only [List.map_cons, h]
      congr 1
      simp [List.getD]
    · exact h

theorem pruneAdj_cons (a : Nat) (rest : List Nat) : pruneAdj (a :: rest) = a :: pruneFrom a rest := by
  have h := pruneAdj_aux [a] rest (a : Int)
  simp only [List.length_singleton, List.singleton_append] at h
  simp only [pruneAdj, Np.ediff1d, List.map_cons, Np.diff, Np.whereIdx, Np.whereIdxFrom, Int.ofNat_eq_natCast] at h ⊢
  simp only [show decide ((1:Int) < 10) = true by decide, if_true, List.map_cons, Nat.zero_add]
  rw [h]
  simp

theorem pruneFrom_sublist (prev : Int) (l : List Nat) : (pruneFrom prev l).Sublist l := by
  induction l generalizing prev with
  | nil => simp [pruneFrom]
  | cons x xs ih =>
    simp only [pruneFrom]
    split
    · exact (ih _).cons_cons _
    · exact (ih _).cons _

theorem mem_pruneFrom (prev : Nat) (l : List Nat) (h : (prev :: l).Pairwise (· < ·)) (x : Nat) :
    x ∈ pruneFrom prev l ↔ x ∈ l ∧ x - 1 ≠ prev ∧ x - 1 ∉ l := by
  induction l generalizing prev with
  | nil => simp [pruneFrom]
  | cons y ys ih =>
    have hp := List.pairwise_cons.1 h
    have hys := List.pairwise_cons.1 hp.2
    have hy : prev < y := hp.1 y (by simp)
    have ih' := ih y hp.2
    simp only [pruneFrom]
    by_cases hxy : x = y
    · subst hxy
      have hx1 : x ∉ ys := fun hm => by have := hys.1 x hm; omega
      have hx2 : x - 1 ∉ ys := fun hm => by have := hys.1 _ hm; omega
      have hx3 : x ∉ pruneFrom x ys := fun hm => hx1 ((pruneFrom_sublist _ _).subset hm)
      split
      · rename_i hc
        constructor
        · intro _
          refine ⟨List.mem_cons_self, by omega, ?_⟩
          simp only [List.mem_cons, not_or]
          exact ⟨by omega, hx2⟩
        · intro _; exact List.mem_cons_self
      · rename_i hc
        constructor
        · intro hm; exact absurd hm hx3
        · rintro ⟨_, h2, _⟩; omega
    · have : x ∈ pruneFrom y ys ↔ x ∈ y :: ys ∧ x - 1 ≠ prev ∧ x - 1 ∉ y :: ys := by
        rw [ih']
        simp only [List.mem_cons, hxy, false_or, not_or]
        constructor
        · rintro ⟨h1, h2, h3⟩
          have := hys.1 x h1
          exact ⟨h1, by omega, h2, h3⟩
        · rintro ⟨h1, _, h2, h3⟩
          exact ⟨h1, h2, h3⟩
      split
      · simp only [List.mem_cons, hxy, false_or] at this ⊢
        exact this
      · exact this


/-- stages 1–2 of `allZc`: the (possibly pruned) zero set -/
def zeroSel (v : List ℚ) (keepAdj : Bool) : List Nat :=
  if !keepAdj && decide (1 < (zeroIdx v).length) then pruneAdj (zeroIdx v) else zeroIdx v

theorem prune_sel_eq (z : List Nat) (keepAdj : Bool) :
    (if !keepAdj && decide (1 < z.length) then pruneAdj z else z) =
      if keepAdj then z else match z with | [] => [] | a :: rest => a :: pruneFrom a rest := by
  cases keepAdj with
  | true => simp
  | false =>
    cases z with
    | nil => simp
    | cons a rest =>
      cases rest with
      | nil => simp [pruneFrom]
      | cons b rest' => simp [pruneAdj_cons]

theorem prune_sel_sublist (z : List Nat) (keepAdj : Bool) :
    (if !keepAdj && decide (1 < z.length) then pruneAdj z else z).Sublist z := by
  rw [prune_sel_eq]
  cases keepAdj with
  | true => simp
  | false =>
    cases z with
    | nil => simp
    | cons a rest => exact (pruneFrom_sublist _ _).cons_cons _

theorem mem_prune_sel (z : List Nat) (hz : z.Pairwise (· < ·)) (keepAdj : Bool) (x : Nat) :
    x ∈ (if !keepAdj && decide (1 < z.length) then pruneAdj z else z) ↔
      x ∈ z ∧ (keepAdj = true ∨ x = 0 ∨ x - 1 ∉ z) := by
  rw [prune_sel_eq]
  cases keepAdj with
  | true => simp
  | false =>
    cases z with
    | nil => simp
    | cons a rest =>
      have hp := List.pairwise_cons.1 hz
      simp only [Bool.false_eq_true, if_false, false_or, List.mem_cons, mem_pruneFrom a rest hz x, not_or]
      constructor
      · rintro (rfl | ⟨h1, h2, h3⟩)
        · refine ⟨Or.inl rfl, ?_⟩
          by_cases hx : x = 0
          · exact Or.inl hx
          · refine Or.inr ⟨by omega, fun hm => ?_⟩
            have := hp.1 _ hm
            omega
        · have := hp.1 _ h1
          exact ⟨Or.inr h1, Or.inr ⟨h2, h3⟩⟩
      · rintro ⟨rfl | h1, h2⟩
        · exact Or.inl rfl
        · have := hp.1 _ h1
          rcases h2 with h2 | ⟨h2, h3⟩
          · omega
          · exact Or.inr ⟨h1, h2, h3⟩

theorem mem_zeroSel (v : List ℚ) (keepAdj : Bool) (x : Nat) :
    x ∈ zeroSel v keepAdj ↔
      x < v.length ∧ v.getD x 0 = 0 ∧ (keepAdj = true ∨ x = 0 ∨ v.getD (x - 1) 0 ≠ 0) := by
  unfold zeroSel
  rw [mem_prune_sel _ (zeroIdx_pairwise v), mem_zeroIdx, mem_zeroIdx]
  constructor
  · rintro ⟨⟨h1, h2⟩, h3⟩
    refine ⟨h1, h2, ?_⟩
    rcases h3 with h3 | h3 | h3
    · exact Or.inl h3
    · exact Or.inr (Or.inl h3)
    · by_cases hx : x = 0
      · exact Or.inr (Or.inl hx)
      · exact Or.inr (Or.inr fun h0 => h3 ⟨by omega, h0⟩)
  · rintro ⟨h1, h2, h3⟩
    refine ⟨⟨h1, h2⟩, ?_⟩
    rcases h3 with h3 | h3 | h3
    · exact Or.inl h3
    · exact Or.inr (Or.inl h3)
    · exact Or.inr (Or.inr fun h0 => h3 h0.2)

theorem zeroSel_pairwise (v : List ℚ) (keepAdj : Bool) : (zeroSel v keepAdj).Pairwise (· < ·) :=
  (zeroIdx_pairwise v).sublist (prune_sel_sublist _ _)

/-! ## stage 3: sign switches -/

theorem signSwitch_length (v : List ℚ) : (signSwitch v).length = v.length := by
  cases v with
  | nil => rfl
  | cons x xs => simp [signSwitch]

theorem signSwitch_getD (v : List ℚ) (i : Nat) (hi : i < v.length) :
    (signSwitch v).getD i 0 = if i = 0 then v.getD 0 0 else v.getD i 0 * v.getD (i - 1) 0 := by
  cases v with
  | nil => simp at hi
  | cons x xs =>
    cases i with
    | zero => simp [signSwitch]
    | succ k =>
      simp only [List.length_cons] at hi
      have hk : k < xs.length := by omega
      simp only [signSwitch, List.getD_cons_succ, Nat.add_one_ne_zero, if_false, Nat.add_sub_cancel]
      have h1 : k < (List.zipWith (fun x1 x2 => x1 * x2) xs (x :: xs)).length := by simp; omega
      rw [getD_eq_getElem' _ _ _ h1, List.getElem_zipWith, getD_eq_getElem' _ _ _ hk,
        getD_eq_getElem' _ _ _ (by simp; omega : k < (x :: xs).length)]

theorem mem_throughZeroIdx (v : List ℚ) (j : Nat) :
    j ∈ throughZeroIdx v ↔ j < v.length ∧
      ((j = 0 ∧ v.getD 0 0 < 0) ∨ (0 < j ∧ v.getD (j - 1) 0 * v.getD j 0 < 0)) := by
  unfold throughZeroIdx Np.whereIdx
  rw [mem_whereIdxFrom]
  constructor
  · rintro ⟨k, x, hk, rfl, hp⟩
    obtain ⟨h1, h2⟩ := (getElem?_eq_some_getD _ k x 0).1 hk
    rw [signSwitch_length] at h1
    rw [signSwitch_getD v k h1] at h2
    simp only [decide_eq_true_eq] at hp
    refine ⟨by omega, ?_⟩
    simp only [Nat.zero_add]
    by_cases hk0 : k = 0
    · subst hk0; left; simp only [if_true] at h2; exact ⟨rfl, h2 ▸ hp⟩
    · right; simp only [hk0, if_false] at h2
      exact ⟨by omega, by rw [mul_comm, h2]; exact hp⟩
  · rintro ⟨h1, h2⟩
    refine ⟨j, (signSwitch v).getD j 0, (getElem?_eq_some_getD _ j _ 0).2 ⟨by rw [signSwitch_length]; exact h1, rfl⟩,
      by omega, ?_⟩
    rw [signSwitch_getD v j h1]
    simp only [decide_eq_true_eq]
    rcases h2 with ⟨rfl, h⟩ | ⟨hj, h⟩
    · simpa using h
    · have : j ≠ 0 := by omega
      simp only [this, if_false]; rw [mul_comm]; exact h

theorem throughZeroIdx_pairwise (v : List ℚ) : (throughZeroIdx v).Pairwise (· < ·) :=
  whereIdxFrom_pairwise _ _ _

/-! ## stage 4: sort -/

theorem mem_insertAsc (a x : Nat) (l : List Nat) : x ∈ insertAsc a l ↔ x = a ∨ x ∈ l := by
  induction l with
  | nil => simp [insertAsc]
  | cons b bs ih =>
    simp only [insertAsc]
    split
    · simp
    · simp only [List.mem_cons, ih]; tauto

theorem insertAsc_pairwise (a : Nat) (l : List Nat) (hl : l.Pairwise (· < ·)) (ha : a ∉ l) :
    (insertAsc a l).Pairwise (· < ·) := by
  induction l with
  | nil => simp [insertAsc]
  | cons b bs ih =>
    have hp := List.pairwise_cons.1 hl
    simp only [List.mem_cons, not_or] at ha
    simp only [insertAsc]
    split
    · rename_i hab
      refine List.pairwise_cons.2 ⟨?_, hl⟩
      intro y hy
      simp only [List.mem_cons] at hy
      rcases hy with rfl | hy
      · omega
      · have := hp.1 y hy; omega
    · rename_i hab
      refine List.pairwise_cons.2 ⟨?_, ih hp.2 ha.2⟩
      intro y hy
      rcases (mem_insertAsc a y bs).1 hy with rfl | hy
      · omega
      · exact hp.1 y hy

theorem mem_sortAsc (l : List Nat) (x : Nat) : x ∈ sortAsc l ↔ x ∈ l := by
  induction l with
  | nil => simp [sortAsc]
  | cons a as ih =>
    have : sortAsc (a :: as) = insertAsc a (sortAsc as) := rfl
    rw [this, mem_insertAsc, ih]; simp

theorem sortAsc_pairwise (l : List Nat) (hl : l.Nodup) : (sortAsc l).Pairwise (· < ·) := by
  induction l with
  | nil => simp [sortAsc]
  | cons a as ih =>
    have : sortAsc (a :: as) = insertAsc a (sortAsc as) := rfl
    have hn := List.nodup_cons.1 hl
    rw [this]
    exact insertAsc_pairwise a _ (ih hn.2) (fun h => hn.1 ((mem_sortAsc as a).1 h))


/-! ## stage 5: fallback and head insertion -/

/-- `[0]` fallback and `np.insert(.., 0, 0)` -/
def headFix : List Nat → List Nat
  | [] => [0]
  | a :: rest => if a ≠ 0 then 0 :: a :: rest else a :: rest

theorem allZc_eq (v : List ℚ) (keepAdj : Bool) :
    allZc v keepAdj = headFix (sortAsc (zeroSel v keepAdj ++ throughZeroIdx v)) := rfl

theorem mem_headFix (s : List Nat) (x : Nat) : x ∈ headFix s ↔ x = 0 ∨ x ∈ s := by
  cases s with
  | nil => simp [headFix]
  | cons a rest =>
    simp only [headFix]
    split
    · simp
    · rename_i h
      have : a = 0 := by simpa using h
      subst this
      simp only [List.mem_cons]; tauto

theorem headFix_pairwise (s : List Nat) (hs : s.Pairwise (· < ·)) : (headFix s).Pairwise (· < ·) := by
  cases s with
  | nil => simp [headFix]
  | cons a rest =>
    simp only [headFix]
    split
    · rename_i h
      have hp := List.pairwise_cons.1 hs
      refine List.pairwise_cons.2 ⟨?_, hs⟩
      intro y hy
      simp only [List.mem_cons] at hy
      rcases hy with rfl | hy
      · omega
      · have := hp.1 y hy; omega
    · exact hs

theorem zsel_through_nodup (v : List ℚ) (keepAdj : Bool) :
    (zeroSel v keepAdj ++ throughZeroIdx v).Nodup := by
  refine List.nodup_append.2 ⟨(zeroSel_pairwise v keepAdj).imp (fun h => Nat.ne_of_lt h),
    (throughZeroIdx_pairwise v).imp (fun h => Nat.ne_of_lt h), ?_⟩
  intro a ha b hb hab
  subst hab
  obtain ⟨_, h0, _⟩ := (mem_zeroSel v keepAdj a).1 ha
  obtain ⟨_, h | h⟩ := (mem_throughZeroIdx v a).1 hb
  · obtain ⟨rfl, h⟩ := h
    rw [h0] at h; exact lt_irrefl _ h
  · rw [h0, mul_zero] at h; exact lt_irrefl _ h.2

theorem allZc_pairwise (v : List ℚ) (keepAdj : Bool) : (allZc v keepAdj).Pairwise (· < ·) := by
  rw [allZc_eq]
  exact headFix_pairwise _ (sortAsc_pairwise _ (zsel_through_nodup v keepAdj))

theorem mem_allZc (v : List ℚ) (keepAdj : Bool) (x : Nat) :
    x ∈ allZc v keepAdj ↔ x = 0 ∨ x ∈ zeroSel v keepAdj ∨ x ∈ throughZeroIdx v := by
  rw [allZc_eq, mem_headFix, mem_sortAsc, List.mem_append]

theorem allZc_lt_length (v : List ℚ) (hv : v ≠ []) (keepAdj : Bool) :
    ∀ x ∈ allZc v keepAdj, x < v.length := by
  intro x hx
  rcases (mem_allZc v keepAdj x).1 hx with rfl | h | h
  · exact List.length_pos_of_ne_nil hv
  · exact ((mem_zeroSel v keepAdj x).1 h).1
  · exact ((mem_throughZeroIdx v x).1 h).1

theorem zeroCrossings_zero (v : List ℚ) (keepAdj : Bool) : zeroCrossings v keepAdj 0 = allZc v keepAdj := by
  simp [zeroCrossings]


/-! ## switched peaks: the grouping loop -/

/-- the groups partition the input in order (any `tol`) -/
theorem groupsAux_flatten (tol last : ℚ) (cur rest : List (ℕ × ℚ)) :
    (groupsAux tol last cur rest).flatten = cur ++ rest := by
  induction rest generalizing last cur with
  | nil => simp [groupsAux]
  | cons e rest ih =>
    obtain ⟨i, pv⟩ := e
    simp only [groupsAux]
    split
    · simp [ih]
    · simp [ih]

/-- no group is empty (any `tol`) -/
theorem groupsAux_ne_nil (tol last : ℚ) (cur rest : List (ℕ × ℚ)) (hcur : cur ≠ []) :
    ∀ g ∈ groupsAux tol last cur rest, g ≠ [] := by
  induction rest generalizing last cur with
  | nil => intro g hg; simp [groupsAux] at hg; exact hg ▸ hcur
  | cons e rest ih =>
    obtain ⟨i, pv⟩ := e
    intro g hg
    simp only [groupsAux] at hg
    split at hg
    · simp only [List.mem_cons] at hg
      rcases hg with rfl | hg
      · exact hcur
      · exact ih pv [(i, pv)] (by simp) g hg
    · exact ih last (cur ++ [(i, pv)]) (by simp) g hg

/-- invariant of an open group for tol = 0: head carries the reference value, the others have its strict sign -/
def GroupOK (last : ℚ) (g : List (ℕ × ℚ)) : Prop :=
  ∃ h t, g = h :: t ∧ h.2 = last ∧ ∀ e ∈ t, 0 < e.2 * last

theorem GroupOK.snoc {last : ℚ} {cur : List (ℕ × ℚ)} (hcur : GroupOK last cur) (i : ℕ) (pv : ℚ)
    (hnot : ¬ pv * last ≤ 0) : GroupOK last (cur ++ [(i, pv)]) := by
  obtain ⟨h, t, rfl, hh, ht⟩ := hcur
  refine ⟨h, t ++ [(i, pv)], by simp, hh, ?_⟩
  intro e he
  simp only [List.mem_append, List.mem_singleton] at he
  rcases he with he | rfl
  · exact ht e he
  · exact not_le.mp hnot

theorem GroupOK.single (i : ℕ) (pv : ℚ) : GroupOK pv [(i, pv)] := ⟨(i, pv), [], rfl, rfl, by simp⟩

/-- every group produced (tol = 0, fixed seed) is headed by its reference and sign-homogeneous -/
theorem groupsAux_ok (last : ℚ) (cur rest : List (ℕ × ℚ)) (hcur : GroupOK last cur) :
    ∀ g ∈ groupsAux 0 last cur rest, ∃ l, GroupOK l g := by
  induction rest generalizing last cur with
  | nil => intro g hg; simp [groupsAux] at hg; exact ⟨last, hg ▸ hcur⟩
  | cons e rest ih =>
    obtain ⟨i, pv⟩ := e
    intro g hg
    simp only [groupsAux, zero_mul, add_zero] at hg
    split at hg
    · simp only [List.mem_cons] at hg
      rcases hg with rfl | hg
      · exact ⟨last, hcur⟩
      · exact ih pv [(i, pv)] (GroupOK.single i pv) g hg
    · rename_i hnot
      exact ih last (cur ++ [(i, pv)]) (hcur.snoc i pv hnot) g hg

/-- the first group produced extends the open group and keeps its reference -/
theorem groupsAux_head (last : ℚ) (cur rest : List (ℕ × ℚ)) (hcur : GroupOK last cur) :
    ∃ g gs, groupsAux 0 last cur rest = g :: gs ∧ GroupOK last g := by
  induction rest generalizing cur with
  | nil => exact ⟨cur, [], by simp [groupsAux], hcur⟩
  | cons e rest ih =>
    obtain ⟨i, pv⟩ := e
    simp only [groupsAux, zero_mul, add_zero]
    split
    · exact ⟨cur, _, rfl, hcur⟩
    · rename_i hnot
      exact ih _ (hcur.snoc i pv hnot)

/-- consecutive groups (tol = 0): references of neighbouring groups never share a strict sign -/
theorem groupsAux_chain (last : ℚ) (cur rest : List (ℕ × ℚ)) (hcur : GroupOK last cur) :
    List.IsChain (fun g g' => ∃ l l', GroupOK l g ∧ GroupOK l' g' ∧ l' * l ≤ 0) (groupsAux 0 last cur rest) := by
  induction rest generalizing last cur with
  | nil => simp [groupsAux]
  | cons e rest ih =>
    obtain ⟨i, pv⟩ := e
    simp only [groupsAux, zero_mul, add_zero]
    split
    · rename_i hclose
      have hnew : GroupOK pv [(i, pv)] := GroupOK.single i pv
      obtain ⟨g, gs, hg, hgok⟩ := groupsAux_head pv [(i, pv)] rest hnew
      have hch := ih pv [(i, pv)] hnew
      rw [hg] at hch ⊢
      exact List.IsChain.cons_cons ⟨last, pv, hcur, hgok, hclose⟩ hch
    · rename_i hnot
      exact ih _ _ (hcur.snoc i pv hnot)

/-- two values with the signs of two references whose product is ≤ 0 have product ≤ 0 -/
theorem sign_transfer (l l' e e' : ℚ) (hl : l' * l ≤ 0) (he : e = l ∨ 0 < e * l) (he' : e' = l' ∨ 0 < e' * l') :
    e * e' ≤ 0 := by
  rcases he with rfl | he <;> rcases he' with rfl | he'
  · linarith [mul_comm e e']
  · by_contra hcon
    have hcon := not_le.1 hcon
    have : 0 < (e * e') * (e' * l') := mul_pos hcon he'
    have h2 : (e * e') * (e' * l') = e' ^ 2 * (l' * e) := by ring
    rw [h2] at this
    have h3 : 0 ≤ e' ^ 2 := by positivity
    nlinarith
  · by_contra hcon
    have hcon := not_le.1 hcon
    have : 0 < (e * e') * (e * l) := mul_pos hcon he
    have h2 : (e * e') * (e * l) = e ^ 2 * (e' * l) := by ring
    rw [h2] at this
    have h3 : 0 ≤ e ^ 2 := by positivity
    nlinarith
  · by_contra hcon
    have hcon := not_le.1 hcon
    have h1 : 0 < (e * l) * (e' * l') := mul_pos he he'
    have h2 : (e * l) * (e' * l') = (e * e') * (l' * l) := by ring
    rw [h2] at h1
    nlinarith

theorem GroupOK.mem {l : ℚ} {g : List (ℕ × ℚ)} (h : GroupOK l g) : ∀ e ∈ g, e.2 = l ∨ 0 < e.2 * l := by
  obtain ⟨hd, t, rfl, hh, ht⟩ := h
  intro e he
  simp only [List.mem_cons] at he
  rcases he with rfl | he
  · exact Or.inl hh
  · exact Or.inr (ht e he)

/-- a group is a single zero-valued entry or a run of one strict sign -/
theorem GroupOK.classify {l : ℚ} {g : List (ℕ × ℚ)} (h : GroupOK l g) :
    (∃ p, g = [(p, 0)]) ∨ (∀ e ∈ g, 0 < e.2) ∨ (∀ e ∈ g, e.2 < 0) := by
  have hm := h.mem
  obtain ⟨hd, t, rfl, hh, ht⟩ := h
  rcases lt_trichotomy l 0 with hl | hl | hl
  · right; right
    intro e he
    rcases hm e he with h1 | h1
    · rw [h1]; exact hl
    · by_contra hc
      have hc := not_lt.1 hc
      nlinarith
  · left
    subst hl
    cases t with
    | nil => exact ⟨hd.1, by rw [← hh]⟩
    | cons e t => have := ht e (by simp); simp at this
  · right; left
    intro e he
    rcases hm e he with h1 | h1
    · rw [h1]; exact hl
    · by_contra hc
      have hc := not_lt.1 hc
      nlinarith


/-! ## `np.argmax` (first maximum) -/

theorem argmaxFrom_spec (bi : ℕ) (bv : ℚ) (i : ℕ) (l : List ℚ) :
    (Np.argmaxFrom bi bv i l = bi ∧ ∀ x ∈ l, x ≤ bv) ∨
    (∃ k, ∃ hk : k < l.length, Np.argmaxFrom bi bv i l = i + k ∧ bv < l[k] ∧
      (∀ j (hj : j < l.length), l[j] ≤ l[k]) ∧ ∀ j (hj : j < k), l[j] < l[k]) := by
  induction l generalizing bi bv i with
  | nil => left; simp [Np.argmaxFrom]
  | cons x xs ih =>
    simp only [Np.argmaxFrom]
    split
    · rename_i hlt
      right
      rcases ih i x (i+1) with ⟨h1, h2⟩ | ⟨k, hk, h1, h2, h3, h4⟩
      · refine ⟨0, by simp, by simpa using h1, by simpa using hlt, ?_, by simp⟩
        intro j hj
        cases j with
        | zero => simp
        | succ j => simpa using h2 _ (List.getElem_mem (by simpa using hj))
      · refine ⟨k+1, by simpa using hk, by rw [h1]; omega, by simpa using lt_trans hlt h2, ?_, ?_⟩
        · intro j hj
          cases j with
          | zero => simpa using le_of_lt h2
          | succ j => simpa using h3 j (by simpa using hj)
        · intro j hj
          cases j with
          | zero => simpa using h2
          | succ j => simpa using h4 j (by omega)
    · rename_i hnlt
      have hle : x ≤ bv := not_lt.1 hnlt
      rcases ih bi bv (i+1) with ⟨h1, h2⟩ | ⟨k, hk, h1, h2, h3, h4⟩
      · left
        refine ⟨h1, ?_⟩
        intro y hy
        simp only [List.mem_cons] at hy
        rcases hy with rfl | hy
        · exact hle
        · exact h2 y hy
      · right
        refine ⟨k+1, by simpa using hk, by rw [h1]; omega, by simpa using h2, ?_, ?_⟩
        · intro j hj
          cases j with
          | zero => simpa using le_of_lt (lt_of_le_of_lt hle h2)
          | succ j => simpa using h3 j (by simpa using hj)
        · intro j hj
          cases j with
          | zero => simpa using lt_of_le_of_lt hle h2
          | succ j => simpa using h4 j (by omega)

/-- `np.argmax` returns the first position of the maximum -/
theorem argmax_spec (l : List ℚ) (hl : l ≠ []) :
    ∃ k, ∃ hk : k < l.length, Np.argmax l = k ∧ (∀ j (hj : j < l.length), l[j] ≤ l[k]) ∧
      ∀ j (hj : j < k), l[j] < l[k] := by
  cases l with
  | nil => exact absurd rfl hl
  | cons x xs =>
    simp only [Np.argmax]
    rcases argmaxFrom_spec 0 x 1 xs with ⟨h1, h2⟩ | ⟨k, hk, h1, h2, h3, h4⟩
    · refine ⟨0, by simp, h1, ?_, by simp⟩
      intro j hj
      cases j with
      | zero => simp
      | succ j => simpa using h2 _ (List.getElem_mem (by simpa using hj))
    · refine ⟨k + 1, by simpa using hk, by omega, ?_, ?_⟩
      · intro j hj
        cases j with
        | zero => simpa using le_of_lt h2
        | succ j => simpa using h3 j (by simpa using hj)
      · intro j hj
        cases j with
        | zero => simpa using h2
        | succ j => simpa using h4 j (by omega)

/-! ## the reported member of a group -/

/-- `r` is the index carried by the first member of `g` with the largest `|value|` -/
def IsFirstArgmaxAbs (g : List (ℕ × ℚ)) (r : ℕ) : Prop :=
  ∃ k, ∃ hk : k < g.length, r = g[k].1 ∧ (∀ j (hj : j < g.length), |g[j].2| ≤ |g[k].2|) ∧
    ∀ j (hj : j < k), |g[j].2| < |g[k].2|

theorem report_spec (g : List (ℕ × ℚ)) (hg : g ≠ []) : IsFirstArgmaxAbs g (report g) := by
  have hne : Np.absL (g.map (·.2)) ≠ [] := by simpa [Np.absL] using hg
  obtain ⟨k, hk, hk0, h1, h2⟩ := argmax_spec _ hne
  have hlen : (Np.absL (g.map (·.2))).length = g.length := by simp [Np.absL]
  have hget : ∀ j (hj : j < g.length), (Np.absL (g.map (·.2)))[j]'(by rw [hlen]; exact hj) = |g[j].2| := by
    intro j hj; simp [Np.absL, Np.absv_eq_abs]
  have hkg : k < g.length := by rw [← hlen]; exact hk
  refine ⟨k, hkg, ?_, ?_, ?_⟩
  · unfold report
    rw [hk0, getD_eq_getElem' _ _ _ (by simpa using hkg)]
    simp
  · intro j hj
    rw [← hget j hj, ← hget k hkg]
    exact h1 j _
  · intro j hj
    rw [← hget j (by omega), ← hget k hkg]
    exact h2 j hj


/-! ## from positions in the peak arrays to peak indices -/

/-- relabel the index component of the members of a group -/
def relabel (f : ℕ → ℕ) (g : List (ℕ × ℚ)) : List (ℕ × ℚ) := g.map (fun e => (f e.1, e.2))

theorem groupsAux_relabel (f : ℕ → ℕ) (tol last : ℚ) (cur rest : List (ℕ × ℚ)) :
    groupsAux tol last (relabel f cur) (relabel f rest) = (groupsAux tol last cur rest).map (relabel f) := by
  induction rest generalizing last cur with
  | nil => simp [groupsAux, relabel]
  | cons e rest ih =>
    obtain ⟨i, pv⟩ := e
    have h1 : relabel f ((i, pv) :: rest) = (f i, pv) :: relabel f rest := rfl
    rw [h1]
    simp only [groupsAux]
    split
    · have := ih pv [(i, pv)]
      simp only [List.map_cons]
      rw [← this]; rfl
    · have := ih last (cur ++ [(i, pv)])
      rw [← this]
      simp [relabel]

theorem groups_relabel (f : ℕ → ℕ) (tol : ℚ) (l : List (ℕ × ℚ)) :
    groups tol id (relabel f l) = (groups tol id l).map (relabel f) := by
  cases l with
  | nil => rfl
  | cons e rest =>
    obtain ⟨i, pv⟩ := e
    exact groupsAux_relabel f tol pv [(i, pv)] rest

theorem groups_ne_nil (tol : ℚ) (l : List (ℕ × ℚ)) : ∀ g ∈ groups tol id l, g ≠ [] := by
  cases l with
  | nil => simp [groups]
  | cons e rest =>
    obtain ⟨i, pv⟩ := e
    exact groupsAux_ne_nil tol pv [(i, id pv)] rest (by simp)

theorem groups_flatten (tol : ℚ) (l : List (ℕ × ℚ)) : (groups tol id l).flatten = l := by
  cases l with
  | nil => simp [groups]
  | cons e rest =>
    obtain ⟨i, pv⟩ := e
    simp only [groups, groupsAux_flatten, id]
    rfl

theorem report_relabel (f : ℕ → ℕ) (g : List (ℕ × ℚ)) (hg : g ≠ []) : report (relabel f g) = f (report g) := by
  have hne : Np.absL (g.map (·.2)) ≠ [] := by simpa [Np.absL] using hg
  obtain ⟨k, hk, hk0, _, _⟩ := argmax_spec _ hne
  have hkg : k < g.length := by simpa [Np.absL] using hk
  have h2 : (relabel f g).map (·.2) = g.map (·.2) := by simp [relabel]
  have h1 : (relabel f g).map (·.1) = (g.map (·.1)).map f := by simp [relabel]
  unfold report
  rw [h2, h1, hk0, getD_eq_getElem' _ _ _ (by simpa using hkg), getD_eq_getElem' _ _ _ (by simpa using hkg)]
  simp

/-- the peaks as `(index, value)` -/
def peakItems (v : List ℚ) : List (ℕ × ℚ) := (Peaks.peaks v).map (fun p => (p, v.getD p 0))

theorem relabel_peakPosItems (v : List ℚ) (pk : List ℕ) :
    relabel (fun k => pk.getD k 0) (peakPosItems v pk) = pk.map (fun p => (p, v.getD p 0)) := by
  apply List.ext_getElem
  · simp [relabel, peakPosItems]
  · intro i h1 h2
    have hi : i < pk.length := by simpa using h2
    simp [relabel, peakPosItems, hi]

/-- the groups of the switched-peak loop, over `(peak index, peak value)` -/
def switchedGroups (v : List ℚ) (tol : ℚ) : List (List (ℕ × ℚ)) := groups tol id (peakItems v)

/-- the model's result is the list of reported members of `switchedGroups` -/
theorem switchedPeaks_eq (v : List ℚ) (tol : ℚ) :
    switchedPeaks v tol = (switchedGroups v tol).map report := by
  unfold switchedPeaks newPeakPositions switchedGroups peakItems
  rw [← relabel_peakPosItems v (Peaks.peaks v), groups_relabel, List.map_map, List.map_map]
  apply List.map_congr_left
  intro g hg
  simp only [Function.comp]
  rw [report_relabel _ g (groups_ne_nil _ _ g hg)]

theorem peaks_ne_nil (v : List ℚ) : Peaks.peaks v ≠ [] := by
  simp [Peaks.peaks, Peaks.peaksCleaned]


/-! ## shape of the switched-peak result -/

theorem map_pick_sublist {α β : Type} (gs : List (List α)) (f : α → β) (pick : List α → β)
    (h : ∀ g ∈ gs, pick g ∈ g.map f) : (gs.map pick).Sublist (gs.flatten.map f) := by
  induction gs with
  | nil => simp
  | cons g gs ih =>
    simp only [List.map_cons, List.flatten_cons, List.map_append]
    have h1 : [pick g].Sublist (g.map f) := List.singleton_sublist.2 (h g (by simp))
    exact h1.append (ih (fun g' hg' => h g' (by simp [hg'])))

theorem IsFirstArgmaxAbs.mem {g : List (ℕ × ℚ)} {r : ℕ} (h : IsFirstArgmaxAbs g r) :
    ∃ e ∈ g, e.1 = r ∧ ∀ e' ∈ g, |e'.2| ≤ |e.2| := by
  obtain ⟨k, hk, h1, h2, _⟩ := h
  refine ⟨g[k], List.getElem_mem hk, h1.symm, ?_⟩
  intro e' he'
  obtain ⟨j, hj, rfl⟩ := List.getElem_of_mem he'
  exact h2 j hj

theorem report_mem (g : List (ℕ × ℚ)) (hg : g ≠ []) : report g ∈ g.map (·.1) := by
  obtain ⟨e, he, h1, _⟩ := (report_spec g hg).mem
  exact List.mem_map.2 ⟨e, he, h1⟩

theorem peakItems_map_fst (v : List ℚ) : (peakItems v).map (·.1) = Peaks.peaks v := by
  unfold peakItems
  rw [List.map_map]
  exact List.map_id _

theorem switchedGroups_flatten (v : List ℚ) (tol : ℚ) : (switchedGroups v tol).flatten = peakItems v :=
  groups_flatten tol _

/-- for every `tol` the result is a sublist of the peaks -/
theorem switchedPeaks_sublist_peaks (v : List ℚ) (tol : ℚ) : (switchedPeaks v tol).Sublist (Peaks.peaks v) := by
  rw [switchedPeaks_eq, ← peakItems_map_fst, ← switchedGroups_flatten v tol]
  exact map_pick_sublist _ _ _ (fun g hg => report_mem g (groups_ne_nil _ _ g hg))

/-- members of the groups carry the value of the series at their index -/
theorem switchedGroups_value (v : List ℚ) (tol : ℚ) :
    ∀ g ∈ switchedGroups v tol, ∀ e ∈ g, e.2 = v.getD e.1 0 := by
  intro g hg e he
  have : e ∈ peakItems v := by
    rw [← switchedGroups_flatten v tol]; exact List.mem_flatten.2 ⟨g, hg, he⟩
  obtain ⟨p, _, rfl⟩ := List.mem_map.1 this
  rfl

theorem groups_ok (l : List (ℕ × ℚ)) : ∀ g ∈ groups 0 id l, ∃ r, GroupOK r g := by
  cases l with
  | nil => simp [groups]
  | cons e rest =>
    obtain ⟨i, pv⟩ := e
    exact groupsAux_ok pv [(i, pv)] rest (GroupOK.single i pv)

theorem groups_chain (l : List (ℕ × ℚ)) :
    List.IsChain (fun g g' => ∃ r r', GroupOK r g ∧ GroupOK r' g' ∧ r' * r ≤ 0) (groups 0 id l) := by
  cases l with
  | nil => simp [groups]
  | cons e rest =>
    obtain ⟨i, pv⟩ := e
    exact groupsAux_chain pv [(i, pv)] rest (GroupOK.single i pv)

/-- members of neighbouring groups never share a strict sign -/
theorem groups_chain_members (l : List (ℕ × ℚ)) :
    List.IsChain (fun g g' => ∀ e ∈ g, ∀ e' ∈ g', e.2 * e'.2 ≤ 0) (groups 0 id l) := by
  refine (groups_chain l).imp ?_
  rintro g g' ⟨r, r', hg, hg', hr⟩ e he e' he'
  exact sign_transfer r r' e.2 e'.2 hr (hg.mem e he) (hg'.mem e' he')

theorem isChain_map_of_mem {α β : Type} (R : α → α → Prop) (S : β → β → Prop) (f : α → β) (l : List α)
    (h : ∀ a ∈ l, ∀ b ∈ l, R a b → S (f a) (f b)) (hc : l.IsChain R) : (l.map f).IsChain S := by
  induction l with
  | nil => simp
  | cons a t ih =>
    cases t with
    | nil => simp
    | cons b t =>
      rw [List.isChain_cons_cons] at hc
      simp only [List.map_cons]
      rw [List.isChain_cons_cons]
      refine ⟨h a (by simp) b (by simp) hc.1, ?_⟩
      have := ih (fun x hx y hy => h x (by simp [hx]) y (by simp [hy])) hc.2
      simpa using this

/-- consecutive reported values never share a strict sign (`tol = 0`) -/
theorem switchedPeaks_chain (v : List ℚ) :
    (switchedPeaks v 0).IsChain (fun a b => v.getD a 0 * v.getD b 0 ≤ 0) := by
  rw [switchedPeaks_eq]
  refine isChain_map_of_mem _ _ report _ ?_ (groups_chain_members (peakItems v))
  intro g hg g' hg' hR
  obtain ⟨e, he, h1, _⟩ := (report_spec g (groups_ne_nil _ _ g hg)).mem
  obtain ⟨e', he', h1', _⟩ := (report_spec g' (groups_ne_nil _ _ g' hg')).mem
  have := hR e he e' he'
  rw [switchedGroups_value v 0 g hg e he, switchedGroups_value v 0 g' hg' e' he', h1, h1'] at this
  exact this


/-! ## global maximum -/

theorem exists_max_of_ne_nil {α : Type} (l : List α) (f : α → ℚ) (hl : l ≠ []) :
    ∃ a ∈ l, ∀ b ∈ l, f b ≤ f a := by
  induction l with
  | nil => exact absurd rfl hl
  | cons a t ih =>
    cases t with
    | nil => exact ⟨a, by simp, by simp⟩
    | cons b t =>
      obtain ⟨m, hm, hmax⟩ := ih (by simp)
      by_cases h : f m ≤ f a
      · refine ⟨a, by simp, ?_⟩
        intro c hc
        rcases List.mem_cons.1 hc with rfl | hc
        · exact le_refl _
        · exact le_trans (hmax c hc) h
      · refine ⟨m, List.mem_cons_of_mem _ hm, ?_⟩
        intro c hc
        rcases List.mem_cons.1 hc with rfl | hc
        · exact le_of_lt (not_le.1 h)
        · exact hmax c hc

/-- every peak is dominated in `|·|` by a reported index (any `tol`) -/
theorem peak_le_reported (v : List ℚ) (tol : ℚ) (p : ℕ) (hp : p ∈ Peaks.peaks v) :
    ∃ r ∈ switchedPeaks v tol, |v.getD p 0| ≤ |v.getD r 0| := by
  have hmem : (p, v.getD p 0) ∈ peakItems v := List.mem_map.2 ⟨p, hp, rfl⟩
  rw [← switchedGroups_flatten v tol] at hmem
  obtain ⟨g, hg, hpg⟩ := List.mem_flatten.1 hmem
  obtain ⟨e, he, h1, h2⟩ := (report_spec g (groups_ne_nil _ _ g hg)).mem
  refine ⟨report g, ?_, ?_⟩
  · rw [switchedPeaks_eq]; exact List.mem_map.2 ⟨g, hg, rfl⟩
  · have := h2 _ hpg
    rw [switchedGroups_value v tol g hg e he, h1] at this
    exact this

/-! ## `np.delete` and the `tol > 0` zero-crossing result -/

theorem npDeleteFrom_sublist (rem : List ℕ) (i : ℕ) (l : List ℕ) : (npDeleteFrom rem i l).Sublist l := by
  induction l generalizing i with
  | nil => simp [npDeleteFrom]
  | cons x xs ih =>
    simp only [npDeleteFrom]
    split
    · exact (ih _).cons _
    · exact (ih _).cons_cons _

theorem zeroCrossings_sublist (v : List ℚ) (keepAdj : Bool) (tol : ℚ) :
    (zeroCrossings v keepAdj tol).Sublist (zeroCrossings v keepAdj 0) := by
  rw [zeroCrossings_zero]
  unfold zeroCrossings
  simp only
  split
  · exact npDeleteFrom_sublist _ _ _
  · exact List.Sublist.refl _


/-! ## the `none` branch of `tolRemStep` (`max([])`, a `ValueError` in Python) is unreachable -/

theorem tolRemStep_slice_ne_nil (v : List ℚ) (hv : v ≠ []) (keepAdj : Bool) (k : ℕ)
    (hk : k < (allZc v keepAdj).length - 1) :
    Np.maxL? (Np.absL (Np.slice v ((allZc v keepAdj).getD k 0) ((allZc v keepAdj).getD (k+1) 0))) ≠ none := by
  have hk0 : k < (allZc v keepAdj).length := by omega
  have hk1 : k + 1 < (allZc v keepAdj).length := by omega
  have hlt : (allZc v keepAdj)[k] < (allZc v keepAdj)[k+1] :=
    (List.pairwise_iff_getElem.1 (allZc_pairwise v keepAdj)) k (k+1) hk0 hk1 (by omega)
  have hlen : (allZc v keepAdj)[k+1] < v.length := allZc_lt_length v hv keepAdj _ (List.getElem_mem hk1)
  rw [getD_eq_getElem' _ _ _ hk0, getD_eq_getElem' _ _ _ hk1]
  have : (Np.slice v (allZc v keepAdj)[k] (allZc v keepAdj)[k+1]).length ≠ 0 := by
    simp only [Np.slice, List.length_drop, List.length_take]; omega
  cases hs : Np.slice v (allZc v keepAdj)[k] (allZc v keepAdj)[k+1] with
  | nil => rw [hs] at this; simp at this
  | cons x xs => simp [Np.absL, Np.maxL?]

end EqsigVerif.Model.Switched
