import EqsigVerif.Model.Switched
import EqsigVerif.Lemmas.Np
import Mathlib.Tactic.Linarith
import Mathlib.Tactic.Positivity
import Mathlib.Algebra.Order.Ring.Rat
import Mathlib.Data.Rat.Defs
import Mathlib.Tactic.Ring

/-! # Lemmas for C12 (zero crossings, switched peaks) -/
namespace EqsigVerif.Model.Switched
open EqsigVerif

/-! ## `np.where` -/

theorem mem_whereIdxFrom {α : Type} (p : α → Bool) (i : Nat) (l : List α) (j : Nat) :
    j ∈ Np.whereIdxFrom p i l ↔ ∃ k x, l[k]? = some x ∧ j = i + k ∧ p x = true := by
  induction l generalizing i with
  | nil => simp [Np.whereIdxFrom]
  | cons y ys ih =>
    have key : (∃ k x, (y :: ys)[k]? = some x ∧ j = i + k ∧ p x = true) ↔
        ((j = i ∧ p y = true) ∨ ∃ k x, ys[k]? = some x ∧ j = i + 1 + k ∧ p x = true) := by
      constructor
      · rintro ⟨k, x, hk, rfl, hp⟩
        cases k with
        | zero => left; simp at hk; subst hk; exact ⟨rfl, hp⟩
        | succ k => right; exact ⟨k, x, by simpa using hk, by omega, hp⟩
      · rintro (⟨rfl, hp⟩ | ⟨k, x, hk, rfl, hp⟩)
        · exact ⟨0, y, by simp, rfl, hp⟩
        · exact ⟨k+1, x, by simpa using hk, by omega, hp⟩
    rw [key]
    simp only [Np.whereIdxFrom]
    split
    · rename_i hy
      simp only [List.mem_cons, ih, hy, and_true]
    · rename_i hy
      simp [ih, hy]

theorem whereIdxFrom_ge {α : Type} (p : α → Bool) (i : Nat) (l : List α) :
    ∀ j ∈ Np.whereIdxFrom p i l, i ≤ j := by
  intro j hj
  obtain ⟨k, x, _, rfl, _⟩ := (mem_whereIdxFrom p i l j).1 hj
  omega

theorem whereIdxFrom_pairwise {α : Type} (p : α → Bool) (i : Nat) (l : List α) :
    (Np.whereIdxFrom p i l).Pairwise (· < ·) := by
  induction l generalizing i with
  | nil => simp [Np.whereIdxFrom]
  | cons y ys ih =>
    simp only [Np.whereIdxFrom]
    split
    · refine List.pairwise_cons.2 ⟨?_, ih (i+1)⟩
      intro j hj
      have := whereIdxFrom_ge p (i+1) ys j hj
      omega
    · exact ih (i+1)


theorem getD_eq_getElem' {α : Type} (l : List α) (d : α) (k : Nat) (h : k < l.length) : l.getD k d = l[k] := by
  simp [List.getD, h]

theorem getElem?_eq_some_getD {α : Type} (l : List α) (k : Nat) (x d : α) :
    l[k]? = some x ↔ k < l.length ∧ l.getD k d = x := by
  constructor
  · intro h
    obtain ⟨hk, rfl⟩ := List.getElem?_eq_some_iff.1 h
    exact ⟨hk, by simp [List.getD, h]⟩
  · rintro ⟨hk, rfl⟩
    simp [List.getD, hk]

/-! ## stage 1: the zero set -/

theorem mem_zeroIdx (v : List ℚ) (j : Nat) : j ∈ zeroIdx v ↔ j < v.length ∧ v.getD j 0 = 0 := by
  unfold zeroIdx Np.whereIdx
  rw [mem_whereIdxFrom]
  constructor
  · rintro ⟨k, x, hk, rfl, hp⟩
    obtain ⟨h1, h2⟩ := (getElem?_eq_some_getD v k x 0).1 hk
    simp only [decide_eq_true_eq] at hp
    exact ⟨by omega, by simpa [hp] using h2⟩
  · rintro ⟨h1, h2⟩
    exact ⟨j, 0, (getElem?_eq_some_getD v j 0 0).2 ⟨h1, h2⟩, by omega, by simp⟩

theorem zeroIdx_pairwise (v : List ℚ) : (zeroIdx v).Pairwise (· < ·) := whereIdxFrom_pairwise _ _ _

/-! ## stage 2: adjacency pruning -/

/-- recursive form of `take(z, where(ediff1d(z, to_begin=10) > 1))` after the first element -/
def pruneFrom (prev : Int) : List Nat → List Nat
  | [] => []
  | x :: xs => if 1 < (x : Int) - prev then x :: pruneFrom x xs else pruneFrom x xs

theorem pruneAdj_aux (pre l : List Nat) (prev : Int) :
    (Np.whereIdxFrom (fun d => decide (1 < d)) pre.length (Np.diffFrom prev (l.map Int.ofNat))).map
      (fun k => (pre ++ l).getD k 0) = pruneFrom prev l := by
  induction l generalizing pre prev with
  | nil => simp [Np.diffFrom, Np.whereIdxFrom, pruneFrom]
  | cons x xs ih =>
    have h := ih (pre ++ [x]) (x : Int)
    simp only [List.length_append, List.length_singleton, List.append_assoc, List.singleton_append] at h
    simp only [List.map_cons, Np.diffFrom, Np.whereIdxFrom, pruneFrom, decide_eq_true_eq, Int.ofNat_eq_natCast] at h ⊢
    split
    · simp only [List.map_cons, h]
      congr 1
      simp [List.getD]
    · exact h

theorem pruneAdj_cons (a : Nat) (rest : List Nat) : pruneAdj (a :: rest) = a :: pruneFrom a rest := by
  have h := pruneAdj_aux [a] rest (a : Int)
  simp only [List.length_singleton, List.singleton_append] at h
  simp only [pruneAdj, Np.ediff1d, List.map_cons, Np.diff, Np.whereIdx, Np.whereIdxFrom, Int.ofNat_eq_natCast] at h ⊢
  simp only [show decide ((1:Int) < 10) = true by decide, if_true, List.map_cons, Nat.zero_add]
  rw [h]
  simp

theorem pruneFrom_sublist (prev : Int) (l : List Nat) : (pruneFrom prev l).Sublist l := by
  induction l generalizing prev with
  | nil => simp [pruneFrom]
  | cons x xs ih =>
    simp only [pruneFrom]
    split
    · exact (ih _).cons_cons _
    · exact (ih _).cons _

theorem mem_pruneFrom (prev : Nat) (l : List Nat) (h : (prev :: l).Pairwise (· < ·)) (x : Nat) :
    x ∈ pruneFrom prev l ↔ x ∈ l ∧ x - 1 ≠ prev ∧ x - 1 ∉ l := by
  induction l generalizing prev with
  | nil => simp [pruneFrom]
  | cons y ys ih =>
    have hp := List.pairwise_cons.1 h
    have hys := List.pairwise_cons.1 hp.2
    have hy : prev < y := hp.1 y (by simp)
    have ih' := ih y hp.2
    simp only [pruneFrom]
    by_cases hxy : x = y
    · subst hxy
      have hx1 : x ∉ ys := fun hm => by have := hys.1 x hm; omega
      have hx2 : x - 1 ∉ ys := fun hm => by have := hys.1 _ hm; omega
      have hx3 : x ∉ pruneFrom x ys := fun hm => hx1 ((pruneFrom_sublist _ _).subset hm)
      split
      · rename_i hc
        constructor
        · intro _
          refine ⟨List.mem_cons_self, by omega, ?_⟩
          simp only [List.mem_cons, not_or]
          exact ⟨by omega, hx2⟩
        · intro _; exact List.mem_cons_self
      · rename_i hc
        constructor
        · intro hm; exact absurd hm hx3
        · rintro ⟨_, h2, _⟩; omega
    · have : x ∈ pruneFrom y ys ↔ x ∈ y :: ys ∧ x - 1 ≠ prev ∧ x - 1 ∉ y :: ys := by
        rw [ih']
        simp only [List.mem_cons, hxy, false_or, not_or]
        constructor
        · rintro ⟨h1, h2, h3⟩
          have := hys.1 x h1
          exact ⟨h1, by omega, h2, h3⟩
        · rintro ⟨h1, _, h2, h3⟩
          exact ⟨h1, h2, h3⟩
      split
      · simp only [List.mem_cons, hxy, false_or] at this ⊢
        exact this
      · exact this


/-- stages 1–2 of `allZc`: the (possibly pruned) zero set -/
def zeroSel (v : List ℚ) (keepAdj : Bool) : List Nat :=
  if !keepAdj && decide (1 < (zeroIdx v).length) then pruneAdj (zeroIdx v) else zeroIdx v

theorem prune_sel_eq (z : List Nat) (keepAdj : Bool) :
    (if !keepAdj && decide (1 < z.length) then pruneAdj z else z) =
      if keepAdj then z else match z with | [] => [] | a :: rest => a :: pruneFrom a rest := by
  cases keepAdj with
  | true => simp
  | false =>
    cases z with
    | nil => simp
    | cons a rest =>
      cases rest with
      | nil => simp [pruneFrom]
      | cons b rest' => simp [pruneAdj_cons]

theorem prune_sel_sublist (z : List Nat) (keepAdj : Bool) :
    (if !keepAdj && decide (1 < z.length) then pruneAdj z else z).Sublist z := by
  rw [prune_sel_eq]
  cases keepAdj with
  | true => simp
  | false =>
    cases z with
    | nil => simp
    | cons a rest => exact (pruneFrom_sublist _ _).cons_cons _

theorem mem_prune_sel (z : List Nat) (hz : z.Pairwise (· < ·)) (keepAdj : Bool) (x : Nat) :
    x ∈ (if !keepAdj && decide (1 < z.length) then pruneAdj z else z) ↔
      x ∈ z ∧ (keepAdj = true ∨ x = 0 ∨ x - 1 ∉ z) := by
  rw [prune_sel_eq]
  cases keepAdj with
  | true => simp
  | false =>
    cases z with
    | nil => simp
    | cons a rest =>
      have hp := List.pairwise_cons.1 hz
      simp only [Bool.false_eq_true, if_false, false_or, List.mem_cons, mem_pruneFrom a rest hz x, not_or]
      constructor
      · rintro (rfl | ⟨h1, h2, h3⟩)
        · refine ⟨Or.inl rfl, ?_⟩
          by_cases hx : x = 0
          · exact Or.inl hx
          · refine Or.inr ⟨by omega, fun hm => ?_⟩
            have := hp.1 _ hm
            omega
        · have := hp.1 _ h1
          exact ⟨Or.inr h1, Or.inr ⟨h2, h3⟩⟩
      · rintro ⟨rfl | h1, h2⟩
        · exact Or.inl rfl
        · have := hp.1 _ h1
          rcases h2 with h2 | ⟨h2, h3⟩
          · omega
          · exact Or.inr ⟨h1, h2, h3⟩

theorem mem_zeroSel (v : List ℚ) (keepAdj : Bool) (x : Nat) :
    x ∈ zeroSel v keepAdj ↔
      x < v.length ∧ v.getD x 0 = 0 ∧ (keepAdj = true ∨ x = 0 ∨ v.getD (x - 1) 0 ≠ 0) := by
  unfold zeroSel
  rw [mem_prune_sel _ (zeroIdx_pairwise v), mem_zeroIdx, mem_zeroIdx]
  constructor
  · rintro ⟨⟨h1, h2⟩, h3⟩
    refine ⟨h1, h2, ?_⟩
    rcases h3 with h3 | h3 | h3
    · exact Or.inl h3
    · exact Or.inr (Or.inl h3)
    · by_cases hx : x = 0
      · exact Or.inr (Or.inl hx)
      · exact Or.inr (Or.inr fun h0 => h3 ⟨by omega, h0⟩)
  · rintro ⟨h1, h2, h3⟩
    refine ⟨⟨h1, h2⟩, ?_⟩
    rcases h3 with h3 | h3 | h3
    · exact Or.inl h3
    · exact Or.inr (Or.inl h3)
    · exact Or.inr (Or.inr fun h0 => h3 h0.2)

theorem zeroSel_pairwise (v : List ℚ) (keepAdj : Bool) : (zeroSel v keepAdj).Pairwise (· < ·) :=
  (zeroIdx_pairwise v).sublist (prune_sel_sublist _ _)

/-! ## stage 3: sign switches -/

theorem signSwitch_length (v : List ℚ) : (signSwitch v).length = v.length := by
  cases v with
  | nil => rfl
  | cons x xs => simp [signSwitch]

theorem signSwitch_getD (v : List ℚ) (i : Nat) (hi : i < v.length) :
    (signSwitch v).getD i 0 = if i = 0 then v.getD 0 0 else v.getD i 0 * v.getD (i - 1) 0 := by
  cases v with
  | nil => simp at hi
  | cons x xs =>
    cases i with
    | zero => simp [signSwitch]
    | succ k =>
      simp only [List.length_cons] at hi
      have hk : k < xs.length := by omega
      simp only [signSwitch, List.getD_cons_succ, Nat.add_one_ne_zero, if_false, Nat.add_sub_cancel]
      have h1 : k < (List.zipWith (fun x1 x2 => x1 * x2) xs (x :: xs)).length := by simp; omega
      rw [getD_eq_getElem' _ _ _ h1, List.getElem_zipWith, getD_eq_getElem' _ _ _ hk,
        getD_eq_getElem' _ _ _ (by simp; omega : k < (x :: xs).length)]

theorem mem_throughZeroIdx (v : List ℚ) (j : Nat) :
    j ∈ throughZeroIdx v ↔ j < v.length ∧
      ((j = 0 ∧ v.getD 0 0 < 0) ∨ (0 < j ∧ v.getD (j - 1) 0 * v.getD j 0 < 0)) := by
  unfold throughZeroIdx Np.whereIdx
  rw [mem_whereIdxFrom]
  constructor
  · rintro ⟨k, x, hk, rfl, hp⟩
    obtain ⟨h1, h2⟩ := (getElem?_eq_some_getD _ k x 0).1 hk
    rw [signSwitch_length] at h1
    rw [signSwitch_getD v k h1] at h2
    simp only [decide_eq_true_eq] at hp
    refine ⟨by omega, ?_⟩
    simp only [Nat.zero_add]
    by_cases hk0 : k = 0
    · subst hk0; left; simp only [if_true] at h2; exact ⟨rfl, h2 ▸ hp⟩
    · right; simp only [hk0, if_false] at h2
      exact ⟨by omega, by rw [mul_comm, h2]; exact hp⟩
  · rintro ⟨h1, h2⟩
    refine ⟨j, (signSwitch v).getD j 0, (getElem?_eq_some_getD _ j _ 0).2 ⟨by rw [signSwitch_length]; exact h1, rfl⟩,
      by omega, ?_⟩
    rw [signSwitch_getD v j h1]
    simp only [decide_eq_true_eq]
    rcases h2 with ⟨rfl, h⟩ | ⟨hj, h⟩
    · simpa using h
    · have : j ≠ 0 := by omega
      simp only [this, if_false]; rw [mul_comm]; exact h

theorem throughZeroIdx_pairwise (v : List ℚ) : (throughZeroIdx v).Pairwise (· < ·) :=
  whereIdxFrom_pairwise _ _ _

/-! ## stage 4: sort -/

theorem mem_insertAsc (a x : Nat) (l : List Nat) : x ∈ insertAsc a l ↔ x = a ∨ x ∈ l := by
  induction l with
  | nil => simp [insertAsc]
  | cons b bs ih =>
    simp only [insertAsc]
    split
    · simp
    · simp only [List.mem_cons, ih]; tauto

theorem insertAsc_pairwise (a : Nat) (l : List Nat) (hl : l.Pairwise (· < ·)) (ha : a ∉ l) :
    (insertAsc a l).Pairwise (· < ·) := by
  induction l with
  | nil => simp [insertAsc]
  | cons b bs ih =>
    have hp := List.pairwise_cons.1 hl
    simp only [List.mem_cons, not_or] at ha
    simp only [insertAsc]
    split
    · rename_i hab
      refine List.pairwise_cons.2 ⟨?_, hl⟩
      intro y hy
      simp only [List.mem_cons] at hy
      rcases hy with rfl | hy
      · omega
      · have := hp.1 y hy; omega
    · rename_i hab
      refine List.pairwise_cons.2 ⟨?_, ih hp.2 ha.2⟩
      intro y hy
      rcases (mem_insertAsc a y bs).1 hy with rfl | hy
      · omega
      · exact hp.1 y hy

theorem mem_sortAsc (l : List Nat) (x : Nat) : x ∈ sortAsc l ↔ x ∈ l := by
  induction l with
  | nil => simp [sortAsc]
  | cons a as ih =>
    have : sortAsc (a :: as) = insertAsc a (sortAsc as) := rfl
    rw [this, mem_insertAsc, ih]; simp

theorem sortAsc_pairwise (l : List Nat) (hl : l.Nodup) : (sortAsc l).Pairwise (· < ·) := by
  induction l with
  | nil => simp [sortAsc]
  | cons a as ih =>
    have : sortAsc (a :: as) = insertAsc a (sortAsc as) := rfl
    have hn := List.nodup_cons.1 hl
    rw [this]
    exact insertAsc_pairwise a _ (ih hn.2) (fun h => hn.1 ((mem_sortAsc as a).1 h))


/-! ## stage 5: fallback and head insertion -/

/-- `[0]` fallback and `np.insert(.., 0, 0)` -/
def headFix : List Nat → List Nat
  | [] => [0]
  | a :: rest => if a ≠ 0 then 0 :: a :: rest else a :: rest

theorem allZc_eq (v : List ℚ) (keepAdj : Bool) :
    allZc v keepAdj = headFix (sortAsc (zeroSel v keepAdj ++ throughZeroIdx v)) := rfl

theorem mem_headFix (s : List Nat) (x : Nat) : x ∈ headFix s ↔ x = 0 ∨ x ∈ s := by
  cases s with
  | nil => simp [headFix]
  | cons a rest =>
    simp only [headFix]
    split
    · simp
    · rename_i h
      have : a = 0 := by simpa using h
      subst this
      simp only [List.mem_cons]; tauto

theorem headFix_pairwise (s : List Nat) (hs : s.Pairwise (· < ·)) : (headFix s).Pairwise (· < ·) := by
  cases s with
  | nil => simp [headFix]
  | cons a rest =>
    simp only [headFix]
    split
    · rename_i h
      have hp := List.pairwise_cons.1 hs
      refine List.pairwise_cons.2 ⟨?_, hs⟩
      intro y hy
      simp only [List.mem_cons] at hy
      rcases hy with rfl | hy
      · omega
      · have := hp.1 y hy; omega
    · exact hs

theorem zsel_through_nodup (v : List ℚ) (keepAdj : Bool) :
    (zeroSel v keepAdj ++ throughZeroIdx v).Nodup := by
  refine List.nodup_append.2 ⟨(zeroSel_pairwise v keepAdj).imp (fun h => Nat.ne_of_lt h),
    (throughZeroIdx_pairwise v).imp (fun h => Nat.ne_of_lt h), ?_⟩
  intro a ha b hb hab
  subst hab
  obtain ⟨_, h0, _⟩ := (mem_zeroSel v keepAdj a).1 ha
  obtain ⟨_, h | h⟩ := (mem_throughZeroIdx v a).1 hb
  · obtain ⟨rfl, h⟩ := h
    rw [h0] at h; exact lt_irrefl _ h
  · rw [h0, mul_zero] at h; exact lt_irrefl _ h.2

theorem allZc_pairwise (v : List ℚ) (keepAdj : Bool) : (allZc v keepAdj).Pairwise (· < ·) := by
  rw [allZc_eq]
  exact headFix_pairwise _ (sortAsc_pairwise _ (zsel_through_nodup v keepAdj))

theorem mem_allZc (v : List ℚ) (keepAdj : Bool) (x : Nat) :
    x ∈ allZc v keepAdj ↔ x = 0 ∨ x ∈ zeroSel v keepAdj ∨ x ∈ throughZeroIdx v := by
  rw [allZc_eq, mem_headFix, mem_sortAsc, List.mem_append]

theorem allZc_lt_length (v : List ℚ) (hv : v ≠ []) (keepAdj : Bool) :
    ∀ x ∈ allZc v keepAdj, x < v.length := by
  intro x hx
  rcases (mem_allZc v keepAdj x).1 hx with rfl | h | h
  · exact List.length_pos_of_ne_nil hv
  · exact ((mem_zeroSel v keepAdj x).1 h).1
  · exact ((mem_throughZeroIdx v x).1 h).1

theorem zeroCrossings_zero (v : List ℚ) (keepAdj : Bool) : zeroCrossings v keepAdj 0 = allZc v keepAdj := by
  simp [zeroCrossings]

end EqsigVerif.Model.Switched
