import EqsigVerif.Model.SpectraFns2
import EqsigVerif.Lemmas.SpectraFns
import Mathlib.Algebra.Order.Field.Basic
import Mathlib.Tactic.Ring
import Mathlib.Tactic.Linarith
/-!
# Lemmas for `Model/SpectraFns2.lean` and the bridges of `Props/C03GenSpec2b.lean`
-/
set_option linter.unusedSectionVars false
set_option linter.unusedVariables false
namespace EqsigVerif.Lemmas.SpectraFns2
open EqsigVerif
open EqsigVerif.Wire (ErrKind)

/-- inversion of a successful `mapM` in `Except` -/
theorem mapM_ok_inv {β γ : Type} (f : β → Except ErrKind γ) (l : List β) (out : List γ)
    (h : l.mapM f = .ok out) : List.Forall₂ (fun a b => f a = .ok b) l out := by
  induction l generalizing out with
  | nil =>
    have h' : (Except.ok [] : Except ErrKind (List γ)) = .ok out := h
    injection h' with h''
    subst h''
    exact List.Forall₂.nil
  | cons a as ih =>
    rw [List.mapM_cons] at h
    cases hfa : f a with
    | error e => rw [hfa] at h; cases h
    | ok b =>
      rw [hfa] at h
      cases hr : as.mapM f with
      | error e => rw [hr] at h; cases h
      | ok bs =>
        rw [hr] at h
        have h' : (Except.ok (b :: bs) : Except ErrKind (List γ)) = .ok out := h
        injection h' with h''
        subst h''
        exact List.Forall₂.cons hfa (ih bs hr)

section Len
variable {α : Type}

theorem length_cummaxFrom [LT α] [DecidableLT α] (m : α) (l : List α) : (NpT.cummaxFrom m l).length = l.length := by
  induction l generalizing m with
  | nil => rfl
  | cons x xs ih => simp [NpT.cummaxFrom, ih]

/-- `np.maximum.accumulate` keeps the length -/
theorem length_cummax [LT α] [DecidableLT α] (l : List α) : (NpT.cummax l).length = l.length := by
  cases l with
  | nil => rfl
  | cons x xs => simp [NpT.cummax, length_cummaxFrom]

theorem length_addFrom [Add α] (i : Nat) (base v : List α) (h : v.length = base.length - i) (hi : i ≤ base.length) :
    (NpT.addFrom i base v).length = base.length := by
  simp only [NpT.addFrom, List.length_append, List.length_take, List.length_zipWith, List.length_drop]
  omega

end Len

end EqsigVerif.Lemmas.SpectraFns2
