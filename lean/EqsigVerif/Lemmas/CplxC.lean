import EqsigVerif.Lemmas.Cplx
import Mathlib.RingTheory.RootsOfUnity.Complex
import Mathlib.Algebra.Field.GeomSum
import Mathlib.Tactic.Ring
import Mathlib.Tactic.FieldSimp
import Mathlib.Tactic.Linarith
/-!
# The DFT over Mathlib's `ℂ`: twiddles `e^{-2πi m/N}`, roots of unity, orthogonality, Parseval, inversion

`CxLike ℝ ℂ` makes every model of `Model/Frequency.lean` / `Model/Stockwell.lean` (written once over an
arbitrary `β`) a function on Mathlib's complex numbers; `twC N m = e^{-2πi m/N}` is the twiddle table
the `Float` table `twFloat` approximates.
-/
set_option linter.unusedSectionVars false
set_option linter.unusedVariables false
noncomputable section
namespace EqsigVerif.Cplx
open Complex Finset

/-- Mathlib's `ℂ` as complex numbers over `ℝ` -/
instance instCxLikeComplex : CxLike ℝ ℂ where
  ofReal := Complex.ofReal
  conj := starRingEnd ℂ
  re := Complex.re
  im := Complex.im
  normSq := Complex.normSq

@[simp] theorem cxlike_ofReal (a : ℝ) : (CxLike.ofReal a : ℂ) = (a : ℂ) := rfl
@[simp] theorem cxlike_conj (z : ℂ) : (CxLike.conj z : ℂ) = starRingEnd ℂ z := rfl
@[simp] theorem cxlike_re (z : ℂ) : (CxLike.re z : ℝ) = z.re := rfl
@[simp] theorem cxlike_im (z : ℂ) : (CxLike.im z : ℝ) = z.im := rfl
@[simp] theorem cxlike_normSq (z : ℂ) : (CxLike.normSq z : ℝ) = Complex.normSq z := rfl

/-- the twiddle table over `ℂ`: `twC N m = e^{-2πi m/N}` -/
def twC (N m : ℕ) : ℂ := cexp (-(2 * Real.pi * I * m / N))

/-- `ω_N = e^{-2πi/N}` -/
def omega (N : ℕ) : ℂ := (cexp (2 * Real.pi * I / N))⁻¹

theorem omega_prim (N : ℕ) (hN : N ≠ 0) : IsPrimitiveRoot (omega N) N :=
  (Complex.isPrimitiveRoot_exp N hN).inv

theorem twC_eq_pow (N m : ℕ) : twC N m = omega N ^ m := by
  unfold twC omega
  rw [← Complex.exp_neg, ← Complex.exp_nat_mul]
  congr 1
  ring

theorem omega_pow_self (N : ℕ) (hN : N ≠ 0) : omega N ^ N = 1 := (omega_prim N hN).pow_eq_one

theorem omega_ne_zero (N : ℕ) : omega N ≠ 0 := by
  unfold omega
  exact inv_ne_zero (Complex.exp_ne_zero _)

theorem conj_omega (N : ℕ) : starRingEnd ℂ (omega N) = (omega N)⁻¹ := by
  unfold omega
  rw [map_inv₀, ← Complex.exp_conj, inv_inv, ← Complex.exp_neg]
  congr 1
  simp only [map_div₀, map_mul, Complex.conj_I, Complex.conj_ofReal, map_ofNat, map_natCast]
  ring

theorem pow_mod_of_pow_eq_one {z : ℂ} {N : ℕ} (h : z ^ N = 1) (m : ℕ) : z ^ (m % N) = z ^ m := by
  conv_rhs => rw [← Nat.div_add_mod m N, pow_add, pow_mul, h, one_pow, one_mul]

/-- periodicity of the twiddles: the model indexes the table with `j·k mod N` -/
theorem twC_mod (N m : ℕ) (hN : N ≠ 0) : twC N (m % N) = twC N m := by
  rw [twC_eq_pow, twC_eq_pow, pow_mod_of_pow_eq_one (omega_pow_self N hN)]

theorem twC_zero (N : ℕ) : twC N 0 = 1 := by simp [twC]

/-- `Σ_{j<N} ζ^{mj} = N·[N ∣ m]` for a primitive `N`-th root of unity -/
theorem sum_pow_primitive {ζ : ℂ} {N : ℕ} (hζ : IsPrimitiveRoot ζ N) (hN : N ≠ 0) (m : ℕ) :
    ∑ j ∈ range N, (ζ ^ m) ^ j = if N ∣ m then (N : ℂ) else 0 := by
  by_cases hm : N ∣ m
  · have h1 : ζ ^ m = 1 := (hζ.pow_eq_one_iff_dvd m).mpr hm
    simp [hm, h1]
  · have h1 : ζ ^ m ≠ 1 := fun h => hm ((hζ.pow_eq_one_iff_dvd m).mp h)
    have hN' : (ζ ^ m) ^ N = 1 := by
      rw [← pow_mul, mul_comm, pow_mul, hζ.pow_eq_one, one_pow]
    rw [if_neg hm, geom_sum_eq h1 N, hN', sub_self, zero_div]

/-- orthogonality of the characters: `Σ_{k<N} ω^{jk}·conj(ω^{lk}) = N·[j = l]` for `j, l < N` -/
theorem sum_omega_orth (N j l : ℕ) (hN : N ≠ 0) (hj : j < N) (hl : l < N) :
    ∑ k ∈ range N, omega N ^ (j * k) * starRingEnd ℂ (omega N ^ (l * k))
      = if j = l then (N : ℂ) else 0 := by
  have hω := omega_prim N hN
  have h0 := omega_ne_zero N
  rcases Nat.lt_trichotomy j l with h | h | h
  · -- j < l : terms are (ω⁻¹)^{(l-j)k}
    have hterm : ∀ k ∈ range N, omega N ^ (j * k) * starRingEnd ℂ (omega N ^ (l * k))
        = ((omega N)⁻¹ ^ (l - j)) ^ k := by
      intro k _
      rw [map_pow, conj_omega, ← pow_mul]
      have : l * k = (l - j) * k + j * k := by rw [← Nat.add_mul]; congr 1; omega
      rw [this, pow_add, inv_pow (omega N) (j * k)]
      field_simp
    rw [Finset.sum_congr rfl hterm, sum_pow_primitive hω.inv hN]
    have : ¬ N ∣ (l - j) := fun hd => by
      have := Nat.le_of_dvd (by omega) hd; omega
    simp [this, Nat.ne_of_lt h]
  · subst h
    have hterm : ∀ k ∈ range N, omega N ^ (j * k) * starRingEnd ℂ (omega N ^ (j * k)) = 1 := by
      intro k _
      rw [map_pow, conj_omega, inv_pow]
      field_simp
    rw [Finset.sum_congr rfl hterm]; simp
  · have hterm : ∀ k ∈ range N, omega N ^ (j * k) * starRingEnd ℂ (omega N ^ (l * k))
        = ((omega N) ^ (j - l)) ^ k := by
      intro k _
      rw [map_pow, conj_omega, ← pow_mul]
      have : j * k = (j - l) * k + l * k := by rw [← Nat.add_mul]; congr 1; omega
      rw [this, pow_add, inv_pow (omega N) (l * k)]
      field_simp
    rw [Finset.sum_congr rfl hterm, sum_pow_primitive hω hN]
    have : ¬ N ∣ (j - l) := fun hd => by
      have := Nat.le_of_dvd (by omega) hd; omega
    simp [this, Nat.ne_of_gt h]

/-- `Σ_{j<N} e^{+2πi mj/N} = N·[N ∣ m]` in the model's indexing (`conj (tw N (j·m mod N))`) -/
theorem sum_conj_twC (N m : ℕ) (hN : N ≠ 0) :
    ∑ j ∈ range N, starRingEnd ℂ (twC N (j * m % N)) = if N ∣ m then (N : ℂ) else 0 := by
  have hterm : ∀ j ∈ range N, starRingEnd ℂ (twC N (j * m % N)) = ((omega N)⁻¹ ^ m) ^ j := by
    intro j _
    rw [twC_mod N _ hN, twC_eq_pow, map_pow, conj_omega, ← pow_mul, Nat.mul_comm]
  rw [Finset.sum_congr rfl hterm, sum_pow_primitive (omega_prim N hN).inv hN]

/-- the model's twiddle `tw N (j·k mod N)` is `e^{-2πi jk/N}` -/
theorem twC_mul_mod (N j k : ℕ) (hN : N ≠ 0) :
    twC N (j * k % N) = cexp (-(2 * Real.pi * I * j * k / N)) := by
  rw [twC_mod N _ hN, twC]
  congr 1
  push_cast
  ring

/-! ### the DFT over `ℂ` -/

/-- the `k`-th bin of the model's DFT over `ℂ` in textbook form -/
theorem dftC_getD (x : List ℂ) (N k : ℕ) (hk : k < N) :
    (dft twC x N).getD k 0 = ∑ j ∈ range N, x.getD j 0 * omega N ^ (j * k) := by
  have hN : N ≠ 0 := by omega
  rw [dft_getD, if_pos hk]
  apply Finset.sum_congr rfl
  intro j _
  rw [twC_mod N _ hN, twC_eq_pow]

theorem dftC_getD_exp (x : List ℂ) (N k : ℕ) (hk : k < N) :
    (dft twC x N).getD k 0 = ∑ j ∈ range N, x.getD j 0 * cexp (-(2 * Real.pi * I * j * k / N)) := by
  have hN : N ≠ 0 := by omega
  rw [dft_getD, if_pos hk]
  apply Finset.sum_congr rfl
  intro j _
  rw [twC_mul_mod N j k hN]

/-- the double sum behind Parseval and inversion:
`Σ_k (Σ_j a_j ω^{jk})·conj(Σ_l b_l ω^{lk}) = N·Σ_j a_j·conj(b_j)` -/
theorem sum_dft_mul_conj (a b : ℕ → ℂ) (N : ℕ) (hN : N ≠ 0) :
    ∑ k ∈ range N, (∑ j ∈ range N, a j * omega N ^ (j * k)) *
        starRingEnd ℂ (∑ l ∈ range N, b l * omega N ^ (l * k))
      = N * ∑ j ∈ range N, a j * starRingEnd ℂ (b j) := by
  calc ∑ k ∈ range N, (∑ j ∈ range N, a j * omega N ^ (j * k)) *
        starRingEnd ℂ (∑ l ∈ range N, b l * omega N ^ (l * k))
      = ∑ k ∈ range N, ∑ j ∈ range N, ∑ l ∈ range N,
          a j * starRingEnd ℂ (b l) * (omega N ^ (j * k) * starRingEnd ℂ (omega N ^ (l * k))) := by
        apply Finset.sum_congr rfl
        intro k _
        rw [map_sum, Finset.sum_mul_sum]
        apply Finset.sum_congr rfl
        intro j _
        apply Finset.sum_congr rfl
        intro l _
        rw [map_mul]; ring
    _ = ∑ j ∈ range N, ∑ l ∈ range N, a j * starRingEnd ℂ (b l) *
          ∑ k ∈ range N, omega N ^ (j * k) * starRingEnd ℂ (omega N ^ (l * k)) := by
        rw [Finset.sum_comm]
        apply Finset.sum_congr rfl
        intro j _
        rw [Finset.sum_comm]
        apply Finset.sum_congr rfl
        intro l _
        rw [Finset.mul_sum]
    _ = ∑ j ∈ range N, ∑ l ∈ range N, a j * starRingEnd ℂ (b l) * (if j = l then (N : ℂ) else 0) := by
        apply Finset.sum_congr rfl
        intro j hj
        apply Finset.sum_congr rfl
        intro l hl
        rw [sum_omega_orth N j l hN (Finset.mem_range.mp hj) (Finset.mem_range.mp hl)]
    _ = ∑ j ∈ range N, a j * starRingEnd ℂ (b j) * N := by
        apply Finset.sum_congr rfl
        intro j hj
        simp only [mul_ite, mul_zero]
        rw [Finset.sum_ite_eq (range N) j]
        simp [hj]
    _ = N * ∑ j ∈ range N, a j * starRingEnd ℂ (b j) := by
        rw [Finset.mul_sum]
        apply Finset.sum_congr rfl
        intro j _; ring

/-- **Parseval** `Σ_{k<N} |X_k|² = N·Σ_{j<N} |x_j|²` (record zero-extended/truncated to `N`) -/
theorem parseval (x : List ℂ) (N : ℕ) :
    ∑ k ∈ range N, Complex.normSq ((dft twC x N).getD k 0)
      = N * ∑ j ∈ range N, Complex.normSq (x.getD j 0) := by
  by_cases hN : N = 0
  · subst hN; simp
  apply Complex.ofReal_injective
  push_cast
  have h1 : ∀ k ∈ range N, ((Complex.normSq ((dft twC x N).getD k 0) : ℝ) : ℂ)
      = (∑ j ∈ range N, x.getD j 0 * omega N ^ (j * k)) *
        starRingEnd ℂ (∑ l ∈ range N, x.getD l 0 * omega N ^ (l * k)) := by
    intro k hk
    rw [← Complex.mul_conj, dftC_getD x N k (Finset.mem_range.mp hk)]
  rw [Finset.sum_congr rfl h1, sum_dft_mul_conj _ _ N hN]
  congr 1
  apply Finset.sum_congr rfl
  intro j _
  rw [Complex.mul_conj]

/-- the `j`-th entry of the model's inverse DFT over `ℂ` -/
theorem idftC_getD (X : List ℂ) (N j : ℕ) (hj : j < N) :
    (idft twC X N).getD j 0
      = (∑ k ∈ range N, X.getD k 0 * starRingEnd ℂ (omega N ^ (j * k))) / N := by
  have hN : N ≠ 0 := by omega
  rw [idft_eq_map, List.getD_eq_getElem?_getD, List.getElem?_map,
    List.getElem?_eq_getElem (by simpa using hj)]
  simp only [Option.map_some, Option.getD_some, cxlike_ofReal, Complex.ofReal_natCast]
  rw [dft_getElem _ _ _ _ hj]
  congr 1
  apply Finset.sum_congr rfl
  intro k _
  rw [cxlike_conj, twC_mod N _ hN, twC_eq_pow, Nat.mul_comm]

/-- **DFT inversion** `ifft(fft(x, N)) = x` zero-padded/truncated to `N` -/
theorem idft_dft (x : List ℂ) (N : ℕ) : idft twC (dft twC x N) N = padTo N x := by
  apply List.ext_getElem (by simp)
  intro j h1 h2
  have hj : j < N := by simpa using h1
  have hN : N ≠ 0 := by omega
  rw [getElem_eq_getD _ _ h1, getElem_eq_getD _ _ h2, idftC_getD _ _ _ hj, padTo_getD, if_pos hj]
  -- Σ_k X_k conj(ω^{jk}) = Σ_k (Σ_l x_l ω^{lk}) conj(Σ_l δ_{jl} ω^{lk})
  have h3 : ∀ k ∈ range N, (dft twC x N).getD k 0 * starRingEnd ℂ (omega N ^ (j * k))
      = (∑ l ∈ range N, x.getD l 0 * omega N ^ (l * k)) *
        starRingEnd ℂ (∑ l ∈ range N, (if l = j then (1 : ℂ) else 0) * omega N ^ (l * k)) := by
    intro k hk
    rw [dftC_getD x N k (Finset.mem_range.mp hk)]
    congr 2
    simp only [ite_mul, one_mul, zero_mul]
    rw [Finset.sum_ite_eq' (range N) j]
    simp [hj]
  rw [Finset.sum_congr rfl h3, sum_dft_mul_conj _ _ N hN]
  have h4 : ∑ l ∈ range N, x.getD l 0 * starRingEnd ℂ (if l = j then (1 : ℂ) else 0) = x.getD j 0 := by
    have : ∀ l ∈ range N, x.getD l 0 * starRingEnd ℂ (if l = j then (1 : ℂ) else 0)
        = if l = j then x.getD l 0 else 0 := by
      intro l _
      split <;> simp
    rw [Finset.sum_congr rfl this, Finset.sum_ite_eq' (range N) j]
    simp [hj]
  rw [h4]
  have : (N : ℂ) ≠ 0 := by exact_mod_cast hN
  field_simp

/-- Hermitian symmetry of the spectrum of a real record: `conj X_k = X_{N-k}` (`0 < k < N`) -/
theorem dftC_conj_of_real (x : List ℂ) (N k : ℕ) (hk0 : 0 < k) (hk : k < N)
    (hx : ∀ j, starRingEnd ℂ (x.getD j 0) = x.getD j 0) :
    starRingEnd ℂ ((dft twC x N).getD k 0) = (dft twC x N).getD (N - k) 0 := by
  have hN : N ≠ 0 := by omega
  rw [dftC_getD x N k hk, dftC_getD x N (N - k) (by omega), map_sum]
  apply Finset.sum_congr rfl
  intro j _
  rw [map_mul, hx j, map_pow, conj_omega]
  congr 1
  have h1 : omega N ^ (j * (N - k)) * omega N ^ (j * k) = 1 := by
    rw [← pow_add, ← Nat.mul_add, Nat.sub_add_cancel (le_of_lt hk), Nat.mul_comm, pow_mul,
      omega_pow_self N hN, one_pow]
  rw [inv_pow]
  exact (eq_inv_of_mul_eq_one_left h1).symm

/-- the zero-frequency bin of a real record is real -/
theorem dftC_zero_real (x : List ℂ) (N : ℕ) (hN : 0 < N)
    (hx : ∀ j, starRingEnd ℂ (x.getD j 0) = x.getD j 0) :
    starRingEnd ℂ ((dft twC x N).getD 0 0) = (dft twC x N).getD 0 0 := by
  rw [dftC_getD x N 0 hN, map_sum]
  apply Finset.sum_congr rfl
  intro j _
  rw [map_mul, hx j, Nat.mul_zero, pow_zero, map_one]

/-! ### inversion with the mean and Nyquist bins zeroed (`fas2values`, `itransform`) -/

theorem omega_pow_half (P : ℕ) (hP : 1 ≤ P) : omega (2 * P) ^ P = -1 := by
  rw [← twC_eq_pow, twC]
  have hPc : (P : ℂ) ≠ 0 := by exact_mod_cast (by omega : P ≠ 0)
  have : -(2 * (Real.pi : ℂ) * I * (P : ℂ) / ((2 * P : ℕ) : ℂ)) = -(Real.pi * I) := by
    push_cast; field_simp
  rw [this, Complex.exp_neg, Complex.exp_pi_mul_I]
  norm_num

/-- the inverse DFT of a spectrum entry by entry -/
theorem idftC_dft_getD (x : List ℂ) (N j : ℕ) (hj : j < N) :
    (∑ k ∈ range N, (dft twC x N).getD k 0 * starRingEnd ℂ (omega N ^ (j * k))) / N = x.getD j 0 := by
  have h := idft_dft x N
  have h1 : (idft twC (dft twC x N) N).getD j 0 = (padTo N x).getD j 0 := by rw [h]
  rw [idftC_getD _ _ _ hj, padTo_getD, if_pos hj] at h1
  exact h1

/-- if `a` is the spectrum `X = fft(x, 2P)` with bins `0` and `P` zeroed, then
`ifft(a)[j] = x_j − X_0/N − (−1)^j·X_P/N` (record minus its mean and Nyquist components) -/
theorem idft_zeroed (x a : List ℂ) (P : ℕ) (hP : 1 ≤ P)
    (ha : ∀ k, k < 2 * P → a.getD k 0 = if k = 0 ∨ k = P then 0 else (dft twC x (2 * P)).getD k 0)
    (j : ℕ) (hj : j < 2 * P) :
    (idft twC a (2 * P)).getD j 0 =
      x.getD j 0 - (∑ l ∈ range (2 * P), x.getD l 0) / (2 * P : ℕ)
        - (-1) ^ j * (∑ l ∈ range (2 * P), (-1) ^ l * x.getD l 0) / (2 * P : ℕ) := by
  have hN : 2 * P ≠ 0 := by omega
  have hNc : ((2 * P : ℕ) : ℂ) ≠ 0 := by exact_mod_cast hN
  set X := dft twC x (2 * P) with hX
  rw [idftC_getD _ _ _ hj]
  have hsplit : ∀ k ∈ range (2 * P), a.getD k 0 * starRingEnd ℂ (omega (2 * P) ^ (j * k))
      = X.getD k 0 * starRingEnd ℂ (omega (2 * P) ^ (j * k))
        - (if k = 0 then X.getD 0 0 * starRingEnd ℂ (omega (2 * P) ^ (j * 0)) else 0)
        - (if k = P then X.getD P 0 * starRingEnd ℂ (omega (2 * P) ^ (j * P)) else 0) := by
    intro k hk
    rw [ha k (Finset.mem_range.mp hk)]
    by_cases h0 : k = 0
    · subst h0
      have : (0 : ℕ) ≠ P := by omega
      simp [this]
    · by_cases hp : k = P
      · subst hp; simp [h0]
      · simp [h0, hp]
  rw [Finset.sum_congr rfl hsplit, Finset.sum_sub_distrib, Finset.sum_sub_distrib,
    Finset.sum_ite_eq' (range (2 * P)) 0, Finset.sum_ite_eq' (range (2 * P)) P]
  simp only [Finset.mem_range, Nat.pos_of_ne_zero hN, show P < 2 * P by omega, if_true,
    Nat.mul_zero, pow_zero, map_one, mul_one]
  rw [sub_div, sub_div, idftC_dft_getD x (2 * P) j hj]
  have hX0 : X.getD 0 0 = ∑ l ∈ range (2 * P), x.getD l 0 := by
    rw [hX, dftC_getD x (2 * P) 0 (by omega)]
    apply Finset.sum_congr rfl
    intro l _; simp
  have hXP : X.getD P 0 = ∑ l ∈ range (2 * P), (-1) ^ l * x.getD l 0 := by
    rw [hX, dftC_getD x (2 * P) P (by omega)]
    apply Finset.sum_congr rfl
    intro l _
    rw [Nat.mul_comm l P, pow_mul, omega_pow_half P hP, mul_comm]
  have hc : starRingEnd ℂ (omega (2 * P) ^ (j * P)) = (-1) ^ j := by
    rw [Nat.mul_comm j P, pow_mul, omega_pow_half P hP, map_pow, map_neg, map_one]
  rw [hX0, hXP, hc]
  ring

/-! ### the Hermitian re-assembly as entries -/

theorem assemble_getD (A B : List ℂ) (P k : ℕ) (hP : 1 ≤ P) (hA : A.length = P - 1) :
    ([0] ++ A ++ [0] ++ B).getD k 0 =
      if k = 0 then 0 else if k < P then A.getD (k - 1) 0 else if k = P then 0
      else B.getD (k - P - 1) 0 := by
  simp only [List.getD_eq_getElem?_getD]
  by_cases h0 : k = 0
  · subst h0; simp
  · by_cases h1 : k < P
    · rw [if_neg h0, if_pos h1, List.append_assoc, List.append_assoc,
        List.getElem?_append_right (by simp; omega),
        List.getElem?_append_left (by simp; omega)]
      simp
    · by_cases h2 : k = P
      · subst h2
        rw [if_neg h0, if_neg h1, if_pos rfl, List.getElem?_append_left (by simp; omega),
          List.getElem?_append_right (by simp; omega)]
        simp only [List.length_append, List.length_cons, List.length_nil, hA]
        rw [show k - (0 + 1 + (k - 1)) = 0 by omega]
        simp
      · rw [if_neg h0, if_neg h1, if_neg h2, List.getElem?_append_right (by simp; omega)]
        congr 2
        simp [hA]; omega

theorem tail_getD (u : List ℂ) (i : ℕ) : u.tail.getD i 0 = u.getD (i + 1) 0 := by
  cases u <;> simp

theorem reverse_conj_tail_getD (u : List ℂ) (P i : ℕ) (hu : u.length = P) (hi : i + 1 < P) :
    ((u.tail.map (CxLike.conj : ℂ → ℂ)).reverse).getD i 0 = starRingEnd ℂ (u.getD (P - 1 - i) 0) := by
  have hl : ((u.tail.map (CxLike.conj : ℂ → ℂ)).reverse).length = P - 1 := by simp [hu]
  rw [← getElem_eq_getD _ _ (by rw [hl]; omega), List.getElem_reverse, List.getElem_map]
  simp only [cxlike_conj, List.length_map, List.length_tail, hu]
  congr 1
  rw [getElem_eq_getD, tail_getD]
  congr 1; omega

theorem getD_map_div (l : List ℂ) (c : ℂ) (k : ℕ) : (l.map (fun z => z / c)).getD k 0 = l.getD k 0 / c := by
  simp only [List.getD_eq_getElem?_getD, List.getElem?_map]
  cases l[k]? <;> simp

end EqsigVerif.Cplx
