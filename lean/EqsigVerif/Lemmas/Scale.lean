import EqsigVerif.Lemmas.Switched
import Mathlib.Data.List.Sort
import Mathlib.Data.List.GetD
import Mathlib.Algebra.Order.Ring.Abs
/-!
# Scale invariance of the index detection (`peaks`, `switchedPeaks`, `zeroCrossings`) — helper lemmas

`v ↦ α • v` with `α ≠ 0` changes none of the comparisons the index functions perform:
* `runs` compares neighbouring values for equality (`α x = α y ↔ x = y`);
* `turnIdx` tests `(b-a)(c-b) < 0`, which is multiplied by `α² > 0`;
* `groupsAux` tests `(pv + tol·sgn last)·last ≤ 0`, which is multiplied by `α²` when `tol` is scaled by `|α|`
  (`|α|·sgn(α x) = α·sgn x`);
* `report` takes the first arg-max of `|·|`, and `|α x| = |α||x|` with `|α| > 0`;
* `zeroIdx` tests `x = 0`; `throughZeroIdx` tests `x·y < 0` (multiplied by `α²`) — except at position 0 where the
  sign of `values[0]` itself is tested: a negative `α` may move index 0 between the "through zero" list and the
  head insertion, but the final list always contains 0, so it is unchanged;
* the `tol` loop tests `max|values[a:b]| < tol`, both sides scaled by `|α|`.
-/
set_option linter.unusedSectionVars false
set_option linter.unusedVariables false
namespace EqsigVerif.Lemmas.Scale
open EqsigVerif EqsigVerif.Model.Peaks EqsigVerif.Model.Switched

/-! ## peaks -/

theorem runsAux_scale (α : ℚ) (hα : α ≠ 0) (prev : ℚ) (i : ℕ) (l : List ℚ) :
    runsAux (α * prev) i (l.map (α * ·)) = (runsAux prev i l).map (fun p => (p.1, α * p.2)) := by
  induction l generalizing prev i with
  | nil => rfl
  | cons x xs ih =>
    simp only [List.map_cons, runsAux]
    by_cases h : x = prev
    · subst h; simp [ih]
    · have h' : α * x ≠ α * prev := fun h' => h (mul_left_cancel₀ hα h')
      simp [h, h', ih]

theorem runs_scale (α : ℚ) (hα : α ≠ 0) (v : List ℚ) :
    runs (v.map (α * ·)) = (runs v).map (fun p => (p.1, α * p.2)) := by
  cases v with
  | nil => rfl
  | cons x xs => simp [runs, runsAux_scale α hα]

theorem turn_test_scale (α : ℚ) (hα : α ≠ 0) (a b c : ℚ) :
    (α * b - α * a) * (α * c - α * b) < 0 ↔ (b - a) * (c - b) < 0 := by
  have h2 : (α * b - α * a) * (α * c - α * b) = α ^ 2 * ((b - a) * (c - b)) := by ring
  have h3 : 0 < α ^ 2 := by positivity
  rw [h2]
  constructor
  · intro h
    by_contra hc
    have hc := not_lt.1 hc
    have := mul_nonneg h3.le hc
    linarith
  · intro h; exact mul_neg_of_pos_of_neg h3 h

theorem turnIdx_scale (α : ℚ) (hα : α ≠ 0) (k : ℕ) (c : List ℚ) :
    turnIdx k (c.map (α * ·)) = turnIdx k c := by
  induction c generalizing k with
  | nil => rfl
  | cons a t ih =>
    match t, ih with
    | [], _ => rfl
    | [b], _ => rfl
    | b :: c :: rest, ih =>
      have ih' := ih (k + 1)
      simp only [List.map_cons] at ih' ⊢
      simp only [turnIdx, ih', turn_test_scale α hα]

theorem peaksCleaned_scale (α : ℚ) (hα : α ≠ 0) (c : List ℚ) :
    peaksCleaned (c.map (α * ·)) = peaksCleaned c := by
  simp [peaksCleaned, turnIdx_scale α hα]

/-- the peak indices are invariant under `v ↦ α • v`, `α ≠ 0` -/
theorem peaks_scale (α : ℚ) (hα : α ≠ 0) (v : List ℚ) : peaks (v.map (α * ·)) = peaks v := by
  unfold peaks
  simp only [runs_scale α hα, List.map_map]
  have h1 : ((fun p : ℕ × ℚ => p.2) ∘ fun p : ℕ × ℚ => (p.1, α * p.2)) = (fun x => α * x) ∘ (fun p : ℕ × ℚ => p.2) := rfl
  have h2 : ((fun p : ℕ × ℚ => p.1) ∘ fun p : ℕ × ℚ => (p.1, α * p.2)) = (fun p : ℕ × ℚ => p.1) := rfl
  rw [h1, h2, ← List.map_map, peaksCleaned_scale α hα]

/-! ## switched peaks -/

/-- scale the value component of the members of a group -/
def sc (α : ℚ) (g : List (ℕ × ℚ)) : List (ℕ × ℚ) := g.map (fun e => (e.1, α * e.2))

theorem abs_mul_sgn (α x : ℚ) (hα : α ≠ 0) : |α| * sgn (α * x) = α * sgn x := by
  rcases lt_trichotomy α 0 with ha | ha | ha
  · rw [abs_of_neg ha]
    rcases lt_trichotomy x 0 with hx | hx | hx
    · have h1 : 0 < α * x := mul_pos_of_neg_of_neg ha hx
      simp [sgn, h1, hx, not_lt.2 hx.le]
    · subst hx; simp [sgn]
    · have h1 : α * x < 0 := mul_neg_of_neg_of_pos ha hx
      simp [sgn, h1, hx, not_lt.2 h1.le]
  · exact absurd ha hα
  · rw [abs_of_pos ha]
    rcases lt_trichotomy x 0 with hx | hx | hx
    · have h1 : α * x < 0 := mul_neg_of_pos_of_neg ha hx
      simp [sgn, h1, hx, not_lt.2 hx.le, not_lt.2 h1.le]
    · subst hx; simp [sgn]
    · have h1 : 0 < α * x := mul_pos ha hx
      simp [sgn, h1, hx]

theorem group_test_scale (α : ℚ) (hα : α ≠ 0) (tol pv last : ℚ) :
    (α * pv + |α| * tol * sgn (α * last)) * (α * last) ≤ 0 ↔ (pv + tol * sgn last) * last ≤ 0 := by
  have h1 : |α| * tol * sgn (α * last) = α * (tol * sgn last) := by
    rw [mul_right_comm, abs_mul_sgn α last hα]; ring
  have h2 : (α * pv + α * (tol * sgn last)) * (α * last) = α ^ 2 * ((pv + tol * sgn last) * last) := by ring
  have h3 : 0 < α ^ 2 := by positivity
  rw [h1, h2]
  constructor
  · intro h
    by_contra hc
    have hc := not_le.1 hc
    have := mul_pos h3 hc
    linarith
  · intro h; exact mul_nonpos_of_nonneg_of_nonpos h3.le h

theorem groupsAux_scale (α : ℚ) (hα : α ≠ 0) (tol last : ℚ) (cur rest : List (ℕ × ℚ)) :
    groupsAux (|α| * tol) (α * last) (sc α cur) (sc α rest) = (groupsAux tol last cur rest).map (sc α) := by
  induction rest generalizing last cur with
  | nil => simp [groupsAux, sc]
  | cons e rest ih =>
    obtain ⟨i, pv⟩ := e
    have h1 : sc α ((i, pv) :: rest) = (i, α * pv) :: sc α rest := rfl
    rw [h1]
    simp only [groupsAux, group_test_scale α hα]
    split
    · have := ih pv [(i, pv)]
      simp only [List.map_cons]
      rw [← this]; rfl
    · have := ih last (cur ++ [(i, pv)])
      rw [← this]
      simp [sc]

theorem groups_scale (α : ℚ) (hα : α ≠ 0) (tol : ℚ) (l : List (ℕ × ℚ)) :
    groups (|α| * tol) id (sc α l) = (groups tol id l).map (sc α) := by
  cases l with
  | nil => rfl
  | cons e rest =>
    obtain ⟨i, pv⟩ := e
    exact groupsAux_scale α hα tol pv [(i, pv)] rest

theorem argmaxFrom_map (f : ℚ → ℚ) (hf : ∀ x y, f x < f y ↔ x < y) (bi : ℕ) (bv : ℚ) (i : ℕ) (l : List ℚ) :
    Np.argmaxFrom bi (f bv) i (l.map f) = Np.argmaxFrom bi bv i l := by
  induction l generalizing bi bv i with
  | nil => rfl
  | cons x xs ih => simp only [List.map_cons, Np.argmaxFrom, hf, ih]

theorem argmax_map (f : ℚ → ℚ) (hf : ∀ x y, f x < f y ↔ x < y) (l : List ℚ) :
    Np.argmax (l.map f) = Np.argmax l := by
  cases l with
  | nil => rfl
  | cons x xs => simp only [List.map_cons, Np.argmax, argmaxFrom_map f hf]

theorem absv_mul (α x : ℚ) : Np.absv (α * x) = |α| * Np.absv x := by
  rw [Np.absv_eq_abs, Np.absv_eq_abs, abs_mul]

theorem absL_scale (α : ℚ) (l : List ℚ) : Np.absL (l.map (α * ·)) = (Np.absL l).map (|α| * ·) := by
  simp [Np.absL, List.map_map, Function.comp_def, absv_mul]

theorem abs_mul_lt (α : ℚ) (hα : α ≠ 0) (x y : ℚ) : |α| * x < |α| * y ↔ x < y :=
  mul_lt_mul_iff_right₀ (abs_pos.2 hα)

theorem report_scale (α : ℚ) (hα : α ≠ 0) (g : List (ℕ × ℚ)) : report (sc α g) = report g := by
  unfold report
  have h1 : (sc α g).map (·.1) = g.map (·.1) := by simp [sc, Function.comp_def]
  have h2 : (sc α g).map (·.2) = (g.map (·.2)).map (α * ·) := by simp [sc, Function.comp_def]
  rw [h1, h2, absL_scale, argmax_map _ (abs_mul_lt α hα)]

theorem getD_scale (α : ℚ) (v : List ℚ) (j : ℕ) : (v.map (α * ·)).getD j 0 = α * v.getD j 0 := by
  have := List.getD_map (l := v) (d := (0 : ℚ)) (n := j) (fun x => α * x)
  simpa only [mul_zero] using this

theorem peakItems_scale (α : ℚ) (hα : α ≠ 0) (v : List ℚ) : peakItems (v.map (α * ·)) = sc α (peakItems v) := by
  unfold peakItems sc
  rw [peaks_scale α hα, List.map_map]
  apply List.map_congr_left
  intro p _
  simp only [Function.comp, getD_scale]

/-- switched peaks of `α • v` with tolerance `|α|·tol` are those of `v` with tolerance `tol` (`α ≠ 0`) -/
theorem switchedPeaks_scale_tol (α : ℚ) (hα : α ≠ 0) (v : List ℚ) (tol : ℚ) :
    switchedPeaks (v.map (α * ·)) (|α| * tol) = switchedPeaks v tol := by
  rw [switchedPeaks_eq, switchedPeaks_eq]
  unfold switchedGroups
  rw [peakItems_scale α hα, groups_scale α hα, List.map_map]
  apply List.map_congr_left
  intro g _
  exact report_scale α hα g

/-! ## zero crossings -/

theorem zeroIdxFrom_scale (α : ℚ) (hα : α ≠ 0) (i : ℕ) (v : List ℚ) :
    Np.whereIdxFrom (fun x : ℚ => decide (x = 0)) i (v.map (α * ·)) =
      Np.whereIdxFrom (fun x : ℚ => decide (x = 0)) i v := by
  induction v generalizing i with
  | nil => rfl
  | cons x xs ih => simp only [List.map_cons, Np.whereIdxFrom, mul_eq_zero, hα, false_or, ih]

theorem zeroIdx_scale (α : ℚ) (hα : α ≠ 0) (v : List ℚ) : zeroIdx (v.map (α * ·)) = zeroIdx v :=
  zeroIdxFrom_scale α hα 0 v

theorem zeroSel_scale (α : ℚ) (hα : α ≠ 0) (v : List ℚ) (k : Bool) : zeroSel (v.map (α * ·)) k = zeroSel v k := by
  unfold zeroSel; rw [zeroIdx_scale α hα]

theorem mul_test_scale (α : ℚ) (hα : α ≠ 0) (x y : ℚ) : α * x * (α * y) < 0 ↔ x * y < 0 := by
  have h2 : α * x * (α * y) = α ^ 2 * (x * y) := by ring
  have h3 : 0 < α ^ 2 := by positivity
  rw [h2]
  constructor
  · intro h
    by_contra hc
    have hc := not_lt.1 hc
    have := mul_nonneg h3.le hc
    linarith
  · intro h; exact mul_neg_of_pos_of_neg h3 h

/-- membership in `allZc` is invariant (index 0 is always a member; elsewhere only products are tested) -/
theorem mem_allZc_scale (α : ℚ) (hα : α ≠ 0) (v : List ℚ) (k : Bool) (x : ℕ) :
    x ∈ allZc (v.map (α * ·)) k ↔ x ∈ allZc v k := by
  rw [mem_allZc, mem_allZc, zeroSel_scale α hα, mem_throughZeroIdx, mem_throughZeroIdx]
  simp only [List.length_map, getD_scale, mul_test_scale α hα]
  by_cases hx : x = 0
  · simp [hx]
  · have : 0 < x := Nat.pos_of_ne_zero hx
    simp [hx, this]

theorem allZc_scale (α : ℚ) (hα : α ≠ 0) (v : List ℚ) (k : Bool) : allZc (v.map (α * ·)) k = allZc v k :=
  (allZc_pairwise _ k).eq_of_mem_iff (allZc_pairwise v k) (mem_allZc_scale α hα v k)

theorem max2_map (f : ℚ → ℚ) (hf : ∀ x y, f x < f y ↔ x < y) (a b : ℚ) : Np.max2 (f a) (f b) = f (Np.max2 a b) := by
  unfold Np.max2; simp only [hf]; split <;> rfl

theorem maxFrom_map (f : ℚ → ℚ) (hf : ∀ x y, f x < f y ↔ x < y) (m : ℚ) (l : List ℚ) :
    Np.maxFrom (f m) (l.map f) = f (Np.maxFrom m l) := by
  induction l generalizing m with
  | nil => rfl
  | cons x xs ih => simp only [List.map_cons, Np.maxFrom, max2_map f hf, ih]

theorem maxL?_map (f : ℚ → ℚ) (hf : ∀ x y, f x < f y ↔ x < y) (l : List ℚ) :
    Np.maxL? (l.map f) = (Np.maxL? l).map f := by
  cases l with
  | nil => rfl
  | cons x xs => simp only [List.map_cons, Np.maxL?, maxFrom_map f hf, Option.map_some]

theorem slice_map (f : ℚ → ℚ) (l : List ℚ) (a b : ℕ) : Np.slice (l.map f) a b = (Np.slice l a b).map f := by
  simp [Np.slice, List.map_take, List.map_drop]

theorem tolRemStep_scale (α : ℚ) (hα : α ≠ 0) (v : List ℚ) (tol : ℚ) (zc rem : List ℕ) (k : ℕ) :
    tolRemStep (v.map (α * ·)) (|α| * tol) zc rem k = tolRemStep v tol zc rem k := by
  unfold tolRemStep
  split
  · rfl
  · simp only [slice_map, absL_scale, maxL?_map _ (abs_mul_lt α hα)]
    cases Np.maxL? (Np.absL (Np.slice v (zc.getD k 0) (zc.getD (k + 1) 0))) with
    | none => rfl
    | some m => simp only [Option.map_some, abs_mul_lt α hα]

theorem tolRem_scale (α : ℚ) (hα : α ≠ 0) (v : List ℚ) (tol : ℚ) (zc : List ℕ) :
    tolRem (v.map (α * ·)) (|α| * tol) zc = tolRem v tol zc := by
  unfold tolRem
  have : tolRemStep (v.map (α * ·)) (|α| * tol) zc = tolRemStep v tol zc := by
    funext rem k; exact tolRemStep_scale α hα v tol zc rem k
  rw [this]

/-- zero crossings of `α • v` with tolerance `|α|·tol` are those of `v` with tolerance `tol` (`α ≠ 0`) -/
theorem zeroCrossings_scale_tol (α : ℚ) (hα : α ≠ 0) (v : List ℚ) (k : Bool) (tol : ℚ) :
    zeroCrossings (v.map (α * ·)) k (|α| * tol) = zeroCrossings v k tol := by
  unfold zeroCrossings
  have h0 : 0 < |α| * tol ↔ 0 < tol := by
    have := abs_mul_lt α hα 0 tol
    rwa [mul_zero] at this
  simp only [allZc_scale α hα, tolRem_scale α hα, h0]

end EqsigVerif.Lemmas.Scale
