import EqsigVerif.Prelude.Cplx
import Mathlib.Algebra.BigOperators.Group.Finset.Basic
import Mathlib.Algebra.BigOperators.Ring.Finset
import Mathlib.Algebra.BigOperators.Group.List.Basic
import Mathlib.Tactic.Ring
import Mathlib.Tactic.Linarith
/-!
# Lemmas about `Prelude/Cplx.lean` for an arbitrary commutative (semi)ring of "complex numbers"

`sumTo`/`sumL` are Mathlib's `Finset.sum`/`List.sum`; `padTo`; the DFT bins as `Finset` sums;
linearity of `dft`; invariance under trailing zeros.
-/
set_option linter.unusedSectionVars false
set_option linter.unusedVariables false
namespace EqsigVerif.Cplx
open Finset

section Monoid
variable {β : Type} [AddCommMonoid β]

theorem sumTo_eq_sum (f : ℕ → β) (n : ℕ) : sumTo f n = ∑ j ∈ range n, f j := by
  induction n with
  | zero => simp [sumTo]
  | succ n ih => rw [sumTo, ih, Finset.sum_range_succ]

theorem sumL_eq_sum (l : List β) : sumL l = l.sum := by
  induction l with
  | nil => rfl
  | cons x xs ih => simp [sumL, ih]

@[simp] theorem length_padTo (N : ℕ) (x : List β) : (padTo N x).length = N := by
  simp [padTo]; omega

theorem getElem_eq_getD (l : List β) (j : ℕ) (h : j < l.length) : l[j] = l.getD j 0 := by
  simp [List.getD_eq_getElem?_getD, List.getElem?_eq_getElem h]

theorem getD_of_not_lt (l : List β) (j : ℕ) (h : ¬ j < l.length) : l.getD j 0 = 0 := by
  have : l[j]? = none := by simp; omega
  simp [List.getD_eq_getElem?_getD, this]

theorem padTo_getElem? (N : ℕ) (x : List β) (j : ℕ) :
    (padTo N x)[j]? = if j < N then some (x.getD j 0) else none := by
  unfold padTo
  by_cases h1 : j < N
  · by_cases h2 : j < x.length
    · rw [List.getElem?_append_left (by simp; omega), List.getElem?_take_of_lt h1]
      simp [h1, List.getD_eq_getElem?_getD, List.getElem?_eq_getElem h2]
    · rw [List.getElem?_append_right (by simp; omega)]
      have : x[j]? = none := by simp; omega
      simp [h1, List.getD_eq_getElem?_getD, this, List.getElem?_replicate]
      omega
  · rw [if_neg h1]
    simp; omega

theorem padTo_getD (N : ℕ) (x : List β) (j : ℕ) :
    (padTo N x).getD j 0 = if j < N then x.getD j 0 else 0 := by
  rw [List.getD_eq_getElem?_getD, padTo_getElem?]
  split <;> simp

theorem getD_append_zeros (x : List β) (m j : ℕ) : (x ++ List.replicate m 0).getD j 0 = x.getD j 0 := by
  by_cases h : j < x.length
  · simp [List.getD_eq_getElem?_getD, List.getElem?_append_left h]
  · rw [getD_of_not_lt x j h, List.getD_eq_getElem?_getD, List.getElem?_append_right (by omega),
      List.getElem?_replicate]
    split <;> simp

/-- trailing zeros that do not change `N` change nothing -/
theorem padTo_append_zeros (N m : ℕ) (x : List β) (h : x.length + m ≤ N) :
    padTo N (x ++ List.replicate m 0) = padTo N x := by
  apply List.ext_getElem?
  intro j
  rw [padTo_getElem?, padTo_getElem?, getD_append_zeros]

/-- `padTo` of a list of exactly `N` entries is the list -/
theorem padTo_of_length (N : ℕ) (x : List β) (h : x.length = N) : padTo N x = x := by
  simp [padTo, h]

end Monoid

section Semiring
variable {β : Type} [CommSemiring β]

@[simp] theorem length_dft (tw : ℕ → ℕ → β) (x : List β) (N : ℕ) : (dft tw x N).length = N := by
  simp [dft]

/-- the `k`-th DFT bin as a `Finset` sum over the (zero-extended) record -/
theorem dft_getElem (tw : ℕ → ℕ → β) (x : List β) (N k : ℕ) (hk : k < N) :
    (dft tw x N)[k]'(by simpa using hk) = ∑ j ∈ range N, x.getD j 0 * tw N (j * k % N) := by
  simp only [dft, dftBin, List.getElem_map, List.getElem_range, sumTo_eq_sum]
  apply Finset.sum_congr rfl
  intro j hj
  have hj' : j < N := Finset.mem_range.mp hj
  have : (padTo N x).toArray.getD j 0 = (padTo N x).getD j 0 := by
    have hl : j < (padTo N x).length := by simpa using hj'
    simp only [Array.getD, List.size_toArray, length_padTo, hj', dif_pos]
    exact getElem_eq_getD _ _ hl
  rw [this, padTo_getD, if_pos hj']

theorem dft_getD (tw : ℕ → ℕ → β) (x : List β) (N k : ℕ) :
    (dft tw x N).getD k 0 = if k < N then ∑ j ∈ range N, x.getD j 0 * tw N (j * k % N) else 0 := by
  by_cases hk : k < N
  · rw [if_pos hk, ← getElem_eq_getD _ _ (by simpa using hk), dft_getElem tw x N k hk]
  · rw [if_neg hk, getD_of_not_lt _ _ (by simpa using hk)]

/-- the DFT only sees the padded/truncated record -/
theorem dft_padTo (tw : ℕ → ℕ → β) (x : List β) (N : ℕ) : dft tw (padTo N x) N = dft tw x N := by
  apply List.ext_getElem (by simp)
  intro k h1 h2
  have hk : k < N := by simpa using h1
  rw [dft_getElem _ _ _ _ hk, dft_getElem _ _ _ _ hk]
  apply Finset.sum_congr rfl
  intro j hj
  rw [padTo_getD, if_pos (Finset.mem_range.mp hj)]

/-- trailing zeros that do not change `N` do not change the transform -/
theorem dft_append_zeros (tw : ℕ → ℕ → β) (x : List β) (N m : ℕ) (h : x.length + m ≤ N) :
    dft tw (x ++ List.replicate m 0) N = dft tw x N := by
  rw [← dft_padTo, padTo_append_zeros N m x h, dft_padTo]

theorem getD_zipWith_add (x y : List β) (h : x.length = y.length) (j : ℕ) :
    (List.zipWith (· + ·) x y).getD j 0 = x.getD j 0 + y.getD j 0 := by
  simp only [List.getD_eq_getElem?_getD, List.getElem?_zipWith]
  by_cases hj : j < x.length
  · have hj' : j < y.length := h ▸ hj
    simp [List.getElem?_eq_getElem hj, List.getElem?_eq_getElem hj']
  · have h1 : x[j]? = none := by simp; omega
    have h2 : y[j]? = none := by simp; omega
    simp [h1, h2]

theorem getD_map_mul (c : β) (x : List β) (j : ℕ) :
    (x.map (c * ·)).getD j 0 = c * x.getD j 0 := by
  simp only [List.getD_eq_getElem?_getD, List.getElem?_map]
  cases x[j]? <;> simp

/-- the DFT is additive -/
theorem dft_add (tw : ℕ → ℕ → β) (x y : List β) (N : ℕ) (h : x.length = y.length) :
    dft tw (List.zipWith (· + ·) x y) N = List.zipWith (· + ·) (dft tw x N) (dft tw y N) := by
  apply List.ext_getElem (by simp)
  intro k h1 h2
  have hk : k < N := by simpa using h1
  rw [List.getElem_zipWith, dft_getElem _ _ _ _ hk, dft_getElem _ _ _ _ hk, dft_getElem _ _ _ _ hk,
    ← Finset.sum_add_distrib]
  apply Finset.sum_congr rfl
  intro j _
  rw [getD_zipWith_add x y h, add_mul]

/-- the DFT is homogeneous -/
theorem dft_smul (tw : ℕ → ℕ → β) (c : β) (x : List β) (N : ℕ) :
    dft tw (x.map (c * ·)) N = (dft tw x N).map (c * ·) := by
  apply List.ext_getElem (by simp)
  intro k h1 h2
  have hk : k < N := by simpa using h1
  rw [List.getElem_map, dft_getElem _ _ _ _ hk, dft_getElem _ _ _ _ hk, Finset.mul_sum]
  apply Finset.sum_congr rfl
  intro j _
  rw [getD_map_mul, mul_assoc]

end Semiring

section Idft
variable {α β : Type} [Add β] [Mul β] [Div β] [OfNat β 0] [NatCast α] [CxLike α β]

/-- the inverse transform is the forward sum with conjugate twiddles, divided by `N` -/
theorem idft_eq_map (tw : ℕ → ℕ → β) (X : List β) (N : ℕ) :
    idft tw X N = (dft (fun n m => CxLike.conj (tw n m)) X N).map
      (fun z => z / CxLike.ofReal ((N : ℕ) : α)) := by
  simp [idft, dft, List.map_map]

@[simp] theorem length_idft (tw : ℕ → ℕ → β) (X : List β) (N : ℕ) : (idft tw X N).length = N := by
  simp [idft]

end Idft

end EqsigVerif.Cplx
