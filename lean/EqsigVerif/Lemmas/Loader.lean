import EqsigVerif.Lemmas.Fmt
import EqsigVerif.Model.Loader
/-!
# Lemmas about `Model/Loader.lean`

Main result: `loadL_saveL` — loading the text written by `save_values_and_dt` returns *exactly* the numbers
denoted by the written decimals (`Fmt.valueOf` of the rendered sign/magnitude), for every record, every `dt`
and every label without line-break characters.  The error bounds of C16.b then follow from
`Fmt.fmt_value_close`.
-/
namespace EqsigVerif.Model.Loader
open EqsigVerif EqsigVerif.Wire EqsigVerif.Fmt

/-! ## generic list facts -/

theorem dropWhile_of_head {p : Char → Bool} (l : List Char) (h : ∀ a ∈ l.head?, p a = false) :
    l.dropWhile p = l := by
  cases l with
  | nil => rfl
  | cons a r => rw [List.dropWhile_cons, h a (by simp)]; simp

theorem stripBy_of_ends {p : Char → Bool} (l : List Char) (h1 : ∀ a ∈ l.head?, p a = false)
    (h2 : ∀ a ∈ l.getLast?, p a = false) : stripBy p l = l := by
  unfold stripBy
  rw [dropWhile_of_head l h1, dropWhile_of_head l.reverse (by rw [List.head?_reverse]; exact h2),
    List.reverse_reverse]

/-- a class-free word, a separator, a class-free word: stripping the class changes nothing -/
theorem stripBy_sandwich {p : Char → Bool} (x y : List Char) (c : Char) (hx : x ≠ []) (hy : y ≠ [])
    (hxp : ∀ a ∈ x, p a = false) (hyp : ∀ a ∈ y, p a = false) :
    stripBy p (x ++ c :: y) = x ++ c :: y := by
  apply stripBy_of_ends
  · intro a ha
    cases x with
    | nil => exact absurd rfl hx
    | cons b x' =>
      simp only [List.cons_append, List.head?_cons, Option.mem_def, Option.some.injEq] at ha
      exact hxp a (by rw [← ha]; simp)
  · intro a ha
    have : a ∈ y := by
      have h' : (x ++ c :: y).getLast? = y.getLast? := by
        rw [List.getLast?_append, List.getLast?_cons]
        cases hl : y.getLast? with
        | none => rw [List.getLast?_eq_none_iff] at hl; exact absurd hl hy
        | some b => simp
      rw [h'] at ha
      exact List.mem_of_mem_getLast? ha
    exact hyp a this

/-! ## universal newlines -/

theorem unlAux_eq_self (l : List Char) (h : ∀ c ∈ l, c.toNat ≠ 13) : unlAux false l = l := by
  induction l with
  | nil => rfl
  | cons c cs ih =>
    unfold unlAux
    rw [if_neg (h c (by simp)), if_neg (by simp), ih (fun a ha => h a (by simp [ha]))]

/-! ## pieces / lines -/

theorem pieces_ne_nil (p : Char → Bool) (l : List Char) : pieces p l ≠ [] := by
  cases l with
  | nil => simp [pieces]
  | cons c cs =>
    unfold pieces
    split
    · simp
    · split <;> simp

theorem pieces_no_sep (p : Char → Bool) (l : List Char) (h : ∀ c ∈ l, p c = false) : pieces p l = [l] := by
  induction l with
  | nil => rfl
  | cons c cs ih =>
    unfold pieces
    rw [h c (by simp), ih (fun a ha => h a (by simp [ha]))]; simp

theorem pieces_append_sep (p : Char → Bool) (l : List Char) (c : Char) (r : List Char)
    (h : ∀ a ∈ l, p a = false) (hc : p c = true) : pieces p (l ++ c :: r) = l :: pieces p r := by
  induction l with
  | nil => simp [pieces, hc]
  | cons a l ih =>
    rw [List.cons_append, pieces, h a (by simp), ih (fun b hb => h b (by simp [hb]))]; simp

theorem pieces_joinLines (p : Char → Bool) (hp : p '\n' = true) (ls : List (List Char)) (hne : ls ≠ [])
    (h : ∀ l ∈ ls, ∀ c ∈ l, p c = false) : pieces p (joinLines ls) = ls := by
  induction ls with
  | nil => exact absurd rfl hne
  | cons l rest ih =>
    cases rest with
    | nil => simpa [joinLines] using pieces_no_sep p l (h l (by simp))
    | cons l' rest' =>
      rw [joinLines, pieces_append_sep p l '\n' _ (h l (by simp)) hp,
        ih (by simp) (fun m hm => h m (by simp [hm]))]
      · intro h0; cases h0

theorem splitLinesBy_joinLines (p : Char → Bool) (hp : p '\n' = true) (ls : List (List Char)) (hne : ls ≠ [])
    (h : ∀ l ∈ ls, ∀ c ∈ l, p c = false) (hlast : ls.getLast? ≠ some []) :
    splitLinesBy p (joinLines ls) = ls := by
  unfold splitLinesBy
  rw [pieces_joinLines p hp ls hne h]
  simp only [hlast, if_false]

/-! ## character classes of the written lines -/

theorem _root_.EqsigVerif.Fmt.NumChar.not_hash {c : Char} (h : NumChar c) : isHash c = false := by
  have := h.toNat_cases; unfold isHash; simp only [decide_eq_false_iff_not]; omega

theorem _root_.EqsigVerif.Fmt.NumChar.not_comma {c : Char} (h : NumChar c) : isComma c = false := by
  have := h.toNat_cases; unfold isComma; simp only [decide_eq_false_iff_not]; omega

theorem _root_.EqsigVerif.Fmt.NumChar.not_spCrLf {c : Char} (h : NumChar c) : isSpCrLf c = false := by
  have := h.toNat_cases; unfold isSpCrLf
  simp only [Bool.or_eq_false_iff, decide_eq_false_iff_not]; omega

theorem _root_.EqsigVerif.Fmt.NumChar.not_pySpace {c : Char} (h : NumChar c) : isPySpace c = false := by
  have := h.toNat_cases; unfold isPySpace
  simp only [Bool.or_eq_false_iff, Bool.and_eq_false_iff, decide_eq_false_iff_not]; omega

theorem _root_.EqsigVerif.Fmt.NumChar.not_lineBreak {c : Char} (h : NumChar c) : isPyLineBreak c = false := by
  have := h.toNat_cases; unfold isPyLineBreak
  simp only [Bool.or_eq_false_iff, Bool.and_eq_false_iff, decide_eq_false_iff_not]; omega

/-- characters of the header line: number characters or the single space -/
def HdrChar (c : Char) : Prop := NumChar c ∨ c.toNat = 32

theorem HdrChar.toNat_cases {c : Char} (h : HdrChar c) :
    c.toNat = 45 ∨ c.toNat = 46 ∨ (48 ≤ c.toNat ∧ c.toNat ≤ 57) ∨ c.toNat = 32 := by
  rcases h with h | h
  · have := h.toNat_cases; omega
  · omega

theorem HdrChar.not_hash {c : Char} (h : HdrChar c) : isHash c = false := by
  have := h.toNat_cases; unfold isHash; simp only [decide_eq_false_iff_not]; omega

theorem HdrChar.not_comma {c : Char} (h : HdrChar c) : isComma c = false := by
  have := h.toNat_cases; unfold isComma; simp only [decide_eq_false_iff_not]; omega

theorem HdrChar.not_lineBreak {c : Char} (h : HdrChar c) : isPyLineBreak c = false := by
  have := h.toNat_cases; unfold isPyLineBreak
  simp only [Bool.or_eq_false_iff, Bool.and_eq_false_iff, decide_eq_false_iff_not]; omega

theorem not_lf_of_not_lineBreak {c : Char} (h : isPyLineBreak c = false) : isLF c = false := by
  unfold isPyLineBreak at h; unfold isLF
  simp only [Bool.or_eq_false_iff, Bool.and_eq_false_iff, decide_eq_false_iff_not] at h ⊢; omega

theorem not_cr_of_not_lineBreak {c : Char} (h : isPyLineBreak c = false) : c.toNat ≠ 13 := by
  unfold isPyLineBreak at h
  simp only [Bool.or_eq_false_iff, Bool.and_eq_false_iff, decide_eq_false_iff_not] at h; omega

theorem numChars_fmtFixedL (q : ℚ) (d : ℕ) : NumChars (fmtFixedL q d) := numChars_renderL _ _ _
theorem fmtFixedL_ne_nil (q : ℚ) (d : ℕ) : fmtFixedL q d ≠ [] := renderL_ne_nil _ _ _

theorem numChars_fmtIntL (n : ℕ) : NumChars (fmtIntL (n : ℤ)) := by
  unfold fmtIntL
  have : ¬ ((n : ℤ) < 0) := by omega
  simp only [this, if_false, List.nil_append]
  exact NumChars.of_allDigits (allDigits_natDigits _)

theorem fmtIntL_ne_nil (n : ℕ) : fmtIntL (n : ℤ) ≠ [] := by
  unfold fmtIntL
  have : ¬ ((n : ℤ) < 0) := by omega
  simp only [this, if_false, List.nil_append]
  exact natDigits_ne_nil _

theorem hdrChars_headerL (n : ℕ) (dt : ℚ) : ∀ c ∈ headerL n dt, HdrChar c := by
  intro c hc
  unfold headerL at hc
  rw [List.mem_append, List.mem_cons] at hc
  rcases hc with hc | hc | hc
  · exact Or.inl (numChars_fmtIntL n c hc)
  · rw [hc]; exact Or.inr (by decide)
  · exact Or.inl (numChars_fmtFixedL dt 4 c hc)

theorem headerL_ne_nil (n : ℕ) (dt : ℚ) : headerL n dt ≠ [] := by
  unfold headerL; intro h
  rw [List.append_eq_nil_iff] at h
  exact fmtIntL_ne_nil n h.1

/-! ## number cells -/

theorem pyFloat_fmtFixedL (q : ℚ) (d : ℕ) :
    pyFloat (fmtFixedL q d) = .ok (valueOf (fmtNeg q) (fmtMag q d) d) := by
  unfold pyFloat fmtFixedL; rw [parseDecL_renderL]

/-- the exact decimal written for `q` with `d` decimals -/
def written (q : ℚ) (d : ℕ) : ℚ := valueOf (fmtNeg q) (fmtMag q d) d

theorem mapM_pyFloat_cells (v : List ℚ) :
    (v.map (fun x => fmtFixedL x 6)).mapM pyFloat = .ok (v.map (fun x => written x 6)) := by
  induction v with
  | nil => rfl
  | cons a v ih =>
    rw [List.map_cons, List.mapM_cons, pyFloat_fmtFixedL, ih]; rfl

theorem dataContent_num (l : List Char) (h : NumChars l) : dataContent l = l := by
  unfold dataContent
  rw [takeWhile_eq_self _ _ (fun c hc => by simp [(h c hc).not_hash]),
    stripBy_eq_self _ _ (fun c hc => (h c hc).not_spCrLf)]

theorem dataCells_num (ls : List (List Char)) (h : ∀ l ∈ ls, NumChars l ∧ l ≠ []) : dataCells ls = ls := by
  unfold dataCells
  induction ls with
  | nil => rfl
  | cons l rest ih =>
    have hl := h l (by simp)
    have hne : l.isEmpty = false := by
      cases hl' : l with
      | nil => exact absurd hl' hl.2
      | cons _ _ => rfl
    simp only [List.map_cons, dataContent_num l hl.1, List.filter_cons, hne, Bool.not_false, if_true]
    rw [takeWhile_eq_self _ _ (fun c hc => by simp [(hl.1 c hc).not_comma])]
    congr 1
    exact ih (fun m hm => h m (by simp [hm]))

/-! ## the two readers on a written file -/

theorem findNames_header (n : ℕ) (dt : ℚ) (rest : List (List Char)) :
    findNames (headerL n dt :: rest) = some (true, rest) := by
  have hh := hdrChars_headerL n dt
  have hnohash : (headerL n dt).any isHash = false := by
    rw [List.any_eq_false]; intro c hc; simp [(hh c hc).not_hash]
  have hstrip : ∀ (p : Char → Bool), (∀ c, NumChar c → p c = false) → stripBy p (headerL n dt) = headerL n dt := by
    intro p hp
    unfold headerL
    exact stripBy_sandwich _ _ _ (fmtIntL_ne_nil n) (fmtFixedL_ne_nil dt 4)
      (fun a ha => hp a (numChars_fmtIntL n a ha)) (fun a ha => hp a (numChars_fmtFixedL dt 4 a ha))
  have hne : (headerL n dt).isEmpty = false := by
    cases h : headerL n dt with
    | nil => exact absurd h (headerL_ne_nil n dt)
    | cons _ _ => rfl
  unfold findNames
  simp only [namesContent, hnohash, Bool.false_eq_true, if_false,
    hstrip isSpCrLf (fun c h => h.not_spCrLf), hne,
    pieces_no_sep isComma (headerL n dt) (fun c hc => (hh c hc).not_comma),
    hstrip isPySpace (fun c h => h.not_pySpace)]
  rfl

theorem genfromtxt_saved (v : List ℚ) (dt : ℚ) (label : List Char) :
    genfromtxtCol0 (saveLines v dt label) = .ok (v.map (fun x => written x 6)) := by
  unfold saveLines genfromtxtCol0
  simp only [findNames_header]
  rw [dataCells_num _ (by
    intro l hl
    rw [List.mem_map] at hl
    obtain ⟨x, _, rfl⟩ := hl
    exact ⟨numChars_fmtFixedL x 6, fmtFixedL_ne_nil x 6⟩)]
  simp only [if_true]
  exact mapM_pyFloat_cells v

/-- (G) followed by `astype` is the one-step `genfromtxtCol0` -/
theorem genfromtxtCol0_eq (fl : List (List Char)) :
    genfromtxtCol0 fl = (match genfromtxtData fl with
      | .error e => .error e
      | .ok d => astypeFloat d) := by
  unfold genfromtxtCol0 genfromtxtData
  cases fl with
  | nil => rfl
  | cons a rest =>
    dsimp only
    cases findNames rest with
    | none => rfl
    | some p =>
      obtain ⟨hf, rows⟩ := p
      dsimp only
      cases hf
      · simp only [Bool.false_eq_true, if_false]
        by_cases hc : (dataCells rows).isEmpty = true
        · simp only [hc, if_true]; rfl
        · simp only [hc, Bool.false_eq_true, if_false]
      · simp only [if_true]
        cases (dataCells rows).mapM pyFloat <;> rfl

theorem pySplit_header (n : ℕ) (dt : ℚ) : pySplit (headerL n dt) = [fmtIntL (n : ℤ), fmtFixedL dt 4] := by
  unfold pySplit headerL
  rw [pieces_append_sep isPySpace _ ' ' _ (fun a ha => (numChars_fmtIntL n a ha).not_pySpace) (by decide),
    pieces_no_sep isPySpace _ (fun a ha => (numChars_fmtFixedL dt 4 a ha).not_pySpace)]
  have h1 : (fmtIntL (n : ℤ)).isEmpty = false := by
    cases h : fmtIntL (n : ℤ) with
    | nil => exact absurd h (fmtIntL_ne_nil n)
    | cons _ _ => rfl
  have h2 : (fmtFixedL dt 4).isEmpty = false := by
    cases h : fmtFixedL dt 4 with
    | nil => exact absurd h (fmtFixedL_ne_nil dt 4)
    | cons _ _ => rfl
  simp [h1, h2]

theorem headerDt_saved (v : List ℚ) (dt : ℚ) (label : List Char) :
    headerDt (saveLines v dt label) = .ok (written dt 4) := by
  unfold saveLines headerDt
  simp only [pySplit_header, pyFloat_fmtFixedL]; rfl

/-- the written lines contain no line-break characters and the last one is not empty -/
theorem saveLines_clean (v : List ℚ) (dt : ℚ) (label : List Char) (hl : ∀ c ∈ label, isPyLineBreak c = false) :
    (∀ l ∈ saveLines v dt label, ∀ c ∈ l, isPyLineBreak c = false) ∧
      (saveLines v dt label).getLast? ≠ some [] := by
  constructor
  · intro l hl' c hc
    unfold saveLines at hl'
    rw [List.mem_cons, List.mem_cons, List.mem_map] at hl'
    rcases hl' with rfl | rfl | ⟨x, _, rfl⟩
    · exact hl c hc
    · exact (hdrChars_headerL _ _ c hc).not_lineBreak
    · exact (numChars_fmtFixedL x 6 c hc).not_lineBreak
  · intro h
    have hmem := List.mem_of_mem_getLast? (Option.mem_def.mpr h)
    unfold saveLines at h hmem
    rw [List.mem_cons, List.mem_cons, List.mem_map] at hmem
    rcases hmem with hm | hm | ⟨x, _, hm⟩
    · -- the label is the last line: impossible, the header follows it
      rw [List.getLast?_cons_cons] at h
      have hmem2 := List.mem_of_mem_getLast? (Option.mem_def.mpr h)
      rw [List.mem_cons, List.mem_map] at hmem2
      rcases hmem2 with hm2 | ⟨x, _, hm2⟩
      · exact headerL_ne_nil _ _ hm2.symm
      · exact fmtFixedL_ne_nil x 6 hm2
    · exact headerL_ne_nil _ _ hm.symm
    · exact fmtFixedL_ne_nil x 6 hm

theorem saveL_no_cr (v : List ℚ) (dt : ℚ) (label : List Char) (hl : ∀ c ∈ label, isPyLineBreak c = false) :
    ∀ c ∈ saveL v dt label, c.toNat ≠ 13 := by
  have hclean := (saveLines_clean v dt label hl).1
  unfold saveL
  generalize saveLines v dt label = ls at hclean
  induction ls with
  | nil => intro c hc; simp [joinLines] at hc
  | cons l rest ih =>
    cases rest with
    | nil =>
      intro c hc
      simp only [joinLines] at hc
      exact not_cr_of_not_lineBreak (hclean l (by simp) c hc)
    | cons l' rest' =>
      intro c hc
      rw [joinLines, List.mem_append, List.mem_cons] at hc
      rcases hc with hc | hc | hc
      · exact not_cr_of_not_lineBreak (hclean l (by simp) c hc)
      · rw [hc]; decide
      · exact ih (fun m hm => hclean m (by simp [hm])) c hc
      · intro h0; cases h0

/-- **exact round trip**: loading a saved file returns exactly the written decimals -/
theorem loadL_saveL (v : List ℚ) (dt : ℚ) (label : List Char) (hl : ∀ c ∈ label, isPyLineBreak c = false) :
    loadL (saveL v dt label) = .ok (v.map (fun x => written x 6), written dt 4) := by
  have hclean := saveLines_clean v dt label hl
  have hne : saveLines v dt label ≠ [] := by unfold saveLines; simp
  unfold loadL universalNewlines
  rw [unlAux_eq_self _ (saveL_no_cr v dt label hl)]
  have hf : fileLines (saveL v dt label) = saveLines v dt label :=
    splitLinesBy_joinLines isLF (by decide) _ hne
      (fun l hl' c hc => not_lf_of_not_lineBreak (hclean.1 l hl' c hc)) hclean.2
  have hs : pySplitlines (saveL v dt label) = saveLines v dt label :=
    splitLinesBy_joinLines isPyLineBreak (by decide) _ hne hclean.1 hclean.2
  have hg := genfromtxt_saved v dt label
  rw [genfromtxtCol0_eq] at hg
  simp only [hf, hs, headerDt_saved]
  cases hr : genfromtxtData (saveLines v dt label) with
  | error e => rw [hr] at hg; cases hg
  | ok d =>
    rw [hr] at hg
    simp only at hg ⊢
    rw [hg]

theorem loadText_saveText (v : List ℚ) (dt : ℚ) (label : String) (hl : NoLineBreak label) :
    loadText (saveText v dt label) = .ok (v.map (fun x => written x 6), written dt 4) := by
  unfold loadText saveText
  rw [String.toList_ofList]
  exact loadL_saveL v dt label.toList hl

theorem firstLine_saveText (v : List ℚ) (dt : ℚ) (label : String) (hl : NoLineBreak label) :
    firstLine (saveText v dt label) = .ok label := by
  have hclean := saveLines_clean v dt label.toList hl
  have hne : saveLines v dt label.toList ≠ [] := by unfold saveLines; simp
  unfold firstLine saveText universalNewlines
  rw [String.toList_ofList, unlAux_eq_self _ (saveL_no_cr v dt label.toList hl)]
  have hs : pySplitlines (saveL v dt label.toList) = saveLines v dt label.toList :=
    splitLinesBy_joinLines isPyLineBreak (by decide) _ hne hclean.1 hclean.2
  rw [hs]
  simp only [saveLines, String.ofList_toList]

/-- error of a written decimal -/
theorem written_close (q : ℚ) (d : ℕ) : |written q d - q| ≤ 1 / 2 / (10 : ℚ) ^ d := fmt_value_close q d

end EqsigVerif.Model.Loader
