import EqsigVerif.Model.Spectra
import EqsigVerif.Lemmas.Np
/-!
# Lemmas about `absmax` (`Model/Spectra.lean`) over a linearly ordered field (C03.a, corollary of C02.a)
-/
set_option linter.unusedSectionVars false
set_option linter.unusedVariables false
namespace EqsigVerif.Model.Spectra
open EqsigVerif.Np

variable {α : Type} [Field α] [LinearOrder α] [IsStrictOrderedRing α]

theorem absmax_nil : absmax ([] : List α) = none := rfl

theorem absmax_isSome (l : List α) (h : l ≠ []) : ∃ m, absmax l = some m := by
  cases l with
  | nil => exact absurd rfl h
  | cons x xs => exact ⟨_, rfl⟩

/-- the value returned by `absmax` is an upper bound of `|·|` on the list and is attained -/
theorem absmax_spec (l : List α) (m : α) (h : absmax l = some m) :
    (∀ x ∈ l, |x| ≤ m) ∧ ∃ x ∈ l, |x| = m := by
  cases l with
  | nil => simp [absmax] at h
  | cons x xs =>
    simp only [absmax, Option.some.injEq] at h
    obtain ⟨hM0, hM⟩ := le_maxFrom x xs
    obtain ⟨hm0, hm⟩ := minFrom_le x xs
    have hMmem : maxFrom x xs ∈ x :: xs := by
      rcases maxFrom_mem x xs with h | h
      · rw [h]; simp
      · exact List.mem_cons_of_mem _ h
    have hmmem : minFrom x xs ∈ x :: xs := by
      rcases minFrom_mem x xs with h | h
      · rw [h]; simp
      · exact List.mem_cons_of_mem _ h
    have hMall : ∀ y ∈ x :: xs, y ≤ maxFrom x xs := by
      intro y hy
      rcases List.mem_cons.mp hy with rfl | hy
      · exact hM0
      · exact hM y hy
    have hmall : ∀ y ∈ x :: xs, minFrom x xs ≤ y := by
      intro y hy
      rcases List.mem_cons.mp hy with rfl | hy
      · exact hm0
      · exact hm y hy
    rw [absv_eq_abs] at h
    subst h
    split
    · rename_i hlt
      refine ⟨?_, _, hmmem, rfl⟩
      intro y hy
      have h1 := hMall y hy
      have h2 := hmall y hy
      have hneg : minFrom x xs < 0 := by
        have := hmall _ hMmem
        by_contra hc
        have : 0 ≤ minFrom x xs := le_of_not_gt hc
        linarith
      rw [abs_of_neg hneg, abs_le]
      constructor <;> linarith
    · rename_i hnlt
      have hge : -minFrom x xs ≤ maxFrom x xs := le_of_not_gt hnlt
      refine ⟨?_, _, hMmem, rfl⟩
      intro y hy
      have h1 := hMall y hy
      have h2 := hmall y hy
      have hnn : 0 ≤ maxFrom x xs := by
        have := hmall _ hMmem
        linarith
      rw [abs_of_nonneg hnn, abs_le]
      constructor <;> linarith

/-- `absmax` is characterised by `absmax_spec` -/
theorem absmax_unique (l : List α) (m : α) (hub : ∀ x ∈ l, |x| ≤ m) (hatt : ∃ x ∈ l, |x| = m) :
    absmax l = some m := by
  obtain ⟨x, hx, hxm⟩ := hatt
  obtain ⟨m', hm'⟩ := absmax_isSome l (List.ne_nil_of_mem hx)
  obtain ⟨hub', y, hy, hym⟩ := absmax_spec l m' hm'
  rw [hm']
  congr 1
  apply le_antisymm
  · rw [← hym]; exact hub y hy
  · rw [← hxm]; exact hub' x hx

theorem absmax_nonneg (l : List α) (m : α) (h : absmax l = some m) : 0 ≤ m := by
  obtain ⟨_, x, _, hx⟩ := absmax_spec l m h
  rw [← hx]; exact abs_nonneg x

/-- `absmax (c•l) = |c|·absmax l` -/
theorem absmax_smul (c : α) (l : List α) : absmax (l.map (c * ·)) = (absmax l).map (|c| * ·) := by
  cases hl : l with
  | nil => rfl
  | cons x xs =>
    obtain ⟨m, hm⟩ := absmax_isSome l (by rw [hl]; simp)
    obtain ⟨hub, y, hy, hym⟩ := absmax_spec l m hm
    rw [← hl, hm, Option.map_some]
    apply absmax_unique
    · intro z hz
      obtain ⟨z', hz', rfl⟩ := List.mem_map.mp hz
      rw [abs_mul]
      exact mul_le_mul_of_nonneg_left (hub z' hz') (abs_nonneg c)
    · exact ⟨c * y, List.mem_map.mpr ⟨y, hy, rfl⟩, by rw [abs_mul, hym]⟩

/-- `absmax (−l) = absmax l` -/
theorem absmax_neg (l : List α) : absmax (l.map (fun x => -x)) = absmax l := by
  have h := absmax_smul (-1 : α) l
  have h1 : (fun x : α => -1 * x) = (fun x => -x) := by funext x; ring
  simp only [h1, abs_neg, abs_one, one_mul] at h
  rw [h]
  cases absmax l <;> simp

/-- `absmax l = max(|l|)` in terms of the prelude's `np.max`, `np.abs` -/
theorem absmax_eq_maxL_absL (l : List α) : absmax l = maxL? (absL l) := by
  cases hl : l with
  | nil => rfl
  | cons x xs =>
    rw [← hl]
    have hne : l ≠ [] := by rw [hl]; simp
    simp only [hl, absL, List.map_cons, maxL?]
    apply absmax_unique
    · intro y hy
      obtain ⟨h0, h1⟩ := le_maxFrom (absv x) (xs.map absv)
      rcases List.mem_cons.mp hy with rfl | hy
      · rw [← absv_eq_abs]; exact h0
      · rw [← absv_eq_abs]; exact h1 _ (List.mem_map.mpr ⟨y, hy, rfl⟩)
    · rcases maxFrom_mem (absv x) (xs.map absv) with h | h
      · exact ⟨x, by simp, by rw [h, absv_eq_abs]⟩
      · obtain ⟨y, hy, hyv⟩ := List.mem_map.mp h
        exact ⟨y, List.mem_cons_of_mem _ hy, by rw [← hyv, absv_eq_abs]⟩

end EqsigVerif.Model.Spectra
