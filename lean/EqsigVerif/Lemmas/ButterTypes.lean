import EqsigVerif.Lemmas.ButterDigital
/-!
# Low-, high- and band-pass Butterworth filters of `Model/Butter.lean`: transfer functions in terms of `B_n` (C17)
-/
set_option linter.unusedSectionVars false
set_option linter.unusedVariables false
noncomputable section
namespace EqsigVerif.Butter
open Complex Finset EqsigVerif.Cplx EqsigVerif.Model.Butter
open EqsigVerif.Model.Single (FilterType)

/-! ## the poles lie in the open left half plane -/

theorem cos_theta_pos (n j : ℕ) (hj : j < n) : 0 < Real.cos (theta n j) := by
  apply Real.cos_pos_of_mem_Ioo
  have hn : (0 : ℝ) < ((2 * n : ℕ) : ℝ) := by exact_mod_cast (by omega : 0 < 2 * n)
  have hpi := Real.pi_pos
  have h1 : -(n : ℝ) < ((2 * j + 1 : ℕ) : ℝ) - (n : ℝ) := by
    have : (0 : ℝ) < ((2 * j + 1 : ℕ) : ℝ) := by exact_mod_cast (by omega : 0 < 2 * j + 1)
    linarith
  have h2 : ((2 * j + 1 : ℕ) : ℝ) - (n : ℝ) < (n : ℝ) := by
    have : ((2 * j + 1 : ℕ) : ℝ) < ((2 * n : ℕ) : ℝ) := by exact_mod_cast (by omega : 2 * j + 1 < 2 * n)
    push_cast at this ⊢
    linarith
  have h2n : ((2 * n : ℕ) : ℝ) = 2 * (n : ℝ) := by push_cast; ring
  unfold theta
  constructor
  · rw [lt_div_iff₀ hn, h2n]
    nlinarith
  · rw [div_lt_iff₀ hn, h2n]
    nlinarith

theorem pole_re (n j : ℕ) : (pole n j).re = -Real.cos (theta n j) := by
  unfold pole
  rw [Complex.neg_re, Complex.exp_ofReal_mul_I_re]

theorem pole_ne_zero (n j : ℕ) : pole n j ≠ 0 := by
  unfold pole
  exact neg_ne_zero.mpr (Complex.exp_ne_zero _)

/-- a non-negative real number is not a pole -/
theorem sub_pole_ne_zero (n j : ℕ) (hj : j < n) (x : ℝ) (hx : 0 ≤ x) : (x : ℂ) - pole n j ≠ 0 := by
  intro h
  have := congrArg Complex.re h
  rw [Complex.sub_re, pole_re, Complex.ofReal_re, Complex.zero_re] at this
  have := cos_theta_pos n j hj
  linarith

theorem bpoly_real_ne_zero (n : ℕ) (x : ℝ) (hx : 0 ≤ x) : bpoly n x ≠ 0 := by
  unfold bpoly
  rw [Finset.prod_ne_zero_iff]
  intro j hj
  exact sub_pole_ne_zero n j (Finset.mem_range.mp hj) x hx

theorem bpoly_real_im (n : ℕ) (x : ℝ) : (bpoly n x).im = 0 := by
  have := conj_bpoly n x
  rw [Complex.conj_ofReal] at this
  exact Complex.conj_eq_iff_im.mp this

theorem bpoly_real (n : ℕ) (x : ℝ) : bpoly n x = (((bpoly n x).re : ℝ) : ℂ) :=
  (ofReal_re_of_im_eq_zero _ (bpoly_real_im n x)).symm

/-- products over the pole list -/
theorem prod_poles (f : ℂ → ℂ) (n : ℕ) :
    (((List.range n).map (pole n)).map f).prod = ∏ j ∈ Finset.range n, f (pole n j) := by
  rw [List.map_map, list_range_prod]
  rfl

/-! ## low pass -/

theorem prod_lp (n : ℕ) (wo : ℝ) (hwo : wo ≠ 0) (s : ℂ) :
    ∏ j ∈ Finset.range n, (s - (wo : ℂ) * pole n j) = (wo : ℂ) ^ n * bpoly n (s / wo) := by
  have hw : (wo : ℂ) ≠ 0 := Complex.ofReal_ne_zero.mpr hwo
  unfold bpoly
  rw [← Finset.card_range n, ← Finset.prod_const, Finset.card_range, ← Finset.prod_mul_distrib]
  apply Finset.prod_congr rfl
  intro j _
  field_simp

/-- the analog low pass `lp2lp(buttap(n), wo)` has the transfer function `1/B_n(s/wo)` -/
theorem evalZpk_lp2lp (cs : ℂ → ℂ) (n : ℕ) (wo : ℝ) (hwo : 0 < wo) (s : ℂ) :
    evalZpk (lp2lp (buttap (fnsC cs) n) wo) s = 1 / bpoly n (s / wo) := by
  rw [evalZpk_eq]
  simp only [lp2lp, buttap_p, buttap_z, buttap_k, relDeg, List.length_map, List.length_range, List.length_nil,
    cxlike_ofReal, List.map_nil, List.prod_nil, powN_eq, Nat.sub_zero, one_mul, mul_one]
  rw [List.map_map, prod_poles]
  simp only [Function.comp_apply]
  rw [prod_lp n wo hwo.ne']
  have hw : (wo : ℂ) ^ n ≠ 0 := pow_ne_zero _ (Complex.ofReal_ne_zero.mpr hwo.ne')
  push_cast
  rw [div_mul_eq_div_div, div_self hw]

/-- the digital low pass is the analog one at `s = 4(ζ − 1)/(ζ + 1)` -/
theorem lowpass_response (cs : ℂ → ℂ) (n : ℕ) (wo : ℝ) (hwo : 0 < wo) (ζ : ℂ) (hζ : ζ + 1 ≠ 0) :
    evalZpk (bilinear (lp2lp (buttap (fnsC cs) n) wo)) ζ = 1 / bpoly n (4 * (ζ - 1) / (ζ + 1) / wo) := by
  have hw : (wo : ℂ) ≠ 0 := Complex.ofReal_ne_zero.mpr hwo.ne'
  have h4 : ∀ j, j < n → (4 : ℂ) - (wo : ℂ) * pole n j ≠ 0 := by
    intro j hj
    have h := sub_pole_ne_zero n j hj (4 / wo) (by positivity)
    have : (4 : ℂ) - (wo : ℂ) * pole n j = (wo : ℂ) * (((4 / wo : ℝ) : ℂ) - pole n j) := by
      push_cast; field_simp
    rw [this]
    exact mul_ne_zero hw h
  rw [evalZpk_bilinear _ ζ hζ, evalZpk_lp2lp cs n wo hwo]
  · simp [lp2lp, buttap_z]
  · simp [lp2lp, buttap_z]
  · intro r hr
    simp only [lp2lp, buttap_p, cxlike_ofReal, List.mem_map, List.mem_range] at hr
    obtain ⟨_, ⟨j, hj, rfl⟩, rfl⟩ := hr
    exact h4 j hj
  · simp only [lp2lp, buttap_p, buttap_z, cxlike_ofReal, List.map_nil, List.prod_nil]
    rw [List.map_map, prod_poles]
    simp only [Function.comp_apply]
    rw [prod_lp n wo hwo.ne',
      show ((4 : ℂ) / (wo : ℂ)) = (((4 / wo : ℝ)) : ℂ) by push_cast; rfl, bpoly_real n (4 / wo)]
    rw [← Complex.ofReal_pow, ← Complex.ofReal_mul, ← Complex.ofReal_one, ← Complex.ofReal_div]
    exact Complex.ofReal_im _

theorem prewarp_eq (cs : ℂ → ℂ) (w : ℝ) : prewarp (fnsC cs) w = 4 * Real.tan (Real.pi * w / 2) := by
  simp [prewarp, fnsC]

/-- the point `s = 4(ζ − 1)/(ζ + 1)` for `ζ = e^{iπw}`, divided by a real `c` -/
theorem bilinear_point (w c : ℝ) :
    4 * (cexp ((Real.pi * w : ℝ) * I) - 1) / (cexp ((Real.pi * w : ℝ) * I) + 1) / (c : ℂ)
      = ((4 * Real.tan (Real.pi * w / 2) / c : ℝ) : ℂ) * I := by
  rw [bilinear_unit_circle]
  push_cast
  ring

/-- **digital low-pass gain** `|H(e^{iπw})|² = 1/(1 + (tan(πw/2)/tan(πw_c/2))^{2n})` -/
theorem lowpass_gain (cs : ℂ → ℂ) (n : ℕ) (hn : 0 < n) (wc w : ℝ) (hwc : 0 < wc) (hwc1 : wc < 1)
    (hw : -1 < w) (hw1 : w < 1) :
    Complex.normSq (evalZpk (digitalZpk (fnsC cs) n .low [wc]) (cexp ((Real.pi * w : ℝ) * I)))
      = 1 / (1 + (Real.tan (Real.pi * w / 2) / Real.tan (Real.pi * wc / 2)) ^ (2 * n)) := by
  have htc := tan_half_pos wc hwc hwc1
  have hζ := exp_add_one_ne_zero (Real.pi * w) (cos_half_pos w hw hw1).ne'
  simp only [digitalZpk, analogZpk, List.getD_cons_zero, prewarp_eq]
  rw [lowpass_response cs n _ (by positivity) _ hζ, bilinear_point, map_div₀, map_one, normSq_bpoly n hn]
  congr 3
  field_simp

/-! ## high pass -/

theorem bpoly_zero (n : ℕ) : bpoly n 0 = ∏ j ∈ Finset.range n, (-pole n j) := by
  unfold bpoly
  apply Finset.prod_congr rfl
  intro j _
  ring

theorem bpoly_zero_ne_zero (n : ℕ) : bpoly n 0 ≠ 0 := by
  have := bpoly_real_ne_zero n 0 le_rfl
  simpa using this

theorem prod_hp (n : ℕ) (wo : ℝ) (s : ℂ) (hs : s ≠ 0) :
    ∏ j ∈ Finset.range n, (s - (wo : ℂ) / pole n j) = s ^ n / bpoly n 0 * bpoly n (wo / s) := by
  rw [bpoly_zero]
  unfold bpoly
  rw [← Finset.card_range n, ← Finset.prod_const, Finset.card_range, ← Finset.prod_div_distrib,
    ← Finset.prod_mul_distrib]
  apply Finset.prod_congr rfl
  intro j _
  have := pole_ne_zero n j
  field_simp
  ring

theorem inv_bpoly_zero_real (n : ℕ) : (((1 / bpoly n 0).re : ℝ) : ℂ) = 1 / bpoly n 0 := by
  apply ofReal_re_of_im_eq_zero
  have h := bpoly_real n 0
  rw [Complex.ofReal_zero] at h
  rw [h, ← Complex.ofReal_one, ← Complex.ofReal_div]
  exact Complex.ofReal_im _

/-- the analog high pass `lp2hp(buttap(n), wo)` has the transfer function `1/B_n(wo/s)` (`s ≠ 0`) -/
theorem evalZpk_lp2hp (cs : ℂ → ℂ) (n : ℕ) (wo : ℝ) (s : ℂ) (hs : s ≠ 0) :
    evalZpk (lp2hp (buttap (fnsC cs) n) wo) s = 1 / bpoly n (wo / s) := by
  rw [evalZpk_eq]
  simp only [lp2hp, buttap_p, buttap_z, buttap_k, relDeg, List.length_map, List.length_range, List.length_nil,
    cxlike_ofReal, cxlike_re, List.map_nil, List.prod_nil, prodL_eq, Nat.sub_zero, one_mul, List.nil_append,
    List.map_replicate, List.prod_replicate, sub_zero]
  simp only [List.map_map, list_range_prod, Function.comp_apply]
  rw [← bpoly_zero, inv_bpoly_zero_real, prod_hp n wo s hs]
  have h0 := bpoly_zero_ne_zero n
  have hsn : s ^ n ≠ 0 := pow_ne_zero _ hs
  by_cases hB : bpoly n (wo / s) = 0
  · simp [hB]
  · field_simp

theorem four_sub_hp (n j : ℕ) (hj : j < n) (wo : ℝ) (hwo : 0 < wo) : (4 : ℂ) - (wo : ℂ) / pole n j ≠ 0 := by
  have h := sub_pole_ne_zero n j hj (wo / 4) (by positivity)
  have hp := pole_ne_zero n j
  have : (4 : ℂ) - (wo : ℂ) / pole n j = (4 / (-pole n j)) * (((wo / 4 : ℝ) : ℂ) - pole n j) := by
    push_cast; field_simp; ring
  rw [this]
  exact mul_ne_zero (div_ne_zero (by norm_num) (neg_ne_zero.mpr hp)) h

/-- the digital high pass is the analog one at `s = 4(ζ − 1)/(ζ + 1)` (`ζ ≠ ±1`) -/
theorem highpass_response (cs : ℂ → ℂ) (n : ℕ) (wo : ℝ) (hwo : 0 < wo) (ζ : ℂ) (hζ : ζ + 1 ≠ 0) (hζ1 : ζ - 1 ≠ 0) :
    evalZpk (bilinear (lp2hp (buttap (fnsC cs) n) wo)) ζ = 1 / bpoly n (wo / (4 * (ζ - 1) / (ζ + 1))) := by
  have hs : 4 * (ζ - 1) / (ζ + 1) ≠ 0 := div_ne_zero (mul_ne_zero (by norm_num) hζ1) hζ
  rw [evalZpk_bilinear _ ζ hζ, evalZpk_lp2hp cs n wo _ hs]
  · simp [lp2hp, buttap_z, buttap_p, relDeg]
  · intro r hr
    simp only [lp2hp, buttap_z, List.map_nil, List.nil_append, List.mem_replicate] at hr
    rw [hr.2]; norm_num
  · intro r hr
    simp only [lp2hp, buttap_p, cxlike_ofReal, List.mem_map, List.mem_range] at hr
    obtain ⟨_, ⟨j, hj, rfl⟩, rfl⟩ := hr
    exact four_sub_hp n j hj wo hwo
  · simp only [lp2hp, buttap_p, buttap_z, relDeg, cxlike_ofReal, List.map_nil, List.nil_append, List.length_map,
      List.length_range, List.length_nil, Nat.sub_zero, List.map_replicate, List.prod_replicate, sub_zero]
    rw [List.map_map, prod_poles]
    simp only [Function.comp_apply]
    rw [prod_hp n wo 4 (by norm_num), show ((wo : ℂ) / 4) = (((wo / 4 : ℝ)) : ℂ) by push_cast; rfl,
      bpoly_real n (wo / 4)]
    have h := bpoly_real n 0
    rw [Complex.ofReal_zero] at h
    rw [h]
    have : (4 : ℂ) ^ n / ((4 : ℂ) ^ n / (((bpoly n 0).re : ℝ) : ℂ) * (((bpoly n ((wo / 4 : ℝ) : ℂ)).re : ℝ) : ℂ))
        = (((4 : ℝ) ^ n / ((4 : ℝ) ^ n / (bpoly n 0).re * (bpoly n ((wo / 4 : ℝ) : ℂ)).re) : ℝ) : ℂ) := by
      push_cast; rfl
    rw [this]
    exact Complex.ofReal_im _

/-- `ζ = e^{iπw} ≠ 1` for `0 < w < 1` -/
theorem exp_sub_one_ne_zero (w : ℝ) (hw : 0 < w) (hw1 : w < 1) : cexp ((Real.pi * w : ℝ) * I) - 1 ≠ 0 := by
  intro h0
  have hre := congrArg Complex.re h0
  rw [Complex.sub_re, Complex.exp_ofReal_mul_I_re, Complex.one_re, Complex.zero_re] at hre
  have hpi := Real.pi_pos
  have : Real.cos (Real.pi * w) < 1 := by
    rw [← Real.cos_zero]
    exact Real.cos_lt_cos_of_nonneg_of_le_pi le_rfl (by nlinarith) (by positivity)
  linarith

/-- **digital high-pass gain** `|H(e^{iπw})|² = 1/(1 + (tan(πw_c/2)/tan(πw/2))^{2n})` -/
theorem highpass_gain (cs : ℂ → ℂ) (n : ℕ) (hn : 0 < n) (wc w : ℝ) (hwc : 0 < wc) (hwc1 : wc < 1)
    (hw : 0 < w) (hw1 : w < 1) :
    Complex.normSq (evalZpk (digitalZpk (fnsC cs) n .high [wc]) (cexp ((Real.pi * w : ℝ) * I)))
      = 1 / (1 + (Real.tan (Real.pi * wc / 2) / Real.tan (Real.pi * w / 2)) ^ (2 * n)) := by
  have htc := tan_half_pos wc hwc hwc1
  have ht := tan_half_pos w hw hw1
  have hζ := exp_add_one_ne_zero (Real.pi * w) (cos_half_pos w (by linarith) hw1).ne'
  have hζ1 := exp_sub_one_ne_zero w hw hw1
  simp only [digitalZpk, analogZpk, List.getD_cons_zero, prewarp_eq]
  rw [highpass_response cs n _ (by positivity) _ hζ hζ1, bilinear_unit_circle]
  have : ((4 * Real.tan (Real.pi * wc / 2) : ℝ) : ℂ) / (((4 * Real.tan (Real.pi * w / 2) : ℝ) : ℂ) * I)
      = ((-(Real.tan (Real.pi * wc / 2) / Real.tan (Real.pi * w / 2)) : ℝ) : ℂ) * I := by
    have hne : ((Real.tan (Real.pi * w / 2) : ℝ) : ℂ) ≠ 0 := Complex.ofReal_ne_zero.mpr ht.ne'
    push_cast
    field_simp
    rw [Complex.I_sq]; ring
  rw [this, map_div₀, map_one, normSq_bpoly n hn, Even.neg_pow (by simp)]

end EqsigVerif.Butter
