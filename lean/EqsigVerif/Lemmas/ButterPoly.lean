import EqsigVerif.Lemmas.ButterSteady
import EqsigVerif.Lemmas.ButterDigital
import Mathlib.Algebra.Polynomial.Eval.Coeff
import Mathlib.Algebra.Polynomial.BigOperators
import Mathlib.Data.List.GetD
/-!
# `zpk2tf`: the coefficient lists `np.poly` builds, their evaluation and their realness (C17)
-/
set_option linter.unusedSectionVars false
set_option linter.unusedVariables false
noncomputable section
namespace EqsigVerif.Butter
open Complex Finset EqsigVerif.Cplx EqsigVerif.Model.Butter

section Ring
variable {R : Type} [CommRing R]

theorem polyval_foldl (x : R) (c : List R) (acc : R) :
    c.foldl (fun acc ck => acc * x + ck) acc = acc * x ^ c.length + polyval c x := by
  induction c generalizing acc with
  | nil => simp [polyval]
  | cons c0 cs ih =>
    unfold polyval
    rw [List.foldl_cons, List.foldl_cons, ih, ih (0 * x + c0), List.length_cons]
    ring

theorem polyval_cons (x c0 : R) (cs : List R) : polyval (c0 :: cs) x = c0 * x ^ cs.length + polyval cs x := by
  unfold polyval
  rw [List.foldl_cons, polyval_foldl]
  simp [polyval]

theorem polyval_mulLinearAux (x r : R) (xs : List R) (t prev s : R) (hs : s = t * x + prev) :
    (mulLinearAux r prev xs).foldl (fun acc ck => acc * x + ck) (s - r * t)
      = xs.foldl (fun acc ck => acc * x + ck) s * (x - r) := by
  induction xs generalizing t prev s with
  | nil => simp only [mulLinearAux, List.foldl_cons, List.foldl_nil]; rw [hs]; ring
  | cons y ys ih =>
    simp only [mulLinearAux, List.foldl_cons]
    have := ih s y (s * x + y) rfl
    rw [← this]
    congr 1
    rw [hs]; ring

/-- `convolve(a, [1, −r])` multiplies the polynomial by `(x − r)` -/
theorem polyval_mulLinear (x r : R) (a : List R) : polyval (mulLinear a r) x = polyval a x * (x - r) := by
  cases a with
  | nil => simp [mulLinear, polyval]
  | cons x0 xs =>
    unfold polyval mulLinear
    simp only [List.foldl_cons]
    have := polyval_mulLinearAux x r xs 0 x0 (0 * x + x0) rfl
    rw [← this]
    congr 1
    ring

/-- `np.polyval(np.poly(roots), x) = Π (x − r)` -/
theorem polyval_poly (x : R) (roots : List R) : polyval (poly roots) x = (roots.map (fun r => x - r)).prod := by
  have h : ∀ a : List R, polyval (roots.foldl mulLinear a) x = polyval a x * (roots.map (fun r => x - r)).prod := by
    induction roots with
    | nil => intro a; simp
    | cons r rs ih =>
      intro a
      rw [List.foldl_cons, ih, polyval_mulLinear, List.map_cons, List.prod_cons]
      ring
  unfold poly
  rw [h]
  simp [polyval]

theorem length_mulLinearAux (r prev : R) (xs : List R) : (mulLinearAux r prev xs).length = xs.length + 1 := by
  induction xs generalizing prev with
  | nil => rfl
  | cons y ys ih => simp [mulLinearAux, ih]

theorem length_poly (roots : List R) : (poly roots).length = roots.length + 1 := by
  have h : ∀ a : List R, a ≠ [] → (roots.foldl mulLinear a).length = a.length + roots.length := by
    induction roots with
    | nil => intro a _; simp
    | cons r rs ih =>
      intro a ha
      obtain ⟨x0, xs, rfl⟩ := List.exists_cons_of_ne_nil ha
      rw [List.foldl_cons, ih _ (by simp [mulLinear])]
      simp [mulLinear, length_mulLinearAux]
      omega
  unfold poly
  rw [h _ (by simp)]
  simp; omega

variable {S : Type} [CommRing S]

theorem map_mulLinearAux (f : R →+* S) (r prev : R) (xs : List R) :
    (mulLinearAux r prev xs).map f = mulLinearAux (f r) (f prev) (xs.map f) := by
  induction xs generalizing prev with
  | nil => simp [mulLinearAux]
  | cons y ys ih => simp [mulLinearAux, ih]

theorem map_mulLinear (f : R →+* S) (r : R) (a : List R) : (mulLinear a r).map f = mulLinear (a.map f) (f r) := by
  cases a with
  | nil => rfl
  | cons x0 xs => simp [mulLinear, map_mulLinearAux]

theorem map_poly (f : R →+* S) (roots : List R) : (poly roots).map f = poly (roots.map f) := by
  have h : ∀ a : List R, (roots.foldl mulLinear a).map f = (roots.map f).foldl mulLinear (a.map f) := by
    induction roots with
    | nil => intro a; rfl
    | cons r rs ih => intro a; rw [List.foldl_cons, ih, map_mulLinear]; rfl
  unfold poly
  rw [h]
  simp

theorem map_polyval (f : R →+* S) (x : R) (c : List R) : f (polyval c x) = polyval (c.map f) (f x) := by
  induction c using List.reverseRecOn with
  | nil => simp [polyval]
  | append_singleton cs c ih =>
    unfold polyval at ih ⊢
    rw [List.map_append, List.foldl_append, List.foldl_append]
    simp [ih]

end Ring

/-! ## the polynomial of a coefficient list; realness -/

open Polynomial in
/-- the polynomial with the coefficient list `l` (highest power first) -/
def listPoly (l : List ℂ) : ℂ[X] := polyval (l.map Polynomial.C) Polynomial.X

open Polynomial in
theorem listPoly_append (l : List ℂ) (c : ℂ) : listPoly (l ++ [c]) = listPoly l * X + C c := by
  unfold listPoly polyval
  rw [List.map_append, List.foldl_append]
  rfl

open Polynomial in
theorem coeff_listPoly (l : List ℂ) (i : ℕ) (hi : i < l.length) :
    (listPoly l).coeff (l.length - 1 - i) = l.getD i 0 := by
  induction l using List.reverseRecOn with
  | nil => simp at hi
  | append_singleton cs c ih =>
    rw [listPoly_append, List.length_append, List.length_singleton]
    by_cases h : i < cs.length
    · have e : cs.length + 1 - 1 - i = (cs.length - 1 - i) + 1 := by omega
      rw [e, coeff_add, coeff_mul_X, coeff_C_succ, add_zero, ih h, List.getD_append _ _ _ _ h]
    · have e : i = cs.length := by simp at hi; omega
      subst e
      rw [show cs.length + 1 - 1 - cs.length = 0 by omega, coeff_add, mul_coeff_zero, coeff_X_zero, mul_zero, zero_add,
        coeff_C_zero, List.getD_append_right _ _ _ _ le_rfl]
      simp

open Polynomial in
theorem listPoly_poly (roots : List ℂ) : listPoly (poly roots) = (roots.map (fun r => X - C r)).prod := by
  unfold listPoly
  rw [map_poly (C : ℂ →+* ℂ[X]), polyval_poly, List.map_map]
  rfl

open Polynomial in
/-- if the monic polynomial with the given roots is invariant under conjugation of the roots, `np.poly(roots)` has real
coefficients (this is the situation in which NumPy returns the real part) -/
theorem poly_real (roots : List ℂ)
    (h : ((roots.map (starRingEnd ℂ)).map (fun r => X - C r)).prod = (roots.map (fun r => X - C r)).prod) :
    ∀ c ∈ poly roots, c.im = 0 := by
  intro c hc
  obtain ⟨i, hi, rfl⟩ := List.getElem_of_mem hc
  have h1 : (listPoly (poly roots)).map (starRingEnd ℂ) = listPoly (poly roots) := by
    rw [listPoly_poly, Polynomial.map_list_prod, List.map_map, ← h, List.map_map]
    congr 1
    apply List.map_congr_left
    intro r _
    simp
  have h2 := congrArg (fun P => Polynomial.coeff P ((poly roots).length - 1 - i)) h1
  simp only [Polynomial.coeff_map] at h2
  rw [coeff_listPoly _ i hi, List.getD_eq_getElem _ _ hi] at h2
  exact Complex.conj_eq_iff_im.mp h2

/-! ## `Σ c_k z^{−k}` against `polyval` -/

/-- `Σ_k c_k w^k` for complex coefficients -/
def npsC (l : List ℂ) (w : ℂ) : ℂ := l.foldr (fun c acc => c + w * acc) 0

theorem polyval_npsC (l : List ℂ) (x : ℂ) (hx : x ≠ 0) : polyval l x * x = x ^ l.length * npsC l x⁻¹ := by
  induction l with
  | nil => simp [polyval, npsC]
  | cons c0 cs ih =>
    rw [polyval_cons, add_mul, ih, List.length_cons]
    have e : npsC (c0 :: cs) x⁻¹ = c0 + x⁻¹ * npsC cs x⁻¹ := rfl
    rw [e]
    generalize npsC cs x⁻¹ = N
    field_simp
    ring

theorem negPowSum_map_re (l : List ℂ) (k : ℝ) (hl : ∀ c ∈ l, c.im = 0) (w : ℂ) :
    negPowSum (l.map (fun c => k * CxLike.re c)) w = (k : ℂ) * npsC l w := by
  induction l with
  | nil => simp [negPowSum, npsC]
  | cons c0 cs ih =>
    have h0 : ((c0.re : ℝ) : ℂ) = c0 := ofReal_re_of_im_eq_zero c0 (hl c0 (by simp))
    rw [List.map_cons, negPowSum_cons, ih (fun c hc => hl c (by simp [hc]))]
    simp only [npsC, List.foldr_cons, cxlike_re]
    push_cast
    rw [h0]
    ring

/-- **`zpk2tf`**: when the zero and pole polynomials have real coefficients and there are as many zeros as poles, the transfer
function of the coefficient lists `(b, a) = (k·poly(z), poly(p))` is `k·Π(ζ − z_j)/Π(ζ − p_j)` -/
theorem tfun_zpk2tf (s : Zpk ℝ ℂ) (hlen : s.z.length = s.p.length)
    (hz : ∀ c ∈ poly s.z, c.im = 0) (hp : ∀ c ∈ poly s.p, c.im = 0) (ζ : ℂ) (hζ : ζ ≠ 0) :
    tfun (zpk2tf s).1 (zpk2tf s).2 ζ = evalZpk s ζ := by
  unfold tfun zpk2tf
  simp only []
  have ha : (poly s.p).map (fun c => (CxLike.re c : ℝ)) = (poly s.p).map (fun c => (1 : ℝ) * CxLike.re c) := by
    apply List.map_congr_left; intro c _; simp
  rw [ha, negPowSum_map_re _ _ hz, negPowSum_map_re _ _ hp, evalZpk_eq, ← polyval_poly, ← polyval_poly]
  have e1 := polyval_npsC (poly s.z) ζ hζ
  have e2 := polyval_npsC (poly s.p) ζ hζ
  rw [length_poly] at e1 e2
  have hpow : ζ ^ (s.p.length + 1) ≠ 0 := pow_ne_zero _ hζ
  have q1 : npsC (poly s.z) ζ⁻¹ = polyval (poly s.z) ζ * ζ / ζ ^ (s.p.length + 1) := by
    rw [e1, hlen]; field_simp
  have q2 : npsC (poly s.p) ζ⁻¹ = polyval (poly s.p) ζ * ζ / ζ ^ (s.p.length + 1) := by
    rw [e2]; field_simp
  rw [q1, q2]
  push_cast
  by_cases hP : polyval (poly s.p) ζ = 0
  · simp [hP]
  · field_simp

end EqsigVerif.Butter
