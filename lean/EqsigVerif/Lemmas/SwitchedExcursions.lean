import EqsigVerif.Lemmas.Switched

/-! # Lemmas for C12.e (excursions ↔ groups of the switched-peak loop) -/
namespace EqsigVerif.Model.Switched
open EqsigVerif

/-! ## signs -/

theorem pos_mul_trans {a b c : ℚ} (h1 : 0 < a * b) (h2 : 0 < b * c) : 0 < a * c := by
  by_contra hc
  have hc := not_lt.1 hc
  have h3 : 0 < (a * b) * (b * c) := mul_pos h1 h2
  have h4 : (a * b) * (b * c) = b ^ 2 * (a * c) := by ring
  have h5 : 0 ≤ b ^ 2 := by positivity
  rw [h4] at h3
  nlinarith

theorem pos_mul_comm {a b : ℚ} (h : 0 < a * b) : 0 < b * a := by rwa [mul_comm]

theorem ne_zero_of_pos_mul_left {a b : ℚ} (h : 0 < a * b) : a ≠ 0 := by
  rintro rfl; simp at h

theorem ne_zero_of_pos_mul_right {a b : ℚ} (h : 0 < a * b) : b ≠ 0 := by
  rintro rfl; simp at h

/-! ## same excursion -/

/-- `i` and `j` lie in the same excursion: every sample between them (inclusive) has the strict sign of `v[i]` -/
def SameExc (v : List ℚ) (i j : ℕ) : Prop :=
  ∀ t, min i j ≤ t → t ≤ max i j → 0 < v.getD t 0 * v.getD i 0

theorem SameExc.refl {v : List ℚ} {i : ℕ} (h : v.getD i 0 ≠ 0) : SameExc v i i := by
  intro t h1 h2
  have : t = i := by omega
  subst this
  exact mul_self_pos.2 h

theorem SameExc.ne_zero {v : List ℚ} {i j : ℕ} (h : SameExc v i j) : v.getD i 0 ≠ 0 :=
  ne_zero_of_pos_mul_right (h i (by omega) (by omega))

theorem SameExc.right {v : List ℚ} {i j : ℕ} (h : SameExc v i j) : 0 < v.getD j 0 * v.getD i 0 :=
  h j (by omega) (by omega)

theorem SameExc.symm {v : List ℚ} {i j : ℕ} (h : SameExc v i j) : SameExc v j i := by
  intro t h1 h2
  have h3 := h t (by omega) (by omega)
  exact pos_mul_trans h3 (pos_mul_comm h.right)

theorem SameExc.trans {v : List ℚ} {i j k : ℕ} (h1 : SameExc v i j) (h2 : SameExc v j k) : SameExc v i k := by
  intro t ht1 ht2
  by_cases hc : min i j ≤ t ∧ t ≤ max i j
  · exact h1 t hc.1 hc.2
  · have h3 := h2 t (by omega) (by omega)
    exact pos_mul_trans h3 h1.right

theorem SameExc.of_interval {v : List ℚ} {a b i j : ℕ} {c : ℚ}
    (h : ∀ t, a ≤ t → t ≤ b → 0 < v.getD t 0 * c) (hi1 : a ≤ i) (hi2 : i ≤ b) (hj1 : a ≤ j) (hj2 : j ≤ b) :
    SameExc v i j := by
  intro t h1 h2
  have h3 := h t (by omega) (by omega)
  have h4 := h i hi1 hi2
  have h5 : 0 < c * c := mul_self_pos.2 (ne_zero_of_pos_mul_right h4)
  exact pos_mul_trans h3 (pos_mul_comm (pos_mul_trans h4 h5))

/-! ## locating a sample among the peaks -/

theorem locate (P : List ℕ) (hP : P ≠ []) (t : ℕ) (h0 : P.getD 0 0 ≤ t) :
    (∃ k, k + 1 < P.length ∧ P.getD k 0 ≤ t ∧ t < P.getD (k+1) 0) ∨ P.getD (P.length - 1) 0 ≤ t := by
  induction P with
  | nil => exact absurd rfl hP
  | cons a rest ih =>
    cases rest with
    | nil => right; simpa using h0
    | cons b r =>
      by_cases hb : t < b
      · left; exact ⟨0, by simp, by simpa using h0, by simpa using hb⟩
      · rcases ih (by simp) (by simpa using not_lt.1 hb) with ⟨k, hk, h1, h2⟩ | h
        · left
          refine ⟨k+1, by simpa using hk, ?_, ?_⟩
          · simpa using h1
          · simpa using h2
        · right
          simpa using h


/-! ## the facts about `peaks` taken from C11 -/

/-- conclusion of C11.a (`EqsigVerif.Props.C11.peaks_shape`) -/
def PeaksShape (v : List ℚ) : Prop :=
  (Peaks.peaks v).Pairwise (· < ·) ∧ (Peaks.peaks v).head? = some 0 ∧
    ∃ k, (Peaks.peaks v).getLast? = some k ∧ 0 < k ∧ k < v.length ∧ v.getD (k-1) 0 ≠ v.getD k 0 ∧
      ∀ j, k ≤ j → j < v.length → v.getD j 0 = v.getD k 0

/-- first conjunct of the conclusion of C11.b (`EqsigVerif.Props.C11.peaks_segments`) -/
def PeaksSegments (v : List ℚ) : Prop :=
  ∀ k, k + 1 < (Peaks.peaks v).length →
    (v.getD ((Peaks.peaks v).getD k 0) 0 < v.getD ((Peaks.peaks v).getD (k+1) 0) 0 ∧
      ∀ s t, (Peaks.peaks v).getD k 0 ≤ s → s ≤ t → t ≤ (Peaks.peaks v).getD (k+1) 0 → v.getD s 0 ≤ v.getD t 0) ∨
    (v.getD ((Peaks.peaks v).getD (k+1) 0) 0 < v.getD ((Peaks.peaks v).getD k 0) 0 ∧
      ∀ s t, (Peaks.peaks v).getD k 0 ≤ s → s ≤ t → t ≤ (Peaks.peaks v).getD (k+1) 0 → v.getD t 0 ≤ v.getD s 0)

theorem getD_mem {P : List ℕ} {k : ℕ} (hk : k < P.length) : P.getD k 0 ∈ P := by
  rw [getD_eq_getElem' _ _ _ hk]; exact List.getElem_mem hk

theorem PeaksShape.getD_zero {v : List ℚ} (h : PeaksShape v) : (Peaks.peaks v).getD 0 0 = 0 := by
  obtain ⟨ys, hys⟩ := List.head?_eq_some_iff.1 h.2.1
  rw [hys]; rfl

/-- every non-zero sample has a peak in its excursion that dominates it in `|·|` -/
theorem sample_to_peak (v : List ℚ) (hshape : PeaksShape v) (hseg : PeaksSegments v) (i : ℕ)
    (hi : i < v.length) (hne : v.getD i 0 ≠ 0) :
    ∃ p ∈ Peaks.peaks v, SameExc v i p ∧ |v.getD i 0| ≤ |v.getD p 0| := by
  obtain ⟨K, hK, _, hKlen, _, hconst⟩ := hshape.2.2
  have hKmem : K ∈ Peaks.peaks v := List.mem_of_getLast? hK
  have hKget : (Peaks.peaks v).getD ((Peaks.peaks v).length - 1) 0 = K := by
    rw [List.getLast?_eq_getElem?] at hK
    simp [List.getD, hK]
  rcases locate (Peaks.peaks v) (peaks_ne_nil v) i (by rw [hshape.getD_zero]; omega) with ⟨k, hk, h1, h2⟩ | h
  · have hmk : (Peaks.peaks v).getD k 0 ∈ Peaks.peaks v := getD_mem (by omega)
    have hmk1 : (Peaks.peaks v).getD (k+1) 0 ∈ Peaks.peaks v := getD_mem hk
    rcases lt_or_gt_of_ne hne with hneg | hpos
    · -- negative sample
      rcases hseg k hk with ⟨_, hmono⟩ | ⟨_, hanti⟩
      · refine ⟨_, hmk, ?_, ?_⟩
        · intro t ht1 ht2
          have : v.getD t 0 ≤ v.getD i 0 := hmono t i (by omega) (by omega) (by omega)
          exact mul_pos_of_neg_of_neg (lt_of_le_of_lt this hneg) hneg
        · have : v.getD ((Peaks.peaks v).getD k 0) 0 ≤ v.getD i 0 := hmono _ i (le_refl _) h1 (by omega)
          rw [abs_of_neg hneg, abs_of_neg (lt_of_le_of_lt this hneg)]
          linarith
      · refine ⟨_, hmk1, ?_, ?_⟩
        · intro t ht1 ht2
          have : v.getD t 0 ≤ v.getD i 0 := hanti i t h1 (by omega) (by omega)
          exact mul_pos_of_neg_of_neg (lt_of_le_of_lt this hneg) hneg
        · have : v.getD ((Peaks.peaks v).getD (k+1) 0) 0 ≤ v.getD i 0 := hanti i _ h1 (by omega) (le_refl _)
          rw [abs_of_neg hneg, abs_of_neg (lt_of_le_of_lt this hneg)]
          linarith
    · -- positive sample
      rcases hseg k hk with ⟨_, hmono⟩ | ⟨_, hanti⟩
      · refine ⟨_, hmk1, ?_, ?_⟩
        · intro t ht1 ht2
          have : v.getD i 0 ≤ v.getD t 0 := hmono i t h1 (by omega) (by omega)
          exact mul_pos (lt_of_lt_of_le hpos this) hpos
        · have : v.getD i 0 ≤ v.getD ((Peaks.peaks v).getD (k+1) 0) 0 := hmono i _ h1 (by omega) (le_refl _)
          rw [abs_of_pos hpos, abs_of_pos (lt_of_lt_of_le hpos this)]
          exact this
      · refine ⟨_, hmk, ?_, ?_⟩
        · intro t ht1 ht2
          have : v.getD i 0 ≤ v.getD t 0 := hanti t i (by omega) (by omega) (by omega)
          exact mul_pos (lt_of_lt_of_le hpos this) hpos
        · have : v.getD i 0 ≤ v.getD ((Peaks.peaks v).getD k 0) 0 := hanti _ i (le_refl _) h1 (by omega)
          rw [abs_of_pos hpos, abs_of_pos (lt_of_lt_of_le hpos this)]
          exact this
  · rw [hKget] at h
    refine ⟨K, hKmem, ?_, ?_⟩
    · intro t ht1 ht2
      rw [hconst t (by omega) (by omega), ← hconst i h hi]
      exact mul_self_pos.2 hne
    · rw [hconst i h hi]


/-! ## order structure of the groups -/

theorem pairwise_mem_cases {α : Type} {R : α → α → Prop} {l : List α} (h : l.Pairwise R) {a b : α}
    (ha : a ∈ l) (hb : b ∈ l) : a = b ∨ R a b ∨ R b a := by
  induction l with
  | nil => simp at ha
  | cons x xs ih =>
    have hp := List.pairwise_cons.1 h
    rcases List.mem_cons.1 ha with ha1 | ha1
    · rcases List.mem_cons.1 hb with hb1 | hb1
      · exact Or.inl (ha1.trans hb1.symm)
      · exact Or.inr (Or.inl (ha1 ▸ hp.1 b hb1))
    · rcases List.mem_cons.1 hb with hb1 | hb1
      · exact Or.inr (Or.inr (hb1 ▸ hp.1 a ha1))
      · exact ih hp.2 ha1 hb1

/-- members of a group / of successive groups carry ascending indices -/
theorem switchedGroups_ordered (v : List ℚ) (tol : ℚ) (hpw : (Peaks.peaks v).Pairwise (· < ·)) :
    (∀ g ∈ switchedGroups v tol, g.Pairwise (fun e e' => e.1 < e'.1)) ∧
    (switchedGroups v tol).Pairwise (fun g g' => ∀ e ∈ g, ∀ e' ∈ g', e.1 < e'.1) := by
  have h : (peakItems v).Pairwise (fun e e' => e.1 < e'.1) := by
    unfold peakItems
    rw [List.pairwise_map]
    exact hpw
  rw [← switchedGroups_flatten v tol, List.pairwise_flatten] at h
  exact h

/-- between a member of a group and a member of a later group there is a member `x` of the next group
(index in `(e.1, e'.1]`) whose value does not share the strict sign of `e` -/
theorem groups_separated (Q : ℕ × ℚ → Prop) (gs : List (List (ℕ × ℚ)))
    (hne : ∀ g ∈ gs, g ≠ [])
    (hQ : ∀ g ∈ gs, ∀ e ∈ g, Q e)
    (hin : ∀ g ∈ gs, g.Pairwise (fun e e' => e.1 < e'.1))
    (hord : gs.Pairwise (fun g g' => ∀ e ∈ g, ∀ e' ∈ g', e.1 < e'.1))
    (hch : gs.IsChain (fun g g' => ∀ e ∈ g, ∀ e' ∈ g', e.2 * e'.2 ≤ 0)) :
    gs.Pairwise (fun g g' => ∀ e ∈ g, ∀ e' ∈ g', ∃ x, Q x ∧ e.1 < x.1 ∧ x.1 ≤ e'.1 ∧ e.2 * x.2 ≤ 0) := by
  induction gs with
  | nil => simp
  | cons g rest ih =>
    have hp := List.pairwise_cons.1 hord
    refine List.pairwise_cons.2 ⟨?_, ?_⟩
    · cases rest with
      | nil => simp
      | cons g2 rest' =>
        rw [List.isChain_cons_cons] at hch
        have hp2 := List.pairwise_cons.1 hp.2
        intro g' hg' e he e' he'
        obtain ⟨x, xs, hx⟩ := List.exists_cons_of_ne_nil (hne g2 (by simp))
        have hxg2 : x ∈ g2 := by rw [hx]; simp
        refine ⟨x, hQ g2 (by simp) x hxg2, hp.1 g2 (by simp) e he x hxg2, ?_, hch.1 e he x hxg2⟩
        rcases List.mem_cons.1 hg' with rfl | hg'
        · have hin2 := hin g' (by simp)
          rw [hx] at hin2 he'
          rcases List.mem_cons.1 he' with rfl | he'
          · exact le_refl _
          · exact le_of_lt ((List.pairwise_cons.1 hin2).1 e' he')
        · exact le_of_lt (hp2.1 g' hg' x hxg2 e' he')
    · refine ih (fun g' hg' => hne g' (by simp [hg'])) (fun g' hg' => hQ g' (by simp [hg']))
        (fun g' hg' => hin g' (by simp [hg'])) hp.2 ?_
      cases rest with
      | nil => simp
      | cons g2 rest' => rw [List.isChain_cons_cons] at hch; exact hch.2

/-- two peaks of the same excursion lie in the same group (`tol = 0`) -/
theorem same_group_of_sameExc (v : List ℚ) (hpw : (Peaks.peaks v).Pairwise (· < ·))
    {g g' : List (ℕ × ℚ)} (hg : g ∈ switchedGroups v 0) (hg' : g' ∈ switchedGroups v 0)
    {e e' : ℕ × ℚ} (he : e ∈ g) (he' : e' ∈ g') (hs : SameExc v e.1 e'.1) : g = g' := by
  have hsep := groups_separated (fun x => x.2 = v.getD x.1 0) (switchedGroups v 0)
    (groups_ne_nil _ _) (switchedGroups_value v 0) (switchedGroups_ordered v 0 hpw).1
    (switchedGroups_ordered v 0 hpw).2 (groups_chain_members _)
  have hev := switchedGroups_value v 0 g hg e he
  have hev' := switchedGroups_value v 0 g' hg' e' he'
  rcases pairwise_mem_cases hsep hg hg' with h | h | h
  · exact h
  · exfalso
    obtain ⟨x, hx, h1, h2, h3⟩ := h e he e' he'
    have := hs x.1 (by omega) (by omega)
    rw [hev, hx] at h3
    linarith [mul_comm (v.getD x.1 0) (v.getD e.1 0)]
  · exfalso
    obtain ⟨x, hx, h1, h2, h3⟩ := h e' he' e he
    have h4 := hs x.1 (by omega) (by omega)
    have h5 : 0 < v.getD e'.1 0 * v.getD x.1 0 :=
      pos_mul_trans hs.right (pos_mul_comm h4)
    rw [hev', hx] at h3
    linarith


/-! ## a group covers an interval of one strict sign -/

theorem sorted_getD_lt {P : List ℕ} (h : P.Pairwise (· < ·)) {a b : ℕ} (hb : b < P.length) (hab : a < b) :
    P.getD a 0 < P.getD b 0 := by
  rw [getD_eq_getElem' _ _ _ (by omega : a < P.length), getD_eq_getElem' _ _ _ hb]
  exact (List.pairwise_iff_getElem.1 h) a b (by omega) hb hab

theorem sorted_getD_le {P : List ℕ} (h : P.Pairwise (· < ·)) {a b : ℕ} (hb : b < P.length) (hab : a ≤ b) :
    P.getD a 0 ≤ P.getD b 0 := by
  rcases Nat.eq_or_lt_of_le hab with rfl | hlt
  · exact le_refl _
  · exact le_of_lt (sorted_getD_lt h hb hlt)

theorem sorted_idx_lt {P : List ℕ} (h : P.Pairwise (· < ·)) {a b : ℕ} (ha : a < P.length)
    (hlt : P.getD a 0 < P.getD b 0) : a < b := by
  by_contra hc
  have := sorted_getD_le h ha (not_lt.1 hc)
  omega

theorem exists_getD_of_mem {P : List ℕ} {q : ℕ} (hq : q ∈ P) : ∃ a, a < P.length ∧ P.getD a 0 = q := by
  obtain ⟨a, ha, rfl⟩ := List.getElem_of_mem hq
  exact ⟨a, ha, getD_eq_getElem' _ _ _ ha⟩

theorem mem_group_peak (v : List ℚ) (tol : ℚ) {g : List (ℕ × ℚ)} (hg : g ∈ switchedGroups v tol)
    {e : ℕ × ℚ} (he : e ∈ g) : e.1 ∈ Peaks.peaks v ∧ e.2 = v.getD e.1 0 := by
  have : e ∈ peakItems v := by
    rw [← switchedGroups_flatten v tol]; exact List.mem_flatten.2 ⟨g, hg, he⟩
  obtain ⟨p, hp, rfl⟩ := List.mem_map.1 this
  exact ⟨hp, rfl⟩

theorem group_convex (v : List ℚ) (hpw : (Peaks.peaks v).Pairwise (· < ·)) (tol : ℚ)
    {g : List (ℕ × ℚ)} (hg : g ∈ switchedGroups v tol) {e1 e2 : ℕ × ℚ} (h1 : e1 ∈ g) (h2 : e2 ∈ g)
    {q : ℕ} (hq : q ∈ Peaks.peaks v) (hq1 : e1.1 ≤ q) (hq2 : q ≤ e2.1) : (q, v.getD q 0) ∈ g := by
  have hmem : (q, v.getD q 0) ∈ peakItems v := List.mem_map.2 ⟨q, hq, rfl⟩
  rw [← switchedGroups_flatten v tol] at hmem
  obtain ⟨g1, hg1, hqg1⟩ := List.mem_flatten.1 hmem
  rcases pairwise_mem_cases (switchedGroups_ordered v tol hpw).2 hg1 hg with h | h | h
  · exact h ▸ hqg1
  · have := h _ hqg1 e1 h1
    simp only at this; omega
  · have := h e2 h2 _ hqg1
    simp only at this; omega

theorem seg_same_sign (v : List ℚ) (hseg : PeaksSegments v) (k : ℕ) (hk : k + 1 < (Peaks.peaks v).length)
    (hs : 0 < v.getD ((Peaks.peaks v).getD k 0) 0 * v.getD ((Peaks.peaks v).getD (k+1) 0) 0)
    (t : ℕ) (ht1 : (Peaks.peaks v).getD k 0 ≤ t) (ht2 : t ≤ (Peaks.peaks v).getD (k+1) 0) :
    0 < v.getD t 0 * v.getD ((Peaks.peaks v).getD k 0) 0 := by
  rcases pos_and_pos_or_neg_and_neg_of_mul_pos hs with ⟨ha, hb⟩ | ⟨ha, hb⟩
  · rcases hseg k hk with ⟨_, hmono⟩ | ⟨_, hanti⟩
    · exact mul_pos (lt_of_lt_of_le ha (hmono _ t (le_refl _) ht1 ht2)) ha
    · exact mul_pos (lt_of_lt_of_le hb (hanti t _ ht1 ht2 (le_refl _))) ha
  · rcases hseg k hk with ⟨_, hmono⟩ | ⟨_, hanti⟩
    · exact mul_pos_of_neg_of_neg (lt_of_le_of_lt (hmono t _ ht1 ht2 (le_refl _)) hb) ha
    · exact mul_pos_of_neg_of_neg (lt_of_le_of_lt (hanti _ t (le_refl _) ht1 ht2) ha) ha

/-- all samples between two members of a sign-homogeneous group have the group's strict sign -/
theorem group_interval (v : List ℚ) (hshape : PeaksShape v) (hseg : PeaksSegments v)
    {g : List (ℕ × ℚ)} (hg : g ∈ switchedGroups v 0) (c : ℚ) (hc : ∀ e ∈ g, 0 < e.2 * c)
    {e1 e2 : ℕ × ℚ} (h1 : e1 ∈ g) (h2 : e2 ∈ g) (t : ℕ) (ht1 : e1.1 ≤ t) (ht2 : t ≤ e2.1) :
    0 < v.getD t 0 * c := by
  have hpw := hshape.1
  obtain ⟨hp1, hv1⟩ := mem_group_peak v 0 hg h1
  obtain ⟨hp2, hv2⟩ := mem_group_peak v 0 hg h2
  rcases Nat.eq_or_lt_of_le ht2 with rfl | hlt
  · rw [← hv2]; exact hc e2 h2
  · obtain ⟨a, ha, hae⟩ := exists_getD_of_mem hp1
    obtain ⟨b, hb, hbe⟩ := exists_getD_of_mem hp2
    rcases locate (Peaks.peaks v) (peaks_ne_nil v) t (by rw [hshape.getD_zero]; omega) with ⟨k, hk, hk1, hk2⟩ | h
    · have hak : a < k + 1 := sorted_idx_lt hpw ha (by omega)
      have hkb : k < b := sorted_idx_lt hpw (by omega) (by omega)
      have hle1 : e1.1 ≤ (Peaks.peaks v).getD k 0 := by
        rw [← hae]; exact sorted_getD_le hpw (by omega) (by omega)
      have hle2 : (Peaks.peaks v).getD (k+1) 0 ≤ e2.1 := by
        rw [← hbe]; exact sorted_getD_le hpw hb (by omega)
      have hlt' : (Peaks.peaks v).getD k 0 < (Peaks.peaks v).getD (k+1) 0 := sorted_getD_lt hpw hk (by omega)
      have hm1 := group_convex v hpw 0 hg h1 h2 (getD_mem (by omega : k < (Peaks.peaks v).length)) hle1 (by omega)
      have hm2 := group_convex v hpw 0 hg h1 h2 (getD_mem hk) (by omega) hle2
      have hs1 := hc _ hm1
      have hs2 := hc _ hm2
      simp only at hs1 hs2
      have hs := pos_mul_trans hs1 (pos_mul_comm hs2)
      exact pos_mul_trans (seg_same_sign v hseg k hk hs t hk1 (by omega)) hs1
    · exfalso
      have := sorted_getD_le hpw (by omega : (Peaks.peaks v).length - 1 < (Peaks.peaks v).length)
        (by omega : b ≤ (Peaks.peaks v).length - 1)
      omega


/-! ## C12.e -/

/-- the excursion of a non-zero sample `i` contains exactly one reported index, at its largest `|value|` -/
theorem excursion_reported (v : List ℚ) (hshape : PeaksShape v) (hseg : PeaksSegments v) (i : ℕ)
    (hi : i < v.length) (hne : v.getD i 0 ≠ 0) :
    ∃ r ∈ switchedPeaks v 0, SameExc v i r ∧
      (∀ j, j < v.length → SameExc v i j → |v.getD j 0| ≤ |v.getD r 0|) ∧
      ∀ r' ∈ switchedPeaks v 0, SameExc v i r' → r' = r := by
  have hpw := hshape.1
  obtain ⟨p, hp, hip, hle⟩ := sample_to_peak v hshape hseg i hi hne
  have hmem : (p, v.getD p 0) ∈ peakItems v := List.mem_map.2 ⟨p, hp, rfl⟩
  rw [← switchedGroups_flatten v 0] at hmem
  obtain ⟨g, hg, hpg⟩ := List.mem_flatten.1 hmem
  obtain ⟨l, hl⟩ := groups_ok _ g hg
  have hvp : v.getD p 0 ≠ 0 := hip.symm.ne_zero
  have hgm := hl.mem
  have hl0 : l ≠ 0 := by
    rcases hgm _ hpg with h | h
    · simp only at h; rw [← h]; exact hvp
    · exact ne_zero_of_pos_mul_right h
  have hc : ∀ e ∈ g, 0 < e.2 * l := by
    intro e he
    rcases hgm e he with h | h
    · rw [h]; exact mul_self_pos.2 hl0
    · exact h
  obtain ⟨er, her, hr1, hr2⟩ := (report_spec g (groups_ne_nil _ _ g hg)).mem
  have hver := (mem_group_peak v 0 hg her).2
  have hrmem : report g ∈ switchedPeaks v 0 := by
    rw [switchedPeaks_eq]; exact List.mem_map.2 ⟨g, hg, rfl⟩
  have hpr : SameExc v p (report g) := by
    refine SameExc.of_interval (a := min p (report g)) (b := max p (report g)) (c := l) ?_
      (by omega) (by omega) (by omega) (by omega)
    intro t ht1 ht2
    by_cases hle' : p ≤ report g
    · exact group_interval v hshape hseg hg l hc hpg her t (by simp only; omega) (by rw [hr1]; omega)
    · exact group_interval v hshape hseg hg l hc her hpg t (by rw [hr1]; omega) (by simp only; omega)
  refine ⟨report g, hrmem, hip.trans hpr, ?_, ?_⟩
  · intro j hj hij
    have hnej : v.getD j 0 ≠ 0 := ne_zero_of_pos_mul_left hij.right
    obtain ⟨pj, hpj, hjpj, hlej⟩ := sample_to_peak v hshape hseg j hj hnej
    have hs : SameExc v p pj := hip.symm.trans (hij.trans hjpj)
    have hmemj : (pj, v.getD pj 0) ∈ peakItems v := List.mem_map.2 ⟨pj, hpj, rfl⟩
    rw [← switchedGroups_flatten v 0] at hmemj
    obtain ⟨g', hg', hpjg'⟩ := List.mem_flatten.1 hmemj
    have hgg : g = g' := same_group_of_sameExc v hpw hg hg' hpg hpjg' hs
    subst hgg
    have := hr2 _ hpjg'
    rw [hver, hr1] at this
    exact le_trans hlej this
  · intro r' hr' hir'
    rw [switchedPeaks_eq] at hr'
    obtain ⟨g', hg', rfl⟩ := List.mem_map.1 hr'
    obtain ⟨er', her', hr1', _⟩ := (report_spec g' (groups_ne_nil _ _ g' hg')).mem
    have hs : SameExc v p er'.1 := by rw [hr1']; exact hip.symm.trans hir'
    have hgg : g = g' := same_group_of_sameExc v hpw hg hg' hpg her' hs
    rw [hgg]


/-! ## constant series (outside C11.a/b) -/

theorem runsAux_replicate (c : ℚ) (i n : ℕ) : Peaks.runsAux c i (List.replicate n c) = [] := by
  induction n generalizing i with
  | zero => rfl
  | succ n ih => simp [List.replicate_succ, Peaks.runsAux, ih]

theorem peaks_replicate (c : ℚ) (n : ℕ) : Peaks.peaks (List.replicate (n+1) c) = [0, 0] := by
  simp [Peaks.peaks, List.replicate_succ, Peaks.runs, runsAux_replicate, Peaks.peaksCleaned, Peaks.turnIdx]

/-- a constant series: one excursion (the whole series) reported at index 0, or the zero series reporting `[0, 0]` -/
theorem switchedPeaks_replicate (c : ℚ) (n : ℕ) :
    switchedPeaks (List.replicate (n+1) c) 0 = if c = 0 then [0, 0] else [0] := by
  have hitems : peakItems (List.replicate (n+1) c) = [(0, c), (0, c)] := by
    unfold peakItems
    rw [peaks_replicate]
    simp [List.replicate_succ]
  rw [switchedPeaks_eq]
  unfold switchedGroups
  rw [hitems]
  simp only [groups, groupsAux, id, zero_mul, add_zero]
  have hr : ∀ g : List (ℕ × ℚ), g ≠ [] → (∀ e ∈ g, e.1 = 0) → report g = 0 := by
    intro g hg h0
    obtain ⟨e, he, h1⟩ := List.mem_map.1 (report_mem g hg)
    rw [← h1]; exact h0 e he
  by_cases hc : c = 0
  · subst hc
    simp only [mul_zero, le_refl, if_true, List.map_cons, List.map_nil]
    rw [hr [(0, 0)] (by simp) (by simp)]
  · have : ¬ c * c ≤ 0 := not_le.2 (mul_self_pos.2 hc)
    simp only [this, if_false, hc, List.map_cons, List.map_nil, List.cons_append, List.nil_append]
    rw [hr [(0, c), (0, c)] (by simp) (by simp)]

end EqsigVerif.Model.Switched
