import EqsigVerif.Lemmas.Fns
import EqsigVerif.Spec.FnsDir
/-!
# Lemmas for the `dir` rule of the step fit: which entry `np.argmin` selects after the rule
-/
set_option linter.unusedSectionVars false
set_option linter.unusedVariables false
namespace EqsigVerif.Lemmas.FnsDir
open EqsigVerif EqsigVerif.Np EqsigVerif.Wire EqsigVerif.Model.Fns EqsigVerif.Spec.Fns EqsigVerif.Lemmas.Fns
open EqsigVerif.Spec.FnsDir

theorem absTerm_nonneg (v m : ℚ) : 0 ≤ (if v - m < 0 then -(v - m) else v - m) := by
  split_ifs with h <;> linarith

theorem sumAbsDev_nonneg (l : List ℚ) (m : ℚ) (p : Nat) : 0 ≤ sumAbsDev l m p := by
  unfold sumAbsDev
  apply List.sum_nonneg
  intro x hx
  obtain ⟨v, _, rfl⟩ := List.mem_map.mp hx
  exact pow_nonneg (absTerm_nonneg v m) p

theorem sumAbsDev_eq_zero (l : List ℚ) (m : ℚ) (p : Nat) (h : sumAbsDev l m p = 0) : ∀ v ∈ l, v = m := by
  induction l with
  | nil => intro v hv; cases hv
  | cons a t ih =>
    have hcons : sumAbsDev (a :: t) m p
        = (if a - m < 0 then -(a - m) else a - m) ^ p + sumAbsDev t m p := by
      simp [sumAbsDev]
    rw [hcons] at h
    have h1 := pow_nonneg (absTerm_nonneg a m) p
    have h2 := sumAbsDev_nonneg t m p
    have e1 : (if a - m < 0 then -(a - m) else a - m) ^ p = 0 := by linarith
    have e2 : sumAbsDev t m p = 0 := by linarith
    have e3 : (if a - m < 0 then -(a - m) else a - m) = 0 := (pow_eq_zero_iff'.mp e1).1
    intro v hv
    rcases List.mem_cons.mp hv with rfl | hv
    · split_ifs at e3 with hc <;> linarith
    · exact ih e2 v hv

theorem mean_const (l : List ℚ) (c : ℚ) (hne : l ≠ []) (h : ∀ v ∈ l, v = c) : mean l = c := by
  have hl : l = List.replicate l.length c := List.eq_replicate_iff.mpr ⟨rfl, h⟩
  have hn : (l.length : ℚ) ≠ 0 := by
    have := List.length_pos_iff.mpr hne
    exact_mod_cast this.ne'
  unfold mean
  rw [hl, List.sum_replicate, List.length_replicate, nsmul_eq_mul]
  field_simp

theorem stepFitErr_nonneg (v : List ℚ) (p k : Nat) : 0 ≤ stepFitErr v p k := by
  unfold stepFitErr
  have := sumAbsDev_nonneg (v.take (k+1)) (mean (v.take (k+1))) p
  have := sumAbsDev_nonneg (v.drop (k+1)) (mean (v.drop (k+1))) p
  linarith

theorem stepFitErr_last (v : List ℚ) (hne : v ≠ []) (p : Nat) :
    stepFitErr v p (v.length - 1) = sumAbsDev v (mean v) p := by
  have h1 : v.length - 1 + 1 = v.length := by
    have := List.length_pos_iff.mpr hne; omega
  unfold stepFitErr
  rw [h1, List.take_length, List.drop_length]
  simp [sumAbsDev]

/-- if the largest step-fit error is `≤ 0` the series is constant, and then no split is excluded -/
theorem no_excluded_of_max_nonpos (v : List ℚ) (hne : v ≠ []) (p : Nat) (M : ℚ)
    (hmax : ∀ e ∈ (List.range v.length).map (stepFitErr v p), e ≤ M) (hM : M ≤ 0)
    (d : Dir) (k : Nat) (hk : k < v.length) : ¬ DirExcluded d v k := by
  have hn := List.length_pos_iff.mpr hne
  have hlast : stepFitErr v p (v.length - 1) ≤ M :=
    hmax _ (List.mem_map.mpr ⟨v.length - 1, by simp; omega, rfl⟩)
  have h0 : sumAbsDev v (mean v) p = 0 := by
    have := stepFitErr_nonneg v p (v.length - 1)
    rw [stepFitErr_last v hne p] at this hlast
    linarith
  have hc := sumAbsDev_eq_zero v (mean v) p h0
  have ht : mean (v.take (k+1)) = mean v :=
    mean_const _ _ (List.ne_nil_of_length_pos (by rw [List.length_take]; omega))
      (fun x hx => hc x (List.mem_of_mem_take hx))
  have hd : mean (v.drop k) = mean v :=
    mean_const _ _ (List.ne_nil_of_length_pos (by rw [List.length_drop]; omega))
      (fun x hx => hc x (List.mem_of_mem_drop hx))
  unfold DirExcluded
  cases d
  · exact id
  · rw [ht, hd]; exact lt_irrefl _
  · rw [ht, hd]; exact lt_irrefl _

/-- the error array after the `dir` rule, in the specification vocabulary -/
theorem stepErr_dirExcluded (v : List ℚ) (hne : v ≠ []) (p : Nat) (d : Dir) :
    ∃ M, M ∈ (List.range v.length).map (stepFitErr v p) ∧
      (∀ e ∈ (List.range v.length).map (stepFitErr v p), e ≤ M) ∧
      stepErr v p d = .ok ((List.range v.length).map (fun k =>
        if DirExcluded d v k then M * 10 else stepFitErr v p k)) := by
  obtain ⟨M, hmem, hmax, hdown, hup⟩ := stepErr_dir v hne p
  refine ⟨M, hmem, hmax, ?_⟩
  cases d
  · rw [stepErr_none v hne p]; simp [DirExcluded]
  · rw [hup]; rfl
  · rw [hdown]; rfl

/-- **selection after the `dir` rule**: `np.argmin` of the modified error array is
* split `0` when every split is excluded (all entries are the same `10·M`),
* otherwise the FIRST minimiser of the step-fit error among the splits that are not excluded. -/
theorem dirSplit_spec (v : List ℚ) (hne : v ≠ []) (p : Nat) (d : Dir) :
    ∃ k, dirSplit v p d = .ok k ∧ k < v.length ∧
      ((∀ j, j < v.length → DirExcluded d v j) → k = 0) ∧
      ((∃ j, j < v.length ∧ ¬ DirExcluded d v j) →
        ¬ DirExcluded d v k ∧
        (∀ j, j < v.length → ¬ DirExcluded d v j → stepFitErr v p k ≤ stepFitErr v p j) ∧
        (∀ j, j < k → ¬ DirExcluded d v j → stepFitErr v p k < stepFitErr v p j)) := by
  obtain ⟨M, hmem, hmax, herr⟩ := stepErr_dirExcluded v hne p d
  have hn : v.length ≠ 0 := by simpa using hne
  set f : Nat → ℚ := fun k => if DirExcluded d v k then M * 10 else stepFitErr v p k with hf
  have hne' : (List.range v.length).map f ≠ [] := by simpa using hn
  obtain ⟨k, hk, hlt, hmin, hfirst⟩ := argmin_spec _ hne'
  have hk' : k < v.length := by simpa using hlt
  have hmin' : ∀ j, j < v.length → f k ≤ f j := by
    intro j hj; have := hmin j (by simpa using hj); simpa using this
  have hfirst' : ∀ j, j < k → f k < f j := by
    intro j hj; have := hfirst j (by simp; omega) hj; simpa using this
  refine ⟨k, ?_, hk', ?_, ?_⟩
  · unfold dirSplit; rw [herr]; simp only [hk]
  · intro hall
    by_contra hk0
    have h0 := hfirst' 0 (by omega)
    simp only [hf, hall 0 (by omega), hall k hk', if_true] at h0
    exact lt_irrefl _ h0
  · rintro ⟨j0, hj0, hex0⟩
    have hnk : ¬ DirExcluded d v k := by
      intro hexk
      have hMpos : 0 < M := by
        by_contra hM
        exact no_excluded_of_max_nonpos v hne p M hmax (not_lt.mp hM) d k hk' hexk
      have h1 := hmin' j0 hj0
      simp only [hf, hexk, hex0, if_true, if_false] at h1
      have h2 : stepFitErr v p j0 ≤ M := hmax _ (List.mem_map.mpr ⟨j0, by simpa using hj0, rfl⟩)
      linarith
    refine ⟨hnk, ?_, ?_⟩
    · intro j hj hexj
      have h1 := hmin' j hj
      simpa only [hf, hnk, hexj, if_false] using h1
    · intro j hj hexj
      have h1 := hfirst' j hj
      simpa only [hf, hnk, hexj, if_false] using h1

/-- the first and the last split: both comparisons are against the overall mean -/
theorem dirExcluded_first (v : List ℚ) (hne : v ≠ []) :
    (DirExcluded .down v 0 ↔ v.head hne < mean v) ∧ (DirExcluded .up v 0 ↔ v.head hne > mean v) := by
  cases v with
  | nil => exact absurd rfl hne
  | cons a t => simp [DirExcluded, mean]

theorem dirExcluded_last (v : List ℚ) (hne : v ≠ []) :
    (DirExcluded .down v (v.length - 1) ↔ mean v < v.getLast hne) ∧
    (DirExcluded .up v (v.length - 1) ↔ mean v > v.getLast hne) := by
  have hn := List.length_pos_iff.mpr hne
  have h1 : v.length - 1 + 1 = v.length := by omega
  have hd : v.drop (v.length - 1) = [v.getLast hne] := by
    rw [List.drop_length_sub_one hne]
  unfold DirExcluded
  simp only [h1, List.take_length, hd]
  simp [mean]

end EqsigVerif.Lemmas.FnsDir
