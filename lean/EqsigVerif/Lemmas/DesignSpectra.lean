import EqsigVerif.Model.DesignSpectra
import Mathlib.Analysis.SpecialFunctions.Pow.Real
import Mathlib.Analysis.SpecialFunctions.Pow.Continuity
import Mathlib.Tactic.FunProp
import Mathlib.Analysis.Real.Pi.Bounds
import Mathlib.Tactic.NormNum
import Mathlib.Tactic.Linarith
import Mathlib.Tactic.Ring
import Mathlib.Tactic.FieldSimp
import Mathlib.Tactic.Positivity
/-!
# Lemmas about `Model/DesignSpectra.lean` instantiated at `ℝ` (C20.f)

`pow34R x = x ^ (0.75 : ℝ)` (`Real.rpow`) plays the role of `x ** 0.75`, `Real.pi` the role of `np.pi`.
-/
namespace EqsigVerif.Lemmas.DesignSpectra
open EqsigVerif.Wire EqsigVerif.Model.DesignSpectra
open Filter Topology

/-- `x ** 0.75` at `ℝ` -/
noncomputable def pow34R (x : ℝ) : ℝ := x ^ (0.75 : ℝ)

/-! ### the tables: `sd_nzs` table = `c_h_factor` table × `T²` (any `pow34`, any real `T`) -/

theorem sdC_eq (p : ℝ → ℝ) (T : ℝ) : sdC p T = chC p T * (T * T) := by
  unfold sdC chC
  split_ifs with h0 h1 h2 h3 h4
  · rfl
  · rfl
  · rfl
  · rfl
  · rfl
  · have hT3 : (3 : ℝ) ≤ T := by norm_num at h4; exact h4
    have : T ≠ 0 := by linarith
    field_simp

theorem sdD_eq (p : ℝ → ℝ) (T : ℝ) : sdD p T = chD p T * (T * T) := by
  unfold sdD chD
  split_ifs with h0 h1 h2 h3 h4
  · rfl
  · rfl
  · rfl
  · rfl
  · rfl
  · have hT3 : (3 : ℝ) ≤ T := by norm_num at h4; exact h4
    have : T ≠ 0 := by linarith
    field_simp

theorem sdE_eq (p : ℝ → ℝ) (T : ℝ) : sdE p T = chE p T * (T * T) := by
  unfold sdE chE
  split_ifs with h0 h1 h2 h3 h4
  · rfl
  · rfl
  · rfl
  · rfl
  · rfl
  · have hT3 : (3 : ℝ) ≤ T := by norm_num at h4; exact h4
    have : T ≠ 0 := by linarith
    field_simp

theorem sdTable_eq (p : ℝ → ℝ) (T : ℝ) (c : SiteClass) :
    sdTable p T c = chTable p T c * (T * T) := by
  cases c
  · exact sdC_eq p T
  · exact sdD_eq p T
  · exact sdE_eq p T


/-! ### error behaviour -/

theorem c_h_factor_ok (p : ℝ → ℝ) {T : ℝ} (hT : 0 ≤ T) (c : SiteClass) :
    c_h_factor p T c = .ok (chTable p T c) := by
  unfold c_h_factor; rw [if_neg (not_lt.mpr hT)]

theorem c_h_factor_neg (p : ℝ → ℝ) {T : ℝ} (hT : T < 0) (c : SiteClass) :
    c_h_factor p T c = .error .ValueError := by
  unfold c_h_factor; rw [if_pos hT]

theorem sd_nzs_ok (p : ℝ → ℝ) {T : ℝ} (hT : 0 ≤ T) (c : SiteClass) (Z R N : ℝ) :
    sd_nzs p T c Z R N = .ok (sdTable p T c * Z * N * R) := by
  unfold sd_nzs; rw [if_neg (not_lt.mpr hT)]

theorem sd_nzs_neg (p : ℝ → ℝ) {T : ℝ} (hT : T < 0) (c : SiteClass) (Z R N : ℝ) :
    sd_nzs p T c Z R N = .error .ValueError := by
  unfold sd_nzs; rw [if_pos hT]

theorem parseSiteClass_eq_none_iff (s : String) :
    parseSiteClass s = none ↔ s ≠ "C" ∧ s ≠ "D" ∧ s ≠ "E" := by
  unfold parseSiteClass
  split_ifs with h1 h2 h3 <;> simp_all

theorem parseSiteClass_eq_some_iff (s : String) (c : SiteClass) :
    parseSiteClass s = some c ↔ s = (match c with | .C => "C" | .D => "D" | .E => "E") := by
  unfold parseSiteClass
  cases c <;> split_ifs with h1 h2 h3 <;> simp_all


/-! ### `t_eff` -/

theorem dcCoeff_pos (c : SiteClass) : (0 : ℝ) < dcCoeff c := by
  cases c <;> simp only [dcCoeff] <;> norm_num

/-- `d_c` with the product `Z·R·N` isolated -/
theorem d_c_eq (c : SiteClass) (Z R N : ℝ) :
    d_c Real.pi c Z R N = dcCoeff c * 9.81 / ((2 * Real.pi) * (2 * Real.pi)) * (Z * R * N) := by
  unfold d_c gravity; ring

theorem d_c_pos (c : SiteClass) {Z R N : ℝ} (h : 0 < Z * R * N) : 0 < d_c Real.pi c Z R N := by
  rw [d_c_eq]
  have := dcCoeff_pos c
  have hpi := Real.pi_pos
  positivity

theorem d_c_eq_zero_iff (c : SiteClass) (Z R N : ℝ) : d_c Real.pi c Z R N = 0 ↔ Z * R * N = 0 := by
  rw [d_c_eq]
  have := dcCoeff_pos c
  have hpi := Real.pi_pos
  have hk : dcCoeff c * 9.81 / ((2 * Real.pi) * (2 * Real.pi)) ≠ 0 := by positivity
  simp [hk]

theorem t_eff_ok {d : ℝ} (c : SiteClass) {Z R N : ℝ} (hdc : d_c Real.pi c Z R N ≠ 0)
    (hd : d ≤ d_c Real.pi c Z R N) :
    t_eff Real.pi d c Z R N = .ok (3 * d / d_c Real.pi c Z R N) := by
  unfold t_eff
  simp only []
  rw [if_neg (not_lt.mpr hd), if_neg (by simpa using hdc)]
  unfold t_c; norm_num

theorem t_eff_valueError_iff (d : ℝ) (c : SiteClass) (Z R N : ℝ) :
    t_eff Real.pi d c Z R N = .error .ValueError ↔ d_c Real.pi c Z R N < d := by
  unfold t_eff
  simp only []
  split_ifs with h1 h2 <;> simp [h1]

theorem t_eff_zeroDivision_iff (d : ℝ) (c : SiteClass) (Z R N : ℝ) :
    t_eff Real.pi d c Z R N = .error .ZeroDivisionError ↔ Z * R * N = 0 ∧ d ≤ 0 := by
  rw [← d_c_eq_zero_iff c]
  unfold t_eff
  simp only []
  split_ifs with h1 h2
  · simp; intro h; rw [h] at h1; exact h1
  · have h2' : d_c Real.pi c Z R N = 0 := by simpa using h2
    simp [h2']; rw [h2'] at h1; exact not_lt.mp h1
  · have h2' : d_c Real.pi c Z R N ≠ 0 := by simpa using h2
    simp [h2']


/-! ### the branch taken on each segment `[a, b)` (any `pow34`) -/

/-- closes `ch? p T = <branch formula>` after `unfold`: every other branch contradicts the bounds on `T` -/
macro "seg_tac" : tactic =>
  `(tactic| (split_ifs <;> first
      | rfl
      | (exfalso; simp only [beq_iff_eq, not_lt] at *; norm_num at *; linarith)
      | (exfalso; simp only [beq_iff_eq, not_lt] at *; norm_num at *)))

theorem chC_seg0 (p : ℝ → ℝ) : chC p 0 = 1.33 := by unfold chC; seg_tac
theorem chC_seg1 (p : ℝ → ℝ) {T : ℝ} (h1 : 0 < T) (h2 : T < 0.1) : chC p T = 1.33 + 1.60 * (T / 0.1) := by
  unfold chC; seg_tac
theorem chC_seg2 (p : ℝ → ℝ) {T : ℝ} (h1 : 0.1 ≤ T) (h2 : T < 0.3) : chC p T = 2.93 := by
  unfold chC; seg_tac
theorem chC_seg3 (p : ℝ → ℝ) {T : ℝ} (h1 : 0.3 ≤ T) (h2 : T < 1.5) : chC p T = 2.0 * p (0.5 / T) := by
  unfold chC; seg_tac
theorem chC_seg4 (p : ℝ → ℝ) {T : ℝ} (h1 : 1.5 ≤ T) (h2 : T < 3.0) : chC p T = 1.32 / T := by
  unfold chC; seg_tac
theorem chC_seg5 (p : ℝ → ℝ) {T : ℝ} (h1 : 3.0 ≤ T) : chC p T = 3.96 / (T * T) := by
  unfold chC; seg_tac

theorem chD_seg0 (p : ℝ → ℝ) : chD p 0 = 1.12 := by unfold chD; seg_tac
theorem chD_seg1 (p : ℝ → ℝ) {T : ℝ} (h1 : 0 < T) (h2 : T < 0.1) : chD p T = 1.12 + 1.88 * (T / 0.1) := by
  unfold chD; seg_tac
theorem chD_seg2 (p : ℝ → ℝ) {T : ℝ} (h1 : 0.1 ≤ T) (h2 : T < 0.56) : chD p T = 3.0 := by
  unfold chD; seg_tac
theorem chD_seg3 (p : ℝ → ℝ) {T : ℝ} (h1 : 0.56 ≤ T) (h2 : T < 1.5) : chD p T = 2.4 * p (0.75 / T) := by
  unfold chD; seg_tac
theorem chD_seg4 (p : ℝ → ℝ) {T : ℝ} (h1 : 1.5 ≤ T) (h2 : T < 3.0) : chD p T = 2.14 / T := by
  unfold chD; seg_tac
theorem chD_seg5 (p : ℝ → ℝ) {T : ℝ} (h1 : 3.0 ≤ T) : chD p T = 6.42 / (T * T) := by
  unfold chD; seg_tac

theorem chE_seg0 (p : ℝ → ℝ) : chE p 0 = 1.12 := by unfold chE; seg_tac
theorem chE_seg1 (p : ℝ → ℝ) {T : ℝ} (h1 : 0 < T) (h2 : T < 0.1) : chE p T = 1.12 + 1.88 * (T / 0.1) := by
  unfold chE; seg_tac
theorem chE_seg2 (p : ℝ → ℝ) {T : ℝ} (h1 : 0.1 ≤ T) (h2 : T < 1.0) : chE p T = 3.0 := by
  unfold chE; seg_tac
theorem chE_seg3 (p : ℝ → ℝ) {T : ℝ} (h1 : 1.0 ≤ T) (h2 : T < 1.5) : chE p T = 3.0 / p T := by
  unfold chE; seg_tac
theorem chE_seg4 (p : ℝ → ℝ) {T : ℝ} (h1 : 1.5 ≤ T) (h2 : T < 3.0) : chE p T = 3.32 / T := by
  unfold chE; seg_tac
theorem chE_seg5 (p : ℝ → ℝ) {T : ℝ} (h1 : 3.0 ≤ T) : chE p T = 9.96 / (T * T) := by
  unfold chE; seg_tac

/-! ### rational bounds on the `3/4` powers at the breakpoints (via fourth powers) -/

/-- bounds on `x^(3/4)` via fourth powers: `a⁴ < x³ < b⁴ → a < x^0.75 < b`
(prototype `design-evidence/c01f_c20f_numeric_bounds.lean.txt`) -/
theorem rpow_three_quarters_bounds (x a b : ℝ) (hx : 0 < x) (_ha : 0 ≤ a) (hb : 0 < b)
    (h1 : a ^ 4 < x ^ 3) (h2 : x ^ 3 < b ^ 4) : a < x ^ (0.75 : ℝ) ∧ x ^ (0.75 : ℝ) < b := by
  have hy : 0 < x ^ (0.75 : ℝ) := Real.rpow_pos_of_pos hx _
  have h4 : (x ^ (0.75 : ℝ)) ^ 4 = x ^ 3 := by
    rw [← Real.rpow_natCast, ← Real.rpow_mul hx.le]
    norm_num
  constructor
  · by_contra hcon
    rw [not_lt] at hcon
    have : (x ^ (0.75 : ℝ)) ^ 4 ≤ a ^ 4 := pow_le_pow_left₀ hy.le hcon 4
    linarith
  · by_contra hcon
    rw [not_lt] at hcon
    have : b ^ 4 ≤ (x ^ (0.75 : ℝ)) ^ 4 := pow_le_pow_left₀ hb.le hcon 4
    linarith

/-- `(0.5/0.3)^0.75 = 1.46685…` -/
theorem pow34_C03 : 1.4665 < pow34R (0.5 / 0.3) ∧ pow34R (0.5 / 0.3) < 1.4675 :=
  rpow_three_quarters_bounds (0.5 / 0.3) 1.4665 1.4675 (by norm_num) (by norm_num) (by norm_num)
    (by norm_num) (by norm_num)
/-- `(0.5/1.5)^0.75 = 0.43869…` -/
theorem pow34_C15 : 0.4386 < pow34R (0.5 / 1.5) ∧ pow34R (0.5 / 1.5) < 0.4388 :=
  rpow_three_quarters_bounds (0.5 / 1.5) 0.4386 0.4388 (by norm_num) (by norm_num) (by norm_num)
    (by norm_num) (by norm_num)
/-- `(0.75/0.56)^0.75 = 1.24495…` -/
theorem pow34_D056 : 1.2449 < pow34R (0.75 / 0.56) ∧ pow34R (0.75 / 0.56) < 1.2450 :=
  rpow_three_quarters_bounds (0.75 / 0.56) 1.2449 1.2450 (by norm_num) (by norm_num) (by norm_num)
    (by norm_num) (by norm_num)
/-- `(0.75/1.5)^0.75 = 0.59460…` -/
theorem pow34_D15 : 0.5945 < pow34R (0.75 / 1.5) ∧ pow34R (0.75 / 1.5) < 0.5947 :=
  rpow_three_quarters_bounds (0.75 / 1.5) 0.5945 0.5947 (by norm_num) (by norm_num) (by norm_num)
    (by norm_num) (by norm_num)
/-- `1.5^0.75 = 1.35540…` -/
theorem pow34_E15 : 1.3553 < pow34R 1.5 ∧ pow34R 1.5 < 1.3555 :=
  rpow_three_quarters_bounds 1.5 1.3553 1.3555 (by norm_num) (by norm_num) (by norm_num)
    (by norm_num) (by norm_num)
theorem pow34_one : pow34R 1.0 = 1 := by unfold pow34R; norm_num

/-! ### segments and jumps -/

/-- a branch of the table: on the open segment `(a, b)` the table is `L`; `b` is the breakpoint at its right end -/
structure Segment where
  a : ℝ
  b : ℝ
  L : ℝ → ℝ

/-- the four bounded branches of each class, in the order of the code (the `== 0` branch and the unbounded
last branch `k / T²` are handled separately) -/
noncomputable def segments : SiteClass → List Segment
  | .C => [⟨0, 0.1, fun T => 1.33 + 1.60 * (T / 0.1)⟩, ⟨0.1, 0.3, fun _ => 2.93⟩,
           ⟨0.3, 1.5, fun T => 2.0 * pow34R (0.5 / T)⟩, ⟨1.5, 3.0, fun T => 1.32 / T⟩]
  | .D => [⟨0, 0.1, fun T => 1.12 + 1.88 * (T / 0.1)⟩, ⟨0.1, 0.56, fun _ => 3.0⟩,
           ⟨0.56, 1.5, fun T => 2.4 * pow34R (0.75 / T)⟩, ⟨1.5, 3.0, fun T => 2.14 / T⟩]
  | .E => [⟨0, 0.1, fun T => 1.12 + 1.88 * (T / 0.1)⟩, ⟨0.1, 1.0, fun _ => 3.0⟩,
           ⟨1.0, 1.5, fun T => 3.0 / pow34R T⟩, ⟨1.5, 3.0, fun T => 3.32 / T⟩]

/-- the statement of `breakpoint_jumps` for one segment: the model equals `L` on `(a, b)`, and the value of
`L` at `b` differs from the model's value at `b` by at most 0.5 % of the latter -/
def JumpOK (c : SiteClass) (s : Segment) : Prop :=
  (∀ T, s.a < T → T < s.b → c_h_factor pow34R T c = .ok (s.L T)) ∧
  ∃ v, c_h_factor pow34R s.b c = .ok v ∧ |s.L s.b - v| ≤ 0.005 * v

theorem ch_ok_C {T v : ℝ} (hT : 0 ≤ T) (h : chC pow34R T = v) : c_h_factor pow34R T .C = .ok v := by
  rw [c_h_factor_ok _ hT, ← h]; rfl
theorem ch_ok_D {T v : ℝ} (hT : 0 ≤ T) (h : chD pow34R T = v) : c_h_factor pow34R T .D = .ok v := by
  rw [c_h_factor_ok _ hT, ← h]; rfl
theorem ch_ok_E {T v : ℝ} (hT : 0 ≤ T) (h : chE pow34R T = v) : c_h_factor pow34R T .E = .ok v := by
  rw [c_h_factor_ok _ hT, ← h]; rfl

theorem jump_C1 : JumpOK .C ⟨0, 0.1, fun T => 1.33 + 1.60 * (T / 0.1)⟩ := by
  refine ⟨fun T h1 h2 => ?_, 2.93, ?_, ?_⟩
  · simp only at h1 h2 ⊢
    exact ch_ok_C h1.le (chC_seg1 _ h1 h2)
  · exact ch_ok_C (by norm_num) (chC_seg2 _ (le_refl _) (by norm_num))
  · norm_num

theorem jump_C2 : JumpOK .C ⟨0.1, 0.3, fun _ => 2.93⟩ := by
  refine ⟨fun T h1 h2 => ?_, 2.0 * pow34R (0.5 / 0.3), ?_, ?_⟩
  · simp only at h1 h2 ⊢
    exact ch_ok_C (by norm_num at h1; linarith) (chC_seg2 _ h1.le h2)
  · exact ch_ok_C (by norm_num) (chC_seg3 _ (le_refl _) (by norm_num))
  · have hb := pow34_C03
    simp only
    rw [abs_le]; constructor <;> nlinarith [hb.1, hb.2]

theorem jump_C3 : JumpOK .C ⟨0.3, 1.5, fun T => 2.0 * pow34R (0.5 / T)⟩ := by
  refine ⟨fun T h1 h2 => ?_, 1.32 / 1.5, ?_, ?_⟩
  · simp only at h1 h2 ⊢
    exact ch_ok_C (by norm_num at h1; linarith) (chC_seg3 _ h1.le h2)
  · exact ch_ok_C (by norm_num) (chC_seg4 _ (le_refl _) (by norm_num))
  · have hb := pow34_C15
    simp only
    rw [abs_le]; constructor <;> norm_num <;> nlinarith [hb.1, hb.2]

theorem jump_C4 : JumpOK .C ⟨1.5, 3.0, fun T => 1.32 / T⟩ := by
  refine ⟨fun T h1 h2 => ?_, 3.96 / (3.0 * 3.0), ?_, ?_⟩
  · simp only at h1 h2 ⊢
    exact ch_ok_C (by norm_num at h1; linarith) (chC_seg4 _ h1.le h2)
  · exact ch_ok_C (by norm_num) (chC_seg5 _ (le_refl _))
  · norm_num
theorem jump_D1 : JumpOK .D ⟨0, 0.1, fun T => 1.12 + 1.88 * (T / 0.1)⟩ := by
  refine ⟨fun T h1 h2 => ?_, 3.0, ?_, ?_⟩
  · simp only at h1 h2 ⊢
    exact ch_ok_D h1.le (chD_seg1 _ h1 h2)
  · exact ch_ok_D (by norm_num) (chD_seg2 _ (le_refl _) (by norm_num))
  · norm_num

theorem jump_D2 : JumpOK .D ⟨0.1, 0.56, fun _ => 3.0⟩ := by
  refine ⟨fun T h1 h2 => ?_, 2.4 * pow34R (0.75 / 0.56), ?_, ?_⟩
  · simp only at h1 h2 ⊢
    exact ch_ok_D (by norm_num at h1; linarith) (chD_seg2 _ h1.le h2)
  · exact ch_ok_D (by norm_num) (chD_seg3 _ (le_refl _) (by norm_num))
  · have hb := pow34_D056
    simp only
    rw [abs_le]; constructor <;> nlinarith [hb.1, hb.2]

theorem jump_D3 : JumpOK .D ⟨0.56, 1.5, fun T => 2.4 * pow34R (0.75 / T)⟩ := by
  refine ⟨fun T h1 h2 => ?_, 2.14 / 1.5, ?_, ?_⟩
  · simp only at h1 h2 ⊢
    exact ch_ok_D (by norm_num at h1; linarith) (chD_seg3 _ h1.le h2)
  · exact ch_ok_D (by norm_num) (chD_seg4 _ (le_refl _) (by norm_num))
  · have hb := pow34_D15
    simp only
    rw [abs_le]; constructor <;> norm_num <;> nlinarith [hb.1, hb.2]

theorem jump_D4 : JumpOK .D ⟨1.5, 3.0, fun T => 2.14 / T⟩ := by
  refine ⟨fun T h1 h2 => ?_, 6.42 / (3.0 * 3.0), ?_, ?_⟩
  · simp only at h1 h2 ⊢
    exact ch_ok_D (by norm_num at h1; linarith) (chD_seg4 _ h1.le h2)
  · exact ch_ok_D (by norm_num) (chD_seg5 _ (le_refl _))
  · norm_num

theorem jump_E1 : JumpOK .E ⟨0, 0.1, fun T => 1.12 + 1.88 * (T / 0.1)⟩ := by
  refine ⟨fun T h1 h2 => ?_, 3.0, ?_, ?_⟩
  · simp only at h1 h2 ⊢
    exact ch_ok_E h1.le (chE_seg1 _ h1 h2)
  · exact ch_ok_E (by norm_num) (chE_seg2 _ (le_refl _) (by norm_num))
  · norm_num

theorem jump_E2 : JumpOK .E ⟨0.1, 1.0, fun _ => 3.0⟩ := by
  refine ⟨fun T h1 h2 => ?_, 3.0 / pow34R 1.0, ?_, ?_⟩
  · simp only at h1 h2 ⊢
    exact ch_ok_E (by norm_num at h1; linarith) (chE_seg2 _ h1.le h2)
  · exact ch_ok_E (by norm_num) (chE_seg3 _ (le_refl _) (by norm_num))
  · rw [pow34_one]; norm_num

theorem jump_E3 : JumpOK .E ⟨1.0, 1.5, fun T => 3.0 / pow34R T⟩ := by
  refine ⟨fun T h1 h2 => ?_, 3.32 / 1.5, ?_, ?_⟩
  · simp only at h1 h2 ⊢
    exact ch_ok_E (by norm_num at h1; linarith) (chE_seg3 _ h1.le h2)
  · exact ch_ok_E (by norm_num) (chE_seg4 _ (le_refl _) (by norm_num))
  · have hb := pow34_E15
    have hpos : 0 < pow34R 1.5 := by linarith [hb.1]
    simp only
    rw [abs_le, le_sub_iff_add_le, sub_le_iff_le_add, div_le_iff₀ hpos, le_div_iff₀ hpos]
    constructor <;> norm_num <;> nlinarith [hb.1, hb.2]

theorem jump_E4 : JumpOK .E ⟨1.5, 3.0, fun T => 3.32 / T⟩ := by
  refine ⟨fun T h1 h2 => ?_, 9.96 / (3.0 * 3.0), ?_, ?_⟩
  · simp only at h1 h2 ⊢
    exact ch_ok_E (by norm_num at h1; linarith) (chE_seg4 _ h1.le h2)
  · exact ch_ok_E (by norm_num) (chE_seg5 _ (le_refl _))
  · norm_num


theorem jumps_all (c : SiteClass) : ∀ seg ∈ segments c, JumpOK c seg := by
  cases c <;> simp only [segments, List.forall_mem_cons, List.not_mem_nil, false_imp_iff, imp_true_iff,
    and_true]
  · exact ⟨jump_C1, jump_C2, jump_C3, jump_C4⟩
  · exact ⟨jump_D1, jump_D2, jump_D3, jump_D4⟩
  · exact ⟨jump_E1, jump_E2, jump_E3, jump_E4⟩

/-- breakpoint `0`: the `== 0` branch equals the formula of the `< 0.1` branch at `0` (no jump) -/
theorem zero_exact (c : SiteClass) :
    ∃ seg, (segments c).head? = some seg ∧ seg.a = 0 ∧ c_h_factor pow34R 0 c = .ok (seg.L 0) := by
  cases c
  · exact ⟨_, rfl, rfl, ch_ok_C le_rfl (by rw [chC_seg0]; norm_num)⟩
  · exact ⟨_, rfl, rfl, ch_ok_D le_rfl (by rw [chD_seg0]; norm_num)⟩
  · exact ⟨_, rfl, rfl, ch_ok_E le_rfl (by rw [chE_seg0]; norm_num)⟩

/-! ### one-sided limits at the breakpoints (the jump as a statement about the model alone) -/

theorem chTable_eq_of_ok {T v : ℝ} {c : SiteClass} (hT : 0 ≤ T) (h : c_h_factor pow34R T c = .ok v) :
    chTable pow34R T c = v := by
  rw [c_h_factor_ok _ hT] at h; cases h; rfl

theorem left_limit_of_seg (c : SiteClass) (s : Segment) (hab : s.a < s.b) (ha : 0 ≤ s.a)
    (hc : ContinuousAt s.L s.b)
    (h : ∀ T, s.a < T → T < s.b → c_h_factor pow34R T c = .ok (s.L T)) :
    Tendsto (fun T => chTable pow34R T c) (𝓝[<] s.b) (𝓝 (s.L s.b)) := by
  have h1 : Tendsto s.L (𝓝[<] s.b) (𝓝 (s.L s.b)) := tendsto_nhdsWithin_of_tendsto_nhds hc
  refine h1.congr' ?_
  filter_upwards [Ioo_mem_nhdsLT hab] with T hT
  exact (chTable_eq_of_ok (ha.trans hT.1.le) (h T hT.1 hT.2)).symm

theorem right_limit_of_seg (c : SiteClass) (s : Segment) (hab : s.a < s.b) (ha : 0 ≤ s.a)
    (hc : ContinuousAt s.L s.a)
    (h : ∀ T, s.a < T → T < s.b → c_h_factor pow34R T c = .ok (s.L T)) :
    Tendsto (fun T => chTable pow34R T c) (𝓝[>] s.a) (𝓝 (s.L s.a)) := by
  have h1 : Tendsto s.L (𝓝[>] s.a) (𝓝 (s.L s.a)) := tendsto_nhdsWithin_of_tendsto_nhds hc
  refine h1.congr' ?_
  filter_upwards [Ioo_mem_nhdsGT hab] with T hT
  exact (chTable_eq_of_ok (ha.trans hT.1.le) (h T hT.1 hT.2)).symm

/-- every listed branch formula is continuous on a neighbourhood of its closed segment ends -/
def SegCont (s : Segment) : Prop := s.a < s.b ∧ 0 ≤ s.a ∧ ContinuousAt s.L s.b ∧ ContinuousAt s.L s.a

theorem pow34R_continuousAt {x : ℝ} (hx : x ≠ 0) : ContinuousAt pow34R x :=
  Real.continuousAt_rpow_const x 0.75 (Or.inl hx)

theorem cont_pow_div (k m : ℝ) {x : ℝ} (hx : 0 < x) (hm : 0 < m) :
    ContinuousAt (fun T => k * pow34R (m / T)) x := by
  have h1 : ContinuousAt (fun T : ℝ => m / T) x := continuousAt_const.div continuousAt_id hx.ne'
  have h2 : ContinuousAt pow34R (m / x) := pow34R_continuousAt (by positivity)
  exact continuousAt_const.mul (h2.comp h1)

theorem cont_div (k : ℝ) {x : ℝ} (hx : 0 < x) : ContinuousAt (fun T => k / T) x :=
  continuousAt_const.div continuousAt_id hx.ne'

theorem cont_div_pow (k : ℝ) {x : ℝ} (hx : 0 < x) : ContinuousAt (fun T => k / pow34R T) x :=
  continuousAt_const.div (pow34R_continuousAt hx.ne') (Real.rpow_pos_of_pos hx _).ne'

theorem segCont_all (c : SiteClass) : ∀ seg ∈ segments c, SegCont seg := by
  cases c <;> simp only [segments, List.forall_mem_cons, List.not_mem_nil, false_imp_iff, imp_true_iff,
    and_true, SegCont]
  · exact ⟨⟨by norm_num, by norm_num, by fun_prop, by fun_prop⟩,
      ⟨by norm_num, by norm_num, by fun_prop, by fun_prop⟩,
      ⟨by norm_num, by norm_num, cont_pow_div _ _ (by norm_num) (by norm_num),
        cont_pow_div _ _ (by norm_num) (by norm_num)⟩,
      ⟨by norm_num, by norm_num, cont_div _ (by norm_num), cont_div _ (by norm_num)⟩⟩
  · exact ⟨⟨by norm_num, by norm_num, by fun_prop, by fun_prop⟩,
      ⟨by norm_num, by norm_num, by fun_prop, by fun_prop⟩,
      ⟨by norm_num, by norm_num, cont_pow_div _ _ (by norm_num) (by norm_num),
        cont_pow_div _ _ (by norm_num) (by norm_num)⟩,
      ⟨by norm_num, by norm_num, cont_div _ (by norm_num), cont_div _ (by norm_num)⟩⟩
  · exact ⟨⟨by norm_num, by norm_num, by fun_prop, by fun_prop⟩,
      ⟨by norm_num, by norm_num, by fun_prop, by fun_prop⟩,
      ⟨by norm_num, by norm_num, cont_div_pow _ (by norm_num), cont_div_pow _ (by norm_num)⟩,
      ⟨by norm_num, by norm_num, cont_div _ (by norm_num), cont_div _ (by norm_num)⟩⟩

/-- left limit at the right end `b` of every segment, right limit at its left end `a` -/
theorem limits_all (c : SiteClass) : ∀ seg ∈ segments c,
    Tendsto (fun T => chTable pow34R T c) (𝓝[<] seg.b) (𝓝 (seg.L seg.b)) ∧
    Tendsto (fun T => chTable pow34R T c) (𝓝[>] seg.a) (𝓝 (seg.L seg.a)) := by
  intro seg hs
  obtain ⟨hab, ha, hcb, hca⟩ := segCont_all c seg hs
  have hj := (jumps_all c seg hs).1
  exact ⟨left_limit_of_seg c seg hab ha hcb hj, right_limit_of_seg c seg hab ha hca hj⟩


/-- the breakpoints (right ends of the bounded branches) of each class -/
noncomputable def breakpoints : SiteClass → List ℝ
  | .C => [0.1, 0.3, 1.5, 3.0]
  | .D => [0.1, 0.56, 1.5, 3.0]
  | .E => [0.1, 1.0, 1.5, 3.0]

theorem breakpoints_eq (c : SiteClass) : breakpoints c = (segments c).map (·.b) := by
  cases c <;> rfl

theorem jump_limit_all (c : SiteClass) : ∀ b ∈ breakpoints c,
    ∃ L, Tendsto (fun T => chTable pow34R T c) (𝓝[<] b) (𝓝 L) ∧
      |L - chTable pow34R b c| ≤ 0.005 * chTable pow34R b c := by
  intro b hb
  rw [breakpoints_eq, List.mem_map] at hb
  obtain ⟨seg, hs, rfl⟩ := hb
  obtain ⟨hab, ha, -, -⟩ := segCont_all c seg hs
  obtain ⟨v, hv, hjump⟩ := (jumps_all c seg hs).2
  rw [chTable_eq_of_ok (ha.trans hab.le) hv]
  exact ⟨seg.L seg.b, (limits_all c seg hs).1, hjump⟩

theorem zero_limit (c : SiteClass) :
    Tendsto (fun T => chTable pow34R T c) (𝓝[>] 0) (𝓝 (chTable pow34R 0 c)) := by
  obtain ⟨seg, hh, h0, hv⟩ := zero_exact c
  have hs : seg ∈ segments c := List.mem_of_mem_head? (by rw [hh]; exact rfl)
  rw [chTable_eq_of_ok le_rfl hv, ← h0]
  exact (limits_all c seg hs).2

end EqsigVerif.Lemmas.DesignSpectra
