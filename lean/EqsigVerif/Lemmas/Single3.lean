import EqsigVerif.Model.Single3
import EqsigVerif.Lemmas.Im.Dur
import EqsigVerif.Lemmas.Im.Series
import Mathlib.Tactic.Ring
import Mathlib.Tactic.Linarith
import Mathlib.Tactic.FieldSimp
import Mathlib.Algebra.Order.Field.Basic
import Mathlib.Algebra.Order.Ring.Rat
/-!
# Lemmas for `Model/Single3.lean` (object-level statistics of `AccSignal`)
-/
set_option linter.unusedSectionVars false
set_option linter.unusedVariables false
namespace EqsigVerif.Lemmas.Single3
open EqsigVerif EqsigVerif.Np EqsigVerif.Wire EqsigVerif.NpS EqsigVerif.NpV EqsigVerif.Model.Im EqsigVerif.Lemmas.Im
open EqsigVerif.Model.Single3

theorem gDur_pos : (0 : ℚ) < gDur := by unfold gDur; norm_num

/-- the mask `abs_motion / 9.8 > thr` of `generate_duration_stats` is the mask `abs(values) > thr·9.8` of `calc_brac_dur` -/
theorem exceed_idx (a : List ℚ) (thr : ℚ) :
    whereIdx (fun t => decide (thr < t / gDur)) (absL a) = whereIdx (bracMask (thr * gDur)) a := by
  unfold absL
  rw [whereIdx_map]
  apply whereIdx_congr
  intro x _
  unfold bracMask
  congr 1
  exact propext (lt_div_iff₀ gDur_pos)

/-- `time[np.where(mask)]` with `time = np.arange(npts) * dt`: in-range indices pick `i * dt` -/
theorem takeIdx_timeArr (n : Nat) (dt : ℚ) (idx : List Nat) (h : ∀ i ∈ idx, i < n) :
    takeIdx (timeArr n dt) idx = idx.map (fun (i : Nat) => (i : ℚ) * dt) := by
  unfold takeIdx timeArr
  apply List.map_congr_left
  intro i hi
  simp [List.getD_eq_getElem?_getD, h i hi]

/-- closed form of one bracketed block in terms of the first / last exceeding sample (`bracIdx` of `calc_brac_dur` at `thr·9.8`) -/
theorem bracBlock_eq (b : Bool) (a : List ℚ) (dt thr : ℚ) :
    bracBlock b a dt thr = match bracIdx a (thr * gDur) with
      | none => .ok (-1, Root.val (-1))
      | some (i0, i1) =>
        if b then .ok ((i1 : ℚ) * dt - (i0 : ℚ) * dt,
          Root.sqrt (fmul (fdiv (some 1) (some ((i1 : ℚ) * dt - (i0 : ℚ) * dt))) (some (trapz dt (Np.sq (slice a i0 i1))))))
        else .error .AttributeError := by
  unfold bracBlock
  simp only []
  rw [exceed_idx, takeIdx_timeArr a.length dt _ (fun i hi => ((mem_whereIdx _ a i).mp hi).1)]
  unfold bracIdx firstLast? NpS.lastE NpE.lastE NpR.tryCatchE
  rw [List.getLast?_map]
  generalize whereIdx (bracMask (thr * gDur)) a = ind
  cases ind with
  | nil => rfl
  | cons x xs =>
    simp only [List.map_cons, List.head?_cons, NpS.headE]
    cases hl : (x :: xs).getLast? with
    | none => simp at hl
    | some l =>
      cases b <;> rfl

/-! ### `get_zero_and_peak_array_indices` -/

theorem pyGetE_mem {γ : Type} (l : List γ) (i : Int) (v : γ) (h : NpR.pyGetE l i = .ok v) : v ∈ l := by
  unfold NpR.pyGetE at h
  dsimp only at h
  generalize (if i < 0 then i + (l.length : Int) else i) = j at h
  by_cases hj : j < 0
  · rw [if_pos hj] at h; cases h
  · rw [if_neg hj] at h
    cases hw : l[j.toNat]? with
    | none => rw [hw] at h; cases h
    | some w => rw [hw] at h; cases h; exact List.mem_of_getElem? hw

/-- invariant of the loop: both lists grow together, `new_ci ⊆ ci`, `new_pi ⊆ peak_indices` -/
def ZpInv (pk ci : List Int) (s : ZpState) : Prop :=
  s.newCi.length = s.newPi.length ∧ (∀ c ∈ s.newCi, c ∈ ci) ∧ (∀ p ∈ s.newPi, p ∈ pk)

theorem zpStep_inv (pk ci : List Int) (m : Int) (s : ZpState) (i : Nat) (b : Bool) (s' : ZpState)
    (hs : ZpInv pk ci s) (h : zpStep pk ci m s i = .ok (b, s')) : ZpInv pk ci s' := by
  unfold zpStep at h
  split at h
  · cases h; exact hs
  · cases h0 : NpR.pyGetE pk ((i : Int) - 1 - s.cc) with
    | error k => rw [h0] at h; cases h
    | ok p0 =>
      cases h1 : NpR.pyGetE pk ((i : Int) - s.cc) with
      | error k => rw [h0, h1] at h; cases h
      | ok p1 =>
        cases h2 : NpR.pyGetE ci (i : Int) with
        | error k => rw [h0, h1, h2] at h; cases h
        | ok c =>
          rw [h0, h1, h2] at h
          simp only [bind, Except.bind] at h
          split at h
          · cases h; exact hs
          · split at h
            · cases h; exact hs
            · split at h
              · -- the appending branch
                split at h
                · cases h
                · split at h
                  · cases h
                  · cases h
                    obtain ⟨hl, hc, hp⟩ := hs
                    refine ⟨by simp [hl], ?_, ?_⟩
                    · intro x hx
                      rcases List.mem_append.mp hx with hx | hx
                      · exact hc x hx
                      · rw [List.mem_singleton.mp hx]; exact pyGetE_mem _ _ _ h2
                    · intro x hx
                      rcases List.mem_append.mp hx with hx | hx
                      · exact hp x hx
                      · rw [List.mem_singleton.mp hx]; exact pyGetE_mem _ _ _ h1
              · cases h; exact hs

theorem zpLoop_inv (pk ci : List Int) (m : Int) (is : List Nat) (s s' : ZpState)
    (hs : ZpInv pk ci s) (h : zpLoop pk ci m is s = .ok s') : ZpInv pk ci s' := by
  induction is generalizing s with
  | nil => cases h; exact hs
  | cons i is ih =>
    unfold zpLoop at h
    cases hst : zpStep pk ci m s i with
    | error k => rw [hst] at h; cases h
    | ok r =>
      obtain ⟨b, s1⟩ := r
      rw [hst] at h
      simp only [bind, Except.bind] at h
      have h1 := zpStep_inv pk ci m s i b s1 hs hst
      cases b
      · exact ih s1 h1 h
      · cases h; exact h1

theorem assertE_ok (b : Bool) (u : Unit) (h : NpE.assertE b = .ok u) : b = true := by
  unfold NpE.assertE at h
  cases b
  · cases h
  · rfl

theorem all_zipWith_get {f : Int → Int → Int} {q : Int → Bool} (a b : List Int)
    (h : (List.zipWith f a b).all q = true) (k : Nat) (ha : k < a.length) (hb : k < b.length) : q (f a[k] b[k]) = true := by
  rw [List.all_eq_true] at h
  apply h
  have hk : k < (List.zipWith f a b).length := by simp [ha, hb]
  have := List.getElem_mem hk
  simpa using this

/-! ### `get_major_change_indices` -/

/-- every index appended by the loop is `≥ z_cur + i`, leaves room for `dydx[end_z + 1]`, and the indices increase strictly -/
theorem majorLoop_spec (dydx : List ℚ) (rtol atol : ℚ) (fuel zCur i : Nat) :
    (∀ e ∈ majorLoop dydx rtol atol fuel zCur i, zCur + i ≤ e ∧ e + 1 < dydx.length) ∧
    (majorLoop dydx rtol atol fuel zCur i).Pairwise (· < ·) := by
  induction fuel generalizing zCur i with
  | zero => simp [majorLoop]
  | succ fuel ih =>
    unfold majorLoop
    split
    · rename_i hlt
      simp only []
      split
      · obtain ⟨h1, h2⟩ := ih zCur (i + 1)
        exact ⟨fun e he => ⟨by have := (h1 e he).1; omega, (h1 e he).2⟩, h2⟩
      · obtain ⟨h1, h2⟩ := ih (zCur + i + 1) 1
        refine ⟨?_, ?_⟩
        · intro e he
          rcases List.mem_cons.mp he with rfl | he
          · exact ⟨le_refl _, hlt⟩
          · exact ⟨by have := (h1 e he).1; omega, (h1 e he).2⟩
        · rw [List.pairwise_cons]
          exact ⟨fun e he => by have := (h1 e he).1; omega, h2⟩
    · simp

end EqsigVerif.Lemmas.Single3
