import EqsigVerif.Model.Frequency
import EqsigVerif.Lemmas.Smooth
import Mathlib.Analysis.SpecialFunctions.Trigonometric.Bounds
import Mathlib.Analysis.SpecialFunctions.Log.Basic
/-!
# The Konno–Ohmachi window over `ℝ` (C07.c)
-/
set_option linter.unusedSectionVars false
set_option linter.unusedVariables false
noncomputable section
namespace EqsigVerif.Model.Frequency
open EqsigVerif EqsigVerif.Cplx

/-- `np.log10` over `ℝ` -/
def log10R (x : ℝ) : ℝ := Real.log x / Real.log 10

theorem koRaw_eq (x : ℝ) : koRaw Real.sin x = (Real.sin x / x) ^ 4 := by
  simp only [koRaw]; ring

theorem koRaw_nonneg (x : ℝ) : 0 ≤ koRaw Real.sin x := by
  rw [koRaw_eq]; positivity

theorem koRaw_le_one (x : ℝ) : koRaw Real.sin x ≤ 1 := by
  rw [koRaw_eq]
  have h1 : |Real.sin x / x| ≤ 1 := by
    rw [abs_div]
    by_cases hx : x = 0
    · simp [hx]
    · exact (div_le_one (abs_pos.mpr hx)).mpr Real.abs_sin_le_abs
  have h2 : (Real.sin x / x) ^ 2 ≤ 1 := by
    rw [← sq_abs]; exact pow_le_one₀ (abs_nonneg _) h1
  have h3 : 0 ≤ (Real.sin x / x) ^ 2 := sq_nonneg _
  calc (Real.sin x / x) ^ 4 = ((Real.sin x / x) ^ 2) ^ 2 := by ring
    _ ≤ 1 := pow_le_one₀ h3 h2

theorem log10R_eq_zero_iff (y : ℝ) (hy : 0 < y) : log10R y = 0 ↔ y = 1 := by
  unfold log10R
  have h10 : Real.log 10 ≠ 0 := ne_of_gt (Real.log_pos (by norm_num))
  rw [div_eq_zero_iff]
  constructor
  · rintro (h | h)
    · exact Real.eq_one_of_pos_of_log_eq_zero hy h
    · exact absurd h h10
  · intro h; left; rw [h, Real.log_one]

/-- the window argument vanishes exactly at the centre frequency -/
theorem koArg_eq_zero_iff (band f fc : ℝ) (hb : band ≠ 0) (hf : 0 < f) (hfc : 0 < fc) :
    koArg log10R band f fc = 0 ↔ f = fc := by
  unfold koArg
  rw [mul_eq_zero, log10R_eq_zero_iff _ (div_pos hf hfc), div_eq_one_iff_eq (ne_of_gt hfc)]
  constructor
  · rintro (h | h)
    · exact absurd h hb
    · exact h
  · intro h; right; exact h

theorem koArg_self (band fc : ℝ) (hfc : fc ≠ 0) : koArg log10R band fc fc = 0 := by
  simp [koArg, log10R, div_self hfc]

theorem koWindow_nonneg (band f fc : ℝ) : 0 ≤ koWindow Real.sin log10R band f fc := by
  simp only [koWindow]
  split
  · exact zero_le_one
  · exact koRaw_nonneg _

theorem koWindow_le_one (band f fc : ℝ) : koWindow Real.sin log10R band f fc ≤ 1 := by
  simp only [koWindow]
  split
  · exact le_refl _
  · exact koRaw_le_one _

theorem koWindow_self (band fc : ℝ) (hfc : fc ≠ 0) : koWindow Real.sin log10R band fc fc = 1 := by
  simp [koWindow, koArg_self band fc hfc]

/-- the `where` replacement applied to the model's own raw window is the window -/
theorem whereCol_ko (band fc : ℝ) (fs : List ℝ) :
    whereCol (fs.map (fun f => koArg log10R band f fc))
        ((fs.map (fun f => koArg log10R band f fc)).map (koRaw Real.sin))
      = fs.map (fun f => koWindow Real.sin log10R band f fc) := by
  induction fs with
  | nil => rfl
  | cons f rest ih =>
    simp only [whereCol, List.map_cons, List.zipWith_cons_cons] at ih ⊢
    rw [ih]
    simp [koWindow]

theorem ko_col_nonneg (band fc : ℝ) (fs : List ℝ) :
    ∀ w ∈ fs.map (fun f => koWindow Real.sin log10R band f fc), 0 ≤ w := by
  intro w hw
  obtain ⟨f, _, rfl⟩ := List.mem_map.mp hw
  exact koWindow_nonneg band f fc

/-- when the target lies on the grid its column sums to at least 1 -/
theorem ko_col_sum_ge_one (band fc : ℝ) (fs : List ℝ) (hfc : fc ≠ 0) (hmem : fc ∈ fs) :
    1 ≤ sumL (fs.map (fun f => koWindow Real.sin log10R band f fc)) := by
  have h1 : (1 : ℝ) ∈ fs.map (fun f => koWindow Real.sin log10R band f fc) :=
    List.mem_map.mpr ⟨fc, hmem, koWindow_self band fc hfc⟩
  exact le_sumL_of_mem _ (ko_col_nonneg band fc fs) 1 h1

/-- the replaced raw matrix of the model is the matrix of window values, column by column -/
theorem zipWith_whereCol_koAmp (band : ℝ) (fs sm : List ℝ) :
    List.zipWith whereCol (koAmp log10R band fs sm)
        ((koAmp log10R band fs sm).map (fun col => col.map (koRaw Real.sin)))
      = sm.map (fun fc => fs.map (fun f => koWindow Real.sin log10R band f fc)) := by
  induction sm with
  | nil => rfl
  | cons fc rest ih =>
    simp only [koAmp, List.map_cons, List.zipWith_cons_cons] at ih ⊢
    rw [ih, whereCol_ko]

theorem calcSmoothFaSpectrum_eq (faFreqs A fs A' : List ℝ) (smooth? : Option (List ℝ)) (band : ℝ)
    (h1 : dropZeroBin faFreqs A = .ok (fs, A')) :
    calcSmoothFaSpectrum Real.sin log10R faFreqs A smooth? band =
      smoothCore faFreqs A (koAmp log10R band fs (smooth?.getD fs))
        ((koAmp log10R band fs (smooth?.getD fs)).map (fun col => col.map (koRaw Real.sin))) := by
  simp [calcSmoothFaSpectrum, h1, bind, Except.bind]

end EqsigVerif.Model.Frequency
