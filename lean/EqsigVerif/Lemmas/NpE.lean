import EqsigVerif.Prelude.NpE
import Mathlib.Data.List.Basic
/-!
# Lemmas about `Prelude/NpE.lean` and the generic (class-free) length facts the translator bridges need
-/
set_option linter.unusedSectionVars false
namespace EqsigVerif.NpE
open EqsigVerif EqsigVerif.Cplx EqsigVerif.Wire

section
variable {β : Type} [Add β] [Mul β] [OfNat β 0]

/-- `len(np.fft.fft(x, n=N)) = N` with core classes only (the `CommSemiring` version is `Cplx.length_dft`) -/
theorem length_dft_core (tw : ℕ → ℕ → β) (x : List β) (N : ℕ) : (dft tw x N).length = N := by
  simp [dft]

end

section Hermitian
variable {γ : Type} [OfNat γ 0]

/-- the two slice stores of `fas2values` on `zeros(2·len(fas))`, for a non-empty `fas = x :: xs` -/
theorem hermitian_slices (x : γ) (xs : List γ) (c : γ → γ) :
    setSlice (setSlice (zeros (2 * (x :: xs).length) : List γ) 1 (2 * (x :: xs).length / 2) xs)
        (2 * (x :: xs).length / 2 + 1)
        (setSlice (zeros (2 * (x :: xs).length) : List γ) 1 (2 * (x :: xs).length / 2) xs).length
        (NpE.flip (xs.map c))
      = [0] ++ xs ++ [0] ++ (xs.map c).reverse := by
  have h1 : 2 * (x :: xs).length / 2 = xs.length + 1 := by simp
  have h2 : 2 * (x :: xs).length = (xs.length + 1) + (xs.length + 1) := by simp; omega
  rw [h1, h2]
  simp only [setSlice, zeros, NpE.flip]
  have e1 : (List.replicate (xs.length + 1 + (xs.length + 1)) (0:γ)).take 1 = [0] := by
    have : min 1 (xs.length + 1 + (xs.length + 1)) = 1 := by omega
    simp [List.take_replicate, this]
  have e2 : (List.replicate (xs.length + 1 + (xs.length + 1)) (0:γ)).drop (xs.length + 1) = 0 :: List.replicate xs.length 0 := by
    rw [List.drop_replicate]; simp [List.replicate_succ]
  rw [e1, e2]
  have e3 : ([0] ++ xs ++ (0:γ) :: List.replicate xs.length 0).length = xs.length + 1 + 1 + xs.length := by simp; omega
  have e4 : ([0] ++ xs ++ (0:γ) :: List.replicate xs.length 0) = ([0] ++ xs ++ [0]) ++ List.replicate xs.length 0 := by simp
  rw [e3, e4]
  have e5 : ([0] ++ xs ++ [(0:γ)]).length = xs.length + 1 + 1 := by simp
  rw [List.take_append_of_le_length (by rw [e5]; exact Nat.le_refl _), List.take_of_length_le (by rw [e5]; exact Nat.le_refl _),
    List.drop_of_length_le (by simp; omega), List.append_nil]

theorem length_hermitian (xs : List γ) (c : γ → γ) :
    ([0] ++ xs ++ [0] ++ (xs.map c).reverse).length = 2 * (xs.length + 1) := by
  simp; omega

end Hermitian

section Argmax
variable {α γ : Type} [LT α] [DecidableLT α]

theorem argmaxFrom_map_congr (f g : γ → α) (h : ∀ z w, f z < f w ↔ g z < g w) (l : List γ) :
    ∀ (bi i : ℕ) (b : γ), Np.argmaxFrom bi (f b) i (l.map f) = Np.argmaxFrom bi (g b) i (l.map g) := by
  induction l with
  | nil => intro bi i b; rfl
  | cons x xs ih =>
    intro bi i b
    simp only [List.map_cons, Np.argmaxFrom, h b x]
    split
    · exact ih _ _ _
    · exact ih _ _ _

/-- `np.argmax` only depends on the order of the entries: `argmax (map f l) = argmax (map g l)` when `f`, `g` order alike -/
theorem argmax_map_congr (f g : γ → α) (h : ∀ z w, f z < f w ↔ g z < g w) (l : List γ) :
    Np.argmax (l.map f) = Np.argmax (l.map g) := by
  cases l with
  | nil => rfl
  | cons x xs => exact argmaxFrom_map_congr f g h xs 0 1 x

end Argmax

end EqsigVerif.NpE
