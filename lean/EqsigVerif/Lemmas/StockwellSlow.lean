import EqsigVerif.Model.Stockwell
import EqsigVerif.Prelude.NpR
import EqsigVerif.Lemmas.Stockwell
import EqsigVerif.Lemmas.Fns
/-!
# The tail of `transform_slow` (`aa[:-ith]`, row-wise `ifft`, slice store into `np.zeros_like(aa)`, `flipud`) on a rectangular array,
for `Props/C15GenSlowIth.lean`
-/
set_option linter.unusedSectionVars false
set_option linter.unusedVariables false
set_option linter.unusedSimpArgs false
namespace EqsigVerif.Lemmas.StockwellSlow
open EqsigVerif EqsigVerif.Cplx EqsigVerif.Wire EqsigVerif.Model.Stockwell

/-- row-wise inverse transform of a rectangular array (same as `Props.C15.ifftRows_ok`, restated here so that this file does not import a Props file) -/
theorem ifftRows_ok' (tw : ℕ → ℕ → ℂ) (M : List (List ℂ)) (N : ℕ) (hN : N ≠ 0) (h : ∀ row ∈ M, row.length = N) :
    NpR.ifftRowsE (α := ℝ) tw M = .ok (M.map (fun row => idft tw row N)) := by
  unfold NpR.ifftRowsE
  apply Lemmas.Fns.mapM_ok
  intro row hrow
  simp only [NpE.ifft, h row hrow, hN, if_false]

theorem pyIdx_le (n : ℕ) (b : ℤ) : NpR.pyIdx n b ≤ n := by
  simp only [NpR.pyIdx]; split_ifs <;> omega

/-- the tail of `transform_slow` on a rectangular product array `P` (`nd2` rows of length `N ≠ 0`): slice, row-wise inverse transform -/
theorem slow_ifft (tw : ℕ → ℕ → ℂ) (P : List (List ℂ)) (N : ℕ) (hN : N ≠ 0) (hrow : ∀ row ∈ P, row.length = N) (ith : ℤ) :
    NpR.ifftRowsE (α := ℝ) tw (NpR.pyTo P (-ith)) =
      .ok ((P.take (NpR.pyIdx P.length (-ith))).map (fun row => idft (α := ℝ) tw row N)) := by
  unfold NpR.pyTo
  exact ifftRows_ok' tw _ N hN (fun row h => hrow row (List.mem_of_mem_take h))

/-- … the slice store into `np.zeros_like(aa)` -/
theorem slow_store (P : List (List ℂ)) (N : ℕ) (hrow : ∀ row ∈ P, row.length = N) (ith : ℤ) (f : List ℂ → List ℂ) :
    NpR.setSlicePyE (P.map (fun row => row.map (fun _ => (0 : ℂ)))) (0 : ℤ) (-ith) ((P.take (NpR.pyIdx P.length (-ith))).map f) =
      .ok ((P.take (NpR.pyIdx P.length (-ith))).map f ++
        List.replicate (P.length - NpR.pyIdx P.length (-ith)) (List.replicate N (0 : ℂ))) := by
  have hk := pyIdx_le P.length (-ith)
  have h0 : NpR.pyIdx P.length (0 : ℤ) = 0 := by simp [NpR.pyIdx]
  have hl : ((P.take (NpR.pyIdx P.length (-ith))).map f).length = NpR.pyIdx P.length (-ith) - 0 := by
    simp only [List.length_map, List.length_take]; omega
  simp only [NpR.setSlicePyE, List.length_map, h0, hl, if_true, List.take_zero, List.nil_append, Nat.zero_add, Nat.sub_zero]
  congr 2
  rw [List.eq_replicate_iff]
  refine ⟨by simp, ?_⟩
  intro b hb
  rw [← List.map_drop, List.mem_map] at hb
  obtain ⟨row, hr, rfl⟩ := hb
  rw [List.eq_replicate_iff]
  refine ⟨by simp [hrow row (List.mem_of_mem_drop hr)], ?_⟩
  intro z hz
  rw [List.mem_map] at hz
  obtain ⟨_, _, rfl⟩ := hz
  rfl

/-- … and the flip -/
theorem slow_flip (P : List (List ℂ)) (k c : ℕ) (hk : k ≤ P.length) (f : List ℂ → List ℂ) (z : List ℂ) :
    NpE.flip ((P.take k).map f ++ List.replicate c z) = List.replicate c z ++ ((P.map f).reverse).drop (P.length - k) := by
  simp only [NpE.flip, List.reverse_append, List.reverse_replicate]
  congr 1
  rw [List.map_take, List.reverse_take, List.length_map]

end EqsigVerif.Lemmas.StockwellSlow
