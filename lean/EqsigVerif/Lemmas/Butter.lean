import EqsigVerif.Model.Butter
import EqsigVerif.Lemmas.CplxC
import Mathlib.Analysis.SpecialFunctions.Trigonometric.Basic
import Mathlib.Analysis.SpecialFunctions.Pow.Complex
import Mathlib.RingTheory.RootsOfUnity.Complex
import Mathlib.FieldTheory.KummerExtension
import Mathlib.Tactic.Ring
import Mathlib.Tactic.FieldSimp
import Mathlib.Tactic.Linarith
/-!
# Lemmas for `Model/Butter.lean` over Mathlib's `ℝ`/`ℂ`: the analytic Butterworth gain (C17)
-/
set_option linter.unusedSectionVars false
set_option linter.unusedVariables false
noncomputable section
namespace EqsigVerif.Butter
open Complex Finset EqsigVerif.Cplx EqsigVerif.Model.Butter
open EqsigVerif.Model.Single (FilterType)

/-- the transcendental functions over `ℝ`/`ℂ`; the complex square root is a parameter (any function with
`cs w * cs w = w`, e.g. the principal root `w ^ (1/2)`) -/
def fnsC (cs : ℂ → ℂ) : Fns ℝ ℂ where
  pi := Real.pi
  tan := Real.tan
  sqrt := Real.sqrt
  cis := fun t => cexp (t * I)
  csqrt := cs

/-- the principal complex square root -/
def csqrtC (w : ℂ) : ℂ := w ^ (1 / 2 : ℂ)

theorem csqrtC_mul_self (w : ℂ) : csqrtC w * csqrtC w = w := by
  unfold csqrtC
  rw [← sq, show (1 / 2 : ℂ) = ((2 : ℕ) : ℂ)⁻¹ by norm_num]
  exact Complex.cpow_nat_inv_pow w two_ne_zero

/-! ## list products -/

theorem prodL_eq (l : List ℂ) : prodL l = l.prod := by
  induction l with
  | nil => rfl
  | cons x xs ih => simp [prodL, ih]

theorem list_range_prod {M : Type*} [CommMonoid M] (f : ℕ → M) (n : ℕ) :
    ((List.range n).map f).prod = ∏ j ∈ Finset.range n, f j := by
  induction n with
  | zero => simp
  | succ n ih => rw [List.range_succ, List.map_append, List.prod_append, ih, Finset.prod_range_succ]; simp

/-- angle of the `j`-th Butterworth pole -/
def theta (n j : ℕ) : ℝ := Real.pi * (((2 * j + 1 : ℕ) : ℝ) - (n : ℝ)) / ((2 * n : ℕ) : ℝ)

/-- the `j`-th pole of the analog prototype -/
def pole (n j : ℕ) : ℂ := -cexp ((theta n j : ℝ) * I)

theorem buttap_p (cs : ℂ → ℂ) (n : ℕ) : (buttap (fnsC cs) n).p = (List.range n).map (pole n) := rfl
theorem buttap_z (cs : ℂ → ℂ) (n : ℕ) : (buttap (fnsC cs) n).z = [] := rfl
theorem buttap_k (cs : ℂ → ℂ) (n : ℕ) : (buttap (fnsC cs) n).k = 1 := rfl

/-- the Butterworth polynomial `B_n(s) = Π_j (s − p_j)` -/
def bpoly (n : ℕ) (s : ℂ) : ℂ := ∏ j ∈ Finset.range n, (s - pole n j)

theorem theta_reflect (n j : ℕ) (hj : j < n) : theta n (n - 1 - j) = -theta n j := by
  unfold theta
  have h : ((2 * (n - 1 - j) + 1 : ℕ) : ℝ) = 2 * (n : ℝ) - 2 * (j : ℝ) - 1 := by
    have : 2 * (n - 1 - j) + 1 + 2 * j + 1 = 2 * n := by omega
    have h2 : ((2 * (n - 1 - j) + 1 + 2 * j + 1 : ℕ) : ℝ) = ((2 * n : ℕ) : ℝ) := by rw [this]
    push_cast at h2 ⊢
    linarith
  rw [h]
  push_cast
  ring

theorem conj_pole (n j : ℕ) (hj : j < n) : starRingEnd ℂ (pole n j) = pole n (n - 1 - j) := by
  unfold pole
  rw [theta_reflect n j hj, map_neg, ← Complex.exp_conj]
  congr 2
  simp [Complex.conj_ofReal]

/-- `conj B_n(s) = B_n(conj s)`: the pole set is closed under conjugation -/
theorem conj_bpoly (n : ℕ) (s : ℂ) : starRingEnd ℂ (bpoly n s) = bpoly n (starRingEnd ℂ s) := by
  unfold bpoly
  rw [map_prod, ← Finset.prod_range_reflect]
  apply Finset.prod_congr rfl
  intro j hj
  have hj' : j < n := Finset.mem_range.mp hj
  rw [map_sub, conj_pole n _ (by omega)]
  congr 2
  omega

theorem pole_sq (n j : ℕ) (hn : 0 < n) :
    pole n j ^ 2 = cexp (2 * Real.pi * I / n) ^ j * cexp (Real.pi * (1 - (n : ℂ)) / n * I) := by
  unfold pole theta
  rw [neg_sq, ← Complex.exp_nat_mul, ← Complex.exp_nat_mul, ← Complex.exp_add]
  congr 1
  have : (n : ℂ) ≠ 0 := Nat.cast_ne_zero.mpr hn.ne'
  push_cast
  field_simp
  ring

/-- `B_n(s)·B_n(−s) = 1 + (−s²)ⁿ` — the defining property of the Butterworth poles (`n ≥ 1`) -/
theorem bpoly_mul_neg (n : ℕ) (hn : 0 < n) (s : ℂ) : bpoly n s * bpoly n (-s) = 1 + (-(s ^ 2)) ^ n := by
  unfold bpoly
  rw [← Finset.prod_mul_distrib]
  have hζ := Complex.isPrimitiveRoot_exp n hn.ne'
  set c : ℂ := cexp (Real.pi * (1 - (n : ℂ)) / n * I) with hc
  have hcn : c ^ n = -(-1) ^ n := by
    rw [hc, ← Complex.exp_nat_mul]
    have hne : (n : ℂ) ≠ 0 := Nat.cast_ne_zero.mpr hn.ne'
    have : (n : ℂ) * (Real.pi * (1 - (n : ℂ)) / n * I) = Real.pi * I - n * (Real.pi * I) := by
      field_simp
    rw [this, Complex.exp_sub, Complex.exp_pi_mul_I, Complex.exp_nat_mul, Complex.exp_pi_mul_I]
    rcases Nat.even_or_odd n with h | h
    · simp [h.neg_one_pow]
    · simp [h.neg_one_pow]
  have key := congrArg (Polynomial.eval (s ^ 2)) (X_pow_sub_C_eq_prod hζ hn hcn)
  simp only [Polynomial.eval_sub, Polynomial.eval_pow, Polynomial.eval_X, Polynomial.eval_C,
    Polynomial.eval_prod] at key
  have : ∀ j ∈ Finset.range n, (s - pole n j) * (-s - pole n j)
      = (-1) * (s ^ 2 - cexp (2 * Real.pi * I / n) ^ j * c) := by
    intro j _
    rw [← pole_sq n j hn]
    ring
  rw [Finset.prod_congr rfl this, Finset.prod_mul_distrib, ← key, Finset.prod_const, Finset.card_range]
  rcases Nat.even_or_odd n with h | h
  · rw [h.neg_one_pow, h.neg_pow]; ring
  · rw [h.neg_one_pow, h.neg_pow]; ring

/-- **analog prototype**: `|B_n(iΩ)|² = 1 + Ω^{2n}` for every order `n ≥ 1` and every real `Ω` -/
theorem normSq_bpoly (n : ℕ) (hn : 0 < n) (Ω : ℝ) : Complex.normSq (bpoly n (Ω * I)) = 1 + Ω ^ (2 * n) := by
  have h1 : ((Complex.normSq (bpoly n (Ω * I)) : ℝ) : ℂ) = bpoly n (Ω * I) * bpoly n (-(Ω * I)) := by
    rw [Complex.normSq_eq_conj_mul_self, conj_bpoly, mul_comm]
    congr 2
    simp [Complex.conj_ofReal]
  rw [bpoly_mul_neg n hn] at h1
  have h2 : (-((Ω * I : ℂ) ^ 2)) = ((Ω ^ 2 : ℝ) : ℂ) := by
    rw [mul_pow, Complex.I_sq]; push_cast; ring
  rw [h2, ← Complex.ofReal_pow, ← pow_mul] at h1
  exact_mod_cast h1

end EqsigVerif.Butter
