import EqsigVerif.Model.Sdof
import Mathlib.Tactic.Ring
import Mathlib.Algebra.Field.Basic
/-!
# Lemmas about the Nigam & Jennings recurrence model (`Model/Sdof.lean`), for any propagator `AB`
over any commutative ring: lengths, the one-step recurrence at an index, linearity, causality
(`take`), zero-prefix shift, third series.  (C01.d/e, C02.a–d.)
-/
set_option linter.unusedSectionVars false
set_option linter.unusedVariables false
namespace EqsigVerif.Model.Sdof

/-! ## spec-level helpers used in the statements -/
section Defs
variable {α : Type}

/-- `c•a + d•b`, sample by sample -/
def linL [Add α] [Mul α] (c d : α) (a b : List α) : List α := List.zipWith (fun p q => c * p + d * q) a b

/-- `c•r + d•s` on the three series of one oscillator -/
def lin3 [Add α] [Mul α] (c d : α) (r s : List α × List α × List α) : List α × List α × List α :=
  (linL c d r.1 s.1, linL c d r.2.1 s.2.1, linL c d r.2.2 s.2.2)

/-- a function applied to each of the three series of one oscillator -/
def map3 {β : Type} (f : List α → List β) (r : List α × List α × List α) : List β × List β × List β :=
  (f r.1, f r.2.1, f r.2.2)

/-- the row returned for a leading zero period: zero `u`, `v`, negated record as `a` -/
def zeroRow [Neg α] [OfNat α 0] (acc : List α) : List α × List α × List α :=
  ((acc.map (fun x => -x)).map (fun _ => 0), (acc.map (fun x => -x)).map (fun _ => 0), acc.map (fun x => -x))

end Defs

section Ring
variable {α : Type} [CommRing α]

@[simp] theorem length_runFrom (m : AB α) (x : α × α) (ai : α) (l : List α) :
    (runFrom m x ai l).length = l.length := by
  induction l generalizing x ai with
  | nil => rfl
  | cons a rest ih => simp [runFrom, ih]

@[simp] theorem length_run (m : AB α) (l : List α) : (run m l).length = l.length := by
  cases l <;> simp [run]

@[simp] theorem length_accRow (xi w : α) (uv : List (α × α)) : (accRow xi w uv).length = uv.length := by
  simp [accRow]

/-! ### the recurrence at an index -/

theorem runFrom_getElem_zero (m : AB α) (x : α × α) (ai : α) (l : List α) (h : 0 < l.length) :
    (runFrom m x ai l)[0]'(by simpa using h) = step m x ai l[0] := by
  cases l with
  | nil => simp at h
  | cons a rest => simp [runFrom]

theorem runFrom_getElem_succ (m : AB α) (x : α × α) (ai : α) (l : List α) (i : Nat) (h : i + 1 < l.length) :
    (runFrom m x ai l)[i + 1]'(by simpa using h) =
      step m ((runFrom m x ai l)[i]'(by simp; omega)) (l[i]'(by omega)) l[i + 1] := by
  induction l generalizing x ai i with
  | nil => simp at h
  | cons a rest ih =>
    cases i with
    | zero =>
      simp only [runFrom, List.getElem_cons_succ, List.getElem_cons_zero]
      rw [runFrom_getElem_zero _ _ _ _ (by simpa using h)]
    | succ j =>
      simp only [runFrom, List.getElem_cons_succ]
      exact ih _ _ j (by simpa using h)

theorem run_getElem_zero (m : AB α) (l : List α) (h : 0 < l.length) :
    (run m l)[0]'(by simpa using h) = (0, 0) := by
  cases l with
  | nil => simp at h
  | cons a rest => simp [run]

/-- `x_{i+1} = A x_i + B (acc_i, acc_{i+1})` (Eq 2.7a) at every index of the series -/
theorem run_getElem_succ (m : AB α) (l : List α) (i : Nat) (h : i + 1 < l.length) :
    (run m l)[i + 1]'(by simpa using h) =
      step m ((run m l)[i]'(by simp; omega)) (l[i]'(by omega)) l[i + 1] := by
  cases l with
  | nil => simp at h
  | cons a rest =>
    cases i with
    | zero =>
      simp only [run, List.getElem_cons_succ, List.getElem_cons_zero]
      rw [runFrom_getElem_zero _ _ _ _ (by simpa using h)]
    | succ j =>
      simp only [run, List.getElem_cons_succ]
      exact runFrom_getElem_succ _ _ _ _ j (by simpa using h)

/-! ### C02.a linearity -/

theorem step_lin (m : AB α) (c d : α) (x y : α × α) (a a' b b' : α) :
    step m (c * x.1 + d * y.1, c * x.2 + d * y.2) (c * a + d * b) (c * a' + d * b')
      = (c * (step m x a a').1 + d * (step m y b b').1, c * (step m x a a').2 + d * (step m y b b').2) := by
  simp only [step]; ext <;> simp <;> ring

/-- `c•s + d•t` on state series -/
def linUV (c d : α) (s t : List (α × α)) : List (α × α) :=
  List.zipWith (fun s t => (c * s.1 + d * t.1, c * s.2 + d * t.2)) s t

theorem runFrom_lin (m : AB α) (c d : α) (x y : α × α) (a b : α) (l l' : List α) (hl : l.length = l'.length) :
    runFrom m (c * x.1 + d * y.1, c * x.2 + d * y.2) (c * a + d * b) (linL c d l l')
      = linUV c d (runFrom m x a l) (runFrom m y b l') := by
  unfold linL linUV
  induction l generalizing x y a b l' with
  | nil => cases l' <;> simp_all [runFrom]
  | cons p rest ih =>
    cases l' with
    | nil => simp at hl
    | cons q rest' =>
      simp only [List.zipWith_cons_cons, runFrom]
      rw [step_lin]
      congr 1
      exact ih _ _ p q rest' (by simpa using hl)

theorem run_lin (m : AB α) (c d : α) (l l' : List α) (hl : l.length = l'.length) :
    run m (linL c d l l') = linUV c d (run m l) (run m l') := by
  cases l with
  | nil => cases l' <;> simp_all [run, linL, linUV]
  | cons p rest =>
    cases l' with
    | nil => simp at hl
    | cons q rest' =>
      have h := runFrom_lin m c d (0, 0) (0, 0) p q rest rest' (by simpa using hl)
      simp only [mul_zero, add_zero] at h
      simp only [linL, linUV, List.zipWith_cons_cons, run, mul_zero, add_zero] at h ⊢
      rw [h]

theorem map_fst_linUV (c d : α) (s t : List (α × α)) :
    (linUV c d s t).map (·.1) = linL c d (s.map (·.1)) (t.map (·.1)) := by
  simp [linUV, linL, List.map_zipWith, List.zipWith_map]

theorem map_snd_linUV (c d : α) (s t : List (α × α)) :
    (linUV c d s t).map (·.2) = linL c d (s.map (·.2)) (t.map (·.2)) := by
  simp [linUV, linL, List.map_zipWith, List.zipWith_map]

theorem accRow_linUV (xi w c d : α) (s t : List (α × α)) :
    accRow xi w (linUV c d s t) = linL c d (accRow xi w s) (accRow xi w t) := by
  simp only [accRow, linUV, linL, List.map_zipWith, List.zipWith_map]
  congr 1; funext a b; ring

/-- C02.a on one oscillator: all three series are linear in the record, for any propagator -/
theorem rowFor_lin (ab : α → AB α) (xi w c d : α) (a b : List α) (hl : a.length = b.length) :
    rowFor ab xi w (linL c d a b) = lin3 c d (rowFor ab xi w a) (rowFor ab xi w b) := by
  simp only [rowFor, lin3, run_lin _ _ _ _ _ hl, map_fst_linUV, map_snd_linUV, accRow_linUV]

theorem map_neg_linL (c d : α) (a b : List α) :
    (linL c d a b).map (fun x => -x) = linL c d (a.map (fun x => -x)) (b.map (fun x => -x)) := by
  simp only [linL, List.map_zipWith, List.zipWith_map]
  congr 1; funext p q; ring

theorem zeroRow_lin (c d : α) (a b : List α) :
    zeroRow (linL c d a b) = lin3 c d (zeroRow a) (zeroRow b) := by
  simp only [zeroRow, lin3, map_neg_linL]
  simp [linL, List.map_zipWith, List.zipWith_map]

/-! ### C02.b causality -/

theorem runFrom_take (m : AB α) (x : α × α) (ai : α) (l : List α) (k : Nat) :
    (runFrom m x ai l).take k = runFrom m x ai (l.take k) := by
  induction l generalizing x ai k with
  | nil => simp [runFrom]
  | cons a rest ih =>
    cases k with
    | zero => simp [runFrom]
    | succ k => simp [runFrom, ih]

theorem run_take (m : AB α) (l : List α) (k : Nat) : (run m l).take k = run m (l.take k) := by
  cases l with
  | nil => simp [run]
  | cons a rest =>
    cases k with
    | zero => simp [run]
    | succ k => simp [run, runFrom_take]

/-- C02.b on one oscillator -/
theorem rowFor_take (ab : α → AB α) (xi w : α) (a : List α) (k : Nat) :
    rowFor ab xi w (a.take k) = map3 (List.take k) (rowFor ab xi w a) := by
  simp only [rowFor, map3, accRow, ← run_take, List.map_take]

theorem zeroRow_take (a : List α) (k : Nat) : zeroRow (a.take k) = map3 (List.take k) (zeroRow a) := by
  simp only [zeroRow, map3, List.map_take]

/-! ### C02.c zero-prefix shift -/

theorem step_zero (m : AB α) : step m ((0 : α), (0 : α)) 0 0 = (0, 0) := by simp [step]

theorem runFrom_zeros (m : AB α) (k : Nat) (l : List α) :
    runFrom m (0, 0) 0 (List.replicate k 0 ++ l) = List.replicate k (0, 0) ++ runFrom m (0, 0) 0 l := by
  induction k with
  | zero => simp
  | succ k ih =>
    simp only [List.replicate_succ, List.cons_append, runFrom]
    rw [step_zero, ih]

/-- prepending `k` zeros to a record that starts at zero delays the state series by `k` samples -/
theorem run_zeros (m : AB α) (k : Nat) (l : List α) (h0 : l.head? = some 0) :
    run m (List.replicate k 0 ++ l) = List.replicate k (0, 0) ++ run m l := by
  cases l with
  | nil => simp at h0
  | cons a rest =>
    have ha : a = 0 := by simpa using h0
    subst ha
    cases k with
    | zero => simp
    | succ k =>
      simp only [List.replicate_succ, List.cons_append, run]
      rw [runFrom_zeros]
      simp only [runFrom, step_zero]

theorem accRow_replicate_zero (xi w : α) (k : Nat) :
    accRow xi w (List.replicate k ((0 : α), (0 : α))) = List.replicate k 0 := by
  simp [accRow]

theorem accRow_append (xi w : α) (s t : List (α × α)) :
    accRow xi w (s ++ t) = accRow xi w s ++ accRow xi w t := by
  simp [accRow]

/-- C02.c on one oscillator -/
theorem rowFor_zeros (ab : α → AB α) (xi w : α) (k : Nat) (a : List α) (h0 : a.head? = some 0) :
    rowFor ab xi w (List.replicate k 0 ++ a) = map3 (List.replicate k 0 ++ ·) (rowFor ab xi w a) := by
  simp only [rowFor, map3, run_zeros _ _ _ h0, List.map_append, List.map_replicate, accRow_append,
    accRow_replicate_zero]

theorem map_neg_zeros (k : Nat) (a : List α) :
    (List.replicate k 0 ++ a).map (fun x => -x) = List.replicate k 0 ++ a.map (fun x => -x) := by
  simp

theorem zeroRow_zeros (k : Nat) (a : List α) :
    zeroRow (List.replicate k 0 ++ a) = map3 (List.replicate k 0 ++ ·) (zeroRow a) := by
  simp [zeroRow, map3]

/-! ### scaling (special case of linearity with one record) -/

theorem step_smul (m : AB α) (c : α) (x : α × α) (a a' : α) :
    step m (c * x.1, c * x.2) (c * a) (c * a') = (c * (step m x a a').1, c * (step m x a a').2) := by
  simp only [step]; ext <;> simp <;> ring

theorem runFrom_smul (m : AB α) (c : α) (x : α × α) (a : α) (l : List α) :
    runFrom m (c * x.1, c * x.2) (c * a) (l.map (c * ·)) = (runFrom m x a l).map (fun s => (c * s.1, c * s.2)) := by
  induction l generalizing x a with
  | nil => simp [runFrom]
  | cons p rest ih =>
    simp only [List.map_cons, runFrom]
    rw [step_smul]
    congr 1
    exact ih _ p

theorem run_smul (m : AB α) (c : α) (l : List α) :
    run m (l.map (c * ·)) = (run m l).map (fun s => (c * s.1, c * s.2)) := by
  cases l with
  | nil => simp [run]
  | cons p rest =>
    have h := runFrom_smul m c (0, 0) p rest
    simp only [mul_zero] at h
    simp only [List.map_cons, run, mul_zero, h]

theorem rowFor_smul (ab : α → AB α) (xi w c : α) (a : List α) :
    rowFor ab xi w (a.map (c * ·)) = map3 (List.map (c * ·)) (rowFor ab xi w a) := by
  simp only [rowFor, map3, run_smul, accRow, List.map_map]
  refine Prod.ext rfl (Prod.ext rfl ?_)
  apply List.map_congr_left
  intro s _
  simp only [Function.comp]
  ring

/-! ### C01.d third series and shapes -/

theorem accRow_eq_zipWith (xi w : α) (uv : List (α × α)) :
    accRow xi w uv = List.zipWith (fun u v => -(2 * xi * w * v + w ^ 2 * u)) (uv.map (·.1)) (uv.map (·.2)) := by
  simp only [accRow, List.zipWith_map, List.zipWith_self]
  apply List.map_congr_left
  intro x _
  ring

theorem rowFor_acc (ab : α → AB α) (xi w : α) (nacc : List α) :
    (rowFor ab xi w nacc).2.2 =
      List.zipWith (fun u v => -(2 * xi * w * v + w ^ 2 * u)) (rowFor ab xi w nacc).1 (rowFor ab xi w nacc).2.1 := by
  simp only [rowFor, accRow_eq_zipWith]

theorem rowFor_lengths (ab : α → AB α) (xi w : α) (nacc : List α) :
    (rowFor ab xi w nacc).1.length = nacc.length ∧ (rowFor ab xi w nacc).2.1.length = nacc.length ∧
      (rowFor ab xi w nacc).2.2.length = nacc.length := by
  simp [rowFor]

theorem zeroRow_lengths (acc : List α) :
    (zeroRow acc).1.length = acc.length ∧ (zeroRow acc).2.1.length = acc.length ∧
      (zeroRow acc).2.2.length = acc.length := by
  simp [zeroRow]

end Ring

/-! ## the full `response` (needs `/` for `w = c / T`) -/
section Field
variable {α : Type} [Field α]

/-- the row of `response` for one non-zero period `p`: depends on `p`, `xi`, `c`, `ab` and the record only -/
def rowOf (c : α) (ab : α → AB α) (xi : α) (acc : List α) (p : α) : List α × List α × List α :=
  rowFor ab xi (c / p) (acc.map (fun x => -x))

variable (c : α) (isZero : α → Bool) (ab : α → AB α) (xi : α)

theorem response_nil (acc : List α) : response c isZero ab xi acc [] = none := rfl

theorem response_cons_zero (acc : List α) (p0 : α) (rest : List α) (h : isZero p0 = true) :
    response c isZero ab xi acc (p0 :: rest) = some (zeroRow acc :: rest.map (rowOf c ab xi acc)) := by
  simp [response, h, zeroRow, rowOf]

theorem response_cons_nonzero (acc : List α) (p0 : α) (rest : List α) (h : isZero p0 = false) :
    response c isZero ab xi acc (p0 :: rest) = some ((p0 :: rest).map (rowOf c ab xi acc)) := by
  simp [response, h, rowOf]

/-- a transformation `F` of the record that acts as `G` on every row acts as `G` on the response -/
theorem response_map (F : List α → List α) (G : List α × List α × List α → List α × List α × List α)
    (acc : List α) (hrow : ∀ p, rowOf c ab xi (F acc) p = G (rowOf c ab xi acc p))
    (hzero : zeroRow (F acc) = G (zeroRow acc)) (ps : List α) :
    response c isZero ab xi (F acc) ps = (response c isZero ab xi acc ps).map (List.map G) := by
  cases ps with
  | nil => rfl
  | cons p0 rest =>
    cases h : isZero p0 with
    | true =>
      rw [response_cons_zero _ _ _ _ _ _ _ h, response_cons_zero _ _ _ _ _ _ _ h]
      simp [hzero, hrow]
    | false =>
      rw [response_cons_nonzero _ _ _ _ _ _ _ h, response_cons_nonzero _ _ _ _ _ _ _ h]
      simp [hrow]

theorem response_lin (a b : List α) (hl : a.length = b.length) (k d : α) (ps : List α) :
    response c isZero ab xi (linL k d a b) ps =
      (response c isZero ab xi a ps).bind fun ra =>
        (response c isZero ab xi b ps).map fun rb => List.zipWith (lin3 k d) ra rb := by
  have hrow : ∀ p, rowOf c ab xi (linL k d a b) p = lin3 k d (rowOf c ab xi a p) (rowOf c ab xi b p) := by
    intro p
    simp only [rowOf, map_neg_linL]
    exact rowFor_lin _ _ _ _ _ _ _ (by simpa using hl)
  cases ps with
  | nil => rfl
  | cons p0 rest =>
    cases h : isZero p0 with
    | true =>
      simp only [response_cons_zero _ _ _ _ _ _ _ h, Option.bind_some, Option.map_some, List.zipWith_cons_cons,
        zeroRow_lin, List.zipWith_map]
      simp [hrow]
    | false =>
      simp only [response_cons_nonzero _ _ _ _ _ _ _ h, Option.bind_some, Option.map_some,
        List.zipWith_map]
      simp [hrow]

theorem response_isSome_iff (acc ps : List α) :
    (response c isZero ab xi acc ps).isSome ↔ ps ≠ [] := by
  cases ps with
  | nil => simp [response]
  | cons p0 rest => cases h : isZero p0 <;> simp [response, h]

/-- shape: one row per period, every series as long as the record -/
theorem response_shape (acc ps : List α) (r : List (List α × List α × List α))
    (hr : response c isZero ab xi acc ps = some r) :
    r.length = ps.length ∧ ∀ row ∈ r, row.1.length = acc.length ∧ row.2.1.length = acc.length ∧
      row.2.2.length = acc.length := by
  have hrow : ∀ p, (rowOf c ab xi acc p).1.length = acc.length ∧ (rowOf c ab xi acc p).2.1.length = acc.length ∧
      (rowOf c ab xi acc p).2.2.length = acc.length := by
    intro p
    have := rowFor_lengths ab xi (c / p) (acc.map (fun x => -x))
    simpa [rowOf] using this
  cases ps with
  | nil => simp [response] at hr
  | cons p0 rest =>
    cases h : isZero p0 with
    | true =>
      rw [response_cons_zero _ _ _ _ _ _ _ h, Option.some.injEq] at hr
      subst hr
      refine ⟨by simp, ?_⟩
      intro row hrow'
      rcases List.mem_cons.mp hrow' with rfl | hm
      · exact zeroRow_lengths acc
      · obtain ⟨p, _, rfl⟩ := List.mem_map.mp hm
        exact hrow p
    | false =>
      rw [response_cons_nonzero _ _ _ _ _ _ _ h, Option.some.injEq] at hr
      subst hr
      refine ⟨by simp, ?_⟩
      intro row hrow'
      obtain ⟨p, _, rfl⟩ := List.mem_map.mp hrow'
      exact hrow p

/-- the row of a non-zero period, wherever it stands in the period list -/
theorem response_row (acc ps : List α) (r : List (List α × List α × List α))
    (hr : response c isZero ab xi acc ps = some r) (j : Nat) (p : α) (hj : ps[j]? = some p)
    (hp : isZero p = false) : r[j]? = some (rowOf c ab xi acc p) := by
  cases ps with
  | nil => simp at hj
  | cons q0 rest =>
    cases hq : isZero q0 with
    | false =>
      rw [response_cons_nonzero _ _ _ _ _ _ _ hq, Option.some.injEq] at hr
      subst hr
      rw [List.getElem?_map, hj]; rfl
    | true =>
      rw [response_cons_zero _ _ _ _ _ _ _ hq, Option.some.injEq] at hr
      subst hr
      cases j with
      | zero =>
        simp only [List.getElem?_cons_zero, Option.some.injEq] at hj
        rw [hj, hp] at hq; exact absurd hq (by simp)
      | succ n =>
        simp only [List.getElem?_cons_succ] at hj ⊢
        rw [List.getElem?_map, hj]; rfl

end Field

end EqsigVerif.Model.Sdof
