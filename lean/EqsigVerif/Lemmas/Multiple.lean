import EqsigVerif.Model.Multiple
import EqsigVerif.Lemmas.Single
import Mathlib.Data.Rat.Floor
import Mathlib.Tactic.IntervalCases
import Mathlib.Algebra.Order.Floor.Ring
/-!
# Lemmas for `Model/Multiple.lean` (C18)
-/
set_option linter.unusedSectionVars false
set_option linter.unusedVariables false
set_option linter.unusedSimpArgs false
namespace EqsigVerif.Model.Multiple
open EqsigVerif
open EqsigVerif.Wire (ErrKind)
open EqsigVerif.Model.Single

/-! ### means of shifted lists -/

theorem sum_map_sub (l : List ℚ) (d : ℚ) : (l.map (· - d)).sum = l.sum - l.length * d := by
  induction l with
  | nil => simp
  | cons x xs ih => simp only [List.map_cons, List.sum_cons, ih, List.length_cons]; push_cast; ring

theorem mean_map_sub (l : List ℚ) (d : ℚ) (hl : l ≠ []) : mean (l.map (· - d)) = mean l - d := by
  unfold mean
  rw [npSum_eq_sum, npSum_eq_sum, sum_map_sub, List.length_map]
  have : (l.length : ℚ) ≠ 0 := by
    have : l.length ≠ 0 := by simpa using hl
    exact_mod_cast this
  field_simp

theorem meanOpt_map_sub (l : List ℚ) (d : ℚ) : mean? (l.map (· - d)) = (mean? l).map (· - d) := by
  unfold mean?
  cases l with
  | nil => simp
  | cons x xs =>
    have h := mean_map_sub (x :: xs) d (by simp)
    simp only [List.map_cons] at h
    simp [h]

theorem pySlice_map {α β : Type} (f : α → β) (l : List α) (a b : ℤ) :
    pySlice (l.map f) a b = (pySlice l a b).map f := by
  simp [pySlice, List.map_drop, List.map_take]

theorem pySlice_nat {α : Type} (v : List α) (s e : ℕ) (he : e ≤ v.length) :
    pySlice v (s : ℤ) (e : ℤ) = (v.take e).drop s := by
  simp only [pySlice, normIdx_nat, Nat.min_eq_left he]
  by_cases hse : s ≤ v.length
  · rw [Nat.min_eq_left hse]
  · have h3 : v.length ≤ s := by omega
    rw [Nat.min_eq_right h3, List.drop_eq_nil_of_le (by simp),
      List.drop_eq_nil_of_le (by simp; omega)]

/-! ### `get_section_average` -/

theorem sectionAverageN_map_sub (s : List ℚ) (dt start end_ d : ℚ) :
    sectionAverageN (s.map (· - d)) dt start end_
      = (sectionAverageN s dt start end_).map (Option.map (· - d)) := by
  unfold sectionAverageN
  rw [List.length_map]
  cases h : timeIndices s.length dt start end_ with
  | error e => rfl
  | ok p =>
    obtain ⟨a, b⟩ := p
    simp only [Except.map, pySlice_map, meanOpt_map_sub]

theorem truncInt_of_nonneg (q : ℚ) (hq : 0 ≤ q) : truncInt q = ⌊q⌋ := by
  unfold truncInt
  have : ¬ q < 0 := not_lt.mpr hq
  simp only [this, if_false]
  rfl

/-! ### `same_start` -/

theorem allSome_spec {β : Type} (r : List (Option β)) (out : List β) (h : allSome r = some out) :
    r = out.map some := by
  induction r generalizing out with
  | nil => simp [allSome] at h; subst h; rfl
  | cons x xs ih =>
    cases x with
    | none => simp [allSome] at h
    | some y =>
      simp only [allSome] at h
      cases h2 : allSome xs with
      | none => simp [h2] at h
      | some r' =>
        simp only [h2, Option.some.injEq] at h
        subst h
        simp [ih r' h2]

theorem allSome_map_some {β : Type} (out : List β) : allSome (out.map some) = some out := by
  induction out with
  | nil => rfl
  | cons x xs ih => simp [allSome, ih]

/-- what the loop of `same_start` produces, position by position -/
theorem sameStartAux_spec (dt start end_ : ℚ) (masterAv : Option ℚ) (master : ℕ)
    (i : ℕ) (signals : List (List ℚ)) (r : List (Option (List ℚ)))
    (h : sameStartAux dt start end_ masterAv master i signals = .ok r) :
    r.length = signals.length ∧
    ∀ k s, signals[k]? = some s →
      (i + k = master → r[k]? = some (some s)) ∧
      (i + k ≠ master → ∃ sav, sectionAverageN s dt start end_ = .ok sav ∧
          r[k]? = some (shiftRecord s sav masterAv)) := by
  induction signals generalizing i r with
  | nil =>
    simp only [sameStartAux, Except.ok.injEq] at h
    subst h
    simp
  | cons s rest ih =>
    simp only [sameStartAux] at h
    by_cases hm : i ≠ master
    · simp only [hm, ne_eq, not_false_eq_true, if_true] at h
      cases hs : sectionAverageN s dt start end_ with
      | error e => simp [hs] at h
      | ok sav =>
        simp only [hs] at h
        cases hr : sameStartAux dt start end_ masterAv master (i + 1) rest with
        | error e => simp [hr] at h
        | ok r' =>
          simp only [hr, Except.ok.injEq] at h
          subst h
          obtain ⟨hl, hk⟩ := ih (i + 1) r' hr
          refine ⟨by simp [hl], ?_⟩
          intro k s' hk'
          cases k with
          | zero =>
            simp only [List.getElem?_cons_zero, Option.some.injEq] at hk'
            subst hk'
            exact ⟨fun h0 => absurd (by simpa using h0) hm, fun _ => ⟨sav, hs, by simp⟩⟩
          | succ k =>
            simp only [List.getElem?_cons_succ] at hk' ⊢
            have := hk k s' hk'
            rw [show i + 1 + k = i + (k + 1) by omega] at this
            exact this
    · have hm' : i = master := by simpa using hm
      simp only [hm', ne_eq, not_true_eq_false, if_false] at h
      cases hr : sameStartAux dt start end_ masterAv master (master + 1) rest with
      | error e => simp [hr] at h
      | ok r' =>
        simp only [hr, Except.ok.injEq] at h
        subst h
        obtain ⟨hl, hk⟩ := ih (master + 1) r' hr
        refine ⟨by simp [hl], ?_⟩
        intro k s' hk'
        cases k with
        | zero =>
          simp only [List.getElem?_cons_zero, Option.some.injEq] at hk'
          subst hk'
          exact ⟨fun _ => by simp, fun h0 => absurd (by omega) h0⟩
        | succ k =>
          simp only [List.getElem?_cons_succ] at hk' ⊢
          have := hk k s' hk'
          rw [show master + 1 + k = i + (k + 1) by omega] at this
          exact this

/-- the loop of `same_start` raises nothing when no section average raises -/
theorem sameStartAux_ok (dt start end_ : ℚ) (masterAv : Option ℚ) (master : ℕ)
    (i : ℕ) (signals : List (List ℚ))
    (h : ∀ s ∈ signals, ∃ a, sectionAverageN s dt start end_ = .ok a) :
    ∃ r, sameStartAux dt start end_ masterAv master i signals = .ok r := by
  induction signals generalizing i with
  | nil => exact ⟨[], rfl⟩
  | cons s rest ih =>
    obtain ⟨a, ha⟩ := h s (by simp)
    obtain ⟨r', hr'⟩ := ih (i + 1) (fun s' hs' => h s' (by simp [hs']))
    simp only [sameStartAux, ha, hr']
    by_cases hm : i ≠ master <;> simp [hm]

/-! ### `time_match`: the lag scan -/

/-- pure version of one lag loop -/
def scanPure (g : ℕ → ℚ) (lagOf : ℕ → ℤ) : List ℕ → ℚ × ℤ → ℚ × ℤ
  | [], st => st
  | i :: is, (md, mi) => scanPure g lagOf is (if g i < md then (g i, lagOf i) else (md, mi))

theorem scan_eq_pure (f : ℕ → Except ErrKind ℚ) (g : ℕ → ℚ) (lagOf : ℕ → ℤ) (is : List ℕ) (st : ℚ × ℤ)
    (h : ∀ i ∈ is, f i = .ok (g i)) : scan f lagOf is st = .ok (scanPure g lagOf is st) := by
  induction is generalizing st with
  | nil => rfl
  | cons i is ih =>
    obtain ⟨md, mi⟩ := st
    simp only [scan, h i (by simp), scanPure]
    exact ih _ (fun j hj => h j (by simp [hj]))

section Inv
variable (g : ℕ → ℚ) (lagOf : ℕ → ℤ) (dL : ℚ) (L : ℤ)

/-- every candidate with lag `L` has lagResidual `dL`, every other candidate a strictly larger one -/
def Sep (is : List ℕ) : Prop := ∀ i ∈ is, (lagOf i = L → g i = dL) ∧ (lagOf i ≠ L → dL < g i)

theorem scanPure_found (is : List ℕ) (h : Sep g lagOf dL L is) :
    scanPure g lagOf is (dL, L) = (dL, L) := by
  induction is with
  | nil => rfl
  | cons i is ih =>
    have hi := h i (by simp)
    simp only [scanPure]
    have : ¬ g i < dL := by
      by_cases hl : lagOf i = L
      · rw [hi.1 hl]; exact lt_irrefl _
      · exact not_lt.mpr (hi.2 hl).le
    simp only [this, if_false]
    exact ih (fun j hj => h j (by simp [hj]))

theorem scanPure_inv (is : List ℕ) (st : ℚ × ℤ) (h : Sep g lagOf dL L is)
    (hst : st = (dL, L) ∨ dL < st.1) :
    scanPure g lagOf is st = (dL, L) ∨ dL < (scanPure g lagOf is st).1 := by
  induction is generalizing st with
  | nil => exact hst
  | cons i is ih =>
    have hi := h i (by simp)
    have hrest : Sep g lagOf dL L is := fun j hj => h j (by simp [hj])
    rcases hst with hst | hst
    · left; rw [hst]; exact scanPure_found g lagOf dL L _ h
    · obtain ⟨md, mi⟩ := st
      simp only [scanPure]
      apply ih _ hrest
      by_cases hlt : g i < md
      · simp only [hlt, if_true]
        by_cases hl : lagOf i = L
        · left; rw [hi.1 hl, hl]
        · right; exact hi.2 hl
      · simp only [hlt, if_false]; right; exact hst

theorem scanPure_hit (is : List ℕ) (st : ℚ × ℤ) (h : Sep g lagOf dL L is)
    (hst : st = (dL, L) ∨ dL < st.1) (hex : ∃ i ∈ is, lagOf i = L) :
    scanPure g lagOf is st = (dL, L) := by
  induction is generalizing st with
  | nil => obtain ⟨i, hi, _⟩ := hex; simp at hi
  | cons i is ih =>
    have hi := h i (by simp)
    have hrest : Sep g lagOf dL L is := fun j hj => h j (by simp [hj])
    rcases hst with hst | hst
    · rw [hst]; exact scanPure_found g lagOf dL L _ h
    · obtain ⟨md, mi⟩ := st
      simp only [scanPure]
      by_cases hl : lagOf i = L
      · have : g i < md := by rw [hi.1 hl]; exact hst
        rw [if_pos this, hi.1 hl, hl]
        exact scanPure_found g lagOf dL L _ hrest
      · obtain ⟨j, hj, hjl⟩ := hex
        have hj' : j ∈ is := by
          rcases List.mem_cons.mp hj with rfl | hj'
          · exact absurd hjl hl
          · exact hj'
        apply ih _ hrest _ ⟨j, hj', hjl⟩
        by_cases hlt : g i < md
        · simp only [hlt, if_true]; right; exact hi.2 hl
        · simp only [hlt, if_false]; right; exact hst

end Inv

/-- abstract argmin property of the lag search: if the three families of residuals are numbers, the candidates with lag
`L` have lagResidual `dL` and all others a strictly larger one, and `L` is among the candidates, the search returns `L`. -/
theorem lagSearch_argmin (bm om : List ℚ) (S : ℕ) (L : ℤ) (dL r0 : ℚ) (a b : ℕ → ℚ)
    (h0 : ssd (pySlice bm 0 (-(S : ℤ))) (pySlice om 0 (-(S : ℤ))) = .ok r0)
    (h0' : ((0 : ℤ) = L → r0 = dL) ∧ ((0 : ℤ) ≠ L → dL < r0))
    (ha : ∀ i, i < S → resLag bm om S i = .ok (a i))
    (ha' : ∀ i, i < S → (((i : ℤ) = L → a i = dL) ∧ ((i : ℤ) ≠ L → dL < a i)))
    (hb : ∀ i, i < S → resLead bm om S i = .ok (b i))
    (hb' : ∀ i, i < S → ((-(i : ℤ) = L → b i = dL) ∧ (-(i : ℤ) ≠ L → dL < b i)))
    (hL : -(S : ℤ) < L ∧ L < S) :
    lagSearch bm om S = .ok L := by
  unfold lagSearch
  simp only [h0]
  rw [scan_eq_pure _ a _ _ _ (fun i hi => ha i (List.mem_range.mp hi))]
  simp only
  rw [scan_eq_pure _ b _ _ _ (fun i hi => hb i (List.mem_range.mp hi))]
  simp only
  have sepA : Sep a (fun i => (i : ℤ)) dL L (List.range S) := fun i hi => ha' i (List.mem_range.mp hi)
  have sepB : Sep b (fun i => -(i : ℤ)) dL L (List.range S) := fun i hi => hb' i (List.mem_range.mp hi)
  have st0 : ((r0, (0 : ℤ)) : ℚ × ℤ) = (dL, L) ∨ dL < ((r0, (0 : ℤ)) : ℚ × ℤ).1 := by
    by_cases hz : (0 : ℤ) = L
    · left; rw [h0'.1 hz, hz]
    · right; exact h0'.2 hz
  by_cases hpos : 0 ≤ L
  · have h1 := scanPure_hit a (fun i => (i : ℤ)) dL L (List.range S) (r0, 0) sepA st0
      ⟨L.toNat, List.mem_range.mpr (by omega), by omega⟩
    rw [h1, scanPure_found b _ dL L _ sepB]
  · have h1 := scanPure_inv a (fun i => (i : ℤ)) dL L (List.range S) (r0, 0) sepA st0
    have h2 := scanPure_hit b (fun i => -(i : ℤ)) dL L (List.range S) _ sepB h1
      ⟨L.natAbs, List.mem_range.mpr (by omega), by omega⟩
    rw [h2]

/-! ### `time_match`: the residuals as sums over the compared window -/

/-- `Σ_{k<W} (om[k+i] − bm[k])²` — the slave read `i` samples later -/
def lagSum (bm om : List ℚ) (W i : ℕ) : ℚ := ∑ k ∈ Finset.range W, (om.getD (k + i) 0 - bm.getD k 0) ^ 2

/-- `Σ_{k<W} (bm[k+i] − om[k])²` — the master read `i` samples later -/
def leadSum (bm om : List ℚ) (W i : ℕ) : ℚ := ∑ k ∈ Finset.range W, (bm.getD (k + i) 0 - om.getD k 0) ^ 2

/-- spec vocabulary of C18.d: lagResidual of the candidate lag `l` over the compared window of `W` samples -/
def lagResidual (bm om : List ℚ) (W : ℕ) (l : ℤ) : ℚ :=
  if 0 ≤ l then lagSum bm om W l.toNat else leadSum bm om W l.natAbs

theorem leadSum_zero (bm om : List ℚ) (W : ℕ) : leadSum bm om W 0 = lagSum bm om W 0 := by
  unfold leadSum lagSum
  apply Finset.sum_congr rfl
  intro k _
  simp only [Nat.add_zero]; ring

theorem residual_natCast (bm om : List ℚ) (W i : ℕ) : lagResidual bm om W (i : ℤ) = lagSum bm om W i := by
  unfold lagResidual
  have : (0 : ℤ) ≤ (i : ℤ) := by omega
  simp [this]

theorem residual_neg_natCast (bm om : List ℚ) (W i : ℕ) :
    lagResidual bm om W (-(i : ℤ)) = leadSum bm om W i := by
  cases i with
  | zero => simp only [Nat.cast_zero, neg_zero]; rw [leadSum_zero]; exact residual_natCast bm om W 0
  | succ j =>
    unfold lagResidual
    have : ¬ (0 : ℤ) ≤ -((j + 1 : ℕ) : ℤ) := by omega
    simp only [this, if_false]
    congr 1

theorem ssd_eq (a b : List ℚ) (W : ℕ) (ha : a.length = W) (hb : b.length = W) :
    ssd a b = .ok (∑ k ∈ Finset.range W, (a.getD k 0 - b.getD k 0) ^ 2) := by
  unfold ssd npSub?
  have hab : a.length = b.length := by omega
  simp only [hab, if_true]
  congr 1
  rw [npSum_eq_sum, list_sum_eq_range]
  have hlen : (Np.sq (Np.subL a b)).length = W := by simp [Np.sq, Np.subL, ha, hb]
  rw [hlen]
  apply Finset.sum_congr rfl
  intro k hk
  have hk' := Finset.mem_range.mp hk
  have h1 : k < a.length := by omega
  have h2 : k < b.length := by omega
  simp [Np.sq, Np.subL, List.getD_eq_getElem?_getD, List.getElem?_map, List.getElem?_zipWith,
    List.getElem?_eq_getElem h1, List.getElem?_eq_getElem h2]
  ring

theorem slice_base {α : Type} (x : List α) (n S : ℕ) (hx : x.length = n) (hS1 : 1 ≤ S) (hS : S ≤ n) :
    pySlice x 0 (-(S : ℤ)) = x.take (n - S) := by
  unfold pySlice normIdx
  have h1 : (-(S : ℤ)) < 0 := by omega
  have h2 : ¬ ((0 : ℤ) < 0) := by omega
  simp only [h1, h2, if_true, if_false, hx]
  have : ((n : ℤ) + -(S : ℤ)).toNat = n - S := by omega
  rw [this]
  simp

theorem slice_lag {α : Type} (x : List α) (n S i : ℕ) (hx : x.length = n) (hS : S ≤ n) (hi : i < S) :
    pySlice x (i : ℤ) (-(S : ℤ) + (i : ℤ)) = (x.take (n - S + i)).drop i := by
  unfold pySlice normIdx
  have h1 : (-(S : ℤ) + (i : ℤ)) < 0 := by omega
  have h2 : ¬ ((i : ℤ) < 0) := by omega
  simp only [h1, h2, if_true, if_false, hx]
  have e1 : ((n : ℤ) + (-(S : ℤ) + (i : ℤ))).toNat = n - S + i := by omega
  have e2 : min (i : ℤ).toNat n = i := by omega
  rw [e1, e2]

theorem getD_take_lt (l : List ℚ) (b k : ℕ) (hk : k < b) : (l.take b).getD k 0 = l.getD k 0 := by
  simp [List.getD_eq_getElem?_getD, List.getElem?_take, hk]

theorem resLag_eq (bm om : List ℚ) (n S i : ℕ) (hbm : bm.length = n) (hom : om.length = n)
    (hS : S ≤ n) (hi : i < S) : resLag bm om S i = .ok (lagSum bm om (n - S) i) := by
  unfold resLag
  rw [slice_lag om n S i hom hS hi, slice_base bm n S hbm (by omega) hS]
  rw [ssd_eq _ _ (n - S) (by simp [hom]; omega) (by simp [hbm])]
  congr 1
  apply Finset.sum_congr rfl
  intro k hk
  have hk' := Finset.mem_range.mp hk
  rw [getD_drop_take om i (n - S + i) k (by omega) (by omega), getD_take_lt bm _ k hk', Nat.add_comm i k]

theorem resLead_eq (bm om : List ℚ) (n S i : ℕ) (hbm : bm.length = n) (hom : om.length = n)
    (hS : S ≤ n) (hi : i < S) : resLead bm om S i = .ok (leadSum bm om (n - S) i) := by
  unfold resLead
  rw [slice_lag bm n S i hbm hS hi, slice_base om n S hom (by omega) hS]
  rw [ssd_eq _ _ (n - S) (by simp [hbm]; omega) (by simp [hom])]
  congr 1
  apply Finset.sum_congr rfl
  intro k hk
  have hk' := Finset.mem_range.mp hk
  rw [getD_drop_take bm i (n - S + i) k (by omega) (by omega), getD_take_lt om _ k hk', Nat.add_comm i k]

theorem res0_eq (bm om : List ℚ) (n S : ℕ) (hbm : bm.length = n) (hom : om.length = n)
    (hS1 : 1 ≤ S) (hS : S ≤ n) :
    ssd (pySlice bm 0 (-(S : ℤ))) (pySlice om 0 (-(S : ℤ))) = .ok (leadSum bm om (n - S) 0) := by
  rw [slice_base bm n S hbm hS1 hS, slice_base om n S hom hS1 hS]
  rw [ssd_eq _ _ (n - S) (by simp [hbm]) (by simp [hom])]
  congr 1
  apply Finset.sum_congr rfl
  intro k hk
  have hk' := Finset.mem_range.mp hk
  rw [getD_take_lt bm _ k hk', getD_take_lt om _ k hk', Nat.add_zero]

/-- C18.d core: a strict unique minimum of the lagResidual among the candidate lags `−steps < l < steps` is what the
search returns (records of equal length `n ≥ steps`). -/
theorem lagSearch_unique_min (bm om : List ℚ) (n S : ℕ) (L : ℤ) (hbm : bm.length = n) (hom : om.length = n)
    (hS : S ≤ n) (hL : -(S : ℤ) < L ∧ L < S)
    (hmin : ∀ l : ℤ, -(S : ℤ) < l → l < S → l ≠ L →
      lagResidual bm om (n - S) L < lagResidual bm om (n - S) l) :
    lagSearch bm om S = .ok L := by
  have hS1 : 1 ≤ S := by omega
  apply lagSearch_argmin bm om S L (lagResidual bm om (n - S) L) (leadSum bm om (n - S) 0)
    (lagSum bm om (n - S)) (leadSum bm om (n - S))
    (res0_eq bm om n S hbm hom hS1 hS)
  · constructor
    · intro h; rw [← h, leadSum_zero]; exact (residual_natCast bm om (n - S) 0).symm
    · intro h
      have := hmin 0 (by omega) (by omega) h
      rw [show (0 : ℤ) = ((0 : ℕ) : ℤ) by rfl, residual_natCast, ← leadSum_zero] at this
      exact this
  · exact fun i hi => resLag_eq bm om n S i hbm hom hS hi
  · intro i hi
    constructor
    · intro h; rw [← h, residual_natCast]
    · intro h
      have := hmin (i : ℤ) (by omega) (by omega) h
      rwa [residual_natCast] at this
  · exact fun i hi => resLead_eq bm om n S i hbm hom hS hi
  · intro i hi
    constructor
    · intro h; rw [← h, residual_neg_natCast]
    · intro h
      have := hmin (-(i : ℤ)) (by omega) (by omega) h
      rwa [residual_neg_natCast] at this
  · exact hL

/-! ### `time_match`: range of the returned lag, the shifted slave, the loop over the cluster -/

theorem scan_lag_mem (f : ℕ → Except ErrKind ℚ) (lagOf : ℕ → ℤ) (is : List ℕ) (st st' : ℚ × ℤ)
    (h : scan f lagOf is st = .ok st') : st'.2 = st.2 ∨ ∃ i ∈ is, st'.2 = lagOf i := by
  induction is generalizing st with
  | nil => simp only [scan, Except.ok.injEq] at h; left; rw [h]
  | cons i is ih =>
    obtain ⟨md, mi⟩ := st
    simp only [scan] at h
    cases hf : f i with
    | error e => simp [hf] at h
    | ok d =>
      simp only [hf] at h
      rcases ih _ h with h1 | ⟨j, hj, h1⟩
      · by_cases hlt : d < md
        · simp only [hlt, if_true] at h1; right; exact ⟨i, by simp, h1⟩
        · simp only [hlt, if_false] at h1; left; exact h1
      · right; exact ⟨j, by simp [hj], h1⟩

/-- the returned `min_ind` always satisfies `|min_ind| < steps` (or is `0`) -/
theorem lagSearch_range (bm om : List ℚ) (S : ℕ) (mi : ℤ) (h : lagSearch bm om S = .ok mi) :
    mi = 0 ∨ (-(S : ℤ) < mi ∧ mi < S) := by
  unfold lagSearch at h
  cases h0 : ssd (pySlice bm 0 (-(S : ℤ))) (pySlice om 0 (-(S : ℤ))) with
  | error e => simp [h0] at h
  | ok d0 =>
    simp only [h0] at h
    cases h1 : scan (resLag bm om S) (fun i => (i : ℤ)) (List.range S) (d0, 0) with
    | error e => simp [h1] at h
    | ok st1 =>
      simp only [h1] at h
      cases h2 : scan (resLead bm om S) (fun i => -(i : ℤ)) (List.range S) st1 with
      | error e => simp [h2] at h
      | ok st2 =>
        simp only [h2, Except.ok.injEq] at h
        subst h
        have r1 := scan_lag_mem _ _ _ _ _ h1
        have r2 := scan_lag_mem _ _ _ _ _ h2
        rcases r2 with r2 | ⟨j, hj, r2⟩
        · rcases r1 with r1 | ⟨i, hi, r1⟩
          · left; rw [r2, r1]
          · right; have := List.mem_range.mp hi; rw [r2, r1]; omega
        · have := List.mem_range.mp hj
          by_cases hj0 : j = 0
          · left; rw [r2, hj0]; simp
          · right; rw [r2]; omega

theorem shiftSlave_spec (orig om : List ℚ) (n : ℕ) (L : ℤ) (hom : om.length = n)
    (hL : L = 0 ∨ (-(n : ℤ) < L ∧ L < n)) :
    ∃ new, shiftSlave orig om L = .ok new ∧ (L = 0 → new = orig) ∧ (L ≠ 0 → new.length = n) ∧
      (0 < L → ∀ k, k + L.toNat < n → new.getD k 0 = om.getD (k + L.toNat) 0) ∧
      (L < 0 → ∀ k, k + L.natAbs < n → new.getD (k + L.natAbs) 0 = om.getD k 0) := by
  unfold shiftSlave
  by_cases hneg : L < 0
  · have hn : 0 < n := by omega
    cases om with
    | nil => simp at hom; omega
    | cons x xs =>
      simp only [hneg, if_true, List.head?_cons]
      refine ⟨_, rfl, fun h => by omega, ?_, fun h => by omega, ?_⟩
      · intro _
        simp only [pyTo, normIdx, hneg, if_true, List.length_append, List.length_replicate,
          List.length_take, hom]
        omega
      · intro _ k hk
        simp only [pyTo, normIdx, hneg, if_true, hom]
        rw [List.getD_eq_getElem?_getD, List.getElem?_append_right (by simp)]
        simp only [List.length_replicate, Nat.add_sub_cancel]
        have : k < ((n : ℤ) + L).toNat := by omega
        simp [List.getD_eq_getElem?_getD, List.getElem?_take, this]
  · by_cases hpos : L > 0
    · have hn : 0 < n := by omega
      have hne : om ≠ [] := by intro h0; rw [h0] at hom; simp at hom; omega
      obtain ⟨y, hy⟩ : ∃ y, om.getLast? = some y := ⟨om.getLast hne, List.getLast?_eq_getLast_of_ne_nil hne⟩
      simp only [hneg, if_false, hpos, if_true, hy]
      have hidx : normIdx om.length L = L.toNat := by
        unfold normIdx; simp only [hneg, if_false, hom]; omega
      refine ⟨_, rfl, fun h => by omega, ?_, ?_, fun h => by first | omega | exact h.elim⟩
      · intro _
        simp only [pyFrom, hidx, List.length_append, List.length_replicate, List.length_drop]
        omega
      · intro _ k hk
        simp only [pyFrom, hidx]
        rw [List.getD_eq_getElem?_getD, List.getElem?_append_left (by simp [hom]; omega)]
        simp [List.getD_eq_getElem?_getD, List.getElem?_drop, Nat.add_comm]
    · have : L = 0 := by omega
      subst this
      exact ⟨orig, by simp, fun _ => rfl, fun h => absurd rfl h, fun h => absurd h (lt_irrefl _),
        fun h => absurd h (lt_irrefl _)⟩

/-- what the loop of `time_match` produces, position by position, and which lag it returns -/
theorem timeMatchAux_spec (bm : List ℚ) (lc master steps : ℕ)
    (i : ℕ) (signals : List (List ℚ)) (lag l : Option ℤ) (r : List (List ℚ))
    (h : timeMatchAux bm lc master steps i signals lag = .ok (l, r)) :
    r.length = signals.length ∧
    (∀ k s, signals[k]? = some s →
      (i + k = master → r[k]? = some s) ∧
      (i + k ≠ master → ∃ mi s', lagSearch bm (s.take lc) steps = .ok mi ∧
          shiftSlave s (s.take lc) mi = .ok s' ∧ r[k]? = some s' ∧
          ((∀ k', k < k' → k' < signals.length → i + k' = master) → l = some mi))) ∧
    ((∀ k, k < signals.length → i + k = master) → l = lag) := by
  induction signals generalizing i lag l r with
  | nil =>
    simp only [timeMatchAux, Except.ok.injEq, Prod.mk.injEq] at h
    obtain ⟨h1, h2⟩ := h
    subst h1; subst h2
    simp
  | cons s rest ih =>
    simp only [timeMatchAux] at h
    by_cases hm : i ≠ master
    · simp only [hm, ne_eq, not_false_eq_true, if_true] at h
      cases hs : lagSearch bm (s.take lc) steps with
      | error e => simp [hs] at h
      | ok mi =>
        simp only [hs] at h
        cases hsh : shiftSlave s (s.take lc) mi with
        | error e => simp [hsh] at h
        | ok s' =>
          simp only [hsh] at h
          cases hr : timeMatchAux bm lc master steps (i + 1) rest (some mi) with
          | error e => simp [hr] at h
          | ok p =>
            obtain ⟨l', r'⟩ := p
            simp only [hr, Except.ok.injEq, Prod.mk.injEq] at h
            obtain ⟨h1, h2⟩ := h
            subst h1; subst h2
            obtain ⟨hl, hk, hlast⟩ := ih (i + 1) (some mi) l' r' hr
            refine ⟨by simp [hl], ?_, ?_⟩
            · intro k s0 hk'
              cases k with
              | zero =>
                simp only [List.getElem?_cons_zero, Option.some.injEq] at hk'
                subst hk'
                refine ⟨fun h0 => absurd (by simpa using h0) hm, fun _ => ⟨mi, s', hs, hsh, by simp, ?_⟩⟩
                intro hall
                apply hlast
                intro k hk2
                have := hall (k + 1) (by omega) (by simp; omega)
                omega
              | succ k =>
                simp only [List.getElem?_cons_succ] at hk' ⊢
                have := hk k s0 hk'
                rw [show i + 1 + k = i + (k + 1) by omega] at this
                refine ⟨this.1, fun hne => ?_⟩
                obtain ⟨mi', s'', a1, a2, a3, a4⟩ := this.2 hne
                refine ⟨mi', s'', a1, a2, a3, fun hall => a4 ?_⟩
                intro k' hk1 hk2
                have := hall (k' + 1) (by omega) (by simp; omega)
                omega
            · intro hall
              have := hall 0 (by simp)
              omega
    · have hm' : i = master := by simpa using hm
      simp only [hm', ne_eq, not_true_eq_false, if_false] at h
      cases hr : timeMatchAux bm lc master steps (master + 1) rest lag with
      | error e => simp [hr] at h
      | ok p =>
        obtain ⟨l', r'⟩ := p
        simp only [hr, Except.ok.injEq, Prod.mk.injEq] at h
        obtain ⟨h1, h2⟩ := h
        subst h1; subst h2
        obtain ⟨hl, hk, hlast⟩ := ih (master + 1) lag l' r' hr
        refine ⟨by simp [hl], ?_, ?_⟩
        · intro k s0 hk'
          cases k with
          | zero =>
            simp only [List.getElem?_cons_zero, Option.some.injEq] at hk'
            subst hk'
            exact ⟨fun _ => by simp, fun h0 => absurd (by omega) h0⟩
          | succ k =>
            simp only [List.getElem?_cons_succ] at hk' ⊢
            have := hk k s0 hk'
            rw [show master + 1 + k = i + (k + 1) by omega] at this
            refine ⟨this.1, fun hne => ?_⟩
            obtain ⟨mi', s'', a1, a2, a3, a4⟩ := this.2 hne
            refine ⟨mi', s'', a1, a2, a3, fun hall => a4 ?_⟩
            intro k' hk1 hk2
            have := hall (k' + 1) (by omega) (by simp; omega)
            omega
        · intro hall
          apply hlast
          intro k hk2
          have := hall (k + 1) (by simp; omega)
          omega

end EqsigVerif.Model.Multiple
