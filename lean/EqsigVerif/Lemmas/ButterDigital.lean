import EqsigVerif.Lemmas.Butter
/-!
# The digital Butterworth filter of `Model/Butter.lean`: bilinear transform, the three filter types (C17)
-/
set_option linter.unusedSectionVars false
set_option linter.unusedVariables false
noncomputable section
namespace EqsigVerif.Butter
open Complex Finset EqsigVerif.Cplx EqsigVerif.Model.Butter
open EqsigVerif.Model.Single (FilterType)

theorem powN_eq (x : ℝ) (n : ℕ) : powN x n = x ^ n := by
  induction n with
  | zero => rfl
  | succ n ih => rw [powN, ih, pow_succ]

theorem evalZpk_eq (s : Zpk ℝ ℂ) (x : ℂ) :
    evalZpk s x = (s.k : ℂ) * (s.z.map (fun r => x - r)).prod / (s.p.map (fun r => x - r)).prod := by
  simp [evalZpk, prodL_eq]

/-! ## (b) the bilinear transform on the unit circle -/

/-- `s = 2·fs·(z − 1)/(z + 1)` with `fs = 2` at `z = e^{iω}` is `i·2·fs·tan(ω/2)` (for `ω ≠ π mod 2π`, i.e. `cos(ω/2) ≠ 0`;
at `ω = π` both sides are `0` by the division-by-zero convention, there `z = −1` is the point at infinity) -/
theorem bilinear_unit_circle (ω : ℝ) :
    (4 : ℂ) * (cexp (ω * I) - 1) / (cexp (ω * I) + 1) = ((4 * Real.tan (ω / 2) : ℝ) : ℂ) * I := by
  set x : ℂ := ((ω / 2 : ℝ) : ℂ) with hx
  have hhalf : cexp (ω * I) = cexp (x * I) * cexp (x * I) := by
    rw [← Complex.exp_add]; congr 1; rw [hx]; push_cast; ring
  have hcs : Complex.cos x ^ 2 + Complex.sin x ^ 2 = 1 := Complex.cos_sq_add_sin_sq x
  rw [hhalf, Complex.exp_mul_I, Complex.ofReal_mul, Complex.ofReal_tan, Complex.tan_eq_sin_div_cos, ← hx]
  set c : ℂ := Complex.cos x
  set d : ℂ := Complex.sin x
  have hsq : (c + d * I) * (c + d * I) = c ^ 2 - d ^ 2 + 2 * c * d * I := by
    ring_nf; rw [Complex.I_sq]; ring
  have h1' : (1 : ℂ) = c ^ 2 + d ^ 2 := hcs.symm
  have h1 : (c + d * I) * (c + d * I) - 1 = 2 * d * I * (c + d * I) := by
    have : 2 * d * I * (c + d * I) = 2 * c * d * I - 2 * d ^ 2 := by
      ring_nf; rw [Complex.I_sq]; ring
    rw [this, hsq]; nth_rewrite 1 [h1']; ring
  have h2 : (c + d * I) * (c + d * I) + 1 = 2 * c * (c + d * I) := by
    rw [hsq]; nth_rewrite 1 [h1']; ring
  rw [h1, h2]
  have hne : c + d * I ≠ 0 := by
    have := Complex.exp_ne_zero (x * I)
    rwa [Complex.exp_mul_I] at this
  by_cases hc : c = 0
  · simp [hc]
  · push_cast
    field_simp

theorem exp_add_one_ne_zero (ω : ℝ) (h : Real.cos (ω / 2) ≠ 0) : cexp (ω * I) + 1 ≠ 0 := by
  intro h0
  have hre := congrArg Complex.re h0
  rw [Complex.add_re, Complex.exp_ofReal_mul_I_re, Complex.one_re, Complex.zero_re] at hre
  have h2 := Real.cos_two_mul (ω / 2)
  rw [show 2 * (ω / 2) = ω by ring] at h2
  have : Real.cos (ω / 2) ^ 2 = 0 := by linarith
  exact h (pow_eq_zero_iff (two_ne_zero) |>.mp this)

/-- `cos(πw/2) > 0` for a normalised frequency `|w| < 1` (below the Nyquist frequency) -/
theorem cos_half_pos (w : ℝ) (hw : -1 < w) (hw1 : w < 1) : 0 < Real.cos (Real.pi * w / 2) := by
  apply Real.cos_pos_of_mem_Ioo
  have := Real.pi_pos
  constructor <;> nlinarith

/-- `tan(πw/2) > 0` for `0 < w < 1` -/
theorem tan_half_pos (w : ℝ) (hw : 0 < w) (hw1 : w < 1) : 0 < Real.tan (Real.pi * w / 2) := by
  apply Real.tan_pos_of_pos_of_lt_pi_div_two
  · have := Real.pi_pos; positivity
  · have := Real.pi_pos; nlinarith

/-! ## the bilinear transform of a zeros–poles–gain triple -/

theorem bilinear_factor (ζ r : ℂ) (hζ : ζ + 1 ≠ 0) (hr : 4 - r ≠ 0) :
    ζ - (4 + r) / (4 - r) = (ζ + 1) * (4 * (ζ - 1) / (ζ + 1) - r) / (4 - r) := by
  field_simp
  ring

theorem bilinear_list (ζ : ℂ) (hζ : ζ + 1 ≠ 0) (l : List ℂ) (hl : ∀ r ∈ l, 4 - r ≠ 0) :
    ((l.map (fun r => (4 + r) / (4 - r))).map (fun r => ζ - r)).prod
      = (ζ + 1) ^ l.length * (l.map (fun r => 4 * (ζ - 1) / (ζ + 1) - r)).prod / (l.map (fun r => 4 - r)).prod := by
  induction l with
  | nil => simp
  | cons x xs ih =>
    have hx : 4 - x ≠ 0 := hl x (by simp)
    have hxs : (xs.map (fun r => 4 - r)).prod ≠ 0 := by
      apply List.prod_ne_zero
      intro h
      obtain ⟨r, hr, h0⟩ := List.mem_map.mp h
      exact hl r (by simp [hr]) h0
    simp only [List.map_cons, List.prod_cons, List.length_cons]
    rw [ih (fun r hr => hl r (by simp [hr])), bilinear_factor ζ x hζ hx]
    field_simp
    ring

theorem ofReal_re_of_im_eq_zero (w : ℂ) (h : w.im = 0) : ((w.re : ℝ) : ℂ) = w :=
  Complex.ext (by simp) (by simp [h])

/-- **bilinear transform of a zeros–poles–gain triple**: if the gain correction `Π(4 − z_j)/Π(4 − p_j)` is real (SciPy keeps
its real part), `H_digital(ζ) = H_analog(4(ζ − 1)/(ζ + 1))` for every `ζ ≠ −1` -/
theorem evalZpk_bilinear (s : Zpk ℝ ℂ) (ζ : ℂ) (hζ : ζ + 1 ≠ 0) (hdeg : s.z.length ≤ s.p.length)
    (hz : ∀ r ∈ s.z, 4 - r ≠ 0) (hp : ∀ r ∈ s.p, 4 - r ≠ 0)
    (hR : ((s.z.map (fun r => 4 - r)).prod / (s.p.map (fun r => 4 - r)).prod).im = 0) :
    evalZpk (bilinear s) ζ = evalZpk s (4 * (ζ - 1) / (ζ + 1)) := by
  rw [evalZpk_eq, evalZpk_eq]
  simp only [bilinear, cxlike_ofReal, cxlike_re, prodL_eq, Nat.cast_ofNat, Complex.ofReal_ofNat, List.map_append,
    List.prod_append, List.map_replicate, List.prod_replicate, sub_neg_eq_add, Complex.ofReal_mul]
  rw [bilinear_list ζ hζ s.z hz, bilinear_list ζ hζ s.p hp, ofReal_re_of_im_eq_zero _ hR]
  have hlen : (ζ + 1) ^ s.p.length = (ζ + 1) ^ s.z.length * (ζ + 1) ^ relDeg s := by
    rw [← pow_add]; congr 1; unfold relDeg; omega
  rw [hlen]
  have hZ4 : (s.z.map (fun r => 4 - r)).prod ≠ 0 := by
    apply List.prod_ne_zero
    intro h
    obtain ⟨r, hr, h0⟩ := List.mem_map.mp h
    exact hz r hr h0
  have hP4 : (s.p.map (fun r => 4 - r)).prod ≠ 0 := by
    apply List.prod_ne_zero
    intro h
    obtain ⟨r, hr, h0⟩ := List.mem_map.mp h
    exact hp r hr h0
  have hu : (ζ + 1) ^ s.z.length ≠ 0 := pow_ne_zero _ hζ
  have hu2 : (ζ + 1) ^ relDeg s ≠ 0 := pow_ne_zero _ hζ
  set Z4 := (s.z.map (fun r => 4 - r)).prod
  set P4 := (s.p.map (fun r => 4 - r)).prod
  set Zs := (s.z.map (fun r => 4 * (ζ - 1) / (ζ + 1) - r)).prod
  set Ps := (s.p.map (fun r => 4 * (ζ - 1) / (ζ + 1) - r)).prod
  by_cases hPs : Ps = 0
  · simp [hPs]
  · field_simp

end EqsigVerif.Butter
