import EqsigVerif.Model.CavDpFloat
/-!
# Lemmas for `Model/CavDpFloat.lean`: the strict `let`s are plain `let`s, the Boolean window checks mean what they say
-/
namespace EqsigVerif.Model.CavDpFloat

@[simp] theorem seqN_eq {α : Type} (v : Nat) (f : Nat → α) : seqN v f = f v := by
  cases v <;> rfl

@[simp] theorem force_eq {α : Type} (x : Dy) (f : Dy → α) : x.force f = f x := by
  cases x; simp [Dy.force]

theorem isRangeFrom_spec (l : List Nat) (i n : Nat) (h : isRangeFrom l i n = true) :
    i ≤ n ∧ l = List.range' i (n - i) := by
  induction l generalizing i with
  | nil =>
    have : i = n := Nat.eq_of_beq_eq_true h
    subst this
    simp
  | cons x xs ih =>
    simp only [isRangeFrom, Bool.and_eq_true, seqN_eq] at h
    obtain ⟨h1, h2⟩ := h
    have hx : x = i := Nat.eq_of_beq_eq_true h1
    obtain ⟨hle, hxs⟩ := ih (i + 1) h2
    refine ⟨by omega, ?_⟩
    have : n - i = (n - (i + 1)) + 1 := by omega
    rw [this, List.range'_succ, hx, hxs]

/-- meaning of the window check -/
theorem windowExact_spec (pps i : Nat) (h : windowExact pps i = true) :
    arangeLenF (dtOf pps) (i * pps) = pps ∧
    selectedF (dtOf pps) pps (i * pps) = List.range pps ∧
    panelsF (dtOf pps) pps (i * pps) = pps - 1 := by
  simp only [windowExact, force_eq, Bool.and_eq_true] at h
  obtain ⟨h1, h2⟩ := h
  have hsel : selectedF (dtOf pps) pps (i * pps) = List.range pps := by
    have := (isRangeFrom_spec _ _ _ h2).2
    rw [this, List.range_eq_range']; simp
  refine ⟨Nat.eq_of_beq_eq_true h1, hsel, ?_⟩
  unfold panelsF; rw [hsel]; simp

theorem windowLenExact_spec (pps i : Nat) (h : windowLenExact pps i = true) :
    arangeLenF (dtOf pps) (i * pps) = pps := by
  simp only [windowLenExact, force_eq] at h
  exact Nat.eq_of_beq_eq_true h

/-- the selected positions are positions of the `arange`: at most `len(arange) − 1` panels -/
theorem whereFrom_bound (p : Dy → Bool) (i : Nat) (l : List Dy) :
    (whereFrom p i l).length ≤ l.length := by
  induction l generalizing i with
  | nil => simp [whereFrom]
  | cons x xs ih =>
    simp only [whereFrom, seqN_eq]
    split
    · simp only [List.length_cons]; have := ih (i + 1); omega
    · simp only [List.length_cons]; have := ih (i + 1); omega

theorem length_arangeF (dt : Dy) (start : Nat) : (arangeF dt start).length = arangeLenF dt start := by
  simp [arangeF]

theorem panelsF_le (dt : Dy) (pps start : Nat) : panelsF dt pps start ≤ arangeLenF dt start - 1 := by
  unfold panelsF selectedF
  simp only [force_eq]
  have := whereFrom_bound (fun t => Dy.le (fmulNat start dt) t && Dy.le t (fmulNat (start + pps) dt)) 0 (arangeF dt start)
  rw [length_arangeF] at this
  omega

end EqsigVerif.Model.CavDpFloat
