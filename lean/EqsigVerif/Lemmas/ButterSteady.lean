import EqsigVerif.Lemmas.Butter
/-!
# Steady state of a rational filter on a bi-infinite exponential; forward–backward filtering has zero phase (C17)
-/
set_option linter.unusedSectionVars false
set_option linter.unusedVariables false
noncomputable section
namespace EqsigVerif.Butter
open Complex Finset EqsigVerif.Cplx EqsigVerif.Model.Butter

/-- the difference equation `Σ_k a_k·y[m−k] = Σ_k b_k·x[m−k]` of `lfilter(b, a, ·)`, on bi-infinite complex sequences -/
def IsResponse (b a : List ℝ) (x y : ℤ → ℂ) : Prop :=
  ∀ m : ℤ, ∑ k ∈ range a.length, ((a.getD k 0 : ℝ) : ℂ) * y (m - k) = ∑ k ∈ range b.length, ((b.getD k 0 : ℝ) : ℂ) * x (m - k)

/-- the same difference equation on real sequences -/
def IsResponseR (b a : List ℝ) (x y : ℤ → ℝ) : Prop :=
  ∀ m : ℤ, ∑ k ∈ range a.length, a.getD k 0 * y (m - k) = ∑ k ∈ range b.length, b.getD k 0 * x (m - k)

/-- the transfer function `H(z) = Σ_k b_k z^{−k} / Σ_k a_k z^{−k}` -/
def tfun (b a : List ℝ) (z : ℂ) : ℂ := negPowSum b z⁻¹ / negPowSum a z⁻¹

theorem negPowSum_cons (c0 : ℝ) (cs : List ℝ) (w : ℂ) :
    negPowSum (c0 :: cs) w = (c0 : ℂ) + w * negPowSum cs w := rfl

theorem negPowSum_eq_sum (c : List ℝ) (w : ℂ) :
    negPowSum c w = ∑ k ∈ range c.length, ((c.getD k 0 : ℝ) : ℂ) * w ^ k := by
  induction c with
  | nil => simp [negPowSum]
  | cons c0 cs ih =>
    rw [negPowSum_cons, ih, List.length_cons, Finset.sum_range_succ', Finset.mul_sum]
    simp only [List.getD_cons_succ, List.getD_cons_zero, pow_zero, mul_one]
    rw [add_comm]
    congr 1
    apply Finset.sum_congr rfl
    intro k _
    ring

theorem conj_negPowSum (c : List ℝ) (w : ℂ) :
    starRingEnd ℂ (negPowSum c w) = negPowSum c (starRingEnd ℂ w) := by
  rw [negPowSum_eq_sum, negPowSum_eq_sum, map_sum]
  apply Finset.sum_congr rfl
  intro k _
  rw [map_mul, Complex.conj_ofReal, map_pow]

theorem shifted_sum (c : List ℝ) (d z : ℂ) (hz : z ≠ 0) (m : ℤ) :
    ∑ k ∈ range c.length, ((c.getD k 0 : ℝ) : ℂ) * (d * z ^ (m - (k : ℤ))) = d * z ^ m * negPowSum c z⁻¹ := by
  rw [negPowSum_eq_sum, Finset.mul_sum]
  apply Finset.sum_congr rfl
  intro k _
  rw [zpow_sub₀ hz, zpow_natCast, inv_pow]
  field_simp

/-- **steady state**: the sequence `y[m] = c·H(z)·z^m` answers the exponential `x[m] = c·z^m` (`z ≠ 0`, `A(z) ≠ 0`) -/
theorem steady_state (b a : List ℝ) (c z : ℂ) (hz : z ≠ 0) (hA : negPowSum a z⁻¹ ≠ 0) :
    IsResponse b a (fun m => c * z ^ m) (fun m => c * tfun b a z * z ^ m) := by
  intro m
  simp only []
  rw [shifted_sum a (c * tfun b a z) z hz m, shifted_sum b c z hz m]
  have : tfun b a z * negPowSum a z⁻¹ = negPowSum b z⁻¹ := div_mul_cancel₀ _ hA
  linear_combination (c * z ^ m) * this

theorem conj_exp_inv (ω : ℝ) : starRingEnd ℂ (cexp (ω * I))⁻¹ = cexp (ω * I) := by
  rw [map_inv₀, ← Complex.exp_conj, ← Complex.exp_neg]
  congr 1
  simp [Complex.conj_ofReal]

/-- on the unit circle `H(z⁻¹) = conj H(z)` (real coefficients) -/
theorem tfun_inv (b a : List ℝ) (ω : ℝ) :
    tfun b a (cexp (ω * I))⁻¹ = starRingEnd ℂ (tfun b a (cexp (ω * I))) := by
  unfold tfun
  rw [map_div₀, conj_negPowSum, conj_negPowSum, conj_exp_inv, inv_inv]

/-- time reversal -/
def rev {α : Type} (f : ℤ → α) : ℤ → α := fun m => f (-m)

/-- **forward–backward filtering of a complex exponential**: filter, reverse, filter, reverse — the exponential `c·e^{iωm}` comes
back multiplied by `H(e^{iω})·conj H(e^{iω}) = |H(e^{iω})|²`, a real non-negative factor -/
theorem forward_backward (b a : List ℝ) (c : ℂ) (ω : ℝ) (hA : negPowSum a (cexp (ω * I))⁻¹ ≠ 0) :
    IsResponse b a (fun m => c * cexp (ω * I) ^ m) (fun m => c * tfun b a (cexp (ω * I)) * cexp (ω * I) ^ m) ∧
    IsResponse b a (rev (fun m => c * tfun b a (cexp (ω * I)) * cexp (ω * I) ^ m))
      (rev (fun m => ((Complex.normSq (tfun b a (cexp (ω * I))) : ℝ) : ℂ) * (c * cexp (ω * I) ^ m))) := by
  have hz : cexp (ω * I) ≠ 0 := Complex.exp_ne_zero _
  refine ⟨steady_state b a c _ hz hA, ?_⟩
  have hA' : negPowSum a ((cexp (ω * I))⁻¹)⁻¹ ≠ 0 := by
    rw [inv_inv]
    have := conj_negPowSum a (cexp (ω * I))⁻¹
    rw [conj_exp_inv] at this
    rw [← this]
    exact (map_ne_zero _).mpr hA
  have h := steady_state b a (c * tfun b a (cexp (ω * I))) (cexp (ω * I))⁻¹ (inv_ne_zero hz) hA'
  have e1 : (fun m : ℤ => c * tfun b a (cexp (ω * I)) * (cexp (ω * I))⁻¹ ^ m)
      = rev (fun m => c * tfun b a (cexp (ω * I)) * cexp (ω * I) ^ m) := by
    funext m; simp [rev, zpow_neg]
  have e2 : (fun m : ℤ => c * tfun b a (cexp (ω * I)) * tfun b a (cexp (ω * I))⁻¹ * (cexp (ω * I))⁻¹ ^ m)
      = rev (fun m => ((Complex.normSq (tfun b a (cexp (ω * I))) : ℝ) : ℂ) * (c * cexp (ω * I) ^ m)) := by
    funext m
    simp only [rev, zpow_neg, inv_zpow]
    rw [tfun_inv, ← Complex.mul_conj]
    ring
  rw [e1, e2] at h
  exact h

theorem IsResponse.re {b a : List ℝ} {X Y : ℤ → ℂ} (h : IsResponse b a X Y) :
    IsResponseR b a (fun m => (X m).re) (fun m => (Y m).re) := by
  intro m
  have := congrArg Complex.re (h m)
  simpa only [Complex.re_sum, Complex.re_ofReal_mul] using this

theorem exp_phase_re (ω φ : ℝ) (m : ℤ) : (cexp (φ * I) * cexp (ω * I) ^ m).re = Real.cos (ω * m + φ) := by
  rw [← Complex.exp_int_mul, ← Complex.exp_add,
    show (φ : ℂ) * I + (m : ℂ) * ((ω : ℂ) * I) = ((ω * m + φ : ℝ) : ℂ) * I by push_cast; ring,
    Complex.exp_ofReal_mul_I_re]

/-- **zero phase on a real sinusoid**: forward–backward filtering maps `cos(ωm + φ)` to `|H(e^{iω})|²·cos(ωm + φ)` — the same
sinusoid, not shifted in time, scaled by the squared magnitude -/
theorem forward_backward_real (b a : List ℝ) (ω φ : ℝ) (hA : negPowSum a (cexp (ω * I))⁻¹ ≠ 0) :
    ∃ y1 : ℤ → ℝ,
      IsResponseR b a (fun m => Real.cos (ω * m + φ)) y1 ∧
      IsResponseR b a (rev y1) (rev (fun m => Complex.normSq (tfun b a (cexp (ω * I))) * Real.cos (ω * m + φ))) := by
  obtain ⟨h1, h2⟩ := forward_backward b a (cexp (φ * I)) ω hA
  refine ⟨fun m => (cexp (φ * I) * tfun b a (cexp (ω * I)) * cexp (ω * I) ^ m).re, ?_, ?_⟩
  · have := h1.re
    simpa only [exp_phase_re] using this
  · have := h2.re
    simp only [rev, Complex.re_ofReal_mul, exp_phase_re] at this ⊢
    exact this

/-- the model's `freqResp` (what `scipy.signal.freqz` evaluates) is the transfer function on the unit circle -/
theorem freqResp_eq_tfun (cs : ℂ → ℂ) (b a : List ℝ) (θ : ℝ) :
    freqResp (fnsC cs) b a θ = tfun b a (cexp (θ * I)) := by
  have : (fnsC cs).cis (0 - θ) = (cexp (θ * I))⁻¹ := by
    simp only [fnsC]
    rw [← Complex.exp_neg]
    congr 1
    push_cast; ring
  unfold freqResp tfun
  rw [this]

theorem tfun_mul_inv (b a : List ℝ) (ω : ℝ) :
    tfun b a (cexp (ω * I)) * tfun b a (cexp (ω * I))⁻¹ = ((Complex.normSq (tfun b a (cexp (ω * I))) : ℝ) : ℂ) := by
  rw [tfun_inv, Complex.mul_conj]

end EqsigVerif.Butter
