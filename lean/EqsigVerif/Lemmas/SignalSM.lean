import EqsigVerif.Model.SignalSM
/-!
# Lemmas about the signal-object state machine (C04 / C05) — core Lean only
-/
namespace EqsigVerif.Model.SignalSM

theorem Frame.refl (s : Obj) : Frame s s := ⟨rfl, rfl, rfl, rfl, rfl, rfl, rfl⟩

theorem Frame.trans {a b c : Obj} (h1 : Frame a b) (h2 : Frame b c) : Frame a c := by
  obtain ⟨a1, a2, a3, a4, a5, a6, a7⟩ := h1
  obtain ⟨b1, b2, b3, b4, b5, b6, b7⟩ := h2
  exact ⟨a1.trans b1, a2.trans b2, a3.trans b3, a4.trans b4, a5.trans b5, a6.trans b6, a7.trans b7⟩

/-! ## Reads change nothing but caches (no hypothesis on the table) -/

theorem readSubs_frame (rd : Obj → String → Obj × Snap) (hrd : ∀ s n, Frame (rd s n).1 s)
    (qs : List String) (s : Obj) : Frame (readSubs rd qs s).1 s := by
  induction qs generalizing s with
  | nil => exact Frame.refl s
  | cons q qs ih => simp only [readSubs]; exact (ih _).trans (hrd s q)

theorem readQ_frame (tbl : CacheTable) (k : Nat) (s : Obj) (n : String) : Frame (readQ tbl k s n).1 s := by
  induction k generalizing s n with
  | zero => exact Frame.refl s
  | succ k ih =>
    unfold readQ
    split
    · exact Frame.refl s
    · rename_i q _
      split
      · exact readSubs_frame _ ih _ s
      · split
        · exact Frame.refl s
        · have h := readSubs_frame (readQ tbl k) ih q.readsQuantities s
          exact ⟨h.1, h.2.1, h.2.2.1, h.2.2.2.1, h.2.2.2.2.1, h.2.2.2.2.2.1, h.2.2.2.2.2.2⟩

theorem read_frame (tbl : CacheTable) (s : Obj) (n : String) : Frame (read tbl s n).1 s :=
  readQ_frame tbl (fuel tbl) s n

theorem preReads_frame (tbl : CacheTable) (qs : List String) (s : Obj) : Frame (preReads tbl qs s) s := by
  induction qs generalizing s with
  | nil => exact Frame.refl s
  | cons q qs ih => exact (ih _).trans (read_frame tbl s q)

theorem doFills_frame (tbl : CacheTable) (gs : List String) (s : Obj) : Frame (doFills tbl gs s) s := by
  induction gs generalizing s with
  | nil => exact Frame.refl s
  | cons g gs ih =>
    simp only [doFills]
    split
    · exact (ih _).trans (read_frame tbl s _)
    · exact ih s

/-! ## Components a method call does not touch -/

theorem chooseArg_ver (arg : Option Nat) (s : Obj) :
    (chooseArg arg s).1.ver = s.ver ∧ (chooseArg arg s).1.cache = s.cache ∧
    (chooseArg arg s).1.len = s.len ∧ (chooseArg arg s).1.npts = s.npts := by
  unfold chooseArg
  split
  · split <;> exact ⟨rfl, rfl, rfl, rfl⟩
  · exact ⟨rfl, rfl, rfl, rfl⟩

theorem heapWrite_ver (a : Nat) (s : Obj) (w : InputWrite) :
    (heapWrite a s w).ver = s.ver ∧ (heapWrite a s w).cache = s.cache ∧
    (heapWrite a s w).len = s.len ∧ (heapWrite a s w).npts = s.npts := by
  unfold heapWrite
  split <;> exact ⟨rfl, rfl, rfl, rfl⟩

theorem heapWrites_ver (a : Nat) (ws : List InputWrite) (s : Obj) :
    (heapWrites a ws s).ver = s.ver ∧ (heapWrites a ws s).cache = s.cache ∧
    (heapWrites a ws s).len = s.len ∧ (heapWrites a ws s).npts = s.npts := by
  induction ws generalizing s with
  | nil => exact ⟨rfl, rfl, rfl, rfl⟩
  | cons w ws ih =>
    obtain ⟨h1, h2, h3, h4⟩ := ih (heapWrite a s w)
    obtain ⟨k1, k2, k3, k4⟩ := heapWrite_ver a s w
    exact ⟨h1.trans k1, h2.trans k2, h3.trans k3, h4.trans k4⟩

theorem setLen_ver (m : MethodRow) (n : Nat) (b : Bool) (s : Obj) :
    (setLen m n b s).ver = s.ver ∧ (setLen m n b s).cache = s.cache ∧
    (setLen m n b s).ident = s.ident ∧ (setLen m n b s).content = s.content ∧
    (setLen m n b s).nextId = s.nextId ∧ (setLen m n b s).held = s.held := by
  unfold setLen
  split
  · exact ⟨rfl, rfl, rfl, rfl, rfl, rfl⟩
  · exact ⟨rfl, rfl, rfl, rfl, rfl, rfl⟩
  · exact ⟨rfl, rfl, rfl, rfl, rfl, rfl⟩
  · split <;> exact ⟨rfl, rfl, rfl, rfl, rfl, rfl⟩

/-! ## The cache invariant -/

/-- On the inputs of class `C`: every valid cache was computed from input versions that agree with the current
ones on everything the generator of any quantity it guards (transitively) reads.  (`C` = all inputs for C04;
`C` = the inputs the object owns when the caller may write into arrays it shares with the object.) -/
def InvOn (C : String → Prop) (tbl : CacheTable) (s : Obj) : Prop :=
  ∀ g snap, s.cache g = some snap →
    ∀ n q, findQ tbl n = some q → q.guard = some g → ∀ i, i ∈ deps tbl n → C i → snap i = s.ver i

/-- the C04 invariant (all inputs) -/
abbrev Inv (tbl : CacheTable) (s : Obj) : Prop := InvOn (fun _ => True) tbl s

theorem InvOn.congr {C : String → Prop} {tbl : CacheTable} {s s' : Obj}
    (hv : ∀ i, C i → s'.ver i = s.ver i) (hc : s'.cache = s.cache)
    (h : InvOn C tbl s) : InvOn C tbl s' := by
  intro g snap hg n q hq hgu i hi hC
  rw [hc] at hg
  rw [hv i hC]
  exact h g snap hg n q hq hgu i hi hC

theorem InvOn.mono {C D : String → Prop} {tbl : CacheTable} {s : Obj} (hCD : ∀ i, D i → C i)
    (h : InvOn C tbl s) : InvOn D tbl s :=
  fun g snap hg n q hq hgu i hi hD => h g snap hg n q hq hgu i hi (hCD i hD)

theorem inv_blank (C : String → Prop) (tbl : CacheTable) : InvOn C tbl blank := by
  intro g snap hg
  simp [blank] at hg

/-! ## Reads -/

/-- what a read function must satisfy (used for `readQ tbl k` at every `k`) -/
def ReadSpec (C : String → Prop) (tbl : CacheTable) (rd : Obj → String → Obj × Snap) : Prop :=
  ∀ s n, InvOn C tbl s →
    InvOn C tbl (rd s n).1 ∧ Frame (rd s n).1 s ∧ ∀ i, i ∈ deps tbl n → C i → (rd s n).2 i = s.ver i

theorem mergeSnap_eq (tbl : CacheTable) (cur : Snap) (subs : List (String × Snap)) (i : String)
    (h : ∀ p, p ∈ subs → i ∈ deps tbl p.1 → p.2 i = cur i) :
    mergeSnap tbl cur subs i = cur i := by
  induction subs with
  | nil => rfl
  | cons p rest ih =>
    obtain ⟨q, sn⟩ := p
    have ih' := ih (fun p hp => h p (List.mem_cons_of_mem _ hp))
    simp only [mergeSnap]
    split
    · rename_i hc
      have hi : i ∈ deps tbl q := by simpa using hc
      have := h (q, sn) (List.mem_cons_self) hi
      simp only at this
      rw [ih', this]
      exact Nat.min_self _
    · exact ih'

theorem readSubs_spec (C : String → Prop) (tbl : CacheTable) (rd : Obj → String → Obj × Snap)
    (hrd : ReadSpec C tbl rd) (qs : List String) (s : Obj) (hs : InvOn C tbl s) :
    InvOn C tbl (readSubs rd qs s).1 ∧ Frame (readSubs rd qs s).1 s ∧
      ∀ p, p ∈ (readSubs rd qs s).2 → ∀ i, i ∈ deps tbl p.1 → C i → p.2 i = s.ver i := by
  induction qs generalizing s with
  | nil => exact ⟨hs, Frame.refl s, fun p hp => by simp [readSubs] at hp⟩
  | cons q qs ih =>
    obtain ⟨h1, h2, h3⟩ := hrd s q hs
    obtain ⟨k1, k2, k3⟩ := ih (rd s q).1 h1
    simp only [readSubs]
    refine ⟨k1, k2.trans h2, ?_⟩
    intro p hp i hi hC
    rcases List.mem_cons.mp hp with rfl | hp
    · exact h3 i hi hC
    · rw [k3 p hp i hi hC, h2.1]

theorem readQ_spec (C : String → Prop) (tbl : CacheTable) (k : Nat) : ReadSpec C tbl (readQ tbl k) := by
  induction k with
  | zero =>
    intro s n hs
    exact ⟨hs, Frame.refl s, fun _ _ _ => rfl⟩
  | succ k ih =>
    intro s n hs
    unfold readQ
    split
    · exact ⟨hs, Frame.refl s, fun _ _ _ => rfl⟩
    · rename_i q hq
      split
      · -- uncached quantity
        obtain ⟨k1, k2, k3⟩ := readSubs_spec C tbl (readQ tbl k) ih q.readsQuantities s hs
        refine ⟨k1, k2, ?_⟩
        intro i _ hC
        simp only
        rw [mergeSnap_eq tbl _ _ i (fun p hp hi => by rw [k3 p hp i hi hC, k2.1]), k2.1]
      · rename_i g hg
        split
        · -- flag set: stored value
          rename_i snap hc
          exact ⟨hs, Frame.refl s, fun i hi hC => hs g snap hc n q hq hg i hi hC⟩
        · -- flag not set: generate, store, set flag
          rename_i hc
          obtain ⟨k1, k2, k3⟩ := readSubs_spec C tbl (readQ tbl k) ih q.readsQuantities s hs
          have hm : ∀ i, C i → mergeSnap tbl (readSubs (readQ tbl k) q.readsQuantities s).1.ver
              (readSubs (readQ tbl k) q.readsQuantities s).2 i = s.ver i := by
            intro i hC
            rw [mergeSnap_eq tbl _ _ i (fun p hp hi => by rw [k3 p hp i hi hC, k2.1]), k2.1]
          refine ⟨?_, ?_, fun i _ hC => hm i hC⟩
          · intro g' snap' hg' n' q' hq' hgu' i hi hC
            simp only at hg' ⊢
            split at hg'
            · cases hg'
              rw [hm i hC, k2.1]
            · exact k1 g' snap' hg' n' q' hq' hgu' i hi hC
          · exact ⟨k2.1, k2.2.1, k2.2.2.1, k2.2.2.2.1, k2.2.2.2.2.1, k2.2.2.2.2.2.1, k2.2.2.2.2.2.2⟩

theorem read_spec (C : String → Prop) (tbl : CacheTable) : ReadSpec C tbl (read tbl) :=
  readQ_spec C tbl (fuel tbl)

theorem preReads_spec (C : String → Prop) (tbl : CacheTable) (qs : List String) (s : Obj)
    (hs : InvOn C tbl s) : InvOn C tbl (preReads tbl qs s) := by
  induction qs generalizing s with
  | nil => exact hs
  | cons q qs ih => exact ih (read tbl s q).1 (read_spec C tbl s q hs).1

theorem doFills_spec (C : String → Prop) (tbl : CacheTable) (gs : List String) (s : Obj)
    (hs : InvOn C tbl s) : InvOn C tbl (doFills tbl gs s) := by
  induction gs generalizing s with
  | nil => exact hs
  | cons g gs ih =>
    simp only [doFills]
    split
    · exact ih _ (read_spec C tbl s _ hs).1
    · exact ih s hs

/-! ## Method calls keep the invariant when the row is OK -/

/-- the key step (prototype `inv_applyEff`): bump + clear keeps the invariant when the row is OK -/
theorem inv_bumpClear (C : String → Prop) (tbl : CacheTable) (m : MethodRow) (hm : rowOK tbl m = true)
    (s : Obj) (hs : InvOn C tbl s) : InvOn C tbl (bumpClear m s) := by
  intro g snap hg n q hq hgu i hi hC
  simp only [bumpClear] at hg ⊢
  split at hg
  · exact absurd hg (by simp)
  · rename_i hnc
    have hsnap := hs g snap hg n q hq hgu i hi hC
    have hnw : (writtenInputs m).contains i = false := by
      cases hw : (writtenInputs m).contains i with
      | false => rfl
      | true =>
        exfalso
        apply hnc
        -- the row is OK, `q` is in the table under name `n`
        have hqmem : q ∈ tbl.quantities := List.mem_of_find?_eq_some hq
        have hqname : q.name = n := by
          have := List.find?_some hq
          simpa using this
        unfold rowOK at hm
        rcases Bool.or_eq_true _ _ |>.mp hm with hc | hall
        · simp [hc]
        · have hq' := List.all_eq_true.mp hall q hqmem
          simp only [hgu] at hq'
          have hany : ((writtenInputs m).any fun i => (deps tbl q.name).contains i) = true := by
            rw [List.any_eq_true]
            refine ⟨i, by simpa using hw, ?_⟩
            rw [hqname]
            simpa using hi
          rw [hany] at hq'
          simp only [Bool.not_true, Bool.false_or] at hq'
          rcases Bool.or_eq_true _ _ |>.mp hq' with h1 | h2
          · simp only [h1, Bool.or_true, Bool.true_or]
          · simp only [h2, Bool.or_true]
    rw [hnw]
    simpa using hsnap

theorem applyRow_inv (C : String → Prop) (tbl : CacheTable) (m : MethodRow) (arg : Option Nat) (n : Nat)
    (s : Obj) (hs : InvOn C tbl s) (hm : rowOK tbl m = true) :
    InvOn C tbl (applyRow tbl m arg n s) := by
  unfold applyRow
  have h1 := preReads_spec C tbl m.reads s hs
  have hA := chooseArg_ver arg (preReads tbl m.reads s)
  have hW := heapWrites_ver (chooseArg arg (preReads tbl m.reads s)).2 m.writes
    (chooseArg arg (preReads tbl m.reads s)).1
  have h3 : InvOn C tbl (heapWrites (chooseArg arg (preReads tbl m.reads s)).2 m.writes
      (chooseArg arg (preReads tbl m.reads s)).1) :=
    InvOn.congr (fun i _ => by rw [hW.1, hA.1]) (hW.2.1.trans hA.2.1) h1
  have h4 := inv_bumpClear C tbl m hm _ h3
  have hL := setLen_ver m n (lenFresh tbl m (preReads tbl m.reads s))
    (bumpClear m (heapWrites (chooseArg arg (preReads tbl m.reads s)).2 m.writes
      (chooseArg arg (preReads tbl m.reads s)).1))
  have h5 := InvOn.congr (fun i _ => by rw [hL.1]) hL.2.1 h4
  exact doFills_spec C tbl m.fills _ h5

theorem rowOK_of_findM {tbl : CacheTable} (h : TableOK tbl) {row : String} {m : MethodRow}
    (hm : findM tbl row = some m) : rowOK tbl m = true :=
  List.all_eq_true.mp h m (List.mem_of_find?_eq_some hm)

theorem inv_step (C : String → Prop) (tbl : CacheTable) (h : TableOK tbl) (s : Obj) (hs : InvOn C tbl s)
    (op : Op) (hop : op.isObj = true) : InvOn C tbl (step tbl s op).1 := by
  cases op with
  | mutate row arg n =>
    simp only [step]
    split
    · rename_i m hm
      exact applyRow_inv C tbl m arg n s hs (rowOK_of_findM h hm)
    · exact hs
  | read q => exact (read_spec C tbl s q hs).1
  | callerWrite k => simp [Op.isObj] at hop

theorem inv_run (C : String → Prop) (tbl : CacheTable) (h : TableOK tbl) (ops : List Op)
    (hops : ∀ op, op ∈ ops → op.isObj = true) (s : Obj) (hs : InvOn C tbl s) :
    InvOn C tbl (run tbl s ops) := by
  induction ops generalizing s with
  | nil => exact hs
  | cons op ops ih =>
    simp only [run]
    exact ih (fun o ho => hops o (List.mem_cons_of_mem _ ho)) _
      (inv_step C tbl h s hs op (hops op List.mem_cons_self))

theorem inv_init (C : String → Prop) (tbl : CacheTable) (h : TableOK tbl) (n0 : Nat) :
    InvOn C tbl (init tbl n0) := by
  unfold init
  split
  · rename_i m hm
    exact applyRow_inv C tbl m none n0 blank (inv_blank C tbl)
      (List.all_eq_true.mp h m (List.mem_of_find?_eq_some hm))
  · exact inv_blank C tbl

theorem run_append (tbl : CacheTable) (s : Obj) (a b : List Op) :
    run tbl s (a ++ b) = run tbl (run tbl s a) b := by
  induction a generalizing s with
  | nil => rfl
  | cons op a ih => simp only [List.cons_append, run]; exact ih _

/-! ## Versions evolve independently of the caches -/

theorem applyRow_ver_eq (tbl : CacheTable) (m : MethodRow) (arg : Option Nat) (n : Nat) (s : Obj) :
    (applyRow tbl m arg n s).ver =
      fun i => if (writtenInputs m).contains i then s.ver i + 1 else s.ver i := by
  unfold applyRow
  rw [(doFills_frame tbl m.fills _).1, (setLen_ver m n _ _).1]
  simp only [bumpClear]
  rw [(heapWrites_ver _ _ _).1, (chooseArg_ver _ _).1, (preReads_frame tbl m.reads s).1]

theorem step_ver_congr (tbl : CacheTable) (s1 s2 : Obj) (h : s1.ver = s2.ver) (op : Op)
    (hop : op.isObj = true) : (step tbl s1 op).1.ver = (step tbl s2 op).1.ver := by
  cases op with
  | mutate row arg n =>
    simp only [step]
    split
    · rw [applyRow_ver_eq, applyRow_ver_eq, h]
    · exact h
  | read q =>
    simp only [step]
    rw [(read_frame tbl s1 q).1, (read_frame tbl s2 q).1, h]
  | callerWrite k => simp [Op.isObj] at hop

/-! ## Observations do not depend on which caches happen to be filled (C04.c) -/

theorem step_mutate_snd (tbl : CacheTable) (s : Obj) (row : String) (arg : Option Nat) (n : Nat) :
    (step tbl s (.mutate row arg n)).2 = none := by
  simp only [step]; split <;> rfl

theorem observations_mutate (tbl : CacheTable) (s : Obj) (row : String) (arg : Option Nat) (n : Nat)
    (ops : List Op) :
    observations tbl s (.mutate row arg n :: ops) = observations tbl (step tbl s (.mutate row arg n)).1 ops := by
  rw [observations]
  simp only [step_mutate_snd]

theorem observations_read (tbl : CacheTable) (s : Obj) (q : String) (ops : List Op) :
    observations tbl s (.read q :: ops) =
      ((read tbl s q).1, ⟨q, (read tbl s q).2⟩) :: observations tbl (read tbl s q).1 ops := by
  rw [observations]
  simp only [step]

theorem observations_callerWrite (tbl : CacheTable) (s : Obj) (k : Nat) (ops : List Op) :
    observations tbl s (.callerWrite k :: ops) = observations tbl (callerWrite k s) ops := by
  rw [observations]
  simp only [step]

theorem observations_congr {V W : Type} (tbl : CacheTable) (hok : TableOK tbl)
    (val : String → Nat → V) (eval : String → (String → V) → W) (hloc : EvalLocal tbl eval)
    (ops : List Op) (hobj : ∀ op, op ∈ ops → op.isObj = true) (s1 s2 : Obj)
    (h1 : Inv tbl s1) (h2 : Inv tbl s2) (hv : s1.ver = s2.ver) :
    (observations tbl s1 ops).map (fun p => (p.2.quantity, p.2.value val eval)) =
      (observations tbl s2 ops).map (fun p => (p.2.quantity, p.2.value val eval)) := by
  induction ops generalizing s1 s2 with
  | nil => rfl
  | cons op ops ih =>
    have hop := hobj op List.mem_cons_self
    have hrest : ∀ o, o ∈ ops → o.isObj = true := fun o ho => hobj o (List.mem_cons_of_mem _ ho)
    have hv' := step_ver_congr tbl s1 s2 hv op hop
    have i1 := inv_step _ tbl hok s1 h1 op hop
    have i2 := inv_step _ tbl hok s2 h2 op hop
    have ih' := ih hrest _ _ i1 i2 hv'
    cases op with
    | mutate row arg n =>
      rw [observations_mutate, observations_mutate]
      exact ih'
    | read q =>
      rw [observations_read, observations_read]
      simp only [step] at ih'
      simp only [List.map_cons, ih']
      congr 2
      unfold Observation.value
      apply hloc
      intro i hi
      simp only
      rw [(read_spec _ tbl s1 q h1).2.2 i hi trivial, (read_spec _ tbl s2 q h2).2.2 i hi trivial, hv]
    | callerWrite k => simp [Op.isObj] at hop

/-! ## Ownership (C05.a) -/

/-- the array stored in input `inp` is not one the caller holds (and identities are allocated in order) -/
def Own (inp : String) (s : Obj) : Prop :=
  (∀ k, k ∈ s.held → k < s.nextId) ∧ s.ident inp < s.nextId ∧ s.ident inp ∉ s.held

theorem own_blank (inp : String) : Own inp blank := by
  refine ⟨?_, ?_, ?_⟩ <;> simp [blank]

theorem Own.frame {inp : String} {s s' : Obj} (hF : Frame s' s) (h : Own inp s) : Own inp s' := by
  obtain ⟨_, _, _, hi, _, hn, hh⟩ := hF
  unfold Own
  rw [hi, hn, hh]
  exact h

theorem own_chooseArg (inp : String) (arg : Option Nat) (s : Obj) (h : Own inp s) :
    Own inp (chooseArg arg s).1 := by
  obtain ⟨h1, h2, h3⟩ := h
  have hnew : Own inp { s with nextId := s.nextId + 1, held := s.nextId :: s.held } := by
    refine ⟨?_, ?_, ?_⟩
    · intro k hk
      simp only [List.mem_cons] at hk
      rcases hk with rfl | hk
      · exact Nat.lt_succ_self _
      · exact Nat.lt_succ_of_lt (h1 k hk)
    · exact Nat.lt_succ_of_lt h2
    · simp only [List.mem_cons, not_or]
      exact ⟨Nat.ne_of_lt h2, h3⟩
  unfold chooseArg
  split
  · split
    · exact ⟨h1, h2, h3⟩
    · exact hnew
  · exact hnew

theorem chooseArg_held (arg : Option Nat) (s : Obj) :
    (∀ k, k ∈ s.held → k ∈ (chooseArg arg s).1.held) ∧ (chooseArg arg s).1.content = s.content := by
  unfold chooseArg
  split
  · split
    · exact ⟨fun _ h => h, rfl⟩
    · exact ⟨fun _ h => List.mem_cons_of_mem _ h, rfl⟩
  · exact ⟨fun _ h => List.mem_cons_of_mem _ h, rfl⟩

theorem own_heapWrite (inp : String) (a : Nat) (s : Obj) (w : InputWrite)
    (hw : ¬ (w.input = inp ∧ w.store = .reference)) (h : Own inp s) : Own inp (heapWrite a s w) := by
  obtain ⟨h1, h2, h3⟩ := h
  unfold heapWrite
  split
  · -- copy
    refine ⟨fun k hk => Nat.lt_succ_of_lt (h1 k hk), ?_, ?_⟩
    · simp only
      split
      · exact Nat.lt_succ_self _
      · exact Nat.lt_succ_of_lt h2
    · simp only
      split
      · intro hmem; exact absurd (h1 _ hmem) (Nat.lt_irrefl _)
      · exact h3
  · -- reference
    rename_i hst
    have hne : ¬ inp = w.input := fun e => hw ⟨e.symm, hst⟩
    refine ⟨h1, ?_, ?_⟩
    · simp only [hne, if_false]; exact h2
    · simp only [hne, if_false]; exact h3
  · exact ⟨h1, h2, h3⟩

theorem heapWrite_held (a : Nat) (s : Obj) (w : InputWrite) : (heapWrite a s w).held = s.held := by
  unfold heapWrite
  split <;> rfl

/-- a sequence of stores: ownership of every input in the class `C` (inputs never stored by reference) is kept,
and no array the caller holds changes content, provided in-place writes only hit inputs of class `C` -/
theorem heapWrites_own (C : String → Prop) (a : Nat) (ws : List InputWrite) (s : Obj)
    (hrow : ∀ w, w ∈ ws → ∀ j, C j → ¬ (w.input = j ∧ w.store = .reference))
    (hown : ∀ j, C j → Own j s) :
    (∀ j, C j → Own j (heapWrites a ws s)) ∧ (heapWrites a ws s).held = s.held := by
  induction ws generalizing s with
  | nil => exact ⟨hown, rfl⟩
  | cons w ws ih =>
    have h1 : ∀ j, C j → Own j (heapWrite a s w) := fun j hj =>
      own_heapWrite j a s w (hrow w List.mem_cons_self j hj) (hown j hj)
    obtain ⟨k1, k2⟩ := ih (heapWrite a s w) (fun w' hw' => hrow w' (List.mem_cons_of_mem _ hw')) h1
    exact ⟨k1, k2.trans (heapWrite_held a s w)⟩

theorem heapWrites_content (C : String → Prop) (a : Nat) (ws : List InputWrite) (s : Obj)
    (hrow : ∀ w, w ∈ ws → ∀ j, C j → ¬ (w.input = j ∧ w.store = .reference))
    (hin : ∀ w, w ∈ ws → w.store = .inplace → C w.input)
    (hown : ∀ j, C j → Own j s) :
    ∀ k, k ∈ s.held → (heapWrites a ws s).content k = s.content k := by
  induction ws generalizing s with
  | nil => intro k _; rfl
  | cons w ws ih =>
    have h1 : ∀ j, C j → Own j (heapWrite a s w) := fun j hj =>
      own_heapWrite j a s w (hrow w List.mem_cons_self j hj) (hown j hj)
    intro k hk
    have hk' : k ∈ (heapWrite a s w).held := by rw [heapWrite_held]; exact hk
    have := ih (heapWrite a s w) (fun w' hw' => hrow w' (List.mem_cons_of_mem _ hw'))
      (fun w' hw' => hin w' (List.mem_cons_of_mem _ hw')) h1 k hk'
    simp only [heapWrites]
    rw [this]
    -- the single write
    unfold heapWrite
    split
    · rfl
    · rfl
    · rename_i hst
      have hC := hin w List.mem_cons_self hst
      have hnot := (hown _ hC).2.2
      simp only
      split
      · rename_i e; subst e; exact absurd hk hnot
      · rfl

theorem copiesOf_row {tbl : CacheTable} {inp : String} (h : CopiesOf tbl inp) {m : MethodRow}
    (hm : m ∈ tbl.methods) {w : InputWrite} (hw : w ∈ m.writes) :
    ¬ (w.input = inp ∧ w.store = .reference) := by
  have := List.all_eq_true.mp (List.all_eq_true.mp h m hm) w hw
  intro ⟨e1, e2⟩
  simp [e1, e2] at this

theorem own_applyRow (tbl : CacheTable) (C : String → Prop) (hC : ∀ j, C j → CopiesOf tbl j)
    (m : MethodRow) (hm : m ∈ tbl.methods) (arg : Option Nat) (n : Nat) (s : Obj)
    (hown : ∀ j, C j → Own j s) : ∀ j, C j → Own j (applyRow tbl m arg n s) := by
  intro j hj
  unfold applyRow
  have h1 : ∀ j, C j → Own j (preReads tbl m.reads s) := fun j hj =>
    (hown j hj).frame (preReads_frame tbl m.reads s)
  have h2 : ∀ j, C j → Own j (chooseArg arg (preReads tbl m.reads s)).1 := fun j hj =>
    own_chooseArg j arg _ (h1 j hj)
  have h3 := (heapWrites_own C (chooseArg arg (preReads tbl m.reads s)).2 m.writes _
    (fun w hw j hj => copiesOf_row (hC j hj) hm hw) h2).1 j hj
  refine Own.frame (doFills_frame tbl m.fills _) ?_
  -- bumpClear / setLen do not touch the heap
  have : ∀ (b : Bool) (t : Obj), Own j t → Own j (setLen m n b (bumpClear m t)) := by
    intro b t ht
    have hL := setLen_ver m n b (bumpClear m t)
    unfold Own
    rw [hL.2.2.1, hL.2.2.2.2.1, hL.2.2.2.2.2]
    exact ht
  exact this _ _ h3

theorem own_step (tbl : CacheTable) (C : String → Prop) (hC : ∀ j, C j → CopiesOf tbl j) (s : Obj)
    (hown : ∀ j, C j → Own j s) (op : Op) : ∀ j, C j → Own j (step tbl s op).1 := by
  intro j hj
  cases op with
  | mutate row arg n =>
    simp only [step]
    split
    · rename_i m hm
      exact own_applyRow tbl C hC m (List.mem_of_find?_eq_some hm) arg n s hown j hj
    · exact hown j hj
  | read q => exact (hown j hj).frame (read_frame tbl s q)
  | callerWrite k =>
    simp only [step, callerWrite]
    split
    · exact hown j hj
    · exact hown j hj

theorem own_run (tbl : CacheTable) (C : String → Prop) (hC : ∀ j, C j → CopiesOf tbl j) (ops : List Op)
    (s : Obj) (hown : ∀ j, C j → Own j s) : ∀ j, C j → Own j (run tbl s ops) := by
  induction ops generalizing s with
  | nil => exact hown
  | cons op ops ih => exact ih _ (own_step tbl C hC s hown op)

theorem own_init (tbl : CacheTable) (C : String → Prop) (hC : ∀ j, C j → CopiesOf tbl j) (n0 : Nat) :
    ∀ j, C j → Own j (init tbl n0) := by
  unfold init
  split
  · rename_i m hm
    exact own_applyRow tbl C hC m (List.mem_of_find?_eq_some hm) none n0 blank (fun j _ => own_blank j)
  · exact fun j _ => own_blank j

/-- an object operation leaves the content of every caller-held array alone -/
theorem applyRow_content (tbl : CacheTable) (hio : InplaceOwned tbl) (m : MethodRow) (hm : m ∈ tbl.methods)
    (arg : Option Nat) (n : Nat) (s : Obj) (hown : ∀ j, CopiesOf tbl j → Own j s) :
    ∀ k, k ∈ s.held → (applyRow tbl m arg n s).content k = s.content k := by
  intro k hk
  unfold applyRow
  have hP := preReads_frame tbl m.reads s
  have h1 : ∀ j, CopiesOf tbl j → Own j (preReads tbl m.reads s) := fun j hj => (hown j hj).frame hP
  have h2 : ∀ j, CopiesOf tbl j → Own j (chooseArg arg (preReads tbl m.reads s)).1 := fun j hj =>
    own_chooseArg j arg _ (h1 j hj)
  have hA := chooseArg_held arg (preReads tbl m.reads s)
  have hk1 : k ∈ (preReads tbl m.reads s).held := by rw [hP.2.2.2.2.2.2]; exact hk
  have hk2 := hA.1 k hk1
  have hin : ∀ w, w ∈ m.writes → w.store = .inplace → CopiesOf tbl w.input := by
    intro w hw hst
    have := List.all_eq_true.mp (List.all_eq_true.mp hio m hm) w hw
    show copiesOf tbl w.input = true
    simpa [hst] using this
  have h3 := heapWrites_content (CopiesOf tbl) (chooseArg arg (preReads tbl m.reads s)).2 m.writes _
    (fun w hw j hj => copiesOf_row hj hm hw) hin h2 k hk2
  rw [(doFills_frame tbl m.fills _).2.2.2.2.1]
  have : ∀ (b : Bool) (t : Obj), (setLen m n b (bumpClear m t)).content = t.content := by
    intro b t; rw [(setLen_ver m n b (bumpClear m t)).2.2.2.1]; rfl
  rw [this, h3, hA.2, hP.2.2.2.2.1]

/-- a write of the caller into an array it holds does not change the version of an owned input -/
theorem callerWrite_ver (inp : String) (k : Nat) (s : Obj) (h : Own inp s) :
    (callerWrite k s).ver inp = s.ver inp ∧ (callerWrite k s).cache = s.cache := by
  unfold callerWrite
  split
  · rename_i hk
    refine ⟨?_, rfl⟩
    simp only
    split
    · rename_i e; exact absurd (e ▸ hk) h.2.2
    · rfl
  · exact ⟨rfl, rfl⟩

/-! ## Arbitrary histories (with caller writes): invariant on the owned inputs, ownership, length -/

theorem inv_callerWrite (C : String → Prop) (tbl : CacheTable) (k : Nat) (s : Obj)
    (hown : ∀ j, C j → Own j s) (hs : InvOn C tbl s) : InvOn C tbl (callerWrite k s) := by
  refine InvOn.congr (fun j hC => (callerWrite_ver j k s (hown j hC)).1) ?_ hs
  unfold callerWrite
  split <;> rfl

theorem copiesOf_of_every {tbl : CacheTable} (h : EveryStoreCopies tbl) (inp : String) : CopiesOf tbl inp := by
  unfold CopiesOf copiesOf
  rw [List.all_eq_true]
  intro m hm
  rw [List.all_eq_true]
  intro w hw
  have := List.all_eq_true.mp (List.all_eq_true.mp h m hm) w hw
  cases hst : w.store <;> simp_all

def ShapeOK (s : Obj) : Prop := s.npts = s.len

/-- the row condition of `nptsOK`, as a proposition -/
def RowNptsOK (C : String → Prop) (tbl : CacheTable) (m : MethodRow) : Prop :=
  m.npts ≠ .notUpdated ∧ ∀ q, m.npts = .lengthOf q → valuesInput ∈ deps tbl q ∧ C valuesInput

theorem rowNptsOK_of (tbl : CacheTable) (h : NptsOK tbl) {m : MethodRow} (hm : m ∈ tbl.methods) :
    RowNptsOK (CopiesOf tbl) tbl m := by
  have := List.all_eq_true.mp h m hm
  constructor
  · intro e; rw [e] at this; simp at this
  · intro q e
    rw [e] at this
    simp only [Bool.and_eq_true] at this
    exact ⟨by simpa using this.1.2, this.2⟩

theorem lenFresh_true (C : String → Prop) (tbl : CacheTable) (m : MethodRow) (hm : RowNptsOK C tbl m)
    (s : Obj) (hs : InvOn C tbl s) : lenFresh tbl m s = true := by
  unfold lenFresh
  split
  · rename_i q hq
    obtain ⟨h1, h2⟩ := hm.2 q hq
    rw [(read_spec C tbl s q hs).2.2 valuesInput h1 h2]
    exact beq_self_eq_true _
  · rfl

theorem shape_applyRow (C : String → Prop) (tbl : CacheTable) (m : MethodRow) (hm : RowNptsOK C tbl m)
    (arg : Option Nat) (n : Nat) (s : Obj) (hinv : InvOn C tbl s) (hs : ShapeOK s) :
    ShapeOK (applyRow tbl m arg n s) := by
  unfold applyRow ShapeOK
  have hF := doFills_frame tbl m.fills
    (setLen m n (lenFresh tbl m (preReads tbl m.reads s))
      (bumpClear m (heapWrites (chooseArg arg (preReads tbl m.reads s)).2 m.writes
      (chooseArg arg (preReads tbl m.reads s)).1)))
  rw [hF.2.1, hF.2.2.1]
  have hW := heapWrites_ver (chooseArg arg (preReads tbl m.reads s)).2 m.writes
    (chooseArg arg (preReads tbl m.reads s)).1
  have hA := chooseArg_ver arg (preReads tbl m.reads s)
  have hP := preReads_frame tbl m.reads s
  have h0 : (bumpClear m (heapWrites (chooseArg arg (preReads tbl m.reads s)).2 m.writes
      (chooseArg arg (preReads tbl m.reads s)).1)).npts =
      (bumpClear m (heapWrites (chooseArg arg (preReads tbl m.reads s)).2 m.writes
      (chooseArg arg (preReads tbl m.reads s)).1)).len := by
    simp only [bumpClear]
    rw [hW.2.2.2, hW.2.2.1, hA.2.2.2, hA.2.2.1, hP.2.2.1, hP.2.1]
    exact hs
  rw [lenFresh_true C tbl m hm _ (preReads_spec C tbl m.reads s hinv)]
  unfold setLen
  split
  · rfl
  · exact h0
  · rename_i h; exact absurd h hm.1
  · simp only [if_true]; exact h0

/-- the invariant of arbitrary histories: caches fresh on the owned inputs, owned inputs not shared, length tracked -/
def Good (tbl : CacheTable) (s : Obj) : Prop :=
  InvOn (CopiesOf tbl) tbl s ∧ (∀ j, CopiesOf tbl j → Own j s) ∧ (NptsOK tbl → ShapeOK s)

theorem good_step (tbl : CacheTable) (hok : TableOK tbl) (s : Obj) (hs : Good tbl s) (op : Op) :
    Good tbl (step tbl s op).1 := by
  obtain ⟨h1, h2, h3⟩ := hs
  refine ⟨?_, own_step tbl (CopiesOf tbl) (fun _ h => h) s h2 op, ?_⟩
  · cases op with
    | mutate row arg n => exact inv_step _ tbl hok s h1 _ rfl
    | read q => exact inv_step _ tbl hok s h1 _ rfl
    | callerWrite k => exact inv_callerWrite _ tbl k s h2 h1
  · intro hn
    cases op with
    | mutate row arg n =>
      simp only [step]
      split
      · rename_i m hm
        exact shape_applyRow _ tbl m (rowNptsOK_of tbl hn (List.mem_of_find?_eq_some hm)) arg n s h1 (h3 hn)
      · exact h3 hn
    | read q =>
      have hF := read_frame tbl s q
      simp only [step, ShapeOK]
      rw [hF.2.1, hF.2.2.1]; exact h3 hn
    | callerWrite k =>
      simp only [step, callerWrite]
      split <;> exact h3 hn

theorem good_run (tbl : CacheTable) (hok : TableOK tbl) (ops : List Op) (s : Obj) (hs : Good tbl s) :
    Good tbl (run tbl s ops) := by
  induction ops generalizing s with
  | nil => exact hs
  | cons op ops ih => exact ih _ (good_step tbl hok s hs op)

theorem good_init (tbl : CacheTable) (hok : TableOK tbl) (n0 : Nat) : Good tbl (init tbl n0) := by
  refine ⟨inv_init _ tbl hok n0, own_init tbl (CopiesOf tbl) (fun _ h => h) n0, ?_⟩
  intro hn
  unfold init
  split
  · rename_i m hm
    exact shape_applyRow _ tbl m (rowNptsOK_of tbl hn (List.mem_of_find?_eq_some hm)) none n0 blank
      (inv_blank _ tbl) rfl
  · rfl

/-! ## The executable prediction is "fresh" everywhere (object operations) -/

theorem runObs_fresh (tbl : CacheTable) (hok : TableOK tbl) (hn : NptsOK tbl) (ops : List Op)
    (hobj : ∀ op, op ∈ ops → op.isObj = true) (s : Obj) (hs : Inv tbl s) (hsh : ShapeOK s) :
    ∀ p, p ∈ runObs tbl s ops → p.2 = true := by
  induction ops generalizing s with
  | nil => intro p hp; simp [runObs] at hp
  | cons op ops ih =>
    have hop := hobj op List.mem_cons_self
    have hrest : ∀ o, o ∈ ops → o.isObj = true := fun o ho => hobj o (List.mem_cons_of_mem _ ho)
    cases op with
    | mutate row arg n =>
      have hi := inv_step _ tbl hok s hs (.mutate row arg n) rfl
      have hsh' : ShapeOK (step tbl s (.mutate row arg n)).1 := by
        simp only [step]
        split
        · rename_i m hm
          have hr := rowNptsOK_of tbl hn (List.mem_of_find?_eq_some hm)
          exact shape_applyRow (fun _ => True) tbl m ⟨hr.1, fun q e => ⟨(hr.2 q e).1, trivial⟩⟩ arg n s hs hsh
        · exact hsh
      rw [runObs]
      simp only [step_mutate_snd]
      exact ih hrest _ hi hsh'
    | read q =>
      obtain ⟨hi, hF, hfr⟩ := read_spec _ tbl s q hs
      have hsh' : ShapeOK (read tbl s q).1 := by unfold ShapeOK; rw [hF.2.1, hF.2.2.1]; exact hsh
      have ih' := ih hrest _ hi hsh'
      rw [runObs]
      simp only [step]
      intro p hp
      rcases List.mem_cons.mp hp with rfl | hp
      · simp only [isFresh, Bool.and_eq_true, List.all_eq_true, beq_iff_eq, Bool.or_eq_true]
        refine ⟨fun i hi' => ?_, Or.inr hsh'⟩
        rw [hfr i hi' trivial, hF.1]
      · exact ih' p hp
    | callerWrite k => simp [Op.isObj] at hop

end EqsigVerif.Model.SignalSM
