import EqsigVerif.Model.FreqMoments
import Mathlib.Algebra.Order.Field.Basic
import Mathlib.Tactic.Ring
import Mathlib.Tactic.Linarith
import Mathlib.Tactic.FieldSimp
/-!
# Lemmas about `NpF.linspace` / `NpF.logspace` (`Prelude/NpF.lean`) and the smoothing-frequency bookkeeping of `Model/FreqMoments.lean`
-/
set_option linter.unusedSectionVars false
set_option linter.unusedVariables false
namespace EqsigVerif.NpF
open EqsigVerif EqsigVerif.Wire

section
variable {α : Type} [Field α] [BEq α]

@[simp] theorem linspace_zero (a b : α) : linspace a b 0 = [] := by simp [linspace]

@[simp] theorem linspace_one (a b : α) : linspace a b 1 = [a] := by simp [linspace]

@[simp] theorem linspace_length (a b : α) (n : ℕ) : (linspace a b n).length = n := by
  unfold linspace
  simp only []
  split_ifs <;> simp <;> omega

/-- entries before the last: `start + i·(stop − start)/(num − 1)` (both branches of NumPy's step rule give this value) -/
theorem linspace_getElem? (a b : α) (n i : ℕ) (hi : i + 1 < n) :
    (linspace a b n)[i]? = some ((i : α) * (b - a) / ((n - 1 : ℕ) : α) + a) := by
  have hn : n > 1 := by omega
  have hd : ¬ (n - 1 = 0) := by omega
  have hi' : i < n - 1 := by omega
  have hi'' : i < n := by omega
  unfold linspace
  simp only [hn, hd, if_true, if_false]
  split_ifs <;>
  · rw [List.getElem?_append_left (by simp; omega), List.getElem?_take_of_lt hi']
    simp only [List.map_map, List.getElem?_map, List.getElem?_range hi'', Option.map_some, Function.comp_apply]
    congr 1; ring

/-- the last entry is `stop` itself (`y[-1] = stop`), for `num ≥ 2` -/
theorem linspace_getLast? (a b : α) (n : ℕ) (hn : 2 ≤ n) : (linspace a b n).getLast? = some b := by
  have hn' : n > 1 := by omega
  unfold linspace
  simp only [hn', if_true]
  simp

/-- the first entry is `start`, for `num ≥ 1` -/
theorem linspace_head? (a b : α) (n : ℕ) (hn : 1 ≤ n) : (linspace a b n)[0]? = some a := by
  rcases Nat.lt_or_ge 1 n with h | h
  · have := linspace_getElem? a b n 0 (by omega)
    rw [this]; simp
  · have : n = 1 := by omega
    subst this; simp

@[simp] theorem logspace_length (pow10 : α → α) (a b : α) (n : ℕ) : (logspace pow10 a b n).length = n := by
  simp [logspace]

theorem logspace_head? (pow10 : α → α) (a b : α) (n : ℕ) (hn : 1 ≤ n) : (logspace pow10 a b n)[0]? = some (pow10 a) := by
  simp [logspace, List.getElem?_map, linspace_head? a b n hn]

theorem logspace_getLast? (pow10 : α → α) (a b : α) (n : ℕ) (hn : 2 ≤ n) : (logspace pow10 a b n).getLast? = some (pow10 b) := by
  simp [logspace, List.getLast?_map, linspace_getLast? a b n hn]

theorem logspace_getElem? (pow10 : α → α) (a b : α) (n i : ℕ) (hi : i + 1 < n) :
    (logspace pow10 a b n)[i]? = some (pow10 ((i : α) * (b - a) / ((n - 1 : ℕ) : α) + a)) := by
  simp [logspace, List.getElem?_map, linspace_getElem? a b n i hi]

end

end EqsigVerif.NpF
