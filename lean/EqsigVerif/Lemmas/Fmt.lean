import Mathlib.Algebra.Order.Floor.Ring
import Mathlib.Data.Rat.Floor
import Mathlib.Tactic.Ring
import Mathlib.Tactic.Linarith
import Mathlib.Tactic.Positivity
import Mathlib.Tactic.FieldSimp
import Mathlib.Tactic.NormNum
import EqsigVerif.Prelude.Fmt
/-!
# Lemmas about `Prelude/Fmt.lean`

* numeric layer: `rhe_close`, `fmt_value_close`
* digit layer : `parseDecL_renderL : parseDecL (renderL σ m d) = some (valueOf σ m d)`
* character classes of rendered numbers (`NumChars`), used by `Lemmas/Loader.lean`
-/
namespace EqsigVerif.Fmt

/-! ## numeric layer -/

theorem rhe_close (s : ℚ) : |(rhe s : ℚ) - s| ≤ 1 / 2 := by
  unfold rhe
  have h1 : ((Rat.floor s : ℤ) : ℚ) ≤ s := Int.floor_le s
  have h2 : s < (Rat.floor s : ℤ) + 1 := Int.lt_floor_add_one s
  simp only
  split
  · rename_i h
    rw [abs_le]; push_cast
    rcases h with h | ⟨h, _⟩ <;> constructor <;> linarith
  · rename_i h
    rw [not_or] at h
    rw [abs_le]
    constructor
    · by_cases hr : s - (Rat.floor s : ℤ) = 1 / 2
      · linarith
      · have := h.1
        linarith
    · linarith

theorem rhe_nonneg {s : ℚ} (hs : 0 ≤ s) : 0 ≤ rhe s := by
  unfold rhe
  have h0 : 0 ≤ Rat.floor s := Int.floor_nonneg.mpr hs
  simp only
  split <;> omega

theorem absR_eq (q : ℚ) : absR q = |q| := by
  unfold absR
  split
  · rename_i h; rw [abs_of_neg h]
  · rename_i h; rw [abs_of_nonneg (not_lt.mp h)]

theorem cast_pow10 (d : ℕ) : ((10 ^ d : ℕ) : ℚ) = (10 : ℚ) ^ d := by push_cast; rfl

/-- the magnitude printed by `'%.df'`, as a rational, is `rhe (|q|·10^d)` -/
theorem fmtMag_cast (q : ℚ) (d : ℕ) : ((fmtMag q d : ℕ) : ℚ) = (rhe (|q| * (10 : ℚ) ^ d) : ℚ) := by
  unfold fmtMag
  rw [absR_eq, cast_pow10]
  have h : 0 ≤ rhe (|q| * (10 : ℚ) ^ d) := rhe_nonneg (by positivity)
  have : ((rhe (|q| * (10 : ℚ) ^ d)).toNat : ℤ) = rhe (|q| * (10 : ℚ) ^ d) := Int.toNat_of_nonneg h
  exact_mod_cast congrArg (fun z : ℤ => (z : ℚ)) this

/-- `valueOf` in Mathlib notation -/
theorem valueOf_eq (neg : Bool) (m d : ℕ) :
    valueOf neg m d = (if neg then -1 else 1) * (m : ℚ) / (10 : ℚ) ^ d := by
  unfold valueOf; rw [cast_pow10]

theorem scale_close (R a p : ℚ) (hp : 0 < p) (h : |R - a * p| ≤ 1 / 2) : |R / p - a| ≤ 1 / 2 / p := by
  have e : R / p - a = (R - a * p) / p := by field_simp
  rw [e, abs_div, abs_of_pos hp]
  exact div_le_div_of_nonneg_right h hp.le

/-- the number denoted by the text `fmtFixed q d` is within half a unit of the last printed digit of `q` -/
theorem fmt_value_close (q : ℚ) (d : ℕ) :
    |valueOf (fmtNeg q) (fmtMag q d) d - q| ≤ 1 / 2 / (10 : ℚ) ^ d := by
  rw [valueOf_eq, fmtMag_cast]
  have hp : (0 : ℚ) < (10 : ℚ) ^ d := by positivity
  have hc := scale_close _ _ _ hp (rhe_close (|q| * (10 : ℚ) ^ d))
  generalize (rhe (|q| * (10 : ℚ) ^ d) : ℚ) = R at hc ⊢
  unfold fmtNeg
  by_cases hq : q < 0
  · have ha : |q| = -q := abs_of_neg hq
    rw [ha] at hc
    simp only [hq, decide_true, if_true]
    have e : -1 * R / (10 : ℚ) ^ d - q = -(R / (10 : ℚ) ^ d - -q) := by ring
    rw [e, abs_neg]; exact hc
  · have ha : |q| = q := abs_of_nonneg (not_lt.mp hq)
    rw [ha] at hc
    simp only [hq, decide_false, Bool.false_eq_true, if_false, one_mul]
    exact hc

/-! ## digit layer: characters -/

theorem digitChar_toNat (n : ℕ) : (digitChar n).toNat = 48 + n % 10 := by
  unfold digitChar
  have h : ∀ k < 10, (Char.ofNat (48 + k)).toNat = 48 + k := by decide
  exact h _ (Nat.mod_lt _ (by norm_num))

theorem isDigit_iff (c : Char) : isDigit c = true ↔ 48 ≤ c.toNat ∧ c.toNat ≤ 57 := by
  unfold isDigit; simp

theorem isDigit_digitChar (n : ℕ) : isDigit (digitChar n) = true := by
  rw [isDigit_iff, digitChar_toNat]; omega

theorem digitVal_digitChar (n : ℕ) : digitVal (digitChar n) = n % 10 := by
  unfold digitVal; rw [digitChar_toNat]; omega

/-- all characters are decimal digits -/
def AllDigits (l : List Char) : Prop := ∀ c ∈ l, isDigit c = true

theorem allDigits_digitsFixed (m k : ℕ) : AllDigits (digitsFixed m k) := by
  induction k generalizing m with
  | zero => intro c hc; simp [digitsFixed] at hc
  | succ k ih =>
    intro c hc
    simp only [digitsFixed, List.mem_append, List.mem_singleton] at hc
    rcases hc with hc | hc
    · exact ih _ c hc
    · rw [hc]; exact isDigit_digitChar _

theorem length_digitsFixed (m k : ℕ) : (digitsFixed m k).length = k := by
  induction k generalizing m with
  | zero => rfl
  | succ k ih => simp [digitsFixed, ih]

theorem allDigits_natDigitsAux (fuel m : ℕ) : AllDigits (natDigitsAux fuel m) := by
  induction fuel generalizing m with
  | zero => intro c hc; simp only [natDigitsAux, List.mem_singleton] at hc; rw [hc]; exact isDigit_digitChar _
  | succ f ih =>
    intro c hc
    unfold natDigitsAux at hc
    split at hc
    · simp only [List.mem_singleton] at hc; rw [hc]; exact isDigit_digitChar _
    · simp only [List.mem_append, List.mem_singleton] at hc
      rcases hc with hc | hc
      · exact ih _ c hc
      · rw [hc]; exact isDigit_digitChar _

theorem natDigitsAux_ne_nil (fuel m : ℕ) : natDigitsAux fuel m ≠ [] := by
  cases fuel with
  | zero => simp [natDigitsAux]
  | succ f => unfold natDigitsAux; split <;> simp

theorem allDigits_natDigits (m : ℕ) : AllDigits (natDigits m) := allDigits_natDigitsAux _ _
theorem natDigits_ne_nil (m : ℕ) : natDigits m ≠ [] := natDigitsAux_ne_nil _ _

/-! ## digit layer: values -/

theorem foldDigits_append (acc : ℕ) (a b : List Char) :
    foldDigits acc (a ++ b) = foldDigits (foldDigits acc a) b := by
  unfold foldDigits; rw [List.foldl_append]

theorem foldDigits_singleton (acc : ℕ) (c : Char) : foldDigits acc [c] = 10 * acc + digitVal c := rfl

theorem foldDigits_digitsFixed (acc m k : ℕ) :
    foldDigits acc (digitsFixed m k) = acc * 10 ^ k + m % 10 ^ k := by
  induction k generalizing m with
  | zero => simp [digitsFixed, foldDigits, Nat.mod_one]
  | succ k ih =>
    rw [digitsFixed, foldDigits_append, ih, foldDigits_singleton, digitVal_digitChar]
    have h : m % 10 ^ (k + 1) = m % 10 + 10 * (m / 10 % 10 ^ k) := by
      rw [pow_succ', Nat.mod_mul]
    rw [h, Nat.mod_mod]; ring

theorem foldDigits_natDigitsAux (fuel m : ℕ) (h : m ≤ fuel) : foldDigits 0 (natDigitsAux fuel m) = m := by
  induction fuel generalizing m with
  | zero =>
    have : m = 0 := by omega
    subst this; simp [natDigitsAux, foldDigits_singleton, digitVal_digitChar]
  | succ f ih =>
    unfold natDigitsAux
    split
    · rename_i hm
      rw [foldDigits_singleton, digitVal_digitChar]; omega
    · rename_i hm
      rw [foldDigits_append, ih _ (by omega), foldDigits_singleton, digitVal_digitChar]; omega

theorem foldDigits_natDigits (m : ℕ) : foldDigits 0 (natDigits m) = m :=
  foldDigits_natDigitsAux _ _ (le_refl _)

/-! ## digit layer: list helpers -/

theorem takeWhile_eq_self {α : Type} (p : α → Bool) (l : List α) (h : ∀ a ∈ l, p a = true) :
    l.takeWhile p = l := by
  induction l with
  | nil => rfl
  | cons a l ih =>
    rw [List.takeWhile_cons, h a (by simp), if_pos rfl, ih (fun b hb => h b (by simp [hb]))]

theorem dropWhile_eq_nil {α : Type} (p : α → Bool) (l : List α) (h : ∀ a ∈ l, p a = true) :
    l.dropWhile p = [] := by
  induction l with
  | nil => rfl
  | cons a l ih =>
    rw [List.dropWhile_cons, h a (by simp), if_pos rfl, ih (fun b hb => h b (by simp [hb]))]

theorem takeWhile_append_stop {α : Type} (p : α → Bool) (l : List α) (c : α) (r : List α)
    (h : ∀ a ∈ l, p a = true) (hc : p c = false) : (l ++ c :: r).takeWhile p = l := by
  rw [List.takeWhile_append_of_pos h, List.takeWhile_cons, hc]; simp

theorem dropWhile_append_stop {α : Type} (p : α → Bool) (l : List α) (c : α) (r : List α)
    (h : ∀ a ∈ l, p a = true) (hc : p c = false) : (l ++ c :: r).dropWhile p = c :: r := by
  rw [List.dropWhile_append_of_pos h, List.dropWhile_cons, hc]; simp

theorem dropWhile_eq_self {α : Type} (p : α → Bool) (l : List α) (h : ∀ a ∈ l, p a = false) :
    l.dropWhile p = l := by
  cases l with
  | nil => rfl
  | cons a l => rw [List.dropWhile_cons, h a (by simp)]; simp

theorem stripBy_eq_self (p : Char → Bool) (l : List Char) (h : ∀ a ∈ l, p a = false) : stripBy p l = l := by
  unfold stripBy
  rw [dropWhile_eq_self p l h, dropWhile_eq_self p l.reverse (fun a ha => h a (by simpa using ha)),
    List.reverse_reverse]

/-! ## digit layer: character class of rendered numbers -/

/-- characters that occur in rendered numbers: `-`, `.`, digits -/
def NumChar (c : Char) : Prop := c.toNat = 45 ∨ c.toNat = 46 ∨ isDigit c = true
def NumChars (l : List Char) : Prop := ∀ c ∈ l, NumChar c

theorem NumChars.of_allDigits {l : List Char} (h : AllDigits l) : NumChars l :=
  fun c hc => Or.inr (Or.inr (h c hc))

theorem NumChars.append {a b : List Char} (ha : NumChars a) (hb : NumChars b) : NumChars (a ++ b) := by
  intro c hc; rw [List.mem_append] at hc; exact hc.elim (ha c) (hb c)

theorem numChars_renderL (neg : Bool) (m d : ℕ) : NumChars (renderL neg m d) := by
  unfold renderL
  refine NumChars.append (NumChars.append ?_ (NumChars.of_allDigits (allDigits_natDigits _))) ?_
  · cases neg
    · intro c hc; simp at hc
    · intro c hc; simp only [if_true, List.mem_singleton] at hc; rw [hc]; exact Or.inl (by decide)
  · split
    · intro c hc; simp at hc
    · intro c hc
      rw [List.mem_cons] at hc
      rcases hc with hc | hc
      · rw [hc]; exact Or.inr (Or.inl (by decide))
      · exact Or.inr (Or.inr (allDigits_digitsFixed _ _ c hc))

theorem renderL_ne_nil (neg : Bool) (m d : ℕ) : renderL neg m d ≠ [] := by
  unfold renderL
  intro h
  rw [List.append_eq_nil_iff, List.append_eq_nil_iff] at h
  exact natDigits_ne_nil _ h.1.2

theorem NumChar.toNat_cases {c : Char} (h : NumChar c) : c.toNat = 45 ∨ c.toNat = 46 ∨ (48 ≤ c.toNat ∧ c.toNat ≤ 57) := by
  rcases h with h | h | h
  · exact Or.inl h
  · exact Or.inr (Or.inl h)
  · exact Or.inr (Or.inr ((isDigit_iff c).mp h))

theorem NumChar.not_asciiWs {c : Char} (h : NumChar c) : isAsciiWs c = false := by
  have := h.toNat_cases
  unfold isAsciiWs
  simp only [Bool.or_eq_false_iff, decide_eq_false_iff_not, Bool.and_eq_false_iff]
  omega

theorem NumChar.not_isE {c : Char} (h : NumChar c) : isE c = false := by
  have := h.toNat_cases
  unfold isE
  simp only [Bool.or_eq_false_iff, decide_eq_false_iff_not]
  omega

/-! ## digit layer: the parser on rendered numbers -/

theorem parseMant_int (a : ℕ) : parseMant (natDigits a) = some ((a : ℕ) : ℚ) := by
  unfold parseMant
  have hd := allDigits_natDigits a
  rw [dropWhile_eq_nil _ _ hd, takeWhile_eq_self _ _ hd]
  have hne : (natDigits a).isEmpty = false := by
    cases h : natDigits a with
    | nil => exact absurd h (natDigits_ne_nil a)
    | cons _ _ => rfl
  simp only [hne, Bool.false_eq_true, if_false, foldDigits_natDigits]

theorem not_isDigit_dot : isDigit (Char.ofNat 46) = false := by decide

theorem parseMant_frac (a b d : ℕ) :
    parseMant (natDigits a ++ '.' :: digitsFixed b d) =
      some (((a * 10 ^ d + b % 10 ^ d : ℕ) : ℚ) / ((10 ^ d : ℕ) : ℚ)) := by
  unfold parseMant
  have hd := allDigits_natDigits a
  have hf := allDigits_digitsFixed b d
  have hdot : isDigit '.' = false := by decide
  rw [dropWhile_append_stop _ _ _ _ hd hdot, takeWhile_append_stop _ _ _ _ hd hdot]
  have hne : (natDigits a).isEmpty = false := by
    cases h : natDigits a with
    | nil => exact absurd h (natDigits_ne_nil a)
    | cons _ _ => rfl
  have hall : (digitsFixed b d).all isDigit = true := List.all_eq_true.mpr hf
  have h46 : ('.' : Char).toNat = 46 := by decide
  simp only [h46, hall, hne, Bool.false_eq_true, false_and, not_false_eq_true, and_self, if_true,
    length_digitsFixed, foldDigits_append, foldDigits_natDigits, foldDigits_digitsFixed]

/-- magnitude part of `renderL` -/
def renderMagL (m d : ℕ) : List Char :=
  natDigits (m / 10 ^ d) ++ (if d = 0 then [] else '.' :: digitsFixed (m % 10 ^ d) d)

theorem renderL_eq (neg : Bool) (m d : ℕ) :
    renderL neg m d = (if neg then ['-'] else []) ++ renderMagL m d := by
  unfold renderL renderMagL; rw [List.append_assoc]

theorem numChars_renderMagL (m d : ℕ) : NumChars (renderMagL m d) := by
  have := numChars_renderL false m d
  rw [renderL_eq] at this; simpa using this

theorem parseMant_renderMagL (m d : ℕ) :
    parseMant (renderMagL m d) = some (((m : ℕ) : ℚ) / ((10 ^ d : ℕ) : ℚ)) := by
  unfold renderMagL
  by_cases hd : d = 0
  · subst hd; simp [parseMant_int]
  · rw [if_neg hd, parseMant_frac]
    have : m / 10 ^ d * 10 ^ d + m % 10 ^ d % 10 ^ d = m := by
      rw [Nat.mod_mod]; exact Nat.div_add_mod' m (10 ^ d)
    rw [this]

theorem parseUnsigned_renderMagL (m d : ℕ) :
    parseUnsigned (renderMagL m d) = some (((m : ℕ) : ℚ) / ((10 ^ d : ℕ) : ℚ)) := by
  unfold parseUnsigned
  have h : ∀ c ∈ renderMagL m d, (fun c => !isE c) c = true := by
    intro c hc; simp [(numChars_renderMagL m d c hc).not_isE]
  rw [dropWhile_eq_nil _ _ h, takeWhile_eq_self _ _ h]
  exact parseMant_renderMagL m d

theorem renderMagL_head (m d : ℕ) : ∃ c r, renderMagL m d = c :: r ∧ isDigit c = true := by
  unfold renderMagL
  cases h : natDigits (m / 10 ^ d) with
  | nil => exact absurd h (natDigits_ne_nil _)
  | cons c r =>
    refine ⟨c, r ++ _, rfl, ?_⟩
    exact allDigits_natDigits (m / 10 ^ d) c (by rw [h]; simp)

theorem parseSigned_cons (c : Char) (r : List Char) :
    parseSigned (c :: r) =
      if c.toNat = 45 then (parseUnsigned r).map (fun x => -x)
      else if c.toNat = 43 then parseUnsigned r
      else parseUnsigned (c :: r) := rfl

/-- **digit layer**: parsing the rendered text gives back exactly the rendered number -/
theorem parseDecL_renderL (neg : Bool) (m d : ℕ) : parseDecL (renderL neg m d) = some (valueOf neg m d) := by
  unfold parseDecL
  rw [stripBy_eq_self _ _ (fun c hc => (numChars_renderL neg m d c hc).not_asciiWs), renderL_eq]
  cases neg
  · obtain ⟨c, r, hcr, hc⟩ := renderMagL_head m d
    have hc' := (isDigit_iff c).mp hc
    simp only [Bool.false_eq_true, if_false, List.nil_append]
    have : parseSigned (renderMagL m d) = parseUnsigned (renderMagL m d) := by
      rw [hcr, parseSigned_cons, if_neg (by omega), if_neg (by omega)]
    rw [this, parseUnsigned_renderMagL]
    simp [valueOf]
  · simp only [if_true, List.singleton_append]
    have h45 : ('-' : Char).toNat = 45 := by decide
    rw [parseSigned_cons, if_pos h45, parseUnsigned_renderMagL]
    simp only [Option.map_some, valueOf, if_true]
    congr 1; ring

theorem parseDec_render (neg : Bool) (m d : ℕ) : parseDec (render neg m d) = some (valueOf neg m d) := by
  unfold parseDec render; rw [String.toList_ofList]; exact parseDecL_renderL neg m d

theorem parseDec_fmtFixed (q : ℚ) (d : ℕ) :
    parseDec (fmtFixed q d) = some (valueOf (fmtNeg q) (fmtMag q d) d) := by
  unfold parseDec fmtFixed fmtFixedL; rw [String.toList_ofList]; exact parseDecL_renderL _ _ _

end EqsigVerif.Fmt
