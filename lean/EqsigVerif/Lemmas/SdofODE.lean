import EqsigVerif.Model.Sdof
import EqsigVerif.Gen.SdofABReal
import EqsigVerif.Lemmas.Sdof
import Mathlib.Analysis.SpecialFunctions.Trigonometric.Deriv
import Mathlib.Analysis.SpecialFunctions.ExpDeriv
import Mathlib.Analysis.SpecialFunctions.Sqrt
import Mathlib.Analysis.Calculus.Deriv.MeanValue
import Mathlib.Analysis.Calculus.Deriv.Mul
import Mathlib.Analysis.Calculus.Deriv.Pow
import Mathlib.Tactic.Ring
import Mathlib.Tactic.FieldSimp
import Mathlib.Tactic.Linarith
import Mathlib.Tactic.Positivity
import Mathlib.Tactic.LinearCombination
/-!
# The Nigam & Jennings propagator is the exact one-panel solution operator (C01.a, C01.b)

* `canonSym`/`canonAB`: hand-written canonical form of the eight closed forms in the symbols
  `e = exp(−ξw·dt)`, `S = sin(w√(1−ξ²)·dt)`, `C = cos(…)`, `r = √(1−ξ²)`.
* `computeABReal_eq_canon`: the *generated* translation of `compute_a_and_b` equals the canonical form —
  pure field algebra (`field_simp; ring`) after naming the four transcendental atoms, whatever the shape
  of their arguments; robust against re-association and renamed / inlined temporaries in the Python code.
* `njPhi`, `njPhi'`: damped sinusoid + linear particular solution; `HasDerivAt` facts, ODE, initial values,
  and `(φ dt, φ' dt) = step (canonAB …)` — the stable part, uses `r² = 1 − ξ²`.
* `osc_unique`: uniqueness for `u'' + 2ξw u' + w² u = g` forward in time (energy argument).
-/
set_option linter.unusedSectionVars false
set_option linter.unusedVariables false
-- `computeABReal_eq_canon` keeps `field_simp; ring` even when the generated text is already in canonical shape
set_option linter.unusedTactic false
set_option linter.unreachableTactic false
namespace EqsigVerif.Model.Sdof
open Real

/-! ## canonical form -/

/-- Nigam & Jennings (1968) Eq 2.7d/e in the symbols `e S C r` -/
noncomputable def canonSym (xi w dt e S C r : ℝ) : AB ℝ where
  a11 := e * (xi / r * S + C)
  a12 := e / (w * r) * S
  a21 := -w / r * e * S
  a22 := e * (C - xi / r * S)
  b11 := e * (((2 * xi ^ 2 - 1) / (w ^ 2 * dt) + xi / w) * (S / (w * r))
            + (2 * xi / (w ^ 3 * dt) + 1 / w ^ 2) * C) - 2 * xi / (w ^ 3 * dt)
  b12 := -e * ((2 * xi ^ 2 - 1) / (w ^ 2 * dt) * (S / (w * r)) + 2 * xi / (w ^ 3 * dt) * C)
            - 1 / w ^ 2 + 2 * xi / (w ^ 3 * dt)
  b21 := e * (((2 * xi ^ 2 - 1) / (w ^ 2 * dt) + xi / w) * (C - xi / r * S)
            - (2 * xi / (w ^ 3 * dt) + 1 / w ^ 2) * (w * r * S + xi * w * C)) + 1 / w ^ 2 / dt
  b22 := -e * ((2 * xi ^ 2 - 1) / (w ^ 2 * dt) * (C - xi / r * S)
            - 2 * xi / (w ^ 3 * dt) * (w * r * S + xi * w * C)) - 1 / w ^ 2 / dt

/-- the canonical propagator: `canonSym` at `e = exp(−ξw·dt)`, `S, C = sin, cos (w·r·dt)`, `r = √(1−ξ²)` -/
noncomputable def canonAB (xi w dt : ℝ) : AB ℝ :=
  canonSym xi w dt (exp (-(xi * w) * dt)) (sin (w * sqrt (1 - xi ^ 2) * dt))
    (cos (w * sqrt (1 - xi ^ 2) * dt)) (sqrt (1 - xi ^ 2))

theorem AB.ext' {α : Type} {m n : AB α} (h1 : m.a11 = n.a11) (h2 : m.a12 = n.a12) (h3 : m.a21 = n.a21)
    (h4 : m.a22 = n.a22) (h5 : m.b11 = n.b11) (h6 : m.b12 = n.b12) (h7 : m.b21 = n.b21)
    (h8 : m.b22 = n.b22) : m = n := by
  cases m; cases n; simp_all

/-- **generated = canonical.** Only field algebra: the four transcendental atoms of the generated text
are named (`generalize`, independent of how their arguments are written), the canonical atoms are
identified with them by `congr 1; ring`, and the eight component identities close by `field_simp; ring`. -/
theorem computeABReal_eq_canon (xi w dt : ℝ) (hw : w ≠ 0) (hdt : dt ≠ 0) (hr0 : sqrt (1 - xi ^ 2) ≠ 0) :
    EqsigVerif.Gen.SdofAB.computeABReal xi w dt = canonAB xi w dt := by
  simp only [EqsigVerif.Gen.SdofAB.computeABReal]
  generalize hr : Real.sqrt _ = r
  generalize he : Real.exp _ = e
  generalize hS : Real.sin _ = S
  generalize hC : Real.cos _ = C
  have hr' : sqrt (1 - xi ^ 2) = r := Eq.trans (congrArg Real.sqrt (by ring)) hr
  rw [hr'] at hr0
  have he' : exp (-(xi * w) * dt) = e := Eq.trans (congrArg Real.exp (by ring)) he
  have hS' : sin (w * r * dt) = S := Eq.trans (congrArg Real.sin (by ring)) hS
  have hC' : cos (w * r * dt) = C := Eq.trans (congrArg Real.cos (by ring)) hC
  simp only [canonAB, hr', he', hS', hC']
  apply AB.ext' <;> simp only [canonSym] <;> field_simp <;> ring

/-! ## the panel solution -/

/-- damped sinusoid + linear particular solution -/
noncomputable def phi (k wd c1 c2 p0 p1 : ℝ) (t : ℝ) : ℝ :=
  exp (-k * t) * (c1 * cos (wd * t) + c2 * sin (wd * t)) + p0 + p1 * t

noncomputable def phi' (k wd c1 c2 p1 : ℝ) (t : ℝ) : ℝ :=
  exp (-k * t) * (-(k) * (c1 * cos (wd * t) + c2 * sin (wd * t))
    + wd * (-(c1 * sin (wd * t)) + c2 * cos (wd * t))) + p1

noncomputable def phi'' (k wd c1 c2 : ℝ) (t : ℝ) : ℝ :=
  exp (-k * t) * ((k ^ 2 - wd ^ 2) * (c1 * cos (wd * t) + c2 * sin (wd * t))
    - 2 * k * wd * (-(c1 * sin (wd * t)) + c2 * cos (wd * t)))

theorem hasDerivAt_phi (k wd c1 c2 p0 p1 t : ℝ) :
    HasDerivAt (phi k wd c1 c2 p0 p1) (phi' k wd c1 c2 p1 t) t := by
  unfold phi phi'
  have hlin : HasDerivAt (fun t : ℝ => wd * t) wd t := by simpa using (hasDerivAt_id t).const_mul wd
  have hk : HasDerivAt (fun t : ℝ => -k * t) (-k) t := by simpa using (hasDerivAt_id t).const_mul (-k)
  have he := hk.exp
  have hc := (hlin.cos).const_mul c1
  have hs := (hlin.sin).const_mul c2
  have hp : HasDerivAt (fun t : ℝ => p1 * t) p1 t := by simpa using (hasDerivAt_id t).const_mul p1
  have h := ((he.mul (hc.add hs)).add_const p0).add hp
  refine h.congr_deriv ?_
  simp only [Pi.add_apply]
  ring

theorem hasDerivAt_phi' (k wd c1 c2 p1 t : ℝ) :
    HasDerivAt (phi' k wd c1 c2 p1) (phi'' k wd c1 c2 t) t := by
  unfold phi' phi''
  have hlin : HasDerivAt (fun t : ℝ => wd * t) wd t := by simpa using (hasDerivAt_id t).const_mul wd
  have hk : HasDerivAt (fun t : ℝ => -k * t) (-k) t := by simpa using (hasDerivAt_id t).const_mul (-k)
  have he := hk.exp
  have hc := (hlin.cos).const_mul c1
  have hs := (hlin.sin).const_mul c2
  have hcs := hc.add hs
  have hsn := ((hlin.sin).const_mul c1).neg
  have hcc := (hlin.cos).const_mul c2
  have hin := (hcs.const_mul (-k)).add ((hsn.add hcc).const_mul wd)
  have h := (he.mul hin).add_const p1
  refine h.congr_deriv ?_
  simp only [Pi.add_apply, Pi.neg_apply]
  ring

/-- the ODE: `φ'' + 2ξw φ' + w² φ = f0 + s t`, when `k = ξw`, `wd² = w²(1−ξ²)`, `w² p1 = s`,
`2ξw p1 + w² p0 = f0` -/
theorem phi_ode (xi w wd c1 c2 p0 p1 f0 s t : ℝ) (hwd : wd ^ 2 = w ^ 2 * (1 - xi ^ 2))
    (hp1 : w ^ 2 * p1 = s) (hp0 : 2 * xi * w * p1 + w ^ 2 * p0 = f0) :
    phi'' (xi * w) wd c1 c2 t + 2 * xi * w * phi' (xi * w) wd c1 c2 p1 t
      + w ^ 2 * phi (xi * w) wd c1 c2 p0 p1 t = f0 + s * t := by
  unfold phi phi' phi''
  subst hp1 hp0
  have : wd ^ 2 - w ^ 2 * (1 - xi ^ 2) = 0 := by linarith
  linear_combination (-(exp (-(xi * w) * t) * (c1 * cos (wd * t) + c2 * sin (wd * t)))) * this

/-! ### the coefficients of the panel solution for state `(u0, v0)` and load `f0 → f1` over `dt` -/

noncomputable def njP1 (w dt f0 f1 : ℝ) : ℝ := (f1 - f0) / dt / w ^ 2
noncomputable def njP0 (xi w dt f0 f1 : ℝ) : ℝ := (f0 - 2 * xi * ((f1 - f0) / dt) / w) / w ^ 2
noncomputable def njC1 (xi w dt u0 f0 f1 : ℝ) : ℝ := u0 - njP0 xi w dt f0 f1
noncomputable def njC2 (xi w dt u0 v0 f0 f1 : ℝ) : ℝ :=
  (v0 - njP1 w dt f0 f1 + xi * w * njC1 xi w dt u0 f0 f1) / (w * sqrt (1 - xi ^ 2))

/-- the exact solution on one panel (local time `τ`): state `(u0, v0)` at `τ = 0`, right-hand side
`f0 + (f1 − f0) τ / dt` -/
noncomputable def njPhi (xi w dt u0 v0 f0 f1 : ℝ) : ℝ → ℝ :=
  phi (xi * w) (w * sqrt (1 - xi ^ 2)) (njC1 xi w dt u0 f0 f1) (njC2 xi w dt u0 v0 f0 f1)
    (njP0 xi w dt f0 f1) (njP1 w dt f0 f1)

/-- its derivative -/
noncomputable def njPhi' (xi w dt u0 v0 f0 f1 : ℝ) : ℝ → ℝ :=
  phi' (xi * w) (w * sqrt (1 - xi ^ 2)) (njC1 xi w dt u0 f0 f1) (njC2 xi w dt u0 v0 f0 f1)
    (njP1 w dt f0 f1)

theorem sqrt_one_sub_sq_pos (xi : ℝ) (h0 : 0 ≤ xi) (h1 : xi < 1) : 0 < sqrt (1 - xi ^ 2) := by
  apply Real.sqrt_pos.mpr
  nlinarith

theorem sq_sqrt_one_sub_sq (xi : ℝ) (h0 : 0 ≤ xi) (h1 : xi < 1) : sqrt (1 - xi ^ 2) ^ 2 = 1 - xi ^ 2 := by
  apply Real.sq_sqrt
  nlinarith

theorem njPhi_hasDerivAt (xi w dt u0 v0 f0 f1 τ : ℝ) :
    HasDerivAt (njPhi xi w dt u0 v0 f0 f1) (njPhi' xi w dt u0 v0 f0 f1 τ) τ :=
  hasDerivAt_phi _ _ _ _ _ _ _

theorem njPhi'_hasDerivAt (xi w dt u0 v0 f0 f1 τ : ℝ) (hw : w ≠ 0) (hdt : dt ≠ 0)
    (h0 : 0 ≤ xi) (h1 : xi < 1) :
    HasDerivAt (njPhi' xi w dt u0 v0 f0 f1)
      (f0 + (f1 - f0) * τ / dt - 2 * xi * w * njPhi' xi w dt u0 v0 f0 f1 τ
        - w ^ 2 * njPhi xi w dt u0 v0 f0 f1 τ) τ := by
  have h := hasDerivAt_phi' (xi * w) (w * sqrt (1 - xi ^ 2)) (njC1 xi w dt u0 f0 f1)
    (njC2 xi w dt u0 v0 f0 f1) (njP1 w dt f0 f1) τ
  have hode := phi_ode xi w (w * sqrt (1 - xi ^ 2)) (njC1 xi w dt u0 f0 f1)
    (njC2 xi w dt u0 v0 f0 f1) (njP0 xi w dt f0 f1) (njP1 w dt f0 f1) f0 ((f1 - f0) / dt) τ
    (by rw [mul_pow, sq_sqrt_one_sub_sq xi h0 h1])
    (by unfold njP1; field_simp)
    (by unfold njP0 njP1; field_simp; ring)
  refine h.congr_deriv ?_
  unfold njPhi njPhi'
  linear_combination hode

theorem njPhi_zero (xi w dt u0 v0 f0 f1 : ℝ) : njPhi xi w dt u0 v0 f0 f1 0 = u0 := by
  simp [njPhi, phi, njC1]

theorem njPhi'_zero (xi w dt u0 v0 f0 f1 : ℝ) (hw : w ≠ 0) (h0 : 0 ≤ xi) (h1 : xi < 1) :
    njPhi' xi w dt u0 v0 f0 f1 0 = v0 := by
  have hr := (sqrt_one_sub_sq_pos xi h0 h1).ne'
  simp only [njPhi', phi', njC2, mul_zero, Real.exp_zero, Real.cos_zero, Real.sin_zero]
  field_simp
  ring

/-- displacement after one panel, in symbols (`e S C r` arbitrary) -/
theorem u_step (xi w dt e S C r u0 v0 f0 f1 : ℝ) (hw : w ≠ 0) (hdt : dt ≠ 0) (hr0 : r ≠ 0) :
    e * ((u0 - (f0 - 2 * xi * ((f1 - f0) / dt) / w) / w ^ 2) * C
        + ((v0 - (f1 - f0) / dt / w ^ 2 + xi * w * (u0 - (f0 - 2 * xi * ((f1 - f0) / dt) / w) / w ^ 2)) / (w * r)) * S)
      + (f0 - 2 * xi * ((f1 - f0) / dt) / w) / w ^ 2 + (f1 - f0) / dt / w ^ 2 * dt
      = (step (canonSym xi w dt e S C r) (u0, v0) (-f0) (-f1)).1 := by
  simp only [step, canonSym]
  field_simp
  ring

/-- velocity after one panel, in symbols (`r² = 1 − ξ²` is the only relation used) -/
theorem v_step (xi w dt e S C r u0 v0 f0 f1 : ℝ) (hw : w ≠ 0) (hdt : dt ≠ 0) (hr0 : r ≠ 0)
    (hr : r ^ 2 = 1 - xi ^ 2) :
    e * (-(xi * w) * ((u0 - (f0 - 2 * xi * ((f1 - f0) / dt) / w) / w ^ 2) * C
        + ((v0 - (f1 - f0) / dt / w ^ 2 + xi * w * (u0 - (f0 - 2 * xi * ((f1 - f0) / dt) / w) / w ^ 2)) / (w * r)) * S)
      + w * r * (-((u0 - (f0 - 2 * xi * ((f1 - f0) / dt) / w) / w ^ 2) * S)
        + ((v0 - (f1 - f0) / dt / w ^ 2 + xi * w * (u0 - (f0 - 2 * xi * ((f1 - f0) / dt) / w) / w ^ 2)) / (w * r)) * C))
      + (f1 - f0) / dt / w ^ 2
      = (step (canonSym xi w dt e S C r) (u0, v0) (-f0) (-f1)).2 := by
  simp only [step, canonSym]
  field_simp
  have h0 : r ^ 2 - 1 + xi ^ 2 = 0 := by linarith
  linear_combination (-S * dt * e * u0 * w ^ 3) * h0

/-- the panel solution at `τ = dt` is one step of the canonical propagator -/
theorem njPhi_dt_canon (xi w dt u0 v0 f0 f1 : ℝ) (hw : w ≠ 0) (hdt : dt ≠ 0) (h0 : 0 ≤ xi) (h1 : xi < 1) :
    (njPhi xi w dt u0 v0 f0 f1 dt, njPhi' xi w dt u0 v0 f0 f1 dt)
      = step (canonAB xi w dt) (u0, v0) (-f0) (-f1) := by
  have hr := (sqrt_one_sub_sq_pos xi h0 h1).ne'
  have hr2 := sq_sqrt_one_sub_sq xi h0 h1
  apply Prod.ext
  · simp only [njPhi, phi, njC1, njC2, njP0, njP1, canonAB]
    exact u_step xi w dt _ _ _ _ u0 v0 f0 f1 hw hdt hr
  · simp only [njPhi', phi', njC1, njC2, njP0, njP1, canonAB]
    exact v_step xi w dt _ _ _ _ u0 v0 f0 f1 hw hdt hr hr2

/-- the panel solution at `τ = dt` is one step of the **generated** propagator -/
theorem njPhi_dt (xi w dt u0 v0 f0 f1 : ℝ) (hw : w ≠ 0) (hdt : dt ≠ 0) (h0 : 0 ≤ xi) (h1 : xi < 1) :
    (njPhi xi w dt u0 v0 f0 f1 dt, njPhi' xi w dt u0 v0 f0 f1 dt)
      = step (EqsigVerif.Gen.SdofAB.computeABReal xi w dt) (u0, v0) (-f0) (-f1) := by
  rw [computeABReal_eq_canon xi w dt hw hdt (sqrt_one_sub_sq_pos xi h0 h1).ne']
  exact njPhi_dt_canon xi w dt u0 v0 f0 f1 hw hdt h0 h1

/-! ## uniqueness (energy argument) -/

theorem osc_unique_zero (xi w : ℝ) (hxi : 0 ≤ xi) (hw : 0 < w) (t0 : ℝ) (d d' d'' : ℝ → ℝ)
    (h1 : ∀ t, HasDerivAt d (d' t) t) (h2 : ∀ t, HasDerivAt d' (d'' t) t)
    (hode : ∀ t, d'' t + 2 * xi * w * d' t + w ^ 2 * d t = 0)
    (h0 : d t0 = 0) (h0' : d' t0 = 0) : ∀ t, t0 ≤ t → d t = 0 ∧ d' t = 0 := by
  set E : ℝ → ℝ := fun t => d' t ^ 2 + w ^ 2 * d t ^ 2 with hE
  have hEd : ∀ t, HasDerivAt E (2 * d' t * d'' t + w ^ 2 * (2 * d t * d' t)) t := by
    intro t
    have a := (h2 t).pow 2
    have b := ((h1 t).pow 2).const_mul (w ^ 2)
    have := a.add b
    refine this.congr_deriv ?_
    simp
  have hanti : Antitone E := by
    apply antitone_of_deriv_nonpos (fun t => (hEd t).differentiableAt)
    intro t
    rw [(hEd t).deriv]
    have : d'' t = -(2 * xi * w * d' t) - w ^ 2 * d t := by linarith [hode t]
    rw [this]
    have : 2 * d' t * (-(2 * xi * w * d' t) - w ^ 2 * d t) + w ^ 2 * (2 * d t * d' t)
        = -(4 * xi * w * d' t ^ 2) := by ring
    rw [this]
    have : 0 ≤ 4 * xi * w * d' t ^ 2 := by positivity
    linarith
  intro t ht
  have hle : E t ≤ E t0 := hanti ht
  have hE0 : E t0 = 0 := by simp [hE, h0, h0']
  have hnn : 0 ≤ d' t ^ 2 := by positivity
  have hnn2 : 0 ≤ w ^ 2 * d t ^ 2 := by positivity
  have hsum : d' t ^ 2 + w ^ 2 * d t ^ 2 ≤ 0 := by
    have : E t ≤ 0 := by rw [← hE0]; exact hle
    simpa [hE] using this
  have hd' : d' t ^ 2 = 0 := by linarith
  have hd : w ^ 2 * d t ^ 2 = 0 := by linarith
  constructor
  · have : d t ^ 2 = 0 := by
      rcases mul_eq_zero.mp hd with h | h
      · exact absurd (pow_eq_zero_iff (two_ne_zero) |>.mp h) hw.ne'
      · exact h
    exact pow_eq_zero_iff (two_ne_zero) |>.mp this
  · exact pow_eq_zero_iff (two_ne_zero) |>.mp hd'

theorem osc_unique' (xi w : ℝ) (hxi : 0 ≤ xi) (hw : 0 < w) (g : ℝ → ℝ) (t0 : ℝ)
    (u u' u'' y y' y'' : ℝ → ℝ)
    (hu1 : ∀ t, HasDerivAt u (u' t) t) (hu2 : ∀ t, HasDerivAt u' (u'' t) t)
    (hy1 : ∀ t, HasDerivAt y (y' t) t) (hy2 : ∀ t, HasDerivAt y' (y'' t) t)
    (hu : ∀ t, u'' t + 2 * xi * w * u' t + w ^ 2 * u t = g t)
    (hy : ∀ t, y'' t + 2 * xi * w * y' t + w ^ 2 * y t = g t)
    (h0 : u t0 = y t0) (h0' : u' t0 = y' t0) : ∀ t, t0 ≤ t → u t = y t ∧ u' t = y' t := by
  intro t ht
  have h := osc_unique_zero xi w hxi hw t0 (fun t => u t - y t) (fun t => u' t - y' t)
    (fun t => u'' t - y'' t) (fun t => (hu1 t).sub (hy1 t)) (fun t => (hu2 t).sub (hy2 t))
    (fun t => by
      have := hu t; have := hy t
      show u'' t - y'' t + 2 * xi * w * (u' t - y' t) + w ^ 2 * (u t - y t) = 0
      linarith)
    (by simp [h0]) (by simp [h0']) t ht
  have h' : u t - y t = 0 ∧ u' t - y' t = 0 := h
  exact ⟨by linarith [h'.1], by linarith [h'.2]⟩

/-! ## the whole series (C01.c) -/

/-- every panel of the recurrence is the exact panel solution started from the previous state -/
theorem nj_series_step (xi w dt : ℝ) (hw : w ≠ 0) (hdt : dt ≠ 0) (h0 : 0 ≤ xi) (h1 : xi < 1) (f : List ℝ)
    (i : Nat) (hi : i + 1 < f.length) :
    let uv := run (EqsigVerif.Gen.SdofAB.computeABReal xi w dt) (f.map (fun x => -x))
    (njPhi xi w dt (uv[i]'(by simp [uv]; omega)).1 (uv[i]'(by simp [uv]; omega)).2 (f[i]'(by omega)) f[i + 1] dt,
      njPhi' xi w dt (uv[i]'(by simp [uv]; omega)).1 (uv[i]'(by simp [uv]; omega)).2 (f[i]'(by omega)) f[i + 1] dt)
      = uv[i + 1]'(by simp [uv]; omega) := by
  intro uv
  rw [njPhi_dt xi w dt _ _ _ _ hw hdt h0 h1]
  have := run_getElem_succ (EqsigVerif.Gen.SdofAB.computeABReal xi w dt) (f.map (fun x => -x)) i
    (by simpa using hi)
  simp only [List.getElem_map] at this
  rw [this]

end EqsigVerif.Model.Sdof
