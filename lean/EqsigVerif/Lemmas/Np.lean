import EqsigVerif.Prelude.Np
import Mathlib.Tactic.Ring
import Mathlib.Tactic.FieldSimp
import Mathlib.Tactic.Linarith
import Mathlib.Tactic.Positivity
import Mathlib.Algebra.Order.Field.Basic
import Mathlib.Algebra.Order.Ring.Rat
/-!
# Lemmas about the NumPy prelude, for an arbitrary linearly ordered field
(used at `ℚ`, where the driver executes the same definitions, and at `ℝ`).
-/
set_option linter.unusedSectionVars false
namespace EqsigVerif.Np

section Ring
variable {α : Type} [CommRing α]

@[simp] theorem length_cumsumFrom (acc : α) (l : List α) : (cumsumFrom acc l).length = l.length := by
  induction l generalizing acc with
  | nil => rfl
  | cons x xs ih => simp [cumsumFrom, ih]

@[simp] theorem length_cumsum (l : List α) : (cumsum l).length = l.length := length_cumsumFrom 0 l

theorem cumsumFrom_getElem (acc : α) (l : List α) (i : Nat) (h : i < l.length) :
    (cumsumFrom acc l)[i]'(by simpa using h) =
      (if hi : i = 0 then acc else (cumsumFrom acc l)[i-1]'(by simp; omega)) + l[i] := by
  induction l generalizing acc i with
  | nil => simp at h
  | cons y ys ih =>
    cases i with
    | zero => simp [cumsumFrom]
    | succ j =>
      have hj : j < ys.length := by simpa using h
      simp only [cumsumFrom, List.getElem_cons_succ]
      rw [ih _ j hj]
      cases j with
      | zero => simp
      | succ k => simp

/-- `cumsum` is additive -/
theorem cumsumFrom_add (acc acc' : α) (a b : List α) (h : a.length = b.length) :
    cumsumFrom (acc + acc') (List.zipWith (· + ·) a b) =
      List.zipWith (· + ·) (cumsumFrom acc a) (cumsumFrom acc' b) := by
  induction a generalizing b acc acc' with
  | nil => cases b <;> simp [cumsumFrom]
  | cons x xs ih =>
    cases b with
    | nil => simp at h
    | cons y ys =>
      have h' : xs.length = ys.length := by simpa using h
      simp only [List.zipWith_cons_cons, cumsumFrom]
      rw [show acc + acc' + (x + y) = (acc + x) + (acc' + y) by ring, ih _ _ _ h']

theorem cumsumFrom_smul (c acc : α) (a : List α) :
    cumsumFrom (c * acc) (a.map (c * ·)) = (cumsumFrom acc a).map (c * ·) := by
  induction a generalizing acc with
  | nil => rfl
  | cons x xs ih =>
    simp only [List.map_cons, cumsumFrom]
    rw [show c * acc + c * x = c * (acc + x) by ring, ih]

end Ring

section Field
variable {α : Type} [Field α]

@[simp] theorem length_cumtrapzFrom (dx acc prev : α) (l : List α) :
    (cumtrapzFrom dx acc prev l).length = l.length := by
  induction l generalizing acc prev with
  | nil => rfl
  | cons y ys ih => simp [cumtrapzFrom, ih]

@[simp] theorem length_cumtrapz (dx : α) (l : List α) : (cumtrapz dx l).length = l.length := by
  cases l with
  | nil => rfl
  | cons y ys => simp [cumtrapz]

/-- increments: `out[i] = out[i-1] + dx*(y[i]+y[i-1])/2` (with `out[-1] = acc`, `y[-1] = prev`) -/
theorem cumtrapzFrom_getElem (dx acc prev : α) (l : List α) (i : Nat) (h : i < l.length) :
    (cumtrapzFrom dx acc prev l)[i]'(by simpa using h) =
      (if hi : i = 0 then acc else (cumtrapzFrom dx acc prev l)[i-1]'(by simp; omega))
        + dx * (l[i] + (if hi : i = 0 then prev else l[i-1]'(by omega))) / 2 := by
  induction l generalizing acc prev i with
  | nil => simp at h
  | cons y ys ih =>
    cases i with
    | zero => simp [cumtrapzFrom]
    | succ j =>
      simp only [cumtrapzFrom, List.getElem_cons_succ]
      have hj : j < ys.length := by simpa using h
      rw [ih _ _ j hj]
      cases j with
      | zero => simp
      | succ k => simp

theorem cumtrapz_getElem_zero (dx : α) (l : List α) (h : 0 < l.length) :
    (cumtrapz dx l)[0]'(by simpa using h) = 0 := by
  cases l with
  | nil => simp at h
  | cons y ys => simp [cumtrapz]

/-- `cumulative_trapezoid(y, dx, initial=0)[i+1] - …[i] = dx*(y[i+1]+y[i])/2` -/
theorem cumtrapz_succ (dx : α) (l : List α) (i : Nat) (h : i + 1 < l.length) :
    (cumtrapz dx l)[i+1]'(by simpa using h) =
      (cumtrapz dx l)[i]'(by simp; omega) + dx * (l[i+1] + l[i]'(by omega)) / 2 := by
  cases l with
  | nil => simp at h
  | cons y ys =>
    have hi : i < ys.length := by simpa using h
    simp only [cumtrapz, List.getElem_cons_succ]
    rw [cumtrapzFrom_getElem dx 0 y ys i hi]
    cases i with
    | zero => simp
    | succ k => simp

theorem cumtrapzFrom_add (dx acc acc' p p' : α) (a b : List α) (h : a.length = b.length) :
    cumtrapzFrom dx (acc + acc') (p + p') (List.zipWith (· + ·) a b) =
      List.zipWith (· + ·) (cumtrapzFrom dx acc p a) (cumtrapzFrom dx acc' p' b) := by
  induction a generalizing b acc acc' p p' with
  | nil => cases b <;> simp [cumtrapzFrom]
  | cons x xs ih =>
    cases b with
    | nil => simp at h
    | cons y ys =>
      have h' : xs.length = ys.length := by simpa using h
      simp only [List.zipWith_cons_cons, cumtrapzFrom]
      rw [show acc + acc' + dx * (x + y + (p + p')) / 2
            = (acc + dx * (x + p) / 2) + (acc' + dx * (y + p') / 2) by ring, ih _ _ _ _ _ h']

/-- `cumtrapz` is additive -/
theorem cumtrapz_add (dx : α) (a b : List α) (h : a.length = b.length) :
    cumtrapz dx (List.zipWith (· + ·) a b) = List.zipWith (· + ·) (cumtrapz dx a) (cumtrapz dx b) := by
  cases a with
  | nil => cases b <;> simp [cumtrapz]
  | cons x xs =>
    cases b with
    | nil => simp at h
    | cons y ys =>
      have h' : xs.length = ys.length := by simpa using h
      simp only [List.zipWith_cons_cons, cumtrapz]
      have := cumtrapzFrom_add dx 0 0 x y xs ys h'
      simp only [add_zero] at this
      rw [this]; simp

theorem cumtrapzFrom_smul (dx c acc p : α) (a : List α) :
    cumtrapzFrom dx (c * acc) (c * p) (a.map (c * ·)) = (cumtrapzFrom dx acc p a).map (c * ·) := by
  induction a generalizing acc p with
  | nil => rfl
  | cons x xs ih =>
    simp only [List.map_cons, cumtrapzFrom]
    rw [show c * acc + dx * (c * x + c * p) / 2 = c * (acc + dx * (x + p) / 2) by ring, ih]

/-- `cumtrapz` is homogeneous -/
theorem cumtrapz_smul (dx c : α) (a : List α) :
    cumtrapz dx (a.map (c * ·)) = (cumtrapz dx a).map (c * ·) := by
  cases a with
  | nil => rfl
  | cons x xs =>
    simp only [List.map_cons, cumtrapz]
    have := cumtrapzFrom_smul dx c 0 x xs
    simp only [mul_zero] at this
    rw [this]; simp

end Field

section Ordered
variable {α : Type} [Field α] [LinearOrder α] [IsStrictOrderedRing α]

/-- every entry of a cumulative trapezoid of non-negative terms is ≥ the accumulator -/
theorem cumtrapzFrom_ge (dx : α) (hdx : 0 ≤ dx) (acc prev : α) (l : List α) (hp : 0 ≤ prev)
    (hl : ∀ x ∈ l, 0 ≤ x) : ∀ x ∈ cumtrapzFrom dx acc prev l, acc ≤ x := by
  induction l generalizing acc prev with
  | nil => simp [cumtrapzFrom]
  | cons y ys ih =>
    intro x hx
    simp only [cumtrapzFrom, List.mem_cons] at hx
    have hy : 0 ≤ y := hl y (by simp)
    have hstep : acc ≤ acc + dx * (y + prev) / 2 := by
      have : 0 ≤ dx * (y + prev) / 2 := by positivity
      linarith
    rcases hx with rfl | hx
    · exact hstep
    · exact le_trans hstep (ih _ _ hy (fun z hz => hl z (by simp [hz])) x hx)

/-- a cumulative trapezoid of non-negative terms is non-decreasing -/
theorem cumtrapzFrom_pairwise (dx : α) (hdx : 0 ≤ dx) (acc prev : α) (l : List α) (hp : 0 ≤ prev)
    (hl : ∀ x ∈ l, 0 ≤ x) : (cumtrapzFrom dx acc prev l).Pairwise (· ≤ ·) := by
  induction l generalizing acc prev with
  | nil => simp [cumtrapzFrom]
  | cons y ys ih =>
    have hy : 0 ≤ y := hl y (by simp)
    simp only [cumtrapzFrom, List.pairwise_cons]
    exact ⟨cumtrapzFrom_ge dx hdx _ _ _ hy (fun z hz => hl z (by simp [hz])),
           ih _ _ hy (fun z hz => hl z (by simp [hz]))⟩

theorem cumtrapz_pairwise (dx : α) (hdx : 0 ≤ dx) (l : List α) (hl : ∀ x ∈ l, 0 ≤ x) :
    (cumtrapz dx l).Pairwise (· ≤ ·) := by
  cases l with
  | nil => simp [cumtrapz]
  | cons y ys =>
    have hy : 0 ≤ y := hl y (by simp)
    simp only [cumtrapz, List.pairwise_cons]
    exact ⟨cumtrapzFrom_ge dx hdx 0 y ys hy (fun z hz => hl z (by simp [hz])),
           cumtrapzFrom_pairwise dx hdx 0 y ys hy (fun z hz => hl z (by simp [hz]))⟩

theorem cumsumFrom_ge (acc : α) (l : List α) (hl : ∀ x ∈ l, 0 ≤ x) :
    ∀ x ∈ cumsumFrom acc l, acc ≤ x := by
  induction l generalizing acc with
  | nil => simp [cumsumFrom]
  | cons y ys ih =>
    intro x hx
    simp only [cumsumFrom, List.mem_cons] at hx
    have hy : 0 ≤ y := hl y (by simp)
    rcases hx with rfl | hx
    · linarith
    · have := ih (acc + y) (fun z hz => hl z (by simp [hz])) x hx
      linarith

/-- `cumsum` of non-negative terms is non-decreasing -/
theorem cumsumFrom_pairwise (acc : α) (l : List α) (hl : ∀ x ∈ l, 0 ≤ x) :
    (cumsumFrom acc l).Pairwise (· ≤ ·) := by
  induction l generalizing acc with
  | nil => simp [cumsumFrom]
  | cons y ys ih =>
    simp only [cumsumFrom, List.pairwise_cons]
    exact ⟨cumsumFrom_ge _ _ (fun z hz => hl z (by simp [hz])), ih _ (fun z hz => hl z (by simp [hz]))⟩

theorem absv_eq_abs (x : α) : absv x = |x| := by
  unfold absv
  split
  · rw [abs_of_neg ‹_›]
  · rw [abs_of_nonneg (le_of_not_gt ‹_›)]

theorem absv_nonneg (x : α) : 0 ≤ absv x := by rw [absv_eq_abs]; exact abs_nonneg x

theorem max2_eq_max (a b : α) : max2 a b = max a b := by
  unfold max2; split
  · rw [max_eq_right (le_of_lt ‹_›)]
  · rw [max_eq_left (le_of_not_gt ‹_›)]

theorem min2_eq_min (a b : α) : min2 a b = min a b := by
  unfold min2; split
  · rw [min_eq_right (le_of_lt ‹_›)]
  · rw [min_eq_left (le_of_not_gt ‹_›)]

theorem maxFrom_eq_foldl (m : α) (l : List α) : maxFrom m l = l.foldl max m := by
  induction l generalizing m with
  | nil => rfl
  | cons x xs ih => simp [maxFrom, max2_eq_max, ih]

theorem minFrom_eq_foldl (m : α) (l : List α) : minFrom m l = l.foldl min m := by
  induction l generalizing m with
  | nil => rfl
  | cons x xs ih => simp [minFrom, min2_eq_min, ih]

theorem le_maxFrom (m : α) (l : List α) : m ≤ maxFrom m l ∧ ∀ x ∈ l, x ≤ maxFrom m l := by
  induction l generalizing m with
  | nil => simp [maxFrom]
  | cons x xs ih =>
    obtain ⟨h1, h2⟩ := ih (max2 m x)
    rw [max2_eq_max] at h1 h2
    simp only [maxFrom, max2_eq_max, List.mem_cons, forall_eq_or_imp]
    exact ⟨le_trans (le_max_left _ _) h1, le_trans (le_max_right _ _) h1, h2⟩

theorem maxFrom_mem (m : α) (l : List α) : maxFrom m l = m ∨ maxFrom m l ∈ l := by
  induction l generalizing m with
  | nil => simp [maxFrom]
  | cons x xs ih =>
    simp only [maxFrom, List.mem_cons]
    rcases ih (max2 m x) with h | h
    · rw [h, max2_eq_max]
      rcases max_choice m x with h' | h' <;> simp [h']
    · exact Or.inr (Or.inr h)

theorem minFrom_le (m : α) (l : List α) : minFrom m l ≤ m ∧ ∀ x ∈ l, minFrom m l ≤ x := by
  induction l generalizing m with
  | nil => simp [minFrom]
  | cons x xs ih =>
    obtain ⟨h1, h2⟩ := ih (min2 m x)
    rw [min2_eq_min] at h1 h2
    simp only [minFrom, min2_eq_min, List.mem_cons, forall_eq_or_imp]
    exact ⟨le_trans h1 (min_le_left _ _), le_trans h1 (min_le_right _ _), h2⟩

theorem minFrom_mem (m : α) (l : List α) : minFrom m l = m ∨ minFrom m l ∈ l := by
  induction l generalizing m with
  | nil => simp [minFrom]
  | cons x xs ih =>
    simp only [minFrom, List.mem_cons]
    rcases ih (min2 m x) with h | h
    · rw [h, min2_eq_min]
      rcases min_choice m x with h' | h' <;> simp [h']
    · exact Or.inr (Or.inr h)

end Ordered

end EqsigVerif.Np
