import EqsigVerif.Lemmas.CavDpFloatTables
/-!
# The per-rate tables of `Lemmas/CavDpFloatTables.lean` as statements over `stdRates`
-/
namespace EqsigVerif.Model.CavDpFloat

theorem lenTable : ∀ pps ∈ stdRates, (List.range lenWindows).all (windowLenExact pps) = true := by
  intro pps h
  simp only [stdRates, List.mem_cons, List.not_mem_nil, or_false] at h
  rcases h with rfl | rfl | rfl | rfl | rfl | rfl | rfl | rfl | rfl | rfl | rfl | rfl | rfl | rfl | rfl | rfl | rfl | rfl | rfl | rfl | rfl | rfl
  · exact lenOK_1
  · exact lenOK_2
  · exact lenOK_4
  · exact lenOK_5
  · exact lenOK_8
  · exact lenOK_10
  · exact lenOK_16
  · exact lenOK_20
  · exact lenOK_25
  · exact lenOK_40
  · exact lenOK_50
  · exact lenOK_64
  · exact lenOK_80
  · exact lenOK_100
  · exact lenOK_128
  · exact lenOK_200
  · exact lenOK_250
  · exact lenOK_256
  · exact lenOK_400
  · exact lenOK_500
  · exact lenOK_512
  · exact lenOK_1000

theorem winTable : ∀ pps ∈ stdRates, (List.range (fullWindows pps)).all (windowExact pps) = true := by
  intro pps h
  simp only [stdRates, List.mem_cons, List.not_mem_nil, or_false] at h
  rcases h with rfl | rfl | rfl | rfl | rfl | rfl | rfl | rfl | rfl | rfl | rfl | rfl | rfl | rfl | rfl | rfl | rfl | rfl | rfl | rfl | rfl | rfl
  · exact winOK_1
  · exact winOK_2
  · exact winOK_4
  · exact winOK_5
  · exact winOK_8
  · exact winOK_10
  · exact winOK_16
  · exact winOK_20
  · exact winOK_25
  · exact winOK_40
  · exact winOK_50
  · exact winOK_64
  · exact winOK_80
  · exact winOK_100
  · exact winOK_128
  · exact winOK_200
  · exact winOK_250
  · exact winOK_256
  · exact winOK_400
  · exact winOK_500
  · exact winOK_512
  · exact winOK_1000

end EqsigVerif.Model.CavDpFloat
