import EqsigVerif.Model.FreqMoments
import EqsigVerif.Lemmas.Cplx
import Mathlib.Algebra.Order.Field.Basic
import Mathlib.Algebra.Order.Ring.Abs
import Mathlib.Algebra.BigOperators.Group.List.Basic
import Mathlib.Tactic.Ring
import Mathlib.Tactic.Linarith
import Mathlib.Tactic.FieldSimp
import Mathlib.Tactic.Positivity
/-!
# Lemmas about `Model/FreqMoments.lean` — the trapezoid quadrature of the Fourier moments

* `panelRec` — the recursive form of the panel sum `Σ_i (x_{i+1} − x_i)(y_{i+1} + y_i)/2` that `np.trapz(y, x=x)` computes;
* `wts`, `wsum` — the same sum for a REAL spectrum as a sum over weighted nodes `Σ_t c_t·φ(x_t)` with `c_t ≥ 0` on an ascending
  grid (two nodes per panel), the form in which Cauchy–Schwarz is proved;
* `cauchy_schwarz` — `(Σ c·u·v)² ≤ (Σ c·u²)(Σ c·v²)` for non-negative weights, by induction on the list (no square roots).
-/
set_option linter.unusedSectionVars false
set_option linter.unusedVariables false
namespace EqsigVerif.Model.FreqMoments
open EqsigVerif EqsigVerif.Cplx EqsigVerif.Wire

/-! ## prelude combinators -/

theorem powN_eq_pow {α : Type} [Monoid α] (x : α) (n : ℕ) : NpF.powN x n = x ^ n := by
  induction n with
  | zero => simp [NpF.powN]
  | succ n ih => rw [NpF.powN, ih, pow_succ]

theorem zipBE_eq_length {γ δ ε : Type} (f : γ → δ → ε) (a : List γ) (b : List δ) (h : a.length = b.length) :
    NpF.zipBE f a b = .ok (List.zipWith f a b) := by
  simp [NpF.zipBE, h]

theorem zipBE_error {γ δ ε : Type} (f : γ → δ → ε) (a : List γ) (b : List δ) (h : a.length ≠ b.length)
    (ha : a.length ≠ 1) (hb : b.length ≠ 1) : NpF.zipBE f a b = .error .ValueError := by
  unfold NpF.zipBE
  rw [if_neg h]
  split
  · simp at ha
  · simp at hb
  · rfl

/-! ## the panel sum, recursively -/
section Panel
variable {α γ : Type}

/-- `Σ_i (emb x_{i+1} − emb x_i)·(g x_{i+1} a_{i+1} + g x_i a_i)/two` over consecutive pairs -/
def panelRec [Add γ] [Sub γ] [Mul γ] [Div γ] [OfNat γ 0] (emb : α → γ) (two : γ) (g : α → γ → γ) : List α → List γ → γ
  | f0 :: f1 :: fs, a0 :: a1 :: as =>
      (emb f1 - emb f0) * (g f1 a1 + g f0 a0) / two + panelRec emb two g (f1 :: fs) (a1 :: as)
  | _, _ => 0

theorem sumL_panels [Add γ] [Sub γ] [Mul γ] [Div γ] [OfNat γ 0] (emb : α → γ) (two : γ) (g : α → γ → γ) (f : List α) (A : List γ) :
    sumL (NpF.panels two (List.zipWith g f A) (f.map emb)) = panelRec emb two g f A := by
  induction f generalizing A with
  | nil => simp [NpF.panels, panelRec, sumL]
  | cons f0 fs ih =>
    cases fs with
    | nil => cases A <;> simp [NpF.panels, panelRec, sumL]
    | cons f1 fs =>
      cases A with
      | nil => simp [NpF.panels, panelRec, sumL]
      | cons a0 as =>
        cases as with
        | nil => simp [NpF.panels, panelRec, sumL]
        | cons a1 as =>
          have := ih (a1 :: as)
          simp only [NpF.panels, List.zipWith_cons_cons, List.map_cons, List.drop_succ_cons, List.drop_zero, sumL, panelRec] at this ⊢
          rw [this]

end Panel

/-! ## outcome of `fourierMoment` -/
section Outcome
variable {α γ : Type} [Mul α] [OfNat α 1] [OfNat α 2] [Add γ] [Sub γ] [Mul γ] [Div γ] [OfNat γ 0]

theorem zipWith_integrand (emb : α → γ) (pi : α) (n : ℕ) (f : List α) (A : List γ) :
    List.zipWith (fun r z => emb r * z) (f.map (fun x => NpF.powN ((2 : α) * pi * x) n)) (A.map (fun z => z * z)) =
      List.zipWith (integrand emb pi n) f A := by
  induction f generalizing A with
  | nil => simp
  | cons x xs ih => cases A with
    | nil => simp
    | cons a as => simp [integrand, ih]

theorem fourierMoment_ok (emb : α → γ) (pi : α) (f : List α) (A : List γ) (n : ℕ) (h : f.length = A.length) :
    fourierMoment emb true pi f A n = .ok (momentCore emb pi f A n) := by
  have h1 : (f.map (fun x => NpF.powN ((2 : α) * pi * x) n)).length = (A.map (fun z => z * z)).length := by simp [h]
  have h2 : (List.zipWith (fun b a => b - a) ((f.map emb).drop 1) (f.map emb)).length =
      (List.zipWith (fun b a => b + a) ((List.zipWith (integrand emb pi n) f A).drop 1) (List.zipWith (integrand emb pi n) f A)).length := by
    simp [h]
  simp only [fourierMoment, NpF.attrE, if_true, zipBE_eq_length _ _ _ h1, zipWith_integrand, NpF.trapzE, zipBE_eq_length _ _ _ h2,
    momentCore, NpF.panels]

theorem fourierMoment_no_trapz (emb : α → γ) (pi : α) (f : List α) (A : List γ) (n : ℕ) :
    fourierMoment emb false pi f A n = .error .AttributeError := rfl

theorem fourierMoment_value_error (emb : α → γ) (pi : α) (f : List α) (A : List γ) (n : ℕ) (h : f.length ≠ A.length)
    (hf : f.length ≠ 1) (hA : A.length ≠ 1) : fourierMoment emb true pi f A n = .error .ValueError := by
  have := zipBE_error (fun (r : α) (z : γ) => emb r * z) (f.map (fun x => NpF.powN ((2 : α) * pi * x) n)) (A.map (fun z => z * z))
    (by simpa using h) (by simpa using hf) (by simpa using hA)
  simp only [fourierMoment, NpF.attrE, if_true, this]

end Outcome

/-! ## algebra of the moment (any field of spectrum values) -/
section Algebra
variable {α γ : Type} [Field α] [Field γ]

theorem momentCore_eq_panelRec (emb : α → γ) (pi : α) (f : List α) (A : List γ) (n : ℕ) :
    momentCore emb pi f A n = emb 2 * panelRec emb (emb 2) (integrand emb pi n) f A := by
  rw [momentCore, sumL_panels]

theorem panelRec_congr_mul (emb : α → γ) (two k : γ) (g g' : α → γ → γ) (s : γ → γ) (hg : ∀ x a, g' x (s a) = k * g x a)
    (f : List α) (A : List γ) : panelRec emb two g' f (A.map s) = k * panelRec emb two g f A := by
  induction f generalizing A with
  | nil => simp [panelRec]
  | cons f0 fs ih =>
    cases fs with
    | nil => cases A <;> simp [panelRec]
    | cons f1 fs =>
      cases A with
      | nil => simp [panelRec]
      | cons a0 as =>
        cases as with
        | nil => simp [panelRec]
        | cons a1 as =>
          have := ih (a1 :: as)
          simp only [List.map_cons, panelRec] at this ⊢
          rw [this, hg, hg]
          ring

/-- amplitude scaling: `m_n(s·A) = s²·m_n(A)` (for a complex `s` the complex square, not `|s|²`) -/
theorem momentCore_smul (emb : α → γ) (pi : α) (f : List α) (A : List γ) (n : ℕ) (s : γ) :
    momentCore emb pi f (A.map (fun a => s * a)) n = s * s * momentCore emb pi f A n := by
  rw [momentCore_eq_panelRec, momentCore_eq_panelRec,
    panelRec_congr_mul emb (emb 2) (s * s) (integrand emb pi n) (integrand emb pi n) (fun a => s * a)
      (fun x a => by simp only [integrand]; ring)]
  ring

theorem panelRec_map_freq (emb : α →+* γ) (two : γ) (c : α) (k : γ) (g g' : α → γ → γ) (hg : ∀ x a, g' (c * x) a = k * g x a)
    (f : List α) (A : List γ) : panelRec emb two g' (f.map (fun x => c * x)) A = emb c * k * panelRec emb two g f A := by
  induction f generalizing A with
  | nil => simp [panelRec]
  | cons f0 fs ih =>
    cases fs with
    | nil => cases A <;> simp [panelRec]
    | cons f1 fs =>
      cases A with
      | nil => simp [panelRec]
      | cons a0 as =>
        cases as with
        | nil => simp [panelRec]
        | cons a1 as =>
          have := ih (a1 :: as)
          simp only [List.map_cons, panelRec] at this ⊢
          rw [this, hg, hg, map_mul, map_mul]
          ring

/-- frequency scaling: `m_n` on the grid `c·f` is `c^(n+1)·m_n` on `f` (`c^n` from the integrand, `c` from the panel widths) -/
theorem momentCore_freq_scale (emb : α →+* γ) (pi : α) (f : List α) (A : List γ) (n : ℕ) (c : α) :
    momentCore emb pi (f.map (fun x => c * x)) A n = emb c ^ (n + 1) * momentCore emb pi f A n := by
  rw [momentCore_eq_panelRec, momentCore_eq_panelRec,
    panelRec_map_freq emb (emb 2) c (emb c ^ n) (integrand emb pi n) (integrand emb pi n)
      (fun x a => by simp only [integrand, powN_eq_pow, map_pow, map_mul]; ring)]
  ring

end Algebra

/-! ## real spectra: weighted-node form, non-negativity, Cauchy–Schwarz -/
section Real
variable {α : Type} [Field α] [LinearOrder α] [IsStrictOrderedRing α]

/-- the weighted nodes `(c, x)` of the doubled trapezoid sum of a real spectrum: per panel `((f₁−f₀)·A₁², f₁)` and `((f₁−f₀)·A₀², f₀)` -/
def wts : List α → List α → List (α × α)
  | f0 :: f1 :: fs, a0 :: a1 :: as => ((f1 - f0) * (a1 * a1), f1) :: ((f1 - f0) * (a0 * a0), f0) :: wts (f1 :: fs) (a1 :: as)
  | _, _ => []

/-- `Σ_t c_t·φ(x_t)` -/
def wsum (l : List (α × α)) (φ : α → α) : α := (l.map (fun p => p.1 * φ p.2)).sum

@[simp] theorem wsum_nil (φ : α → α) : wsum ([] : List (α × α)) φ = 0 := rfl
@[simp] theorem wsum_cons (p : α × α) (l : List (α × α)) (φ : α → α) : wsum (p :: l) φ = p.1 * φ p.2 + wsum l φ := by
  simp [wsum]

theorem momentCore_eq_wsum (pi : α) (f A : List α) (n : ℕ) :
    momentCore (fun x => x) pi f A n = wsum (wts f A) (fun x => (2 * pi * x) ^ n) := by
  rw [momentCore_eq_panelRec]
  induction f generalizing A with
  | nil => simp [panelRec, wts]
  | cons f0 fs ih =>
    cases fs with
    | nil => cases A <;> simp [panelRec, wts]
    | cons f1 fs =>
      cases A with
      | nil => simp [panelRec, wts]
      | cons a0 as =>
        cases as with
        | nil => simp [panelRec, wts]
        | cons a1 as =>
          have := ih (a1 :: as)
          simp only [panelRec, wts, wsum_cons, integrand, powN_eq_pow] at this ⊢
          rw [← this]
          field_simp
          ring

theorem wts_nonneg (f A : List α) (hf : f.Pairwise (· ≤ ·)) : ∀ p ∈ wts f A, 0 ≤ p.1 := by
  induction f generalizing A with
  | nil => simp [wts]
  | cons f0 fs ih =>
    cases fs with
    | nil => cases A <;> simp [wts]
    | cons f1 fs =>
      cases A with
      | nil => simp [wts]
      | cons a0 as =>
        cases as with
        | nil => simp [wts]
        | cons a1 as =>
          have h01 : f0 ≤ f1 := (List.pairwise_cons.mp hf).1 f1 (by simp)
          have := ih (a1 :: as) (List.pairwise_cons.mp hf).2
          intro p hp
          simp only [wts, List.mem_cons] at hp
          rcases hp with rfl | rfl | hp
          · exact mul_nonneg (sub_nonneg.mpr h01) (mul_self_nonneg a1)
          · exact mul_nonneg (sub_nonneg.mpr h01) (mul_self_nonneg a0)
          · exact this p hp

theorem wts_nodes (f A : List α) : ∀ p ∈ wts f A, p.2 ∈ f := by
  induction f generalizing A with
  | nil => simp [wts]
  | cons f0 fs ih =>
    cases fs with
    | nil => cases A <;> simp [wts]
    | cons f1 fs =>
      cases A with
      | nil => simp [wts]
      | cons a0 as =>
        cases as with
        | nil => simp [wts]
        | cons a1 as =>
          have := ih (a1 :: as)
          intro p hp
          simp only [wts, List.mem_cons] at hp
          rcases hp with rfl | rfl | hp
          · simp
          · simp
          · exact List.mem_cons_of_mem _ (this p hp)

theorem wsum_nonneg (l : List (α × α)) (φ : α → α) (hc : ∀ p ∈ l, 0 ≤ p.1) (hφ : ∀ p ∈ l, 0 ≤ φ p.2) : 0 ≤ wsum l φ := by
  induction l with
  | nil => simp
  | cons p l ih =>
    rw [wsum_cons]
    have h1 := mul_nonneg (hc p (by simp)) (hφ p (by simp))
    have h2 := ih (fun q hq => hc q (List.mem_cons_of_mem _ hq)) (fun q hq => hφ q (List.mem_cons_of_mem _ hq))
    linarith

/-- the quadratic form `Σ c·(t·u − s·v)²` is non-negative -/
theorem wsum_quadratic_nonneg (l : List (α × α)) (u v : α → α) (hc : ∀ p ∈ l, 0 ≤ p.1) (s t : α) :
    0 ≤ t ^ 2 * wsum l (fun x => u x * u x) - 2 * s * t * wsum l (fun x => u x * v x) + s ^ 2 * wsum l (fun x => v x * v x) := by
  induction l with
  | nil => simp
  | cons p l ih =>
    simp only [wsum_cons]
    have h1 := ih (fun q hq => hc q (List.mem_cons_of_mem _ hq))
    have h2 := mul_nonneg (hc p (by simp)) (sq_nonneg (t * u p.2 - s * v p.2))
    nlinarith [h1, h2]

/-- **Cauchy–Schwarz for a quadrature with non-negative weights**: `(Σ c·u·v)² ≤ (Σ c·u²)·(Σ c·v²)` -/
theorem cauchy_schwarz (l : List (α × α)) (u v : α → α) (hc : ∀ p ∈ l, 0 ≤ p.1) :
    wsum l (fun x => u x * v x) ^ 2 ≤ wsum l (fun x => u x * u x) * wsum l (fun x => v x * v x) := by
  induction l with
  | nil => simp
  | cons p l ih =>
    simp only [wsum_cons]
    have hc' : ∀ q ∈ l, 0 ≤ q.1 := fun q hq => hc q (List.mem_cons_of_mem _ hq)
    have h1 := ih hc'
    have h2 := wsum_quadratic_nonneg l u v hc' (u p.2) (v p.2)
    have h3 := mul_nonneg (hc p (by simp)) h2
    nlinarith [h1, h3]

end Real

end EqsigVerif.Model.FreqMoments
