import EqsigVerif.Lemmas.SdofODE
import EqsigVerif.Lemmas.Spectra
import Mathlib.Analysis.Calculus.Deriv.Shift
/-!
# Refinement invariance of the Nigam & Jennings recurrence (C02.e)

`refine r a` inserts `r − 1` linearly interpolated samples into every panel of the record `a`
(the exact-arithmetic meaning of `np.interp(arange(r(n−1)+1)·dt/r, arange(n)·dt, a)`).
One coarse panel equals `r` fine panels (`iterState_refinePanel`): the coarse panel's closed form `njPhi`
is a *global* solution for the linearly extended load, each fine step is the closed form for the same
load restarted at `τ = k·dt/r`, and the two agree by uniqueness (`osc_unique'`), by induction over the
sub-steps.  The gluing over the record is list bookkeeping (`run_refine`).
-/
set_option linter.unusedSectionVars false
set_option linter.unusedVariables false
namespace EqsigVerif.Model.Sdof
open Real

/-! ## definition of the refinement -/
section RefineDef
variable {α : Type} [Add α] [Sub α] [Mul α] [Div α] [NatCast α]

/-- the `r` samples after `a` up to and including `b`: `a + (b − a)(k+1)/r`, `k = 0 … r−1` -/
def refinePanel (r : Nat) (a b : α) : List α :=
  (List.range r).map (fun k => a + (b - a) * ((k + 1 : Nat) : α) / (r : α))

def refineFrom (r : Nat) (a : α) : List α → List α
  | [] => []
  | b :: rest => refinePanel r a b ++ refineFrom r b rest

/-- the record sampled at `dt / r` (linear interpolation); length `r (n − 1) + 1` -/
def refine (r : Nat) : List α → List α
  | [] => []
  | a :: rest => a :: refineFrom r a rest

end RefineDef

/-! ## structural lemmas (any propagator, any commutative ring) -/
section Ring
variable {α : Type} [CommRing α]

/-- the state after consuming a list of samples -/
def iterState (m : AB α) (x : α × α) (a : α) : List α → α × α
  | [] => x
  | b :: rest => iterState m (step m x a b) b rest

theorem runFrom_append (m : AB α) (x : α × α) (a : α) (l l' : List α) :
    runFrom m x a (l ++ l') = runFrom m x a l ++ runFrom m (iterState m x a l) (l.getLastD a) l' := by
  induction l generalizing x a with
  | nil => simp [runFrom, iterState]
  | cons b rest ih =>
    simp only [List.cons_append, runFrom, iterState, List.getLastD_cons, ih]

theorem runFrom_getLast? (m : AB α) (x : α × α) (a : α) (l : List α) (hl : l ≠ []) :
    (runFrom m x a l).getLast? = some (iterState m x a l) := by
  induction l generalizing x a with
  | nil => exact absurd rfl hl
  | cons b rest ih =>
    cases rest with
    | nil => simp [runFrom, iterState]
    | cons c rest' =>
      have := ih (step m x a b) b (by simp)
      simp only [runFrom, iterState, List.getLast?_cons_cons] at this ⊢
      exact this

end Ring

/-! ## one coarse panel = `r` fine panels -/

/-- one fine step from any point `t` of the coarse panel solution stays on the coarse panel solution -/
theorem fine_step (xi w dt h u0 v0 f0 f1 t : ℝ) (hw : 0 < w) (hdt : dt ≠ 0) (hh : 0 < h)
    (h0 : 0 ≤ xi) (h1 : xi < 1) :
    step (EqsigVerif.Gen.SdofAB.computeABReal xi w h)
        (njPhi xi w dt u0 v0 f0 f1 t, njPhi' xi w dt u0 v0 f0 f1 t)
        (-(f0 + (f1 - f0) * t / dt)) (-(f0 + (f1 - f0) * (t + h) / dt))
      = (njPhi xi w dt u0 v0 f0 f1 (t + h), njPhi' xi w dt u0 v0 f0 f1 (t + h)) := by
  set φ := njPhi xi w dt u0 v0 f0 f1 with hφ
  set φ' := njPhi' xi w dt u0 v0 f0 f1 with hφ'
  set L0 := f0 + (f1 - f0) * t / dt with hL0
  set L1 := f0 + (f1 - f0) * (t + h) / dt with hL1
  rw [← njPhi_dt xi w h (φ t) (φ' t) L0 L1 hw.ne' hh.ne' h0 h1]
  set ψ := njPhi xi w h (φ t) (φ' t) L0 L1 with hψ
  set ψ' := njPhi' xi w h (φ t) (φ' t) L0 L1 with hψ'
  have key := osc_unique' xi w h0 hw (fun σ => f0 + (f1 - f0) * (t + σ) / dt) 0
    ψ ψ' (fun σ => L0 + (L1 - L0) * σ / h - 2 * xi * w * ψ' σ - w ^ 2 * ψ σ)
    (fun σ => φ (t + σ)) (fun σ => φ' (t + σ))
    (fun σ => f0 + (f1 - f0) * (t + σ) / dt - 2 * xi * w * φ' (t + σ) - w ^ 2 * φ (t + σ))
    (fun σ => njPhi_hasDerivAt xi w h (φ t) (φ' t) L0 L1 σ)
    (fun σ => njPhi'_hasDerivAt xi w h (φ t) (φ' t) L0 L1 σ hw.ne' hh.ne' h0 h1)
    (fun σ => (njPhi_hasDerivAt xi w dt u0 v0 f0 f1 (t + σ)).comp_const_add t σ)
    (fun σ => (njPhi'_hasDerivAt xi w dt u0 v0 f0 f1 (t + σ) hw.ne' hdt h0 h1).comp_const_add t σ)
    (fun σ => by
      simp only [hL0, hL1]
      field_simp
      ring)
    (fun σ => by ring)
    (by simp only [hψ, njPhi_zero, add_zero])
    (by simp only [hψ', njPhi'_zero _ _ _ _ _ _ _ hw.ne' h0 h1, add_zero])
    h hh.le
  exact Prod.ext key.1 key.2

/-- `n` fine steps from `t` along the coarse panel solution -/
theorem fine_iter (xi w dt h u0 v0 f0 f1 : ℝ) (hw : 0 < w) (hdt : dt ≠ 0) (hh : 0 < h)
    (h0 : 0 ≤ xi) (h1 : xi < 1) (n : Nat) : ∀ t : ℝ,
    iterState (EqsigVerif.Gen.SdofAB.computeABReal xi w h)
        (njPhi xi w dt u0 v0 f0 f1 t, njPhi' xi w dt u0 v0 f0 f1 t)
        (-(f0 + (f1 - f0) * t / dt))
        ((List.range n).map (fun j => -(f0 + (f1 - f0) * (t + ((j + 1 : Nat) : ℝ) * h) / dt)))
      = (njPhi xi w dt u0 v0 f0 f1 (t + (n : ℝ) * h), njPhi' xi w dt u0 v0 f0 f1 (t + (n : ℝ) * h)) := by
  induction n with
  | zero => intro t; simp [iterState]
  | succ n ih =>
    intro t
    rw [List.range_succ_eq_map, List.map_cons, List.map_map, iterState]
    have hs := fine_step xi w dt h u0 v0 f0 f1 t hw hdt hh h0 h1
    have e1 : t + (((0 : Nat) + 1 : Nat) : ℝ) * h = t + h := by push_cast; ring
    rw [e1, hs]
    have := ih (t + h)
    have e2 : ((fun j : Nat => -(f0 + (f1 - f0) * (t + ((j + 1 : Nat) : ℝ) * h) / dt)) ∘ Nat.succ)
        = (fun j : Nat => -(f0 + (f1 - f0) * (t + h + ((j + 1 : Nat) : ℝ) * h) / dt)) := by
      funext j
      simp only [Function.comp, Nat.succ_eq_add_one]
      push_cast
      ring
    rw [e2, this]
    have e3 : t + h + (n : ℝ) * h = t + ((n + 1 : Nat) : ℝ) * h := by push_cast; ring
    rw [e3]

/-- **one coarse panel = `r` fine panels**: consuming the `r` interpolated samples of a panel with the
propagator for `dt / r` gives the same state as one step of the propagator for `dt`. -/
theorem iterState_refinePanel (xi w dt : ℝ) (hw : 0 < w) (hdt : 0 < dt) (h0 : 0 ≤ xi) (h1 : xi < 1)
    (r : Nat) (hr : 1 ≤ r) (x : ℝ × ℝ) (a b : ℝ) :
    iterState (EqsigVerif.Gen.SdofAB.computeABReal xi w (dt / r)) x a (refinePanel r a b)
      = step (EqsigVerif.Gen.SdofAB.computeABReal xi w dt) x a b := by
  have hrpos : (0 : ℝ) < r := by exact_mod_cast hr
  have hh : 0 < dt / r := div_pos hdt hrpos
  have hfi := fine_iter xi w dt (dt / r) x.1 x.2 (-a) (-b) hw hdt.ne' hh h0 h1 r 0
  rw [njPhi_zero, njPhi'_zero _ _ _ _ _ _ _ hw.ne' h0 h1] at hfi
  have e0 : -(-a + (-b - -a) * 0 / dt) = a := by simp
  have e1 : (fun j : Nat => -(-a + (-b - -a) * (0 + ((j + 1 : Nat) : ℝ) * (dt / r)) / dt))
      = (fun k : Nat => a + (b - a) * ((k + 1 : Nat) : ℝ) / (r : ℝ)) := by
    funext j
    field_simp
    ring
  have e2 : (0 : ℝ) + (r : ℝ) * (dt / r) = dt := by field_simp; ring
  rw [e0, e1, e2] at hfi
  have hdtc := njPhi_dt xi w dt x.1 x.2 (-a) (-b) hw.ne' hdt.ne' h0 h1
  rw [neg_neg, neg_neg] at hdtc
  unfold refinePanel
  rw [hfi, hdtc]

theorem length_refinePanel {α : Type} [Add α] [Sub α] [Mul α] [Div α] [NatCast α] (r : Nat) (a b : α) :
    (refinePanel r a b).length = r := by simp [refinePanel]

theorem refinePanel_getLastD (r : Nat) (hr : 1 ≤ r) (a b : ℝ) : (refinePanel r a b).getLastD a = b := by
  obtain ⟨n, rfl⟩ : ∃ n, r = n + 1 := ⟨r - 1, by omega⟩
  have hn : ((n + 1 : Nat) : ℝ) ≠ 0 := by positivity
  simp only [refinePanel, List.range_succ, List.map_append, List.map_cons, List.map_nil,
    List.getLastD_eq_getLast?, List.getLast?_append, List.getLast?_singleton, Option.some_or, Option.getD_some]
  field_simp
  ring

/-! ## gluing over the record -/

theorem runFrom_refine (xi w dt : ℝ) (hw : 0 < w) (hdt : 0 < dt) (h0 : 0 ≤ xi) (h1 : xi < 1)
    (r : Nat) (hr : 1 ≤ r) (l : List ℝ) : ∀ (x : ℝ × ℝ) (a : ℝ) (i : Nat), i < l.length →
    (runFrom (EqsigVerif.Gen.SdofAB.computeABReal xi w (dt / r)) x a (refineFrom r a l))[r * i + (r - 1)]?
      = (runFrom (EqsigVerif.Gen.SdofAB.computeABReal xi w dt) x a l)[i]? := by
  induction l with
  | nil => intro x a i hi; simp at hi
  | cons b rest ih =>
    intro x a i hi
    have hne : refinePanel r a b ≠ [] := by
      intro h
      have := length_refinePanel r a b
      rw [h] at this
      simp at this
      omega
    have hlen : (runFrom (EqsigVerif.Gen.SdofAB.computeABReal xi w (dt / r)) x a (refinePanel r a b)).length = r := by
      rw [length_runFrom, length_refinePanel]
    rw [refineFrom, runFrom_append, iterState_refinePanel xi w dt hw hdt h0 h1 r hr,
      refinePanel_getLastD r hr, runFrom]
    cases i with
    | zero =>
      rw [List.getElem?_append_left (by rw [hlen]; omega)]
      have hl := runFrom_getLast? (EqsigVerif.Gen.SdofAB.computeABReal xi w (dt / r)) x a _ hne
      rw [List.getLast?_eq_getElem?, hlen, iterState_refinePanel xi w dt hw hdt h0 h1 r hr] at hl
      simpa using hl
    | succ j =>
      rw [List.getElem?_append_right (by rw [hlen]; nlinarith), hlen, List.getElem?_cons_succ]
      have : r * (j + 1) + (r - 1) - r = r * j + (r - 1) := by
        rw [Nat.mul_succ]; omega
      rw [this]
      exact ih _ _ j (by simpa using hi)

/-- **C02.e core**: the state series for the refined record at step `dt / r`, sampled at multiples of
`r`, is the state series of the original record at step `dt`. -/
theorem run_refine (xi w dt : ℝ) (hw : 0 < w) (hdt : 0 < dt) (h0 : 0 ≤ xi) (h1 : xi < 1)
    (r : Nat) (hr : 1 ≤ r) (a : List ℝ) (i : Nat) (hi : i < a.length) :
    (run (EqsigVerif.Gen.SdofAB.computeABReal xi w (dt / r)) (refine r a))[r * i]?
      = (run (EqsigVerif.Gen.SdofAB.computeABReal xi w dt) a)[i]? := by
  cases a with
  | nil => simp at hi
  | cons a0 rest =>
    cases i with
    | zero => simp [refine, run]
    | succ j =>
      have h := runFrom_refine xi w dt hw hdt h0 h1 r hr rest (0, 0) a0 j (by simpa using hi)
      have e : r * (j + 1) = (r * j + (r - 1)) + 1 := by rw [Nat.mul_succ]; omega
      rw [refine, run, run, e, List.getElem?_cons_succ, List.getElem?_cons_succ]
      exact h

/-! ## the refined record itself -/

theorem refineFrom_getElem? (r : Nat) (hr : 1 ≤ r) (l : List ℝ) : ∀ (a : ℝ) (i : Nat), i < l.length →
    (refineFrom r a l)[r * i + (r - 1)]? = l[i]? := by
  induction l with
  | nil => intro a i hi; simp at hi
  | cons b rest ih =>
    intro a i hi
    have hlen := length_refinePanel r a b
    rw [refineFrom]
    cases i with
    | zero =>
      rw [List.getElem?_append_left (by rw [hlen]; omega)]
      have hl : (refinePanel r a b).getLastD a = b := refinePanel_getLastD r hr a b
      rw [List.getLastD_eq_getLast?, List.getLast?_eq_getElem?, hlen] at hl
      simp only [Nat.mul_zero, Nat.zero_add, List.getElem?_cons_zero]
      cases hq : (refinePanel r a b)[r - 1]? with
      | none =>
        have := List.getElem?_eq_none_iff.mp hq
        omega
      | some v => rw [hq] at hl; simpa using hl
    | succ j =>
      rw [List.getElem?_append_right (by rw [hlen]; nlinarith), hlen, List.getElem?_cons_succ]
      have : r * (j + 1) + (r - 1) - r = r * j + (r - 1) := by
        rw [Nat.mul_succ]; omega
      rw [this]
      exact ih _ j (by simpa using hi)

/-- the refined record interpolates: `(refine r a)[r i] = a[i]` -/
theorem refine_getElem? (r : Nat) (hr : 1 ≤ r) (a : List ℝ) (i : Nat) (hi : i < a.length) :
    (refine r a)[r * i]? = a[i]? := by
  cases a with
  | nil => simp at hi
  | cons a0 rest =>
    cases i with
    | zero => simp [refine]
    | succ j =>
      have e : r * (j + 1) = (r * j + (r - 1)) + 1 := by rw [Nat.mul_succ]; omega
      rw [refine, e, List.getElem?_cons_succ, List.getElem?_cons_succ]
      exact refineFrom_getElem? r hr rest a0 j (by simpa using hi)

theorem refinePanel_neg (r : Nat) (a b : ℝ) :
    (refinePanel r a b).map (fun x => -x) = refinePanel r (-a) (-b) := by
  simp only [refinePanel, List.map_map]
  apply List.map_congr_left
  intro k _
  simp only [Function.comp]
  ring

theorem refineFrom_neg (r : Nat) (l : List ℝ) : ∀ a : ℝ,
    (refineFrom r a l).map (fun x => -x) = refineFrom r (-a) (l.map (fun x => -x)) := by
  induction l with
  | nil => intro a; rfl
  | cons b rest ih => intro a; simp only [refineFrom, List.map_append, List.map_cons, refinePanel_neg, ih]

/-- refinement commutes with the sign flip of the record -/
theorem refine_neg (r : Nat) (a : List ℝ) :
    (refine r a).map (fun x => -x) = refine r (a.map (fun x => -x)) := by
  cases a with
  | nil => rfl
  | cons a0 rest => simp only [refine, List.map_cons, refineFrom_neg]

/-! ## rows of the response -/

/-- "`F` sampled at multiples of `r` is `C`" on the first `n` samples, for the three series of a row -/
def Sampled3 (r n : Nat) (F C : List ℝ × List ℝ × List ℝ) : Prop :=
  ∀ i, i < n → F.1[r * i]? = C.1[i]? ∧ F.2.1[r * i]? = C.2.1[i]? ∧ F.2.2[r * i]? = C.2.2[i]?

theorem rowFor_refine (xi w dt : ℝ) (hw : 0 < w) (hdt : 0 < dt) (h0 : 0 ≤ xi) (h1 : xi < 1)
    (r : Nat) (hr : 1 ≤ r) (nacc : List ℝ) :
    Sampled3 r nacc.length
      (rowFor (fun w => EqsigVerif.Gen.SdofAB.computeABReal xi w (dt / r)) xi w (refine r nacc))
      (rowFor (fun w => EqsigVerif.Gen.SdofAB.computeABReal xi w dt) xi w nacc) := by
  intro i hi
  have h := run_refine xi w dt hw hdt h0 h1 r hr nacc i hi
  simp only [rowFor, accRow, List.getElem?_map, h, and_self]

theorem rowOf_refine (c xi dt T : ℝ) (hc : 0 < c) (hT : 0 < T) (hdt : 0 < dt) (h0 : 0 ≤ xi) (h1 : xi < 1)
    (r : Nat) (hr : 1 ≤ r) (acc : List ℝ) :
    Sampled3 r acc.length
      (rowOf c (fun w => EqsigVerif.Gen.SdofAB.computeABReal xi w (dt / r)) xi (refine r acc) T)
      (rowOf c (fun w => EqsigVerif.Gen.SdofAB.computeABReal xi w dt) xi acc T) := by
  have := rowFor_refine xi (c / T) dt (div_pos hc hT) hdt h0 h1 r hr (acc.map (fun x => -x))
  simpa only [rowOf, refine_neg, List.length_map] using this

theorem zeroRow_refine (r : Nat) (hr : 1 ≤ r) (acc : List ℝ) :
    Sampled3 r acc.length (zeroRow (refine r acc)) (zeroRow acc) := by
  intro i hi
  have h := refine_getElem? r hr acc i hi
  simp only [zeroRow, List.getElem?_map, h, and_self]

/-- sampling cannot increase the peak: if every sample of `l` occurs in `L` then `absmax l ≤ absmax L` -/
theorem absmax_le_of_sampled (l L : List ℝ) (h : ∀ i : Nat, i < l.length → ∃ k : Nat, L[k]? = l[i]?)
    (m M : ℝ) (hm : EqsigVerif.Model.Spectra.absmax l = some m)
    (hM : EqsigVerif.Model.Spectra.absmax L = some M) : m ≤ M := by
  obtain ⟨_, x, hx, hxm⟩ := EqsigVerif.Model.Spectra.absmax_spec l m hm
  obtain ⟨hub, _⟩ := EqsigVerif.Model.Spectra.absmax_spec L M hM
  obtain ⟨i, hi, rfl⟩ := List.getElem_of_mem hx
  obtain ⟨k, hk⟩ := h i hi
  rw [List.getElem?_eq_getElem hi] at hk
  have hmem : l[i] ∈ L := List.mem_of_getElem? hk
  rw [← hxm]
  exact hub _ hmem

end EqsigVerif.Model.Sdof
