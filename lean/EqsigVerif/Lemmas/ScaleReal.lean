import EqsigVerif.Lemmas.Scale
import EqsigVerif.Lemmas.PowerLaw
import Mathlib.Data.Rat.Cast.Order
/-!
# Record-level power-law measures over `ℝ` for a rational record, and how they scale

The index detection (`switchedPeaks`) runs on the exact rational record `v : List ℚ`; the arithmetic runs on the
record cast to `ℝ` (`castR v`) with `x ** y = Real.rpow x y` (as in `Handlers/PowerLaw.lean`, where the record
travels twice).  These definitions compose the two, following `eqsig/im.py`:

* `pkRec v`    = `csr_peaks = np.abs(np.take(values, get_switched_peak_array_indices(values)))`;
* `csrRec v`   = `csr_peaks_s1 = zeros_like(values); np.put(csr_peaks_s1, idx, csr_peaks)`;
* `cycAmpRec v n_cyc b` = `calc_cyc_amp_array_w_power_law(values, n_cyc, b)` (scalar `b`);
* `nCycRec tiny cut m v a_ref b` = `calc_n_cyc_array_w_power_law(values, a_ref, b, cut_off)` with
  `tiny = 1e-14`, `m = max|values|`.
-/
set_option linter.unusedSectionVars false
set_option linter.unusedVariables false
namespace EqsigVerif.Lemmas.ScaleReal
open EqsigVerif EqsigVerif.Np EqsigVerif.Model.PowerLaw EqsigVerif.Model.Switched EqsigVerif.Lemmas.PowerLaw

/-- the rational record as a real record -/
def castR (v : List ℚ) : List ℝ := List.map (fun (q : ℚ) => (q : ℝ)) v

/-- `np.abs(np.take(values, switched_peak_indices))` -/
noncomputable def pkRec (v : List ℚ) : List ℝ :=
  (switchedPeaks v 0).map (fun i => absv ((castR v).getD i 0))

/-- the peak-only |value| series of the record -/
noncomputable def csrRec (v : List ℚ) : List ℝ := peakOnlyAbs (castR v) (switchedPeaks v 0)

/-- `calc_cyc_amp_array_w_power_law(values, n_cyc, b)` -/
noncomputable def cycAmpRec (v : List ℚ) (nCyc b : ℝ) : List ℝ := cycAmpR (csrRec v) nCyc b

/-- `calc_n_cyc_array_w_power_law(values, a_ref, b, cut_off)`; `tiny = 1e-14`, `m = max|values|` -/
noncomputable def nCycRec (tiny cut m : ℝ) (v : List ℚ) (aRef b : ℝ) : List ℝ :=
  nCycR v.length (switchedPeaks v 0) (cutOff tiny cut m (pkRec v)) aRef b

theorem castR_scale (α : ℚ) (v : List ℚ) : castR (v.map (α * ·)) = (castR v).map ((α : ℝ) * ·) := by
  simp only [castR, List.map_map, Function.comp_def, Rat.cast_mul]

theorem getD_smul (c : ℝ) (l : List ℝ) (i : ℕ) : (l.map (c * ·)).getD i 0 = c * l.getD i 0 := by
  have := List.getD_map (l := l) (d := (0 : ℝ)) (n := i) (fun x => c * x)
  simpa only [mul_zero] using this

theorem absv_smul (c x : ℝ) : absv (c * x) = |c| * absv x := by
  rw [absv_real, absv_real, abs_mul]

theorem putIdx_map (f : ℝ → ℝ) (base : List ℝ) (idx : List ℕ) (ws : List ℝ) :
    (putIdx base idx ws).map f = putIdx (base.map f) idx (ws.map f) := by
  induction idx generalizing base ws with
  | nil => simp [putIdx]
  | cons i is ih =>
    cases ws with
    | nil => simp [putIdx]
    | cons w ws => simp only [putIdx, List.map_cons, ih, List.map_set]

/-- the peak-only series of `c • vals` on the same index list is `|c|` times that of `vals` -/
theorem peakOnlyAbs_smul (c : ℝ) (vals : List ℝ) (idx : List ℕ) :
    peakOnlyAbs (vals.map (c * ·)) idx = (peakOnlyAbs vals idx).map (|c| * ·) := by
  unfold peakOnlyAbs
  rw [putIdx_map]
  simp only [List.map_map, Function.comp_def, getD_smul, absv_smul, mul_zero]

theorem pkRec_scale (α : ℚ) (hα : α ≠ 0) (v : List ℚ) :
    pkRec (v.map (α * ·)) = (pkRec v).map (|(α : ℝ)| * ·) := by
  unfold pkRec
  have h := Scale.switchedPeaks_scale_tol α hα v 0
  rw [mul_zero] at h
  rw [h, castR_scale, List.map_map]
  apply List.map_congr_left
  intro i _
  simp only [Function.comp, getD_smul, absv_smul]

theorem csrRec_scale (α : ℚ) (hα : α ≠ 0) (v : List ℚ) :
    csrRec (v.map (α * ·)) = (csrRec v).map (|(α : ℝ)| * ·) := by
  unfold csrRec
  have h := Scale.switchedPeaks_scale_tol α hα v 0
  rw [mul_zero] at h
  rw [h, castR_scale, peakOnlyAbs_smul]

/-- the cut-off replacement does nothing when no peak is below the cut-off -/
theorem cutOff_id (tiny cut m : ℝ) (pk : List ℝ) (h : ∀ p ∈ pk, ¬ p < cut * m) : cutOff tiny cut m pk = pk := by
  unfold cutOff
  conv_rhs => rw [← List.map_id pk]
  apply List.map_congr_left
  intro p hp
  simp [h p hp]

theorem pkRec_nonneg (v : List ℚ) : ∀ p ∈ pkRec v, 0 ≤ p := by
  intro p hp
  obtain ⟨i, _, rfl⟩ := List.mem_map.1 hp
  rw [absv_real]; exact abs_nonneg _

end EqsigVerif.Lemmas.ScaleReal
