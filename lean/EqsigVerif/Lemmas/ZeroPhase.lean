import Mathlib.Analysis.SpecialFunctions.Trigonometric.Basic
import Mathlib.Analysis.Complex.Polynomial.Basic
/-!
# Zero phase of forward–backward filtering (C17.c, stretch)

A digital filter with real coefficients has the transfer function `H(z) = B(z)/A(z)`, `A B : ℝ[X]`.  Filtering forward and
then backward multiplies the spectrum by `H(e^{iω})·H(e^{−iω})`.
-/
namespace EqsigVerif.ZeroPhase
open Complex Polynomial

/-- transfer function of the real-coefficient rational filter `B/A` -/
noncomputable def H (B A : ℝ[X]) (z : ℂ) : ℂ := aeval z B / aeval z A

theorem exp_neg_I_mul (ω : ℝ) : cexp (-(I * ω)) = (starRingEnd ℂ) (cexp (I * ω)) := by
  rw [← exp_conj]
  congr 1
  simp [map_mul, conj_I, conj_ofReal]

theorem H_conj (B A : ℝ[X]) (z : ℂ) : H B A ((starRingEnd ℂ) z) = (starRingEnd ℂ) (H B A z) := by
  unfold H
  rw [aeval_conj, aeval_conj, map_div₀]

/-- `H(e^{iω})·H(e^{−iω}) = ‖H(e^{iω})‖²`: a real, non-negative gain — no phase -/
theorem zero_phase (B A : ℝ[X]) (ω : ℝ) :
    H B A (cexp (I * ω)) * H B A (cexp (-(I * ω))) = ((‖H B A (cexp (I * ω))‖ ^ 2 : ℝ) : ℂ) := by
  rw [exp_neg_I_mul, H_conj, mul_conj']
  push_cast
  rfl

end EqsigVerif.ZeroPhase
