import EqsigVerif.Lemmas.Switched
import EqsigVerif.Spec.SwitchedTol
/-!
# `tol > 0` switched peaks as a subsequence of the `tol = 0` ones: the coarsening argument

If every set boundary of the `tol` run is a set boundary of the `tol = 0` run, every `tol` set is the concatenation of
consecutive `tol = 0` sets; the first member of largest `|value|` of a concatenation is the first member of largest
`|value|` of one of its pieces; hence the reported indices of the `tol` run are a subsequence of those of the `0` run.
-/
set_option linter.unusedSectionVars false
set_option linter.unusedVariables false
namespace EqsigVerif.Model.Switched
open EqsigVerif EqsigVerif.Spec.SwitchedTol

/-! ### first arg-max of a concatenation -/

theorem IsFirstArgmaxAbs.unique {g : List (ℕ × ℚ)} {r r' : ℕ}
    (h : IsFirstArgmaxAbs g r) (h' : IsFirstArgmaxAbs g r') : r = r' := by
  obtain ⟨k, hk, rfl, h1, h2⟩ := h
  obtain ⟨k', hk', rfl, h1', h2'⟩ := h'
  have : k = k' := by
    rcases Nat.lt_trichotomy k k' with hlt | heq | hgt
    · have a := h2' k hlt
      have b := h1 k' hk'
      exact absurd (lt_of_lt_of_le a b) (lt_irrefl _)
    · exact heq
    · have a := h2 k' hgt
      have b := h1' k hk
      exact absurd (lt_of_lt_of_le a b) (lt_irrefl _)
  subst this; rfl

theorem IsFirstArgmaxAbs.of_append {a b : List (ℕ × ℚ)} {r : ℕ} (h : IsFirstArgmaxAbs (a ++ b) r) :
    IsFirstArgmaxAbs a r ∨ IsFirstArgmaxAbs b r := by
  obtain ⟨k, hk, hr, h1, h2⟩ := h
  by_cases hka : k < a.length
  · left
    have e : (a ++ b)[k] = a[k] := List.getElem_append_left hka
    refine ⟨k, hka, by rw [hr, e], ?_, ?_⟩
    · intro j hj
      have := h1 j (by simp; omega)
      rw [List.getElem_append_left hj, e] at this
      exact this
    · intro j hj
      have := h2 j hj
      rw [List.getElem_append_left (by omega), e] at this
      exact this
  · right
    have hka' : a.length ≤ k := not_lt.mp hka
    have hkb : k - a.length < b.length := by simp at hk; omega
    have e : (a ++ b)[k] = b[k - a.length] := List.getElem_append_right hka'
    refine ⟨k - a.length, hkb, by rw [hr, e], ?_, ?_⟩
    · intro j hj
      have := h1 (a.length + j) (by simp; omega)
      rw [List.getElem_append_right (by omega), e] at this
      simpa using this
    · intro j hj
      have := h2 (a.length + j) (by omega)
      rw [List.getElem_append_right (by omega), e] at this
      simpa using this

theorem IsFirstArgmaxAbs.of_flatten {block : List (List (ℕ × ℚ))} {r : ℕ}
    (h : IsFirstArgmaxAbs block.flatten r) : ∃ g ∈ block, IsFirstArgmaxAbs g r := by
  induction block with
  | nil => obtain ⟨k, hk, _⟩ := h; simp at hk
  | cons g gs ih =>
    rw [List.flatten_cons] at h
    rcases h.of_append with h | h
    · exact ⟨g, by simp, h⟩
    · obtain ⟨g', hg', h'⟩ := ih h
      exact ⟨g', by simp [hg'], h'⟩

/-- the reported member of a concatenation of non-empty sets is the reported member of one of them -/
theorem report_flatten_mem (block : List (List (ℕ × ℚ))) (hne : block ≠ []) (hg : ∀ g ∈ block, g ≠ []) :
    report block.flatten ∈ block.map report := by
  have hfl : block.flatten ≠ [] := by
    cases block with
    | nil => exact absurd rfl hne
    | cons g gs =>
      have := hg g (by simp)
      simp [this]
  obtain ⟨g, hgm, hr⟩ := (report_spec _ hfl).of_flatten
  have : report g = report block.flatten := (report_spec g (hg g hgm)).unique hr
  exact List.mem_map.2 ⟨g, hgm, this⟩

/-! ### coarsening -/

/-- `T` is obtained from `Z` by concatenating consecutive non-empty blocks of sets -/
inductive Coarsen : List (List (ℕ × ℚ)) → List (List (ℕ × ℚ)) → Prop
  | nil : Coarsen [] []
  | cons (block T Z : List (List (ℕ × ℚ))) : block ≠ [] → Coarsen T Z → Coarsen (block.flatten :: T) (block ++ Z)

theorem Coarsen.report_sublist {T Z : List (List (ℕ × ℚ))} (h : Coarsen T Z) (hZ : ∀ g ∈ Z, g ≠ []) :
    (T.map report).Sublist (Z.map report) := by
  induction h with
  | nil => simp
  | cons block T Z hne hTZ ih =>
    have hb : ∀ g ∈ block, g ≠ [] := fun g hg => hZ g (by simp [hg])
    have hz : ∀ g ∈ Z, g ≠ [] := fun g hg => hZ g (by simp [hg])
    simp only [List.map_cons, List.map_append]
    have h1 : [report block.flatten].Sublist (block.map report) :=
      List.singleton_sublist.2 (report_flatten_mem block hne hb)
    exact h1.append (ih hz)

theorem splits_iff (tol last pv : ℚ) : splits tol last pv = true ↔ (pv + tol * sgn last) * last ≤ 0 := by
  simp [splits]

/-- the two runs side by side: the open `tol` set is `pre.flatten ++ cur0`, where `pre` are the `0`-sets closed since
the `tol` set was opened and `cur0` is the open `0`-set -/
theorem coarsen_run (tol : ℚ) (l : List (ℕ × ℚ)) (lastT last0 : ℚ) (pre : List (List (ℕ × ℚ))) (cur0 : List (ℕ × ℚ))
    (h : inclAux tol lastT last0 (l.map (·.2)) = true) :
    Coarsen (groupsAux tol lastT (pre.flatten ++ cur0) l) (pre ++ groupsAux 0 last0 cur0 l) := by
  induction l generalizing lastT last0 pre cur0 with
  | nil =>
    simp only [groupsAux]
    have := Coarsen.cons (pre ++ [cur0]) [] [] (by simp) Coarsen.nil
    simpa using this
  | cons e rest ih =>
    obtain ⟨i, pv⟩ := e
    simp only [List.map_cons, inclAux, Bool.and_eq_true, Bool.or_eq_true, Bool.not_eq_eq_eq_not,
      Bool.not_true] at h
    obtain ⟨himp, hrest⟩ := h
    by_cases hT : (pv + tol * sgn lastT) * lastT ≤ 0
    · have hsT : splits tol lastT pv = true := (splits_iff _ _ _).2 hT
      have hs0 : splits 0 last0 pv = true := by
        rcases himp with h | h
        · rw [hsT] at h; cases h
        · exact h
      have h0 : (pv + 0 * sgn last0) * last0 ≤ 0 := (splits_iff _ _ _).1 hs0
      rw [hsT, hs0] at hrest
      simp only [if_true] at hrest
      simp only [groupsAux, hT, h0, if_true]
      have key := ih pv pv [] [(i, pv)] hrest
      simp only [List.flatten_nil, List.nil_append] at key
      have := Coarsen.cons (pre ++ [cur0]) _ _ (by simp) key
      simpa using this
    · have hsT : splits tol lastT pv = false := by
        rw [Bool.eq_false_iff]; intro hh; exact hT ((splits_iff _ _ _).1 hh)
      rw [hsT] at hrest
      simp only [Bool.false_eq_true, if_false] at hrest
      by_cases h0 : (pv + 0 * sgn last0) * last0 ≤ 0
      · have hs0 : splits 0 last0 pv = true := (splits_iff _ _ _).2 h0
        rw [hs0] at hrest
        simp only [if_true] at hrest
        simp only [groupsAux, hT, h0, if_true, if_false]
        have key := ih lastT pv (pre ++ [cur0]) [(i, pv)] hrest
        simpa using key
      · have hs0 : splits 0 last0 pv = false := by
          rw [Bool.eq_false_iff]; intro hh; exact h0 ((splits_iff _ _ _).1 hh)
        rw [hs0] at hrest
        simp only [Bool.false_eq_true, if_false] at hrest
        simp only [groupsAux, hT, h0, if_false]
        have key := ih lastT last0 pre (cur0 ++ [(i, pv)]) hrest
        simpa using key

theorem peakItems_map_snd (v : List ℚ) : (peakItems v).map (·.2) = peakValues v := by
  unfold peakItems peakValues
  rw [List.map_map]; rfl

/-- **core**: if the set boundaries of the `tol` run are set boundaries of the `0` run, the `tol` result is a
subsequence of the `tol = 0` result -/
theorem switchedPeaks_sublist_of_included (v : List ℚ) (tol : ℚ) (h : tolSplitsIncluded v tol = true) :
    (switchedPeaks v tol).Sublist (switchedPeaks v 0) := by
  rw [switchedPeaks_eq, switchedPeaks_eq]
  unfold switchedGroups
  unfold tolSplitsIncluded at h
  rw [← peakItems_map_snd] at h
  cases hp : peakItems v with
  | nil => simp [groups]
  | cons e rest =>
    obtain ⟨i0, p0⟩ := e
    rw [hp] at h
    simp only [List.map_cons] at h
    simp only [groups, id]
    have key := coarsen_run tol rest p0 p0 [] [(i0, p0)] h
    simp only [List.flatten_nil, List.nil_append] at key
    exact key.report_sublist (groupsAux_ne_nil 0 p0 [(i0, p0)] rest (by simp))

/-! ### condition 2: every later peak reaches `tol` — the two runs coincide -/

theorem sgn_pos {x : ℚ} (h : 0 < x) : sgn x = 1 := by simp [sgn, h]
theorem sgn_neg {x : ℚ} (h : x < 0) : sgn x = -1 := by simp [sgn, h, not_lt.mpr h.le]
theorem sgn_zero : sgn 0 = 0 := by simp [sgn]

/-- the split test in plain words (`tol ≥ 0` not needed) -/
theorem split_cases (tol last pv : ℚ) :
    ((pv + tol * sgn last) * last ≤ 0) ↔
      (last = 0 ∨ (0 < last ∧ pv ≤ -tol) ∨ (last < 0 ∧ tol ≤ pv)) := by
  rcases lt_trichotomy last 0 with h | h | h
  · rw [sgn_neg h]
    constructor
    · intro hh
      right; right
      refine ⟨h, ?_⟩
      by_contra hc
      have : (pv + tol * -1) * last > 0 := mul_pos_of_neg_of_neg (by linarith) h
      linarith
    · rintro (h0 | ⟨h1, _⟩ | ⟨_, h2⟩)
      · exact absurd h0 h.ne
      · exact absurd h1 (not_lt.mpr h.le)
      · exact mul_nonpos_of_nonneg_of_nonpos (by linarith) h.le
  · subst h; simp
  · rw [sgn_pos h]
    constructor
    · intro hh
      right; left
      refine ⟨h, ?_⟩
      by_contra hc
      have : (pv + tol * 1) * last > 0 := mul_pos (by linarith) h
      linarith
    · rintro (h0 | ⟨_, h2⟩ | ⟨h1, _⟩)
      · exact absurd h0 h.ne'
      · exact mul_nonpos_of_nonpos_of_nonneg (by linarith) h.le
      · exact absurd h1 (not_lt.mpr h.le)

theorem split_eq_of_reach (tol last pv : ℚ) (htol : 0 ≤ tol) (hr : tol ≤ |pv|) :
    ((pv + tol * sgn last) * last ≤ 0) ↔ ((pv + 0 * sgn last) * last ≤ 0) := by
  rw [split_cases, split_cases]
  constructor
  · rintro (h | ⟨h1, h2⟩ | ⟨h1, h2⟩)
    · exact Or.inl h
    · exact Or.inr (Or.inl ⟨h1, by linarith⟩)
    · exact Or.inr (Or.inr ⟨h1, by linarith⟩)
  · rintro (h | ⟨h1, h2⟩ | ⟨h1, h2⟩)
    · exact Or.inl h
    · refine Or.inr (Or.inl ⟨h1, ?_⟩)
      have : pv ≤ 0 := by linarith
      rw [abs_of_nonpos this] at hr; linarith
    · refine Or.inr (Or.inr ⟨h1, ?_⟩)
      have : 0 ≤ pv := by linarith
      rw [abs_of_nonneg this] at hr; linarith

theorem groupsAux_eq_of_reach (tol : ℚ) (htol : 0 ≤ tol) (l : List (ℕ × ℚ)) (last : ℚ) (cur : List (ℕ × ℚ))
    (hr : ∀ e ∈ l, tol ≤ |e.2|) : groupsAux tol last cur l = groupsAux 0 last cur l := by
  induction l generalizing last cur with
  | nil => rfl
  | cons e rest ih =>
    obtain ⟨i, pv⟩ := e
    have h1 := split_eq_of_reach tol last pv htol (hr (i, pv) (by simp))
    have hrest : ∀ e ∈ rest, tol ≤ |e.2| := fun e he => hr e (by simp [he])
    simp only [groupsAux]
    by_cases hT : (pv + tol * sgn last) * last ≤ 0
    · rw [if_pos hT, if_pos (h1.1 hT), ih pv _ hrest]
    · rw [if_neg hT, if_neg (fun h => hT (h1.2 h)), ih last _ hrest]

/-- condition 2 gives equality of the two results -/
theorem switchedPeaks_eq_of_reach (v : List ℚ) (tol : ℚ) (htol : 0 ≤ tol) (h : allPeaksReachTol v tol = true) :
    switchedPeaks v tol = switchedPeaks v 0 := by
  rw [switchedPeaks_eq, switchedPeaks_eq]
  unfold switchedGroups
  unfold allPeaksReachTol at h
  rw [← peakItems_map_snd] at h
  cases hp : peakItems v with
  | nil => rfl
  | cons e rest =>
    obtain ⟨i0, p0⟩ := e
    rw [hp] at h
    simp only [List.map_cons, List.tail_cons, List.all_eq_true, List.mem_map, decide_eq_true_eq,
      forall_exists_index, and_imp, forall_apply_eq_imp_iff₂] at h
    simp only [groups, id]
    rw [groupsAux_eq_of_reach tol htol rest p0 _ (fun e he => by
      have := h e he; rwa [Np.absv_eq_abs] at this)]

/-! ### condition 3: within a run of one strict sign the first peak reaches `tol` if any does -/

theorem inclAux_of_local (tol : ℚ) (htol : 0 < tol) (l : List ℚ) (prev lastT last0 : ℚ)
    (I1 : lastT = 0 → last0 = 0) (I2 : prev = last0 ∨ 0 < prev * last0)
    (I3 : prev = lastT ∨ splits tol lastT prev = false)
    (hloc : localFrom tol prev l = true) : inclAux tol lastT last0 l = true := by
  induction l generalizing prev lastT last0 with
  | nil => rfl
  | cons pv rest ih =>
    simp only [localFrom, Bool.and_eq_true, Bool.or_eq_true, Bool.not_eq_eq_eq_not, Bool.not_true,
      Bool.and_eq_false_imp, decide_eq_true_eq, decide_eq_false_iff_not] at hloc
    obtain ⟨hl1, hl2⟩ := hloc
    -- the local condition as an implication
    have hlocal : 0 < prev * pv → tol ≤ |pv| → tol ≤ |prev| := by
      intro a b
      rcases hl1 with h | h
      · exact absurd (by rwa [Np.absv_eq_abs]) (h a)
      · rwa [Np.absv_eq_abs] at h
    have himp : splits tol lastT pv = true → splits 0 last0 pv = true := by
      intro hst
      by_contra hs0
      have hs0' : ¬ ((pv + 0 * sgn last0) * last0 ≤ 0) := fun hh => hs0 ((splits_iff _ _ _).2 hh)
      have hpl : 0 < pv * last0 := by
        have : (pv + 0 * sgn last0) * last0 = pv * last0 := by ring
        rw [this] at hs0'; exact not_le.mp hs0'
      have hl0 : last0 ≠ 0 := by rintro rfl; simp at hpl
      have hlT : lastT ≠ 0 := fun h => hl0 (I1 h)
      have hpp : 0 < prev * pv := by
        rcases I2 with rfl | h
        · rw [mul_comm]; exact hpl
        · have h3 : 0 < (prev * last0) * (pv * last0) := mul_pos h hpl
          have h4 : (prev * last0) * (pv * last0) = (prev * pv) * (last0 * last0) := by ring
          rw [h4] at h3
          have h5 : 0 < last0 * last0 := mul_self_pos.mpr hl0
          exact (pos_iff_pos_of_mul_pos h3).mpr h5
      have hst' := (split_cases tol lastT pv).1 ((splits_iff _ _ _).1 hst)
      rcases hst' with h | ⟨h1, h2⟩ | ⟨h1, h2⟩
      · exact hlT h
      · -- lastT > 0, pv ≤ -tol
        have hpv : pv < 0 := by linarith
        have hreach : tol ≤ |pv| := by rw [abs_of_neg hpv]; linarith
        have hprev := hlocal hpp hreach
        have hprevneg : prev < 0 := by
          by_contra hc
          have : prev * pv ≤ 0 := mul_nonpos_of_nonneg_of_nonpos (not_lt.mp hc) hpv.le
          linarith
        rw [abs_of_neg hprevneg] at hprev
        have hsp : splits tol lastT prev = true :=
          (splits_iff _ _ _).2 ((split_cases tol lastT prev).2 (Or.inr (Or.inl ⟨h1, by linarith⟩)))
        rcases I3 with h | h
        · rw [h] at hprevneg; linarith
        · rw [hsp] at h; cases h
      · -- lastT < 0, tol ≤ pv
        have hpv : 0 < pv := by linarith
        have hreach : tol ≤ |pv| := by rw [abs_of_pos hpv]; exact h2
        have hprev := hlocal hpp hreach
        have hprevpos : 0 < prev := by
          by_contra hc
          have : prev * pv ≤ 0 := mul_nonpos_of_nonpos_of_nonneg (not_lt.mp hc) hpv.le
          linarith
        rw [abs_of_pos hprevpos] at hprev
        have hsp : splits tol lastT prev = true :=
          (splits_iff _ _ _).2 ((split_cases tol lastT prev).2 (Or.inr (Or.inr ⟨h1, hprev⟩)))
        rcases I3 with h | h
        · rw [h] at hprevpos; linarith
        · rw [hsp] at h; cases h
    simp only [inclAux, Bool.and_eq_true, Bool.or_eq_true, Bool.not_eq_eq_eq_not, Bool.not_true]
    refine ⟨?_, ?_⟩
    · cases hst : splits tol lastT pv with
      | false => exact Or.inl rfl
      | true => exact Or.inr (himp hst)
    · apply ih pv _ _ _ _ _ hl2
      · -- I1'
        intro h
        cases hst : splits tol lastT pv with
        | true =>
          rw [hst] at h; simp only [if_true] at h
          rw [himp hst]; simpa using h
        | false =>
          rw [hst] at h; simp only [Bool.false_eq_true, if_false] at h
          exfalso
          have : splits tol lastT pv = true := (splits_iff _ _ _).2 (by rw [h]; simp)
          rw [hst] at this; cases this
      · -- I2'
        cases hs0 : splits 0 last0 pv with
        | true => left; simp
        | false =>
          right
          simp only [Bool.false_eq_true, if_false]
          have hs0' : ¬ ((pv + 0 * sgn last0) * last0 ≤ 0) := by
            intro hh; rw [(splits_iff _ _ _).2 hh] at hs0; cases hs0
          have : (pv + 0 * sgn last0) * last0 = pv * last0 := by ring
          rw [this] at hs0'; exact not_le.mp hs0'
      · -- I3'
        cases hst : splits tol lastT pv with
        | true => left; simp
        | false => right; simpa using hst

/-- condition 3 implies condition 1 -/
theorem included_of_firstPeakReaches (v : List ℚ) (tol : ℚ) (htol : 0 < tol) (h : firstPeakReachesTol v tol = true) :
    tolSplitsIncluded v tol = true := by
  unfold firstPeakReachesTol at h
  unfold tolSplitsIncluded
  cases hp : peakValues v with
  | nil => rfl
  | cons p0 rest =>
    rw [hp] at h
    exact inclAux_of_local tol htol rest p0 p0 p0 id (Or.inl rfl) (Or.inl rfl) h

end EqsigVerif.Model.Switched
