import Lean
/-!
# `#audit <namespace>` — list every theorem of a namespace with a hash of its statement and its axioms

Output: one JSON object per line on stdout (through `IO.println`, so that `lake env lean file.lean`
prints it verbatim), consumed by `./check`.
-/
open Lean Elab Command Meta

namespace EqsigVerif.Audit

def jsonStr (s : String) : String :=
  "\"" ++ (s.replace "\\" "\\\\" |>.replace "\"" "\\\"" |>.replace "\n" "\\n") ++ "\""

elab "#audit " pfx:ident : command => do
  let env ← getEnv
  let p := pfx.getId
  let mut rows : Array (String × String) := #[]
  for (n, ci) in env.constants.toList do
    if p.isPrefixOf n && !n.isInternal then
      match ci with
      | .thmInfo ti =>
        let axs ← Lean.collectAxioms n
        let tyStr := toString (← liftTermElabM (ppExpr ti.type))
        let axl := ", ".intercalate (axs.toList.map (fun a => jsonStr (toString a)))
        let usesSorry := axs.contains ``sorryAx
        rows := rows.push (toString n,
          s!"\{\"name\":{jsonStr (toString n)},\"type_hash\":\"{hash tyStr}\",\"axioms\":[{axl}],\"sorry\":{usesSorry},\"statement\":{jsonStr tyStr}}")
      | _ => pure ()
  let sorted := rows.qsort (fun a b => a.1 < b.1)
  for r in sorted do
    IO.println s!"AUDIT {r.2}"

end EqsigVerif.Audit
