import EqsigVerif.Prelude.Wire
import EqsigVerif.Prelude.NpE
import EqsigVerif.Prelude.NpP
import EqsigVerif.Prelude.NpR
import EqsigVerif.Handlers.PreludeE
/-!
# Driver handlers for the translator-target prelude (pseudo-property `PRELUDE`, DESIGN §3.2) — third part

The combinators of `Prelude/NpP.lean` (targets of `tools/py2lean_x_peaks.py`; handlers `np.p.*`) and of `Prelude/NpR.lean`
(targets of `tools/py2lean_x_rest.py`; handlers `np.r.*`) are exposed here *unchanged* at `Rat` (`Nat` / `Int` for index
primitives, code points for strings, `Cx Rat` for the row transform, a `Float` twin where the definition's doc comment speaks
about "the number type"), so that `harness/prelude_check_p.py` can compare each of them with the real NumPy / Python
expression on every run.

Conventions (those of `Handlers/Prelude.lean` / `Handlers/PreludeE.lean`): an `Option` result is rendered `None`; a handler
never invents behaviour the definition does not claim: where a definition is total but its doc comment restricts the domain
(`sliceStep` with `step = 0`, `trilRow` with a row index beyond the array, `meanT` of the empty list in an exact field,
`ifftRowsE` with a row length whose twiddles are not rational) the handler answers `bad|… outside the modelled domain`.
A 2-D array (list of rows) is rendered `<nrows>|<length of each row…>|<flat values, row-major>` (`PreludeE.outRows`).

The higher-order combinators (`forEnumE`, `forEnumFrom`, `forRangeE`, `forCountFrom`: Python `for` loops as folds that stop at
the first exception) are run with three fixed bodies each, selected by the first argument: `visit` (records what the loop
variable(s) were, in order), `horner` (not commutative in the iterations; raises `ValueError` / `IndexError` on two marked
iterations, so that *which* exception ends the loop is observable) and `rec` (list state, reads what the previous iteration
wrote, raises `IndexError` by itself when it runs off the list).
-/
namespace EqsigVerif.Handlers.PreludeP
open EqsigVerif EqsigVerif.Wire EqsigVerif.Cplx
open EqsigVerif.Handlers.PreludeE (outside outRows toRows)

/-! ### argument / result helpers -/

def parseKind : String → Except String ErrKind
  | "IndexError" => pure .IndexError | "ValueError" => pure .ValueError | "TypeError" => pure .TypeError
  | "AssertionError" => pure .AssertionError | "SignalProcessingError" => pure .SignalProcessingError
  | "ZeroDivisionError" => pure .ZeroDivisionError | "AttributeError" => pure .AttributeError | "Other" => pure .Other
  | s => throw s!"bad error kind '{s}'"

def kind1 (l : List String) : Except String ErrKind :=
  match l with | [x] => parseKind x | _ => throw "expected one error kind"

/-- `ok <rat>` / `err <Kind>`: the outcome of a Python block on the wire -/
def res1 : List String → Except String (Except ErrKind Rat)
  | ["ok", v] => do let v ← parseRat v; pure (.ok v)
  | ["err", k] => do let k ← parseKind k; pure (.error k)
  | _ => throw "expected 'ok <rat>' or 'err <Kind>'"

def showOptNat : Option Nat → String
  | some k => toString k
  | none => "None"

def okRats (r : Except ErrKind (List Rat)) : Outcome := ofExcept (fun (l : List Rat) => [outRats l]) r
def okRat (r : Except ErrKind Rat) : Outcome := ofExcept (fun (v : Rat) => [[showRat v]]) r

/-- cut `flat` into consecutive pieces of the given lengths -/
def splitLens {γ : Type} : List Nat → List γ → List (List γ)
  | [], _ => []
  | n :: ns, l => l.take n :: splitLens ns (l.drop n)

/-! ### `Prelude/NpP.lean`: index normalisation, `np.take`, `np.put`, `np.delete` -/

/-- `np.p.wrap_idx|<n>|<i>`: `NpP.wrapIdx` = the position `x[i]` reads on a length-`n` sequence (`None` = `IndexError`) -/
def wrapIdxH : Handler
  | [n, i] => do let n ← nat1 n; let i ← int1 i; pure (.ok [[showOptNat (NpP.wrapIdx n i)]])
  | _ => throw "np.p.wrap_idx: expected 2 args"

/-- `np.p.take|<l…>|<idx…>`: `NpP.takeE` = `np.take(l, idx)`, `idx ≥ 0`; `IndexError` out of range -/
def takeH : Handler
  | [l, idx] => do let l ← rats l; let idx ← nats idx; pure (okRats (NpP.takeE l idx))
  | _ => throw "np.p.take: expected 2 args"

/-- `np.p.take_i|<l…>|<idx…>`: `NpP.takeIE` = `np.take(l, idx)`, Python integers (negative wrap) -/
def takeIH : Handler
  | [l, idx] => do let l ← rats l; let idx ← ints idx; pure (okRats (NpP.takeIE l idx))
  | _ => throw "np.p.take_i: expected 2 args"

/-- `np.p.put|<base…>|<idx…>|<vals…>`: `NpP.putE` (worker `putCyc`) = `base` after `np.put(base, idx, vals)`, `idx ≥ 0` -/
def putH : Handler
  | [base, idx, vals] => do
    let base ← rats base; let idx ← nats idx; let vals ← rats vals
    pure (okRats (NpP.putE base idx vals))
  | _ => throw "np.p.put: expected 3 args"

/-- `np.p.put_i|<base…>|<idx…>|<vals…>`: `NpP.putIE` = `base` after `np.put(base, idx, vals)`, Python integers -/
def putIH : Handler
  | [base, idx, vals] => do
    let base ← rats base; let idx ← ints idx; let vals ← rats vals
    pure (okRats (NpP.putIE base idx vals))
  | _ => throw "np.p.put_i: expected 3 args"

/-- `np.p.put_cyc|<base…>|<idx…>|<vals…>`: the worker `NpP.putCyc vals base idx vals` on its own (in-range `idx`, `vals ≠ []`) -/
def putCycH : Handler
  | [base, idx, vals] => do
    let base ← rats base; let idx ← nats idx; let vals ← rats vals
    if vals.isEmpty ∨ ¬ idx.all (fun i => decide (i < base.length)) then outside "np.p.put_cyc"
    else pure (.ok [outRats (NpP.putCyc vals base idx vals)])
  | _ => throw "np.p.put_cyc: expected 3 args"

/-- `np.p.delete|<l…>|<rem…>`: `NpP.deleteE` = `np.delete(l, rem)`, `rem` a list of positions `≥ 0`; `IndexError` -/
def deleteH : Handler
  | [l, rem] => do let l ← rats l; let rem ← nats rem; pure (okRats (NpP.deleteE l rem))
  | _ => throw "np.p.delete: expected 2 args"

/-- `np.p.delete_from|<rem…>|<i>|<l…>`: `NpP.deleteFrom` = the entries of `l`, numbered `i, i+1, …`, whose number is not in `rem` -/
def deleteFromH : Handler
  | [rem, i, l] => do let rem ← nats rem; let i ← nat1 i; let l ← rats l; pure (.ok [outRats (NpP.deleteFrom rem i l)])
  | _ => throw "np.p.delete_from: expected 3 args"

/-! ### `Prelude/NpP.lean`: slices, element-wise, sorting -/

/-- `np.p.slice_step|<l…>|<start>|<step>`: `NpP.sliceStep` = `l[start::step]`, `start ≥ 0`, `step ≥ 1` -/
def sliceStepH : Handler
  | [l, start, step] => do
    let l ← rats l; let start ← nat1 start; let step ← nat1 step
    if step = 0 then outside "np.p.slice_step" else pure (.ok [outRats (NpP.sliceStep l start step)])
  | _ => throw "np.p.slice_step: expected 3 args"

/-- `np.p.stride_aux|<step>|<k>|<l…>`: the worker `NpP.strideAux step k l` = `l[k::step]` (`k` entries skipped first), `step ≥ 1` -/
def strideAuxH : Handler
  | [step, k, l] => do
    let step ← nat1 step; let k ← nat1 k; let l ← rats l
    if step = 0 then outside "np.p.stride_aux" else pure (.ok [outRats (NpP.strideAux step k l)])
  | _ => throw "np.p.stride_aux: expected 3 args"

/-- `np.p.iadd_from|<l…>|<k>|<s>`: `NpP.iaddFrom` = `l` after `l[k:] += s`, `k ≥ 0` -/
def iaddFromH : Handler
  | [l, k, s] => do let l ← rats l; let k ← nat1 k; let s ← rat1 s; pure (.ok [outRats (NpP.iaddFrom l k s)])
  | _ => throw "np.p.iadd_from: expected 3 args"

/-- `np.p.sign|<l…>`: `NpP.sign` entry by entry = `np.sign(l)` (float array) -/
def signH : Handler
  | [l] => do let l ← rats l; pure (.ok [outRats (l.map NpP.sign)])
  | _ => throw "np.p.sign: expected 1 arg"

/-- `np.p.sign_int|<l…>`: `NpP.sign` at `Int` entry by entry = `np.sign(l)` (integer array) -/
def signIntH : Handler
  | [l] => do let l ← ints l; pure (.ok [outInts (l.map NpP.sign)])
  | _ => throw "np.p.sign_int: expected 1 arg"

/-- `np.p.insert_asc|<a>|<l…>`: `NpP.insertAsc a l` for an ascending `l` = `sorted(l + [a])` -/
def insertAscH : Handler
  | [a, l] => do
    let a ← nat1 a; let l ← nats l
    if (l.zip (l.drop 1)).all (fun p => decide (p.1 ≤ p.2)) then pure (.ok [outNats (NpP.insertAsc a l)])
    else outside "np.p.insert_asc"
  | _ => throw "np.p.insert_asc: expected 2 args"

/-- `np.p.sort_asc|<l…>`: `NpP.sortAsc` = the index array after `l.sort()` -/
def sortAscH : Handler
  | [l] => do let l ← nats l; pure (.ok [outNats (NpP.sortAsc l)])
  | _ => throw "np.p.sort_asc: expected 1 arg"

/-! ### `Prelude/NpP.lean`: Python `for` loops -/

/-- the three bodies of the `enumerate` loops (module doc comment); `run` is the combinator under test.
* `visit`: `ks = ks + [k]; xs = xs + [x]` → `ok|<ks…>|<xs…>`
* `horner`: `if x == e1: raise ValueError` / `elif x == e2: raise IndexError` / `s = c * s + k * x` from `init` → `ok|<s>`
* `rec`: `a[k + 1] = c * a[k] + x` on the list `a` (`IndexError` when `k` or `k + 1` is beyond `a`) → `ok|<a…>` -/
def enumBody (name : String)
    (run : ∀ {σ : Type}, (σ → Nat → Rat → Except ErrKind σ) → List Rat → σ → Except ErrKind σ)
    (body : String) (c init e1 e2 : Rat) (l a : List Rat) : Except String Outcome :=
  if body = "visit" then
    pure (ofExcept (fun (st : List Nat × List Rat) => [outNats st.1, outRats st.2])
      (run (fun (st : List Nat × List Rat) k x => .ok (st.1 ++ [k], st.2 ++ [x])) l ([], [])))
  else if body = "horner" then
    pure (okRat (run (fun (s : Rat) k x =>
      if x = e1 then .error .ValueError else if x = e2 then .error .IndexError else .ok (c * s + (k : Rat) * x)) l init))
  else if body = "rec" then
    pure (okRats (run (fun (st : List Rat) k x => do
      let v ← NpE.getE st k
      NpR.setE st (k + 1) (c * v + x)) l a))
  else throw s!"{name}: unknown body '{body}'"

/-- `np.p.for_enum|<body>|<c>|<init>|<e1>|<e2>|<l…>|<a…>`: `NpP.forEnumE` = `for k, x in enumerate(l): …` -/
def forEnumH : Handler
  | [body, c, init, e1, e2, l, a] => do
    let body ← str1 body; let c ← rat1 c; let init ← rat1 init; let e1 ← rat1 e1; let e2 ← rat1 e2
    let l ← rats l; let a ← rats a
    enumBody "np.p.for_enum" (fun step l s => NpP.forEnumE step l s) body c init e1 e2 l a
  | _ => throw "np.p.for_enum: expected 7 args"

/-- `np.p.for_enum_from|<k0>|<body>|<c>|<init>|<e1>|<e2>|<l…>|<a…>`: `NpP.forEnumFrom` = `for k, x in enumerate(l, k0): …` -/
def forEnumFromH : Handler
  | [k0, body, c, init, e1, e2, l, a] => do
    let k0 ← nat1 k0
    let body ← str1 body; let c ← rat1 c; let init ← rat1 init; let e1 ← rat1 e1; let e2 ← rat1 e2
    let l ← rats l; let a ← rats a
    enumBody "np.p.for_enum_from" (fun step l s => NpP.forEnumFrom step k0 l s) body c init e1 e2 l a
  | _ => throw "np.p.for_enum_from: expected 8 args"

/-- the three bodies of the `range` loops; `run` is the combinator under test.
* `visit`: `s = s + [i]` → `ok|<s…>`
* `horner`: `if i == e1: raise ValueError` / `elif i == e2: raise IndexError` / `s = c * s + i` from `init` → `ok|<s>`
* `rec`: `arr[i + 1] = c * arr[i] + arr[i + 1]` on the list `arr` (`IndexError` beyond `arr`) → `ok|<arr…>` -/
def rangeBody (name : String)
    (run : ∀ {σ : Type}, (σ → Nat → Except ErrKind σ) → σ → Except ErrKind σ)
    (body : String) (c init : Rat) (e1 e2 : Nat) (arr : List Rat) : Except String Outcome :=
  if body = "visit" then
    pure (ofExcept (fun (st : List Nat) => [outNats st]) (run (fun (st : List Nat) i => .ok (st ++ [i])) []))
  else if body = "horner" then
    pure (okRat (run (fun (s : Rat) i =>
      if i = e1 then .error .ValueError else if i = e2 then .error .IndexError else .ok (c * s + (i : Rat))) init))
  else if body = "rec" then
    pure (okRats (run (fun (st : List Rat) i => do
      let v ← NpE.getE st i
      let w ← NpE.getE st (i + 1)
      NpR.setE st (i + 1) (c * v + w)) arr))
  else throw s!"{name}: unknown body '{body}'"

/-- `np.p.for_range|<body>|<a>|<b>|<c>|<init>|<e1>|<e2>|<arr…>`: `NpP.forRangeE` = `for i in range(a, b): …` -/
def forRangeH : Handler
  | [body, a, b, c, init, e1, e2, arr] => do
    let body ← str1 body; let a ← nat1 a; let b ← nat1 b; let c ← rat1 c; let init ← rat1 init
    let e1 ← nat1 e1; let e2 ← nat1 e2; let arr ← rats arr
    rangeBody "np.p.for_range" (fun step s => NpP.forRangeE step a b s) body c init e1 e2 arr
  | _ => throw "np.p.for_range: expected 8 args"

/-- `np.p.for_count_from|<body>|<a>|<n>|<c>|<init>|<e1>|<e2>|<arr…>`: `NpP.forCountFrom` = `for i in range(a, a + n): …` -/
def forCountFromH : Handler
  | [body, a, n, c, init, e1, e2, arr] => do
    let body ← str1 body; let a ← nat1 a; let n ← nat1 n; let c ← rat1 c; let init ← rat1 init
    let e1 ← nat1 e1; let e2 ← nat1 e2; let arr ← rats arr
    rangeBody "np.p.for_count_from" (fun step s => NpP.forCountFrom step a n s) body c init e1 e2 arr
  | _ => throw "np.p.for_count_from: expected 8 args"

/-- `np.p.last_range|<a>|<b>`: `NpP.lastRangeE` = `i` read after `for i in range(a, b): pass` (`Other` = `UnboundLocalError`) -/
def lastRangeH : Handler
  | [a, b] => do let a ← nat1 a; let b ← nat1 b; pure (ofExcept (fun (v : Nat) => [[toString v]]) (NpP.lastRangeE a b))
  | _ => throw "np.p.last_range: expected 2 args"

/-! ### `Prelude/NpR.lean`: control -/

/-- `np.r.guard|<T/F>|<Kind>`: `NpR.guardE` = `if b: raise Kind` → `ok|` / `err|<Kind>` -/
def guardH : Handler
  | [b, k] => do let b ← bool1 b; let k ← kind1 k; pure (ofExcept (fun (_ : Unit) => [[]]) (NpR.guardE b k))
  | _ => throw "np.r.guard: expected 2 args"

/-- `np.r.try_catch|<body>|<Kind>|<handler>`: `NpR.tryCatchE` = `try: body / except Kind: handler`; `body`, `handler` are
`ok <rat>` (the block returns the value) or `err <Kind>` (the block raises) -/
def tryCatchH : Handler
  | [body, k, handler] => do
    let body ← res1 body; let k ← kind1 k; let handler ← res1 handler
    pure (okRat (NpR.tryCatchE body k handler))
  | _ => throw "np.r.try_catch: expected 3 args"

/-- `np.r.join|<sep code points…>|<length of each part…>|<code points of the parts, concatenated…>`: `NpR.joinL` =
`sep.join(parts)` → `ok|<code points…>` -/
def joinH : Handler
  | [sep, lens, flat] => do
    let sep ← nats sep; let lens ← nats lens; let flat ← nats flat
    if flat.length ≠ lens.foldl (· + ·) 0 then throw "np.r.join: lengths do not add up"
    let parts := (splitLens lens flat).map (fun p => p.map Char.ofNat)
    pure (.ok [outNats ((NpR.joinL (sep.map Char.ofNat) parts).map Char.toNat)])
  | _ => throw "np.r.join: expected 3 args"

/-! ### `Prelude/NpR.lean`: indexing with Python integers -/

/-- `np.r.py_get|<l…>|<i>`: `NpR.pyGetE` = `l[i]`, Python integer; `IndexError` -/
def pyGetH : Handler
  | [l, i] => do let l ← rats l; let i ← int1 i; pure (okRat (NpR.pyGetE l i))
  | _ => throw "np.r.py_get: expected 2 args"

/-- `np.r.take|<l…>|<idx…>`: `NpR.takeE` = `l[idx]` for an integer array `idx`; `IndexError` -/
def takeRH : Handler
  | [l, idx] => do let l ← rats l; let idx ← ints idx; pure (okRats (NpR.takeE l idx))
  | _ => throw "np.r.take: expected 2 args"

/-- `np.r.set_last|<l…>|<v>`: `NpR.setLastE` = `l` after `l[-1] = v`; `IndexError` on empty -/
def setLastH : Handler
  | [l, v] => do let l ← rats l; let v ← rat1 v; pure (okRats (NpR.setLastE l v))
  | _ => throw "np.r.set_last: expected 2 args"

/-- `np.r.set|<l…>|<i>|<v>`: `NpR.setE` = `l` after `l[i] = v`, `i ≥ 0`; `IndexError` -/
def setH : Handler
  | [l, i, v] => do let l ← rats l; let i ← nat1 i; let v ← rat1 v; pure (okRats (NpR.setE l i v))
  | _ => throw "np.r.set: expected 3 args"

/-- `np.r.py_idx|<n>|<b>`: `NpR.pyIdx` = the clipped start/stop of a Python slice bound on a length-`n` sequence -/
def pyIdxH : Handler
  | [n, b] => do let n ← nat1 n; let b ← int1 b; pure (.ok [[toString (NpR.pyIdx n b)]])
  | _ => throw "np.r.py_idx: expected 2 args"

/-- `np.r.py_slice|<l…>|<a>|<b>`: `NpR.pySlice` = `l[a:b]` -/
def pySliceH : Handler
  | [l, a, b] => do let l ← rats l; let a ← int1 a; let b ← int1 b; pure (.ok [outRats (NpR.pySlice l a b)])
  | _ => throw "np.r.py_slice: expected 3 args"

/-- `np.r.py_from|<l…>|<a>`: `NpR.pyFrom` = `l[a:]` -/
def pyFromH : Handler
  | [l, a] => do let l ← rats l; let a ← int1 a; pure (.ok [outRats (NpR.pyFrom l a)])
  | _ => throw "np.r.py_from: expected 2 args"

/-- `np.r.py_to|<l…>|<b>`: `NpR.pyTo` = `l[:b]` -/
def pyToH : Handler
  | [l, b] => do let l ← rats l; let b ← int1 b; pure (.ok [outRats (NpR.pyTo l b)])
  | _ => throw "np.r.py_to: expected 2 args"

/-- `np.r.fill_from_py|<a…>|<lo>|<v>`: `NpR.fillFromPy` = `a` after `a[lo:] = v` (scalar `v`) -/
def fillFromPyH : Handler
  | [a, lo, v] => do let a ← rats a; let lo ← int1 lo; let v ← rat1 v; pure (.ok [outRats (NpR.fillFromPy a lo v)])
  | _ => throw "np.r.fill_from_py: expected 3 args"

/-- `np.r.set_slice_py|<a…>|<lo>|<hi>|<rhs…>`: `NpR.setSlicePyE` = `a` after `a[lo:hi] = rhs` (array `rhs`); `ValueError` -/
def setSlicePyH : Handler
  | [a, lo, hi, rhs] => do
    let a ← rats a; let lo ← int1 lo; let hi ← int1 hi; let rhs ← rats rhs
    pure (okRats (NpR.setSlicePyE a lo hi rhs))
  | _ => throw "np.r.set_slice_py: expected 4 args"

/-! ### `Prelude/NpR.lean`: order, search -/

/-- `np.r.min|<x…>`: `NpR.minE` = `min(x)`; `ValueError` on empty -/
def minH : Handler
  | [x] => do let x ← rats x; pure (okRat (NpR.minE x))
  | _ => throw "np.r.min: expected 1 arg"

/-- `np.r.clip_lo|<v…>|<lo>`: `NpR.clipLo` entry by entry = `np.clip(v, lo, None)` -/
def clipLoH : Handler
  | [v, lo] => do let v ← rats v; let lo ← rat1 lo; pure (.ok [outRats (v.map (NpR.clipLo · lo))])
  | _ => throw "np.r.clip_lo: expected 2 args"

/-- `np.r.clip_hi|<v…>|<hi>`: `NpR.clipHi` entry by entry = `np.clip(v, None, hi)` -/
def clipHiH : Handler
  | [v, hi] => do let v ← rats v; let hi ← rat1 hi; pure (.ok [outRats (v.map (NpR.clipHi · hi))])
  | _ => throw "np.r.clip_hi: expected 2 args"

/-- `np.r.searchsorted_right|<x…>|<q…>`: `NpR.searchsortedRight x` for every query = `np.searchsorted(x, q, side='right')`,
`x` sorted (non-decreasing) -/
def searchsortedRightH : Handler
  | [x, q] => do
    let x ← rats x; let q ← rats q
    if (x.zip (x.drop 1)).all (fun p => decide (p.1 ≤ p.2)) then pure (.ok [outNats (q.map (NpR.searchsortedRight x))])
    else outside "np.r.searchsorted_right"
  | _ => throw "np.r.searchsorted_right: expected 2 args"

/-! ### `Prelude/NpR.lean`: triangular matrices, means, grids -/

/-- `np.r.tril_row|<v…>|<i>`: `NpR.trilRow` = `np.tril(v)[i]`, `i < len v` -/
def trilRowH : Handler
  | [v, i] => do
    let v ← rats v; let i ← nat1 i
    if i < v.length then pure (.ok [outRats (NpR.trilRow v i)]) else outside "np.r.tril_row"
  | _ => throw "np.r.tril_row: expected 2 args"

/-- `np.r.triu_row|<v…>|<i>`: `NpR.triuRow` = `np.triu(v)[i]`, `i < len v` -/
def triuRowH : Handler
  | [v, i] => do
    let v ← rats v; let i ← nat1 i
    if i < v.length then pure (.ok [outRats (NpR.triuRow v i)]) else outside "np.r.triu_row"
  | _ => throw "np.r.triu_row: expected 2 args"

/-- `np.r.mean_t|<x…>`: `NpR.meanT` at `Rat` = `np.mean(x)`, `x ≠ []` (`0 / 0` of an exact field is not NumPy's `nan`) -/
def meanTH : Handler
  | [x] => do
    let x ← rats x
    if x.isEmpty then outside "np.r.mean_t" else pure (.ok [[showRat (NpR.meanT x)]])
  | _ => throw "np.r.mean_t: expected 1 arg"

/-- `np.r.mean_t_f|<x…>` (floats): `NpR.meanT` at `Float` = `np.mean(x)`, the empty array included (`0 / 0 = nan`) -/
def meanTFH : Handler
  | [x] => do let x ← floats x; pure (.ok [[showFloat (NpR.meanT x)]])
  | _ => throw "np.r.mean_t_f: expected 1 arg"

/-- `np.r.linspace01|<n>`: `NpR.linspace01` at `Rat` = the exact values of `np.linspace(0, 1.0, n)` -/
def linspace01H : Handler
  | [n] => do let n ← nat1 n; pure (.ok [outRats (NpR.linspace01 n : List Rat)])
  | _ => throw "np.r.linspace01: expected 1 arg"

/-! ### `Prelude/NpR.lean`: 2-D -/

/-- `np.r.toeplitz|<c…>|<r…>`: `NpR.toeplitz` = `scipy.linalg.toeplitz(c, r)` → rows (`outRows`) -/
def toeplitzH : Handler
  | [c, r] => do let c ← rats c; let r ← rats r; pure (.ok (outRows (NpR.toeplitz c r)))
  | _ => throw "np.r.toeplitz: expected 2 args"

/-- exact twiddles `e^{-2πi m/N}` for `N ∈ {1, 2, 4}` (`Cplx.twExact?`) -/
def twQ (N m : Nat) : Cx Rat := (twExact? N m).getD 0

/-- `np.r.ifft_rows|<nrows>|<ncols>|<re flat…>|<im flat…>`: `NpR.ifftRowsE` at `Cx Rat` = `np.fft.ifft(M, axis=1)` for
`ncols ∈ {0, 1, 2, 4}` (the row lengths with rational twiddles); `ValueError` for `ncols = 0` with at least one row
→ `ok|<nrows>|<length of each row…>|<re flat…>|<im flat…>` -/
def ifftRowsH : Handler
  | [nrows, ncols, re, im] => do
    let nrows ← nat1 nrows; let ncols ← nat1 ncols
    let re ← rats re; let im ← rats im
    if ¬ (ncols = 0 ∨ ncols = 1 ∨ ncols = 2 ∨ ncols = 4) then outside "np.r.ifft_rows"
    else do
      let re ← toRows "np.r.ifft_rows" nrows ncols re
      let im ← toRows "np.r.ifft_rows" nrows ncols im
      let M : List (List (Cx Rat)) := (re.zip im).map (fun p => (p.1.zip p.2).map (fun q => (⟨q.1, q.2⟩ : Cx Rat)))
      pure (ofExcept (fun (R : List (List (Cx Rat))) =>
          [[toString R.length], R.map (fun r => toString r.length),
           outRats (R.flatten.map Cx.re), outRats (R.flatten.map Cx.im)])
        (NpR.ifftRowsE twQ M))
  | _ => throw "np.r.ifft_rows: expected 4 args"

/-- `np.r.argmax_axis0|<nrows>|<ncols>|<flat…>`: `NpR.argmaxAxis0E` = `np.argmax(M, axis=0)`; `ValueError` without rows -/
def argmaxAxis0H : Handler
  | [nrows, ncols, flat] => do
    let nrows ← nat1 nrows; let ncols ← nat1 ncols; let flat ← rats flat
    let M ← toRows "np.r.argmax_axis0" nrows ncols flat
    pure (ofExcept (fun (l : List Nat) => [outNats l]) (NpR.argmaxAxis0E M))
  | _ => throw "np.r.argmax_axis0: expected 3 args"

/-! ### `Prelude/NpR.lean`: Python float arithmetic -/

/-- `np.r.py_div|<a>|<b>`: `NpR.pyDivE` at `Rat` = `a / b` on Python floats; `ZeroDivisionError` -/
def pyDivH : Handler
  | [a, b] => do let a ← rat1 a; let b ← rat1 b; pure (okRat (NpR.pyDivE a b))
  | _ => throw "np.r.py_div: expected 2 args"

/-- `np.r.py_div_f|<a>|<b>` (floats): `NpR.pyDivE` at `Float` (the test `b == 0` is the IEEE one: `-0.0` raises as well) -/
def pyDivFH : Handler
  | [a, b] => do
    let a ← float1 a; let b ← float1 b
    pure (ofExcept (fun (v : Float) => [[showFloat v]]) (NpR.pyDivE a b))
  | _ => throw "np.r.py_div_f: expected 2 args"

def handlers : List (String × Handler) :=
  [-- Prelude/NpP.lean
   ("np.p.wrap_idx", wrapIdxH), ("np.p.take", takeH), ("np.p.take_i", takeIH),
   ("np.p.put", putH), ("np.p.put_i", putIH), ("np.p.put_cyc", putCycH),
   ("np.p.delete", deleteH), ("np.p.delete_from", deleteFromH),
   ("np.p.slice_step", sliceStepH), ("np.p.stride_aux", strideAuxH), ("np.p.iadd_from", iaddFromH),
   ("np.p.sign", signH), ("np.p.sign_int", signIntH),
   ("np.p.insert_asc", insertAscH), ("np.p.sort_asc", sortAscH),
   ("np.p.for_enum", forEnumH), ("np.p.for_enum_from", forEnumFromH),
   ("np.p.for_range", forRangeH), ("np.p.for_count_from", forCountFromH),
   ("np.p.last_range", lastRangeH),
   -- Prelude/NpR.lean
   ("np.r.guard", guardH), ("np.r.try_catch", tryCatchH), ("np.r.join", joinH),
   ("np.r.py_get", pyGetH), ("np.r.take", takeRH), ("np.r.set_last", setLastH), ("np.r.set", setH),
   ("np.r.py_idx", pyIdxH), ("np.r.py_slice", pySliceH), ("np.r.py_from", pyFromH), ("np.r.py_to", pyToH),
   ("np.r.fill_from_py", fillFromPyH), ("np.r.set_slice_py", setSlicePyH),
   ("np.r.min", minH), ("np.r.clip_lo", clipLoH), ("np.r.clip_hi", clipHiH),
   ("np.r.searchsorted_right", searchsortedRightH),
   ("np.r.tril_row", trilRowH), ("np.r.triu_row", triuRowH),
   ("np.r.mean_t", meanTH), ("np.r.mean_t_f", meanTFH), ("np.r.linspace01", linspace01H),
   ("np.r.toeplitz", toeplitzH), ("np.r.ifft_rows", ifftRowsH), ("np.r.argmax_axis0", argmaxAxis0H),
   ("np.r.py_div", pyDivH), ("np.r.py_div_f", pyDivFH)]

end EqsigVerif.Handlers.PreludeP
