import EqsigVerif.Prelude.Wire
import EqsigVerif.Model.DesignSpectra
/-! driver handlers for `Model/DesignSpectra.lean`, instantiated at `Float`
(`x ** 0.75 := Float.pow x 0.75` (libm `pow`), `np.pi := 3.141592653589793`).
Floats travel as `b<uint64 bit pattern>`; the site class travels as the raw Python string. -/
namespace EqsigVerif.Handlers.DesignSpectra
open EqsigVerif EqsigVerif.Wire EqsigVerif.Model.DesignSpectra

/-- `x ** 0.75` at `Float` -/
def pow34F (x : Float) : Float := Float.pow x 0.75

/-- `np.pi` -/
def piF : Float := 3.141592653589793

/-- `c_h_factor|<tt>|<class>` → `ok|<c_h>` (scalar `float` input) -/
def chFactorH : Handler
  | [tt, c] => do
    let tt ← float1 tt; let c ← str1 c
    pure (ofExcept (fun r => [[showFloat r]]) (c_h_factor_str pow34F tt c))
  | _ => throw "c_h_factor: expected 2 args"

/-- `c_h_factor_arr|<tt…>|<class>` → `ok|<c_h…>` (array input) -/
def chFactorArrH : Handler
  | [tt, c] => do
    let tt ← floats tt; let c ← str1 c
    pure (ofExcept (fun r => [outFloats r]) (c_h_factor_arr_str pow34F tt c))
  | _ => throw "c_h_factor_arr: expected 2 args"

/-- `sd_nzs|<period>|<class>|<z>|<r>|<n>` → `ok|<sd>` -/
def sdNzsH : Handler
  | [t, c, z, r, n] => do
    let t ← float1 t; let c ← str1 c; let z ← float1 z; let r ← float1 r; let n ← float1 n
    pure (ofExcept (fun r => [[showFloat r]]) (sd_nzs_str pow34F t c z r n))
  | _ => throw "sd_nzs: expected 5 args"

/-- `t_eff|<displacement>|<class>|<z>|<r>|<n>` → `ok|<time>` -/
def tEffH : Handler
  | [d, c, z, r, n] => do
    let d ← float1 d; let c ← str1 c; let z ← float1 z; let r ← float1 r; let n ← float1 n
    pure (ofExcept (fun r => [[showFloat r]]) (t_eff_str piF d c z r n))
  | _ => throw "t_eff: expected 5 args"

/-- `ds_d_c|<class>|<z>|<r>|<n>` → `ok|<d_c>` (the corner displacement of `t_eff`; `bad` for an unknown class) -/
def dcH : Handler
  | [c, z, r, n] => do
    let c ← str1 c; let z ← float1 z; let r ← float1 r; let n ← float1 n
    match parseSiteClass c with
    | some c => pure (.ok [[showFloat (d_c piF c z r n)]])
    | none => throw "ds_d_c: unknown class"
  | _ => throw "ds_d_c: expected 4 args"

/-- `ds_pi` → `ok|<bits of the model's pi>` -/
def piH : Handler
  | _ => pure (.ok [[showFloat piF]])

def handlers : List (String × Handler) :=
  [("c_h_factor", chFactorH), ("c_h_factor_arr", chFactorArrH), ("sd_nzs", sdNzsH), ("t_eff", tEffH),
   ("ds_d_c", dcH), ("ds_pi", piH)]

end EqsigVerif.Handlers.DesignSpectra
