import EqsigVerif.Prelude.Wire
import EqsigVerif.Model.Single
import EqsigVerif.Model.Multiple
import EqsigVerif.Model.SpectraFns
/-! driver handlers for `Model/Single.lean` (C17), `Model/Multiple.lean` (C18), `Model/SpectraFns.lean` (C03 b–f).
Mathlib-free.  Lists of records travel in one field, each record introduced by the marker token `r`
(`r 1 2 3 r 4 5 6`; `r` alone = one empty record); returned lists of records are separated by `;`. -/
namespace EqsigVerif.Handlers.Misc
open EqsigVerif EqsigVerif.Wire
open EqsigVerif.Model

def parseMode (s : String) : Except String Single.GibbsMode :=
  match s with
  | "none" => pure .none | "start" => pure .start | "end" => pure .end | "mid" => pure .mid
  | _ => throw s!"bad mode {s}"

def parseOptRat (s : String) : Except String (Option Rat) :=
  if s = "N" then pure none else do let r ← parseRat s; pure (some r)

def parseContainer (s : String) : Except String Single.Container :=
  match s with
  | "list" => pure .list | "tuple" => pure .tuple | "ndarray" => pure .ndarray | "other" => pure .other
  | _ => throw s!"bad container {s}"

def showFT : Single.FilterType → String
  | .low => "low" | .high => "high" | .band => "band"

def singleHandlers : List (String × Handler) := [
  ("running_average", fun
    | [w, v] => do
      let w ← nat1 w; let v ← rats v
      pure (.ok [outRats (Single.runningAverage v w)])
    | _ => throw "args"),
  ("butter_book", fun
    | [n, m, ge] => do
      let n ← nat1 n; let m ← str1 m; let m ← parseMode m; let ge ← nat1 ge
      let (a, b, c) := Single.butterBookkeeping n m ge
      pure (.ok [outNats [a, b, c]])
    | _ => throw "args"),
  ("butter_pad", fun
    | [m, ge, gr, v] => do
      let m ← str1 m; let m ← parseMode m; let ge ← nat1 ge; let gr ← nat1 gr; let v ← rats v
      pure (.ok [outRats (Single.butterPad v m ge gr), outRats (Single.butterPass id v m ge gr)])
    | _ => throw "args"),
  ("filter_select", fun
    | [c, items] => do
      let c ← str1 c; let c ← parseContainer c; let items ← items.mapM parseOptRat
      pure (ofExcept (fun (ft, cut) => [[showFT ft], outRats cut]) (Single.filterSelect c items))
    | _ => throw "args"),
  ("butter_full", fun
    | [c, items, dt, order, m, ge, gr, v] => do
      let c ← str1 c; let c ← parseContainer c; let items ← items.mapM parseOptRat
      let dt ← rat1 dt; let order ← nat1 order
      let m ← str1 m; let m ← parseMode m; let ge ← nat1 ge; let gr ← nat1 gr; let v ← rats v
      pure (ofExcept (fun r => [outRats r])
        (Single.butterPassFull (fun _ _ x => x) c items dt v order m ge gr))
    | _ => throw "args"),
  ("remove_poly_with", fun
    | [cofs, v] => do
      let cofs ← rats cofs; let v ← rats v
      pure (.ok [outRats (Single.removePolyWith cofs v)])
    | _ => throw "args"),
  ("remove_average", fun
    | [sec, v] => do
      let sec ← int1 sec; let v ← rats v
      pure (ofExcept (fun r => [outRats r]) (Single.removeAverage v sec))
    | _ => throw "args"),
  ("add_constant", fun
    | [c, v] => do
      let c ← rat1 c; let v ← rats v
      pure (.ok [outRats (Single.addConstant v c)])
    | _ => throw "args"),
  ("add_series", fun
    | [v, s] => do
      let v ← rats v; let s ← rats s
      pure (ofExcept (fun r => [outRats r]) (Single.addSeries v s))
    | _ => throw "args"),
  ("add_signal", fun
    | [dt, v, kind, dt2, s] => do
      let dt ← rat1 dt; let v ← rats v; let kind ← str1 kind; let dt2 ← rat1 dt2; let s ← rats s
      let o := if kind = "signal" then Single.Operand.signal dt2 s else .notSignal
      pure (ofExcept (fun r => [outRats r]) (Single.addSignal dt v o))
    | _ => throw "args")
]

/-- rows travel in one field, each row introduced by the marker token `r`: `r 1 2 3 r 4 5 6`; `r` alone = one empty row -/
def splitRows : List String → List (List String)
  | [] => []
  | t :: ts =>
    let rest := splitRows ts
    if t = "r" then
      -- tokens up to the next marker belong to this row
      (ts.takeWhile (· ≠ "r")) :: rest
    else rest

def parseSignals (l : List String) : Except String (List (List Rat)) := (splitRows l).mapM rats

def sepSignals (ss : List (List Rat)) : List String :=
  [" ; ".intercalate (ss.map (fun s => " ".intercalate (outRats s)))]

def multipleHandlers : List (String × Handler) := [
  ("section_average", fun
    | [dt, st, en, v] => do
      let dt ← rat1 dt; let st ← rat1 st; let en ← rat1 en; let v ← rats v
      pure (ofExcept (fun r => [[showRat r]]) (Multiple.sectionAverage v dt st en))
    | _ => throw "args"),
  ("section_average_idx", fun
    | [st, en, v] => do
      let st ← int1 st; let en ← int1 en; let v ← rats v
      pure (ofExcept (fun r => [[showRat r]]) (Multiple.sectionAverageIdx v st en))
    | _ => throw "args"),
  ("time_indices", fun
    | [n, dt, st, en] => do
      let n ← nat1 n; let dt ← rat1 dt; let st ← rat1 st; let en ← rat1 en
      pure (ofExcept (fun (a, b) => [outInts [a, b]]) (Multiple.timeIndices n dt st en))
    | _ => throw "args"),
  ("same_start", fun
    | [dt, master, st, en, sigs] => do
      let dt ← rat1 dt; let master ← nat1 master; let st ← rat1 st; let en ← rat1 en
      let sigs ← parseSignals sigs
      pure (ofExcept (fun r => [sepSignals r]) (Multiple.sameStart sigs dt master st en))
    | _ => throw "args"),
  ("time_match", fun
    | [master, steps, sigs] => do
      let master ← nat1 master; let steps ← nat1 steps
      let sigs ← parseSignals sigs
      pure (ofExcept (fun (lag, r) => [[toString lag], sepSignals r]) (Multiple.timeMatch sigs master steps))
    | _ => throw "args"),
  ("combine", fun
    | [c, s, ns, we] => do
      let c ← rat1 c; let s ← rat1 s; let ns ← rats ns; let we ← rats we
      pure (ofExcept (fun r => [outRats r]) (Multiple.combineAtAngle c s ns we))
    | _ => throw "args"),
  ("rotated_degrees", fun
    | [off, points] => do
      let off ← rat1 off; let points ← nat1 points
      pure (.ok [outRats (Multiple.rotatedDegrees off points)])
    | _ => throw "args")
]

def out3 : List Rat × List Rat × List Rat → List (List String)
  | (a, b, c) => [outRats a, outRats b, outRats c]

def spectraHandlers : List (String × Handler) := [
  ("pseudo", fun
    | [twoPi, dt, motion, periods, u] => do
      let twoPi ← rat1 twoPi; let dt ← rat1 dt; let motion ← rats motion; let periods ← rats periods
      let u ← parseSignals u
      pure (ofExcept out3 (SpectraFns.pseudoSpectra twoPi motion dt periods u))
    | _ => throw "args"),
  ("true", fun
    | [dt, motion, periods, u, v, a] => do
      let dt ← rat1 dt; let motion ← rats motion; let periods ← rats periods
      let u ← parseSignals u; let v ← parseSignals v; let a ← parseSignals a
      pure (ofExcept out3 (SpectraFns.trueSpectra motion dt periods u v a))
    | _ => throw "args"),
  ("gen_input", fun
    | [dt, ratio, rt] => do
      let dt ← rat1 dt; let ratio ← rat1 ratio; let rt ← rats rt
      pure (ofExcept (fun (r : SpectraFns.SpecInput Rat) => match r with
          | .raw => [["raw"]]
          | .interp t => [["interp", showRat t]]) (SpectraFns.genSpectrumInput rt dt ratio))
    | _ => throw "args"),
  ("uke", fun
    | [v] => do
      let v ← parseSignals v
      pure (.ok [outRats (SpectraFns.respUkeSpectrum v)])
    | _ => throw "args"),
  ("input_energy", fun
    | [dt, values, v] => do
      let dt ← rat1 dt; let values ← rats values; let v ← parseSignals v
      pure (.ok [outRats (SpectraFns.inputEnergySpectrum values v dt)])
    | _ => throw "args"),
  ("input_energy_series", fun
    | [dt, values, v] => do
      let dt ← rat1 dt; let values ← rats values; let v ← parseSignals v
      pure (.ok [sepSignals (SpectraFns.inputEnergySeries values v dt)])
    | _ => throw "args"),
  ("asi", fun
    | [c, g, ps] => do
      let c ← rat1 c; let g ← rat1 g; let ps ← rats ps
      pure (ofExcept (fun r => [[showRat r]]) (SpectraFns.asi c g ps))
    | _ => throw "args"),
  ("vsi", fun
    | [c, ps] => do
      let c ← rat1 c; let ps ← rats ps
      pure (ofExcept (fun r => [[showRat r]]) (SpectraFns.vsi c ps))
    | _ => throw "args")
]

/-- all handlers of this part; wire names are prefixed with the property (`c17.…`, `c18.…`, `c03.…`) -/
def handlers : List (String × Handler) :=
  singleHandlers.map (fun (n, h) => ("c17." ++ n, h)) ++
  multipleHandlers.map (fun (n, h) => ("c18." ++ n, h)) ++
  spectraHandlers.map (fun (n, h) => ("c03." ++ n, h))


end EqsigVerif.Handlers.Misc
