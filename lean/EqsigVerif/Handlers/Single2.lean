import EqsigVerif.Prelude.Wire
import EqsigVerif.Model.Single2
/-! driver handlers for `Model/Single2.lean` (arithmetic of the in-place mutators of `AccSignal`) -/
namespace EqsigVerif.Handlers.Single2
open EqsigVerif EqsigVerif.Wire EqsigVerif.Model.Single2

/-- the `timezone` argument: no token = `None`, one token = `(t0, None)`, two tokens = `(t0, t1)` -/
def parseTz (l : List String) : Except String Timezone :=
  match l with
  | [] => pure none
  | [a] => do let a ← parseRat a; pure (some (a, none))
  | [a, b] => do let a ← parseRat a; let b ← parseRat b; pure (some (a, some b))
  | _ => throw "timezone: expected 0, 1 or 2 tokens"

def outRec (r : Except ErrKind (List Rat)) : Outcome := ofExcept (fun v => [outRats v]) r

/-- `s2.rebase|<dt>|<values…>` → `ok|<new values…>` -/
def rebaseH : Handler
  | [dt, v] => do
    let dt ← rat1 dt; let v ← rats v
    pure (outRec (rebaseDisplacement v dt))
  | _ => throw "s2.rebase: expected 2 args"

/-- `s2.zero_vel|<dt>|<values…>|<timezone>` -/
def zeroVelH : Handler
  | [dt, v, tz] => do
    let dt ← rat1 dt; let v ← rats v; let tz ← parseTz tz
    pure (outRec (setZeroResidualVelocity v dt tz))
  | _ => throw "s2.zero_vel: expected 3 args"

/-- `s2.zero_vel_k|<dt>|<values…>|<k>`: the default branch (`timezone=None`) with `k = int(abs(post_vel) / (pga * dt / 100))`
supplied (the implementation's binary64 decision) -/
def zeroVelKH : Handler
  | [dt, v, k] => do
    let dt ← rat1 dt; let v ← rats v; let k ← int1 k
    pure (outRec (do
      let vd ← NpS.veloDispE v dt
      let postVel ← NpS.lastE vd.1
      zeroVelWith v dt postVel (some (-(k + 1))) none (k + 1)))
  | _ => throw "s2.zero_vel_k: expected 3 args"

/-- `s2.zero_disp|<dt>|<values…>|<timezone>` -/
def zeroDispH : Handler
  | [dt, v, tz] => do
    let dt ← rat1 dt; let v ← rats v; let tz ← parseTz tz
    pure (outRec (setZeroResidualDisplacement v dt tz))
  | _ => throw "s2.zero_disp: expected 3 args"

/-- `s2.zero_disp_vel|<dt>|<values…>|<timezone>` -/
def zeroDispVelH : Handler
  | [dt, v, tz] => do
    let dt ← rat1 dt; let v ← rats v; let tz ← parseTz tz
    pure (outRec (setZeroResidualDisplacementAndVelocity v dt tz))
  | _ => throw "s2.zero_disp_vel: expected 3 args"

/-- `s2.correct_me|<dt>|<values…>|<detrended displacement…>` (the output of `scipy.signal.detrend` is supplied) -/
def correctMeH : Handler
  | [dt, v, d] => do
    let dt ← rat1 dt; let v ← rats v; let d ← rats d
    pure (outRec (correctMe (fun _ => d) v dt))
  | _ => throw "s2.correct_me: expected 3 args"

/-- `s2.remove_roll|<dt>|<values…>|<V or O>|<freq_window>` -/
def removeRollH : Handler
  | [dt, v, m, fw] => do
    let dt ← rat1 dt; let v ← rats v; let m ← str1 m; let fw ← rat1 fw
    let m ← if m = "V" then pure MType.velocity else if m = "O" then pure MType.other else throw s!"bad mtype '{m}'"
    pure (outRec (removeRollingAverage v dt m fw))
  | _ => throw "s2.remove_roll: expected 4 args"

def handlers : List (String × Handler) :=
  [("s2.rebase", rebaseH), ("s2.zero_vel", zeroVelH), ("s2.zero_vel_k", zeroVelKH), ("s2.zero_disp", zeroDispH),
   ("s2.zero_disp_vel", zeroDispVelH), ("s2.correct_me", correctMeH), ("s2.remove_roll", removeRollH)]

end EqsigVerif.Handlers.Single2
