import EqsigVerif.Prelude.Wire
import EqsigVerif.Prelude.Np
import EqsigVerif.Prelude.Interp
import EqsigVerif.Model.Fns
import EqsigVerif.Model.Im
import EqsigVerif.Model.Peaks
import EqsigVerif.Model.PowerLaw
import EqsigVerif.Model.Switched
import EqsigVerif.Model.TimeStep
import EqsigVerif.Model.TimeShift
import EqsigVerif.Model.Single
import EqsigVerif.Model.Multiple
import EqsigVerif.Model.SpectraFns
import EqsigVerif.Model.Stockwell
import EqsigVerif.Model.Frequency
/-!
# Driver handlers for the NumPy / SciPy prelude (pseudo-property `PRELUDE`, DESIGN §3.2)

Every general-purpose primitive the hand models rely on — the definitions of `Prelude/Np.lean` and
`Prelude/Interp.lean` and the NumPy/SciPy/Python look-alikes defined locally in `Model/*.lean` — is exposed here
*unchanged* at `Rat` (`Nat`/`Int` for index primitives), so that `harness/prelude_check.py` can compare each of
them with the real NumPy/SciPy call on every run.  All names are prefixed `np.`.

Conventions: an optional argument travels as the token `None`; an `Option` result (`nan` of `np.mean`) is
rendered `None`.  A handler never invents behaviour the definition does not claim: where a definition has a
totalised default outside its stated domain (`argmax [] = 0`, `takeIdx` out of range, `addL` on different
lengths, `cumtrapzNoInit []` …) the handler answers with a protocol error (`bad|… outside the modelled domain`)
instead of a value, so such an input can never be "validated" by accident.
-/
namespace EqsigVerif.Handlers.Prelude
open EqsigVerif EqsigVerif.Wire

/-! ### argument / result helpers -/

def optRat (l : List String) : Except String (Option Rat) :=
  match l with
  | ["None"] => pure none
  | [x] => do let r ← parseRat x; pure (some r)
  | _ => throw "expected one rat or None"

def optInt (l : List String) : Except String (Option Int) :=
  match l with
  | ["None"] => pure none
  | [x] => do let r ← parseInt x; pure (some r)
  | _ => throw "expected one int or None"

def showOptRat : Option Rat → String
  | some q => showRat q
  | none => "None"

def outside (name : String) : Except String Outcome := throw s!"{name}: outside the modelled domain"

/-- `<name>|<l…>` → `ok|<f l…>` -/
def listH (name : String) (f : List Rat → List Rat) : Handler
  | [l] => do let l ← rats l; pure (.ok [outRats (f l)])
  | _ => throw s!"{name}: expected 1 arg"

/-- `<name>|<c>|<l…>` → `ok|<f c l…>` -/
def scalarListH (name : String) (f : Rat → List Rat → List Rat) : Handler
  | [c, l] => do let c ← rat1 c; let l ← rats l; pure (.ok [outRats (f c l)])
  | _ => throw s!"{name}: expected 2 args"

/-- `<name>|<l…>` → `ok|<indices…>` -/
def listIdxH (name : String) (f : List Rat → List Nat) : Handler
  | [l] => do let l ← rats l; pure (.ok [outNats (f l)])
  | _ => throw s!"{name}: expected 1 arg"

/-! ### `Prelude/Np.lean` -/

/-- `np.sum|<l…>` → `ok|<Np.sum l>` -/
def sumH : Handler
  | [l] => do let l ← rats l; pure (.ok [[showRat (Np.sum l)]])
  | _ => throw "np.sum: expected 1 arg"

/-- `np.rsum|<l…>` → `ok|<Model.Fns.rsum l>` (`List.sum`, a right fold) -/
def rsumH : Handler
  | [l] => do let l ← rats l; pure (.ok [[showRat (Model.Fns.rsum l)]])
  | _ => throw "np.rsum: expected 1 arg"

/-- `np.cumtrapz|<dx>|<y…>`: `Np.cumtrapz` behind the guard `Model.Im.nonempty?` every caller uses
(SciPy raises `ValueError` on an empty array) -/
def cumtrapzH : Handler
  | [dx, y] => do
    let dx ← rat1 dx; let y ← rats y
    match Model.Im.nonempty? y with
    | .error k => pure (.err k)
    | .ok _ => pure (.ok [outRats (Np.cumtrapz dx y)])
  | _ => throw "np.cumtrapz: expected 2 args"

/-- `np.cumtrapz_noinit|<y…>`: `Model.SpectraFns.cumtrapzNoInit` (non-empty `y`) -/
def cumtrapzNoInitH : Handler
  | [y] => do
    let y ← rats y
    if y.isEmpty then outside "np.cumtrapz_noinit"
    else pure (.ok [outRats (Model.SpectraFns.cumtrapzNoInit y)])
  | _ => throw "np.cumtrapz_noinit: expected 1 arg"

/-- `np.add|<a…>|<b…>` / `np.sub|…` (equal lengths) -/
def zipH (name : String) (f : List Rat → List Rat → List Rat) : Handler
  | [a, b] => do
    let a ← rats a; let b ← rats b
    if a.length ≠ b.length then outside name else pure (.ok [outRats (f a b)])
  | _ => throw s!"{name}: expected 2 args"

/-- `np.max|<l…>` / `np.min|<l…>`; `ValueError` on the empty list -/
def extremumH (name : String) (f : List Rat → Option Rat) : Handler
  | [l] => do
    let l ← rats l
    match f l with
    | some m => pure (.ok [[showRat m]])
    | none => pure (.err .ValueError)
  | _ => throw s!"{name}: expected 1 arg"

/-- `np.argmax|<l…>` / `np.argmin|<l…>` (non-empty) -/
def argH (name : String) (f : List Rat → Nat) : Handler
  | [l] => do
    let l ← rats l
    if l.isEmpty then outside name else pure (.ok [[toString (f l)]])
  | _ => throw s!"{name}: expected 1 arg"

/-- `np.where_gt|<c>|<l…>` → `np.where(l > c)[0]` -/
def whereGtH : Handler
  | [c, l] => do
    let c ← rat1 c; let l ← rats l
    pure (.ok [outNats (Np.whereIdx (fun x => decide (c < x)) l)])
  | _ => throw "np.where_gt: expected 2 args"

/-- `np.take|<l…>|<idx…>` (in-range indices) -/
def takeH : Handler
  | [l, idx] => do
    let l ← rats l; let idx ← nats idx
    if idx.all (· < l.length) then pure (.ok [outRats (Np.takeIdx l idx)]) else outside "np.take"
  | _ => throw "np.take: expected 2 args"

/-- `np.put|<base…>|<idx…>|<vals…>` (in-range indices, `len idx = len vals`) -/
def putH : Handler
  | [base, idx, vals] => do
    let base ← rats base; let idx ← nats idx; let vals ← rats vals
    if idx.all (· < base.length) ∧ idx.length = vals.length then pure (.ok [outRats (Np.putIdx base idx vals)])
    else outside "np.put"
  | _ => throw "np.put: expected 3 args"

/-- `np.pad_right|<l…>|<n>|<z>` / `np.pad_left|…` -/
def padH (name : String) (f : List Rat → Nat → Rat → List Rat) : Handler
  | [l, n, z] => do
    let l ← rats l; let n ← nat1 n; let z ← rat1 z
    pure (.ok [outRats (f l n z)])
  | _ => throw s!"{name}: expected 3 args"

/-- `np.slice|<l…>|<a>|<b>` → `l[a:b]`, non-negative bounds -/
def sliceH : Handler
  | [l, a, b] => do
    let l ← rats l; let a ← nat1 a; let b ← nat1 b
    pure (.ok [outRats (Np.slice l a b)])
  | _ => throw "np.slice: expected 3 args"

/-- `np.arange|<n>` -/
def arangeH : Handler
  | [n] => do let n ← nat1 n; pure (.ok [outNats (Np.arange n)])
  | _ => throw "np.arange: expected 1 arg"

/-! ### `Prelude/Interp.lean` and the local `np.interp` look-alikes -/

/-- `np.interp_unit|<xs…>|<fp…>|<left or None>|<right or None>` -/
def interpUnitH : Handler
  | [xs, fp, l, r] => do
    let xs ← rats xs; let fp ← rats fp; let l ← optRat l; let r ← optRat r
    pure (ofExcept (fun ys => [outRats ys]) (Interp.npInterpUnit xs fp l r))
  | _ => throw "np.interp_unit: expected 4 args"

/-- `np.interp|<xs…>|<xp…>|<fp…>|<left or None>|<right or None>` (`xp` strictly increasing) -/
def interpH : Handler
  | [xs, xp, fp, l, r] => do
    let xs ← rats xs; let xp ← rats xp; let fp ← rats fp; let l ← optRat l; let r ← optRat r
    pure (ofExcept (fun ys => [outRats ys]) (Interp.npInterp xs xp fp l r))
  | _ => throw "np.interp: expected 5 args"

/-- `np.interp_unit_im|<xs…>|<fp…>`: `Model.Im.interpUnit` (non-empty table, clamped) -/
def interpUnitImH : Handler
  | [xs, fp] => do
    let xs ← rats xs; let fp ← rats fp
    if fp.isEmpty then outside "np.interp_unit_im"
    else pure (.ok [outRats (xs.map (Model.Im.interpUnit fp))])
  | _ => throw "np.interp_unit_im: expected 2 args"

/-- `np.interp_nat|<xs…>|<xp…>|<fp…>`: `Model.Peaks.interp` (natural knots, `xp ≠ []`, every `x ≥ xp[0]`,
equal lengths) -/
def interpNatH : Handler
  | [xs, xp, fp] => do
    let xs ← nats xs; let xp ← nats xp; let fp ← rats fp
    match xp with
    | [] => outside "np.interp_nat"
    | x0 :: _ =>
      if xp.length = fp.length ∧ xs.all (x0 ≤ ·) then
        pure (.ok [outRats (xs.map (fun x => Model.Peaks.interp x xp fp))])
      else outside "np.interp_nat"
  | _ => throw "np.interp_nat: expected 3 args"

/-- `np.prev_knot|<is…>|<xs…>|<ys…>`: `Model.PowerLaw.prevKnot` = `interp1d(xs, ys, kind='previous')(i)`
(knot abscissae non-decreasing, `xs[0] ≤ i`, equal lengths, non-empty) -/
def prevKnotH : Handler
  | [is, xs, ys] => do
    let is ← nats is; let xs ← nats xs; let ys ← rats ys
    match xs with
    | [] => outside "np.prev_knot"
    | x0 :: _ =>
      if xs.length = ys.length ∧ is.all (x0 ≤ ·) then
        pure (.ok [outRats (is.map (fun i => Model.PowerLaw.prevKnot i (0 : Rat) (xs.zip ys)))])
      else outside "np.prev_knot"
  | _ => throw "np.prev_knot: expected 3 args"

/-- `np.searchsorted_right|<x…>|<qs…>` (`x` non-decreasing) -/
def searchsortedRightH : Handler
  | [x, qs] => do
    let x ← rats x; let qs ← rats qs
    pure (.ok [outNats (qs.map (Model.Fns.searchsortedRight x))])
  | _ => throw "np.searchsorted_right: expected 2 args"

/-- `np.nearest|<xf…>|<xs…>`: `Model.Fns.nearest` = `np.argmin(np.abs(x - xf))` (non-empty `xf`) -/
def nearestH : Handler
  | [xf, xs] => do
    let xf ← rats xf; let xs ← rats xs
    if xf.isEmpty then outside "np.nearest" else pure (.ok [outNats (xs.map (Model.Fns.nearest xf))])
  | _ => throw "np.nearest: expected 2 args"

/-! ### quadrature, ranges -/

/-- `np.trapz|<dx>|<y…>`: `Model.Im.trapz` -/
def trapzH : Handler
  | [dx, y] => do
    let dx ← rat1 dx; let y ← rats y
    pure (.ok [[showRat (Model.Im.trapz dx y)]])
  | _ => throw "np.trapz: expected 2 args"

/-- `np.trapz_xy|<x…>|<y…>`: `Model.Im.trapezoidXY` (equal lengths) -/
def trapzXYH : Handler
  | [x, y] => do
    let x ← rats x; let y ← rats y
    if x.length ≠ y.length then outside "np.trapz_xy" else pure (.ok [[showRat (Model.Im.trapezoidXY x y)]])
  | _ => throw "np.trapz_xy: expected 2 args"

/-- `np.arange3|<start>|<stop>|<step>`: `Model.Im.arangeQ` / `arangeLen` (`step > 0`) → `ok|<values…>|<len>` -/
def arange3H : Handler
  | [a, b, s] => do
    let a ← rat1 a; let b ← rat1 b; let s ← rat1 s
    if s ≤ 0 then outside "np.arange3"
    else pure (.ok [outRats (Model.Im.arangeQ a b s), [toString (Model.Im.arangeLen a b s)]])
  | _ => throw "np.arange3: expected 3 args"

/-- `np.arange_len|<x>`: `Model.TimeStep.arangeLen` = `len(np.arange(x))` -/
def arangeLenH : Handler
  | [x] => do let x ← rat1 x; pure (.ok [[toString (Model.TimeStep.arangeLen x)]])
  | _ => throw "np.arange_len: expected 1 arg"

/-- `np.trunc|<qs…>`: `Model.TimeStep.truncZ` = `int(x)` = `np.array(x, dtype=int)` -/
def truncH : Handler
  | [qs] => do let qs ← rats qs; pure (.ok [outInts (qs.map Model.TimeStep.truncZ)])
  | _ => throw "np.trunc: expected 1 arg"

/-- `np.linspace|<start>|<stop>|<num>`: `Model.Multiple.linspace` -/
def linspaceH : Handler
  | [a, b, n] => do
    let a ← rat1 a; let b ← rat1 b; let n ← nat1 n
    pure (.ok [outRats (Model.Multiple.linspace a b n)])
  | _ => throw "np.linspace: expected 3 args"

/-- `np.linspace01|<n>`: `Model.Single.linspace01` = `np.linspace(0, 1.0, n)` -/
def linspace01H : Handler
  | [n] => do let n ← nat1 n; pure (.ok [outRats (Model.Single.linspace01 n)])
  | _ => throw "np.linspace01: expected 1 arg"

/-- `np.mod|<xs…>|<m>`: `Model.Multiple.npMod` (`m > 0`) -/
def modH : Handler
  | [xs, m] => do
    let xs ← rats xs; let m ← rat1 m
    if m ≤ 0 then outside "np.mod" else pure (.ok [outRats (xs.map (Model.Multiple.npMod · m))])
  | _ => throw "np.mod: expected 2 args"

/-- `np.rotated_degrees|<off>|<points>`: `np.mod(np.linspace(0-off, 180-off, points), 360)` -/
def rotatedDegreesH : Handler
  | [off, n] => do
    let off ← rat1 off; let n ← nat1 n
    pure (.ok [outRats (Model.Multiple.rotatedDegrees off n)])
  | _ => throw "np.rotated_degrees: expected 2 args"

/-- `np.ceil_log2|<n>` → `ok|<Model.Single.ceilLog2 n> <Model.Frequency.clog2 n>` (`n ≥ 1`) -/
def ceilLog2H : Handler
  | [n] => do
    let n ← nat1 n
    if n = 0 then outside "np.ceil_log2"
    else pure (.ok [[toString (Model.Single.ceilLog2 n), toString (Model.Frequency.clog2 n),
                     toString (Model.Frequency.nextPow2 n)]])
  | _ => throw "np.ceil_log2: expected 1 arg"

/-! ### Python indexing and slicing -/

/-- `np.py_get|<l…>|<i>`: `Model.Fns.pyGet`; `IndexError` out of range -/
def pyGetH : Handler
  | [l, i] => do
    let l ← rats l; let i ← int1 i
    pure (ofExcept (fun (v : Rat) => [[showRat v]]) (Model.Fns.pyGet l i))
  | _ => throw "np.py_get: expected 2 args"

/-- `np.py_slice_to|<l…>|<i>` → `l[:i]` (`Model.Fns.pySliceTo`), `np.py_slice_from` → `l[i:]` -/
def pySlice1H (name : String) (f : List Rat → Int → List Rat) : Handler
  | [l, i] => do let l ← rats l; let i ← int1 i; pure (.ok [outRats (f l i)])
  | _ => throw s!"{name}: expected 2 args"

/-- `np.py_slice|<l…>|<a or None>|<b or None>`: `Model.TimeShift.pySlice` -/
def pySliceH : Handler
  | [l, a, b] => do
    let l ← rats l; let a ← optInt a; let b ← optInt b
    pure (.ok [outRats (Model.TimeShift.pySlice l a b)])
  | _ => throw "np.py_slice: expected 3 args"

/-- `np.py_slice_single|<l…>|<a>|<b>`: `Model.Single.pySlice` -/
def pySliceSingleH : Handler
  | [l, a, b] => do
    let l ← rats l; let a ← int1 a; let b ← int1 b
    pure (.ok [outRats (Model.Single.pySlice l a b)])
  | _ => throw "np.py_slice_single: expected 3 args"

/-- `np.slice_assign|<row…>|<a>|<b>|<src…>`: `Model.TimeShift.sliceAssign` (`row[a:b] = src`); `ValueError`
when `src` cannot be broadcast -/
def sliceAssignH : Handler
  | [row, a, b, src] => do
    let row ← rats row; let a ← int1 a; let b ← int1 b; let src ← rats src
    pure (ofExcept (fun r => [outRats r]) (Model.TimeShift.sliceAssign row a b src))
  | _ => throw "np.slice_assign: expected 4 args"

/-- `np.bcast_add|<row…>|<b…>`: `Model.TimeShift.bcastAddRow` (1-D + 1-D broadcasting) -/
def bcastAddH : Handler
  | [row, b] => do
    let row ← rats row; let b ← rats b
    pure (ofExcept (fun r => [outRats r]) (Model.TimeShift.bcastAddRow row b))
  | _ => throw "np.bcast_add: expected 2 args"

/-- `np.low_idx|<ind>|<gt>`: `Model.Fns.lowIdx` = `np.clip(np.where(gt, ind - 1, ind), 0, None)` -/
def lowIdxH : Handler
  | [ind, gt] => do
    let ind ← nat1 ind; let gt ← bool1 gt
    pure (.ok [[toString (Model.Fns.lowIdx ind gt)]])
  | _ => throw "np.low_idx: expected 2 args"

/-- `np.high_idx|<n>|<ind>|<gt>`: `Model.Fns.highIdx` = `np.clip(np.where(gt, ind, ind + 1), None, n - 1)` -/
def highIdxH : Handler
  | [n, ind, gt] => do
    let n ← nat1 n; let ind ← nat1 ind; let gt ← bool1 gt
    pure (.ok [[toString (Model.Fns.highIdx n ind gt)]])
  | _ => throw "np.high_idx: expected 3 args"

/-! ### matrices, integer arrays, statistics -/

/-- `np.tril_row|<values…>|<i>` / `np.triu_row|…` (`i < len values`) -/
def triRowH (name : String) (f : List Rat → Nat → List Rat) : Handler
  | [v, i] => do
    let v ← rats v; let i ← nat1 i
    if i < v.length then pure (.ok [outRats (f v i)]) else outside name
  | _ => throw s!"{name}: expected 2 args"

/-- `np.toeplitz|<c…>|<r…>` → one output list per row (`Model.Stockwell.toeplitz`, non-empty `c`, `r`) -/
def toeplitzH : Handler
  | [c, r] => do
    let c ← rats c; let r ← rats r
    if c.isEmpty ∨ r.isEmpty then outside "np.toeplitz"
    else pure (.ok ((Model.Stockwell.toeplitz c r).map outRats))
  | _ => throw "np.toeplitz: expected 2 args"

/-- `np.delete|<l…>|<rem…>`: `Model.Switched.npDelete` (in-range positions, duplicates allowed) -/
def deleteH : Handler
  | [l, rem] => do
    let l ← nats l; let rem ← nats rem
    if rem.all (· < l.length) then pure (.ok [outNats (Model.Switched.npDelete l rem)]) else outside "np.delete"
  | _ => throw "np.delete: expected 2 args"

/-- `np.sort|<l…>`: `Model.Switched.sortAsc` -/
def sortH : Handler
  | [l] => do let l ← nats l; pure (.ok [outNats (Model.Switched.sortAsc l)])
  | _ => throw "np.sort: expected 1 arg"

/-- `np.sign|<l…>` → `ok|<Switched.sgn…>|<Peaks.sign…>` -/
def signH : Handler
  | [l] => do
    let l ← rats l
    pure (.ok [outRats (l.map Model.Switched.sgn), outRats (l.map Model.Peaks.sign)])
  | _ => throw "np.sign: expected 1 arg"

/-- `np.max_int|<l…>` / `np.min_int|<l…>`: `Model.TimeShift.maxInt?` / `minInt?`; `ValueError` when empty -/
def extremumIntH (name : String) (f : List Int → Except ErrKind Int) : Handler
  | [l] => do
    let l ← ints l
    pure (ofExcept (fun (m : Int) => [[toString m]]) (f l))
  | _ => throw s!"{name}: expected 1 arg"

/-- `np.mean|<l…>` → `ok|<Fns.mean?> <Single.mean?>` (`None` = `nan` of the empty slice) -/
def meanH : Handler
  | [l] => do
    let l ← rats l
    pure (.ok [[showOptRat (Model.Fns.mean? l), showOptRat (Model.Single.mean? l)]])
  | _ => throw "np.mean: expected 1 arg"

def handlers : List (String × Handler) :=
  [-- Prelude/Np.lean
   ("np.cumsum", listH "np.cumsum" Np.cumsum),
   ("np.sum", sumH), ("np.rsum", rsumH),
   ("np.diff", listH "np.diff" Np.diff),
   ("np.diff_prepend", scalarListH "np.diff_prepend" Np.diffFrom),
   ("np.ediff1d", scalarListH "np.ediff1d" Np.ediff1d),
   ("np.cumtrapz", cumtrapzH), ("np.cumtrapz_noinit", cumtrapzNoInitH),
   ("np.scale", scalarListH "np.scale" Np.scale),
   ("np.sq", listH "np.sq" Np.sq),
   ("np.add", zipH "np.add" Np.addL), ("np.sub", zipH "np.sub" Np.subL),
   ("np.abs", listH "np.abs" Np.absL),
   ("np.max", extremumH "np.max" Np.maxL?), ("np.min", extremumH "np.min" Np.minL?),
   ("np.argmax", argH "np.argmax" Np.argmax), ("np.argmin", argH "np.argmin" Np.argmin),
   ("np.where_eq0", listIdxH "np.where_eq0" (Np.whereIdx (fun x => decide (x = 0)))),
   ("np.where_lt0", listIdxH "np.where_lt0" (Np.whereIdx (fun x => decide (x < 0)))),
   ("np.where_ne0", listIdxH "np.where_ne0" (Np.whereIdx (fun x => decide (x ≠ 0)))),
   ("np.where_gt", whereGtH),
   ("np.take", takeH), ("np.put", putH),
   ("np.pad_right", padH "np.pad_right" Np.padRight), ("np.pad_left", padH "np.pad_left" Np.padLeft),
   ("np.slice", sliceH), ("np.arange", arangeH),
   -- interpolation / search
   ("np.interp_unit", interpUnitH), ("np.interp", interpH), ("np.interp_unit_im", interpUnitImH),
   ("np.interp_nat", interpNatH), ("np.prev_knot", prevKnotH),
   ("np.searchsorted_right", searchsortedRightH), ("np.nearest", nearestH),
   -- quadrature, ranges, scalars
   ("np.trapz", trapzH), ("np.trapz_xy", trapzXYH),
   ("np.arange3", arange3H), ("np.arange_len", arangeLenH), ("np.trunc", truncH),
   ("np.linspace", linspaceH), ("np.linspace01", linspace01H), ("np.mod", modH),
   ("np.rotated_degrees", rotatedDegreesH), ("np.ceil_log2", ceilLog2H),
   -- Python indexing and slicing
   ("np.py_get", pyGetH),
   ("np.py_slice_to", pySlice1H "np.py_slice_to" Model.Fns.pySliceTo),
   ("np.py_slice_from", pySlice1H "np.py_slice_from" Model.Fns.pySliceFrom),
   ("np.py_to_single", pySlice1H "np.py_to_single" Model.Single.pyTo),
   ("np.py_from_single", pySlice1H "np.py_from_single" Model.Single.pyFrom),
   ("np.py_slice", pySliceH), ("np.py_slice_single", pySliceSingleH),
   ("np.slice_assign", sliceAssignH), ("np.bcast_add", bcastAddH),
   ("np.low_idx", lowIdxH), ("np.high_idx", highIdxH),
   -- matrices, integer arrays, statistics
   ("np.tril_row", triRowH "np.tril_row" Model.Fns.trilRow),
   ("np.triu_row", triRowH "np.triu_row" Model.Fns.triuRow),
   ("np.toeplitz", toeplitzH), ("np.delete", deleteH), ("np.sort", sortH), ("np.sign", signH),
   ("np.max_int", extremumIntH "np.max_int" Model.TimeShift.maxInt?),
   ("np.min_int", extremumIntH "np.min_int" Model.TimeShift.minInt?),
   ("np.mean", meanH)]

end EqsigVerif.Handlers.Prelude
