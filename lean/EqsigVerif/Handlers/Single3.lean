import EqsigVerif.Prelude.Wire
import EqsigVerif.Model.Single3
/-! driver handlers for `Model/Single3.lean` (object-level statistics of `AccSignal`, object-level wrappers of `fns/time_step.py`,
index loops of `fns/peaks_and_crossings.py`, `Cluster` helpers of `multiple.py`) -/
namespace EqsigVerif.Handlers.Single3
open EqsigVerif EqsigVerif.Wire EqsigVerif.NpV EqsigVerif.Model.Single3

/-- a possibly non-finite float: `nan` for `none` -/
def showFl : NpS.Fl → String
  | some q => showRat q
  | none => "nan"

/-- `Root.val q` ↦ `v q`; `Root.sqrt r` ↦ `s r` (`s nan` for a non-finite radicand) -/
def outRoot : Root → List String
  | .val q => ["v", showRat q]
  | .sqrt r => ["s", showFl r]

/-- `s3.pgv|<dt>|<values…>` → `ok|<pgv>` -/
def pgvH : Handler
  | [dt, v] => do
    let dt ← rat1 dt; let v ← rats v
    pure (ofExcept (fun p => [[showRat p]]) (pgv v dt))
  | _ => throw "s3.pgv: expected 2 args"

/-- `s3.pgd|<dt>|<values…>` → `ok|<pgd>` -/
def pgdH : Handler
  | [dt, v] => do
    let dt ← rat1 dt; let v ← rats v
    pure (ofExcept (fun p => [[showRat p]]) (pgd v dt))
  | _ => throw "s3.pgd: expected 2 args"

/-- `s3.dur_stats|<T/F: np.trapz exists>|<dt>|<values…>` → `ok|t_b01|a_rms01|t_b05|a_rms05|t_b10|a_rms10|sd_start|sd_end|t_595` -/
def durStatsH : Handler
  | [b, dt, v] => do
    let b ← bool1 b; let dt ← rat1 dt; let v ← rats v
    pure (ofExcept (fun (s : DurationStats) =>
      [[showRat s.t_b01], outRoot s.a_rms01, [showRat s.t_b05], outRoot s.a_rms05, [showRat s.t_b10], outRoot s.a_rms10,
       [showRat s.sd_start], [showRat s.sd_end], [showRat s.t_595]]) (generateDurationStats b v dt))
  | _ => throw "s3.dur_stats: expected 3 args"

/-- `s3.cum_stats|<k>|<dt>|<values…>` → `ok|<arias series…>|<arias>|<cav series…>|<cav>` (`k` = the Arias constant; `1` for the ℚ core) -/
def cumStatsH : Handler
  | [k, dt, v] => do
    let k ← rat1 k; let dt ← rat1 dt; let v ← rats v
    pure (ofExcept (fun (r : List Rat × Rat × List Rat × Rat) => [outRats r.1, [showRat r.2.1], outRats r.2.2.1, [showRat r.2.2.2]])
      (generateCumulativeStats k v dt))
  | _ => throw "s3.cum_stats: expected 3 args"

def handlers3 : List (String × Handler) :=
  [("s3.pgv", pgvH), ("s3.pgd", pgdH), ("s3.dur_stats", durStatsH), ("s3.cum_stats", cumStatsH)]

/-- `s3.time_series|<npts>|<dt>` → `ok|<time…>` (`time_series_from_motion` only uses `len(motion)`) -/
def timeSeriesH : Handler
  | [n, dt] => do
    let n ← nat1 n; let dt ← rat1 dt
    pure (.ok [outRats (timeSeriesFromMotion (List.replicate n 0) dt)])
  | _ => throw "s3.time_series: expected 2 args"

/-- `s3.interp_obj|<values…>|<dt>|<target_dt>|<even>` → `ok|<new values…>|<new dt>` (factor decided on the exact quotient) -/
def interpObjH : Handler
  | [v, dt, t, e] => do
    let v ← rats v; let dt ← rat1 dt; let t ← rat1 t; let e ← bool1 e
    pure (ofExcept (fun (o : List Rat × Rat) => [outRats o.1, [showRat o.2]]) (interpToApproxDtObject v dt t e))
  | _ => throw "s3.interp_obj: expected 4 args"

/-- `s3.interp_obj_f|<values…>|<dt>|<factor>|<even>` (the implementation's factor decision supplied) -/
def interpObjFH : Handler
  | [v, dt, f, e] => do
    let v ← rats v; let dt ← rat1 dt; let f ← rat1 f; let e ← bool1 e
    pure (ofExcept (fun (o : List Rat × Rat) => [outRats o.1, [showRat o.2]]) (interpToApproxDtObjectF v dt f e))
  | _ => throw "s3.interp_obj_f: expected 4 args"

def outPair (r : Except ErrKind (List Int × List Int)) : Outcome := ofExcept (fun o => [outInts o.1, outInts o.2]) r

/-- `s3.zero_peak|<pvals…>|<zvals… or ->|<min_step>` → `ok|<ci…>|<piz…>` -/
def zeroPeakH : Handler
  | [p, z, m] => do
    let p ← rats p
    let z ← (if z = ["-"] then pure none else do let z ← rats z; pure (some z))
    let m ← int1 m
    pure (outPair (getZeroAndPeakArrayIndices p z m))
  | _ => throw "s3.zero_peak: expected 3 args"

/-- `s3.zero_peak_core|<peak_indices…>|<ci…>|<min_step>`: everything after the two callees -/
def zeroPeakCoreH : Handler
  | [p, c, m] => do
    let p ← ints p; let c ← ints c; let m ← int1 m
    pure (outPair (zeroPeakCore p c m))
  | _ => throw "s3.zero_peak_core: expected 3 args"

/-- `s3.major|<y…>|<rtol>|<atol>|<already_diff>|<dx>` → `ok|<inds…>` -/
def majorH : Handler
  | [y, r, a, d, dx] => do
    let y ← rats y; let r ← rat1 r; let a ← rat1 a; let d ← bool1 d; let dx ← rat1 dx
    pure (ofExcept (fun o => [outInts o]) (getMajorChangeIndices y r a d dx))
  | _ => throw "s3.major: expected 5 args"

/-- `s3.values_by_index|<index>|<record 0…>|<record 1…>|…` -/
def valuesByIndexH : Handler
  | i :: recs => do
    let i ← int1 i; let recs ← recs.mapM rats
    pure (ofExcept (fun o => [outRats o]) (valuesByIndex recs i))
  | _ => throw "s3.values_by_index: expected ≥ 1 arg"

/-- a filter outcome: `E <kind>` or the filtered record -/
def parseFilter (l : List String) : Except String (Except ErrKind (List Rat)) :=
  match l with
  | ["E", k] =>
    (match [ErrKind.IndexError, .ValueError, .TypeError, .AssertionError, .ZeroDivisionError, .AttributeError, .Other].find? (fun e => toString e = k) with
     | some e => pure (.error e)
     | none => throw s!"bad error kind '{k}'")
  | _ => do let r ← rats l; pure (.ok r)

/-- `s3.combine|<low_index>|<high_index>|<high-pass outcome>|<low-pass outcome>|<record 0…>|…` → `ok|<motion…>|<record 0 after…>|…`
(the outcomes of the two `butter_pass` calls are supplied) -/
def combineH : Handler
  | lo :: hi :: hp :: lp :: recs => do
    let lo ← int1 lo; let hi ← int1 hi; let hp ← parseFilter hp; let lp ← parseFilter lp; let recs ← recs.mapM rats
    pure (ofExcept (fun (o : List Rat × List (List Rat)) => outRats o.1 :: o.2.map outRats) (combineMotions (fun _ => hp) (fun _ => lp) recs lo hi))
  | _ => throw "s3.combine: expected ≥ 4 args"

/-- `s3.calc_ratios|<ok or E kind>` (outcome of `generate_response_spectrums()`) -/
def calcRatiosH : Handler
  | [o] => do
    let sp ← (if o = ["ok"] then pure (Except.ok ()) else do
      let r ← parseFilter o
      match r with | .error k => pure (Except.error k) | .ok _ => throw "expected ok or E kind")
    pure (ofExcept (fun _ => [[]]) (calculateRatios sp))
  | _ => throw "s3.calc_ratios: expected 1 arg"

def handlers456 : List (String × Handler) :=
  [("s3.time_series", timeSeriesH), ("s3.interp_obj", interpObjH), ("s3.interp_obj_f", interpObjFH), ("s3.zero_peak", zeroPeakH),
   ("s3.zero_peak_core", zeroPeakCoreH), ("s3.major", majorH), ("s3.values_by_index", valuesByIndexH), ("s3.combine", combineH),
   ("s3.calc_ratios", calcRatiosH)]

def handlers : List (String × Handler) := handlers3 ++ handlers456

end EqsigVerif.Handlers.Single3
