import EqsigVerif.Prelude.Wire
import EqsigVerif.Prelude.NpE
import EqsigVerif.Model.SdofLoopGen
/-!
# Driver handlers for the translator-target prelude (pseudo-property `PRELUDE`, DESIGN §3.2) — second part

The combinators the translator plug-ins map Python statements to — `Prelude/NpE.lean` (NumPy / Python primitives
*with* their exceptions) and `Model/SdofLoopGen.lean` (code-shaped loop / 2-D array combinators) — are exposed here
*unchanged* at `Rat` (`Nat`/`Int` for index primitives), so that `harness/prelude_check_e.py` can compare each of
them with the real NumPy / Python expression on every run.  All names are prefixed `np.e.`.

Conventions (those of `Handlers/Prelude.lean`): an `Option` result (`nan` of `np.mean`) is rendered `None`; a
handler never invents behaviour the definition does not claim: where a definition is total but its doc comment
restricts the domain (`setSlice`, `setRowsFrom`) the handler answers `bad|… outside the modelled domain` outside it.
A 2-D array (list of rows) is rendered `<nrows>|<length of each row…>|<flat values, row-major>` (`outRows`), so
that `0 × c`, `r × 0` and ragged results stay distinguishable on the wire.

NOT exposed: `NpE.fft` / `NpE.ifft` (they are `Cplx.dft` / `Cplx.idft` behind an `N = 0` guard; the DFT itself is the
external assumption `FftIsDft`, validated at `Float` by the C06/C07 runs; no existing handler runs the exact rational
DFT, so none is invented here).
-/
namespace EqsigVerif.Handlers.PreludeE
open EqsigVerif EqsigVerif.Wire EqsigVerif.Model.SdofLoopGen

/-! ### argument / result helpers -/

def outside (name : String) : Except String Outcome := throw s!"{name}: outside the modelled domain"

def showOptRat : Option Rat → String
  | some q => showRat q
  | none => "None"

/-- a list of rows as three output fields: `<nrows>`, `<len row0> <len row1> …`, `<flat values>` -/
def outRows (rows : List (List Rat)) : List (List String) :=
  [[toString rows.length], rows.map (fun r => toString r.length), outRats rows.flatten]

/-- `nrows` rows of `ncols` entries each from a flat row-major list (exactly `nrows * ncols` values) -/
def toRows (name : String) (nrows ncols : Nat) (flat : List Rat) : Except String (List (List Rat)) :=
  if flat.length ≠ nrows * ncols then throw s!"{name}: {flat.length} values for a {nrows} x {ncols} array"
  else pure ((List.range nrows).map (fun i => (flat.drop (i * ncols)).take ncols))

/-- `<name>|<l…>` → `ok|<f l…>` -/
def listH (name : String) (f : List Rat → List Rat) : Handler
  | [l] => do let l ← rats l; pure (.ok [outRats (f l)])
  | _ => throw s!"{name}: expected 1 arg"

/-- `<name>|<l…>` → `ok|<value>` / `err|<kind>` -/
def listRatEH (name : String) (f : List Rat → Except ErrKind Rat) : Handler
  | [l] => do let l ← rats l; pure (ofExcept (fun (v : Rat) => [[showRat v]]) (f l))
  | _ => throw s!"{name}: expected 1 arg"

/-- `<name>|<l…>` → `ok|<index>` / `err|<kind>` -/
def listNatEH (name : String) (f : List Rat → Except ErrKind Nat) : Handler
  | [l] => do let l ← rats l; pure (ofExcept (fun (v : Nat) => [[toString v]]) (f l))
  | _ => throw s!"{name}: expected 1 arg"

/-- `<name>|<l…>|<i>` → `ok|<f l i…>` (`i` a Python integer) -/
def listIntH (name : String) (f : List Rat → Int → List Rat) : Handler
  | [l, i] => do let l ← rats l; let i ← int1 i; pure (.ok [outRats (f l i)])
  | _ => throw s!"{name}: expected 2 args"

/-! ### `Prelude/NpE.lean`: integer helpers -/

/-- `np.e.ceil_log2|<n>`: `NpE.ceilLog2` = `int(np.ceil(np.log2(n)))`; `err|Other` (`OverflowError`) for `n = 0` -/
def ceilLog2H : Handler
  | [n] => do let n ← nat1 n; pure (ofExcept (fun (e : Nat) => [[toString e]]) (NpE.ceilLog2 n))
  | _ => throw "np.e.ceil_log2: expected 1 arg"

/-- `np.e.assert|<T/F>`: `NpE.assertE` = `assert b` → `ok|` / `err|AssertionError` -/
def assertH : Handler
  | [b] => do let b ← bool1 b; pure (ofExcept (fun (_ : Unit) => [[]]) (NpE.assertE b))
  | _ => throw "np.e.assert: expected 1 arg"

/-! ### `Prelude/NpE.lean`: partial list operations -/

/-- `np.e.get|<l…>|<i>`: `NpE.getE` = `x[i]`, `i ≥ 0`; `IndexError` out of range -/
def getH : Handler
  | [l, i] => do
    let l ← rats l; let i ← nat1 i
    pure (ofExcept (fun (v : Rat) => [[showRat v]]) (NpE.getE l i))
  | _ => throw "np.e.get: expected 2 args"

/-! ### `Prelude/NpE.lean`: total list operations -/

/-- `np.e.set_slice|<a…>|<lo>|<hi>|<rhs…>`: `NpE.setSlice` = the array after `a[lo:hi] = rhs`
(`lo ≤ hi ≤ len a`, `len rhs = hi - lo`) -/
def setSliceH : Handler
  | [a, lo, hi, rhs] => do
    let a ← rats a; let lo ← nat1 lo; let hi ← nat1 hi; let rhs ← rats rhs
    if lo ≤ hi ∧ hi ≤ a.length ∧ rhs.length = hi - lo then pure (.ok [outRats (NpE.setSlice a lo hi rhs)])
    else outside "np.e.set_slice"
  | _ => throw "np.e.set_slice: expected 4 args"

/-- `np.e.zeros|<n>`: `NpE.zeros` = `np.zeros(n)` -/
def zerosH : Handler
  | [n] => do let n ← nat1 n; pure (.ok [outRats (NpE.zeros n : List Rat)])
  | _ => throw "np.e.zeros: expected 1 arg"

/-- `np.e.drop_last|<l…>|<k>`: `NpE.dropLast` = `x[:-k]`, `k ≥ 0` -/
def dropLastH : Handler
  | [l, k] => do let l ← rats l; let k ← nat1 k; pure (.ok [outRats (NpE.dropLast l k)])
  | _ => throw "np.e.drop_last: expected 2 args"

/-- `np.e.py_bound|<n>|<i>`: `NpE.pyBound` = the clipped start/stop of a Python slice bound on a length-`n` sequence -/
def pyBoundH : Handler
  | [n, i] => do let n ← nat1 n; let i ← int1 i; pure (.ok [[toString (NpE.pyBound n i)]])
  | _ => throw "np.e.py_bound: expected 2 args"

/-- `np.e.ones|<k>`: `NpE.onesE` = `np.ones(k)`; `ValueError` for `k < 0` -/
def onesH : Handler
  | [k] => do
    let k ← int1 k
    pure (ofExcept (fun (l : List Rat) => [outRats l]) (NpE.onesE k))
  | _ => throw "np.e.ones: expected 1 arg"

/-- `np.e.mean|<l…>`: `NpE.mean?` = `np.mean(x)` (`None` = `nan` of the empty array) -/
def meanH : Handler
  | [l] => do let l ← rats l; pure (.ok [[showOptRat (NpE.mean? l)]])
  | _ => throw "np.e.mean: expected 1 arg"

/-! ### `Model/SdofLoopGen.lean` -/

/-- `np.e.for_range|<n>|<c>|<init>|<a…>`: `forRange` = `for i in range(n): st = body i st`, run with three bodies
whose result depends on the order and the number of the iterations:
* `st = st + [i]` from `[]` (the indices visited, in order),
* `st = c * st + i` from `init` (Horner: not commutative in the iterations),
* `a[i + 1] = c * a[i] + a[i + 1]` for `i in range(len(a) - 1)` (the shape of the loop of `sdof.py`: list state,
  reads what the previous iteration wrote).
→ `ok|<indices…>|<horner>|<a after the loop…>` -/
def forRangeH : Handler
  | [n, c, init, a] => do
    let n ← nat1 n; let c ← rat1 c; let init ← rat1 init; let a ← rats a
    let visited : List Nat := forRange n (fun i st => st ++ [i]) []
    let horner : Rat := forRange n (fun i st => c * st + (i : Rat)) init
    let rec1 : List Rat :=
      forRange (a.length - 1) (fun i st => st.set (i + 1) (c * st.getD i 0 + st.getD (i + 1) 0)) a
    pure (.ok [outNats visited, [showRat horner], outRats rec1])
  | _ => throw "np.e.for_range: expected 4 args"

/-- `np.e.zeros2|<r>|<c>`: `zeros2` = `np.zeros([r, c])` → rows (`outRows`) -/
def zeros2H : Handler
  | [r, c] => do let r ← nat1 r; let c ← nat1 c; pure (.ok (outRows (zeros2 r c)))
  | _ => throw "np.e.zeros2: expected 2 args"

/-- `np.e.set_rows_from|<s>|<base…>|<rows…>`: `setRowsFrom` on a 1-D array (`base[s:] = rows`,
`len rows = len base - s`, truncated subtraction as in the definition's doc comment) -/
def setRowsFrom1H : Handler
  | [s, base, rows] => do
    let s ← nat1 s; let base ← rats base; let rows ← rats rows
    if rows.length = base.length - s then pure (.ok [outRats (setRowsFrom s base rows)])
    else outside "np.e.set_rows_from"
  | _ => throw "np.e.set_rows_from: expected 3 args"

/-- `np.e.set_rows_from2|<s>|<ncols>|<nbase>|<base flat…>|<nrows>|<rows flat…>`: `setRowsFrom` on a 2-D array
(list of rows; `nrows = nbase - s`) → rows (`outRows`) -/
def setRowsFrom2H : Handler
  | [s, ncols, nbase, base, nrows, rows] => do
    let s ← nat1 s; let ncols ← nat1 ncols; let nbase ← nat1 nbase; let nrows ← nat1 nrows
    let base ← rats base; let rows ← rats rows
    let base ← toRows "np.e.set_rows_from2" nbase ncols base
    let rows ← toRows "np.e.set_rows_from2" nrows ncols rows
    if rows.length = base.length - s then pure (.ok (outRows (setRowsFrom s base rows)))
    else outside "np.e.set_rows_from2"
  | _ => throw "np.e.set_rows_from2: expected 6 args"

/-- `np.e.unzip3|<nrows>|<ncols>|<u flat…>|<v flat…>|<w flat…>`: `unzip3` of the `nrows` triples
`(u[k], v[k], w[k])` → the three 2-D arrays, each as `outRows` (nine output fields) -/
def unzip3H : Handler
  | [nrows, ncols, u, v, w] => do
    let nrows ← nat1 nrows; let ncols ← nat1 ncols
    let u ← rats u; let v ← rats v; let w ← rats w
    let u ← toRows "np.e.unzip3" nrows ncols u
    let v ← toRows "np.e.unzip3" nrows ncols v
    let w ← toRows "np.e.unzip3" nrows ncols w
    let triples : List (List Rat × List Rat × List Rat) := (u.zip (v.zip w))
    let r := unzip3 triples
    pure (.ok (outRows r.1 ++ outRows r.2.1 ++ outRows r.2.2))
  | _ => throw "np.e.unzip3: expected 5 args"

def handlers : List (String × Handler) :=
  [-- Prelude/NpE.lean
   ("np.e.ceil_log2", ceilLog2H), ("np.e.assert", assertH),
   ("np.e.get", getH),
   ("np.e.last", listRatEH "np.e.last" NpE.lastE),
   ("np.e.max", listRatEH "np.e.max" NpE.maxE),
   ("np.e.argmin", listNatEH "np.e.argmin" NpE.argminE),
   ("np.e.argmax", listNatEH "np.e.argmax" NpE.argmaxE),
   ("np.e.set_slice", setSliceH), ("np.e.zeros", zerosH),
   ("np.e.flip", listH "np.e.flip" NpE.flip),
   ("np.e.drop_last", dropLastH), ("np.e.py_bound", pyBoundH),
   ("np.e.py_slice_to", listIntH "np.e.py_slice_to" NpE.pySliceTo),
   ("np.e.py_slice_from", listIntH "np.e.py_slice_from" NpE.pySliceFrom),
   ("np.e.ones", onesH), ("np.e.mean", meanH),
   -- Model/SdofLoopGen.lean
   ("np.e.for_range", forRangeH), ("np.e.zeros2", zeros2H),
   ("np.e.set_rows_from", setRowsFrom1H), ("np.e.set_rows_from2", setRowsFrom2H),
   ("np.e.unzip3", unzip3H)]

end EqsigVerif.Handlers.PreludeE
