import EqsigVerif.Prelude.Wire
import EqsigVerif.Prelude.Interp
import EqsigVerif.Model.TimeStep
import EqsigVerif.Model.Resample
import EqsigVerif.Prelude.Cplx
/-! driver handlers for `Prelude/Interp.lean` and `Model/TimeStep.lean` -/
namespace EqsigVerif.Handlers.TimeStep
open EqsigVerif EqsigVerif.Wire EqsigVerif.Interp EqsigVerif.Model.TimeStep

/-- optional rational: `-` = absent -/
def optRat (l : List String) : Except String (Option Rat) :=
  match l with
  | ["-"] => pure none
  | [x] => do let r ← parseRat x; pure (some r)
  | _ => throw "expected one rat or '-'"

/-- `interp_unit|<xs…>|<fp…>|<left or ->|<right or ->` → `ok|<ys…>` or `err|ValueError` -/
def interpUnitH : Handler
  | [xs, fp, l, r] => do
    let xs ← rats xs; let fp ← rats fp; let l ← optRat l; let r ← optRat r
    pure (ofExcept (fun ys => [outRats ys]) (npInterpUnit xs fp l r))
  | _ => throw "interp_unit: expected 4 args"

/-- `np_interp|<xs…>|<xp…>|<fp…>|<left or ->|<right or ->` -/
def npInterpH : Handler
  | [xs, xp, fp, l, r] => do
    let xs ← rats xs; let xp ← rats xp; let fp ← rats fp; let l ← optRat l; let r ← optRat r
    pure (ofExcept (fun ys => [outRats ys]) (npInterp xs xp fp l r))
  | _ => throw "np_interp: expected 5 args"

/-- `factor_rule|<dt>|<target>` → `ok|<factor>` -/
def factorRuleH : Handler
  | [dt, t] => do
    let dt ← rat1 dt; let t ← rat1 t
    pure (ofExcept (fun f => [[showRat f]]) (factorRule? dt t))
  | _ => throw "factor_rule: expected 2 args"

/-- `interp_to_approx_dt|<values…>|<dt>|<factor>|<even>` → `ok|<out…>|<new_dt>` -/
def interpToApproxDtH : Handler
  | [v, dt, f, e] => do
    let v ← rats v; let dt ← rat1 dt; let f ← rat1 f; let e ← bool1 e
    pure (ofExcept (fun (o : List Rat × Rat) => [outRats o.1, [showRat o.2]]) (interpToApproxDt v dt f e))
  | _ => throw "interp_to_approx_dt: expected 4 args"

/-- `interp_array_to_approx_dt|<values…>|<dt>|<target>|<even>` → `ok|<out…>|<new_dt>` (decision on the exact quotient) -/
def interpArrayToApproxDtH : Handler
  | [v, dt, t, e] => do
    let v ← rats v; let dt ← rat1 dt; let t ← rat1 t; let e ← bool1 e
    pure (ofExcept (fun (o : List Rat × Rat) => [outRats o.1, [showRat o.2]]) (interpArrayToApproxDt v dt t e))
  | _ => throw "interp_array_to_approx_dt: expected 4 args"

/-- `resample_npts|<n>|<factor>|<even>` → `ok|<num>` -/
def resampleNptsH : Handler
  | [n, f, e] => do
    let n ← nat1 n; let f ← rat1 f; let e ← bool1 e
    pure (ofExcept (fun k => [[toString k]]) (resampleNpts n f e))
  | _ => throw "resample_npts: expected 3 args"

/-- `resample|<num>|<x floats…>` → `ok|<re…>|<im…>` of `Model.Resample.resample` at `Cx Float` (model of `scipy.signal.resample(x, num)`),
or `err|<kind>` -/
def resampleH : Handler
  | [n, xs] => do
    let n ← nat1 n; let xs ← floats xs
    let zs : List (Cplx.Cx Float) := xs.map (fun x => ⟨x, 0.0⟩)
    pure (ofExcept (fun (ys : List (Cplx.Cx Float)) => [outFloats (ys.map (·.re)), outFloats (ys.map (·.im))])
      (EqsigVerif.Model.Resample.resample (α := Float) Cplx.twFloat zs n))
  | _ => throw "resample: expected 2 args"

def handlers : List (String × Handler) :=
  [("interp_unit", interpUnitH), ("np_interp", npInterpH), ("factor_rule", factorRuleH),
   ("interp_to_approx_dt", interpToApproxDtH), ("interp_array_to_approx_dt", interpArrayToApproxDtH),
   ("resample_npts", resampleNptsH), ("resample", resampleH)]

end EqsigVerif.Handlers.TimeStep
