import EqsigVerif.Prelude.Wire
import EqsigVerif.Model.SignalSM
import EqsigVerif.GenGolden.CacheTable
import EqsigVerif.Gen.CacheTable
/-! driver handler for `Model/SignalSM.lean` (C04 / C05 correspondence runs) -/
namespace EqsigVerif.Handlers.SignalSM
open EqsigVerif EqsigVerif.Wire EqsigVerif.Model.SignalSM

def parseStore : String → Except String Store
  | "copy" => pure .copy | "reference" => pure .reference | "inplace" => pure .inplace
  | s => throw s!"bad store {s}"

/-- remove one store from a row (e.g. the `np.array(...)` copy at the end of `set_zero_residual_*`) -/
def dropWrite (tbl : CacheTable) (row inp : String) (st : Store) : CacheTable :=
  { tbl with methods := tbl.methods.map fun m =>
      if m.name == row then { m with writes := m.writes.filter fun w => !(w.input == inp && w.store == st) }
      else m }

/-- table corruptions, by token:
`golden`/`same` (none) | `drop:<row>:<guard>` | `dropall:<guard>` | `store:<row>:<input>:<copy|reference|inplace>`
| `dropwrite:<row>:<input>:<store>` | `nonpts:<row>` -/
def applyVariant (tbl : CacheTable) (v : String) : Except String CacheTable :=
  match v.splitOn ":" with
  | ["golden"] => pure tbl
  | ["same"] => pure tbl
  | ["drop", row, g] => pure (tbl.dropClear row g)
  | ["dropall", g] => pure (tbl.dropClearEverywhere g)
  | ["store", row, inp, st] => do pure (tbl.setStore row inp (← parseStore st))
  | ["dropwrite", row, inp, st] => do pure (dropWrite tbl row inp (← parseStore st))
  | ["nonpts", row] => pure (tbl.dropNpts row)
  | _ => throw s!"bad variant {v}"

/-- Runs the history `ops` (syntax of `parseOp`) on a new object, then reads every quantity of `qs` *on the
resulting state* (the model is pure: a read on a copy).  Outputs: the freshness predictions `q:T|F`; the alias
predictions for `_values`, `_response_times`, `_smooth_fa_freqs`; the write counts of the caller arrays in the
order they were passed (1 = constructor argument). -/
def historyReport (tbl : CacheTable) (ops qs : List String) : Except String (List (List String)) := do
  let (s, _) ← runNamed tbl (init tbl defaultLen) ops
  let preds ← qs.mapM fun q =>
    if (findQ tbl q).isSome then
      let r := step tbl s (.read q)
      match r.2 with
      | some o => pure s!"{q}:{showBool (isFresh tbl r.1 o)}"
      | none => throw "no observation"
    else throw s!"unknown quantity {q}"
  let al (inp : String) := showBool (s.held.contains (s.ident inp))
  pure [preds, [al valuesInput, al "_response_times", al "_smooth_fa_freqs"],
        s.held.reverse.map fun k => toString (s.content k)]

/-- `cache_history|<golden|gen>|<variant tokens…>|<op names…>|<quantities…>`
→ `ok|<q:T/F …>|<alias _values> <alias _response_times> <alias _smooth_fa_freqs>|<content counts…>` -/
def cacheHistoryH : Handler
  | [[which], variants, ops, qs] => do
    let base ← match which with
      | "golden" => pure EqsigVerif.GenGolden.cacheTable
      | "gen" => pure EqsigVerif.Gen.cacheTable
      | _ => throw s!"cache_history: unknown table {which}"
    let tbl ← variants.foldlM applyVariant base
    pure (.ok (← historyReport tbl ops qs))
  | _ => throw "cache_history: expected 4 args"

/-- `cache_table_ok|<golden|gen>` → `ok|<TableOK> <WellFormed> <AllCopies> <InplaceOwned> <NptsOK> <EveryStoreCopies>` -/
def tableOkH : Handler
  | [[which]] => do
    let tbl ← match which with
      | "golden" => pure EqsigVerif.GenGolden.cacheTable
      | "gen" => pure EqsigVerif.Gen.cacheTable
      | _ => throw s!"cache_table_ok: unknown table {which}"
    pure (.ok [[showBool (tableOK tbl), showBool (wellFormed tbl), showBool (copiesOf tbl valuesInput),
                showBool (inplaceOwned tbl), showBool (nptsOK tbl), showBool (everyStoreCopies tbl)]])
  | _ => throw "cache_table_ok: expected 1 arg"

def handlers : List (String × Handler) :=
  [("cache_history", cacheHistoryH), ("cache_table_ok", tableOkH)]

end EqsigVerif.Handlers.SignalSM
