import EqsigVerif.Prelude.Wire
import EqsigVerif.Model.FreqMoments
/-!
driver handlers for `Model/FreqMoments.lean` (C06 Fourier moments / Boore bandwidth / `fas2signal`; C07 `get_sig_freq_range`,
the deprecated smoothing alias, the smoothing-frequency setters of `Signal`) and the new prelude combinators of `Prelude/NpF.lean`.

Complex arrays travel interleaved (`re0 im0 re1 im1 …`), exact handlers (`*_q`) in rationals, `Float` twins (`*_f`) as bit patterns;
an absent optional argument is the token `-`.
-/
namespace EqsigVerif.Handlers.Freq2
open EqsigVerif EqsigVerif.Wire EqsigVerif.Cplx EqsigVerif.Model.FreqMoments

def toCxQ : List Rat → Except String (List (Cx Rat))
  | [] => pure []
  | [_] => throw "odd number of rationals in a complex array"
  | a :: b :: rest => do let r ← toCxQ rest; pure (⟨a, b⟩ :: r)

def toCxF : List Float → Except String (List (Cx Float))
  | [] => pure []
  | [_] => throw "odd number of floats in a complex array"
  | a :: b :: rest => do let r ← toCxF rest; pure (⟨a, b⟩ :: r)

def ofCxF (l : List (Cx Float)) : List Float := l.flatMap (fun z => [z.re, z.im])

def optFloats (l : List String) : Except String (Option (List Float)) :=
  match l with
  | ["-"] => pure none
  | _ => do let v ← floats l; pure (some v)

def piF : Float := 3.141592653589793

/-- principal complex square root (`np.sqrt` on a complex scalar; C99 `csqrt` on finite arguments) -/
def csqrtF (z : Cx Float) : Cx Float :=
  let a := z.re
  let b := z.im
  if a == 0 && b == 0 then ⟨0, b⟩
  else
    let h := Float.sqrt (a * a + b * b)
    if a >= 0 then
      let t := Float.sqrt ((a + h) * 0.5)
      ⟨t, b / (2 * t)⟩
    else
      let t := Float.sqrt ((h - a) * 0.5)
      ⟨Float.abs b / (2 * t), if b < 0 then -t else t⟩

instance : BEq (Cx Rat) := ⟨fun a b => decide (a = b)⟩

/-- `fmoment_q|<hasTrapz T/F>|<pi>|<n>|<freqs>|<fas interleaved>` → `ok|<re> <im>` (complex spectrum, exact) -/
def fmomentQH : Handler
  | [ht, pi, n, fr, fas] => do
    let ht ← bool1 ht; let pi ← rat1 pi; let n ← nat1 n; let fr ← rats fr; let fas ← rats fas; let fas ← toCxQ fas
    pure (ofExcept (fun z => [outRats [z.re, z.im]]) (fourierMoment Cx.ofReal ht pi fr fas n))
  | _ => throw "fmoment_q: expected 5 args"

/-- `fmoment_real_q|<hasTrapz>|<pi>|<n>|<freqs>|<A>` → `ok|<m>` (real spectrum, exact) -/
def fmomentRealQH : Handler
  | [ht, pi, n, fr, a] => do
    let ht ← bool1 ht; let pi ← rat1 pi; let n ← nat1 n; let fr ← rats fr; let a ← rats a
    pure (ofExcept (fun z => [outRats [z]]) (fourierMoment (fun (x : Rat) => x) ht pi fr a n))
  | _ => throw "fmoment_real_q: expected 5 args"

/-- `boore_ratio_q|<hasTrapz>|<pi>|<freqs>|<fas interleaved>` → `ok|<re> <im>|<defined T/F>`: `m2**2/(m0*m4)` (complex, exact) -/
def booreRatioQH : Handler
  | [ht, pi, fr, fas] => do
    let ht ← bool1 ht; let pi ← rat1 pi; let fr ← rats fr; let fas ← rats fas; let fas ← toCxQ fas
    let mom := fourierMoment Cx.ofReal ht pi fr fas
    pure (ofExcept (fun z => [outRats [z.re, z.im], [showBool (booreDefined mom)]]) (booreRatio mom))
  | _ => throw "boore_ratio_q: expected 4 args"

/-- `boore_real_ratio_q|<hasTrapz>|<pi>|<freqs>|<A>` → `ok|<ratio>|<defined>` (real spectrum, exact) -/
def booreRealRatioQH : Handler
  | [ht, pi, fr, a] => do
    let ht ← bool1 ht; let pi ← rat1 pi; let fr ← rats fr; let a ← rats a
    let mom := fourierMoment (fun (x : Rat) => x) ht pi fr a
    pure (ofExcept (fun z => [outRats [z], [showBool (booreDefined mom)]]) (booreRatio mom))
  | _ => throw "boore_real_ratio_q: expected 4 args"

/-- `boore_f|<hasTrapz>|<freqs>|<fas interleaved>` → `ok|<re> <im>` (`get_bandwidth_boore_2003`, `Float` twin) -/
def booreFH : Handler
  | [ht, fr, fas] => do
    let ht ← bool1 ht; let fr ← floats fr; let fas ← floats fas; let fas ← toCxF fas
    pure (ofExcept (fun z => [outFloats [z.re, z.im]]) (boore csqrtF (fourierMoment Cx.ofReal ht piF fr fas)))
  | _ => throw "boore_f: expected 3 args"

/-- `boore_real_f|<hasTrapz>|<freqs>|<A>` → `ok|<b>` (real spectrum, `Float` twin) -/
def booreRealFH : Handler
  | [ht, fr, a] => do
    let ht ← bool1 ht; let fr ← floats fr; let a ← floats a
    pure (ofExcept (fun z => [outFloats [z]]) (boore Float.sqrt (fourierMoment (fun (x : Float) => x) ht piF fr a)))
  | _ => throw "boore_real_f: expected 3 args"

/-- `fas2signal|<isSignal T/F>|<dt>|<fas interleaved>` → `ok|<Signal/AccSignal>|<values interleaved>|<dt>` -/
def fas2signalH : Handler
  | [isS, dt, fas] => do
    let isS ← bool1 isS; let dt ← float1 dt; let fas ← floats fas; let fas ← toCxF fas
    pure (ofExcept (fun (p : SigClass × List (Cx Float) × Float) =>
      [[match p.1 with | .signal => "Signal" | .accSignal => "AccSignal"], outFloats (ofCxF p.2.1), outFloats [p.2.2]])
      (fas2signal twFloat fas dt isS))
  | _ => throw "fas2signal: expected 3 args"

/-- `sig_freq_range_q|<ratio>|<smooth>|<freqs>` → `ok|<f_lo> <f_hi>` (`get_sig_freq_range`, exact) -/
def sigFreqRangeQH : Handler
  | [ratio, sm, fr] => do
    let ratio ← rat1 ratio; let sm ← rats sm; let fr ← rats fr
    pure (ofExcept (fun p => [outRats [p.1, p.2]]) (sigFreqRange sm fr ratio))
  | _ => throw "sig_freq_range_q: expected 3 args"

/-- `gen_smooth_alias_f|<band>|<smooth freqs or ->|<faFreqs>|<A>` (deprecated `generate_smooth_fa_spectrum`, `Float` window) -/
def genSmoothAliasFH : Handler
  | [band, sm, fr, a] => do
    let band ← float1 band; let sm ← optFloats sm; let fr ← floats fr; let a ← floats a
    pure (ofExcept (fun s => [outFloats s]) (generateSmoothFaSpectrum Float.sin Float.log10 sm fr a band))
  | _ => throw "gen_smooth_alias_f: expected 4 args"

def pow10F (y : Float) : Float := Float.pow 10.0 y

/-- `np_linspace_q|<start>|<stop>|<num>` (exact) -/
def linspaceQH : Handler
  | [a, b, n] => do
    let a ← rat1 a; let b ← rat1 b; let n ← nat1 n
    pure (.ok [outRats (NpF.linspace a b n)])
  | _ => throw "np_linspace_q: expected 3 args"

/-- `np_linspace_f|<start>|<stop>|<num>` (`Float`) -/
def linspaceFH : Handler
  | [a, b, n] => do
    let a ← float1 a; let b ← float1 b; let n ← nat1 n
    pure (.ok [outFloats (NpF.linspace a b n)])
  | _ => throw "np_linspace_f: expected 3 args"

/-- `np_logspace_f|<start>|<stop>|<num>` (`Float`, base 10) -/
def logspaceFH : Handler
  | [a, b, n] => do
    let a ← float1 a; let b ← float1 b; let n ← nat1 n
    pure (.ok [outFloats (NpF.logspace pow10F a b n)])
  | _ => throw "np_logspace_f: expected 3 args"

/-- `np_trapz_q|<y>|<x>` → `ok|<v>` or `err|ValueError` (exact) -/
def trapzQH : Handler
  | [y, x] => do
    let y ← rats y; let x ← rats x
    pure (ofExcept (fun v => [outRats [v]]) (NpF.trapzE (2 : Rat) y x))
  | _ => throw "np_trapz_q: expected 2 args"

/-- `np_take_q|<x>|<idx>` → `ok|<values>` or `err|IndexError` -/
def takeQH : Handler
  | [x, idx] => do
    let x ← rats x; let idx ← nats idx
    pure (ofExcept (fun v => [outRats v]) (NpF.takeE x idx))
  | _ => throw "np_take_q: expected 2 args"

/-- `np_pown_q|<x>|<n>` → `ok|<x**n>` -/
def powNQH : Handler
  | [x, n] => do
    let x ← rat1 x; let n ← nat1 n
    pure (.ok [outRats [NpF.powN x n]])
  | _ => throw "np_pown_q: expected 2 args"

/-- `np_mul_bcast_q|<a>|<b>` → `a * b` with 1-D broadcasting (exact) -/
def mulBcastQH : Handler
  | [a, b] => do
    let a ← rats a; let b ← rats b
    pure (ofExcept (fun v => [outRats v]) (NpF.zipBE (fun (x y : Rat) => x * y) a b))
  | _ => throw "np_mul_bcast_q: expected 2 args"

/-- `set_by_range_f|<limits>|<n_points>` → `ok|<_smooth_fa_freqs>|<_smooth_freq_range>` -/
def setByRangeFH : Handler
  | [lim, n] => do
    let lim ← floats lim; let n ← nat1 n
    pure (ofExcept (fun p => [outFloats p.1, outFloats p.2]) (setByRange Float.log10 pow10F lim n))
  | _ => throw "set_by_range_f: expected 2 args"

/-- `freq_range_get_f|<cur>` → `ok|<first> <last>` -/
def freqRangeGetFH : Handler
  | [cur] => do
    let cur ← floats cur
    pure (ofExcept (fun (p : Float × Float) => [outFloats [p.1, p.2]]) (freqRangeGet cur))
  | _ => throw "freq_range_get_f: expected 1 arg"

/-- `freq_range_set_f|<cur>|<limits>` → `ok|<new smooth_fa_freqs>` -/
def freqRangeSetFH : Handler
  | [cur, lim] => do
    let cur ← floats cur; let lim ← floats lim
    pure (ofExcept (fun p => [outFloats p]) (freqRangeSet Float.log10 pow10F cur lim))
  | _ => throw "freq_range_set_f: expected 2 args"

/-- `freq_points_set_f|<cur>|<value>` → `ok|<new smooth_fa_freqs>` -/
def freqPointsSetFH : Handler
  | [cur, v] => do
    let cur ← floats cur; let v ← nat1 v
    pure (ofExcept (fun p => [outFloats p]) (freqPointsSet Float.log10 pow10F cur v))
  | _ => throw "freq_points_set_f: expected 2 args"

/-- `signal_gen_smooth_f|<band>|<faFreqs>|<absFas>|<given or ->|<cur>` → `ok|<smooth spectrum>|<targets>` -/
def signalGenSmoothFH : Handler
  | [band, fr, a, gv, cur] => do
    let band ← float1 band; let fr ← floats fr; let a ← floats a; let gv ← optFloats gv; let cur ← floats cur
    pure (ofExcept (fun p => [outFloats p.1, outFloats p.2]) (signalGenSmooth Float.sin Float.log10 fr a gv cur band))
  | _ => throw "signal_gen_smooth_f: expected 5 args"

def handlers : List (String × Handler) :=
  [("fmoment_q", fmomentQH), ("fmoment_real_q", fmomentRealQH), ("boore_ratio_q", booreRatioQH),
   ("boore_real_ratio_q", booreRealRatioQH), ("boore_f", booreFH), ("boore_real_f", booreRealFH),
   ("fas2signal", fas2signalH), ("sig_freq_range_q", sigFreqRangeQH), ("gen_smooth_alias_f", genSmoothAliasFH),
   ("np_linspace_q", linspaceQH), ("np_linspace_f", linspaceFH), ("np_logspace_f", logspaceFH), ("np_trapz_q", trapzQH),
   ("np_take_q", takeQH), ("np_pown_q", powNQH), ("np_mul_bcast_q", mulBcastQH),
   ("set_by_range_f", setByRangeFH), ("freq_range_get_f", freqRangeGetFH), ("freq_range_set_f", freqRangeSetFH),
   ("freq_points_set_f", freqPointsSetFH), ("signal_gen_smooth_f", signalGenSmoothFH)]

end EqsigVerif.Handlers.Freq2
