import EqsigVerif.Prelude.Wire
import EqsigVerif.Model.Switched
import EqsigVerif.Model.SwitchedOut
/-! driver handlers for `Model/Switched.lean` / `Model/SwitchedOut.lean` (the repaired `get_switched_peak_array_indices`, finding F12-3) -/
namespace EqsigVerif.Handlers.Switched
open EqsigVerif EqsigVerif.Wire EqsigVerif.Model.Switched

/-- `zc|<keepAdj>|<tol>|<v…>` -/
def zcH : Handler
  | [k, tol, v] => do
    let k ← bool1 k
    let tol ← rat1 tol
    let v ← rats v
    pure (ofExcept (fun l => [outNats l]) (zeroCrossingsE v k tol))
  | _ => throw "zc: expected 3 args"

/-- `switched|<tol>|<v…>`: what the public function returns (`switchedPeaksOutE`: the loop, then `np.unique`) -/
def switchedH : Handler
  | [tol, v] => do
    let tol ← rat1 tol
    let v ← rats v
    pure (ofExcept (fun l => [outNats l]) (switchedPeaksOutE v tol))
  | _ => throw "switched: expected 2 args"

/-- `switched_loop|<tol>|<v…>`: the loop's own result (the local `switched_peak_indices` before `np.unique`; `Model.Switched.switchedPeaksE`) -/
def switchedLoopH : Handler
  | [tol, v] => do
    let tol ← rat1 tol
    let v ← rats v
    pure (ofExcept (fun l => [outNats l]) (switchedPeaksE v tol))
  | _ => throw "switched_loop: expected 2 args"

def handlers : List (String × Handler) := [("zc", zcH), ("switched", switchedH), ("switched_loop", switchedLoopH)]

end EqsigVerif.Handlers.Switched
