import EqsigVerif.Prelude.Wire
import EqsigVerif.Model.Switched
/-! driver handlers for `Model/Switched.lean` -/
namespace EqsigVerif.Handlers.Switched
open EqsigVerif EqsigVerif.Wire EqsigVerif.Model.Switched

/-- `zc|<keepAdj>|<tol>|<v…>` -/
def zcH : Handler
  | [k, tol, v] => do
    let k ← bool1 k
    let tol ← rat1 tol
    let v ← rats v
    pure (ofExcept (fun l => [outNats l]) (zeroCrossingsE v k tol))
  | _ => throw "zc: expected 3 args"

/-- `switched|<tol>|<v…>` -/
def switchedH : Handler
  | [tol, v] => do
    let tol ← rat1 tol
    let v ← rats v
    pure (ofExcept (fun l => [outNats l]) (switchedPeaksE v tol))
  | _ => throw "switched: expected 2 args"

def handlers : List (String × Handler) := [("zc", zcH), ("switched", switchedH)]

end EqsigVerif.Handlers.Switched
