import EqsigVerif.Prelude.Wire
import EqsigVerif.Prelude.NpU
/-!
# Driver handlers for `Prelude/NpU.lean` (`np.unique` on index arrays; pseudo-property `PRELUDE`, handlers `np.u.*`)

Exposed unchanged, so that the prelude check can compare them with the real NumPy expression on every run
(generators `g_unique`, `g_dedup_adj` for `harness/prelude_check_p.py`, see NOTES.md of the delivery `fx_f123`).
-/
namespace EqsigVerif.Handlers.PreludeU
open EqsigVerif EqsigVerif.Wire

/-- `np.u.unique|<l…>`: `NpU.unique l` = `np.unique(l)` of a 1-D array of non-negative integers -/
def uniqueH : Handler
  | [l] => do let l ← nats l; pure (.ok [outNats (NpU.unique l)])
  | _ => throw "np.u.unique: expected 1 arg"

/-- `np.u.dedup_adj|<l…>`: `NpU.dedupAdj l` = `l[np.concatenate(([True], l[1:] != l[:-1]))]` (any order of `l`) -/
def dedupAdjH : Handler
  | [l] => do let l ← nats l; pure (.ok [outNats (NpU.dedupAdj l)])
  | _ => throw "np.u.dedup_adj: expected 1 arg"

def handlers : List (String × Handler) := [("np.u.unique", uniqueH), ("np.u.dedup_adj", dedupAdjH)]

end EqsigVerif.Handlers.PreludeU
