import EqsigVerif.Prelude.Wire
import EqsigVerif.Model.Im
/-! driver handlers for `Model/Im.lean` (to be appended to `Handlers.table`) -/
namespace EqsigVerif.Handlers.Im
open EqsigVerif EqsigVerif.Wire EqsigVerif.Model.Im

/-- series built on `cumulative_trapezoid` raise `ValueError` on the empty record -/
def guarded (a : List Rat) (f : List Rat → Outcome) : Outcome :=
  match nonempty? a with
  | .error k => .err k
  | .ok _ => f a

/-- `<name>|<dt>|<a…>` → `ok|<series…>` -/
def seriesH (name : String) (guard : Bool) (f : Rat → List Rat → Except ErrKind (List Rat)) : Handler
  | [dt, a] => do
    let dt ← rat1 dt
    let a ← rats a
    let run := fun a => ofExcept (fun s => [outRats s]) (f dt a)
    pure (if guard then guarded a run else run a)
  | _ => throw s!"{name}: expected 2 args"

def showOpt (o : Option Rat) : String := match o with | some q => showRat q | none => "None"

/-- `peaks|<dt>|<a…>` → `ok|<pga> <pgv> <pgd>`; `ValueError` on the empty record -/
def peaksH : Handler
  | [dt, a] => do
    let dt ← rat1 dt
    let a ← rats a
    match pga a, pgv dt a, pgd dt a with
    | some x, some y, some z => pure (.ok [[showRat x, showRat y, showRat z]])
    | _, _, _ => pure (.err .ValueError)
  | _ => throw "peaks: expected 2 args"

def durOut (se : Bool) (r : Except ErrKind (Rat × Rat)) : Outcome :=
  if se then ofExcept (fun (p : Rat × Rat) => [[showRat p.1, showRat p.2]]) r
  else ofExcept (fun (d : Rat) => [[showRat d]]) (durOf r)

/-- `sig_dur_vals|<se>|<dt>|<start>|<end>|<motion…>` -/
def sigDurValsH : Handler
  | [se, dt, s, e, a] => do
    let se ← bool1 se; let dt ← rat1 dt; let s ← rat1 s; let e ← rat1 e; let a ← rats a
    pure (durOut se (sigDurVals a dt s e))
  | _ => throw "sig_dur_vals: expected 5 args"

/-- `sig_dur|<se>|<dt>|<start>|<end>|<a…>` (default Arias measure) -/
def sigDurH : Handler
  | [se, dt, s, e, a] => do
    let se ← bool1 se; let dt ← rat1 dt; let s ← rat1 s; let e ← rat1 e; let a ← rats a
    pure (guarded a (fun a => durOut se (sigDur a dt s e)))
  | _ => throw "sig_dur: expected 5 args"

/-- `sig_dur_im|<se>|<dt>|<start>|<end>|<im…>` (user supplied cumulative series) -/
def sigDurImH : Handler
  | [se, dt, s, e, im] => do
    let se ← bool1 se; let dt ← rat1 dt; let s ← rat1 s; let e ← rat1 e; let im ← rats im
    pure (durOut se (sigDurSeries im dt s e))
  | _ => throw "sig_dur_im: expected 5 args"

/-- `brac_dur|<se>|<dt>|<thr>|<a…>` → `ok|<t0> <t1>` / `ok|None None` / `ok|<dur>` -/
def bracDurH : Handler
  | [se, dt, thr, a] => do
    let se ← bool1 se; let dt ← rat1 dt; let thr ← rat1 thr; let a ← rats a
    if se then
      match bracDurSE a dt thr with
      | some (s, e) => pure (.ok [[showRat s, showRat e]])
      | none => pure (.ok [["None", "None"]])
    else pure (.ok [[showRat (bracDur a dt thr)]])
  | _ => throw "brac_dur: expected 4 args"

/-- `cav_dp|<pps>|<a…>` -/
def cavDpH : Handler
  | [pps, a] => do
    let pps ← nat1 pps; let a ← rats a
    pure (ofExcept (fun s => [outRats s]) (cavDp a pps))
  | _ => throw "cav_dp: expected 2 args"

/-- `trapz|<dx>|<y…>` → `ok|<np.trapz(y, dx=dx)>` -/
def trapzH : Handler
  | [dx, y] => do
    let dx ← rat1 dx; let y ← rats y
    pure (.ok [[showRat (trapz dx y)]])
  | _ => throw "trapz: expected 2 args"

def handlers : List (String × Handler) :=
  [("trapz", trapzH),
   ("arias_core", seriesH "arias_core" true (fun dt a => .ok (ariasCore dt a))),
   ("cav", seriesH "cav" true (fun dt a => .ok (cav dt a))),
   ("isv", seriesH "isv" true (fun dt a => .ok (isv dt a))),
   ("int_abs_acc", seriesH "int_abs_acc" false (fun dt a => .ok (intAbsAcc dt a))),
   ("int_abs_vel", seriesH "int_abs_vel" true (fun dt a => .ok (intAbsVel dt a))),
   ("unit_ke", seriesH "unit_ke" true (fun dt a => unitKineticEnergy dt a)),
   ("velocity", seriesH "velocity" true (fun dt a => .ok (velocity dt a))),
   ("displacement", seriesH "displacement" true (fun dt a => .ok (displacement dt a))),
   ("peaks", peaksH),
   ("sig_dur_vals", sigDurValsH), ("sig_dur", sigDurH), ("sig_dur_im", sigDurImH),
   ("brac_dur", bracDurH), ("cav_dp", cavDpH)]

end EqsigVerif.Handlers.Im
