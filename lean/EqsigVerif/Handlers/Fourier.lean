import EqsigVerif.Prelude.Wire
import EqsigVerif.Model.Frequency
import EqsigVerif.Model.Stockwell
/-!
driver handlers for `Model/Frequency.lean` (C06, C07) and `Model/Stockwell.lean` (C15).

Complex arrays travel as interleaved floats `re0 im0 re1 im1 …`; matrices as `<nrows>|<ncols>|<flat>`
(row-major for Stockwell arrays, COLUMN-major for the smoothing weights); an absent optional
argument is the token `-`.
-/
namespace EqsigVerif.Handlers.Fourier
open EqsigVerif EqsigVerif.Wire EqsigVerif.Cplx EqsigVerif.Model.Frequency EqsigVerif.Model.Stockwell

def piF : Float := 3.141592653589793

def toCx : List Float → Except String (List (Cx Float))
  | [] => pure []
  | [_] => throw "odd number of floats in a complex array"
  | a :: b :: rest => do let r ← toCx rest; pure (⟨a, b⟩ :: r)

def ofCx (l : List (Cx Float)) : List Float := l.flatMap (fun z => [z.re, z.im])

def realsToCx (l : List Float) : List (Cx Float) := l.map (fun a => ⟨a, 0⟩)

def optNat (l : List String) : Except String (Option Nat) :=
  match l with
  | ["-"] => pure none
  | [x] => do let n ← parseNat x; pure (some n)
  | _ => throw "expected one nat or '-'"

def chunks {γ : Type} (n : Nat) (l : List γ) : List (List γ) :=
  if n = 0 then [] else (List.range (l.length / n)).map (fun i => (l.drop (i * n)).take n)

def outFa (r : Except ErrKind (List (Cx Float) × List Float)) : Outcome :=
  ofExcept (fun p => [outFloats (ofCx p.1), outFloats p.2]) r

/-- `nfactor|<npts>|<p2plus>|<n or ->` → `ok|<N>|<points>|<nextPow2 npts>` -/
def nFactorH : Handler
  | [npts, p2, n] => do
    let npts ← nat1 npts; let p2 ← nat1 p2; let n ← optNat n
    pure (ofExcept (fun N => [[toString N], [toString (points N)], [toString (nextPow2 npts)]]) (nFactor npts p2 n))
  | _ => throw "nfactor: expected 3 args"

/-- `fa_signal|<p2plus>|<n or ->|<dt>|<values…>` → `ok|<fas interleaved>|<freqs>` (`Signal.gen_fa_spectrum`) -/
def faSignalH : Handler
  | [p2, n, dt, v] => do
    let p2 ← nat1 p2; let n ← optNat n; let dt ← float1 dt; let v ← floats v
    pure (outFa (signalGenFaSpectrum twFloat (realsToCx v) dt p2 n))
  | _ => throw "fa_signal: expected 4 args"

/-- `fa_generate|<n_pad T/F>|<dt>|<values…>` (`generate_fa_spectrum`) -/
def faGenerateH : Handler
  | [np, dt, v] => do
    let np ← bool1 np; let dt ← float1 dt; let v ← floats v
    pure (outFa (generateFaSpectrum twFloat (realsToCx v) dt np))
  | _ => throw "fa_generate: expected 3 args"

/-- `fa_calc|<n or ->|<p2plus or ->|<dt>|<values…>` (`calc_fa_spectrum`) -/
def faCalcH : Handler
  | [n, p2, dt, v] => do
    let n ← optNat n; let p2 ← optNat p2; let dt ← float1 dt; let v ← floats v
    pure (outFa (calcFaSpectrum twFloat (realsToCx v) dt n p2))
  | _ => throw "fa_calc: expected 4 args"

/-- `fas2values|<dt>|<fas interleaved>` → `ok|<s interleaved>` -/
def fas2valuesH : Handler
  | [dt, fas] => do
    let dt ← float1 dt; let fas ← floats fas; let fas ← toCx fas
    pure (ofExcept (fun s => [outFloats (ofCx s)]) (fas2values twFloat fas dt))
  | _ => throw "fas2values: expected 2 args"

/-- `max_fa_period|<fas interleaved>|<freqs>` → `ok|inf` or `ok|<T>` -/
def maxFaPeriodH : Handler
  | [fas, fr] => do
    let fas ← floats fas; let fas ← toCx fas; let fr ← floats fr
    pure (ofExcept (fun o => match o with | none => [["inf"]] | some t => [[showFloat t]])
      (maxFaPeriod fas fr))
  | _ => throw "max_fa_period: expected 2 args"

/-- `smooth_core_q|<faFreqs>|<A>|<nrows>|<amp flat, column-major>|<raw flat, column-major>` (exact rationals) -/
def smoothCoreQH : Handler
  | [fr, a, nrows, amp, raw] => do
    let fr ← rats fr; let a ← rats a; let nrows ← nat1 nrows; let amp ← rats amp; let raw ← rats raw
    pure (ofExcept (fun s => [outRats s]) (smoothCore fr a (chunks nrows amp) (chunks nrows raw)))
  | _ => throw "smooth_core_q: expected 5 args"

/-- `smooth_matrix_q|<nrows>|<amp flat>|<raw flat>` → normalised matrix, flat column-major (exact) -/
def smoothMatrixQH : Handler
  | [nrows, amp, raw] => do
    let nrows ← nat1 nrows; let amp ← rats amp; let raw ← rats raw
    pure (.ok [outRats (smoothMatrix (chunks nrows amp) (chunks nrows raw)).flatten])
  | _ => throw "smooth_matrix_q: expected 3 args"

/-- `smooth_w_matrix_q|<A>|<nrows>|<M flat column-major>` (exact) -/
def smoothWithMatrixQH : Handler
  | [a, nrows, m] => do
    let a ← rats a; let nrows ← nat1 nrows; let m ← rats m
    pure (.ok [outRats (smoothWithMatrix a (chunks nrows m))])
  | _ => throw "smooth_w_matrix_q: expected 3 args"

def optFloats (l : List String) : Except String (Option (List Float)) :=
  match l with
  | ["-"] => pure none
  | l => do let x ← floats l; pure (some x)

/-- `smooth_f|<band>|<faFreqs>|<A>|<smooth freqs or ->` (`calc_smooth_fa_spectrum`, `Float` window) -/
def smoothFH : Handler
  | [band, fr, a, sm] => do
    let band ← float1 band; let fr ← floats fr; let a ← floats a; let sm ← optFloats sm
    pure (ofExcept (fun s => [outFloats s]) (calcSmoothFaSpectrum Float.sin Float.log10 fr a sm band))
  | _ => throw "smooth_f: expected 4 args"

/-- `smooth_matrix_f|<band>|<faFreqs>|<smooth freqs or ->` → flat column-major (`calc_smoothing_matrix_konno_1998`) -/
def smoothMatrixFH : Handler
  | [band, fr, sm] => do
    let band ← float1 band; let fr ← floats fr; let sm ← optFloats sm
    pure (ofExcept (fun m => [outFloats m.flatten]) (calcSmoothingMatrix Float.sin Float.log10 fr sm band))
  | _ => throw "smooth_matrix_f: expected 3 args"

/-- `bandwidth_q|<ratio>|<smooth>|<freqs>` → `ok|<fmin> <fmax>` (exact) -/
def bandwidthQH : Handler
  | [ratio, sm, fr] => do
    let ratio ← rat1 ratio; let sm ← rats sm; let fr ← rats fr
    pure (ofExcept (fun p => [outRats [p.1, p.2]]) (bandwidthFreqs sm fr ratio))
  | _ => throw "bandwidth_q: expected 3 args"

def bandwidthFMinQH : Handler
  | [ratio, sm, fr] => do
    let ratio ← rat1 ratio; let sm ← rats sm; let fr ← rats fr
    pure (ofExcept (fun p => [outRats [p]]) (bandwidthFMin sm fr ratio))
  | _ => throw "bandwidth_fmin_q: expected 3 args"

def bandwidthFMaxQH : Handler
  | [ratio, sm, fr] => do
    let ratio ← rat1 ratio; let sm ← rats sm; let fr ← rats fr
    pure (ofExcept (fun p => [outRats [p]]) (bandwidthFMax sm fr ratio))
  | _ => throw "bandwidth_fmax_q: expected 3 args"

/-- `sig_idx_range_q|<ratio>|<smooth>` → `ok|<first> <last>` -/
def sigIdxRangeQH : Handler
  | [ratio, sm] => do
    let ratio ← rat1 ratio; let sm ← rats sm
    pure (ofExcept (fun p => [outNats [p.1, p.2]]) (sigArrayIndexesRange sm ratio))
  | _ => throw "sig_idx_range_q: expected 2 args"

/-- `gaussian|<n_d2>` → `ok|<nrows>|<ncols>|<flat>` (`generate_gaussian`) -/
def gaussianH : Handler
  | [nd2] => do
    let nd2 ← nat1 nd2
    let g : List (List Float) := generateGaussian Float.exp piF nd2
    pure (.ok [[toString g.length], [toString ((g.head?.map List.length).getD 0)], outFloats g.flatten])
  | _ => throw "gaussian: expected 1 arg"

def outStock (r : Except ErrKind (List (List (Cx Float)))) : Outcome :=
  ofExcept (fun s => [[toString s.length], [toString ((s.head?.map List.length).getD 0)],
    outFloats (ofCx s.flatten)]) r

/-- `stockwell|<values…>` → `ok|<nrows>|<ncols>|<flat interleaved>` (`transform`) -/
def stockwellH : Handler
  | [v] => do
    let v ← floats v
    pure (outStock (transform twFloat Float.exp piF (realsToCx v)))
  | _ => throw "stockwell: expected 1 arg"

/-- `stockwell_scipy|<values…>` (`transform_w_scipy_fft`) -/
def stockwellScipyH : Handler
  | [v] => do
    let v ← floats v
    pure (outStock (transformWScipyFft twFloat Float.exp piF (realsToCx v)))
  | _ => throw "stockwell_scipy: expected 1 arg"

/-- `istockwell|<ncols>|<flat interleaved, row-major>` → `ok|<values…>` (`itransform`) -/
def istockwellH : Handler
  | [ncols, flat] => do
    let ncols ← nat1 ncols; let flat ← floats flat; let z ← toCx flat
    pure (ofExcept (fun s => [outFloats s]) (itransform twFloat (chunks ncols z)))
  | _ => throw "istockwell: expected 2 args"

/-- `max_tifq|<dt>|<ncols>|<flat reals, row-major>` → `ok|<freqs…>` (`get_max_tifq_vals_freq` on real magnitudes) -/
def maxTifqH : Handler
  | [dt, ncols, flat] => do
    let dt ← float1 dt; let ncols ← nat1 ncols; let flat ← floats flat
    pure (ofExcept (fun s => [outFloats s]) (getMaxTifqValsFreq Float.abs (chunks ncols flat) dt))
  | _ => throw "max_tifq: expected 3 args"

/-- `max_tifq_cx|<dt>|<ncols>|<flat interleaved, row-major>` (complex entries, `|z|²`) -/
def maxTifqCxH : Handler
  | [dt, ncols, flat] => do
    let dt ← float1 dt; let ncols ← nat1 ncols; let flat ← floats flat; let z ← toCx flat
    pure (ofExcept (fun s => [outFloats s]) (getMaxTifqValsFreq Cx.normSq (chunks ncols z) dt))
  | _ => throw "max_tifq_cx: expected 3 args"

def handlers : List (String × Handler) :=
  [("nfactor", nFactorH), ("fa_signal", faSignalH), ("fa_generate", faGenerateH), ("fa_calc", faCalcH),
   ("fas2values", fas2valuesH), ("max_fa_period", maxFaPeriodH),
   ("smooth_core_q", smoothCoreQH), ("smooth_matrix_q", smoothMatrixQH),
   ("smooth_w_matrix_q", smoothWithMatrixQH), ("smooth_f", smoothFH), ("smooth_matrix_f", smoothMatrixFH),
   ("bandwidth_q", bandwidthQH), ("bandwidth_fmin_q", bandwidthFMinQH), ("bandwidth_fmax_q", bandwidthFMaxQH),
   ("sig_idx_range_q", sigIdxRangeQH),
   ("gaussian", gaussianH), ("stockwell", stockwellH), ("stockwell_scipy", stockwellScipyH),
   ("istockwell", istockwellH), ("max_tifq", maxTifqH), ("max_tifq_cx", maxTifqCxH)]

end EqsigVerif.Handlers.Fourier
